import Chain33Model.Proofs.C03
import Chain33Model.Proofs.C01Batch
/-! Helper lemmas for C02: the root hash computed by `Node.Hash` under any configuration is the pure hash of
the abstract tree. -/
namespace C02
open C01 C03 Node

/-- the hash of the abstract tree: no keys, no prefixes, no cached values. -/
def pureHash (H : Bytes → Bytes) : Node → Bytes
  | .leaf k v _ => H (leafEnc k v)
  | .inner _ ht sz l r _ => H (innerEnc (pureHash H l) (pureHash H r) ht sz)

/-- forget all bookkeeping (`hash`, `persisted`). -/
def erase : Node → Node
  | .leaf k v _ => .leaf k v Meta.fresh
  | .inner k ht sz l r _ => .inner k ht sz (erase l) (erase r) Meta.fresh

theorem pureHash_erase (H : Bytes → Bytes) (t : Node) : pureHash H (erase t) = pureHash H t := by
  induction t with
  | leaf k v m => rfl
  | inner k ht sz l r m ihl ihr => simp [erase, pureHash, ihl, ihr]

/-- "hashed or fresh": the state of a tree between `Load` and `Hash` — untouched subtrees carry consistent keys
(possibly with the prefix of an older height), the nodes on modified paths carry none. -/
def HoF (H : Bytes → Bytes) : Node → Prop
  | .leaf k v m => m.hk = none ∨ Hashed H (.leaf k v m)
  | .inner k ht sz l r m => (m.hk = none ∧ HoF H l ∧ HoF H r) ∨ Hashed H (.inner k ht sz l r m)

theorem hoF_of_hashed {H : Bytes → Bytes} {t : Node} (h : Hashed H t) : HoF H t := by
  cases t with
  | leaf k v m => exact Or.inr h
  | inner k ht sz l r m => exact Or.inr h

theorem HoF.children {H : Bytes → Bytes} {k : Bytes} {ht sz : Nat} {l r : Node} {m : Meta}
    (h : HoF H (.inner k ht sz l r m)) : HoF H l ∧ HoF H r := by
  rcases h with ⟨_, hl, hr⟩ | hh
  · exact ⟨hl, hr⟩
  · exact ⟨hoF_of_hashed hh.1, hoF_of_hashed hh.2.1⟩

theorem HoF.mk {H : Bytes → Bytes} {k : Bytes} {l r : Node} (hl : HoF H l) (hr : HoF H r) :
    HoF H (Node.mk k l r) := Or.inl ⟨rfl, hl, hr⟩

theorem hashed_pure {H : Bytes → Bytes} {t : Node} (hh : Hashed H t) :
    ∃ h, t.info.hk = some h ∧ last32 h = pureHash H t := by
  induction t with
  | leaf k v m =>
    obtain ⟨h, e1, e2⟩ := hh
    exact ⟨h, e1, e2⟩
  | inner k ht sz l r m ihl ihr =>
    obtain ⟨hl, hr, h, lh, rh, e1, e2, e3, e4⟩ := hh
    obtain ⟨lh', f1, f2⟩ := ihl hl
    obtain ⟨rh', g1, g2⟩ := ihr hr
    rw [e2] at f1; cases f1
    rw [e3] at g1; cases g1
    refine ⟨h, e1, ?_⟩
    rw [e4, pureHash, ← f2, ← g2, innerEnc_last32_left, innerEnc_last32_right]

/-- **the key lemma**: whatever the configuration, block height and "root height" used for the prefix decision,
`Node.Hash` turns a hashed-or-fresh tree into a hashed tree whose key ends in the pure hash. -/
theorem hashNode_spec {H : Bytes → Bytes} (hlen : ∀ x, (H x).length = 32) (cfg : Cfg) (bh rh : Nat) (t : Node)
    (hf : HoF H t) :
    Hashed H (hashNode H cfg bh rh t).1 ∧ (hashNode H cfg bh rh t).1.info.hk = some (hashNode H cfg bh rh t).2 ∧
    last32 (hashNode H cfg bh rh t).2 = pureHash H t ∧ erase (hashNode H cfg bh rh t).1 = erase t := by
  induction t with
  | leaf k v m =>
    cases hm : m.hk with
    | some h =>
      have hh : Hashed H (.leaf k v m) := by
        rcases hf with h0 | hh
        · rw [hm] at h0; cases h0
        · exact hh
      obtain ⟨h', e1, e2⟩ := hashed_pure hh
      simp only [Node.info] at e1
      rw [hm] at e1; cases e1
      simp only [hashNode, hm]
      exact ⟨hh, by simp [Node.info, hm], e2, trivial⟩
    | none =>
      simp only [hashNode, hm]
      have hl : last32 (if (cfg.pfx && (0 != rh)) = true then prefixKey true bh ++ H (leafEnc k v) else H (leafEnc k v))
          = H (leafEnc k v) := by
        split
        · exact last32_append (hlen _)
        · exact last32_of_length (hlen _)
      exact ⟨⟨_, rfl, hl⟩, rfl, hl, rfl⟩
  | inner k ht sz l r m ihl ihr =>
    cases hm : m.hk with
    | some h =>
      have hh : Hashed H (.inner k ht sz l r m) := by
        rcases hf with ⟨h0, _, _⟩ | hh
        · rw [hm] at h0; cases h0
        · exact hh
      obtain ⟨h', e1, e2⟩ := hashed_pure hh
      simp only [Node.info] at e1
      rw [hm] at e1; cases e1
      simp only [hashNode, hm]
      exact ⟨hh, by simp [Node.info, hm], e2, trivial⟩
    | none =>
      obtain ⟨hfl, hfr⟩ := hf.children
      obtain ⟨a1, a2, a3, a4⟩ := ihl hfl
      obtain ⟨b1, b2, b3, b4⟩ := ihr hfr
      simp only [hashNode, hm]
      generalize hashNode H cfg bh rh l = pl at a1 a2 a3 a4
      generalize hashNode H cfg bh rh r = pr at b1 b2 b3 b4
      obtain ⟨l', lh⟩ := pl
      obtain ⟨r', rhh⟩ := pr
      simp only at a1 a2 a3 a4 b1 b2 b3 b4 ⊢
      have hl : last32 (if (cfg.pfx && (ht != rh)) = true then prefixKey false bh ++ H (innerEnc lh rhh ht sz)
          else H (innerEnc lh rhh ht sz)) = H (innerEnc lh rhh ht sz) := by
        split
        · exact last32_append (hlen _)
        · exact last32_of_length (hlen _)
      refine ⟨⟨a1, b1, _, lh, rhh, rfl, a2, b2, hl⟩, rfl, ?_, ?_⟩
      · rw [hl, pureHash, ← a3, ← b3, innerEnc_last32_left, innerEnc_last32_right]
      · simp [erase, a4, b4]

/-! ### `set` keeps "hashed or fresh" and commutes with `erase` -/

theorem BalCase.hoF {H : Bytes → Bytes} {k h s l r m n'} (hc : BalCase k h s l r m n')
    (hl : HoF H l) (hr : HoF H r) (hm : m.hk = none) : HoF H n' := by
  cases hc with
  | none => exact Or.inl ⟨hm, hl, hr⟩
  | ll lk lh ls ll lr lm e _ _ =>
    subst e; obtain ⟨a, b⟩ := hl.children
    exact HoF.mk a (HoF.mk b hr)
  | lr lk lh ls ll lm lrk lrh lrs lrl lrr lrm e _ _ =>
    subst e; obtain ⟨a, b⟩ := hl.children; obtain ⟨c, d⟩ := b.children
    exact HoF.mk (HoF.mk a c) (HoF.mk d hr)
  | rr rk rh rs rl rr rm e _ _ =>
    subst e; obtain ⟨a, b⟩ := hr.children
    exact HoF.mk (HoF.mk hl a) b
  | rl rk rh rs rr rm rlk rlh rls rll rlr rlm e _ _ =>
    subst e; obtain ⟨a, b⟩ := hr.children; obtain ⟨c, d⟩ := a.children
    exact HoF.mk (HoF.mk hl c) (HoF.mk d b)

theorem set_hoF {H : Bytes → Bytes} (t : Node) (k v : Bytes) (hf : HoF H t) :
    ∀ t' u, t.set k v = some (t', u) → HoF H t' := by
  induction t with
  | leaf nk nv m =>
    intro t' u e
    simp only [Node.set] at e
    split at e <;> (simp at e; obtain ⟨rfl, rfl⟩ := e)
    · exact Or.inl ⟨rfl, Or.inl rfl, hf⟩
    · exact Or.inl rfl
    · exact Or.inl ⟨rfl, hf, Or.inl rfl⟩
  | inner nk h s l r m ihl ihr =>
    obtain ⟨hl, hr⟩ := hf.children
    intro t' u e
    simp only [Node.set] at e
    split at e
    · cases hs : l.set k v with
      | none => simp [hs] at e
      | some p =>
        obtain ⟨l', ul⟩ := p
        have hl' := ihl hl l' ul hs
        rw [hs] at e
        cases ul with
        | true => simp at e; obtain ⟨rfl, rfl⟩ := e; exact Or.inl ⟨rfl, hl', hr⟩
        | false =>
          obtain ⟨n', hb, hc⟩ := balance_cases nk (max l'.height r.height + 1) (l'.size + r.size) l' r Meta.fresh
          simp only [Node.mk, hb, Option.map_some] at e
          simp at e; obtain ⟨rfl, rfl⟩ := e
          exact BalCase.hoF hc hl' hr rfl
    · cases hs : r.set k v with
      | none => simp [hs] at e
      | some p =>
        obtain ⟨r', ur⟩ := p
        have hr' := ihr hr r' ur hs
        rw [hs] at e
        cases ur with
        | true => simp at e; obtain ⟨rfl, rfl⟩ := e; exact Or.inl ⟨rfl, hl, hr'⟩
        | false =>
          obtain ⟨n', hb, hc⟩ := balance_cases nk (max l.height r'.height + 1) (l.size + r'.size) l r' Meta.fresh
          simp only [Node.mk, hb, Option.map_some] at e
          simp at e; obtain ⟨rfl, rfl⟩ := e
          exact BalCase.hoF hc hl hr' rfl

@[simp] theorem height_erase (t : Node) : (erase t).height = t.height := by cases t <;> rfl
@[simp] theorem size_erase (t : Node) : (erase t).size = t.size := by cases t <;> rfl

theorem erase_mk (k : Bytes) (l r : Node) : erase (Node.mk k l r) = Node.mk k (erase l) (erase r) := by
  simp [Node.mk, erase]

theorem BalCase.erase {k h s l r m n'} (hc : BalCase k h s l r m n') :
    BalCase k h s (erase l) (erase r) Meta.fresh (erase n') := by
  cases hc with
  | none h1 h2 => exact .none (by simpa using h1) (by simpa using h2)
  | ll lk lh ls ll lr lm e h1 h2 =>
    subst e
    simp only [erase_mk]
    exact .ll lk lh ls (C02.erase ll) (C02.erase lr) Meta.fresh rfl (by simpa using h1) (by simpa using h2)
  | lr lk lh ls ll lm lrk lrh lrs lrl lrr lrm e h1 h2 =>
    subst e
    simp only [erase_mk]
    exact .lr lk lh ls (C02.erase ll) Meta.fresh lrk lrh lrs (C02.erase lrl) (C02.erase lrr) Meta.fresh rfl
      (by simpa using h1) (by simpa using h2)
  | rr rk rh rs rl rr rm e h1 h2 =>
    subst e
    simp only [erase_mk]
    exact .rr rk rh rs (C02.erase rl) (C02.erase rr) Meta.fresh rfl (by simpa using h1) (by simpa using h2)
  | rl rk rh rs rr rm rlk rlh rls rll rlr rlm e h1 h2 =>
    subst e
    simp only [erase_mk]
    exact .rl rk rh rs (C02.erase rr) Meta.fresh rlk rlh rls (C02.erase rll) (C02.erase rlr) Meta.fresh rfl
      (by simpa using h1) (by simpa using h2)

/-- the outcome of `balance` is determined by the case analysis (the five cases are mutually exclusive). -/
theorem BalCase.unique {k h s l r m n1 n2} (h1 : BalCase k h s l r m n1) (h2 : BalCase k h s l r m n2) : n1 = n2 := by
  cases h1 with
  | none a1 a2 =>
    cases h2 with
    | none => rfl
    | ll _ _ _ _ _ _ _ b1 _ => omega
    | lr _ _ _ _ _ _ _ _ _ _ _ _ b1 _ => omega
    | rr _ _ _ _ _ _ _ b1 _ => omega
    | rl _ _ _ _ _ _ _ _ _ _ _ _ b1 _ => omega
  | ll lk lh ls ll lr lm e1 a1 a2 =>
    cases h2 with
    | none b1 b2 => omega
    | ll _ _ _ _ _ _ e2 b1 _ => rw [e1] at e2; cases e2; rfl
    | lr _ _ _ _ _ _ _ _ _ _ _ e2 b1 b2 => rw [e1] at e2; cases e2; simp at a2; omega
    | rr _ _ _ _ _ _ _ b1 _ => omega
    | rl _ _ _ _ _ _ _ _ _ _ _ _ b1 _ => omega
  | lr lk lh ls ll lm lrk lrh lrs lrl lrr lrm e1 a1 a2 =>
    cases h2 with
    | none b1 b2 => omega
    | ll _ _ _ _ _ _ e2 b1 b2 => rw [e1] at e2; cases e2; simp at b2; omega
    | lr _ _ _ _ _ _ _ _ _ _ _ e2 b1 b2 => rw [e1] at e2; cases e2; rfl
    | rr _ _ _ _ _ _ _ b1 _ => omega
    | rl _ _ _ _ _ _ _ _ _ _ _ _ b1 _ => omega
  | rr rk rh rs rl rr rm e1 a1 a2 =>
    cases h2 with
    | none b1 b2 => omega
    | ll _ _ _ _ _ _ _ b1 _ => omega
    | lr _ _ _ _ _ _ _ _ _ _ _ _ b1 _ => omega
    | rr _ _ _ _ _ _ e2 b1 _ => rw [e1] at e2; cases e2; rfl
    | rl _ _ _ _ _ _ _ _ _ _ _ e2 b1 b2 => rw [e1] at e2; cases e2; simp at a2; omega
  | rl rk rh rs rr rm rlk rlh rls rll rlr rlm e1 a1 a2 =>
    cases h2 with
    | none b1 b2 => omega
    | ll _ _ _ _ _ _ _ b1 _ => omega
    | lr _ _ _ _ _ _ _ _ _ _ _ _ b1 _ => omega
    | rr _ _ _ _ _ _ e2 b1 b2 => rw [e1] at e2; cases e2; simp at b2; omega
    | rl _ _ _ _ _ _ _ _ _ _ _ e2 b1 b2 => rw [e1] at e2; cases e2; rfl

theorem erase_balance {k : Bytes} {h s : Nat} {l r : Node} {m : Meta} {n' : Node}
    (hb : balance (.inner k h s l r m) = some n') :
    balance (.inner k h s (erase l) (erase r) Meta.fresh) = some (erase n') := by
  obtain ⟨n1, e1, c1⟩ := balance_cases k h s l r m
  rw [hb] at e1; cases e1
  obtain ⟨n2, e2, c2⟩ := balance_cases k h s (erase l) (erase r) Meta.fresh
  rw [e2, BalCase.unique c2 (BalCase.erase c1)]

/-- `set` does not look at the bookkeeping fields: it commutes with `erase`. -/
theorem erase_set (t : Node) (k v : Bytes) :
    ∀ t' u, t.set k v = some (t', u) → (erase t).set k v = some (erase t', u) := by
  induction t with
  | leaf nk nv m =>
    intro t' u e
    simp only [Node.set, erase] at e ⊢
    split at e <;> (rename_i hc; simp at e; obtain ⟨rfl, rfl⟩ := e; simp [hc, erase])
  | inner nk h s l r m ihl ihr =>
    intro t' u e
    simp only [Node.set, erase] at e ⊢
    split at e
    · rename_i hk
      simp only [hk, if_true]
      cases hs : l.set k v with
      | none => simp [hs] at e
      | some p =>
        obtain ⟨l', ul⟩ := p
        rw [hs] at e
        rw [ihl l' ul hs]
        cases ul with
        | true => simp at e; obtain ⟨rfl, rfl⟩ := e; simp [erase]
        | false =>
          simp only at e ⊢
          cases hb : balance (Node.mk nk l' r) with
          | none => simp [hb] at e
          | some n' =>
            simp [hb] at e; obtain ⟨rfl, rfl⟩ := e
            have := erase_balance (m := Meta.fresh) (show balance (.inner nk _ _ l' r Meta.fresh) = some n' from hb)
            simp only [Node.mk, height_erase, size_erase] at this ⊢
            simp [this]
    · rename_i hk
      simp only [hk, if_false]
      cases hs : r.set k v with
      | none => simp [hs] at e
      | some p =>
        obtain ⟨r', ur⟩ := p
        rw [hs] at e
        rw [ihr r' ur hs]
        cases ur with
        | true => simp at e; obtain ⟨rfl, rfl⟩ := e; simp [erase]
        | false =>
          simp only at e ⊢
          cases hb : balance (Node.mk nk l r') with
          | none => simp [hb] at e
          | some n' =>
            simp [hb] at e; obtain ⟨rfl, rfl⟩ := e
            have := erase_balance (m := Meta.fresh) (show balance (.inner nk _ _ l r' Meta.fresh) = some n' from hb)
            simp only [Node.mk, height_erase, size_erase] at this ⊢
            simp [this]

/-- `set` of an erased-equal tree gives an erased-equal tree. -/
theorem set_erase_congr {t1 t2 : Node} (he : erase t1 = erase t2) (k v : Bytes) :
    ∀ t1' u, t1.set k v = some (t1', u) → ∃ t2', t2.set k v = some (t2', u) ∧ erase t1' = erase t2' := by
  intro t1' u e1
  have h1 := erase_set t1 k v t1' u e1
  obtain ⟨⟨t2', u2⟩, e2⟩ := set_isSome t2 k v
  have h2 := erase_set t2 k v t2' u2 e2
  rw [he] at h1
  rw [h1] at h2
  simp at h2
  exact ⟨t2', by rw [e2, h2.2], h2.1⟩

/-- the root of a tree as `Node.set` leaves it carries no hash yet. -/
theorem set_root_fresh (t : Node) (k v : Bytes) : ∀ t' u, t.set k v = some (t', u) → t'.info.hk = none := by
  intro t' u e
  cases t with
  | leaf nk nv m =>
    simp only [Node.set] at e
    split at e <;> (simp at e; obtain ⟨rfl, rfl⟩ := e; rfl)
  | inner nk h s l r m =>
    simp only [Node.set] at e
    split at e
    · cases hs : l.set k v with
      | none => simp [hs] at e
      | some p =>
        obtain ⟨l', ul⟩ := p
        rw [hs] at e
        cases ul with
        | true => simp at e; obtain ⟨rfl, rfl⟩ := e; rfl
        | false =>
          obtain ⟨n', hb, hc⟩ := balance_cases nk (max l'.height r.height + 1) (l'.size + r.size) l' r Meta.fresh
          simp only [Node.mk, hb, Option.map_some] at e
          simp at e; obtain ⟨rfl, rfl⟩ := e
          cases hc <;> rfl
    · cases hs : r.set k v with
      | none => simp [hs] at e
      | some p =>
        obtain ⟨r', ur⟩ := p
        rw [hs] at e
        cases ur with
        | true => simp at e; obtain ⟨rfl, rfl⟩ := e; rfl
        | false =>
          obtain ⟨n', hb, hc⟩ := balance_cases nk (max l.height r'.height + 1) (l.size + r'.size) l r' Meta.fresh
          simp only [Node.mk, hb, Option.map_some] at e
          simp at e; obtain ⟨rfl, rfl⟩ := e
          cases hc <;> rfl

/-! ### two stores with different configurations / block heights, same writes -/

/-- a root key, when present, is exactly the pure hash (the root never gets the height prefix). -/
def RootOK (H : Bytes → Bytes) (n : Node) : Prop := ∀ h, n.info.hk = some h → h = pureHash H n

/-- the relation kept between the state trees of two stores that received the same writes. -/
def Rel (H : Bytes → Bytes) : Tree → Tree → Prop
  | none, none => True
  | some n1, some n2 => erase n1 = erase n2 ∧ HoF H n1 ∧ HoF H n2 ∧ RootOK H n1 ∧ RootOK H n2
  | _, _ => False

theorem pureHash_congr {H : Bytes → Bytes} {n1 n2 : Node} (he : erase n1 = erase n2) :
    pureHash H n1 = pureHash H n2 := by
  rw [← pureHash_erase H n1, ← pureHash_erase H n2, he]

theorem Tree.set_rel {H : Bytes → Bytes} {t1 t2 : Tree} (hr : Rel H t1 t2) (k v : Bytes) :
    ∀ t1' u, Tree.set t1 k v = some (t1', u) → ∃ t2', Tree.set t2 k v = some (t2', u) ∧ Rel H t1' t2' := by
  intro t1' u e
  cases t1 with
  | none =>
    cases t2 with
    | none =>
      simp only [Tree.set] at e
      simp at e; obtain ⟨rfl, rfl⟩ := e
      refine ⟨_, rfl, rfl, Or.inl rfl, Or.inl rfl, ?_, ?_⟩ <;>
        (intro h x; simp [Node.info, Meta.fresh] at x)
    | some n2 => exact absurd hr (by simp [Rel])
  | some n1 =>
    cases t2 with
    | none => exact absurd hr (by simp [Rel])
    | some n2 =>
      obtain ⟨he, f1, f2, _, _⟩ := hr
      simp only [Tree.set] at e ⊢
      cases hs : n1.set k v with
      | none => simp [hs] at e
      | some p =>
        obtain ⟨n1', u1⟩ := p
        simp [hs] at e; obtain ⟨rfl, rfl⟩ := e
        obtain ⟨n2', e2, he'⟩ := set_erase_congr he k v n1' u1 hs
        refine ⟨some n2', by simp [e2], he', set_hoF n1 k v f1 n1' u1 hs, set_hoF n2 k v f2 n2' u1 e2, ?_, ?_⟩
        · intro h x; rw [set_root_fresh n1 k v n1' u1 hs] at x; cases x
        · intro h x; rw [set_root_fresh n2 k v n2' u1 e2] at x; cases x

theorem Tree.setMany_rel {H : Bytes → Bytes} (kvs : List (Bytes × Bytes)) {t1 t2 : Tree} (hr : Rel H t1 t2) :
    ∀ t1', Tree.setMany t1 kvs = some t1' → ∃ t2', Tree.setMany t2 kvs = some t2' ∧ Rel H t1' t2' := by
  induction kvs generalizing t1 t2 with
  | nil => intro t1' e; simp [Tree.setMany] at e; subst e; exact ⟨t2, rfl, hr⟩
  | cons kv rest ih =>
    obtain ⟨k, v⟩ := kv
    intro t1' e
    simp only [Tree.setMany] at e ⊢
    cases hs : Tree.set t1 k v with
    | none => simp [hs] at e
    | some p =>
      obtain ⟨ta, u⟩ := p
      rw [hs] at e
      obtain ⟨tb, e2, hr'⟩ := Tree.set_rel hr k v ta u hs
      rw [e2]
      exact ih hr' t1' e

/-- on a tree whose root key (if any) is the pure hash, `Tree.Hash` returns exactly the pure hash — under every
configuration and block height. -/
theorem hashRoot_exact {H : Bytes → Bytes} (hlen : ∀ x, (H x).length = 32) (cfg : Cfg) (bh : Nat) (n : Node)
    (hf : HoF H n) (hro : RootOK H n) : (hashRoot H cfg bh n).2 = pureHash H n := by
  obtain ⟨_, _, h3, _⟩ := hashNode_spec hlen cfg bh n.height n hf
  unfold hashRoot at *
  cases n with
  | leaf k v m =>
    cases hm : m.hk with
    | some h => simp only [hashNode, hm]; exact hro h (by simp [Node.info, hm])
    | none => simp [hashNode, hm, pureHash]
  | inner k ht sz l r m =>
    cases hm : m.hk with
    | some h => simp only [hashNode, hm]; exact hro h (by simp [Node.info, hm])
    | none =>
      simp only [hashNode, hm, height_inner, bne_self_eq_false, Bool.and_false, Bool.false_eq_true, if_false] at h3 ⊢
      rw [last32_of_length (hlen _)] at h3
      exact h3

theorem applyBlock_rel {H : Bytes → Bytes} (hlen : ∀ x, (H x).length = 32) (c1 c2 : Cfg) (b1 b2 : Nat)
    (kvs : List (Bytes × Bytes)) {t1 t2 : Tree} (hr : Rel H t1 t2) :
    ∀ t1' r1, applyBlock H c1 b1 t1 kvs = some (t1', r1) →
      ∃ t2', applyBlock H c2 b2 t2 kvs = some (t2', r1) ∧ Rel H t1' t2' := by
  intro t1' r1 e
  unfold applyBlock at e ⊢
  cases hs : Tree.setMany t1 kvs with
  | none => simp [hs] at e
  | some ta =>
    obtain ⟨tb, e2, hr'⟩ := Tree.setMany_rel kvs hr ta hs
    rw [hs] at e
    rw [e2]
    cases ta with
    | none =>
      cases tb with
      | none => simp at e; obtain ⟨rfl, rfl⟩ := e; exact ⟨none, rfl, trivial⟩
      | some nb => exact absurd hr' (by simp [Rel])
    | some na =>
      cases tb with
      | none => exact absurd hr' (by simp [Rel])
      | some nb =>
        obtain ⟨he, f1, f2, o1, o2⟩ := hr'
        simp only at e ⊢
        have x1 := hashRoot_exact hlen c1 b1 na f1 o1
        have x2 := hashRoot_exact hlen c2 b2 nb f2 o2
        obtain ⟨p1, p2, _, p4⟩ := hashNode_spec hlen c1 b1 na.height na f1
        obtain ⟨q1, q2, _, q4⟩ := hashNode_spec hlen c2 b2 nb.height nb f2
        change Hashed H (hashRoot H c1 b1 na).1 at p1
        change (hashRoot H c1 b1 na).1.info.hk = some (hashRoot H c1 b1 na).2 at p2
        change erase (hashRoot H c1 b1 na).1 = erase na at p4
        change Hashed H (hashRoot H c2 b2 nb).1 at q1
        change (hashRoot H c2 b2 nb).1.info.hk = some (hashRoot H c2 b2 nb).2 at q2
        change erase (hashRoot H c2 b2 nb).1 = erase nb at q4
        generalize hashRoot H c1 b1 na = pa at *
        generalize hashRoot H c2 b2 nb = pb at *
        obtain ⟨na', ra⟩ := pa
        obtain ⟨nb', rb⟩ := pb
        simp only at *
        simp at e; obtain ⟨rfl, rfl⟩ := e
        refine ⟨some nb', ?_, ?_⟩
        · rw [x2, ← pureHash_congr he, ← x1]
        · refine ⟨by rw [p4, q4, he], hoF_of_hashed p1, hoF_of_hashed q1, ?_, ?_⟩
          · intro h hh; rw [p2] at hh; cases hh; rw [x1]; exact (pureHash_congr p4).symm
          · intro h hh; rw [q2] at hh; cases hh; rw [x2]; exact (pureHash_congr q4).symm

theorem roots_rel {H : Bytes → Bytes} (hlen : ∀ x, (H x).length = 32) (c1 c2 : Cfg)
    (blocks : List (Nat × Nat × List (Bytes × Bytes))) :
    ∀ {t1 t2 : Tree}, Rel H t1 t2 → ∀ rs, roots H c1 t1 (blocks.map fun b => (b.1, b.2.2)) = some rs →
      roots H c2 t2 (blocks.map fun b => (b.2.1, b.2.2)) = some rs := by
  induction blocks with
  | nil => intro t1 t2 _ rs e; simpa [roots] using e
  | cons b rest ih =>
    obtain ⟨b1, b2, kvs⟩ := b
    intro t1 t2 hr rs e
    simp only [List.map_cons, roots] at e ⊢
    cases ha : applyBlock H c1 b1 t1 kvs with
    | none => simp [ha] at e
    | some p =>
      obtain ⟨t1', r1⟩ := p
      rw [ha] at e
      obtain ⟨t2', e2, hr'⟩ := applyBlock_rel hlen c1 c2 b1 b2 kvs hr t1' r1 ha
      rw [e2]
      simp only at e ⊢
      cases hx : roots H c1 t1' (rest.map fun b => (b.1, b.2.2)) with
      | none => simp [hx] at e
      | some rs' =>
        rw [hx] at e
        rw [ih hr' rs' hx]
        exact e

theorem lookupTree_storeTree (ts : List (Bytes × Option Node)) (h : Bytes) (t : Option Node) :
    lookupTree (storeTree ts h t) h = some t := by
  simp [lookupTree, storeTree]

/-- "hashed or fresh" for a whole state tree. -/
def HoFT (H : Bytes → Bytes) : Tree → Prop
  | none => True
  | some n => HoF H n

theorem Tree.setMany_hoF {H : Bytes → Bytes} (kvs : List (Bytes × Bytes)) :
    ∀ t : Tree, HoFT H t → ∀ t', Tree.setMany t kvs = some t' → HoFT H t' := by
  induction kvs with
  | nil => intro t h t' e; simp [Tree.setMany] at e; subst e; exact h
  | cons kv rest ih =>
    obtain ⟨k, v⟩ := kv
    intro t h t' e
    simp only [Tree.setMany] at e
    cases hs : Tree.set t k v with
    | none => simp [hs] at e
    | some p =>
      obtain ⟨t1, u⟩ := p
      simp only [hs] at e
      refine ih t1 ?_ t' e
      cases t with
      | none => simp [Tree.set] at hs; obtain ⟨rfl, _⟩ := hs; exact Or.inl rfl
      | some n =>
        simp only [Tree.set] at hs
        cases hn : n.set k v with
        | none => simp [hn] at hs
        | some q =>
          obtain ⟨n', u'⟩ := q
          simp [hn] at hs
          obtain ⟨rfl, _⟩ := hs
          exact set_hoF n k v h n' u' hn

/-! ### the abstract memTree protocol: `MemOK` at quiescent points -/
namespace Mem

theorem find_filter_ne {t : Tbl} {k k' : Key} {r : Rec} (h : find (t.filter (fun p => p.1 != k)) k' = some r) :
    find t k' = some r := by
  induction t with
  | nil => simp [find] at h
  | cons a rest ih =>
    obtain ⟨ak, ar⟩ := a
    by_cases e : ak = k
    · subst e
      rw [List.filter_cons_of_neg (by simp)] at h
      have := ih h
      by_cases e2 : ak = k'
      · subst e2
        -- k' was filtered out everywhere: the filtered table has no entry for it
        exfalso
        clear ih this
        induction rest with
        | nil => simp [find] at h
        | cons b rest' ih2 =>
          obtain ⟨bk, br⟩ := b
          by_cases e3 : bk = ak
          · subst e3; rw [List.filter_cons_of_neg (by simp)] at h; exact ih2 h
          · rw [List.filter_cons_of_pos (by simpa using e3)] at h
            simp only [find, e3, if_false] at h
            exact ih2 h
      · simp only [find, e2, if_false]; exact this
    · rw [List.filter_cons_of_pos (by simpa using e)] at h
      simp only [find] at h ⊢
      split
      · rename_i e2; simp only [e2, if_true] at h; exact h
      · rename_i e2; simp only [e2, if_false] at h; exact ih h

/-- the memTree part of `hashPending`, on a sub-list of the nodes. -/
theorem fold_memOK (T : Tbl) (mv : Bool) (l : Tbl) (hl : ∀ p ∈ l, find T p.1 = some p.2) :
    ∀ m : Tbl, (∀ k r, find m k = some r → find T k = some r) →
      ∀ k r, find (l.foldl (fun m p => if p.2.children.isSome || mv then memAdd m p.1 p.2 else m) m) k = some r →
        find T k = some r := by
  induction l with
  | nil => intro m hm; exact hm
  | cons p rest ih =>
    intro m hm
    simp only [List.foldl_cons]
    apply ih (fun q hq => hl q (by simp [hq]))
    intro k r h
    split at h
    · unfold memAdd at h
      split at h
      · exact hm k r (find_filter_ne h)
      · simp only [find] at h
        split at h
        · rename_i e; cases h; rw [← e]; exact hl p (by simp)
        · exact hm k r h
    · exact hm k r h

theorem find_mem {t : Tbl} {k : Key} {r : Rec} (h : find t k = some r) : (k, r) ∈ t := by
  induction t with
  | nil => simp [find] at h
  | cons a rest ih =>
    obtain ⟨ak, ar⟩ := a
    simp only [find] at h
    split at h
    · rename_i e; cases h; subst e; simp
    · exact List.mem_cons_of_mem _ (ih h)

theorem find_append (a b : Tbl) (k : Key) : find (a ++ b) k = match find a k with | some r => some r | none => find b k := by
  induction a with
  | nil => simp [find]
  | cons x rest ih =>
    obtain ⟨xk, xr⟩ := x
    simp only [List.cons_append, find]
    split
    · rfl
    · exact ih

theorem find_isSome_of_mem {t : Tbl} {k : Key} {r : Rec} (h : (k, r) ∈ t) : ∃ r', find t k = some r' := by
  induction t with
  | nil => simp at h
  | cons a rest ih =>
    obtain ⟨ak, ar⟩ := a
    simp only [find]
    split
    · exact ⟨_, rfl⟩
    · rename_i e
      rcases List.mem_cons.mp h with h' | h'
      · cases h'; exact absurd rfl e
      · exact ih h'

/-- the discipline "every hashed pending update is saved before anything else is hashed" (MemSet → Commit, no
rollback), under content addressing (`G`: a key determines its record): one step of it. -/
def commitPair (s : St) (c : Tbl × Bool) : St := step (step s (.hashPending c.1 c.2)) (.save c.1)

theorem commitPair_ok (G : Key → Option Rec) (s : St) (c : Tbl × Bool)
    (hm : ∀ k r, find s.mem k = some r → find s.db k = some r)
    (hd : ∀ k r, find s.db k = some r → G k = some r)
    (hc : ∀ p ∈ c.1, G p.1 = some p.2) :
    (∀ k r, find (commitPair s c).mem k = some r → find (commitPair s c).db k = some r) ∧
    (∀ k r, find (commitPair s c).db k = some r → G k = some r) := by
  have hdb : (commitPair s c).db = c.1 ++ s.db := rfl
  have hd' : ∀ k r, find (c.1 ++ s.db) k = some r → G k = some r := by
    intro k r h
    rw [find_append] at h
    split at h
    · rename_i r' e; cases h; exact hc (k, r) (find_mem e)
    · exact hd k r h
  refine ⟨?_, by rw [hdb]; exact hd'⟩
  rw [hdb]
  have hmem : (commitPair s c).mem =
      c.1.foldl (fun m p => if p.2.children.isSome || c.2 then memAdd m p.1 p.2 else m) s.mem := rfl
  rw [hmem]
  apply fold_memOK (c.1 ++ s.db) c.2 c.1
  · intro p hp
    obtain ⟨r', e⟩ := find_isSome_of_mem (t := c.1 ++ s.db) (k := p.1) (r := p.2) (by simp [hp])
    have := hd' _ _ e
    rw [hc p hp] at this
    cases this; exact e
  · intro k r h
    have h1 := hm k r h
    rw [find_append]
    cases e : find c.1 k with
    | none => exact h1
    | some r' =>
      have g1 := hc (k, r') (find_mem e)
      have g2 := hd k r h1
      simp only at g1
      rw [g1] at g2; cases g2; rfl

end Mem

end C02
