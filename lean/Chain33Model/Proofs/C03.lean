import Chain33Model.Proofs.C01Set
import Chain33Model.Model.C03
/-! Helper lemmas for C02/C03: varint left inverse, injectivity of the hashed encodings, `Hashed` trees,
the fold computed by `Proof.verify`. -/
namespace C03
open C01
open Proto (varint tag fBytes fInt64 fVarint int64ToU)

/-- an explicit collision of the hash function: two distinct pre-images with the same image. -/
def Collision (H : Bytes → Bytes) : Prop := ∃ x y, x ≠ y ∧ H x = H y

theorem eq_or_collision {H : Bytes → Bytes} {x y : Bytes} (h : H x = H y) : x = y ∨ Collision H := by
  by_cases e : x = y
  · exact Or.inl e
  · exact Or.inr ⟨x, y, e, h⟩

/-! ### varint: an (unbounded) left inverse, used only to prove injectivity of the encodings -/

theorem varint_small (n : Nat) (h : n < 128) : varint n = [UInt8.ofNat n] := by
  rw [varint]; simp [h]

theorem varint_big (n : Nat) (h : ¬ n < 128) :
    varint n = UInt8.ofNat (n % 128 + 128) :: varint (n / 128) := by
  rw [varint]; simp [h]

def decVarint : Bytes → Option (Nat × Bytes)
  | [] => none
  | b :: bs =>
    if b.toNat < 128 then some (b.toNat, bs)
    else match decVarint bs with
      | none => none
      | some (n, r) => some (b.toNat - 128 + 128 * n, r)

theorem decVarint_varint (n : Nat) (rest : Bytes) : decVarint (varint n ++ rest) = some (n, rest) := by
  induction n using Nat.strongRecOn with
  | ind n ih =>
    by_cases h : n < 128
    · rw [varint_small n h]
      have : (UInt8.ofNat n).toNat = n := by simp [UInt8.toNat_ofNat']; omega
      simp [decVarint, this, h]
    · rw [varint_big n h]
      have e : (UInt8.ofNat (n % 128 + 128)).toNat = n % 128 + 128 := by
        simp [UInt8.toNat_ofNat']; omega
      have hlt : n / 128 < n := by omega
      simp only [List.cons_append, decVarint, e]
      rw [ih (n / 128) hlt]
      have : ¬ (n % 128 + 128 < 128) := by omega
      simp only [this, if_false]
      congr 2
      omega

/-- optional length-delimited field with a one-byte tag `t`: `(payload, rest)`; absent ⇒ `([], input)`. -/
def decField (t : UInt8) (b : Bytes) : Option (Bytes × Bytes) :=
  match b with
  | [] => some ([], [])
  | x :: rest =>
    if x = t then
      match decVarint rest with
      | none => none
      | some (n, r) => if n ≤ r.length then some (r.take n, r.drop n) else none
    else some ([], x :: rest)

theorem decField_present (t : UInt8) (p rest : Bytes) :
    decField t (t :: (varint p.length ++ (p ++ rest))) = some (p, rest) := by
  simp [decField, decVarint_varint]

theorem decField_absent (t x : UInt8) (rest : Bytes) (h : x ≠ t) :
    decField t (x :: rest) = some ([], x :: rest) := by
  simp [decField, h]

theorem tag12 : tag 1 2 = [10] := by simp [tag, varint_small]
theorem tag22 : tag 2 2 = [18] := by simp [tag, varint_small]
theorem fInt64_3_0 : fInt64 3 0 = [] := by simp [fInt64, fVarint, int64ToU]
theorem fInt64_4_1 : fInt64 4 1 = [32, 1] := by simp [fInt64, fVarint, int64ToU, tag, varint_small]

theorem fBytes1 (k : Bytes) : fBytes 1 k = if k = [] then [] else 10 :: (varint k.length ++ k) := by
  cases k <;> simp [fBytes, tag12]

theorem fBytes2 (k : Bytes) : fBytes 2 k = if k = [] then [] else 18 :: (varint k.length ++ k) := by
  cases k <;> simp [fBytes, tag22]

/-- decoder of a `LeafNode{key, value, 0, 1}` encoding (left inverse of `leafEnc`). -/
def decLeaf (b : Bytes) : Option (Bytes × Bytes) :=
  match decField 10 b with
  | none => none
  | some (k, r) =>
    match decField 18 r with
    | none => none
    | some (v, _) => some (k, v)

theorem decLeaf_leafEnc (k v : Bytes) : decLeaf (leafEnc k v) = some (k, v) := by
  unfold leafEnc
  rw [fInt64_3_0, fInt64_4_1, fBytes1, fBytes2]
  by_cases hk : k = []
  · by_cases hv : v = []
    · subst hk hv
      simp [decLeaf, decField]
    · subst hk
      simp only [if_true, hv, if_false, List.nil_append, List.append_nil, List.cons_append,
        List.append_assoc, decLeaf]
      rw [decField_absent 10 18 _ (by decide)]
      simp only
      rw [decField_present 18 v [32, 1]]
  · by_cases hv : v = []
    · subst hv
      simp only [hk, if_false, if_true, List.append_nil, List.cons_append, List.append_assoc, decLeaf]
      rw [decField_present 10 k [32, 1]]
      simp [decField]
    · simp only [hk, hv, if_false, List.append_nil, List.cons_append, List.append_assoc, decLeaf]
      rw [decField_present 10 k]
      simp only
      rw [decField_present 18 v [32, 1]]

theorem leafEnc_inj {k v k' v' : Bytes} (h : leafEnc k v = leafEnc k' v') : k = k' ∧ v = v' := by
  have := decLeaf_leafEnc k v
  rw [h, decLeaf_leafEnc] at this
  simpa using this.symm

/-! ### last32 -/

theorem last32_of_length {b : Bytes} (h : b.length = 32) : last32 b = b := by
  simp [last32, h]

theorem last32_idem (b : Bytes) : last32 (last32 b) = last32 b := by
  unfold last32
  by_cases h : b.length > 32
  · have hl : (b.drop (b.length - 32)).length = 32 := by rw [List.length_drop]; omega
    simp only [h, if_true]
    rw [if_neg (by omega)]
  · simp [h]

theorem last32_append {p b : Bytes} (h : b.length = 32) : last32 (p ++ b) = b := by
  unfold last32
  by_cases hp : p = []
  · subst hp; simp [h]
  · have : (p ++ b).length > 32 := by
      have : 0 < p.length := List.length_pos_iff.mpr hp
      simp; omega
    simp only [this, if_true]
    have e : (p ++ b).length - 32 = p.length := by simp; omega
    rw [e]; simp

theorem innerEnc_last32_left (a r : Bytes) (h s : Int) : innerEnc (last32 a) r h s = innerEnc a r h s := by
  simp [innerEnc, last32_idem]

theorem innerEnc_last32_right (l a : Bytes) (h s : Int) : innerEnc l (last32 a) h s = innerEnc l a h s := by
  simp [innerEnc, last32_idem]

/-- two 32-byte strings in the same position of `innerEnc` with everything else equal are equal. -/
theorem innerEnc_inj_left {a b r : Bytes} {h s : Int} (ha : a.length = 32) (hb : b.length = 32)
    (e : innerEnc a r h s = innerEnc b r h s) : a = b := by
  unfold innerEnc at e
  rw [last32_of_length ha, last32_of_length hb] at e
  have hane : a ≠ [] := by intro x; subst x; simp at ha
  have hbne : b ≠ [] := by intro x; subst x; simp at hb
  rw [fBytes1, fBytes1] at e
  simp only [hane, hbne, if_false, ha, hb, List.cons_append, List.append_assoc, List.cons.injEq, true_and] at e
  have e2 := List.append_cancel_left e
  exact (List.append_inj e2 (by rw [ha, hb])).1

theorem innerEnc_inj_right {a b l : Bytes} {h s : Int} (ha : a.length = 32) (hb : b.length = 32)
    (e : innerEnc l a h s = innerEnc l b h s) : a = b := by
  unfold innerEnc at e
  rw [last32_of_length ha, last32_of_length hb] at e
  have hane : a ≠ [] := by intro x; subst x; simp at ha
  have hbne : b ≠ [] := by intro x; subst x; simp at hb
  simp only [List.append_assoc] at e
  have e1 := List.append_cancel_left e
  rw [fBytes2, fBytes2] at e1
  simp only [hane, hbne, if_false, ha, hb, List.cons_append, List.append_assoc, List.cons.injEq, true_and] at e1
  have e2 := List.append_cancel_left e1
  exact (List.append_inj e2 (by rw [ha, hb])).1

/-! ### hashed trees -/

/-- every node carries a database key whose last 32 bytes are the hash of its encoding, the encoding of an
inner node being built from its children's keys (cut to 32 bytes by `innerEnc`).  This is what `Node.Hash`
establishes under every configuration (`C02.hashNode_Hashed`). -/
def Hashed (H : Bytes → Bytes) : Node → Prop
  | .leaf k v m => ∃ h, m.hk = some h ∧ last32 h = H (leafEnc k v)
  | .inner _ ht sz l r m => Hashed H l ∧ Hashed H r ∧
      ∃ h lh rh, m.hk = some h ∧ l.info.hk = some lh ∧ r.info.hk = some rh ∧
        last32 h = H (innerEnc lh rh ht sz)

theorem Hashed.hk_some {H : Bytes → Bytes} (hlen : ∀ x, (H x).length = 32) {t : Node} (hh : Hashed H t) :
    ∃ h, t.info.hk = some h ∧ (last32 h).length = 32 ∧ h ≠ [] := by
  cases t with
  | leaf k v m =>
    obtain ⟨h, e1, e2⟩ := hh
    refine ⟨h, e1, by rw [e2]; exact hlen _, ?_⟩
    intro x; subst x; have := hlen (leafEnc k v); rw [← e2] at this; simp [last32] at this
  | inner k ht sz l r m =>
    obtain ⟨_, _, h, lh, rh, e1, _, _, e2⟩ := hh
    refine ⟨h, e1, by rw [e2]; exact hlen _, ?_⟩
    intro x; subst x; have := hlen (innerEnc lh rh ht sz); rw [← e2] at this; simp [last32] at this

theorem foldl_snoc {α β : Type} (f : β → α → β) (b : β) (xs : List α) (x : α) :
    (xs ++ [x]).foldl f b = f (xs.foldl f b) x := by simp

/-- the fold of `Proof.verify` over an honestly constructed proof reproduces the node's own hash. -/
theorem constructProof_fold {H : Bytes → Bytes} (hlen : ∀ x, (H x).length = 32) (t : Node) (hh : Hashed H t)
    (key : Bytes) : ∀ v lh ins, constructProof t key = .found v lh ins →
      ∃ h, t.info.hk = some h ∧ last32 lh = H (leafEnc key v) ∧
        ins.foldl (innerNodeProofHash H) (H (leafEnc key v)) = last32 h := by
  induction t with
  | leaf k v0 m =>
    intro v lh ins e
    obtain ⟨h, e1, e2⟩ := hh
    simp only [constructProof] at e
    split at e
    · rename_i hk; subst hk
      rw [e1] at e
      simp at e
      obtain ⟨rfl, rfl, rfl⟩ := e
      exact ⟨h, e1, e2, by simp [e2]⟩
    · simp at e
  | inner k ht sz l r m ihl ihr =>
    intro v lh ins e
    obtain ⟨hl, hr, h, lhk, rhk, e1, e2, e3, e4⟩ := hh
    simp only [constructProof] at e
    split at e
    · -- left
      cases hc : constructProof l key with
      | absent => simp [hc] at e
      | nohash => simp [hc] at e
      | found v' lh' ins' =>
        rw [hc] at e
        simp only [e3] at e
        simp at e
        obtain ⟨rfl, rfl, rfl⟩ := e
        obtain ⟨hl', f1, f2, f3⟩ := ihl hl v' lh' ins' hc
        rw [e2] at f1; cases f1
        refine ⟨h, e1, f2, ?_⟩
        rw [foldl_snoc, f3]
        simp only [innerNodeProofHash, List.isEmpty_nil, if_true]
        rw [innerEnc_last32_left, e4]
    · cases hc : constructProof r key with
      | absent => simp [hc] at e
      | nohash => simp [hc] at e
      | found v' lh' ins' =>
        rw [hc] at e
        simp only [e2] at e
        simp at e
        obtain ⟨rfl, rfl, rfl⟩ := e
        obtain ⟨hr', f1, f2, f3⟩ := ihr hr v' lh' ins' hc
        rw [e3] at f1; cases f1
        refine ⟨h, e1, f2, ?_⟩
        rw [foldl_snoc, f3]
        obtain ⟨lh2, g1, _, g3⟩ := hl.hk_some hlen
        rw [e2] at g1; cases g1
        have : lhk.isEmpty = false := by
          cases lhk with
          | nil => exact absurd rfl g3
          | cons a b => rfl
        simp only [innerNodeProofHash, this, Bool.false_eq_true, if_false]
        rw [innerEnc_last32_right, e4]

/-- a key that `get` finds has a proof. -/
theorem constructProof_of_get {H : Bytes → Bytes} (hlen : ∀ x, (H x).length = 32) (t : Node) (hh : Hashed H t)
    (key v : Bytes) (hg : (t.get key).2 = some v) : ∃ lh ins, constructProof t key = .found v lh ins := by
  induction t with
  | leaf k v0 m =>
    obtain ⟨h, e1, _⟩ := hh
    simp only [Node.get] at hg
    cases hc : cmpB k key with
    | eq =>
      have := cmpB_eq_iff.mp hc; subst this
      simp [hc] at hg; subst hg
      exact ⟨h, [], by simp [constructProof, e1]⟩
    | lt => simp [hc] at hg
    | gt => simp [hc] at hg
  | inner k ht sz l r m ihl ihr =>
    obtain ⟨hl, hr, h, lhk, rhk, e1, e2, e3, e4⟩ := hh
    simp only [Node.get] at hg
    by_cases hk : cmpB key k = .lt
    · simp only [hk, if_true] at hg
      obtain ⟨lh, ins, e⟩ := ihl hl hg
      exact ⟨lh, ins ++ [⟨[], rhk, ht, sz⟩], by simp [constructProof, hk, e, e3]⟩
    · simp only [hk, if_false] at hg
      obtain ⟨lh, ins, e⟩ := ihr hr hg
      exact ⟨lh, ins ++ [⟨lhk, [], ht, sz⟩], by simp [constructProof, hk, e, e2]⟩

/-! ### soundness of the fold -/

theorem step_inj {H : Bytes → Bytes} {a b : Bytes} (ha : a.length = 32) (hb : b.length = 32) (x : InnerNode)
    (e : innerNodeProofHash H a x = innerNodeProofHash H b x) : a = b ∨ Collision H := by
  unfold innerNodeProofHash at e
  split at e
  · rcases eq_or_collision e with e' | c
    · exact Or.inl (innerEnc_inj_left ha hb e')
    · exact Or.inr c
  · rcases eq_or_collision e with e' | c
    · exact Or.inl (innerEnc_inj_right ha hb e')
    · exact Or.inr c

theorem step_length {H : Bytes → Bytes} (hlen : ∀ x, (H x).length = 32) (a : Bytes) (x : InnerNode) :
    (innerNodeProofHash H a x).length = 32 := by
  unfold innerNodeProofHash; split <;> exact hlen _

theorem fold_inj {H : Bytes → Bytes} (hlen : ∀ x, (H x).length = 32) (ins : List InnerNode) :
    ∀ a b : Bytes, a.length = 32 → b.length = 32 →
      ins.foldl (innerNodeProofHash H) a = ins.foldl (innerNodeProofHash H) b → a = b ∨ Collision H := by
  induction ins with
  | nil => intro a b _ _ e; exact Or.inl e
  | cons x rest ih =>
    intro a b ha hb e
    simp only [List.foldl_cons] at e
    rcases ih _ _ (step_length hlen a x) (step_length hlen b x) e with e' | c
    · exact step_inj ha hb x e'
    · exact Or.inr c

end C03
