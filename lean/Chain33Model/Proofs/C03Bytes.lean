import Chain33Model.Proofs.C03
/-! proto3 round trip for the messages of C03: `decodeProof (encProof ins) = some ins`. -/
namespace C03
open C01
open Proto (varint tag fBytes fInt64 fVarint int64ToU fRepBytes)

/-! ### `readVarint ∘ varint` (values below 2^64) -/

theorem readVarintAux_varint (n : Nat) : ∀ (i shift acc : Nat) (rest : Bytes),
    i ≤ 9 → n < 2 ^ (64 - 7 * i) →
    readVarintAux i shift acc (varint n ++ rest) = some (acc + n * 2 ^ shift, rest) := by
  induction n using Nat.strongRecOn with
  | ind n ih =>
    intro i shift acc rest hi hn
    by_cases h : n < 128
    · rw [varint_small n h]
      have e : (UInt8.ofNat n).toNat = n := by simp [UInt8.toNat_ofNat']; omega
      simp only [List.cons_append, List.nil_append, readVarintAux, e]
      by_cases h9 : i = 9
      · subst h9
        have : n < 2 := by simpa using hn
        simp [this]
      · simp [h9, h]
    · rw [varint_big n h]
      have e : (UInt8.ofNat (n % 128 + 128)).toNat = n % 128 + 128 := by
        simp [UInt8.toNat_ofNat']; omega
      have h9 : i ≠ 9 := by
        intro x; subst x
        have : n < 2 := by simpa using hn
        omega
      have hlt : n / 128 < n := by omega
      simp only [List.cons_append, readVarintAux, e, h9, if_false]
      have : ¬ (n % 128 + 128 < 128) := by omega
      simp only [this, if_false]
      have hi' : i + 1 ≤ 9 := by omega
      have hn' : n / 128 < 2 ^ (64 - 7 * (i + 1)) := by
        have h2 : 2 ^ (64 - 7 * i) = 2 ^ (64 - 7 * (i + 1)) * 128 := by
          have : 64 - 7 * i = (64 - 7 * (i + 1)) + 7 := by omega
          rw [this, Nat.pow_add]
        rw [h2] at hn
        exact Nat.div_lt_of_lt_mul (by rw [Nat.mul_comm]; exact hn)
      rw [ih (n / 128) hlt (i + 1) (shift + 7) _ rest hi' hn']
      congr 2
      have e1 : n % 128 + 128 - 128 = n % 128 := by omega
      rw [e1, Nat.pow_add]
      have e2 : n * 2 ^ shift = (128 * (n / 128) + n % 128) * 2 ^ shift := by rw [Nat.div_add_mod]
      have e3 : n / 128 * (2 ^ shift * 2 ^ 7) = 128 * (n / 128) * 2 ^ shift := by
        rw [show (2 : Nat) ^ 7 = 128 from rfl, Nat.mul_comm (2 ^ shift) 128, ← Nat.mul_assoc, Nat.mul_comm (n / 128) 128]
      rw [e2, e3, Nat.add_mul]
      omega

theorem readVarint_varint (n : Nat) (h : n < 2 ^ 64) (rest : Bytes) :
    readVarint (varint n ++ rest) = some (n, rest) := by
  have := readVarintAux_varint n 0 0 0 rest (by omega) (by simpa using h)
  simpa [readVarint] using this

theorem readBytes_enc (b rest : Bytes) (h : b.length < 2 ^ 64) :
    readBytes (varint b.length ++ (b ++ rest)) = some (b, rest) := by
  simp [readBytes, readVarint_varint _ h, takeN]

/-! ### a list of (varint | bytes) fields with one-byte tags -/

def encFields : List (Nat × WVal) → Bytes
  | [] => []
  | (f, .varint v) :: rest => tag f 0 ++ (varint v ++ encFields rest)
  | (f, .bytes b) :: rest => tag f 2 ++ (varint b.length ++ (b ++ encFields rest))
  | (_, .skipped) :: rest => encFields rest

def ValidField : Nat × WVal → Prop
  | (f, .varint v) => 1 ≤ f ∧ f < 16 ∧ v < 2 ^ 64
  | (f, .bytes b) => 1 ≤ f ∧ f < 16 ∧ b.length < 2 ^ 64
  | (_, .skipped) => False

theorem tag_small (f w : Nat) (hf : f < 16) (hw : w < 8) : tag f w = varint (f * 8 + w) ∧ f * 8 + w < 128 := by
  refine ⟨rfl, by omega⟩

theorem parseFields_encFields (fs : List (Nat × WVal)) (hv : ∀ x ∈ fs, ValidField x) :
    ∀ fuel, fs.length < fuel → parseFields fuel (encFields fs) = some fs := by
  induction fs with
  | nil => intro fuel h; cases fuel with
    | zero => omega
    | succ n => simp [encFields, parseFields]
  | cons x rest ih =>
    intro fuel h
    cases fuel with
    | zero => omega
    | succ n =>
      have hx := hv x (by simp)
      have hrest := ih (fun y hy => hv y (by simp [hy])) n (by simp at h; omega)
      obtain ⟨f, w⟩ := x
      cases w with
      | varint v =>
        obtain ⟨h1, h2, h3⟩ := hx
        have hne : encFields ((f, WVal.varint v) :: rest) = varint (f * 8 + 0) ++ (varint v ++ encFields rest) := rfl
        rw [hne]
        have hlt : f * 8 + 0 < 2 ^ 64 := by omega
        have hne2 : varint (f * 8 + 0) ++ (varint v ++ encFields rest) ≠ [] := by
          rw [varint_small _ (by omega : f * 8 + 0 < 128)]; simp
        cases hb : varint (f * 8 + 0) ++ (varint v ++ encFields rest) with
        | nil => exact absurd hb hne2
        | cons b0 bs =>
          rw [← hb]
          unfold parseFields
          rw [hb, ← hb]
          simp only [readVarint_varint _ hlt]
          have e1 : (f * 8 + 0) / 8 = f := by omega
          have e2 : (f * 8 + 0) % 8 = 0 := by omega
          simp only [e1, e2]
          have c1 : ¬ (f < 1 ∨ f > 536870911) := by omega
          simp only [c1, if_false, readVarint_varint _ h3, hrest]
          simp
      | bytes b =>
        obtain ⟨h1, h2, h3⟩ := hx
        have hne : encFields ((f, WVal.bytes b) :: rest) = varint (f * 8 + 2) ++ (varint b.length ++ (b ++ encFields rest)) := rfl
        rw [hne]
        have hlt : f * 8 + 2 < 2 ^ 64 := by omega
        have hne2 : varint (f * 8 + 2) ++ (varint b.length ++ (b ++ encFields rest)) ≠ [] := by
          rw [varint_small _ (by omega : f * 8 + 2 < 128)]; simp
        cases hb : varint (f * 8 + 2) ++ (varint b.length ++ (b ++ encFields rest)) with
        | nil => exact absurd hb hne2
        | cons b0 bs =>
          rw [← hb]
          unfold parseFields
          rw [hb, ← hb]
          simp only [readVarint_varint _ hlt]
          have e1 : (f * 8 + 2) / 8 = f := by omega
          have e2 : (f * 8 + 2) % 8 = 2 := by omega
          simp only [e1, e2]
          have c1 : ¬ (f < 1 ∨ f > 536870911) := by omega
          simp only [c1, if_false, readBytes_enc _ _ h3, hrest]
          simp
      | skipped => exact absurd hx (by simp [ValidField])

theorem encFields_length (fs : List (Nat × WVal)) (hv : ∀ x ∈ fs, ValidField x) :
    fs.length ≤ (encFields fs).length := by
  induction fs with
  | nil => simp
  | cons x rest ih =>
    have hx := hv x (by simp)
    have := ih (fun y hy => hv y (by simp [hy]))
    obtain ⟨f, w⟩ := x
    cases w with
    | varint v =>
      obtain ⟨h1, h2, _⟩ := hx
      simp only [encFields, List.length_append, List.length_cons]
      have : (tag f 0).length = 1 := by rw [(tag_small f 0 h2 (by omega)).1, varint_small _ (by omega)]; rfl
      omega
    | bytes b =>
      obtain ⟨h1, h2, _⟩ := hx
      simp only [encFields, List.length_append, List.length_cons]
      have : (tag f 2).length = 1 := by rw [(tag_small f 2 h2 (by omega)).1, varint_small _ (by omega)]; rfl
      omega
    | skipped => exact absurd hx (by simp [ValidField])

theorem parseMsg_encFields (fs : List (Nat × WVal)) (hv : ∀ x ∈ fs, ValidField x) :
    parseMsg (encFields fs) = some fs :=
  parseFields_encFields fs hv _ (by have := encFields_length fs hv; omega)

/-! ### `InnerNode` and `MAVLProof` -/

/-- an inner node as `constructProof` emits it: non-negative int32 height/size, encodable lengths. -/
def Norm (n : InnerNode) : Prop :=
  0 ≤ n.height ∧ n.height < 2 ^ 31 ∧ 0 ≤ n.size ∧ n.size < 2 ^ 31 ∧
  n.leftHash.length < 2 ^ 64 ∧ n.rightHash.length < 2 ^ 64 ∧ (encInnerNode n).length < 2 ^ 64

def fieldsOf (n : InnerNode) : List (Nat × WVal) :=
  (if n.leftHash = [] then [] else [(1, WVal.bytes n.leftHash)]) ++
  ((if n.rightHash = [] then [] else [(2, WVal.bytes n.rightHash)]) ++
  ((if n.height = 0 then [] else [(3, WVal.varint (int64ToU n.height))]) ++
  (if n.size = 0 then [] else [(4, WVal.varint (int64ToU n.size))])))

theorem int64ToU_nonneg {i : Int} (h0 : 0 ≤ i) : int64ToU i = i.toNat := by simp [int64ToU, h0]

theorem toInt32_int64ToU {i : Int} (h0 : 0 ≤ i) (h1 : i < 2 ^ 31) : toInt32 (int64ToU i) = i := by
  rw [int64ToU_nonneg h0]
  unfold toInt32
  have h2 : i.toNat < 2 ^ 31 := by omega
  have h3 : i.toNat % 2 ^ 32 = i.toNat := Nat.mod_eq_of_lt (by omega)
  simp only [h3, h2, if_true]
  omega

theorem encInnerNode_eq (n : InnerNode) (hn : Norm n) : encInnerNode n = encFields (fieldsOf n) := by
  obtain ⟨h0, h1, s0, s1, _, _, _⟩ := hn
  unfold encInnerNode fieldsOf
  have eh : (int64ToU n.height = 0) ↔ n.height = 0 := by rw [int64ToU_nonneg h0]; omega
  have es : (int64ToU n.size = 0) ↔ n.size = 0 := by rw [int64ToU_nonneg s0]; omega
  have z : int64ToU 0 = 0 := by simp [int64ToU]
  by_cases a : n.leftHash = [] <;> by_cases b : n.rightHash = [] <;> by_cases c : n.height = 0 <;>
    by_cases d : n.size = 0 <;>
    simp [a, b, c, d, fBytes, fInt64, fVarint, encFields, eh, es, z, List.isEmpty_iff]

theorem fieldsOf_valid (n : InnerNode) (hn : Norm n) : ∀ x ∈ fieldsOf n, ValidField x := by
  obtain ⟨h0, h1, s0, s1, l1, l2, _⟩ := hn
  have eh : int64ToU n.height < 2 ^ 64 := by rw [int64ToU_nonneg h0]; omega
  have es : int64ToU n.size < 2 ^ 64 := by rw [int64ToU_nonneg s0]; omega
  intro x hx
  unfold fieldsOf at hx
  simp only [List.mem_append] at hx
  rcases hx with hx | hx | hx | hx <;> (split at hx <;> simp at hx) <;> (subst hx; simp [ValidField, *])

theorem decodeInnerNode_enc (n : InnerNode) (hn : Norm n) : decodeInnerNode (encInnerNode n) = some n := by
  unfold decodeInnerNode
  rw [encInnerNode_eq n hn, parseMsg_encFields _ (fieldsOf_valid n hn)]
  obtain ⟨h0, h1, s0, s1, _, _, _⟩ := hn
  have th := toInt32_int64ToU h0 h1
  have ts := toInt32_int64ToU s0 s1
  obtain ⟨lh, rh, ht, sz⟩ := n
  simp only at h0 h1 s0 s1 th ts
  unfold fieldsOf
  simp only [Option.map_some]
  by_cases a : lh = [] <;> by_cases b : rh = [] <;> by_cases c : ht = 0 <;> by_cases d : sz = 0 <;>
    simp [a, b, c, d, th, ts]

theorem encProof_eq (ins : List InnerNode) :
    encProof ins = encFields (ins.map fun n => (2, WVal.bytes (encInnerNode n))) := by
  unfold encProof fRepBytes
  induction ins with
  | nil => rfl
  | cons x rest ih =>
    simp only [List.map_cons, List.foldr_cons, encFields]
    rw [ih]
    simp [List.append_assoc]

theorem decodeProof_fold (g : Option (List InnerNode) → (Nat × WVal) → Option (List InnerNode))
    (hg : ∀ ns n, Norm n → g (some ns) (2, WVal.bytes (encInnerNode n)) = some (ns ++ [n]))
    (ins : List InnerNode) (hn : ∀ n ∈ ins, Norm n) (acc : List InnerNode) :
    (ins.map fun n => (2, WVal.bytes (encInnerNode n))).foldl g (some acc) = some (acc ++ ins) := by
  induction ins generalizing acc with
  | nil => simp
  | cons x rest ih =>
    simp only [List.map_cons, List.foldl_cons, hg acc x (hn x (by simp))]
    rw [ih (fun n h => hn n (by simp [h]))]
    simp

/-- **the proto3 round trip for proofs**: what `Tree.Proof` encodes, `proto.Unmarshal` reads back. -/
theorem decodeProof_encProof (ins : List InnerNode) (hn : ∀ n ∈ ins, Norm n) :
    decodeProof (encProof ins) = some ins := by
  unfold decodeProof
  rw [encProof_eq, parseMsg_encFields]
  · simp only
    rw [decodeProof_fold _ _ ins hn []]
    · simp
    · intro ns n hnn
      simp [decodeInnerNode_enc n hnn]
  · intro x hx
    simp only [List.mem_map] at hx
    obtain ⟨n, hnm, rfl⟩ := hx
    exact ⟨by omega, by omega, (hn n hnm).2.2.2.2.2.2⟩

/-! ### magnitudes: int32 heights/sizes, encodable key lengths -/

theorem varint_length_le (k : Nat) : ∀ n, n < 2 ^ (7 * k) → 1 ≤ k → (varint n).length ≤ k := by
  induction k with
  | zero => intro n _ h; omega
  | succ k ih =>
    intro n hn _
    by_cases h : n < 128
    · rw [varint_small n h]; simp
    · rw [varint_big n h]
      have hk : 1 ≤ k := by
        cases k with
        | zero => simp at hn; omega
        | succ k => omega
      have : n / 128 < 2 ^ (7 * k) := by
        have e : 2 ^ (7 * (k + 1)) = 2 ^ (7 * k) * 128 := by
          rw [show 7 * (k + 1) = 7 * k + 7 by omega, Nat.pow_add]
        rw [e] at hn
        exact Nat.div_lt_of_lt_mul (by rw [Nat.mul_comm]; exact hn)
      have := ih (n / 128) this hk
      simp; omega

theorem fBytes_length_le (f : Nat) (hf : f < 16) (b : Bytes) (hb : b.length < 2 ^ 32) :
    (fBytes f b).length ≤ 11 + b.length := by
  unfold fBytes
  split
  · simp
  · have h1 : (tag f 2).length = 1 := by rw [(tag_small f 2 hf (by omega)).1, varint_small _ (by omega)]; rfl
    have h2 := varint_length_le 10 b.length (by omega) (by omega)
    simp only [List.length_append]; omega

theorem fInt64_length_le (f : Nat) (hf : f < 16) (i : Int) (h0 : 0 ≤ i) (h1 : i < 2 ^ 31) :
    (fInt64 f i).length ≤ 11 := by
  unfold fInt64 fVarint
  split
  · simp
  · have h1' : (tag f 0).length = 1 := by rw [(tag_small f 0 hf (by omega)).1, varint_small _ (by omega)]; rfl
    have h2 := varint_length_le 10 (int64ToU i) (by rw [int64ToU_nonneg h0]; omega) (by omega)
    simp only [List.length_append]; omega

theorem norm_of_bounds (lh rh : Bytes) (ht sz : Nat) (h1 : ht < 2 ^ 31) (h2 : sz < 2 ^ 31)
    (l1 : lh.length < 2 ^ 32) (l2 : rh.length < 2 ^ 32) : Norm ⟨lh, rh, ht, sz⟩ := by
  refine ⟨by simp, by simp; omega, by simp, by simp; omega, by simp; omega, by simp; omega, ?_⟩
  unfold encInnerNode
  have a := fBytes_length_le 1 (by omega) lh l1
  have b := fBytes_length_le 2 (by omega) rh l2
  have c := fInt64_length_le 3 (by omega) (ht : Int) (by omega) (by omega)
  have d := fInt64_length_le 4 (by omega) (sz : Int) (by omega) (by omega)
  simp only [List.length_append]
  omega

/-- the tree fits the Go types: int32 height/size fields, node keys of sane length. -/
def Fits : Node → Prop
  | .leaf _ _ m => ∀ h, m.hk = some h → h.length < 2 ^ 32
  | .inner _ ht sz l r m => Fits l ∧ Fits r ∧ ht < 2 ^ 31 ∧ sz < 2 ^ 31 ∧ ∀ h, m.hk = some h → h.length < 2 ^ 32

theorem Fits.hk {t : Node} (hf : Fits t) : ∀ h, t.info.hk = some h → h.length < 2 ^ 32 := by
  cases t with
  | leaf k v m => exact hf
  | inner k ht sz l r m => exact hf.2.2.2.2

theorem constructProof_norm (t : Node) (hf : Fits t) (key : Bytes) :
    ∀ v lh ins, constructProof t key = .found v lh ins → ∀ n ∈ ins, Norm n := by
  induction t with
  | leaf k v0 m =>
    intro v lh ins e
    simp only [constructProof] at e
    split at e
    · split at e <;> simp at e
      obtain ⟨_, _, rfl⟩ := e
      simp
    · simp at e
  | inner k ht sz l r m ihl ihr =>
    obtain ⟨fl, fr, h1, h2, _⟩ := hf
    intro v lh ins e
    simp only [constructProof] at e
    split at e
    · cases hc : constructProof l key with
      | absent => simp [hc] at e
      | nohash => simp [hc] at e
      | found v' lh' ins' =>
        rw [hc] at e
        simp only at e
        split at e
        · rename_i rh hrh
          simp at e
          obtain ⟨rfl, rfl, rfl⟩ := e
          intro n hn
          simp only [List.mem_append, List.mem_singleton] at hn
          rcases hn with hn | rfl
          · exact ihl fl v' lh' ins' hc n hn
          · exact norm_of_bounds [] rh ht sz h1 h2 (by simp) (fr.hk rh hrh)
        · simp at e
    · cases hc : constructProof r key with
      | absent => simp [hc] at e
      | nohash => simp [hc] at e
      | found v' lh' ins' =>
        rw [hc] at e
        simp only at e
        split at e
        · rename_i lhh hlh
          simp at e
          obtain ⟨rfl, rfl, rfl⟩ := e
          intro n hn
          simp only [List.mem_append, List.mem_singleton] at hn
          rcases hn with hn | rfl
          · exact ihr fr v' lh' ins' hc n hn
          · exact norm_of_bounds lhh [] ht sz h1 h2 (fl.hk lhh hlh) (by simp)
        · simp at e

/-- a leaf `(A, B)` with `|A| ≤ 32`, `|B| ≤ 32` and an "inner node" of height 0 and size 1 over the children
`A`, `B` have the same encoding: `LeafNode` and `InnerNode` share their wire shape. -/
theorem innerEnc_eq_leafEnc (a b : Bytes) (ha : a.length ≤ 32) (hb : b.length ≤ 32) :
    innerEnc a b 0 1 = leafEnc a b := by
  have e1 : last32 a = a := by simp [last32]; omega
  have e2 : last32 b = b := by simp [last32]; omega
  simp [innerEnc, leafEnc, e1, e2]

/-- a collision *located* in a given finite list of pre-images. -/
def CollisionIn (H : Bytes → Bytes) (S : List Bytes) : Prop := ∃ x ∈ S, ∃ y ∈ S, x ≠ y ∧ H x = H y

theorem CollisionIn.mono {H : Bytes → Bytes} {S T : List Bytes} (h : ∀ x ∈ S, x ∈ T) (c : CollisionIn H S) :
    CollisionIn H T := by
  obtain ⟨x, hx, y, hy, hne, e⟩ := c
  exact ⟨x, h x hx, y, h y hy, hne, e⟩

theorem CollisionIn.collision {H : Bytes → Bytes} {S : List Bytes} (c : CollisionIn H S) : Collision H := by
  obtain ⟨x, _, y, _, hne, e⟩ := c
  exact ⟨x, y, hne, e⟩

/-- the pre-image `InnerNodeProofHash` hashes. -/
def stepPre (c : Bytes) (b : InnerNode) : Bytes :=
  if b.leftHash.isEmpty then innerEnc c b.rightHash b.height b.size else innerEnc b.leftHash c b.height b.size

theorem step_eq (H : Bytes → Bytes) (c : Bytes) (b : InnerNode) : innerNodeProofHash H c b = H (stepPre c b) := by
  unfold innerNodeProofHash stepPre; split <;> rfl

/-- all pre-images hashed by the fold of `Proof.Verify` starting from child hash `c`. -/
def foldTrace (H : Bytes → Bytes) : Bytes → List InnerNode → List Bytes
  | _, [] => []
  | c, x :: rest => stepPre c x :: foldTrace H (innerNodeProofHash H c x) rest

/-- every pre-image hashed by `VerifyKVPairProof root (k, v) pb` (empty if `pb` does not decode). -/
def verifyTrace (H : Bytes → Bytes) (k v pb : Bytes) : List Bytes :=
  match decodeProof pb with
  | none => []
  | some ins => leafEnc k v :: foldTrace H (H (leafEnc k v)) ins

theorem stepPre_inj {a b : Bytes} (ha : a.length = 32) (hb : b.length = 32) (x : InnerNode)
    (e : stepPre a x = stepPre b x) : a = b := by
  unfold stepPre at e
  split at e
  · exact innerEnc_inj_left ha hb e
  · exact innerEnc_inj_right ha hb e

theorem fold_inj_located {H : Bytes → Bytes} (hlen : ∀ x, (H x).length = 32) (ins : List InnerNode) :
    ∀ a b : Bytes, a.length = 32 → b.length = 32 →
      ins.foldl (innerNodeProofHash H) a = ins.foldl (innerNodeProofHash H) b →
      a = b ∨ CollisionIn H (foldTrace H a ins ++ foldTrace H b ins) := by
  induction ins with
  | nil => intro a b _ _ e; exact Or.inl e
  | cons x rest ih =>
    intro a b ha hb e
    simp only [List.foldl_cons] at e
    rcases ih _ _ (step_length hlen a x) (step_length hlen b x) e with e' | c
    · rw [step_eq, step_eq] at e'
      by_cases hp : stepPre a x = stepPre b x
      · exact Or.inl (stepPre_inj ha hb x hp)
      · exact Or.inr ⟨stepPre a x, by simp [foldTrace], stepPre b x, by simp [foldTrace], hp, e'⟩
    · refine Or.inr (c.mono ?_)
      intro y hy
      simp only [foldTrace, List.mem_append, List.mem_cons] at hy ⊢
      rcases hy with hy | hy
      · exact Or.inl (Or.inr hy)
      · exact Or.inr (Or.inr hy)

/-! ### the branch check of /repo 5751cd9 -/

theorem verifyLoop_eq (H : Bytes → Bytes) (ins : List InnerNode) : ∀ c,
    verifyLoop H c ins = if ins.all goodBranch then some (ins.foldl (innerNodeProofHash H) c) else none := by
  induction ins with
  | nil => intro c; simp [verifyLoop]
  | cons b rest ih =>
    intro c
    simp only [verifyLoop, List.all_cons, List.foldl_cons]
    by_cases hb : goodBranch b = true
    · simp [hb, ih]
    · simp [hb]

/-- the current `Proof.Verify` = the old one, and every branch passes the check. -/
theorem verify_eq_old (H : Bytes → Bytes) (p : Proof) (k v root : Bytes) :
    Proof.verify H p k v root = (Proof.verifyOld H p k v root && p.inners.all goodBranch) := by
  unfold Proof.verify Proof.verifyOld
  by_cases h1 : (p.rootHash != root) = true
  · simp [h1]
  · simp only [h1, if_false]
    by_cases h2 : (H (leafEnc k v) != last32 p.leafHash) = true
    · simp [h2]
    · simp only [h2, if_false, verifyLoop_eq]
      by_cases h3 : p.inners.all goodBranch = true
      · simp [h3]
      · simp [h3]

theorem verifyKV_eq_old (H : Bytes → Bytes) (root k v pb : Bytes) :
    verifyKVPairProof H root k v pb =
      (verifyKVPairProofOld H root k v pb && (match decodeProof pb with | none => false | some ins => ins.all goodBranch)) := by
  unfold verifyKVPairProof verifyKVPairProofOld
  cases decodeProof pb with
  | none => simp
  | some ins => simp [verify_eq_old]

theorem verifyKV_old_of_new {H : Bytes → Bytes} {root k v pb : Bytes}
    (h : verifyKVPairProof H root k v pb = true) : verifyKVPairProofOld H root k v pb = true := by
  rw [verifyKV_eq_old] at h
  simp at h
  exact h.1

/-- inner nodes have the shape the check of 5751cd9 demands: height ≥ 1, at least two leaves (true of every tree
`set` builds: `C01.WF` gives it). -/
def Shape : Node → Prop
  | .leaf .. => True
  | .inner _ ht sz l r _ => Shape l ∧ Shape r ∧ 1 ≤ ht ∧ 2 ≤ sz

theorem size_pos_of_WF (t : Node) (h : WF t) : 1 ≤ t.size := by
  induction t with
  | leaf k v m => simp
  | inner k ht sz l r m ihl ihr =>
    obtain ⟨hl, hr, _, es, _, _⟩ := h
    have := ihl hl
    simp [es]; omega

theorem shape_of_WF (t : Node) (h : WF t) : Shape t := by
  induction t with
  | leaf k v m => trivial
  | inner k ht sz l r m ihl ihr =>
    obtain ⟨hl, hr, eh, es, _, _⟩ := h
    have a := size_pos_of_WF l hl
    have b := size_pos_of_WF r hr
    exact ⟨ihl hl, ihr hr, by omega, by omega⟩

theorem constructProof_good (t : Node) (hs : Shape t) (key : Bytes) :
    ∀ v lh ins, constructProof t key = .found v lh ins → ins.all goodBranch = true := by
  induction t with
  | leaf k v0 m =>
    intro v lh ins e
    simp only [constructProof] at e
    split at e
    · split at e <;> simp at e
      obtain ⟨_, _, rfl⟩ := e
      rfl
    · simp at e
  | inner k ht sz l r m ihl ihr =>
    obtain ⟨sl, sr, h1, h2⟩ := hs
    intro v lh ins e
    simp only [constructProof] at e
    have hg : ∀ a b : Bytes, goodBranch ⟨a, b, ht, sz⟩ = true := by
      intro a b; simp [goodBranch]; omega
    split at e
    · cases hc : constructProof l key with
      | absent => simp [hc] at e
      | nohash => simp [hc] at e
      | found v' lh' ins' =>
        rw [hc] at e
        simp only at e
        split at e
        · simp at e
          obtain ⟨rfl, rfl, rfl⟩ := e
          simp [List.all_append, ihl sl v' lh' ins' hc, hg]
        · simp at e
    · cases hc : constructProof r key with
      | absent => simp [hc] at e
      | nohash => simp [hc] at e
      | found v' lh' ins' =>
        rw [hc] at e
        simp only at e
        split at e
        · simp at e
          obtain ⟨rfl, rfl, rfl⟩ := e
          simp [List.all_append, ihr sr v' lh' ins' hc, hg]
        · simp at e

end C03
