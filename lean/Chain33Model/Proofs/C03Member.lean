import Chain33Model.Proofs.C02
import Chain33Model.Proofs.C03Bytes
/-! Membership soundness of `VerifyKVPairProof` after /repo 5751cd9 (branch nodes must have height ≥ 1, size ≥ 2):
an accepted proof implies the pair is in the tree, or a collision among the strings actually hashed. -/
namespace C03
open C01 C02
open Proto (varint tag fBytes fInt64 fVarint int64ToU)

/-- the common wire shape of `LeafNode{key, value, height, size}` and `InnerNode{left, right, height, size}`. -/
def encXY (x y : Bytes) (h s : Int) : Bytes := fBytes 1 x ++ (fBytes 2 y ++ (fInt64 3 h ++ fInt64 4 s))

theorem innerEnc_eq_encXY (l r : Bytes) (h s : Int) : innerEnc l r h s = encXY (last32 l) (last32 r) h s := by
  simp [innerEnc, encXY, List.append_assoc]

theorem leafEnc_eq_encXY (k v : Bytes) : leafEnc k v = encXY k v 0 1 := by
  simp [leafEnc, encXY, List.append_assoc]

/-- `R` is empty or starts with one of the bytes in `S`. -/
def HeadIn (S : List UInt8) (R : Bytes) : Prop := R = [] ∨ ∃ a rest, R = a :: rest ∧ a ∈ S

theorem fInt64_nonneg (f : Nat) (i : Int) (h0 : 0 ≤ i) :
    fInt64 f i = if i = 0 then [] else tag f 0 ++ varint i.toNat := by
  unfold fInt64 fVarint
  rw [int64ToU_nonneg h0]
  by_cases h : i = 0
  · subst h; simp
  · have : ¬ i.toNat = 0 := by omega
    simp [h, this]

theorem tag30 : tag 3 0 = [24] := by simp [tag, varint_small]
theorem tag40 : tag 4 0 = [32] := by simp [tag, varint_small]

def decVField (t : UInt8) (b : Bytes) : Option (Nat × Bytes) :=
  match b with
  | [] => some (0, [])
  | x :: rest => if x = t then decVarint rest else some (0, x :: rest)

theorem decField_skip (t : UInt8) (S : List UInt8) (R : Bytes) (hR : HeadIn S R) (ht : t ∉ S) :
    decField t R = some ([], R) := by
  rcases hR with rfl | ⟨a, rest, rfl, ha⟩
  · rfl
  · exact decField_absent t a rest (fun e => ht (e ▸ ha))

theorem decVField_skip (t : UInt8) (S : List UInt8) (R : Bytes) (hR : HeadIn S R) (ht : t ∉ S) :
    decVField t R = some (0, R) := by
  rcases hR with rfl | ⟨a, rest, rfl, ha⟩
  · rfl
  · have : a ≠ t := fun e => ht (e ▸ ha)
    simp [decVField, this]

theorem decField_fBytes1 (x R : Bytes) (hR : HeadIn [18, 24, 32] R) : decField 10 (fBytes 1 x ++ R) = some (x, R) := by
  rw [fBytes1]
  by_cases h : x = []
  · subst h; simpa using decField_skip 10 _ R hR (by decide)
  · simp only [h, if_false, List.cons_append, List.append_assoc]
    exact decField_present 10 x R

theorem decField_fBytes2 (y R : Bytes) (hR : HeadIn [24, 32] R) : decField 18 (fBytes 2 y ++ R) = some (y, R) := by
  rw [fBytes2]
  by_cases h : y = []
  · subst h; simpa using decField_skip 18 _ R hR (by decide)
  · simp only [h, if_false, List.cons_append, List.append_assoc]
    exact decField_present 18 y R

theorem decVField_f3 (i : Int) (h0 : 0 ≤ i) (R : Bytes) (hR : HeadIn [32] R) :
    decVField 24 (fInt64 3 i ++ R) = some (i.toNat, R) := by
  rw [fInt64_nonneg 3 i h0, tag30]
  by_cases h : i = 0
  · subst h; simpa using decVField_skip 24 _ R hR (by decide)
  · simp [h, decVField, decVarint_varint]

theorem decVField_f4 (i : Int) (h0 : 0 ≤ i) : decVField 32 (fInt64 4 i) = some (i.toNat, []) := by
  rw [fInt64_nonneg 4 i h0, tag40]
  by_cases h : i = 0
  · subst h; rfl
  · have := decVarint_varint i.toNat []
    simp at this
    simp [h, decVField, this]

theorem headIn_f4 (i : Int) (h0 : 0 ≤ i) : HeadIn [32] (fInt64 4 i) := by
  rw [fInt64_nonneg 4 i h0, tag40]
  by_cases h : i = 0
  · exact Or.inl (by simp [h])
  · exact Or.inr ⟨32, varint i.toNat, by simp [h], by simp⟩

theorem headIn_f3 (i : Int) (h0 : 0 ≤ i) (R : Bytes) (hR : HeadIn [32] R) : HeadIn [24, 32] (fInt64 3 i ++ R) := by
  rw [fInt64_nonneg 3 i h0, tag30]
  by_cases h : i = 0
  · rcases hR with rfl | ⟨a, rest, rfl, ha⟩
    · exact Or.inl (by simp [h])
    · exact Or.inr ⟨a, rest, by simp [h], by simp at ha; simp [ha]⟩
  · exact Or.inr ⟨24, varint i.toNat ++ R, by simp [h], by simp⟩

theorem headIn_b2 (y R : Bytes) (hR : HeadIn [24, 32] R) : HeadIn [18, 24, 32] (fBytes 2 y ++ R) := by
  rw [fBytes2]
  by_cases h : y = []
  · rcases hR with rfl | ⟨a, rest, rfl, ha⟩
    · exact Or.inl (by simp [h])
    · exact Or.inr ⟨a, rest, by simp [h], by simp at ha ⊢; rcases ha with ha | ha <;> simp [ha]⟩
  · exact Or.inr ⟨18, varint y.length ++ y ++ R, by simp [h], by simp⟩

/-- decoder of the common wire shape (left inverse of `encXY` on non-negative height/size). -/
def decXY (b : Bytes) : Option (Bytes × Bytes × Nat × Nat) :=
  match decField 10 b with
  | none => none
  | some (x, r1) =>
    match decField 18 r1 with
    | none => none
    | some (y, r2) =>
      match decVField 24 r2 with
      | none => none
      | some (h, r3) =>
        match decVField 32 r3 with
        | none => none
        | some (s, _) => some (x, y, h, s)

theorem decXY_encXY (x y : Bytes) (h s : Int) (h0 : 0 ≤ h) (s0 : 0 ≤ s) :
    decXY (encXY x y h s) = some (x, y, h.toNat, s.toNat) := by
  unfold decXY encXY
  have a4 := headIn_f4 s s0
  have a3 := headIn_f3 h h0 _ a4
  have a2 := headIn_b2 y _ a3
  rw [decField_fBytes1 x _ a2]
  simp only
  rw [decField_fBytes2 y _ a3]
  simp only
  rw [decVField_f3 h h0 _ a4]
  simp only
  rw [decVField_f4 s s0]

/-- **injectivity of the hashed encodings** (leaf and inner, jointly): equal encodings ⇒ equal fields.  In
particular a leaf (height 0) and a branch with height ≥ 1 never share an encoding. -/
theorem encXY_inj {x y x' y' : Bytes} {h s h' s' : Int} (h0 : 0 ≤ h) (s0 : 0 ≤ s) (h0' : 0 ≤ h') (s0' : 0 ≤ s')
    (e : encXY x y h s = encXY x' y' h' s') : x = x' ∧ y = y' ∧ h = h' ∧ s = s' := by
  have a := decXY_encXY x y h s h0 s0
  rw [e, decXY_encXY x' y' h' s' h0' s0'] at a
  simp at a
  obtain ⟨rfl, rfl, e3, e4⟩ := a
  exact ⟨rfl, rfl, by omega, by omega⟩

/-! ### traces -/

/-- every pre-image hashed inside the tree. -/
def treeTrace (H : Bytes → Bytes) : Node → List Bytes
  | .leaf k v _ => [leafEnc k v]
  | .inner _ ht sz l r _ => innerEnc (pureHash H l) (pureHash H r) ht sz :: (treeTrace H l ++ treeTrace H r)

theorem foldTrace_snoc (H : Bytes → Bytes) (ins : List InnerNode) (b : InnerNode) : ∀ c,
    foldTrace H c (ins ++ [b]) = foldTrace H c ins ++ [stepPre (ins.foldl (innerNodeProofHash H) c) b] := by
  induction ins with
  | nil => intro c; simp [foldTrace]
  | cons x rest ih => intro c; simp [foldTrace, ih]

theorem fold_length {H : Bytes → Bytes} (hlen : ∀ x, (H x).length = 32) (ins : List InnerNode) :
    ∀ c, c.length = 32 → (ins.foldl (innerNodeProofHash H) c).length = 32 := by
  induction ins with
  | nil => intro c h; exact h
  | cons x rest ih => intro c _; exact ih _ (step_length hlen c x)

theorem pureHash_length {H : Bytes → Bytes} (hlen : ∀ x, (H x).length = 32) (t : Node) :
    (pureHash H t).length = 32 := by
  cases t <;> exact hlen _

theorem lookup_mem {k v : Bytes} {m : SMap} (h : SMap.lookup k m = some v) : (k, v) ∈ m := by
  induction m with
  | nil => simp [SMap.lookup] at h
  | cons a rest ih =>
    obtain ⟨k', v'⟩ := a
    simp only [SMap.lookup] at h
    split at h
    · rename_i hc
      have := cmpB_eq_iff.mp hc
      subst this
      simp at h; subst h; simp
    · simp [ih h]

theorem get_mem {t : Node} (hst : ST t) {k v : Bytes} (h : (t.get k).2 = some v) : (k, v) ∈ t.toList := by
  rw [get_eq_lookup t k hst] at h
  exact lookup_mem h

/-- the pre-image of a step with a branch that passes the check, in `encXY` form with non-negative height ≥ 1. -/
theorem stepPre_encXY (c : Bytes) (b : InnerNode) :
    stepPre c b = (if b.leftHash.isEmpty then encXY (last32 c) (last32 b.rightHash) b.height b.size
      else encXY (last32 b.leftHash) (last32 c) b.height b.size) := by
  unfold stepPre
  split <;> rw [innerEnc_eq_encXY]

theorem good_bounds {b : InnerNode} (h : goodBranch b = true) : 1 ≤ b.height ∧ 2 ≤ b.size := by
  simp [goodBranch] at h
  omega

theorem sub_left (a p e : Bytes) (F TL TR : List Bytes) :
    ∀ y ∈ a :: F ++ TL, y ∈ a :: (F ++ [p]) ++ e :: (TL ++ TR) := by
  intro y hy
  simp at hy ⊢
  rcases hy with h | h | h <;> simp [h]

theorem sub_right (a p e : Bytes) (F TL TR : List Bytes) :
    ∀ y ∈ a :: F ++ TR, y ∈ a :: (F ++ [p]) ++ e :: (TL ++ TR) := by
  intro y hy
  simp at hy ⊢
  rcases hy with h | h | h <;> simp [h]

/-- **core of membership soundness.** -/
theorem member_core {H : Bytes → Bytes} (hlen : ∀ x, (H x).length = 32) (k v : Bytes) :
    ∀ (t : Node), ST t → Shape t → ∀ (ins : List InnerNode), ins.all goodBranch = true →
      ins.foldl (innerNodeProofHash H) (H (leafEnc k v)) = pureHash H t →
      (t.get k).2 = some v ∨
        CollisionIn H (leafEnc k v :: foldTrace H (H (leafEnc k v)) ins ++ treeTrace H t) := by
  intro t
  induction t with
  | leaf tk tv m =>
    intro _ _ ins hg hf
    rcases List.eq_nil_or_concat ins with rfl | ⟨init, b, rfl⟩
    · simp only [List.foldl_nil, pureHash] at hf
      by_cases he : leafEnc k v = leafEnc tk tv
      · obtain ⟨rfl, rfl⟩ := leafEnc_inj he
        left; simp [Node.get, cmpB_refl]
      · right
        exact ⟨leafEnc k v, by simp, leafEnc tk tv, by simp [treeTrace], he, hf⟩
    · rw [List.concat_eq_append] at hf hg ⊢
      rw [List.foldl_append] at hf
      simp only [List.foldl_cons, List.foldl_nil, pureHash, step_eq] at hf
      have hgb : goodBranch b = true := by
        simp [List.all_append] at hg; exact hg.2
      obtain ⟨g1, g2⟩ := good_bounds hgb
      right
      refine ⟨stepPre (init.foldl (innerNodeProofHash H) (H (leafEnc k v))) b, by simp [foldTrace_snoc],
        leafEnc tk tv, by simp [treeTrace], ?_, hf⟩
      intro he
      rw [stepPre_encXY, leafEnc_eq_encXY tk tv] at he
      split at he
      · have := (encXY_inj (h := b.height) (s := b.size) (h' := 0) (s' := 1) (by omega) (by omega) (by omega) (by omega) he).2.2.1; omega
      · have := (encXY_inj (h := b.height) (s := b.size) (h' := 0) (s' := 1) (by omega) (by omega) (by omega) (by omega) he).2.2.1; omega
  | inner nk ht sz l r m ihl ihr =>
    intro hst hsh ins hg hf
    obtain ⟨stl, str, h1, h2⟩ := hst
    obtain ⟨shl, shr, b1, b2⟩ := hsh
    have hE : innerEnc (pureHash H l) (pureHash H r) (ht : Int) (sz : Int) =
        encXY (pureHash H l) (pureHash H r) ht sz := by
      rw [innerEnc_eq_encXY, last32_of_length (pureHash_length hlen l), last32_of_length (pureHash_length hlen r)]
    rcases List.eq_nil_or_concat ins with rfl | ⟨init, b, rfl⟩
    · simp only [List.foldl_nil, pureHash] at hf
      right
      refine ⟨leafEnc k v, by simp, innerEnc (pureHash H l) (pureHash H r) ht sz, by simp [treeTrace], ?_, hf⟩
      intro he
      rw [hE, leafEnc_eq_encXY] at he
      have := (encXY_inj (h := (ht : Int)) (s := (sz : Int)) (h' := 0) (s' := 1) (by omega) (by omega) (by omega) (by omega) he.symm).2.2.1
      omega
    · rw [List.concat_eq_append] at hf hg ⊢
      rw [List.foldl_append] at hf
      simp only [List.foldl_cons, List.foldl_nil, pureHash, step_eq] at hf
      have hgb : goodBranch b = true := by
        simp [List.all_append] at hg; exact hg.2
      have hgi : init.all goodBranch = true := by
        simp [List.all_append] at hg
        simpa using hg.1
      obtain ⟨g1, g2⟩ := good_bounds hgb
      generalize hc : init.foldl (innerNodeProofHash H) (H (leafEnc k v)) = c at hf
      have hcl : c.length = 32 := by rw [← hc]; exact fold_length hlen init _ (hlen _)
      by_cases he : stepPre c b = innerEnc (pureHash H l) (pureHash H r) ht sz
      · rw [hE, stepPre_encXY] at he
        split at he
        · -- the proved child is the left one
          obtain ⟨e1, _, _, _⟩ := encXY_inj (h := b.height) (s := b.size) (h' := (ht : Int)) (s' := (sz : Int)) (by omega) (by omega) (by omega) (by omega) he
          rw [last32_of_length hcl] at e1
          rcases ihl stl shl init hgi (hc.trans e1) with hm | hcol
          · left
            have hlt : lt k nk := h1 (k, v) (get_mem stl hm)
            simp only [Node.get, show cmpB k nk = .lt from hlt, if_true]
            exact hm
          · right
            refine hcol.mono ?_
            simp only [foldTrace_snoc, treeTrace]
            exact sub_left _ _ _ _ _ _
        · obtain ⟨_, e2, _, _⟩ := encXY_inj (h := b.height) (s := b.size) (h' := (ht : Int)) (s' := (sz : Int)) (by omega) (by omega) (by omega) (by omega) he
          rw [last32_of_length hcl] at e2
          rcases ihr str shr init hgi (hc.trans e2) with hm | hcol
          · left
            have hle : le nk k := h2 (k, v) (get_mem str hm)
            have hnl : ¬ cmpB k nk = .lt := not_lt_iff_le.mpr hle
            simp only [Node.get, hnl, if_false]
            exact hm
          · right
            refine hcol.mono ?_
            simp only [foldTrace_snoc, treeTrace]
            exact sub_right _ _ _ _ _ _
      · right
        rw [← hc] at he
        refine ⟨stepPre (init.foldl (innerNodeProofHash H) (H (leafEnc k v))) b, by simp [foldTrace_snoc],
          innerEnc (pureHash H l) (pureHash H r) ht sz, by simp [treeTrace], he, ?_⟩
        rw [hc]; exact hf

end C03
