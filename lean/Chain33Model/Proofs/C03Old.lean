import Chain33Model.Proofs.C03Bytes
/-! Theorems about `Proof.Verify` as it was BEFORE /repo 5751cd9 (`Proof.verifyOld`, `verifyKVPairProofOld`).
They carry the current ones (Props/C03.lean) through `verify_eq_old`, and keep the forgery witnesses as regression
facts about the old code. -/
namespace C03
open C01

/-- **proof_complete** (structure level) — for every key that `get` finds in a hashed search tree there is a
proof (`constructProof` succeeds with the stored value) and `Proof.Verify` accepts it against the tree's own root
hash together with that key and value. -/
theorem proof_complete_old {H : Bytes → Bytes} (hlen : ∀ x, (H x).length = 32) (t : Node) (hh : Hashed H t)
    (k v : Bytes) (hg : (t.get k).2 = some v) :
    ∃ lh ins root, constructProof t k = .found v lh ins ∧ t.info.hk = some root ∧
      Proof.verifyOld H ⟨H (leafEnc k v), ins, last32 root⟩ k v (last32 root) = true := by
  obtain ⟨lh, ins, e⟩ := constructProof_of_get hlen t hh k v hg
  obtain ⟨root, e1, e2, e3⟩ := constructProof_fold hlen t hh k v lh ins e
  refine ⟨lh, ins, root, e, e1, ?_⟩
  simp [Proof.verifyOld, last32_of_length (hlen (leafEnc k v)), e3]

/-- **proof_complete_bytes** — byte level: the *bytes* `Tree.Proof` / `GetKVPairProof` produce for a key that
`get` finds are accepted by `VerifyKVPairProof` (proto3 `Unmarshal` included) against the 32-byte root together
with the stored value.  `Fits t` states that the tree fits the Go types (int32 height/size, node keys shorter than
2^32 bytes); the proto3 round trip `decodeProof (encProof ins) = some ins` is proved (`decodeProof_encProof`). -/
theorem proof_complete_bytes_old {H : Bytes → Bytes} (hlen : ∀ x, (H x).length = 32) (t : Node)
    (hh : Hashed H t) (hfit : Fits t) (k v root : Bytes) (hg : (t.get k).2 = some v)
    (hr : t.info.hk = some root) (hroot : root.length = 32) :
    ∃ lh ins, constructProof t k = .found v lh ins ∧ verifyKVPairProofOld H root k v (encProof ins) = true := by
  obtain ⟨lh, ins, root', e, e1, e2⟩ := proof_complete_old hlen t hh k v hg
  rw [hr] at e1; cases e1
  refine ⟨lh, ins, e, ?_⟩
  rw [last32_of_length hroot] at e2
  simp [verifyKVPairProofOld, decodeProof_encProof ins (constructProof_norm t hfit k v lh ins e), e2]

/-- **proof_sound** — one proof (the same bytes) cannot be accepted for two different (key, value) pairs against
the same root, unless the hash function has a collision.  With completeness: the proof produced for `(k, v)`
verifies no other value and no other key. -/
theorem proof_sound_old {H : Bytes → Bytes} (hlen : ∀ x, (H x).length = 32) (root k v k' v' pb : Bytes)
    (h1 : verifyKVPairProofOld H root k v pb = true) (h2 : verifyKVPairProofOld H root k' v' pb = true) :
    (k' = k ∧ v' = v) ∨ Collision H := by
  unfold verifyKVPairProofOld at h1 h2
  cases hd : decodeProof pb with
  | none => simp [hd] at h1
  | some ins =>
    simp only [hd, Proof.verifyOld, bne_self_eq_false, Bool.false_eq_true, if_false] at h1 h2
    have l1 := last32_of_length (hlen (leafEnc k v))
    have l2 := last32_of_length (hlen (leafEnc k' v'))
    simp only [l1, l2, bne_self_eq_false, Bool.false_eq_true, if_false, beq_iff_eq] at h1 h2
    rcases fold_inj hlen ins _ _ (hlen _) (hlen _) (h2.trans h1.symm) with e | c
    · rcases eq_or_collision e with e' | c
      · exact Or.inl (leafEnc_inj e')
      · exact Or.inr c
    · exact Or.inr c

/-- **proof_sound_located** — the same with the collision *located*: the two colliding pre-images are among the
(finitely many) strings the two verification runs actually hash (`verifyTrace`), so the disjunct is not the
classically trivial "some collision exists somewhere" but exactly the reduction's output. -/
theorem proof_sound_located_old {H : Bytes → Bytes} (hlen : ∀ x, (H x).length = 32) (root k v k' v' pb : Bytes)
    (h1 : verifyKVPairProofOld H root k v pb = true) (h2 : verifyKVPairProofOld H root k' v' pb = true) :
    (k' = k ∧ v' = v) ∨ CollisionIn H (verifyTrace H k v pb ++ verifyTrace H k' v' pb) := by
  unfold verifyKVPairProofOld at h1 h2
  unfold verifyTrace
  cases hd : decodeProof pb with
  | none => simp [hd] at h1
  | some ins =>
    simp only [hd, Proof.verifyOld, bne_self_eq_false, Bool.false_eq_true, if_false] at h1 h2
    have l1 := last32_of_length (hlen (leafEnc k v))
    have l2 := last32_of_length (hlen (leafEnc k' v'))
    simp only [l1, l2, bne_self_eq_false, Bool.false_eq_true, if_false, beq_iff_eq] at h1 h2
    rcases fold_inj_located hlen ins _ _ (hlen _) (hlen _) (h2.trans h1.symm) with e | c
    · by_cases hp : leafEnc k' v' = leafEnc k v
      · exact Or.inl (leafEnc_inj hp)
      · exact Or.inr ⟨leafEnc k' v', by simp, leafEnc k v, by simp, hp, e⟩
    · refine Or.inr (c.mono ?_)
      intro y hy
      simp only [List.mem_append, List.mem_cons] at hy ⊢
      rcases hy with hy | hy
      · exact Or.inr (Or.inr hy)
      · exact Or.inl (Or.inr hy)

/-- **verify_other_root** — a proof accepted for `(k, v)` against `root` is rejected against every other root. -/
theorem verify_other_root_old (H : Bytes → Bytes) (root root' k v pb : Bytes)
    (h1 : verifyKVPairProofOld H root k v pb = true) (hne : root' ≠ root) :
    verifyKVPairProofOld H root' k v pb = false := by
  unfold verifyKVPairProofOld at h1 ⊢
  cases hd : decodeProof pb with
  | none => simp
  | some ins =>
    simp only [hd, Proof.verifyOld, bne_self_eq_false, Bool.false_eq_true, if_false] at h1 ⊢
    split at h1
    · simp at h1
    · rename_i hl
      rw [if_neg hl]
      have e : ins.foldl (innerNodeProofHash H) (H (leafEnc k v)) = root := by simpa using h1
      rw [e]
      simp only [beq_eq_false_iff_ne, ne_eq]
      exact fun x => hne x.symm

/-- **verify_total** — `VerifyKVPairProof` on arbitrary bytes: the model has no panic outcome at all (no Go
operation on this path can panic — no indexing, no nil dereference: `proto.Unmarshal` returns an error, the fold
only hashes), and undecodable bytes are rejected. -/
theorem verify_total_old (H : Bytes → Bytes) (root k v pb : Bytes) :
    (decodeProof pb = none → verifyKVPairProofOld H root k v pb = false) ∧
    (∃ b : Bool, verifyKVPairProofOld H root k v pb = b) := by
  refine ⟨fun h => by simp [verifyKVPairProofOld, h], ⟨_, rfl⟩⟩

/-! ### membership soundness is false of the code (finding, replayed by `h_c03`) -/

/-- **membership_forgery** (refutes the stronger `verify_membership` the design hoped for: "an accepted proof
implies the pair is in the state, or a collision") — for *every* hash function with 32-byte outputs and every pair
`(k', v')`: take the one-leaf state `{A ↦ B}` with `A = H(leafEnc k' v')` (a 32-byte key) and any `B` of at most
32 bytes; its root is `H(leafEnc A B)`.  The "proof" made of the single inner node
`{LeftHash: nil, RightHash: B, Height: 0, Size: 1}` makes `VerifyKVPairProof` accept `(k', v')` against that root
although `k'` is not a key of the state.  No property of `H` is used: the leaf `(A, B)` is re-read as an inner node
(`LeafNode` and `InnerNode` have the same wire shape and `Proof.Verify` does not require height ≥ 1 / size ≥ 2).
In a larger state the forged node is simply put in front of the honest proof of `A`. -/
theorem forgery_old_key (H : Bytes → Bytes) (hlen : ∀ x, (H x).length = 32) (k' v' b : Bytes)
    (hb2 : b.length ≤ 32) (hne : k' ≠ H (leafEnc k' v')) :
    let a := H (leafEnc k' v')
    let root := H (leafEnc a b)
    let t : Node := .leaf a b ⟨some root, true⟩
    Hashed H t ∧ (t.get k').2 = none ∧
      verifyKVPairProofOld H root k' v' (encProof [⟨[], b, 0, 1⟩]) = true := by
  intro a root t
  have hnorm : ∀ n ∈ [(⟨[], b, 0, 1⟩ : InnerNode)], Norm n := by
    intro n hn
    simp at hn; subst hn
    exact norm_of_bounds [] b 0 1 (by decide) (by decide) (by simp) (by omega)
  refine ⟨⟨root, rfl, last32_of_length (hlen _)⟩, ?_, ?_⟩
  · simp only [t, Node.get]
    cases hc : cmpB a k' with
    | eq => exact absurd (cmpB_eq_iff.mp hc).symm hne
    | lt => rfl
    | gt => rfl
  · simp only [verifyKVPairProofOld, decodeProof_encProof _ hnorm, Proof.verifyOld, bne_self_eq_false,
      Bool.false_eq_true, if_false, last32_of_length (hlen (leafEnc k' v')), List.foldl_cons, List.foldl_nil,
      innerNodeProofHash, List.isEmpty_nil, if_true]
    rw [innerEnc_eq_leafEnc _ b (by rw [hlen]; omega) hb2]
    simp [root, a]

/-- the same forgery through an attacker-chosen *value*: a leaf `(K, A)` with a key `K` of 1..32 bytes whose value
is the 32-byte `A = H(leafEnc k' v')`; forged node `{LeftHash: K, RightHash: nil, Height: 0, Size: 1}`. -/
theorem forgery_old_value (H : Bytes → Bytes) (hlen : ∀ x, (H x).length = 32) (k' v' sk : Bytes)
    (hs1 : sk ≠ []) (hs2 : sk.length ≤ 32) (hne : k' ≠ sk) :
    let a := H (leafEnc k' v')
    let root := H (leafEnc sk a)
    let t : Node := .leaf sk a ⟨some root, true⟩
    Hashed H t ∧ (t.get k').2 = none ∧
      verifyKVPairProofOld H root k' v' (encProof [⟨sk, [], 0, 1⟩]) = true := by
  intro a root t
  have hnorm : ∀ n ∈ [(⟨sk, [], 0, 1⟩ : InnerNode)], Norm n := by
    intro n hn
    simp at hn; subst hn
    exact norm_of_bounds sk [] 0 1 (by decide) (by decide) (by omega) (by simp)
  refine ⟨⟨root, rfl, last32_of_length (hlen _)⟩, ?_, ?_⟩
  · simp only [t, Node.get]
    cases hc : cmpB sk k' with
    | eq => exact absurd (cmpB_eq_iff.mp hc).symm hne
    | lt => rfl
    | gt => rfl
  · have hse : sk.isEmpty = false := by cases sk <;> simp_all
    simp only [verifyKVPairProofOld, decodeProof_encProof _ hnorm, Proof.verifyOld, bne_self_eq_false,
      Bool.false_eq_true, if_false, last32_of_length (hlen (leafEnc k' v')), List.foldl_cons, List.foldl_nil,
      innerNodeProofHash, hse]
    rw [innerEnc_eq_leafEnc sk _ hs2 (by rw [hlen]; omega)]
    simp [root, a]

/-! ### regression witness: a fold step that fills only an EMPTY side (seeded regression C03b)

`Proof.verifyWith step` is `Proof.verify` with the fold step as a parameter (`verifyWith_eq`).  The variant
`innerNodeProofHashFill` copies both hashes of the branch record and puts the child hash only into an empty side; a
record that carries both hashes then ignores the child hash, and the root's own record verifies every pair. -/

def verifyLoopWith (step : Bytes → InnerNode → Bytes) : Bytes → List InnerNode → Option Bytes
  | h, [] => some h
  | h, b :: rest => if goodBranch b then verifyLoopWith step (step h b) rest else none

def Proof.verifyWith (step : Bytes → InnerNode → Bytes) (H : Bytes → Bytes) (p : Proof) (key value root : Bytes) : Bool :=
  if p.rootHash != root then false
  else
    let leafHash := H (leafEnc key value)
    if leafHash != last32 p.leafHash then false
    else match verifyLoopWith step leafHash p.inners with
      | none => false
      | some h => h == p.rootHash

theorem verifyLoopWith_eq (H : Bytes → Bytes) (ins : List InnerNode) :
    ∀ h, verifyLoopWith (innerNodeProofHash H) h ins = verifyLoop H h ins := by
  induction ins with
  | nil => intro h; rfl
  | cons b rest ih => intro h; simp only [verifyLoopWith, verifyLoop, ih]

theorem verifyWith_eq (H : Bytes → Bytes) (p : Proof) (k v root : Bytes) :
    p.verifyWith (innerNodeProofHash H) H k v root = p.verify H k v root := by
  unfold Proof.verifyWith Proof.verify
  simp only [verifyLoopWith_eq]
  split
  · rfl
  · split
    · rfl
    · cases verifyLoop H (H (leafEnc k v)) p.inners <;> rfl

/-- the changed step of the seeded regression. -/
def innerNodeProofHashFill (H : Bytes → Bytes) (child : Bytes) (b : InnerNode) : Bytes :=
  if b.leftHash.isEmpty then H (innerEnc child b.rightHash b.height b.size)
  else if b.rightHash.isEmpty then H (innerEnc b.leftHash child b.height b.size)
  else H (innerEnc b.leftHash b.rightHash b.height b.size)

theorem fill_root_record_accepts_all (H : Bytes → Bytes) (hlen : ∀ x, (H x).length = 32) (l r : Bytes) (ht sz : Int)
    (hl : l ≠ []) (hr : r ≠ []) (hht : 1 ≤ ht) (hsz : 2 ≤ sz) (k v : Bytes) :
    let root := H (innerEnc l r ht sz)
    (⟨H (leafEnc k v), [⟨l, r, ht, sz⟩], root⟩ : Proof).verifyWith (innerNodeProofHashFill H) H k v root = true := by
  intro root
  have e1 : l.isEmpty = false := by cases l <;> simp_all
  have e2 : r.isEmpty = false := by cases r <;> simp_all
  have hg : goodBranch ⟨l, r, ht, sz⟩ = true := by
    simp only [goodBranch, Bool.not_eq_true', Bool.or_eq_false_iff, decide_eq_false_iff_not]; omega
  simp [Proof.verifyWith, verifyLoopWith, hg, innerNodeProofHashFill, e1, e2, last32_of_length (hlen _), root]

end C03
