import Chain33Model.Model.C03
/-! the slice expressions of the verifier are always in range: the panic-explicit verifier never takes a panic
branch and returns what the Bool-valued one returns. -/
namespace C03
open C01

theorem last32P_ok (b : Bytes) : last32P b = .ok (last32 b) := by
  unfold last32P last32 sliceFrom
  split
  · rw [if_pos (by omega)]
  · rfl

theorem innerEncP_ok (l r : Bytes) (h s : Int) : innerEncP l r h s = .ok (innerEnc l r h s) := by
  simp [innerEncP, innerEnc, last32P_ok]

theorem innerNodeProofHashP_ok (H : Bytes → Bytes) (c : Bytes) (b : InnerNode) :
    innerNodeProofHashP H c b = .ok (innerNodeProofHash H c b) := by
  unfold innerNodeProofHashP innerNodeProofHash
  by_cases h : b.leftHash.isEmpty = true
  · simp only [h, if_true, innerEncP_ok]
  · simp only [h, if_false, innerEncP_ok]; rfl

theorem verifyLoopP_ok (H : Bytes → Bytes) (ins : List InnerNode) :
    ∀ h, verifyLoopP H h ins = .ok (verifyLoop H h ins) := by
  induction ins with
  | nil => intro h; rfl
  | cons b rest ih =>
    intro h
    simp only [verifyLoopP, verifyLoop, innerNodeProofHashP_ok, ih]
    split <;> rfl

theorem verifyP_ok (H : Bytes → Bytes) (p : Proof) (k v root : Bytes) :
    p.verifyP H k v root = .ok (p.verify H k v root) := by
  unfold Proof.verifyP Proof.verify
  simp only [last32P_ok, verifyLoopP_ok]
  split
  · rfl
  · split
    · rfl
    · cases verifyLoop H (H (leafEnc k v)) p.inners <;> rfl

theorem verifyKVPairProofP_ok (H : Bytes → Bytes) (root k v pb : Bytes) :
    verifyKVPairProofP H root k v pb = .ok (verifyKVPairProof H root k v pb) := by
  unfold verifyKVPairProofP verifyKVPairProof
  cases decodeProof pb with
  | none => rfl
  | some ins => exact verifyP_ok H _ k v root

end C03
