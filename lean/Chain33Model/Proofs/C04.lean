import Chain33Model.Model.C04
import Chain33Model.Proofs.C01Store
import Chain33Model.Proofs.C02
/-! Helper lemmas for C04: frame properties of the store operations. -/
namespace C04
open C01 C02

theorem loadRoot_frame (s : Store) (h : Bytes) :
    (s.loadRoot h).2.db = s.db ∧ (s.loadRoot h).2.cfg = s.cfg ∧ (s.loadRoot h).2.trees = s.trees := by
  unfold Store.loadRoot
  split
  · exact ⟨rfl, rfl, rfl⟩
  · split <;> exact ⟨rfl, rfl, rfl⟩

theorem memSet_frame (H : Bytes → Bytes) (s : Store) (p : Bytes) (bh : Nat) (kvs : List (Bytes × Bytes)) :
    (memSet H s p bh kvs).2.db = s.db ∧ (memSet H s p bh kvs).2.cfg = s.cfg := by
  unfold memSet
  split
  · simp only; split <;> exact ⟨rfl, rfl⟩
  · obtain ⟨f1, f2, _⟩ := loadRoot_frame s p
    generalize s.loadRoot p = lr at f1 f2 ⊢
    obtain ⟨res, s'⟩ := lr
    simp only at f1 f2
    cases res with
    | notfound => exact ⟨f1, f2⟩
    | panic => exact ⟨f1, f2⟩
    | ok t =>
      simp only
      cases Tree.setMany t kvs with
      | none => exact ⟨f1, f2⟩
      | some t' =>
        cases t' with
        | none => exact ⟨f1, f2⟩
        | some n => exact ⟨f1, f2⟩

theorem rollback_frame (s : Store) (r : Bytes) : (rollback s r).2.db = s.db ∧ (rollback s r).2.cfg = s.cfg := by
  unfold rollback; split <;> exact ⟨rfl, rfl⟩

theorem reopen_eq_of_frame {s s' : Store} (h1 : s'.db = s.db) (h2 : s'.cfg = s.cfg) : s'.reopen = s.reopen := by
  cases s; cases s'; simp_all [Store.reopen]

/-- labels that only compute, keep or drop pending updates. -/
def Label.pendingOnly : Label → Bool
  | .memSet .. => true
  | .rollback _ => true
  | .get .. => true
  | .restart => true
  | _ => false

theorem get_frame (s : Store) (r : Bytes) (ks : List Bytes) :
    (s.get r ks).2.db = s.db ∧ (s.get r ks).2.cfg = s.cfg := by
  unfold Store.get Store.treeAt
  split
  · rename_i heq
    split at heq
    · cases heq; exact ⟨rfl, rfl⟩
    · have := loadRoot_frame s r; rw [heq] at this; exact ⟨this.1, this.2.1⟩
  · rename_i heq
    split at heq
    · cases heq
    · have := loadRoot_frame s r; rw [heq] at this; exact ⟨this.1, this.2.1⟩
  · rename_i heq
    split at heq
    · cases heq
    · have := loadRoot_frame s r; rw [heq] at this; exact ⟨this.1, this.2.1⟩

theorem step_frame (H : Bytes → Bytes) (s : Store) (l : Label) (hl : l.pendingOnly = true) :
    (step H s l).1.db = s.db ∧ (step H s l).1.cfg = s.cfg := by
  cases l with
  | set => simp [Label.pendingOnly] at hl
  | commit => simp [Label.pendingOnly] at hl
  | memSet p h kvs => exact memSet_frame H s p h kvs
  | rollback r => exact rollback_frame s r
  | get r ks => exact get_frame s r ks
  | restart => exact ⟨rfl, rfl⟩

theorem run_frame (H : Bytes → Bytes) (ls : List Label) (hl : ∀ l ∈ ls, l.pendingOnly = true) :
    ∀ s, (run H s ls).db = s.db ∧ (run H s ls).cfg = s.cfg := by
  induction ls with
  | nil => intro s; exact ⟨rfl, rfl⟩
  | cons l rest ih =>
    intro s
    simp only [run, List.foldl_cons]
    obtain ⟨a, b⟩ := step_frame H s l (hl l (by simp))
    obtain ⟨c, d⟩ := ih (fun x hx => hl x (by simp [hx])) (step H s l).1
    exact ⟨c.trans a, d.trans b⟩

theorem lookupTree_storeTree_self (ts : List (Bytes × Option Node)) (h : Bytes) (t : Option Node) :
    lookupTree (storeTree ts h t) h = some t := by
  simp [lookupTree, storeTree]

/-- the node cache only holds what the database holds. -/
def CacheOK (s : Store) : Prop := ∀ h n, s.cache[h]? = some n → loadTree s.db h = .ok (some n)

theorem loadRoot_result (s : Store) (hc : CacheOK s) (h : Bytes) :
    (s.loadRoot h).1 = loadTree s.db h ∧ CacheOK (s.loadRoot h).2 := by
  unfold Store.loadRoot
  cases hm : s.cache[h]? with
  | some n => exact ⟨(hc h n hm).symm, hc⟩
  | none =>
    simp only
    cases hl : loadTree s.db h with
    | notfound => exact ⟨rfl, hc⟩
    | panic => exact ⟨rfl, hc⟩
    | ok t =>
      cases t with
      | none => exact ⟨rfl, hc⟩
      | some n =>
        refine ⟨rfl, ?_⟩
        intro h' n' e
        simp only at e
        rw [Std.HashMap.getElem?_insert] at e
        by_cases hh : h = h'
        · subst hh; simp at e; subst e; exact hl
        · have : (h == h') = false := by simpa using hh
          simp [this] at e
          exact hc h' n' e

/-- the reply of `MemSet` is a function of the configuration and the database only. -/
theorem memSet_reply_eq (H : Bytes → Bytes) (s s' : Store) (hc : CacheOK s) (hc' : CacheOK s')
    (hdb : s'.db = s.db) (hcfg : s'.cfg = s.cfg) (p : Bytes) (bh : Nat) (kvs : List (Bytes × Bytes)) :
    (memSet H s' p bh kvs).1 = (memSet H s p bh kvs).1 := by
  unfold memSet
  split
  · rfl
  · obtain ⟨a, _⟩ := loadRoot_result s hc p
    obtain ⟨a', _⟩ := loadRoot_result s' hc' p
    obtain ⟨_, fc, _⟩ := loadRoot_frame s p
    obtain ⟨_, fc', _⟩ := loadRoot_frame s' p
    rw [hdb] at a'
    generalize s.loadRoot p = lr at a fc ⊢
    generalize s'.loadRoot p = lr' at a' fc' ⊢
    obtain ⟨res, t⟩ := lr
    obtain ⟨res', t'⟩ := lr'
    simp only at a a' fc fc'
    rw [a, a']
    cases loadTree s.db p with
    | notfound => rfl
    | panic => rfl
    | ok tr =>
      simp only
      cases Tree.setMany tr kvs with
      | none => rfl
      | some x =>
        cases x with
        | none => rfl
        | some n => simp only [fc, fc', hcfg]

theorem memSet_cacheOK (H : Bytes → Bytes) (s : Store) (hc : CacheOK s) (p : Bytes) (bh : Nat)
    (kvs : List (Bytes × Bytes)) : CacheOK (memSet H s p bh kvs).2 := by
  unfold memSet
  split
  · simp only; split <;> exact hc
  · obtain ⟨_, b⟩ := loadRoot_result s hc p
    generalize s.loadRoot p = lr at b ⊢
    obtain ⟨res, s'⟩ := lr
    simp only at b
    cases res with
    | notfound => exact b
    | panic => exact b
    | ok t =>
      simp only
      cases Tree.setMany t kvs with
      | none => exact b
      | some t' =>
        cases t' with
        | none => exact b
        | some n => exact b

theorem rollback_cacheOK (s : Store) (hc : CacheOK s) (r : Bytes) : CacheOK (rollback s r).2 := by
  unfold rollback; split <;> exact hc

theorem get_cacheOK (s : Store) (hc : CacheOK s) (r : Bytes) (ks : List Bytes) : CacheOK (s.get r ks).2 := by
  unfold Store.get Store.treeAt
  have hl := (loadRoot_result s hc r).2
  split
  · rename_i heq
    split at heq
    · cases heq; exact hc
    · rw [heq] at hl; exact hl
  · rename_i heq
    split at heq
    · cases heq
    · rw [heq] at hl; exact hl
  · rename_i heq
    split at heq
    · cases heq
    · rw [heq] at hl; exact hl

theorem reopen_cacheOK (s : Store) : CacheOK s.reopen := by
  intro h n e
  simp [Store.reopen] at e

theorem run_cacheOK (H : Bytes → Bytes) (ls : List Label) (hl : ∀ l ∈ ls, l.pendingOnly = true) :
    ∀ s, CacheOK s → CacheOK (run H s ls) := by
  induction ls with
  | nil => intro s hc; exact hc
  | cons l rest ih =>
    intro s hc
    simp only [run, List.foldl_cons]
    apply ih (fun x hx => hl x (by simp [hx]))
    have := hl l (by simp)
    cases l with
    | set => simp [Label.pendingOnly] at this
    | commit => simp [Label.pendingOnly] at this
    | memSet p h kvs => exact memSet_cacheOK H s hc p h kvs
    | rollback r => exact rollback_cacheOK s hc r
    | get r ks => exact get_cacheOK s hc r ks
    | restart => exact reopen_cacheOK s

/-! ### pending entries are hashed, unsaved trees stored under their own root hash -/

theorem set_root_info (t : Node) (k v : Bytes) : ∀ t' u, t.set k v = some (t', u) → t'.info = Meta.fresh := by
  intro t' u e
  cases t with
  | leaf nk nv m =>
    simp only [Node.set] at e
    split at e <;> (simp at e; obtain ⟨rfl, rfl⟩ := e; rfl)
  | inner nk h s l r m =>
    simp only [Node.set] at e
    split at e
    · cases hs : l.set k v with
      | none => simp [hs] at e
      | some p =>
        obtain ⟨l', ul⟩ := p
        rw [hs] at e
        cases ul with
        | true => simp at e; obtain ⟨rfl, rfl⟩ := e; rfl
        | false =>
          obtain ⟨n', hb, hc⟩ := balance_cases nk (max l'.height r.height + 1) (l'.size + r.size) l' r Meta.fresh
          simp only [Node.mk, hb, Option.map_some] at e
          simp at e; obtain ⟨rfl, rfl⟩ := e
          cases hc <;> rfl
    · cases hs : r.set k v with
      | none => simp [hs] at e
      | some p =>
        obtain ⟨r', ur⟩ := p
        rw [hs] at e
        cases ur with
        | true => simp at e; obtain ⟨rfl, rfl⟩ := e; rfl
        | false =>
          obtain ⟨n', hb, hc⟩ := balance_cases nk (max l.height r'.height + 1) (l.size + r'.size) l r' Meta.fresh
          simp only [Node.mk, hb, Option.map_some] at e
          simp at e; obtain ⟨rfl, rfl⟩ := e
          cases hc <;> rfl

theorem setMany_root_info (kvs : List (Bytes × Bytes)) (hne : kvs ≠ []) :
    ∀ (t : Tree) (n : Node), Tree.setMany t kvs = some (some n) → n.info = Meta.fresh := by
  induction kvs with
  | nil => exact absurd rfl hne
  | cons kv rest ih =>
    obtain ⟨k, v⟩ := kv
    intro t n e
    simp only [Tree.setMany] at e
    cases hs : Tree.set t k v with
    | none => simp [hs] at e
    | some p =>
      obtain ⟨t1, u⟩ := p
      rw [hs] at e
      simp only at e
      by_cases hr : rest = []
      · subst hr
        simp [Tree.setMany] at e
        subst e
        cases t with
        | none => simp [Tree.set] at hs; obtain ⟨rfl, _⟩ := hs; rfl
        | some n0 =>
          simp only [Tree.set] at hs
          cases h0 : n0.set k v with
          | none => simp [h0] at hs
          | some q =>
            obtain ⟨n1, u1⟩ := q
            simp [h0] at hs
            obtain ⟨rfl, _⟩ := hs
            exact set_root_info n0 k v n1 u1 h0
      · exact ih hr t1 n e

theorem hashNode_info (H : Bytes → Bytes) (cfg : Cfg) (bh rh : Nat) (t : Node) :
    (hashNode H cfg bh rh t).1.info.hk = some (hashNode H cfg bh rh t).2 ∧
    (hashNode H cfg bh rh t).1.info.persisted = t.info.persisted := by
  cases t with
  | leaf k v m =>
    cases hm : m.hk with
    | some h => simp [hashNode, hm, Node.info]
    | none => simp [hashNode, hm, Node.info]
  | inner k ht sz l r m =>
    cases hm : m.hk with
    | some h => simp [hashNode, hm, Node.info]
    | none => simp [hashNode, hm, Node.info]

/-- every pending tree is stored under its own root key and has not been saved. -/
def PendOK (s : Store) : Prop :=
  ∀ r n, lookupTree s.trees r = some (some n) → n.info.hk = some r ∧ n.info.persisted = false

theorem lookupTree_storeTree_ne (ts : List (Bytes × Option Node)) (h h' : Bytes) (t : Option Node) (hne : h ≠ h') :
    lookupTree (storeTree ts h t) h' = lookupTree ts h' := by
  have e : (h == h') = false := by simpa using hne
  simp only [lookupTree, storeTree, List.find?_cons, e]
  congr 1
  induction ts with
  | nil => rfl
  | cons a rest ih =>
    by_cases ha : a.1 = h
    · have : (a.1 == h') = false := by rw [ha]; exact e
      have hb : (a.1 == h) = true := by simpa using ha
      simp only [List.filter_cons, hb, Bool.not_true, Bool.false_eq_true, if_false, List.find?_cons, this]
      exact ih
    · have hb : (a.1 == h) = false := by simpa using ha
      by_cases hc : (a.1 == h') = true
      · simp [List.filter_cons, hb, List.find?_cons, hc]
      · simp [List.filter_cons, hb, List.find?_cons, hc, ih]

/-- one `MemSet` (any parent, height, writes): pending entries stay well formed, and a root that has a pending
tree keeps having one. -/
theorem memSet_pending (H : Bytes → Bytes) (s : Store) (hp : PendOK s) (p : Bytes) (bh : Nat)
    (kvs : List (Bytes × Bytes)) :
    PendOK (memSet H s p bh kvs).2 ∧
    ∀ r n, lookupTree s.trees r = some (some n) → ∃ n', lookupTree (memSet H s p bh kvs).2.trees r = some (some n') := by
  unfold memSet
  split
  · simp only
    cases hl : lookupTree s.trees p with
    | some x => exact ⟨hp, fun r n h => ⟨n, h⟩⟩
    | none =>
      simp only
      refine ⟨?_, ?_⟩
      · intro r n h
        by_cases e : p = r
        · subst e; rw [lookupTree_storeTree_self] at h; cases h
        · rw [lookupTree_storeTree_ne _ _ _ _ e] at h; exact hp r n h
      · intro r n h
        have e : p ≠ r := by intro x; subst x; rw [hl] at h; cases h
        exact ⟨n, by rw [lookupTree_storeTree_ne _ _ _ _ e]; exact h⟩
  · rename_i hne
    obtain ⟨_, _, ft⟩ := loadRoot_frame s p
    generalize s.loadRoot p = lr at ft ⊢
    obtain ⟨res, s'⟩ := lr
    simp only at ft
    have hp' : PendOK s' := by intro r n h; rw [ft] at h; exact hp r n h
    have keep : ∀ r n, lookupTree s.trees r = some (some n) → ∃ n', lookupTree s'.trees r = some (some n') :=
      fun r n h => ⟨n, by rw [ft]; exact h⟩
    cases res with
    | notfound => exact ⟨hp', keep⟩
    | panic => exact ⟨hp', keep⟩
    | ok t =>
      simp only
      cases hsm : Tree.setMany t kvs with
      | none => exact ⟨hp', keep⟩
      | some t' =>
        cases t' with
        | none => exact ⟨hp', keep⟩
        | some n =>
          simp only
          have hi := setMany_root_info kvs (by intro x; subst x; simp at hne) t n hsm
          obtain ⟨a, b⟩ := hashNode_info H s'.cfg bh n.height n
          change (hashRoot H s'.cfg bh n).1.info.hk = some (hashRoot H s'.cfg bh n).2 at a
          change (hashRoot H s'.cfg bh n).1.info.persisted = n.info.persisted at b
          generalize hashRoot H s'.cfg bh n = hr at a b ⊢
          obtain ⟨n', root⟩ := hr
          simp only at a b ⊢
          refine ⟨?_, ?_⟩
          · intro r m h
            by_cases e : root = r
            · subst e; rw [lookupTree_storeTree_self] at h
              cases h
              exact ⟨a, by rw [b, hi]; rfl⟩
            · rw [lookupTree_storeTree_ne _ _ _ _ e] at h; exact hp' r m h
          · intro r m h
            by_cases e : root = r
            · subst e; exact ⟨n', lookupTree_storeTree_self _ _ _⟩
            · obtain ⟨m', hm'⟩ := keep r m h
              exact ⟨m', by rw [lookupTree_storeTree_ne _ _ _ _ e]; exact hm'⟩

def Label.isMemSet : Label → Bool
  | .memSet .. => true
  | _ => false

theorem run_memSets_pending (H : Bytes → Bytes) (ls : List Label) (hl : ∀ l ∈ ls, l.isMemSet = true) :
    ∀ s, PendOK s → PendOK (run H s ls) ∧
      ∀ r n, lookupTree s.trees r = some (some n) → ∃ n', lookupTree (run H s ls).trees r = some (some n') := by
  induction ls with
  | nil => intro s hp; exact ⟨hp, fun r n h => ⟨n, h⟩⟩
  | cons l rest ih =>
    intro s hp
    have hm := hl l (by simp)
    cases l with
    | memSet p bh kvs =>
      obtain ⟨a, b⟩ := memSet_pending H s hp p bh kvs
      obtain ⟨c, d⟩ := ih (fun x hx => hl x (by simp [hx])) _ a
      refine ⟨c, ?_⟩
      intro r n h
      obtain ⟨n1, h1⟩ := b r n h
      exact d r n1 h1
    | set => simp [Label.isMemSet] at hm
    | commit => simp [Label.isMemSet] at hm
    | rollback => simp [Label.isMemSet] at hm
    | get => simp [Label.isMemSet] at hm
    | restart => simp [Label.isMemSet] at hm

theorem insertAll_last (db : NodeDB) (ws : List (Bytes × Bytes)) (k v : Bytes) :
    (insertAll db (ws ++ [(k, v)]))[k]? = some v := by
  simp [insertAll, List.foldl_append]

/-- saving an unsaved tree writes the record of its root. -/
theorem save_root_record (cfg : Cfg) (n n' : Node) (db db' : NodeDB) (r : Bytes)
    (hs : save cfg n db = some (n', db')) (hr : n.info.hk = some r) (hp : n.info.persisted = false) :
    db'[r]? ≠ none := by
  obtain ⟨ws, hw, _, rfl⟩ := save_eq cfg n db n' db' hs
  cases n with
  | leaf k v m =>
    simp only [Node.info] at hr hp
    simp [writes, hr, hp] at hw
    subst hw
    simp [insertAll]
  | inner k ht sz l r' m =>
    simp only [Node.info] at hr hp
    simp only [writes, hr, hp, Bool.false_eq_true, if_false] at hw
    split at hw
    · simp at hw
      subst hw
      rw [← List.append_assoc, insertAll_last]
      simp
    · simp at hw

/-! ### a pending entry survives every request except its own Commit / Rollback and a restart -/

theorem cacheTree_trees (s : Store) (r : Bytes) (t : Tree) : (s.cacheTree r t).trees = s.trees := by
  cases t <;> rfl

theorem setKV_trees (H : Bytes → Bytes) (s : Store) (p : Bytes) (bh : Nat) (kvs : List (Bytes × Bytes)) :
    (s.setKV H p bh kvs).2.trees = s.trees := by
  unfold Store.setKV
  obtain ⟨_, _, f3⟩ := loadRoot_frame s p
  generalize s.loadRoot p = lr at f3 ⊢
  obtain ⟨res, s'⟩ := lr
  simp only at f3
  cases res with
  | notfound => exact f3
  | panic => exact f3
  | ok t =>
    simp only
    cases Tree.setMany t kvs with
    | none => exact f3
    | some t' =>
      simp only
      cases saveTree H s'.cfg bh t' s'.db with
      | notfound => exact f3
      | panic => exact f3
      | ok x => obtain ⟨root, t'', db'⟩ := x; simpa [cacheTree_trees] using f3

theorem get_trees (s : Store) (r : Bytes) (ks : List Bytes) : (s.get r ks).2.trees = s.trees := by
  unfold Store.get Store.treeAt
  split
  · rename_i heq
    split at heq
    · cases heq; rfl
    · have := loadRoot_frame s r; rw [heq] at this; exact this.2.2
  · rename_i heq
    split at heq
    · cases heq
    · have := loadRoot_frame s r; rw [heq] at this; exact this.2.2
  · rename_i heq
    split at heq
    · cases heq
    · have := loadRoot_frame s r; rw [heq] at this; exact this.2.2

theorem lookupTree_filter (ts : List (Bytes × Option Node)) (r' r0 : Bytes) :
    lookupTree (ts.filter (fun p => !(p.1 == r'))) r0 = if r0 = r' then none else lookupTree ts r0 := by
  induction ts with
  | nil => simp [lookupTree]
  | cons a rest ih =>
    by_cases ha : a.1 = r'
    · have : (!(a.1 == r')) = false := by simp [ha]
      rw [List.filter_cons_of_neg (by simp [ha]), ih]
      by_cases h0 : r0 = r'
      · simp [h0]
      · have : (a.1 == r0) = false := by simp [ha]; exact fun e => h0 e.symm
        simp [h0, lookupTree, List.find?_cons, this]
    · rw [List.filter_cons_of_pos (by simp [ha])]
      by_cases h0 : r0 = r'
      · subst h0
        have e : (a.1 == r0) = false := by simpa using ha
        simp only [lookupTree, List.find?_cons, e] at ih ⊢
        simpa using ih
      · simp only [h0, if_false] at ih ⊢
        simp only [lookupTree, List.find?_cons] at ih ⊢
        cases (a.1 == r0) <;> simp_all

/-- the requests that leave the pending entry under `r` alone: everything except `Commit r`, `Rollback r` and a
restart (a MemSet that computes the root `r` again replaces the entry by another tree with that root). -/
def Label.keeps (r : Bytes) : Label → Bool
  | .commit r' => r' != r
  | .rollback r' => r' != r
  | .restart => false
  | _ => true

theorem pendOK_filter (s : Store) (hp : PendOK s) (r' : Bytes) (s' : Store)
    (ht : s'.trees = s.trees.filter (fun p => !(p.1 == r'))) : PendOK s' := by
  intro r0 n h
  rw [ht, lookupTree_filter] at h
  split at h
  · cases h
  · exact hp r0 n h

theorem step_keeps_pending (H : Bytes → Bytes) (s : Store) (hp : PendOK s) (r : Bytes) (l : Label)
    (hl : l.keeps r = true) :
    PendOK (step H s l).1 ∧
      ∀ n, lookupTree s.trees r = some (some n) → ∃ n', lookupTree (step H s l).1.trees r = some (some n') := by
  cases l with
  | memSet p bh kvs =>
    obtain ⟨a, b⟩ := memSet_pending H s hp p bh kvs
    exact ⟨a, fun n h => b r n h⟩
  | set p bh kvs =>
    have e := setKV_trees H s p bh kvs
    refine ⟨fun r0 n h => hp r0 n (by simpa [step, e] using h), fun n h => ⟨n, by simpa [step, e] using h⟩⟩
  | get r' ks =>
    have e := get_trees s r' ks
    refine ⟨fun r0 n h => hp r0 n (by simpa [step, e] using h), fun n h => ⟨n, by simpa [step, e] using h⟩⟩
  | restart => simp [Label.keeps] at hl
  | rollback r' =>
    have hne : r ≠ r' := by simp [Label.keeps] at hl; exact fun e => hl e.symm
    simp only [step, rollback]
    split
    · exact ⟨hp, fun n h => ⟨n, h⟩⟩
    · refine ⟨pendOK_filter s hp r' _ rfl, fun n h => ⟨n, ?_⟩⟩
      simp only [lookupTree_filter, hne, if_false]; exact h
  | commit r' =>
    have hne : r ≠ r' := by simp [Label.keeps] at hl; exact fun e => hl e.symm
    simp only [step, commit]
    split
    · exact ⟨hp, fun n h => ⟨n, h⟩⟩
    · refine ⟨pendOK_filter s hp r' _ rfl, fun n h => ⟨n, ?_⟩⟩
      simp only [lookupTree_filter, hne, if_false]; exact h
    · split
      · exact ⟨hp, fun n h => ⟨n, h⟩⟩
      · refine ⟨pendOK_filter s hp r' _ (by simp [cacheTree_trees]), fun n h => ⟨n, ?_⟩⟩
        simp only [cacheTree_trees, lookupTree_filter, hne, if_false]; exact h

theorem run_keeps_pending (H : Bytes → Bytes) (r : Bytes) (ls : List Label) (hl : ∀ l ∈ ls, l.keeps r = true) :
    ∀ s, PendOK s → PendOK (run H s ls) ∧
      ∀ n, lookupTree s.trees r = some (some n) → ∃ n', lookupTree (run H s ls).trees r = some (some n') := by
  induction ls with
  | nil => intro s hp; exact ⟨hp, fun n h => ⟨n, h⟩⟩
  | cons l rest ih =>
    intro s hp
    obtain ⟨a, b⟩ := step_keeps_pending H s hp r l (hl l (by simp))
    obtain ⟨c, d⟩ := ih (fun x hx => hl x (by simp [hx])) _ a
    refine ⟨c, ?_⟩
    intro n h
    obtain ⟨n1, h1⟩ := b n h
    exact d n1 h1

/-! ### reads at a root without a pending tree are a function of the database -/

/-- what `Store.Get` answers from the database alone. -/
def dbRead (db : NodeDB) (r : Bytes) (ks : List Bytes) : Res (List (Option Bytes)) :=
  match loadTree db r with
  | .ok t => .ok (ks.map (fun k => (Tree.get t k).2))
  | .notfound => .ok (ks.map (fun _ => none))
  | .panic => .panic

theorem get_reply_db (s : Store) (hc : CacheOK s) (r : Bytes) (ks : List Bytes)
    (hno : ∀ n, lookupTree s.trees r ≠ some (some n)) : (s.get r ks).1 = dbRead s.db r ks := by
  obtain ⟨a, _⟩ := loadRoot_result s hc r
  have ht : s.treeAt r = s.loadRoot r := by
    unfold Store.treeAt
    split
    · rename_i n h; exact absurd h (hno n)
    · rfl
  unfold Store.get dbRead
  rw [ht, ← a]
  generalize s.loadRoot r = lr
  obtain ⟨res, s'⟩ := lr
  cases res <;> rfl

/-- the reply of `MemSet` is a function of the configuration and of what the database holds for the parent root. -/
theorem memSet_reply_frame (H : Bytes → Bytes) (s s' : Store) (hc : CacheOK s) (hc' : CacheOK s')
    (hcfg : s'.cfg = s.cfg) (p : Bytes) (bh : Nat) (kvs : List (Bytes × Bytes))
    (hl : loadTree s'.db p = loadTree s.db p) :
    (memSet H s' p bh kvs).1 = (memSet H s p bh kvs).1 := by
  unfold memSet
  split
  · rfl
  · obtain ⟨a, _⟩ := loadRoot_result s hc p
    obtain ⟨a', _⟩ := loadRoot_result s' hc' p
    obtain ⟨_, fc, _⟩ := loadRoot_frame s p
    obtain ⟨_, fc', _⟩ := loadRoot_frame s' p
    rw [hl] at a'
    generalize s.loadRoot p = lr at a fc ⊢
    generalize s'.loadRoot p = lr' at a' fc' ⊢
    obtain ⟨res, t⟩ := lr
    obtain ⟨res', t'⟩ := lr'
    simp only at a a' fc fc'
    rw [a, a']
    cases loadTree s.db p with
    | notfound => rfl
    | panic => rfl
    | ok tr =>
      simp only
      cases Tree.setMany tr kvs with
      | none => rfl
      | some x =>
        cases x with
        | none => rfl
        | some n => simp only [fc, fc', hcfg]

theorem loadTree_stable (cfg : Cfg) (db db' : NodeDB) (hsub : Sub db db') (n : Node) (hs : Stored cfg db n)
    (hf : FitsRec n) (p : Bytes) (hp : n.info.hk = some p) (hd : depth n < loadFuel) :
    loadTree db' p = loadTree db p := by
  unfold loadTree
  rw [load_stable cfg db db' hsub n hs hf loadFuel true p hp hd]

end C04
