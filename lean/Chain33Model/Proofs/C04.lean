import Chain33Model.Model.C04
import Chain33Model.Proofs.C01Store
import Chain33Model.Proofs.C02
/-! Helper lemmas for C04: frame properties of the store operations. -/
namespace C04
open C01 C02

theorem loadRoot_frame (s : Store) (h : Bytes) :
    (s.loadRoot h).2.db = s.db ∧ (s.loadRoot h).2.cfg = s.cfg ∧ (s.loadRoot h).2.trees = s.trees := by
  unfold Store.loadRoot
  split
  · exact ⟨rfl, rfl, rfl⟩
  · split <;> exact ⟨rfl, rfl, rfl⟩

theorem memSet_frame (H : Bytes → Bytes) (s : Store) (p : Bytes) (bh : Nat) (kvs : List (Bytes × Bytes)) :
    (memSet H s p bh kvs).2.db = s.db ∧ (memSet H s p bh kvs).2.cfg = s.cfg := by
  unfold memSet
  split
  · exact ⟨rfl, rfl⟩
  · obtain ⟨f1, f2, _⟩ := loadRoot_frame s p
    generalize s.loadRoot p = lr at f1 f2 ⊢
    obtain ⟨res, s'⟩ := lr
    simp only at f1 f2
    cases res with
    | notfound => exact ⟨f1, f2⟩
    | panic => exact ⟨f1, f2⟩
    | ok t =>
      simp only
      cases Tree.setMany t kvs with
      | none => exact ⟨f1, f2⟩
      | some t' =>
        cases t' with
        | none => exact ⟨f1, f2⟩
        | some n => exact ⟨f1, f2⟩

theorem rollback_frame (s : Store) (r : Bytes) : (rollback s r).2.db = s.db ∧ (rollback s r).2.cfg = s.cfg := by
  unfold rollback; split <;> exact ⟨rfl, rfl⟩

theorem reopen_eq_of_frame {s s' : Store} (h1 : s'.db = s.db) (h2 : s'.cfg = s.cfg) : s'.reopen = s.reopen := by
  cases s; cases s'; simp_all [Store.reopen]

/-- labels that only compute, keep or drop pending updates. -/
def Label.pendingOnly : Label → Bool
  | .memSet .. => true
  | .rollback _ => true
  | .get .. => true
  | .restart => true
  | _ => false

theorem get_frame (s : Store) (r : Bytes) (ks : List Bytes) :
    (s.get r ks).2.db = s.db ∧ (s.get r ks).2.cfg = s.cfg := by
  unfold Store.get Store.treeAt
  split
  · rename_i heq
    split at heq
    · cases heq; exact ⟨rfl, rfl⟩
    · have := loadRoot_frame s r; rw [heq] at this; exact ⟨this.1, this.2.1⟩
  · rename_i heq
    split at heq
    · cases heq
    · have := loadRoot_frame s r; rw [heq] at this; exact ⟨this.1, this.2.1⟩
  · rename_i heq
    split at heq
    · cases heq
    · have := loadRoot_frame s r; rw [heq] at this; exact ⟨this.1, this.2.1⟩

theorem step_frame (H : Bytes → Bytes) (s : Store) (l : Label) (hl : l.pendingOnly = true) :
    (step H s l).1.db = s.db ∧ (step H s l).1.cfg = s.cfg := by
  cases l with
  | set => simp [Label.pendingOnly] at hl
  | commit => simp [Label.pendingOnly] at hl
  | memSet p h kvs => exact memSet_frame H s p h kvs
  | rollback r => exact rollback_frame s r
  | get r ks => exact get_frame s r ks
  | restart => exact ⟨rfl, rfl⟩

theorem run_frame (H : Bytes → Bytes) (ls : List Label) (hl : ∀ l ∈ ls, l.pendingOnly = true) :
    ∀ s, (run H s ls).db = s.db ∧ (run H s ls).cfg = s.cfg := by
  induction ls with
  | nil => intro s; exact ⟨rfl, rfl⟩
  | cons l rest ih =>
    intro s
    simp only [run, List.foldl_cons]
    obtain ⟨a, b⟩ := step_frame H s l (hl l (by simp))
    obtain ⟨c, d⟩ := ih (fun x hx => hl x (by simp [hx])) (step H s l).1
    exact ⟨c.trans a, d.trans b⟩

theorem lookupTree_storeTree_self (ts : List (Bytes × Option Node)) (h : Bytes) (t : Option Node) :
    lookupTree (storeTree ts h t) h = some t := by
  simp [lookupTree, storeTree]

/-- the node cache only holds what the database holds. -/
def CacheOK (s : Store) : Prop := ∀ h n, s.cache[h]? = some n → loadTree s.db h = .ok (some n)

theorem loadRoot_result (s : Store) (hc : CacheOK s) (h : Bytes) :
    (s.loadRoot h).1 = loadTree s.db h ∧ CacheOK (s.loadRoot h).2 := by
  unfold Store.loadRoot
  cases hm : s.cache[h]? with
  | some n => exact ⟨(hc h n hm).symm, hc⟩
  | none =>
    simp only
    cases hl : loadTree s.db h with
    | notfound => exact ⟨rfl, hc⟩
    | panic => exact ⟨rfl, hc⟩
    | ok t =>
      cases t with
      | none => exact ⟨rfl, hc⟩
      | some n =>
        refine ⟨rfl, ?_⟩
        intro h' n' e
        simp only at e
        rw [Std.HashMap.getElem?_insert] at e
        by_cases hh : h = h'
        · subst hh; simp at e; subst e; exact hl
        · have : (h == h') = false := by simpa using hh
          simp [this] at e
          exact hc h' n' e

/-- the reply of `MemSet` is a function of the configuration and the database only. -/
theorem memSet_reply_eq (H : Bytes → Bytes) (s s' : Store) (hc : CacheOK s) (hc' : CacheOK s')
    (hdb : s'.db = s.db) (hcfg : s'.cfg = s.cfg) (p : Bytes) (bh : Nat) (kvs : List (Bytes × Bytes)) :
    (memSet H s' p bh kvs).1 = (memSet H s p bh kvs).1 := by
  unfold memSet
  split
  · rfl
  · obtain ⟨a, _⟩ := loadRoot_result s hc p
    obtain ⟨a', _⟩ := loadRoot_result s' hc' p
    obtain ⟨_, fc, _⟩ := loadRoot_frame s p
    obtain ⟨_, fc', _⟩ := loadRoot_frame s' p
    rw [hdb] at a'
    generalize s.loadRoot p = lr at a fc ⊢
    generalize s'.loadRoot p = lr' at a' fc' ⊢
    obtain ⟨res, t⟩ := lr
    obtain ⟨res', t'⟩ := lr'
    simp only at a a' fc fc'
    rw [a, a']
    cases loadTree s.db p with
    | notfound => rfl
    | panic => rfl
    | ok tr =>
      simp only
      cases Tree.setMany tr kvs with
      | none => rfl
      | some x =>
        cases x with
        | none => rfl
        | some n => simp only [fc, fc', hcfg]

theorem memSet_cacheOK (H : Bytes → Bytes) (s : Store) (hc : CacheOK s) (p : Bytes) (bh : Nat)
    (kvs : List (Bytes × Bytes)) : CacheOK (memSet H s p bh kvs).2 := by
  unfold memSet
  split
  · exact hc
  · obtain ⟨_, b⟩ := loadRoot_result s hc p
    generalize s.loadRoot p = lr at b ⊢
    obtain ⟨res, s'⟩ := lr
    simp only at b
    cases res with
    | notfound => exact b
    | panic => exact b
    | ok t =>
      simp only
      cases Tree.setMany t kvs with
      | none => exact b
      | some t' =>
        cases t' with
        | none => exact b
        | some n => exact b

theorem rollback_cacheOK (s : Store) (hc : CacheOK s) (r : Bytes) : CacheOK (rollback s r).2 := by
  unfold rollback; split <;> exact hc

theorem get_cacheOK (s : Store) (hc : CacheOK s) (r : Bytes) (ks : List Bytes) : CacheOK (s.get r ks).2 := by
  unfold Store.get Store.treeAt
  have hl := (loadRoot_result s hc r).2
  split
  · rename_i heq
    split at heq
    · cases heq; exact hc
    · rw [heq] at hl; exact hl
  · rename_i heq
    split at heq
    · cases heq
    · rw [heq] at hl; exact hl
  · rename_i heq
    split at heq
    · cases heq
    · rw [heq] at hl; exact hl

theorem reopen_cacheOK (s : Store) : CacheOK s.reopen := by
  intro h n e
  simp [Store.reopen] at e

theorem run_cacheOK (H : Bytes → Bytes) (ls : List Label) (hl : ∀ l ∈ ls, l.pendingOnly = true) :
    ∀ s, CacheOK s → CacheOK (run H s ls) := by
  induction ls with
  | nil => intro s hc; exact hc
  | cons l rest ih =>
    intro s hc
    simp only [run, List.foldl_cons]
    apply ih (fun x hx => hl x (by simp [hx]))
    have := hl l (by simp)
    cases l with
    | set => simp [Label.pendingOnly] at this
    | commit => simp [Label.pendingOnly] at this
    | memSet p h kvs => exact memSet_cacheOK H s hc p h kvs
    | rollback r => exact rollback_cacheOK s hc r
    | get r ks => exact get_cacheOK s hc r ks
    | restart => exact reopen_cacheOK s

end C04
