import Chain33Model.Model.C05
import Chain33Model.Proofs.C01Set
import Chain33Model.Proofs.C01Consistent
import Chain33Model.Proofs.C01Batch
/-! Helper lemmas for C05: leaf-count key round trip, the deletion rule on version lists, subtrees, and the index as
an abstract transition system. -/
namespace C05
open C01 Node

theorem fixedDec_length (w n : Nat) : (fixedDec w n).length = w := by
  induction w generalizing n with
  | zero => rfl
  | succ w ih => simp [fixedDec, ih]

def atoiStep (acc : Option Nat) (c : UInt8) : Option Nat :=
  match acc with
  | none => none
  | some n => if 48 ≤ c.toNat ∧ c.toNat ≤ 57 then some (n * 10 + (c.toNat - 48)) else none

theorem atoi_eq (b : Bytes) : atoi b = if b.isEmpty then none else b.foldl atoiStep (some 0) := rfl

theorem foldl_fixedDec (w n : Nat) : (fixedDec w n).foldl atoiStep (some 0) = some (n % 10 ^ w) := by
  induction w generalizing n with
  | zero => simp [fixedDec, Nat.mod_one]
  | succ w ih =>
    simp only [fixedDec, List.foldl_append, List.foldl_cons, List.foldl_nil, ih]
    have hc : (UInt8.ofNat (48 + n % 10)).toNat = 48 + n % 10 := by
      simp [UInt8.toNat_ofNat']; omega
    simp only [atoiStep, hc]
    have : 48 ≤ 48 + n % 10 ∧ 48 + n % 10 ≤ 57 := by omega
    simp only [this, and_self, if_true]
    congr 1
    rw [Nat.pow_succ, Nat.mul_comm (10 ^ w) 10, Nat.mod_mul]
    omega

theorem atoi_fixedDec (w n : Nat) (hw : 0 < w) (hn : n < 10 ^ w) : atoi (fixedDec w n) = some n := by
  rw [atoi_eq, foldl_fixedDec, Nat.mod_eq_of_lt hn]
  have : (fixedDec w n).isEmpty = false := by
    cases h : fixedDec w n with
    | nil => have := fixedDec_length w n; rw [h] at this; simp at this; omega
    | cons a b => rfl
  simp [this]

theorem digitsN_eq (w n : Nat) (hn : n < 10 ^ w) : digitsN w n = fixedDec w n := by simp [digitsN, hn]

theorem isInfix_prefix (p r : Bytes) : isInfix p (p ++ r) = true := by
  simp only [isInfix, List.any_eq_true]
  exact ⟨0, by simp, by simp⟩

/-- **leafCountKey_roundtrip** — `getKeyHeightFromLeafCountKey (genLeafCountKey key hash height)` gives back key,
height and hash, for arbitrary binary keys and hashes (32..999 bytes) and heights below 10^10 (`%010d`). -/
theorem parse_leafCountKey (pfx key hash : Bytes) (h : Nat) (hh : h < 10 ^ 10)
    (hl1 : 32 ≤ hash.length) (hl2 : hash.length < 1000) :
    parseLeafCountKey pfx (leafCountKey pfx key hash h) = .ok (key, h, hash) := by
  have d10 : (fixedDec 10 h).length = 10 := fixedDec_length _ _
  have d3 : (fixedDec 3 hash.length).length = 3 := fixedDec_length _ _
  unfold parseLeafCountKey leafCountKey
  rw [digitsN_eq 10 h hh, digitsN_eq 3 hash.length (by omega)]
  have hlen : ¬ ((pfx ++ key ++ fixedDec 10 h ++ hash ++ fixedDec 3 hash.length).length < pfx.length + 10 + 32 + 3) := by
    simp [d10, d3]; omega
  simp only [hlen, if_false]
  have hin : isInfix pfx (pfx ++ key ++ fixedDec 10 h ++ hash ++ fixedDec 3 hash.length) = true := by
    rw [List.append_assoc, List.append_assoc, List.append_assoc]; exact isInfix_prefix _ _
  simp only [hin, Bool.not_true, Bool.false_eq_true, if_false]
  have hdrop : (pfx ++ key ++ fixedDec 10 h ++ hash ++ fixedDec 3 hash.length).drop
      ((pfx ++ key ++ fixedDec 10 h ++ hash ++ fixedDec 3 hash.length).length - 3) = fixedDec 3 hash.length := by
    have : (pfx ++ key ++ fixedDec 10 h ++ hash ++ fixedDec 3 hash.length).length - 3
        = (pfx ++ key ++ fixedDec 10 h ++ hash).length := by simp [d10, d3]; omega
    rw [this, List.drop_left]
  rw [hdrop, atoi_fixedDec 3 hash.length (by omega) (by omega)]
  simp only
  have hpre : pfx.isPrefixOf (pfx ++ key ++ fixedDec 10 h ++ hash ++ fixedDec 3 hash.length) = true := by
    rw [List.append_assoc, List.append_assoc, List.append_assoc]; simp
  have hk : (pfx ++ key ++ fixedDec 10 h ++ hash ++ fixedDec 3 hash.length).drop pfx.length
      = key ++ (fixedDec 10 h ++ (hash ++ fixedDec 3 hash.length)) := by
    simp [List.append_assoc]
  simp only [hpre, if_true, hk]
  have hkl : (key ++ (fixedDec 10 h ++ (hash ++ fixedDec 3 hash.length))).length = key.length + 10 + hash.length + 3 := by
    simp [d10, d3]; omega
  have c1 : ¬ ((key ++ (fixedDec 10 h ++ (hash ++ fixedDec 3 hash.length))).length < hash.length + 13) := by
    rw [hkl]; omega
  simp only [c1, if_false]
  have e1 : (key ++ (fixedDec 10 h ++ (hash ++ fixedDec 3 hash.length))).length - hash.length - 13 = key.length := by
    rw [hkl]; omega
  have e2 : (key ++ (fixedDec 10 h ++ (hash ++ fixedDec 3 hash.length))).length - 3 - key.length = 10 + hash.length := by
    rw [hkl]; omega
  simp only [e1, e2, List.take_left, List.drop_left]
  have e3 : (fixedDec 10 h ++ (hash ++ fixedDec 3 hash.length)).take (10 + hash.length) = fixedDec 10 h ++ hash := by
    rw [← List.append_assoc, List.take_left' (by simp [d10])]
  rw [e3]
  have e4 : (fixedDec 10 h ++ hash).take 10 = fixedDec 10 h := List.take_left' d10
  have e5 : (fixedDec 10 h ++ hash).drop 10 = hash := List.drop_left' d10
  rw [e4, e5, atoi_fixedDec 10 h (by omega) hh]


/-- the versions of one key that a first-level run at height `cur` considers (`curHeight ≥ height + PruneHeight`). -/
def eligible (cur ph : Nat) (vs : List HashData) : List HashData := vs.filter (fun v => decide (cur ≥ v.height + ph))

/-- the version of the key that the state at height `H` uses: the newest one not above `H`. -/
def currentAt (vs : List HashData) (H : Nat) : Option HashData := vs.find? (fun v => decide (v.height ≤ H))

/-- newest first, one version per height. -/
def Desc (vs : List HashData) : Prop := vs.Pairwise (fun a b => b.height < a.height)

theorem mem_delRule {l : List HashData} {v : HashData} (h : v ∈ delRule l) :
    ∃ e0 rest, l = e0 :: rest ∧ v ∈ rest := by
  cases l with
  | nil => simp [delRule] at h
  | cons a t =>
    cases t with
    | nil => simp [delRule] at h
    | cons b r =>
      simp only [delRule] at h
      split at h
      · exact ⟨a, b :: r, rfl, h⟩
      · simp at h

theorem currentAt_newest {vs : List HashData} (hd : Desc vs) {H : Nat} {v : HashData}
    (hc : currentAt vs H = some v) : v ∈ vs ∧ v.height ≤ H ∧ ∀ u ∈ vs, u.height ≤ H → u.height ≤ v.height := by
  induction vs with
  | nil => simp [currentAt] at hc
  | cons a t ih =>
    simp only [currentAt, List.find?_cons] at hc
    have hd' : Desc t := (List.pairwise_cons.mp hd).2
    have ha : ∀ b ∈ t, b.height < a.height := (List.pairwise_cons.mp hd).1
    by_cases h : a.height ≤ H
    · simp [h] at hc; subst hc
      refine ⟨by simp, h, ?_⟩
      intro u hu _
      simp at hu
      rcases hu with rfl | hu
      · exact Nat.le_refl _
      · exact Nat.le_of_lt (ha u hu)
    · simp [h] at hc
      obtain ⟨m, l, n⟩ := ih hd' hc
      refine ⟨by simp [m], l, ?_⟩
      intro u hu hle
      simp at hu
      rcases hu with rfl | hu
      · exact absurd hle h
      · exact n u hu hle

/-- **the pruning rule never deletes the version a retained state uses**: `vs` = the versions of one key on the
current chain, newest first (what the index holds under `IdxInv`); a first-level run at `cur` with interval `ph`
deletes `delRule (eligible cur ph vs)`; the state at any height `H > cur - ph` uses `currentAt vs H`. -/
theorem delRule_spares_current (vs : List HashData) (hd : Desc vs) (cur ph H : Nat) (hH : cur < H + ph)
    (v : HashData) (hc : currentAt vs H = some v) : v ∉ delRule (eligible cur ph vs) := by
  intro hv
  obtain ⟨e0, rest, he, hvr⟩ := mem_delRule hv
  obtain ⟨_, hvH, hnew⟩ := currentAt_newest hd hc
  have hdesc : Desc (eligible cur ph vs) := List.Pairwise.filter _ hd
  rw [he] at hdesc
  have h1 : v.height < e0.height := (List.pairwise_cons.mp hdesc).1 v hvr
  have he0 : e0 ∈ eligible cur ph vs := by rw [he]; simp
  simp only [eligible, List.mem_filter, decide_eq_true_eq] at he0
  have : e0.height ≤ H := by omega
  have := hnew e0 he0.1 this
  omega

/-- `p` occurs in `t` as a subtree (same node, same bookkeeping fields). -/
def IsSub (p : Node) : Node → Prop
  | .leaf k v m => p = .leaf k v m
  | .inner k h s l r m => p = .inner k h s l r m ∨ IsSub p l ∨ IsSub p r

theorem IsSub.refl (t : Node) : IsSub t t := by cases t <;> simp [IsSub]

theorem IsSub.toList_subset {p t : Node} (h : IsSub p t) : ∀ x ∈ p.toList, x ∈ t.toList := by
  induction t with
  | leaf k v m => simp only [IsSub] at h; subst h; exact fun _ hx => hx
  | inner k ht sz l r m ihl ihr =>
    simp only [IsSub] at h
    rcases h with rfl | h | h
    · exact fun _ hx => hx
    · intro x hx; simp; exact Or.inl (ihl h x hx)
    · intro x hx; simp; exact Or.inr (ihr h x hx)

/-- the leaf node a tree holds for a key (descending like `Node.get`). -/
def leafNode : Node → Bytes → Option Node
  | .leaf k v m, key => if cmpB k key = .eq then some (.leaf k v m) else none
  | .inner nk _ _ l r _, key => if cmpB key nk = .lt then leafNode l key else leafNode r key

/-- in a search tree the leaf for a key is unique: a leaf that occurs anywhere in the tree is *the* leaf the tree
holds for its key. -/
theorem leafNode_of_sub (t : Node) (hst : ST t) (k v : Bytes) (m : Meta) (h : IsSub (.leaf k v m) t) :
    leafNode t k = some (.leaf k v m) := by
  induction t with
  | leaf tk tv tm =>
    simp only [IsSub] at h
    cases h
    simp [leafNode, cmpB_refl]
  | inner nk ht sz l r tm ihl ihr =>
    obtain ⟨hl, hr, h1, h2⟩ := hst
    simp only [IsSub] at h
    rcases h with h | h | h
    · cases h
    · have : (k, v) ∈ l.toList := h.toList_subset (k, v) (by simp)
      have hlt : cmpB k nk = .lt := h1 _ this
      simp only [leafNode, hlt, if_true]
      exact ihl hl h
    · have : (k, v) ∈ r.toList := h.toList_subset (k, v) (by simp)
      have hnl : ¬ cmpB k nk = .lt := not_lt_iff_le.mpr (h2 _ this)
      simp only [leafNode, hnl, if_false]
      exact ihr hr h

theorem IsSub.trans {a b c : Node} (h1 : IsSub a b) (h2 : IsSub b c) : IsSub a c := by
  induction c with
  | leaf k v m => simp only [IsSub] at h2; subst h2; exact h1
  | inner k ht sz l r m ihl ihr =>
    simp only [IsSub] at h2 ⊢
    rcases h2 with rfl | h2 | h2
    · simpa [IsSub] using h1
    · exact Or.inr (Or.inl (ihl h2))
    · exact Or.inr (Or.inr (ihr h2))

/-- **a recorded parent of a superseded leaf version is in no tree that uses another version**: if the retained
search tree `T` holds leaf `ℓT` for key `k`, and `P` is a node that has the (different) leaf version `ℓ` of `k`
below it, then `P` does not occur in `T` — deleting `P` cannot hurt `T`. -/
theorem pruned_parent_not_in_tree (T P : Node) (hst : ST T) (k v : Bytes) (m : Meta) (ℓT : Node)
    (hT : leafNode T k = some ℓT) (hℓ : IsSub (.leaf k v m) P) (hne : Node.leaf k v m ≠ ℓT) : ¬ IsSub P T := by
  intro hP
  have := leafNode_of_sub T hst k v m (hℓ.trans hP)
  rw [hT] at this
  exact hne (Option.some.inj this).symm

/-! ### the index as a transition system over abstract ids -/

structure Entry where
  key : Nat
  height : Nat
  hash : Nat
  deriving DecidableEq, Repr

structure IState where
  chain : List (Nat × List (Nat × Nat))   -- current chain: (height, leaves written there as (key, hash))
  index : List Entry

def entriesOf (h : Nat) (ws : List (Nat × Nat)) : List Entry := ws.map (fun w => ⟨w.1, h, w.2⟩)

def chainEntries (c : List (Nat × List (Nat × Nat))) : List Entry := c.flatMap (fun b => entriesOf b.1 b.2)

/-- a block at height `h` that goes through `Tree.Save`: blocks at heights ≥ h leave the chain (reorganisation /
re-commit), `DelLeafCountKV` drops the index entries of height `h`, the new leaves are indexed. -/
def saveBlock (s : IState) (h : Nat) (ws : List (Nat × Nat)) : IState :=
  { chain := s.chain.filter (fun b => b.1 < h) ++ [(h, ws)],
    index := s.index.filter (fun e => e.height != h) ++ entriesOf h ws }

/-- a block without state change (empty MemSet + Commit never reaches Save): the chain moves, the index does not. -/
def emptyBlock (s : IState) (h : Nat) : IState :=
  { chain := s.chain.filter (fun b => b.1 < h) ++ [(h, [])], index := s.index }

/-- **IdxInv** up to height `t`: the index holds exactly the leaf versions written on the current chain. -/
def IdxInv (s : IState) (t : Nat) : Prop := ∀ e : Entry, e.height ≤ t → (e ∈ s.index ↔ e ∈ chainEntries s.chain)

theorem mem_entriesOf {e : Entry} {h : Nat} {ws : List (Nat × Nat)} (he : e ∈ entriesOf h ws) : e.height = h := by
  simp [entriesOf] at he
  obtain ⟨a, b, _, rfl⟩ := he
  rfl

theorem mem_chainEntries_filter {c : List (Nat × List (Nat × Nat))} {h : Nat} {e : Entry} (hlt : e.height < h) :
    e ∈ chainEntries (c.filter (fun b => b.1 < h)) ↔ e ∈ chainEntries c := by
  simp only [chainEntries, List.mem_flatMap, List.mem_filter, decide_eq_true_eq]
  constructor
  · rintro ⟨b, ⟨hb, _⟩, he⟩; exact ⟨b, hb, he⟩
  · rintro ⟨b, hb, he⟩
    have := mem_entriesOf he
    exact ⟨b, ⟨hb, by omega⟩, he⟩

/-- **IdxInv_preserved** (blocks that go through Save) — provided no index entry sits strictly between the old
tip `t` and the new height `h` (none can when `h ≤ t + 1`: a fresh height or a re-commit). -/
theorem IdxInv_saveBlock (s : IState) (t h : Nat) (ws : List (Nat × Nat)) (hi : IdxInv s t)
    (hgap : ∀ e ∈ s.index, t < e.height → h ≤ e.height)
    (hchain : ∀ b ∈ s.chain, b.1 ≤ t) : IdxInv (saveBlock s h ws) h := by
  intro e he
  simp only [saveBlock, List.mem_append, List.mem_filter, bne_iff_ne, ne_eq, chainEntries, List.flatMap_append,
    List.flatMap_cons, List.flatMap_nil, List.append_nil]
  by_cases heq : e.height = h
  · constructor
    · rintro (⟨_, hne⟩ | hin)
      · exact absurd heq hne
      · exact Or.inr hin
    · rintro (hin | hin)
      · exfalso
        have : e ∈ chainEntries (s.chain.filter (fun b => b.1 < h)) := hin
        simp only [chainEntries, List.mem_flatMap, List.mem_filter, decide_eq_true_eq] at this
        obtain ⟨b, ⟨_, hb⟩, hm⟩ := this
        have := mem_entriesOf hm; omega
      · exact Or.inr hin
  · have hlt : e.height < h := by omega
    have hc := mem_chainEntries_filter (c := s.chain) hlt (e := e)
    constructor
    · rintro (⟨hin, _⟩ | hin)
      · left
        apply hc.mpr
        by_cases hle : e.height ≤ t
        · exact (hi e hle).mp hin
        · exact absurd (hgap e hin (by omega)) (by omega)
      · exact absurd (mem_entriesOf hin) heq
    · rintro (hin | hin)
      · left
        have hce := hc.mp hin
        refine ⟨?_, heq⟩
        have hle : e.height ≤ t := by
          simp only [chainEntries, List.mem_flatMap] at hce
          obtain ⟨b, hb, hm⟩ := hce
          have := mem_entriesOf hm
          have := hchain b hb
          omega
        exact (hi e hle).mpr hce
      · exact absurd (mem_entriesOf hin) heq

/-- full statement: the invariant survives every block, with or without state change. -/
def IdxInvPreservedFullAux : Prop :=
  ∀ (s : IState) (t h : Nat), IdxInv s t → (∀ b ∈ s.chain, b.1 ≤ t) → IdxInv (emptyBlock s h) h

/-- **IdxInv_preserved_full_false** — witness (S-C05): branch A writes key 0 at height 1 and key 1 at height 2;
the chain is reorganised to height 1 and branch B's block at height 2 has no state change: the entry `1@2` of the
abandoned branch is still in the index but not on the chain. -/
theorem idxInv_full_false_aux : ¬ IdxInvPreservedFullAux := by
  intro h
  let s0 : IState := saveBlock (saveBlock ⟨[], []⟩ 1 [(0, 10)]) 2 [(1, 20)]
  have hi : IdxInv s0 2 := by
    apply IdxInv_saveBlock _ 1 2 _ _ (by intro e he; simp [saveBlock, entriesOf] at he; subst he; simp)
      (by intro b hb; simp [saveBlock] at hb; subst hb; simp)
    apply IdxInv_saveBlock _ 0 1 _ _ (by simp) (by simp)
    intro e _; simp [chainEntries]
  have := h s0 2 2 hi (by intro b hb; simp [s0, saveBlock] at hb; rcases hb with rfl | rfl <;> simp) ⟨1, 2, 20⟩ (by simp)
  simp [s0, emptyBlock, saveBlock, entriesOf, chainEntries] at this

/-- **IdxInv_emptyBlock_partial** — an empty block keeps the invariant when the index holds nothing above the
truncated chain up to `h` ("every abandoned height up to `h` was re-committed through Save"). -/
theorem IdxInv_emptyBlock_partial (s : IState) (t h : Nat) (hi : IdxInv s t)
    (hclean : ∀ e ∈ s.index, e.height ≤ h → ∃ b ∈ s.chain, b.1 < h ∧ e ∈ entriesOf b.1 b.2)
    (hchain : ∀ b ∈ s.chain, b.1 ≤ t) : IdxInv (emptyBlock s h) h := by
  intro e he
  simp only [emptyBlock, chainEntries, List.flatMap_append, List.flatMap_cons, List.flatMap_nil, entriesOf,
    List.map_nil, List.append_nil]
  constructor
  · intro hin
    obtain ⟨b, hb, hlt, hm⟩ := hclean e hin he
    simp only [List.mem_flatMap, List.mem_filter, decide_eq_true_eq]
    exact ⟨b, ⟨hb, hlt⟩, hm⟩
  · intro hin
    simp only [List.mem_flatMap, List.mem_filter, decide_eq_true_eq] at hin
    obtain ⟨b, ⟨hb, _⟩, hm⟩ := hin
    have h1 := mem_entriesOf hm
    have h2 := hchain b hb
    exact (hi e (by omega)).mpr (by simp only [chainEntries, List.mem_flatMap]; exact ⟨b, hb, hm⟩)


/-! ### one pruning run against one retained state (composition of the rule-level and the tree-level facts) -/

theorem isSub_of_mem_subnodes (T : Node) : ∀ x ∈ subnodes T, IsSub x T := by
  induction T with
  | leaf k v m => intro x hx; simp [subnodes] at hx; subst hx; simp [IsSub]
  | inner k h s l r m ihl ihr =>
    intro x hx
    simp only [subnodes, List.mem_cons, List.mem_append] at hx
    simp only [IsSub]
    rcases hx with rfl | hx | hx
    · exact Or.inl rfl
    · exact Or.inr (Or.inl (ihl x hx))
    · exact Or.inr (Or.inr (ihr x hx))

/-- what one pruning run deletes for one key: the leaf records of the versions `delRule` selects and the parent
records listed in their `PruneData`. -/
def deletedFor (cur ph : Nat) (vs : List HashData) (par : HashData → List Bytes) : List Bytes :=
  (delRule (eligible cur ph vs)).flatMap (fun v => v.hash :: par v)

/-- **no node of a retained state is deleted by a pruning run.**
`T` = a current-chain state at height `H > cur - ph` (`hH`).  Hypotheses, per key `K` with index versions `idx K`
(newest first, one per height: `hdesc`):
* `hidx` (the semantic content of `IdxInv`): the leaf `T` holds for `K` is the version `currentAt (idx K) H`, i.e. the
  newest indexed version not above `H`;
* `hpar`: every key listed in the `PruneData` of a version `v` of `K` is the key of a node that has the leaf `K@v`
  below it (what `SaveNode` records: the `parentNode` chain);
* `hdist`: the indexed versions of `K` have distinct leaf keys (they carry the height prefix);
* `hinj` (content addressing of node keys): among the nodes of the store (`U`), equal keys mean equal nodes.
Conclusion: no node of `T` has a key in `deletedFor …`. -/
theorem retained_nodes_survive (T : Node) (hst : ST T) (cur ph H : Nat) (hH : cur < H + ph)
    (K : Bytes) (vs : List HashData) (hdesc : Desc vs) (par : HashData → List Bytes)
    (hidx : ∀ ℓ, leafNode T K = some ℓ → ∃ v, currentAt vs H = some v ∧ ℓ.info.hk = some v.hash)
    (U : Node → Prop) (hU : ∀ x ∈ subnodes T, U x)
    (hpar : ∀ v ∈ vs, ∀ p ∈ par v, ∃ P val m, U P ∧ P.info.hk = some p ∧ (Node.leaf K val m).info.hk = some v.hash ∧
        IsSub (.leaf K val m) P)
    (hleaf : ∀ v ∈ vs, ∃ val m, U (.leaf K val m) ∧ (Node.leaf K val m).info.hk = some v.hash)
    (hdist : ∀ a ∈ vs, ∀ b ∈ vs, a.hash = b.hash → a = b)
    (hinj : ∀ (x y : Node) (h : Bytes), U x → U y → x.info.hk = some h → y.info.hk = some h → x = y) :
    ∀ x ∈ subnodes T, ∀ d ∈ deletedFor cur ph vs par, x.info.hk ≠ some d := by
  intro x hx d hd hxd
  simp only [deletedFor, List.mem_flatMap] at hd
  obtain ⟨v, hv, hdv⟩ := hd
  have hvs : v ∈ vs := by
    obtain ⟨e0, rest, he, hvr⟩ := mem_delRule hv
    have : v ∈ eligible cur ph vs := by rw [he]; simp [hvr]
    exact (List.mem_filter.mp this).1
  have hxT := isSub_of_mem_subnodes T x hx
  -- the leaf version `v` of `K` occurs in `T`
  have hocc : ∃ val m, IsSub (.leaf K val m) T ∧ (Node.leaf K val m).info.hk = some v.hash := by
    simp only [List.mem_cons] at hdv
    rcases hdv with rfl | hp
    · obtain ⟨val, m, hu, hm⟩ := hleaf v hvs
      have : x = .leaf K val m := hinj _ _ _ (hU x hx) hu hxd hm
      subst this
      exact ⟨val, m, hxT, hm⟩
    · obtain ⟨P, val, m, hu, hP, hm, hsub⟩ := hpar v hvs d hp
      have : x = P := hinj _ _ _ (hU x hx) hu hxd hP
      subst this
      exact ⟨val, m, hsub.trans hxT, hm⟩
  obtain ⟨val, m, hsub, hm⟩ := hocc
  have hl := leafNode_of_sub T hst K val m hsub
  obtain ⟨w, hw, hwk⟩ := hidx _ hl
  rw [hm] at hwk
  have : v = w := hdist v hvs w (currentAt_newest hdesc hw).1 (Option.some.inj hwk)
  subst this
  exact delRule_spares_current vs hdesc cur ph H hH v hw hv

/-! ### a group that is only a part of a key's eligible versions keeps more -/

theorem delRule_desc (E : List HashData) (hd : Desc E) (v : HashData) (hv : v ∈ E.tail) : v ∈ delRule E := by
  cases E with
  | nil => simp at hv
  | cons a t =>
    cases t with
    | nil => simp at hv
    | cons b rest =>
      have : b.height < a.height := (List.pairwise_cons.mp hd).1 b (by simp)
      have hne : (b.height != a.height) = true := by simp; omega
      simpa [delRule, hne] using hv

/-- `pruneFirst` flushes its groups when they get large (999 keys / 10000 entries), so the versions of one key may be
handed to the deletion rule in several contiguous pieces `g` of the eligible list `E` (scan order = newest first).
Every piece deletes only what the rule deletes on the whole list: a split keeps more, never less. -/
theorem delRule_piece (E g pre post : List HashData) (hd : Desc E) (he : E = pre ++ g ++ post) :
    ∀ v ∈ delRule g, v ∈ delRule E := by
  intro v hv
  obtain ⟨g0, gt, eg, hm⟩ := mem_delRule hv
  apply delRule_desc E hd
  subst eg
  subst he
  cases pre with
  | nil => simp [hm]
  | cons p pt => simp [hm]

end C05
