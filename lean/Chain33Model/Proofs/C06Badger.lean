import Chain33Model.Proofs.C06Iter
/-!
The `goBadgerDBIt` machine (`C06.BIter`, the repaired code of /repo commit 0f6664f): a scan visits
exactly the in-range entries, like `goLevelDBIt`.
-/
namespace C06

/-- entries from the cursor to the end of the database (forward iterator). -/
def BIter.restF (it : BIter) : List Entry :=
  match it.pos with
  | some i => it.all.drop i
  | none => []

/-- the key filter of `goBadgerDBIt.Valid`. -/
def keyOK (start : Bytes) (end_ : Option Bytes) (k : Bytes) : Bool :=
  checkKey start end_ k && belowUpper end_ k

theorem keyOK_eq_inRange (start : Bytes) (end_ : Option Bytes) (k : Bytes) :
    keyOK start end_ k = inRange start end_ k := by
  unfold keyOK checkKey inRange
  cases end_ with
  | none => simp [belowUpper]
  | some e =>
    simp only [belowUpper]
    cases hlt : blt k e with
    | false => simp
    | true => simp [ble_of_blt hlt]

theorem BIter.valid_eq (it : BIter) : it.valid = (match it.cur with
    | some e => keyOK it.start it.end_ e.1
    | none => false) := rfl

theorem BIter.drain_forward {it : BIter} (hrev : it.reverse = false) {fuel : Nat}
    (hf : it.restF.length ≤ fuel) :
    BIter.drain fuel it = it.restF.takeWhile (fun e => keyOK it.start it.end_ e.1) := by
  induction fuel generalizing it with
  | zero =>
    have : it.restF = [] := List.length_eq_zero_iff.mp (by omega)
    simp [BIter.drain, this]
  | succ n ih =>
    cases hp : it.pos with
    | none =>
      simp [BIter.drain, BIter.valid, BIter.cur, BIter.restF, hp]
    | some i =>
      by_cases hi : i < it.all.length
      · have hrest : it.restF = it.all[i] :: it.all.drop (i + 1) := by
          simp only [BIter.restF, hp]; exact List.drop_eq_getElem_cons hi
        have hcur : it.cur = some it.all[i] := by simp [BIter.cur, hp, List.getElem?_eq_getElem hi]
        rw [hrest, List.takeWhile_cons]
        by_cases hv : keyOK it.start it.end_ it.all[i].1 = true
        · have hvalid : it.valid = true := by rw [BIter.valid_eq, hcur]; exact hv
          let it' : BIter := { it with pos := if i + 1 < it.all.length then some (i + 1) else none }
          have hnext : it.next.1 = it' := by
            simp [BIter.next, BIter.uNext, hp, hrev, it']
          have hrest' : it'.restF = it.all.drop (i + 1) := by
            simp only [BIter.restF, it']
            by_cases h2 : i + 1 < it.all.length
            · simp [h2]
            · simp [h2, List.drop_eq_nil_of_le (Nat.le_of_not_lt h2)]
          have hlen : it'.restF.length ≤ n := by
            rw [hrest']; rw [hrest] at hf; simp at hf ⊢; omega
          simp only [BIter.drain, hvalid, if_true, hnext, hv]
          rw [ih (it := it') hrev hlen, hrest']
          simp [BIter.key, BIter.value, hcur, it']
        · have hvalid : it.valid = false := by
            rw [BIter.valid_eq, hcur]; simpa using hv
          simp [BIter.drain, hvalid, hv]
      · have hrest : it.restF = [] := by
          simp only [BIter.restF, hp]; exact List.drop_eq_nil_of_le (Nat.le_of_not_lt hi)
        have hcur : it.cur = none := by
          simp [BIter.cur, hp, List.getElem?_eq_none (Nat.le_of_not_lt hi)]
        simp [BIter.drain, BIter.valid, hcur, hrest]

theorem drop_findGE (ents : List Entry) (k : Bytes) :
    ents.drop (findGE ents k) = ents.dropWhile (fun e => blt e.1 k) := by
  induction ents with
  | nil => rfl
  | cons e es ih =>
    by_cases h : blt e.1 k = true
    · simp [findGE, h, ih]
    · simp [findGE, h]

theorem findGE_le (ents : List Entry) (k : Bytes) : findGE ents k ≤ ents.length := by
  induction ents with
  | nil => simp [findGE]
  | cons e es ih => by_cases h : blt e.1 k = true <;> simp [findGE, h]; omega

/-- `Seek` only moves the cursor. -/
theorem BIter.bSeek_fields (it : BIter) (k : Bytes) :
    (it.bSeek k).reverse = it.reverse ∧ (it.bSeek k).all = it.all ∧ (it.bSeek k).start = it.start
      ∧ (it.bSeek k).end_ = it.end_ := by
  unfold BIter.bSeek
  split
  · exact ⟨rfl, rfl, rfl, rfl⟩
  · split <;> exact ⟨rfl, rfl, rfl, rfl⟩

/-- after `Seek(start)` a forward badger iterator stands on the first key ≥ `start`. -/
theorem BIter.bSeek_restF {it : BIter} (hrev : it.reverse = false) (k : Bytes) :
    (it.bSeek k).restF = it.all.dropWhile (fun e => blt e.1 k) := by
  unfold BIter.bSeek
  by_cases hk : k.isEmpty = true
  · have hk' : k = [] := List.isEmpty_iff.mp hk
    subst hk'
    simp only [List.isEmpty_nil, if_true, hrev, Bool.false_eq_true, if_false]
    have hdw : it.all.dropWhile (fun e => blt e.1 []) = it.all := by
      cases it.all with
      | nil => rfl
      | cons e es => simp [List.dropWhile_cons]
    rw [hdw]
    cases hl : it.all with
    | nil => simp [BIter.restF, hl]
    | cons e es => simp [BIter.restF, hl]
  · simp only [hk, Bool.false_eq_true, if_false, hrev]
    rw [← drop_findGE]
    by_cases hi : findGE it.all k < it.all.length
    · simp [BIter.restF, hi]
    · simp [BIter.restF, hi, List.drop_eq_nil_of_le (Nat.le_of_not_lt hi)]

/-- on a sorted list: dropping the keys `< lo` and then taking while in range is filtering by
the range. -/
theorem sorted_drop_take {m : Map} (hs : Sorted m) (lo : Bytes) (hi : Option Bytes) :
    (m.dropWhile (fun e => blt e.1 lo)).takeWhile (fun e => inRange lo hi e.1) = range m lo hi := by
  unfold range
  induction m with
  | nil => rfl
  | cons e m ih =>
    have ⟨hhd, htl⟩ := sorted_cons.mp hs
    by_cases hlt : blt e.1 lo = true
    · have : inRange lo hi e.1 = false := by simp [inRange, ble, hlt]
      simp only [List.dropWhile_cons, hlt, if_true, List.filter_cons, this, Bool.false_eq_true, if_false]
      exact ih htl
    · simp only [List.dropWhile_cons, hlt, if_false, Bool.false_eq_true]
      have hlo : ∀ e' ∈ e :: m, ble lo e'.1 = true := by
        intro e' he'
        rcases List.mem_cons.mp he' with rfl | he'
        · simpa [ble] using hlt
        · have : ble lo e.1 = true := by simpa [ble] using hlt
          exact ble_trans this (ble_of_blt (hhd e' he'))
      clear ih hlt
      revert hlo
      generalize e :: m = L at hs
      intro hlo
      induction L with
      | nil => rfl
      | cons a L ihL =>
        have ⟨hha, hta⟩ := sorted_cons.mp hs
        by_cases hc : inRange lo hi a.1 = true
        · simp only [List.takeWhile_cons, hc, if_true, List.filter_cons]
          rw [ihL hta (fun e' he' => hlo e' (by simp [he']))]
        · have hc' : inRange lo hi a.1 = false := by simpa using hc
          simp only [List.takeWhile_cons, hc', Bool.false_eq_true, if_false, List.filter_cons]
          symm
          apply List.filter_eq_nil_iff.mpr
          intro e' he'
          have hlo' := hlo a (by simp)
          cases hi with
          | none => simp [inRange, belowUpper, hlo'] at hc'
          | some u =>
            have hau : blt a.1 u = false := by simpa [inRange, belowUpper, hlo'] using hc'
            have h3 : blt e'.1 u = false := by
              cases h : blt e'.1 u with
              | false => rfl
              | true => rw [blt_trans (hha e' he') h] at hau; cases hau
            simp [inRange, belowUpper, h3]

/-- **forward badger scan** (repaired code): exactly the in-range entries, ascending. -/
theorem BIter.scan_forward {m : Map} (hs : Sorted m) (start : Bytes) (end_ : Option Bytes) :
    (BIter.mk' m start end_ false).scan = range m start (effEnd start end_) := by
  let it0 : BIter := { all := m, start := start, end_ := effEnd start end_, reverse := false, pos := none }
  have hmk : BIter.mk' m start end_ false = it0.bSeek start := by simp [BIter.mk', BIter.rewind, it0]
  obtain ⟨hr1, ha1, hs1, he1⟩ := BIter.bSeek_fields it0 start
  have hr1' : (it0.bSeek start).reverse = false := hr1
  have hrw : (it0.bSeek start).rewind.1 = (it0.bSeek start).bSeek start := by
    unfold BIter.rewind
    rw [hr1']
    simp only [Bool.false_eq_true, if_false]
    rw [hs1]
  obtain ⟨hr2, ha2, hs2, he2⟩ := BIter.bSeek_fields (it0.bSeek start) start
  have hrest := BIter.bSeek_restF (it := it0.bSeek start) hr1' start
  have hlen : ((it0.bSeek start).bSeek start).restF.length ≤ (it0.bSeek start).all.length + 1 := by
    rw [hrest]
    have := (List.dropWhile_sublist (fun e : Entry => blt e.1 start) (l := (it0.bSeek start).all)).length_le
    omega
  unfold BIter.scan
  rw [hmk, hrw, BIter.drain_forward (by rw [hr2]; exact hr1') hlen, hrest, hs2, he2, hs1, he1, ha1]
  have : (fun e : Entry => keyOK start (effEnd start end_) e.1) = (fun e => inRange start (effEnd start end_) e.1) := by
    funext e; exact keyOK_eq_inRange _ _ _
  rw [this]
  exact sorted_drop_take hs start (effEnd start end_)

end C06
