import Chain33Model.Proofs.C06Iter
/-!
The `goBadgerDBIt` machine (`C06.BIter`), forward direction: it visits the *inclusive* range
`start ≤ key ≤ end` — the only upper check is `itBase.checkKey`.
-/
namespace C06

/-- entries from the cursor to the end of the database (forward iterator). -/
def BIter.restF (it : BIter) : List Entry :=
  match it.pos with
  | some i => it.all.drop i
  | none => []

theorem BIter.drain_forward {it : BIter} (hrev : it.reverse = false) {fuel : Nat}
    (hf : it.restF.length ≤ fuel) :
    BIter.drain fuel it = it.restF.takeWhile (fun e => checkKey it.start it.end_ e.1) := by
  induction fuel generalizing it with
  | zero =>
    have : it.restF = [] := List.length_eq_zero_iff.mp (by omega)
    simp [BIter.drain, this]
  | succ n ih =>
    cases hp : it.pos with
    | none =>
      simp [BIter.drain, BIter.valid, BIter.cur, BIter.restF, hp]
    | some i =>
      by_cases hi : i < it.all.length
      · have hrest : it.restF = it.all[i] :: it.all.drop (i + 1) := by
          simp only [BIter.restF, hp]; exact List.drop_eq_getElem_cons hi
        have hcur : it.cur = some it.all[i] := by simp [BIter.cur, hp, List.getElem?_eq_getElem hi]
        rw [hrest, List.takeWhile_cons]
        by_cases hv : checkKey it.start it.end_ it.all[i].1 = true
        · have hvalid : it.valid = true := by simp [BIter.valid, hcur, hv]
          let it' : BIter := { it with pos := if i + 1 < it.all.length then some (i + 1) else none }
          have hnext : it.next = some (it', it'.valid) := by
            simp [BIter.next, hp, hrev, it']
          have hrest' : it'.restF = it.all.drop (i + 1) := by
            simp only [BIter.restF, it']
            by_cases h2 : i + 1 < it.all.length
            · simp [h2]
            · simp [h2, List.drop_eq_nil_of_le (Nat.le_of_not_lt h2)]
          have hlen : it'.restF.length ≤ n := by
            rw [hrest']; rw [hrest] at hf; simp at hf ⊢; omega
          simp only [BIter.drain, hvalid, if_true, hnext, hv]
          rw [ih (it := it') hrev hlen, hrest']
          simp [BIter.key, BIter.value, hcur, it']
        · have hvalid : it.valid = false := by simp [BIter.valid, hcur, hv]
          simp [BIter.drain, hvalid, hv]
      · have hrest : it.restF = [] := by
          simp only [BIter.restF, hp]; exact List.drop_eq_nil_of_le (Nat.le_of_not_lt hi)
        have hcur : it.cur = none := by
          simp [BIter.cur, hp, List.getElem?_eq_none (Nat.le_of_not_lt hi)]
        simp [BIter.drain, BIter.valid, hcur, hrest]

theorem drop_findGE (ents : List Entry) (k : Bytes) :
    ents.drop (findGE ents k) = ents.dropWhile (fun e => blt e.1 k) := by
  induction ents with
  | nil => rfl
  | cons e es ih =>
    by_cases h : blt e.1 k = true
    · simp [findGE, h, ih]
    · simp [findGE, h]

theorem findGE_le (ents : List Entry) (k : Bytes) : findGE ents k ≤ ents.length := by
  induction ents with
  | nil => simp [findGE]
  | cons e es ih => by_cases h : blt e.1 k = true <;> simp [findGE, h]; omega

/-- `Seek` only moves the cursor. -/
theorem BIter.bSeek_fields (it : BIter) (k : Bytes) :
    (it.bSeek k).reverse = it.reverse ∧ (it.bSeek k).all = it.all ∧ (it.bSeek k).start = it.start
      ∧ (it.bSeek k).end_ = it.end_ := by
  unfold BIter.bSeek
  split
  · exact ⟨rfl, rfl, rfl, rfl⟩
  · split <;> exact ⟨rfl, rfl, rfl, rfl⟩

/-- after `Seek(start)` a forward badger iterator stands on the first key ≥ `start`. -/
theorem BIter.bSeek_restF {it : BIter} (hrev : it.reverse = false) (k : Bytes) :
    (it.bSeek k).restF = it.all.dropWhile (fun e => blt e.1 k) := by
  unfold BIter.bSeek
  by_cases hk : k.isEmpty = true
  · have hk' : k = [] := List.isEmpty_iff.mp hk
    subst hk'
    simp only [List.isEmpty_nil, if_true, hrev, Bool.false_eq_true, if_false]
    have hdw : it.all.dropWhile (fun e => blt e.1 []) = it.all := by
      cases it.all with
      | nil => rfl
      | cons e es => simp [List.dropWhile_cons]
    rw [hdw]
    cases hl : it.all with
    | nil => simp [BIter.restF, hl]
    | cons e es => simp [BIter.restF, hl]
  · simp only [hk, Bool.false_eq_true, if_false, hrev]
    rw [← drop_findGE]
    by_cases hi : findGE it.all k < it.all.length
    · simp [BIter.restF, hi]
    · simp [BIter.restF, hi, List.drop_eq_nil_of_le (Nat.le_of_not_lt hi)]

/-- on a sorted list: dropping the keys `< lo` and then taking while `key ≤ hi` (or everything)
is filtering by `lo ≤ key ∧ key ≤ hi`. -/
theorem sorted_drop_take {m : Map} (hs : Sorted m) (lo : Bytes) (hi : Option Bytes) :
    (m.dropWhile (fun e => blt e.1 lo)).takeWhile (fun e => checkKey lo hi e.1)
      = m.filter (fun e => checkKey lo hi e.1) := by
  induction m with
  | nil => rfl
  | cons e m ih =>
    have ⟨hhd, htl⟩ := sorted_cons.mp hs
    by_cases hlt : blt e.1 lo = true
    · have : checkKey lo hi e.1 = false := by simp [checkKey, ble, hlt]
      simp only [List.dropWhile_cons, hlt, if_true, List.filter_cons, this, Bool.false_eq_true, if_false]
      exact ih htl
    · simp only [List.dropWhile_cons, hlt, if_false, Bool.false_eq_true]
      -- no later key is < lo either; takeWhile = filter because later keys only grow
      have hlo : ∀ e' ∈ e :: m, ble lo e'.1 = true := by
        intro e' he'
        rcases List.mem_cons.mp he' with rfl | he'
        · simpa [ble] using hlt
        · have : ble lo e.1 = true := by simpa [ble] using hlt
          exact ble_trans this (ble_of_blt (hhd e' he'))
      clear ih hlt
      revert hlo
      generalize e :: m = L at hs
      intro hlo
      induction L with
      | nil => rfl
      | cons a L ihL =>
        have ⟨hha, hta⟩ := sorted_cons.mp hs
        by_cases hc : checkKey lo hi a.1 = true
        · simp only [List.takeWhile_cons, hc, if_true, List.filter_cons]
          rw [ihL hta (fun e' he' => hlo e' (by simp [he']))]
        · have hc' : checkKey lo hi a.1 = false := by simpa using hc
          simp only [List.takeWhile_cons, hc', Bool.false_eq_true, if_false, List.filter_cons]
          -- a.1 > hi, hence every later key too
          symm
          apply List.filter_eq_nil_iff.mpr
          intro e' he'
          have hlo' := hlo a (by simp)
          cases hi with
          | none => simp [checkKey, hlo'] at hc'
          | some u =>
            have hau : ble a.1 u = false := by simpa [checkKey, hlo'] using hc'
            have : blt u a.1 = true := by simpa [ble] using hau
            have h3 : blt u e'.1 = true := blt_trans this (hha e' he')
            simp [checkKey, ble, h3]

/-- **what the forward badger scan really returns**: the keys with `start ≤ key ≤ end`
(inclusive upper bound). -/
theorem BIter.scan_forward {m : Map} (hs : Sorted m) (start : Bytes) (end_ : Option Bytes) :
    (BIter.mk' m start end_ false).scan
      = m.filter (fun e => checkKey start (effEnd start end_) e.1) := by
  let it0 : BIter := { all := m, start := start, end_ := effEnd start end_, reverse := false, pos := none }
  have hmk : BIter.mk' m start end_ false = it0.bSeek start := by simp [BIter.mk', it0]
  obtain ⟨hr1, ha1, hs1, he1⟩ := BIter.bSeek_fields it0 start
  have hr1' : (it0.bSeek start).reverse = false := hr1
  have hrw : (it0.bSeek start).rewind.1 = (it0.bSeek start).bSeek start := by
    unfold BIter.rewind
    rw [hr1']
    simp only [Bool.false_eq_true, if_false]
    rw [hs1]
  obtain ⟨hr2, ha2, hs2, he2⟩ := BIter.bSeek_fields (it0.bSeek start) start
  have hrest := BIter.bSeek_restF (it := it0.bSeek start) hr1' start
  have hlen : ((it0.bSeek start).bSeek start).restF.length ≤ (it0.bSeek start).all.length + 1 := by
    rw [hrest]
    have := (List.dropWhile_sublist (fun e : Entry => blt e.1 start) (l := (it0.bSeek start).all)).length_le
    omega
  unfold BIter.scan
  rw [hmk, hrw, BIter.drain_forward (by rw [hr2]; exact hr1') hlen, hrest, hs2, he2, hs1, he1, ha1]
  exact sorted_drop_take hs start (effEnd start end_)

end C06
