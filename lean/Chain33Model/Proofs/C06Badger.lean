import Chain33Model.Proofs.C06Iter
/-!
The `goBadgerDBIt` machine (`C06.BIter`, the repaired code of /repo commit 0f6664f): a scan visits
exactly the in-range entries, like `goLevelDBIt`.
-/
namespace C06

/-- entries from the cursor to the end of the database (forward iterator). -/
def BIter.restF (it : BIter) : List Entry :=
  match it.pos with
  | some i => it.all.drop i
  | none => []

/-- the key filter of `goBadgerDBIt.Valid`. -/
def keyOK (start : Bytes) (end_ : Option Bytes) (k : Bytes) : Bool :=
  checkKey start end_ k && belowUpper end_ k

theorem keyOK_eq_inRange (start : Bytes) (end_ : Option Bytes) (k : Bytes) :
    keyOK start end_ k = inRange start end_ k := by
  unfold keyOK checkKey inRange
  cases end_ with
  | none => simp [belowUpper]
  | some e =>
    simp only [belowUpper]
    cases hlt : blt k e with
    | false => simp
    | true => simp [ble_of_blt hlt]

/-- positioned by `Rewind`/`Seek` (neither `fresh` nor `done`). -/
def BIter.Clean (it : BIter) : Prop := it.fresh = false ∧ it.done = false

theorem BIter.valid_eq {it : BIter} (hc : it.Clean) : it.valid = (match it.cur with
    | some e => keyOK it.start it.end_ e.1
    | none => false) := by
  unfold BIter.valid
  rw [hc.1, hc.2]
  rfl

theorem BIter.valid_none {it : BIter} (hp : it.pos = none) : it.valid = false := by
  unfold BIter.valid BIter.cur
  rw [hp]
  split <;> rfl

theorem BIter.drain_forward {it : BIter} (hrev : it.reverse = false) (hc : it.Clean) {fuel : Nat}
    (hf : it.restF.length ≤ fuel) :
    BIter.drain fuel it = it.restF.takeWhile (fun e => keyOK it.start it.end_ e.1) := by
  induction fuel generalizing it with
  | zero =>
    have : it.restF = [] := List.length_eq_zero_iff.mp (by omega)
    simp [BIter.drain, this]
  | succ n ih =>
    cases hp : it.pos with
    | none =>
      simp [BIter.drain, BIter.valid_none hp, BIter.restF, hp]
    | some i =>
      by_cases hi : i < it.all.length
      · have hrest : it.restF = it.all[i] :: it.all.drop (i + 1) := by
          simp only [BIter.restF, hp]; exact List.drop_eq_getElem_cons hi
        have hcur : it.cur = some it.all[i] := by simp [BIter.cur, hp, List.getElem?_eq_getElem hi]
        rw [hrest, List.takeWhile_cons]
        by_cases hv : keyOK it.start it.end_ it.all[i].1 = true
        · have hvalid : it.valid = true := by rw [BIter.valid_eq hc, hcur]; exact hv
          let it' : BIter := { it with pos := if i + 1 < it.all.length then some (i + 1) else none }
          have hnext : it.next.1 = it' := by
            simp [BIter.next, BIter.uNext, hp, hrev, it', hc.1, hc.2]
          have hc' : it'.Clean := hc
          have hrest' : it'.restF = it.all.drop (i + 1) := by
            simp only [BIter.restF, it']
            by_cases h2 : i + 1 < it.all.length
            · simp [h2]
            · simp [h2, List.drop_eq_nil_of_le (Nat.le_of_not_lt h2)]
          have hlen : it'.restF.length ≤ n := by
            rw [hrest']; rw [hrest] at hf; simp at hf ⊢; omega
          simp only [BIter.drain, hvalid, if_true, hnext, hv]
          rw [ih (it := it') hrev hc' hlen, hrest']
          simp [BIter.key, BIter.value, hcur, it']
        · have hvalid : it.valid = false := by
            rw [BIter.valid_eq hc, hcur]; simpa using hv
          simp [BIter.drain, hvalid, hv]
      · have hrest : it.restF = [] := by
          simp only [BIter.restF, hp]; exact List.drop_eq_nil_of_le (Nat.le_of_not_lt hi)
        have hcur : it.cur = none := by
          simp [BIter.cur, hp, List.getElem?_eq_none (Nat.le_of_not_lt hi)]
        simp [BIter.drain, BIter.valid_eq hc, hcur, hrest]

theorem drop_findGE (ents : List Entry) (k : Bytes) :
    ents.drop (findGE ents k) = ents.dropWhile (fun e => blt e.1 k) := by
  induction ents with
  | nil => rfl
  | cons e es ih =>
    by_cases h : blt e.1 k = true
    · simp [findGE, h, ih]
    · simp [findGE, h]

theorem findGE_le (ents : List Entry) (k : Bytes) : findGE ents k ≤ ents.length := by
  induction ents with
  | nil => simp [findGE]
  | cons e es ih => by_cases h : blt e.1 k = true <;> simp [findGE, h]; omega

/-- `Seek` only moves the cursor. -/
theorem BIter.bSeek_fields (it : BIter) (k : Bytes) :
    (it.bSeek k).reverse = it.reverse ∧ (it.bSeek k).all = it.all ∧ (it.bSeek k).start = it.start
      ∧ (it.bSeek k).end_ = it.end_ := by
  unfold BIter.bSeek
  split
  · exact ⟨rfl, rfl, rfl, rfl⟩
  · split <;> exact ⟨rfl, rfl, rfl, rfl⟩

theorem BIter.bSeek_clean {it : BIter} (hc : it.Clean) (k : Bytes) : (it.bSeek k).Clean := by
  unfold BIter.bSeek
  split
  · exact hc
  · split <;> exact hc

theorem BIter.uNext_clean {it : BIter} (hc : it.Clean) : it.uNext.Clean := by
  unfold BIter.uNext
  cases it.pos with
  | none => exact hc
  | some i => simp only; split <;> exact hc

/-- after `Seek(start)` a forward badger iterator stands on the first key ≥ `start`. -/
theorem BIter.bSeek_restF {it : BIter} (hrev : it.reverse = false) (k : Bytes) :
    (it.bSeek k).restF = it.all.dropWhile (fun e => blt e.1 k) := by
  unfold BIter.bSeek
  by_cases hk : k.isEmpty = true
  · have hk' : k = [] := List.isEmpty_iff.mp hk
    subst hk'
    simp only [List.isEmpty_nil, if_true, hrev, Bool.false_eq_true, if_false]
    have hdw : it.all.dropWhile (fun e => blt e.1 []) = it.all := by
      cases it.all with
      | nil => rfl
      | cons e es => simp [List.dropWhile_cons]
    rw [hdw]
    cases hl : it.all with
    | nil => simp [BIter.restF, hl]
    | cons e es => simp [BIter.restF, hl]
  · simp only [hk, Bool.false_eq_true, if_false, hrev]
    rw [← drop_findGE]
    by_cases hi : findGE it.all k < it.all.length
    · simp [BIter.restF, hi]
    · simp [BIter.restF, hi, List.drop_eq_nil_of_le (Nat.le_of_not_lt hi)]

/-- on a sorted list: dropping the keys `< lo` and then taking while in range is filtering by
the range. -/
theorem sorted_drop_take {m : Map} (hs : Sorted m) (lo : Bytes) (hi : Option Bytes) :
    (m.dropWhile (fun e => blt e.1 lo)).takeWhile (fun e => inRange lo hi e.1) = range m lo hi := by
  unfold range
  induction m with
  | nil => rfl
  | cons e m ih =>
    have ⟨hhd, htl⟩ := sorted_cons.mp hs
    by_cases hlt : blt e.1 lo = true
    · have : inRange lo hi e.1 = false := by simp [inRange, ble, hlt]
      simp only [List.dropWhile_cons, hlt, if_true, List.filter_cons, this, Bool.false_eq_true, if_false]
      exact ih htl
    · simp only [List.dropWhile_cons, hlt, if_false, Bool.false_eq_true]
      have hlo : ∀ e' ∈ e :: m, ble lo e'.1 = true := by
        intro e' he'
        rcases List.mem_cons.mp he' with rfl | he'
        · simpa [ble] using hlt
        · have : ble lo e.1 = true := by simpa [ble] using hlt
          exact ble_trans this (ble_of_blt (hhd e' he'))
      clear ih hlt
      revert hlo
      generalize e :: m = L at hs
      intro hlo
      induction L with
      | nil => rfl
      | cons a L ihL =>
        have ⟨hha, hta⟩ := sorted_cons.mp hs
        by_cases hc : inRange lo hi a.1 = true
        · simp only [List.takeWhile_cons, hc, if_true, List.filter_cons]
          rw [ihL hta (fun e' he' => hlo e' (by simp [he']))]
        · have hc' : inRange lo hi a.1 = false := by simpa using hc
          simp only [List.takeWhile_cons, hc', Bool.false_eq_true, if_false, List.filter_cons]
          symm
          apply List.filter_eq_nil_iff.mpr
          intro e' he'
          have hlo' := hlo a (by simp)
          cases hi with
          | none => simp [inRange, belowUpper, hlo'] at hc'
          | some u =>
            have hau : blt a.1 u = false := by simpa [inRange, belowUpper, hlo'] using hc'
            have h3 : blt e'.1 u = false := by
              cases h : blt e'.1 u with
              | false => rfl
              | true => rw [blt_trans (hha e' he') h] at hau; cases hau
            simp [inRange, belowUpper, h3]

/-- **forward badger scan** (repaired code): exactly the in-range entries, ascending. -/
theorem BIter.scan_forward {m : Map} (hs : Sorted m) (start : Bytes) (end_ : Option Bytes) :
    (BIter.mk' m start end_ false).scan = range m start (effEnd start end_) := by
  let it0 : BIter := { all := m, start := start, end_ := effEnd start end_, reverse := false, pos := none,
                       fresh := false, done := false }
  have hc0 : it0.Clean := ⟨rfl, rfl⟩
  have hrw : (BIter.mk' m start end_ false).rewind.1 = it0.bSeek start := rfl
  obtain ⟨hr1, ha1, hs1, he1⟩ := BIter.bSeek_fields it0 start
  have hrest := BIter.bSeek_restF (it := it0) rfl start
  have hlen : (it0.bSeek start).restF.length ≤ (BIter.mk' m start end_ false).all.length + 1 := by
    rw [hrest]
    have := (List.dropWhile_sublist (fun e : Entry => blt e.1 start) (l := it0.all)).length_le
    show _ ≤ m.length + 1
    have h2 : it0.all.length = m.length := rfl
    omega
  unfold BIter.scan
  rw [hrw, BIter.drain_forward hr1 (BIter.bSeek_clean hc0 start) hlen, hrest, hs1, he1]
  have : (fun e : Entry => keyOK start (effEnd start end_) e.1) = (fun e => inRange start (effEnd start end_) e.1) := by
    funext e; exact keyOK_eq_inRange _ _ _
  show List.takeWhile (fun e => keyOK start (effEnd start end_) e.1) (List.dropWhile (fun e => blt e.1 start) m) = _
  rw [this]
  exact sorted_drop_take hs start (effEnd start end_)

/-! ### reverse direction -/

/-- entries from the cursor down to the start of the database (reverse iterator). -/
def BIter.restR (it : BIter) : List Entry :=
  match it.pos with
  | some i => (it.all.take (i + 1)).reverse
  | none => []

/-- the cursor of a positioned iterator is inside the database. -/
def BIter.PosOK (it : BIter) : Prop := ∀ i, it.pos = some i → i < it.all.length

theorem BIter.restR_cons {it : BIter} {i : Nat} (hp : it.pos = some i) (hi : i < it.all.length) :
    it.restR = it.all[i] :: (it.all.take i).reverse ∧ it.cur = some it.all[i] := by
  constructor
  · simp only [BIter.restR, hp]
    rw [List.take_succ_eq_append_getElem hi, List.reverse_append]; rfl
  · simp [BIter.cur, hp, List.getElem?_eq_getElem hi]

theorem BIter.uNext_restR {it : BIter} (hrev : it.reverse = true) (hok : it.PosOK) :
    it.uNext.restR = it.restR.tail ∧ it.uNext.PosOK ∧ it.uNext.reverse = true
      ∧ it.uNext.all = it.all ∧ it.uNext.start = it.start ∧ it.uNext.end_ = it.end_ := by
  cases hp : it.pos with
  | none =>
    have : it.uNext = it := by simp [BIter.uNext, hp]
    rw [this]
    exact ⟨by simp [BIter.restR, hp], hok, hrev, rfl, rfl, rfl⟩
  | some i =>
    have hi := hok i hp
    obtain ⟨hr, _⟩ := BIter.restR_cons hp hi
    cases i with
    | zero =>
      have : it.uNext = { it with pos := none } := by simp [BIter.uNext, hp, hrev]
      rw [this, hr]
      refine ⟨by simp [BIter.restR], ?_, hrev, rfl, rfl, rfl⟩
      intro j hj; cases hj
    | succ j =>
      have : it.uNext = { it with pos := some j } := by simp [BIter.uNext, hp, hrev]
      rw [this, hr]
      refine ⟨by simp [BIter.restR], ?_, hrev, rfl, rfl, rfl⟩
      intro j' hj'
      have : j' = j := by simpa using hj'.symm
      subst this
      show j' < it.all.length
      omega

theorem BIter.drain_reverse {it : BIter} (hrev : it.reverse = true) (hc : it.Clean) (hok : it.PosOK) {fuel : Nat}
    (hf : it.restR.length ≤ fuel) :
    BIter.drain fuel it = it.restR.takeWhile (fun e => keyOK it.start it.end_ e.1) := by
  induction fuel generalizing it with
  | zero =>
    have : it.restR = [] := List.length_eq_zero_iff.mp (by omega)
    simp [BIter.drain, this]
  | succ n ih =>
    cases hp : it.pos with
    | none => simp [BIter.drain, BIter.valid_none hp, BIter.restR, hp]
    | some i =>
      have hi := hok i hp
      obtain ⟨hr, hcur⟩ := BIter.restR_cons hp hi
      obtain ⟨hr', hok', hrev', _, hs', he'⟩ := BIter.uNext_restR hrev hok
      rw [hr, List.takeWhile_cons]
      by_cases hv : keyOK it.start it.end_ it.all[i].1 = true
      · have hvalid : it.valid = true := by rw [BIter.valid_eq hc, hcur]; exact hv
        have hnext : it.next.1 = it.uNext := by simp [BIter.next, hp, hc.1, hc.2]
        have hlen : it.uNext.restR.length ≤ n := by
          rw [hr', hr]; rw [hr] at hf; simp at hf ⊢; omega
        simp only [BIter.drain, hvalid, if_true, hnext, hv]
        rw [ih hrev' (BIter.uNext_clean hc) hok' hlen, hr', hr, hs', he']
        simp [BIter.key, BIter.value, hcur]
      · have hvalid : it.valid = false := by rw [BIter.valid_eq hc, hcur]; simpa using hv
        simp [BIter.drain, hvalid, hv]

theorem take_countLE (all : List Entry) (k : Bytes) :
    all.take (countLE all k) = all.takeWhile (fun e => ble e.1 k) := by
  induction all with
  | nil => rfl
  | cons e r ih =>
    by_cases h : ble e.1 k = true
    · simp [countLE, h, ih]
    · simp [countLE, h]

theorem countLE_le (all : List Entry) (k : Bytes) : countLE all k ≤ all.length := by
  induction all with
  | nil => simp [countLE]
  | cons e r ih => by_cases h : ble e.1 k = true <;> simp [countLE, h]; omega

/-- reverse `Seek(k)` of the underlying badger iterator, non-empty `k`: the greatest key ≤ `k`. -/
theorem BIter.bSeek_restR {it : BIter} (hrev : it.reverse = true) {k : Bytes} (hk : k.isEmpty = false) :
    (it.bSeek k).restR = (it.all.takeWhile (fun e => ble e.1 k)).reverse ∧ (it.bSeek k).PosOK := by
  unfold BIter.bSeek
  simp only [hk, Bool.false_eq_true, if_false, hrev, if_true]
  have ht := take_countLE it.all k
  have hl := countLE_le it.all k
  cases hc : countLE it.all k with
  | zero =>
    rw [hc] at ht
    refine ⟨?_, ?_⟩
    · simp only [BIter.restR]; rw [← ht]; simp
    · intro j hj; cases hj
  | succ c =>
    rw [hc] at ht hl
    refine ⟨?_, ?_⟩
    · simp only [BIter.restR]; rw [← ht]
    · intro j hj
      have : j = c := by simpa using hj.symm
      subst this
      show j < it.all.length
      omega

/-- reverse `Seek` with an empty key: badger rewinds to the last key. -/
theorem BIter.bSeek_nil_restR {it : BIter} (hrev : it.reverse = true) :
    (it.bSeek []).restR = it.all.reverse ∧ (it.bSeek []).PosOK := by
  unfold BIter.bSeek
  simp only [List.isEmpty_nil, if_true, hrev]
  cases hl : it.all.length with
  | zero =>
    have : it.all = [] := List.length_eq_zero_iff.mp hl
    refine ⟨by simp [BIter.restR, this], ?_⟩
    intro j hj; simp at hj
  | succ n =>
    refine ⟨?_, ?_⟩
    · simp only [BIter.restR, Nat.succ_ne_zero, if_false, Nat.add_sub_cancel]
      rw [List.take_of_length_le (by omega)]
    · intro j hj
      have : j = n := by simpa using hj.symm
      subst this
      show j < it.all.length
      omega

/-! #### sorted-list facts -/

theorem takeWhile_le_filter_ne {all : List Entry} (hs : Sorted all) (e : Bytes) :
    (all.takeWhile (fun x => ble x.1 e)).filter (fun x => x.1 != e) = all.filter (fun x => blt x.1 e) := by
  induction all with
  | nil => rfl
  | cons a r ih =>
    have ⟨hhd, htl⟩ := sorted_cons.mp hs
    rcases trichotomy a.1 e with h | h | h
    · have hne : (a.1 != e) = true := by simpa using blt_ne h
      simp only [List.takeWhile_cons, ble_of_blt h, if_true, List.filter_cons, hne, h]
      rw [ih htl]
    · -- a is the bound itself: everything after is greater
      have hgt : ∀ x ∈ r, blt e x.1 = true := fun x hx => h ▸ hhd x hx
      have h1 : r.takeWhile (fun x => ble x.1 e) = [] := by
        cases r with
        | nil => rfl
        | cons x r' => simp [List.takeWhile_cons, ble, hgt x (by simp)]
      have h2 : r.filter (fun x => blt x.1 e) = [] := by
        apply List.filter_eq_nil_iff.mpr
        intro x hx
        simp [blt_asymm (hgt x hx)]
      simp [List.takeWhile_cons, h, ble_refl, h1, List.filter_cons, blt_irrefl, h2]
    · have h1 : ble a.1 e = false := by simp [ble, h]
      have h2 : (a :: r).filter (fun x => blt x.1 e) = [] := by
        apply List.filter_eq_nil_iff.mpr
        intro x hx
        rcases List.mem_cons.mp hx with rfl | hx
        · simp [blt_asymm h]
        · simp [blt_asymm (blt_trans h (hhd x hx))]
      rw [h2]
      simp [List.takeWhile_cons, h1]

theorem takeWhile_append_singleton_neg {p : Entry → Bool} (X : List Entry) {a : Entry} (h : p a = false) :
    (X ++ [a]).takeWhile p = X.takeWhile p := by
  induction X with
  | nil => simp [List.takeWhile_cons, h]
  | cons x X ih =>
    by_cases hx : p x = true
    · simp [List.takeWhile_cons, hx, ih]
    · simp [List.takeWhile_cons, hx]

theorem takeWhile_eq_self {p : Entry → Bool} {X : List Entry} (h : ∀ x ∈ X, p x = true) : X.takeWhile p = X := by
  induction X with
  | nil => rfl
  | cons x X ih =>
    simp only [List.takeWhile_cons, h x (by simp), if_true]
    rw [ih (fun y hy => h y (by simp [hy]))]

/-- on a sorted list, walking down from the top while `lo ≤ key` collects exactly the keys `≥ lo`. -/
theorem reverse_takeWhile_ge {F : List Entry} (hs : Sorted F) (lo : Bytes) :
    F.reverse.takeWhile (fun x => ble lo x.1) = (F.filter (fun x => ble lo x.1)).reverse := by
  induction F with
  | nil => rfl
  | cons a r ih =>
    have ⟨hhd, htl⟩ := sorted_cons.mp hs
    rw [List.reverse_cons]
    by_cases hp : ble lo a.1 = true
    · have hall : ∀ x ∈ r, ble lo x.1 = true := fun x hx => ble_trans hp (ble_of_blt (hhd x hx))
      have hf : r.filter (fun x => ble lo x.1) = r := List.filter_eq_self.mpr hall
      rw [takeWhile_eq_self (by
        intro x hx
        rcases List.mem_append.mp hx with hx | hx
        · exact hall x (List.mem_reverse.mp hx)
        · simp at hx; subst hx; exact hp)]
      simp [List.filter_cons, hp, hf]
    · have hp' : ble lo a.1 = false := by simpa using hp
      rw [takeWhile_append_singleton_neg _ hp', ih htl]
      simp [List.filter_cons, hp']

theorem takeWhile_congr_mem {p q : Entry → Bool} {L : List Entry} (h : ∀ x ∈ L, p x = q x) :
    L.takeWhile p = L.takeWhile q := by
  induction L with
  | nil => rfl
  | cons a L ih =>
    simp only [List.takeWhile_cons, h a (by simp)]
    rw [ih (fun x hx => h x (by simp [hx]))]

theorem BIter.uNext_fields (it : BIter) :
    it.uNext.reverse = it.reverse ∧ it.uNext.all = it.all ∧ it.uNext.start = it.start ∧ it.uNext.end_ = it.end_ := by
  unfold BIter.uNext
  cases it.pos with
  | none => exact ⟨rfl, rfl, rfl, rfl⟩
  | some i => simp only; split <;> exact ⟨rfl, rfl, rfl, rfl⟩

theorem BIter.seekLast_fields (it : BIter) :
    it.seekLast.reverse = it.reverse ∧ it.seekLast.all = it.all ∧ it.seekLast.start = it.start
      ∧ it.seekLast.end_ = it.end_ := by
  have hb := BIter.bSeek_fields it (optBytes it.end_)
  have hu := BIter.uNext_fields (it.bSeek (optBytes it.end_))
  unfold BIter.seekLast
  simp only
  split
  · split
    · exact ⟨hu.1.trans hb.1, hu.2.1.trans hb.2.1, hu.2.2.1.trans hb.2.2.1, hu.2.2.2.trans hb.2.2.2⟩
    · exact hb
  · exact hb

theorem BIter.seekLast_clean {it : BIter} (hc : it.Clean) : it.seekLast.Clean := by
  unfold BIter.seekLast
  simp only
  split
  · split
    · exact BIter.uNext_clean (BIter.bSeek_clean hc _)
    · exact BIter.bSeek_clean hc _
  · exact BIter.bSeek_clean hc _

theorem BIter.seekLast_some {it : BIter} {e : Bytes} (hend : it.end_ = some e) :
    it.seekLast = (match (it.bSeek e).cur with
                   | some c => if c.1 = e then (it.bSeek e).uNext else it.bSeek e
                   | none => it.bSeek e) := by
  unfold BIter.seekLast
  rw [hend]
  simp only [optBytes]
  cases (it.bSeek e).cur <;> rfl

theorem BIter.seekLast_none {it : BIter} (hend : it.end_ = none) : it.seekLast = it.bSeek [] := by
  unfold BIter.seekLast
  rw [hend]
  rfl

/-- where `seekLast` leaves a reverse iterator (bounded above by a non-empty `e`): on the
greatest key strictly below `e`. -/
theorem BIter.seekLast_restR_some {it : BIter} (hrev : it.reverse = true) (hs : Sorted it.all)
    {e : Bytes} (hend : it.end_ = some e) (he : e.isEmpty = false) :
    it.seekLast.restR = (it.all.filter (fun x => blt x.1 e)).reverse ∧ it.seekLast.PosOK := by
  obtain ⟨hr1, hok1⟩ := BIter.bSeek_restR (it := it) hrev he
  obtain ⟨hrv1, ha1, _, _⟩ := BIter.bSeek_fields it e
  rw [← takeWhile_le_filter_ne hs e]
  have hopt : optBytes it.end_ = e := by rw [hend]; rfl
  cases hp : (it.bSeek e).pos with
  | none =>
    have hcur : (it.bSeek e).cur = none := by simp [BIter.cur, hp]
    have hsl : it.seekLast = it.bSeek e := by
      rw [BIter.seekLast_some hend, hcur]
    rw [hsl]
    refine ⟨?_, hok1⟩
    have hnil : (it.bSeek e).restR = [] := by simp [BIter.restR, hp]
    rw [hnil] at hr1
    have : it.all.takeWhile (fun x => ble x.1 e) = [] := by
      have := congrArg List.reverse hr1; simpa using this.symm
    rw [hnil, this]; rfl
  | some i =>
    have hi : i < (it.bSeek e).all.length := hok1 i hp
    obtain ⟨hrc, hcur⟩ := BIter.restR_cons hp hi
    -- T.reverse = c :: R
    let c := (it.bSeek e).all[i]
    let R := ((it.bSeek e).all.take i).reverse
    have hT : (it.all.takeWhile (fun x => ble x.1 e)).reverse = c :: R := by rw [← hr1, hrc]
    have hT' : it.all.takeWhile (fun x => ble x.1 e) = R.reverse ++ [c] := by
      have := congrArg List.reverse hT; simpa using this
    have hsT : Sorted (R.reverse ++ [c]) := by
      rw [← hT']; exact List.Pairwise.sublist (List.takeWhile_sublist _) hs
    have hRc : ∀ x ∈ R, blt x.1 c.1 = true := by
      intro x hx
      exact (List.pairwise_append.mp hsT).2.2 x (List.mem_reverse.mpr hx) c (by simp)
    have hce : ble c.1 e = true := by
      have : c ∈ it.all.takeWhile (fun x => ble x.1 e) := by rw [hT']; simp
      exact mem_takeWhile_imp this
    have hfilt : ((it.all.takeWhile (fun x => ble x.1 e)).filter (fun x => x.1 != e)).reverse
        = (c :: R).filter (fun x => x.1 != e) := by
      rw [← List.filter_reverse, hT]
    rw [hfilt]
    by_cases hc : c.1 = e
    · have hsl : it.seekLast = (it.bSeek e).uNext := by
        rw [BIter.seekLast_some hend, hcur]; exact if_pos hc
      obtain ⟨hr2, hok2, _⟩ := BIter.uNext_restR (it := it.bSeek e) (by rw [hrv1]; exact hrev) hok1
      rw [hsl]
      refine ⟨?_, hok2⟩
      rw [hr2, hrc]
      have : ∀ x ∈ R, (x.1 != e) = true := by
        intro x hx
        have := blt_ne (hRc x hx)
        rw [hc] at this
        simpa using this
      simp [List.filter_cons, hc, List.filter_eq_self.mpr this, R, c]
    · have hsl : it.seekLast = it.bSeek e := by
        rw [BIter.seekLast_some hend, hcur]; exact if_neg hc
      rw [hsl]
      refine ⟨?_, hok1⟩
      rw [hrc]
      have hall : ∀ x ∈ c :: R, (x.1 != e) = true := by
        intro x hx
        rcases List.mem_cons.mp hx with rfl | hx
        · simpa using hc
        · have := blt_ne (blt_of_blt_of_ble (hRc x hx) hce)
          simpa using this
      rw [List.filter_eq_self.mpr hall]

/-- what a reverse iterator will visit after `seekLast`: the in-range entries, descending. -/
theorem BIter.seekLast_walk {it : BIter} (hrev : it.reverse = true) (hs : Sorted it.all) :
    it.seekLast.PosOK ∧
      it.seekLast.restR.takeWhile (fun e => keyOK it.start it.end_ e.1)
        = (range it.all it.start it.end_).reverse := by
  cases hend : it.end_ with
  | none =>
    rw [BIter.seekLast_none hend]
    obtain ⟨hr, hok⟩ := BIter.bSeek_nil_restR (it := it) hrev
    rw [hr]
    refine ⟨hok, ?_⟩
    have : (fun e : Entry => keyOK it.start none e.1) = (fun x => ble it.start x.1) := by
      funext x; simp [keyOK, checkKey, belowUpper]
    rw [this, reverse_takeWhile_ge hs]
    congr 1
    all_goals (unfold range; apply List.filter_congr; intro x _; simp [inRange, belowUpper])
  | some e =>
    by_cases hee : e.isEmpty = true
    · -- an explicit empty (non-nil) end bound: nothing is below it
      have he0 : e = [] := List.isEmpty_iff.mp hee
      subst he0
      have hfalse : ∀ k, keyOK it.start (some []) k = false := by
        intro k; simp [keyOK, belowUpper]
      have hrange : range it.all it.start (some []) = [] := by
        unfold range
        apply List.filter_eq_nil_iff.mpr
        intro x _; simp [inRange, belowUpper]
      rw [hrange]
      have hok : it.seekLast.PosOK := by
        obtain ⟨_, hokn⟩ := BIter.bSeek_nil_restR (it := it) hrev
        have hsl : it.seekLast = it.bSeek [] ∨ it.seekLast = (it.bSeek []).uNext := by
          rw [BIter.seekLast_some hend]
          cases (it.bSeek []).cur with
          | none => exact Or.inl rfl
          | some c =>
            by_cases hc : c.1 = []
            · exact Or.inr (if_pos hc)
            · exact Or.inl (if_neg hc)
        rcases hsl with h | h
        · rw [h]; exact hokn
        · rw [h]
          exact (BIter.uNext_restR (it := it.bSeek [])
            (by rw [(BIter.bSeek_fields _ _).1]; exact hrev) hokn).2.1
      refine ⟨hok, ?_⟩
      cases it.seekLast.restR with
      | nil => rfl
      | cons a L => simp [List.takeWhile_cons, hfalse]
    · have hee' : e.isEmpty = false := by simpa using hee
      obtain ⟨hr, hok⟩ := BIter.seekLast_restR_some (it := it) hrev hs hend hee'
      refine ⟨hok, ?_⟩
      rw [hr]
      have hF : Sorted (it.all.filter (fun x => blt x.1 e)) := hs.filter _
      have hcongr : ((it.all.filter (fun x => blt x.1 e)).reverse).takeWhile (fun x => keyOK it.start (some e) x.1)
          = ((it.all.filter (fun x => blt x.1 e)).reverse).takeWhile (fun x => ble it.start x.1) := by
        apply takeWhile_congr_mem
        intro x hx
        have hlt : blt x.1 e = true := (List.mem_filter.mp (List.mem_reverse.mp hx)).2
        simp [keyOK, checkKey, belowUpper, hlt, ble_of_blt hlt]
      rw [hcongr, reverse_takeWhile_ge hF, List.filter_filter]
      congr 1
      all_goals (unfold range; apply List.filter_congr; intro x _; simp only [inRange, belowUpper])

/-- **reverse badger scan** (repaired code): exactly the in-range entries, descending. -/
theorem BIter.scan_reverse {m : Map} (hs : Sorted m) (start : Bytes) (end_ : Option Bytes) :
    (BIter.mk' m start end_ true).scan = (range m start (effEnd start end_)).reverse := by
  let it0 : BIter := { all := m, start := start, end_ := effEnd start end_, reverse := true, pos := none,
                       fresh := false, done := false }
  have hc0 : it0.Clean := ⟨rfl, rfl⟩
  have hrw : (BIter.mk' m start end_ true).rewind.1 = it0.seekLast := rfl
  obtain ⟨hr1, ha1, hs1, he1⟩ := BIter.seekLast_fields it0
  obtain ⟨hok, hwalk⟩ := BIter.seekLast_walk (it := it0) rfl hs
  have hlen : it0.seekLast.restR.length ≤ (BIter.mk' m start end_ true).all.length + 1 := by
    have : it0.seekLast.restR.length ≤ it0.seekLast.all.length := by
      unfold BIter.restR
      cases it0.seekLast.pos with
      | none => simp
      | some i => simp [List.length_take]; omega
    rw [ha1] at this
    show _ ≤ m.length + 1
    have h2 : it0.all.length = m.length := rfl
    omega
  unfold BIter.scan
  rw [hrw, BIter.drain_reverse hr1 (BIter.seekLast_clean hc0) hok hlen, hs1, he1]
  exact hwalk

end C06
