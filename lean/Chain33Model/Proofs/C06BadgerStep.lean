import Chain33Model.Proofs.C06Badger
/-!
Step-level comparison of the two iterator machines: every session of Rewind/Seek/Next calls on
`BIter` (goBadgerDBIt) is answered like the same session on `Iter` (goLevelDBIt).
Both are cursors over the same list (the in-range entries in iteration order).
-/
namespace C06

/-- what a caller observes when `L` is what remains to be visited. -/
def obsOf (L : List Entry) : Obs := (!L.isEmpty, L.head?)

/-! ### the goLevelDBIt side -/

/-- states reachable after a first Rewind/Seek/Next: a forward iterator is never back at SOI, a
reverse iterator is at EOI only over an empty range. -/
def Iter.Settled (it : Iter) : Prop :=
  (it.reverse = false → it.pos ≠ .soi) ∧ (it.reverse = true → it.pos = .eoi → it.ents = [])

theorem Iter.and_valid {it : Iter} (h : it.WF) : (it.uValid && it.valid) = it.valid := by
  rw [Iter.valid_eq_uValid h]; simp

theorem Iter.obs_of_rest {r : Iter × Bool} (h : r.1.WF) (hr : r.2 = r.1.valid) :
    Iter.obs r = obsOf r.1.rest := by
  unfold Iter.obs obsOf
  rw [hr]
  cases hrest : r.1.rest with
  | nil =>
    have : r.1.valid = false := by
      cases hv : r.1.valid with
      | false => rfl
      | true => exact absurd hrest ((Iter.valid_iff_rest h).mp hv)
    simp [this]
  | cons e rs =>
    have hv : r.1.valid = true := (Iter.valid_iff_rest h).mpr (by simp [hrest])
    obtain ⟨hk, hvl, _⟩ := Iter.head_of_rest h hrest
    simp [hv, hk, hvl]

theorem findGE_nil_key (ents : List Entry) : findGE ents [] = 0 := by
  cases ents <;> simp [findGE]

theorem Iter.rewind_step {it : Iter} (h : it.WF) :
    it.rewind.1.WF ∧ it.rewind.1.Settled ∧ it.rewind.1.rest = it.all ∧ it.rewind.1.reverse = it.reverse
      ∧ it.rewind.1.ents = it.ents ∧ Iter.obs it.rewind = obsOf it.rewind.1.rest := by
  obtain ⟨hw, hr, hrev, he⟩ := Iter.rewind_rest h
  have hret : it.rewind.2 = it.rewind.1.valid := by
    have : it.rewind.2 = (it.rewind.1.uValid && it.rewind.1.valid) := rfl
    rw [this, Iter.and_valid hw]
  refine ⟨hw, ?_, hr, hrev, he, Iter.obs_of_rest hw hret⟩
  by_cases hrv : it.reverse = true
  · constructor
    · intro hf; rw [hrev, hrv] at hf; cases hf
    · intro _ hp
      -- uLast never produces EOI
      have : it.rewind.1 = it.uLast := by simp [Iter.rewind, hrv]
      rw [this] at hp
      unfold Iter.uLast at hp
      cases hl : it.ents.length with
      | zero => rw [hl] at hp; cases hp
      | succ n => rw [hl] at hp; cases hp
  · have hrv' : it.reverse = false := by simpa using hrv
    constructor
    · intro _ hp
      have : it.rewind.1 = it.uFirst := by simp [Iter.rewind, hrv']
      rw [this] at hp
      unfold Iter.uFirst at hp
      by_cases hem : it.ents.isEmpty = true
      · simp [hem] at hp
      · simp [hem] at hp
    · intro hf; rw [hrev, hrv'] at hf; cases hf

theorem Iter.seek_step {it : Iter} (h : it.WF) (k : Bytes) :
    (it.seek k).1.WF ∧ (it.seek k).1.Settled
      ∧ (it.seek k).1.rest = it.all.dropWhile (before it.reverse k)
      ∧ (it.seek k).1.reverse = it.reverse ∧ (it.seek k).1.ents = it.ents
      ∧ Iter.obs (it.seek k) = obsOf (it.seek k).1.rest := by
  obtain ⟨hw, hr, hrev, he⟩ := Iter.seek_rest h k
  have hret : (it.seek k).2 = (it.seek k).1.valid := by
    unfold Iter.seek at hw ⊢
    by_cases hc : (it.reverse && (it.uSeek k).key != k) = true
    · simp only [hc, if_true] at hw ⊢
      exact Iter.and_valid hw
    · simp only [hc, if_false, Bool.false_eq_true] at hw ⊢
      exact (Iter.valid_eq_uValid hw).symm
  refine ⟨hw, ?_, hr, hrev, he, Iter.obs_of_rest hw hret⟩
  by_cases hrv : it.reverse = true
  · constructor
    · intro hf; rw [hrev, hrv] at hf; cases hf
    · intro _ hp
      rw [he]
      unfold Iter.seek at hp
      by_cases hc : (it.reverse && (it.uSeek k).key != k) = true
      · -- stepped back: uPrev never produces EOI
        simp only [hc, if_true] at hp
        unfold Iter.uPrev at hp
        cases hpos : (it.uSeek k).pos with
        | soi => rw [hpos] at hp; simp at hp; rw [hpos] at hp; cases hp
        | eoi =>
          rw [hpos] at hp; simp only at hp
          unfold Iter.uLast at hp
          cases hl : (it.uSeek k).ents.length with
          | zero => rw [hl] at hp; cases hp
          | succ n => rw [hl] at hp; cases hp
        | on i =>
          rw [hpos] at hp
          cases i with
          | zero => cases hp
          | succ j => cases hp
      · simp only [hc, if_false, Bool.false_eq_true] at hp
        -- landed on EOI with key = k: then k = [] and nothing is below the first index
        have hkey : (it.uSeek k).key = k := by
          simp only [hrv, Bool.true_and, bne_iff_ne, ne_eq, Decidable.not_not] at hc
          exact hc
        have hk0 : k = [] := by
          rw [← hkey]; simp [Iter.key, Iter.cur, hp]
        subst hk0
        unfold Iter.uSeek at hp
        rw [findGE_nil_key] at hp
        by_cases hlt : 0 < it.ents.length
        · simp [hlt] at hp
        · exact List.length_eq_zero_iff.mp (by omega)
  · have hrv' : it.reverse = false := by simpa using hrv
    constructor
    · intro _ hp
      have : (it.seek k).1 = it.uSeek k := by simp [Iter.seek, hrv']
      rw [this] at hp
      unfold Iter.uSeek at hp
      by_cases hlt : findGE it.ents k < it.ents.length
      · simp [hlt] at hp
      · simp [hlt] at hp
    · intro hf; rw [hrev, hrv'] at hf; cases hf

theorem Iter.next_step {it : Iter} (h : it.WF) (hs : it.Settled) :
    it.next.1.WF ∧ it.next.1.Settled ∧ it.next.1.rest = it.rest.tail ∧ it.next.1.reverse = it.reverse
      ∧ it.next.1.ents = it.ents ∧ Iter.obs it.next = obsOf it.next.1.rest := by
  have hretOf : ∀ (hw : it.next.1.WF), it.next.2 = it.next.1.valid := by
    intro hw
    have : it.next.2 = (it.next.1.uValid && it.next.1.valid) := rfl
    rw [this, Iter.and_valid hw]
  cases hrest : it.rest with
  | cons e r =>
    obtain ⟨hw, hr, hrev, he⟩ := Iter.next_rest h hrest
    refine ⟨hw, ?_, by rw [hr]; rfl, hrev, he, Iter.obs_of_rest hw (hretOf hw)⟩
    -- from a positioned state the step never reaches the excluded positions
    have hon : ∃ i, it.pos = .on i := by
      cases hp : it.pos with
      | on i => exact ⟨i, rfl⟩
      | soi => rw [Iter.rest_nil_of_not_on (by intro i; rw [hp]; exact fun h => nomatch h)] at hrest; cases hrest
      | eoi => rw [Iter.rest_nil_of_not_on (by intro i; rw [hp]; exact fun h => nomatch h)] at hrest; cases hrest
    obtain ⟨i, hp⟩ := hon
    by_cases hrv : it.reverse = true
    · constructor
      · intro hf; rw [hrev, hrv] at hf; cases hf
      · intro _ hp'
        have : it.next.1 = it.uPrev := by simp [Iter.next, hrv]
        rw [this] at hp'
        unfold Iter.uPrev at hp'
        rw [hp] at hp'
        cases i with
        | zero => cases hp'
        | succ j => cases hp'
    · have hrv' : it.reverse = false := by simpa using hrv
      constructor
      · intro _ hp'
        have : it.next.1 = it.uNext := by simp [Iter.next, hrv']
        rw [this] at hp'
        unfold Iter.uNext at hp'
        rw [hp] at hp'
        by_cases hlt : i + 1 < it.ents.length
        · simp [hlt] at hp'
        · simp [hlt] at hp'
      · intro hf; rw [hrev, hrv'] at hf; cases hf
  | nil =>
    -- nothing left: the iterator stays where it is (or, reverse at EOI over an empty range, goes to SOI)
    have hnoton : ∀ i, it.pos ≠ .on i := by
      intro i hp
      rw [Iter.rest_eq_cons hp (Iter.pos_lt h hp)] at hrest; cases hrest
    by_cases hrv : it.reverse = true
    · cases hp : it.pos with
      | on i => exact absurd hp (hnoton i)
      | soi =>
        have hn : it.next.1 = it := by simp [Iter.next, hrv, Iter.uPrev, hp]
        have hw : it.next.1.WF := by rw [hn]; exact h
        refine ⟨hw, by rw [hn]; exact hs, by rw [hn, hrest]; rfl, by rw [hn], by rw [hn],
          Iter.obs_of_rest hw (hretOf hw)⟩
      | eoi =>
        have hem := hs.2 hrv hp
        have hn : it.next.1 = { it with pos := .soi } := by
          simp [Iter.next, hrv, Iter.uPrev, hp, Iter.uLast, hem]
        have hw : it.next.1.WF := by rw [hn]; exact ⟨h.1, h.2.1, trivial⟩
        refine ⟨hw, ?_, by rw [hn]; rfl, by rw [hn], by rw [hn], Iter.obs_of_rest hw (hretOf hw)⟩
        rw [hn]
        constructor
        · intro hf
          have : it.reverse = false := hf
          rw [hrv] at this; cases this
        · intro _ hp'
          cases hp'
    · have hrv' : it.reverse = false := by simpa using hrv
      cases hp : it.pos with
      | on i => exact absurd hp (hnoton i)
      | soi => exact absurd hp (hs.1 hrv')
      | eoi =>
        have hn : it.next.1 = it := by simp [Iter.next, hrv', Iter.uNext, hp]
        have hw : it.next.1.WF := by rw [hn]; exact h
        refine ⟨hw, by rw [hn]; exact hs, by rw [hn, hrest]; rfl, by rw [hn], by rw [hn],
          Iter.obs_of_rest hw (hretOf hw)⟩

/-! ### the goBadgerDBIt side -/

/-- entries the underlying badger iterator still walks over (whole database, iteration order). -/
def BIter.urest (b : BIter) : List Entry := if b.reverse then b.restR else b.restF

def BIter.okP (b : BIter) : Entry → Bool := fun e => keyOK b.start b.end_ e.1

/-- entries still to be visited: the walk stops at the first key outside the range. -/
def BIter.rest (b : BIter) : List Entry := if b.done then [] else b.urest.takeWhile b.okP

/-- once the underlying walk has left the range it never re-enters it. -/
def BIter.Mono (b : BIter) : Prop := ∀ y ∈ b.urest.dropWhile b.okP, b.okP y = false

structure BIter.Good (b : BIter) : Prop where
  notFresh : b.fresh = false
  pos : b.done = false → b.PosOK
  mono : b.done = false → b.Mono

theorem BIter.restF_cons {b : BIter} {i : Nat} (hp : b.pos = some i) (hi : i < b.all.length) :
    b.restF = b.all[i] :: b.all.drop (i + 1) ∧ b.cur = some b.all[i] := by
  constructor
  · simp only [BIter.restF, hp]; exact List.drop_eq_getElem_cons hi
  · simp [BIter.cur, hp, List.getElem?_eq_getElem hi]

theorem BIter.urest_cur {b : BIter} (hok : b.PosOK) : b.cur = b.urest.head? := by
  unfold BIter.urest
  cases hp : b.pos with
  | none => simp [BIter.cur, BIter.restF, BIter.restR, hp]
  | some i =>
    have hi := hok i hp
    by_cases hrev : b.reverse = true
    · rw [if_pos hrev, (BIter.restR_cons hp hi).1, (BIter.restR_cons hp hi).2]; rfl
    · rw [if_neg hrev, (BIter.restF_cons hp hi).1, (BIter.restF_cons hp hi).2]; rfl

theorem BIter.uNext_restF {b : BIter} (hrev : b.reverse = false) (hok : b.PosOK) :
    b.uNext.restF = b.restF.tail ∧ b.uNext.PosOK := by
  cases hp : b.pos with
  | none =>
    have : b.uNext = b := by simp [BIter.uNext, hp]
    rw [this]
    exact ⟨by simp [BIter.restF, hp], hok⟩
  | some i =>
    have hi := hok i hp
    rw [(BIter.restF_cons hp hi).1]
    by_cases h2 : i + 1 < b.all.length
    · have : b.uNext = { b with pos := some (i + 1) } := by simp [BIter.uNext, hp, hrev, h2]
      rw [this]
      refine ⟨by simp [BIter.restF], ?_⟩
      intro j hj
      have : j = i + 1 := by simpa using hj.symm
      subst this; exact h2
    · have : b.uNext = { b with pos := none } := by simp [BIter.uNext, hp, hrev, h2]
      rw [this]
      refine ⟨by simp [BIter.restF, List.drop_eq_nil_of_le (Nat.le_of_not_lt h2)], ?_⟩
      intro j hj; cases hj

theorem BIter.uNext_urest {b : BIter} (hok : b.PosOK) :
    b.uNext.urest = b.urest.tail ∧ b.uNext.PosOK := by
  obtain ⟨hr, ha, hs, he⟩ := BIter.uNext_fields b
  unfold BIter.urest
  rw [hr]
  by_cases hrev : b.reverse = true
  · obtain ⟨h1, h2, _⟩ := BIter.uNext_restR hrev hok
    simp only [hrev, if_true]; exact ⟨h1, h2⟩
  · have hrev' : b.reverse = false := by simpa using hrev
    obtain ⟨h1, h2⟩ := BIter.uNext_restF hrev' hok
    simp only [hrev', Bool.false_eq_true, if_false]; exact ⟨h1, h2⟩

theorem BIter.valid_done {b : BIter} (hd : b.done = true) : b.valid = false := by
  unfold BIter.valid; simp [hd]

theorem BIter.obs_of_rest {r : BIter × Bool} (hg : r.1.Good) (hr : r.2 = r.1.valid) :
    BIter.obs r = obsOf r.1.rest := by
  unfold BIter.obs obsOf BIter.rest
  rw [hr]
  by_cases hd : r.1.done = true
  · simp [hd, BIter.valid_done hd]
  · have hd' : r.1.done = false := by simpa using hd
    have hc : r.1.Clean := ⟨hg.notFresh, hd'⟩
    have hcur := BIter.urest_cur (hg.pos hd')
    rw [BIter.valid_eq hc, hcur]
    simp only [hd', Bool.false_eq_true, if_false]
    cases hu : r.1.urest with
    | nil => simp
    | cons x xs =>
      simp only [List.head?_cons, List.takeWhile_cons]
      have hkx : r.1.key = x.1 ∧ r.1.value = x.2 := by
        simp [BIter.key, BIter.value, hcur, hu]
      by_cases hx : keyOK r.1.start r.1.end_ x.1 = true
      · have : r.1.okP x = true := hx
        simp [hx, this, hkx.1, hkx.2]
      · have hx' : keyOK r.1.start r.1.end_ x.1 = false := by simpa using hx
        have : r.1.okP x = false := hx'
        simp [hx', this]

theorem takeWhile_nil_of_all_false {p : Entry → Bool} {L : List Entry} (h : ∀ y ∈ L, p y = false) :
    L.takeWhile p = [] := by
  cases L with
  | nil => rfl
  | cons a L => simp [List.takeWhile_cons, h a (by simp)]

theorem BIter.next_step {b : BIter} (hg : b.Good) :
    b.next.1.Good ∧ b.next.1.rest = b.rest.tail ∧ BIter.obs b.next = obsOf b.next.1.rest
      ∧ b.next.1.reverse = b.reverse ∧ b.next.1.all = b.all ∧ b.next.1.start = b.start
      ∧ b.next.1.end_ = b.end_ := by
  have hf := hg.notFresh
  by_cases hd : b.done = true
  · have hn : b.next = (b, false) := by simp [BIter.next, hf, hd]
    rw [hn]
    refine ⟨hg, by simp [BIter.rest, hd], ?_, rfl, rfl, rfl, rfl⟩
    exact BIter.obs_of_rest (r := (b, false)) hg (BIter.valid_done hd).symm
  · have hd' : b.done = false := by simpa using hd
    have hok := hg.pos hd'
    have hmono := hg.mono hd'
    cases hp : b.pos with
    | none =>
      have hn : b.next = (b, false) := by simp [BIter.next, hf, hd', hp]
      rw [hn]
      have hu : b.urest = [] := by
        unfold BIter.urest; simp [BIter.restF, BIter.restR, hp]
      refine ⟨hg, by simp [BIter.rest, hd', hu], ?_, rfl, rfl, rfl, rfl⟩
      exact BIter.obs_of_rest (r := (b, false)) hg (BIter.valid_none hp).symm
    | some i =>
      have hn : b.next = (b.uNext, b.uNext.valid) := by simp [BIter.next, hf, hd', hp]
      obtain ⟨hr, ha, hs, he⟩ := BIter.uNext_fields b
      obtain ⟨hur, hok'⟩ := BIter.uNext_urest hok
      have hc' : b.uNext.Clean := BIter.uNext_clean ⟨hf, hd'⟩
      have hokP : b.uNext.okP = b.okP := by unfold BIter.okP; rw [hs, he]
      -- monotonicity is inherited by the tail
      have hmono' : b.uNext.Mono := by
        unfold BIter.Mono
        rw [hur, hokP]
        intro y hy
        cases hu : b.urest with
        | nil => rw [hu] at hy; simp at hy
        | cons x xs =>
          rw [hu] at hy
          simp only [List.tail_cons] at hy
          unfold BIter.Mono at hmono
          rw [hu] at hmono
          by_cases hx : b.okP x = true
          · exact hmono y (by simpa [List.dropWhile_cons, hx] using hy)
          · have hall : ∀ z ∈ x :: xs, b.okP z = false := by
              simpa [List.dropWhile_cons, hx] using hmono
            exact hall y (List.mem_cons_of_mem _ ((List.dropWhile_sublist _).mem hy))
      have hg' : b.uNext.Good := ⟨hc'.1, fun _ => hok', fun _ => hmono'⟩
      rw [hn]
      refine ⟨hg', ?_, BIter.obs_of_rest (r := (b.uNext, b.uNext.valid)) hg' rfl, hr, ha, hs, he⟩
      show b.uNext.rest = b.rest.tail
      unfold BIter.rest
      rw [hc'.2, hd', hur, hokP]
      simp only [Bool.false_eq_true, if_false]
      cases hu : b.urest with
      | nil => rfl
      | cons x xs =>
        simp only [List.tail_cons, List.takeWhile_cons]
        by_cases hx : b.okP x = true
        · simp [hx]
        · simp only [hx, if_false, Bool.false_eq_true, List.tail_nil]
          apply takeWhile_nil_of_all_false
          unfold BIter.Mono at hmono
          rw [hu] at hmono
          have hall : ∀ z ∈ x :: xs, b.okP z = false := by
            simpa [List.dropWhile_cons, hx] using hmono
          exact fun y hy => hall y (List.mem_cons_of_mem _ hy)

/-! ### sorted-list facts for positioning -/

theorem keyOK_of_lo_below {lo : Bytes} {hi : Option Bytes} {k : Bytes} (h1 : ble lo k = true)
    (h2 : belowUpper hi k = true) : keyOK lo hi k = true := by
  rw [keyOK_eq_inRange]; simp [inRange, h1, h2]

/-- ascending walk, all keys ≥ lo: after the first key outside the range every key is outside. -/
theorem mono_fwd {L : List Entry} (hs : Sorted L) {lo : Bytes} {hi : Option Bytes}
    (hlo : ∀ e ∈ L, ble lo e.1 = true) :
    ∀ y ∈ L.dropWhile (fun e => keyOK lo hi e.1), keyOK lo hi y.1 = false := by
  intro y hy
  have hspec := dropWhile_spec (fun e => keyOK lo hi e.1) L
  cases hd : L.dropWhile (fun e => keyOK lo hi e.1) with
  | nil => rw [hd] at hy; cases hy
  | cons x r =>
    rw [hd] at hspec hy
    obtain ⟨hx, hxL, _, hsub⟩ := hspec
    have hbx : belowUpper hi x.1 = false := by
      cases hb : belowUpper hi x.1 with
      | false => rfl
      | true => rw [keyOK_of_lo_below (hlo x hxL) hb] at hx; cases hx
    rcases List.mem_cons.mp hy with rfl | hyr
    · exact hx
    · have hs' : Sorted (x :: r) := List.Pairwise.sublist hsub hs
      have hxy : blt x.1 y.1 = true := (sorted_cons.mp hs').1 y hyr
      cases hi with
      | none => simp [belowUpper] at hbx
      | some u =>
        have hxu : blt x.1 u = false := hbx
        have hyu : blt y.1 u = false := by
          cases h : blt y.1 u with
          | false => rfl
          | true => rw [blt_trans hxy h] at hxu; cases hxu
        rw [keyOK_eq_inRange]; simp [inRange, belowUpper, hyu]

/-- descending walk, all keys below the bound: after the first key outside the range every key is outside. -/
theorem mono_rev {S : List Entry} (hs : Sorted S) {lo : Bytes} {hi : Option Bytes}
    (hhi : ∀ e ∈ S, belowUpper hi e.1 = true) :
    ∀ y ∈ S.reverse.dropWhile (fun e => keyOK lo hi e.1), keyOK lo hi y.1 = false := by
  intro y hy
  have hspec := dropWhile_spec (fun e => keyOK lo hi e.1) S.reverse
  cases hd : S.reverse.dropWhile (fun e => keyOK lo hi e.1) with
  | nil => rw [hd] at hy; cases hy
  | cons x r =>
    rw [hd] at hspec hy
    obtain ⟨hx, hxL, _, hsub⟩ := hspec
    have hlx : ble lo x.1 = false := by
      cases hb : ble lo x.1 with
      | false => rfl
      | true => rw [keyOK_of_lo_below hb (hhi x (List.mem_reverse.mp hxL))] at hx; cases hx
    rcases List.mem_cons.mp hy with rfl | hyr
    · exact hx
    · have hdesc : (S.reverse).Pairwise (fun a b => blt b.1 a.1 = true) := List.pairwise_reverse.mpr hs
      have hs' := List.Pairwise.sublist hsub hdesc
      have hyx : blt y.1 x.1 = true := (List.pairwise_cons.mp hs').1 y hyr
      have hxlo : blt x.1 lo = true := by simpa [ble] using hlx
      have : ble lo y.1 = false := by simp [ble, blt_trans hyx hxlo]
      rw [keyOK_eq_inRange]; simp [inRange, this]

theorem takeWhile_le_eq_filter {L : List Entry} (hs : Sorted L) (k : Bytes) :
    L.takeWhile (fun e => ble e.1 k) = L.filter (fun e => ble e.1 k) := by
  induction L with
  | nil => rfl
  | cons a r ih =>
    have ⟨hhd, htl⟩ := sorted_cons.mp hs
    by_cases h : ble a.1 k = true
    · simp only [List.takeWhile_cons, h, if_true, List.filter_cons]
      rw [ih htl]
    · have h' : ble a.1 k = false := by simpa using h
      simp only [List.takeWhile_cons, h', Bool.false_eq_true, if_false, List.filter_cons]
      symm
      apply List.filter_eq_nil_iff.mpr
      intro x hx
      have hka : blt k a.1 = true := by simpa [ble] using h'
      simp [ble, blt_trans hka (hhd x hx)]

theorem dropWhile_nil_of_all {p : Entry → Bool} {L : List Entry} (h : ∀ y ∈ L, p y = true) :
    L.dropWhile p = [] := by
  induction L with
  | nil => rfl
  | cons a L ih =>
    simp only [List.dropWhile_cons, h a (by simp), if_true]
    exact ih (fun y hy => h y (by simp [hy]))

/-- descending walk: dropping the keys above `k` leaves the keys ≤ `k`. -/
theorem reverse_dropWhile_gt {F : List Entry} (hs : Sorted F) (k : Bytes) :
    F.reverse.dropWhile (fun x => blt k x.1) = (F.filter (fun x => ble x.1 k)).reverse := by
  induction F with
  | nil => rfl
  | cons a r ih =>
    have ⟨hhd, htl⟩ := sorted_cons.mp hs
    rw [List.reverse_cons, List.dropWhile_append, ih htl]
    by_cases ha : ble a.1 k = true
    · have hna : blt k a.1 = false := by simpa [ble] using ha
      simp only [List.filter_cons, ha, if_true, List.reverse_cons]
      by_cases hem : ((r.filter (fun x => ble x.1 k)).reverse).isEmpty = true
      · rw [if_pos hem]
        have : (r.filter (fun x => ble x.1 k)).reverse = [] := List.isEmpty_iff.mp hem
        simp [this, List.dropWhile_cons, hna]
      · rw [if_neg hem]
    · have ha' : ble a.1 k = false := by simpa using ha
      have hka : blt k a.1 = true := by simpa [ble] using ha'
      have hr : r.filter (fun x => ble x.1 k) = [] := by
        apply List.filter_eq_nil_iff.mpr
        intro x hx
        simp [ble, blt_trans hka (hhd x hx)]
      simp [List.filter_cons, ha', hr, List.dropWhile_cons, hka]

theorem takeWhile_inRange_eq_filter {L : List Entry} (hs : Sorted L) {lo : Bytes} (hi : Option Bytes)
    (hlo : ∀ e ∈ L, ble lo e.1 = true) :
    L.takeWhile (fun e => inRange lo hi e.1) = L.filter (fun e => inRange lo hi e.1) := by
  induction L with
  | nil => rfl
  | cons a L ih =>
    have ⟨hha, hta⟩ := sorted_cons.mp hs
    by_cases hc : inRange lo hi a.1 = true
    · simp only [List.takeWhile_cons, hc, if_true, List.filter_cons]
      rw [ih hta (fun e he => hlo e (by simp [he]))]
    · have hc' : inRange lo hi a.1 = false := by simpa using hc
      simp only [List.takeWhile_cons, hc', Bool.false_eq_true, if_false, List.filter_cons]
      symm
      apply List.filter_eq_nil_iff.mpr
      intro e' he'
      have hlo' := hlo a (by simp)
      cases hi with
      | none => simp [inRange, belowUpper, hlo'] at hc'
      | some u =>
        have hau : blt a.1 u = false := by simpa [inRange, belowUpper, hlo'] using hc'
        have h3 : blt e'.1 u = false := by
          cases h : blt e'.1 u with
          | false => rfl
          | true => rw [blt_trans (hha e' he') h] at hau; cases hau
        simp [inRange, belowUpper, h3]

theorem sorted_dropWhile_ge {L : List Entry} (hs : Sorted L) (k : Bytes) :
    ∀ e ∈ L.dropWhile (fun e => blt e.1 k), ble k e.1 = true := by
  intro e he
  have hspec := dropWhile_spec (fun e => blt e.1 k) L
  cases hd : L.dropWhile (fun e => blt e.1 k) with
  | nil => rw [hd] at he; cases he
  | cons x r =>
    rw [hd] at hspec he
    obtain ⟨hx, _, _, hsub⟩ := hspec
    have hkx : ble k x.1 = true := by simpa [ble] using hx
    rcases List.mem_cons.mp he with rfl | her
    · exact hkx
    · have hs' : Sorted (x :: r) := List.Pairwise.sublist hsub hs
      exact ble_trans hkx (ble_of_blt ((sorted_cons.mp hs').1 e her))

theorem dwp {p : Entry → Bool} {a : Entry} {l : List Entry} (h : p a = true) :
    (a :: l).dropWhile p = l.dropWhile p := by simp [List.dropWhile_cons, h]

theorem dwn {p : Entry → Bool} {a : Entry} {l : List Entry} (h : ¬ p a = true) :
    (a :: l).dropWhile p = a :: l := List.dropWhile_cons_of_neg h

/-- forward seek to `k' ≥ lo`: walking the range from there = the range from `k'` on. -/
theorem drop_take_range {m : Map} (hs : Sorted m) {lo k' : Bytes} (hi : Option Bytes) (hk : ble lo k' = true) :
    (m.dropWhile (fun e => blt e.1 k')).takeWhile (fun e => inRange lo hi e.1)
      = (range m lo hi).dropWhile (fun e => blt e.1 k') := by
  have hge := sorted_dropWhile_ge hs k'
  have hsd : Sorted (m.dropWhile (fun e => blt e.1 k')) := List.Pairwise.sublist (List.dropWhile_sublist _) hs
  rw [takeWhile_inRange_eq_filter hsd hi (fun e he => ble_trans hk (hge e he))]
  -- filter commutes with dropping the keys below k'
  unfold range
  clear hge hsd
  induction m with
  | nil => rfl
  | cons a r ih =>
    have ⟨hhd, htl⟩ := sorted_cons.mp hs
    by_cases ha : blt a.1 k' = true
    · rw [dwp ha]
      by_cases hin : inRange lo hi a.1 = true
      · rw [List.filter_cons, if_pos hin, dwp ha]; exact ih htl
      · rw [List.filter_cons, if_neg hin]; exact ih htl
    · rw [dwn ha]
      -- nothing in the filtered list is below k' either
      symm
      apply dropWhile_eq_self_of_head
      intro b B hb
      have hbm : b ∈ (a :: r).filter (fun e => inRange lo hi e.1) := by rw [hb]; simp
      have hbm' := (List.mem_filter.mp hbm).1
      have hka : ble k' a.1 = true := by simpa [ble] using ha
      rcases List.mem_cons.mp hbm' with rfl | hbr
      · simpa using ha
      · have := ble_trans hka (ble_of_blt (hhd b hbr))
        simpa [ble] using this

/-! ### positioning the badger iterator -/

theorem BIter.clear_clean (b : BIter) : b.clear.Clean := ⟨rfl, rfl⟩

theorem BIter.bSeek_posOK_fwd {it : BIter} (hrev : it.reverse = false) (k : Bytes) : (it.bSeek k).PosOK := by
  have ha := (BIter.bSeek_fields it k).2.1
  intro j hj
  rw [ha]
  unfold BIter.bSeek at hj
  by_cases hk : k.isEmpty = true
  · simp only [hk, if_true, hrev, Bool.false_eq_true, if_false] at hj
    by_cases hn : it.all.length = 0
    · simp [hn] at hj
    · simp only [hn, if_false] at hj
      have : j = 0 := by simpa using hj.symm
      subst this
      omega
  · simp only [hk, Bool.false_eq_true, if_false, hrev] at hj
    by_cases hi : findGE it.all k < it.all.length
    · simp only [hi, if_true] at hj
      have : j = findGE it.all k := by simpa using hj.symm
      subst this
      exact hi
    · simp [hi] at hj

theorem okP_funext (lo : Bytes) (hi : Option Bytes) :
    (fun e : Entry => keyOK lo hi e.1) = (fun e => inRange lo hi e.1) := by
  funext e; exact keyOK_eq_inRange _ _ _

/-- forward positioning at `k' ≥ start`. -/
theorem BIter.bSeek_fwd_walk {it : BIter} (hrev : it.reverse = false) (hc : it.Clean) (hs : Sorted it.all)
    {k' : Bytes} (hk : ble it.start k' = true) :
    (it.bSeek k').Good ∧ (it.bSeek k').done = false
      ∧ (it.bSeek k').rest = (range it.all it.start it.end_).dropWhile (fun e => blt e.1 k') := by
  obtain ⟨hr, ha, hst, he⟩ := BIter.bSeek_fields it k'
  have hc' := BIter.bSeek_clean hc k'
  have hrest := BIter.bSeek_restF hrev k'
  have hu : (it.bSeek k').urest = it.all.dropWhile (fun e => blt e.1 k') := by
    unfold BIter.urest; rw [hr, hrev]; simpa using hrest
  have hokP : (it.bSeek k').okP = fun e => keyOK it.start it.end_ e.1 := by
    unfold BIter.okP; rw [hst, he]
  have hsd : Sorted (it.all.dropWhile (fun e => blt e.1 k')) :=
    List.Pairwise.sublist (List.dropWhile_sublist _) hs
  have hge := sorted_dropWhile_ge hs k'
  refine ⟨⟨hc'.1, fun _ => BIter.bSeek_posOK_fwd hrev k', fun _ => ?_⟩, hc'.2, ?_⟩
  · unfold BIter.Mono
    rw [hu, hokP]
    exact mono_fwd hsd (fun e he' => ble_trans hk (hge e he'))
  · unfold BIter.rest
    rw [hc'.2, hu, hokP, okP_funext]
    simp only [Bool.false_eq_true, if_false]
    exact drop_take_range hs it.end_ hk

theorem BIter.seekLast_mono {it : BIter} (hrev : it.reverse = true) (hs : Sorted it.all) :
    it.seekLast.Mono := by
  obtain ⟨hr, ha, hst, he⟩ := BIter.seekLast_fields it
  have hokP : it.seekLast.okP = fun e => keyOK it.start it.end_ e.1 := by
    unfold BIter.okP; rw [hst, he]
  have hu : it.seekLast.urest = it.seekLast.restR := by
    unfold BIter.urest; rw [hr, hrev]; rfl
  unfold BIter.Mono
  rw [hu, hokP]
  cases hend : it.end_ with
  | none =>
    rw [BIter.seekLast_none hend, (BIter.bSeek_nil_restR (it := it) hrev).1]
    exact mono_rev hs (fun e _ => rfl)
  | some e =>
    by_cases hee : e.isEmpty = true
    · have he0 : e = [] := List.isEmpty_iff.mp hee
      subst he0
      intro y _
      simp [keyOK, belowUpper]
    · have hee' : e.isEmpty = false := by simpa using hee
      rw [(BIter.seekLast_restR_some (it := it) hrev hs hend hee').1]
      apply mono_rev (hs.filter _)
      intro x hx
      exact (List.mem_filter.mp hx).2

/-- reverse positioning by `seekLast` (Rewind, or Seek at/above the bound). -/
theorem BIter.seekLast_rev_walk {it : BIter} (hrev : it.reverse = true) (hc : it.Clean) (hs : Sorted it.all) :
    it.seekLast.Good ∧ it.seekLast.done = false
      ∧ it.seekLast.rest = (range it.all it.start it.end_).reverse := by
  obtain ⟨hr, ha, hst, he⟩ := BIter.seekLast_fields it
  have hc' := BIter.seekLast_clean hc
  obtain ⟨hok, hwalk⟩ := BIter.seekLast_walk hrev hs
  refine ⟨⟨hc'.1, fun _ => hok, fun _ => BIter.seekLast_mono hrev hs⟩, hc'.2, ?_⟩
  unfold BIter.rest BIter.urest BIter.okP
  rw [hc'.2, hr, hrev, hst, he]
  simpa using hwalk

/-- reverse positioning at a non-empty `k` strictly below the bound. -/
theorem BIter.bSeek_rev_walk {it : BIter} (hrev : it.reverse = true) (hc : it.Clean) (hs : Sorted it.all)
    {k : Bytes} (hk : k.isEmpty = false) (hlt : belowUpper it.end_ k = true) :
    (it.bSeek k).Good ∧ (it.bSeek k).done = false
      ∧ (it.bSeek k).rest = (range it.all it.start it.end_).reverse.dropWhile (fun x => blt k x.1) := by
  obtain ⟨hr, ha, hst, he⟩ := BIter.bSeek_fields it k
  have hc' := BIter.bSeek_clean hc k
  obtain ⟨hrest, hok⟩ := BIter.bSeek_restR hrev hk
  have hu : (it.bSeek k).urest = (it.all.takeWhile (fun e => ble e.1 k)).reverse := by
    unfold BIter.urest; rw [hr, hrev]; simpa using hrest
  have hokP : (it.bSeek k).okP = fun e => keyOK it.start it.end_ e.1 := by
    unfold BIter.okP; rw [hst, he]
  have hG : Sorted (it.all.takeWhile (fun e => ble e.1 k)) :=
    List.Pairwise.sublist (List.takeWhile_sublist _) hs
  -- every key ≤ k is below the bound
  have hbelow : ∀ x ∈ it.all.takeWhile (fun e => ble e.1 k), belowUpper it.end_ x.1 = true := by
    intro x hx
    have hxk : ble x.1 k = true := mem_takeWhile_imp hx
    cases hend : it.end_ with
    | none => rfl
    | some e =>
      rw [hend] at hlt
      exact blt_of_ble_of_blt hxk hlt
  refine ⟨⟨hc'.1, fun _ => hok, fun _ => ?_⟩, hc'.2, ?_⟩
  · unfold BIter.Mono
    rw [hu, hokP]
    exact mono_rev hG hbelow
  · unfold BIter.rest
    rw [hc'.2, hu, hokP]
    simp only [Bool.false_eq_true, if_false]
    have hcongr : ((it.all.takeWhile (fun e => ble e.1 k)).reverse).takeWhile (fun e => keyOK it.start it.end_ e.1)
        = ((it.all.takeWhile (fun e => ble e.1 k)).reverse).takeWhile (fun x => ble it.start x.1) := by
      apply takeWhile_congr_mem
      intro x hx
      have hb := hbelow x (List.mem_reverse.mp hx)
      rw [keyOK_eq_inRange]; simp [inRange, hb]
    rw [hcongr, reverse_takeWhile_ge hG, takeWhile_le_eq_filter hs, List.filter_filter,
      reverse_dropWhile_gt (sorted_range _ _ hs)]
    congr 1
    unfold range
    rw [List.filter_filter]
    apply List.filter_congr
    intro x _
    by_cases hxk : ble x.1 k = true
    · have hb : belowUpper it.end_ x.1 = true := by
        cases hend : it.end_ with
        | none => rfl
        | some e => rw [hend] at hlt; exact blt_of_ble_of_blt hxk hlt
      simp [inRange, hxk, hb]
    · simp [hxk]

/-! ### one call on the badger iterator -/

/-- the in-range entries in iteration order. -/
def BIter.allR (b : BIter) : List Entry :=
  if b.reverse then (range b.all b.start b.end_).reverse else range b.all b.start b.end_

theorem range_ge_lo {m : Map} {lo : Bytes} {hi : Option Bytes} {e : Entry} (he : e ∈ range m lo hi) :
    ble lo e.1 = true := by
  have := (mem_range.mp he).2
  simp only [inRange, Bool.and_eq_true] at this
  exact this.1

theorem range_below_hi {m : Map} {lo : Bytes} {hi : Option Bytes} {e : Entry} (he : e ∈ range m lo hi) :
    belowUpper hi e.1 = true := by
  have := (mem_range.mp he).2
  simp only [inRange, Bool.and_eq_true] at this
  exact this.2

theorem range_dropWhile_below {m : Map} {lo k : Bytes} (hi : Option Bytes) (hk : ble k lo = true) :
    (range m lo hi).dropWhile (fun e => blt e.1 k) = range m lo hi := by
  apply dropWhile_eq_self_of_head
  intro a A ha
  have : a ∈ range m lo hi := by rw [ha]; simp
  have := ble_trans hk (range_ge_lo this)
  simpa [ble] using this

theorem BIter.rewind_step {b : BIter} (hs : Sorted b.all) :
    b.rewind.1.Good ∧ b.rewind.1.rest = b.allR ∧ BIter.obs b.rewind = obsOf b.rewind.1.rest
      ∧ b.rewind.1.reverse = b.reverse ∧ b.rewind.1.all = b.all ∧ b.rewind.1.start = b.start
      ∧ b.rewind.1.end_ = b.end_ := by
  have hcl := BIter.clear_clean b
  by_cases hrev : b.reverse = true
  · have hrw : b.rewind = (b.clear.seekLast, b.clear.seekLast.valid) := by simp [BIter.rewind, hrev]
    obtain ⟨hg, _, hrest⟩ := BIter.seekLast_rev_walk (it := b.clear) hrev hcl hs
    obtain ⟨hr, ha, hst, he⟩ := BIter.seekLast_fields b.clear
    rw [hrw]
    refine ⟨hg, ?_, BIter.obs_of_rest (r := (b.clear.seekLast, b.clear.seekLast.valid)) hg rfl,
      hr, ha, hst, he⟩
    show b.clear.seekLast.rest = _
    rw [hrest]; simp [BIter.allR, hrev, BIter.clear]
  · have hrev' : b.reverse = false := by simpa using hrev
    have hrw : b.rewind = (b.clear.bSeek b.start, (b.clear.bSeek b.start).valid) := by
      simp [BIter.rewind, hrev']
    obtain ⟨hg, _, hrest⟩ := BIter.bSeek_fwd_walk (it := b.clear) (k' := b.start) hrev' hcl hs (ble_refl _)
    obtain ⟨hr, ha, hst, he⟩ := BIter.bSeek_fields b.clear b.start
    rw [hrw]
    refine ⟨hg, ?_, BIter.obs_of_rest (r := (b.clear.bSeek b.start, (b.clear.bSeek b.start).valid)) hg rfl,
      hr, ha, hst, he⟩
    show (b.clear.bSeek b.start).rest = _
    rw [hrest]
    have : (range b.clear.all b.clear.start b.clear.end_) = range b.all b.start b.end_ := rfl
    rw [this, range_dropWhile_below _ (ble_refl _)]
    simp [BIter.allR, hrev']

/-- where `Seek(k)` positions the underlying iterator (all cases but the reverse empty target). -/
def BIter.seekTarget (b : BIter) (k : Bytes) : BIter :=
  if b.reverse then
    match b.end_ with
    | some e => if ble e k then b.clear.seekLast else b.clear.bSeek k
    | none => b.clear.bSeek k
  else if blt k b.start then b.clear.bSeek b.start else b.clear.bSeek k

theorem BIter.seek_of_target {b : BIter} {k : Bytes} (h : (b.reverse && k.isEmpty) = false) :
    b.seek k = (b.seekTarget k, (b.seekTarget k).valid) := by
  unfold BIter.seek BIter.seekTarget
  rw [if_neg (by rw [h]; simp)]
  cases b.end_ <;> rfl

theorem BIter.seek_step {b : BIter} (hs : Sorted b.all) (hne : ∀ e ∈ b.all, e.1 ≠ []) (k : Bytes) :
    (b.seek k).1.Good ∧ (b.seek k).1.rest = b.allR.dropWhile (before b.reverse k)
      ∧ BIter.obs (b.seek k) = obsOf (b.seek k).1.rest
      ∧ (b.seek k).1.reverse = b.reverse ∧ (b.seek k).1.all = b.all ∧ (b.seek k).1.start = b.start
      ∧ (b.seek k).1.end_ = b.end_ := by
  have hcl := BIter.clear_clean b
  have hrange : (range b.clear.all b.clear.start b.clear.end_) = range b.all b.start b.end_ := rfl
  by_cases hrev : b.reverse = true
  · by_cases hk : k.isEmpty = true
    · -- below every key
      have hk0 : k = [] := List.isEmpty_iff.mp hk
      subst hk0
      have hsk : b.seek [] = ({ b.clear with done := true }, false) := by simp [BIter.seek, hrev]
      have hg : ({ b.clear with done := true } : BIter).Good :=
        { notFresh := rfl, pos := fun h => Bool.noConfusion h, mono := fun h => Bool.noConfusion h }
      rw [hsk]
      have hrest : ({ b.clear with done := true } : BIter).rest = [] := by simp [BIter.rest]
      refine ⟨hg, ?_, ?_, rfl, rfl, rfl, rfl⟩
      · rw [hrest]
        symm
        apply dropWhile_nil_of_all
        intro y hy
        have hy' : y ∈ range b.all b.start b.end_ := by
          simpa [BIter.allR, hrev] using hy
        have hne' := hne y (mem_range.mp hy').1
        simp only [before, hrev, if_true]
        cases hyk : y.1 with
        | nil => exact absurd hyk hne'
        | cons c cs => rfl
      · exact BIter.obs_of_rest (r := ({ b.clear with done := true }, false)) hg
          (BIter.valid_done (b := { b.clear with done := true }) rfl).symm
    · have hk' : k.isEmpty = false := by simpa using hk
      have hc1 : (b.reverse && k.isEmpty) = false := by simp [hk']
      cases hend : b.end_ with
      | some e =>
        by_cases hek : ble e k = true
        · -- at or above the bound: seekLast
          have hsk : b.seek k = (b.clear.seekLast, b.clear.seekLast.valid) := by
            have : b.seekTarget k = b.clear.seekLast := by
              simp only [BIter.seekTarget, hrev, if_true, hend, hek]
            rw [BIter.seek_of_target hc1, this]
          obtain ⟨hg, _, hrest⟩ := BIter.seekLast_rev_walk (it := b.clear) hrev hcl hs
          obtain ⟨hr, ha, hst, he⟩ := BIter.seekLast_fields b.clear
          rw [hsk]
          refine ⟨hg, ?_, BIter.obs_of_rest (r := (b.clear.seekLast, b.clear.seekLast.valid)) hg rfl,
            hr, ha, hst, by rw [he]; exact hend⟩
          show b.clear.seekLast.rest = _
          rw [hrest, hrange]
          simp only [BIter.allR, hrev, if_true]
          symm
          apply dropWhile_eq_self_of_head
          intro a A ha'
          have ham : a ∈ range b.all b.start b.end_ := by
            have : a ∈ (range b.all b.start b.end_).reverse := by rw [ha']; simp
            exact List.mem_reverse.mp this
          have hbe := range_below_hi ham
          rw [hend] at hbe
          have : blt a.1 k = true := blt_of_blt_of_ble hbe hek
          simp [before, blt_asymm this]
        · have hke : blt k e = true := by simpa [ble] using hek
          have hsk : b.seek k = (b.clear.bSeek k, (b.clear.bSeek k).valid) := by
            have : b.seekTarget k = b.clear.bSeek k := by
              simp only [BIter.seekTarget, hrev, if_true, hend, hek, if_false, Bool.false_eq_true]
            rw [BIter.seek_of_target hc1, this]
          obtain ⟨hg, _, hrest⟩ := BIter.bSeek_rev_walk (it := b.clear) hrev hcl hs hk'
            (by show belowUpper b.end_ k = true; rw [hend]; exact hke)
          obtain ⟨hr, ha, hst, he⟩ := BIter.bSeek_fields b.clear k
          rw [hsk]
          refine ⟨hg, ?_, BIter.obs_of_rest (r := (b.clear.bSeek k, (b.clear.bSeek k).valid)) hg rfl,
            hr, ha, hst, by rw [he]; exact hend⟩
          show (b.clear.bSeek k).rest = _
          rw [hrest, hrange]
          simp only [BIter.allR, hrev, if_true, hend]
          rfl
      | none =>
        have hsk : b.seek k = (b.clear.bSeek k, (b.clear.bSeek k).valid) := by
          have : b.seekTarget k = b.clear.bSeek k := by
            simp only [BIter.seekTarget, hrev, if_true, hend]
          rw [BIter.seek_of_target hc1, this]
        obtain ⟨hg, _, hrest⟩ := BIter.bSeek_rev_walk (it := b.clear) hrev hcl hs hk'
          (by show belowUpper b.end_ k = true; rw [hend]; rfl)
        obtain ⟨hr, ha, hst, he⟩ := BIter.bSeek_fields b.clear k
        rw [hsk]
        refine ⟨hg, ?_, BIter.obs_of_rest (r := (b.clear.bSeek k, (b.clear.bSeek k).valid)) hg rfl,
          hr, ha, hst, by rw [he]; exact hend⟩
        show (b.clear.bSeek k).rest = _
        rw [hrest, hrange]
        simp only [BIter.allR, hrev, if_true, hend]
        rfl
  · have hrev' : b.reverse = false := by simpa using hrev
    have hc1 : (b.reverse && k.isEmpty) = false := by simp [hrev']
    by_cases hks : blt k b.start = true
    · have hsk : b.seek k = (b.clear.bSeek b.start, (b.clear.bSeek b.start).valid) := by
        simp [BIter.seek, hc1, hrev', hks]
      obtain ⟨hg, _, hrest⟩ := BIter.bSeek_fwd_walk (it := b.clear) (k' := b.start) hrev' hcl hs (ble_refl _)
      obtain ⟨hr, ha, hst, he⟩ := BIter.bSeek_fields b.clear b.start
      rw [hsk]
      refine ⟨hg, ?_, BIter.obs_of_rest (r := (b.clear.bSeek b.start, (b.clear.bSeek b.start).valid)) hg rfl,
        hr, ha, hst, he⟩
      show (b.clear.bSeek b.start).rest = _
      rw [hrest, hrange, range_dropWhile_below _ (ble_refl _)]
      simp only [BIter.allR, hrev', Bool.false_eq_true, if_false]
      show range b.all b.start b.end_ = List.dropWhile (fun e => blt e.1 k) (range b.all b.start b.end_)
      rw [range_dropWhile_below _ (ble_of_blt hks)]
    · have hsk : b.seek k = (b.clear.bSeek k, (b.clear.bSeek k).valid) := by
        simp [BIter.seek, hc1, hrev', hks]
      have hle : ble b.start k = true := by simpa [ble] using hks
      obtain ⟨hg, _, hrest⟩ := BIter.bSeek_fwd_walk (it := b.clear) (k' := k) hrev' hcl hs hle
      obtain ⟨hr, ha, hst, he⟩ := BIter.bSeek_fields b.clear k
      rw [hsk]
      refine ⟨hg, ?_, BIter.obs_of_rest (r := (b.clear.bSeek k, (b.clear.bSeek k).valid)) hg rfl,
        hr, ha, hst, he⟩
      show (b.clear.bSeek k).rest = _
      rw [hrest, hrange]
      simp only [BIter.allR, hrev', Bool.false_eq_true, if_false]
      rfl

/-! ### simulation -/

structure Sim (b : BIter) (i : Iter) : Prop where
  sorted : Sorted b.all
  nokey : ∀ e ∈ b.all, e.1 ≠ []
  wf : i.WF
  rev : b.reverse = i.reverse
  all : b.allR = i.all
  state : (b.fresh = true ∧ b.done = false ∧ i.pos = .soi)
        ∨ (b.Good ∧ i.Settled ∧ b.rest = i.rest)

theorem allR_congr {b b' : BIter} (hr : b'.reverse = b.reverse) (ha : b'.all = b.all)
    (hs : b'.start = b.start) (he : b'.end_ = b.end_) : b'.allR = b.allR := by
  unfold BIter.allR; rw [hr, ha, hs, he]

theorem all_congr {i i' : Iter} (hr : i'.reverse = i.reverse) (he : i'.ents = i.ents) : i'.all = i.all := by
  unfold Iter.all; rw [hr, he]

theorem Sim.rewind {b : BIter} {i : Iter} (h : Sim b i) :
    BIter.obs b.rewind = Iter.obs i.rewind ∧ Sim b.rewind.1 i.rewind.1 := by
  obtain ⟨hg, hrest, hobs, hr, ha, hs, he⟩ := BIter.rewind_step h.sorted
  obtain ⟨hw, hset, hirest, hir, hie, hiobs⟩ := Iter.rewind_step h.wf
  have hre : b.rewind.1.rest = i.rewind.1.rest := by rw [hrest, hirest, h.all]
  refine ⟨by rw [hobs, hiobs, hre], ?_⟩
  exact ⟨by rw [ha]; exact h.sorted, by rw [ha]; exact h.nokey, hw, by rw [hr, hir]; exact h.rev,
    by rw [allR_congr hr ha hs he, all_congr hir hie]; exact h.all, Or.inr ⟨hg, hset, hre⟩⟩

theorem Sim.seek {b : BIter} {i : Iter} (h : Sim b i) (k : Bytes) :
    BIter.obs (b.seek k) = Iter.obs (i.seek k) ∧ Sim (b.seek k).1 (i.seek k).1 := by
  obtain ⟨hg, hrest, hobs, hr, ha, hs, he⟩ := BIter.seek_step h.sorted h.nokey k
  obtain ⟨hw, hset, hirest, hir, hie, hiobs⟩ := Iter.seek_step h.wf k
  have hre : (b.seek k).1.rest = (i.seek k).1.rest := by rw [hrest, hirest, h.all, h.rev]
  refine ⟨by rw [hobs, hiobs, hre], ?_⟩
  exact ⟨by rw [ha]; exact h.sorted, by rw [ha]; exact h.nokey, hw, by rw [hr, hir]; exact h.rev,
    by rw [allR_congr hr ha hs he, all_congr hir hie]; exact h.all, Or.inr ⟨hg, hset, hre⟩⟩

theorem Sim.next {b : BIter} {i : Iter} (h : Sim b i) :
    BIter.obs b.next = Iter.obs i.next ∧ Sim b.next.1 i.next.1 := by
  rcases h.state with ⟨hf, hd, hp⟩ | ⟨hg, hset, hre⟩
  · -- first call on a fresh iterator
    by_cases hrev : b.reverse = true
    · -- reverse: nothing is found, on both machines
      have hirev : i.reverse = true := by rw [← h.rev]; exact hrev
      have hbn : b.next = ({ b with fresh := false, done := true }, false) := by
        simp [BIter.next, hf, hrev]
      have hin : i.next.1 = i := by simp [Iter.next, hirev, Iter.uPrev, hp]
      have hw : i.next.1.WF := by rw [hin]; exact h.wf
      have hiret : i.next.2 = i.next.1.valid := by
        have : i.next.2 = (i.next.1.uValid && i.next.1.valid) := rfl
        rw [this, Iter.and_valid hw]
      have hirest : i.next.1.rest = [] := by
        rw [hin]; exact Iter.rest_nil_of_not_on (by intro j; rw [hp]; exact fun h => nomatch h)
      have hg : ({ b with fresh := false, done := true } : BIter).Good :=
        { notFresh := rfl, pos := fun h => Bool.noConfusion h, mono := fun h => Bool.noConfusion h }
      have hbrest : ({ b with fresh := false, done := true } : BIter).rest = [] := by simp [BIter.rest]
      have hbobs : BIter.obs b.next = obsOf [] := by
        rw [hbn, ← hbrest]
        exact BIter.obs_of_rest (r := ({ b with fresh := false, done := true }, false)) hg
          (BIter.valid_done (b := { b with fresh := false, done := true }) rfl).symm
      refine ⟨by rw [hbobs, Iter.obs_of_rest hw hiret, hirest], ?_⟩
      rw [hbn]
      refine ⟨h.sorted, h.nokey, hw, by rw [hin]; exact h.rev, by rw [hin]; exact h.all, Or.inr ⟨hg, ?_, ?_⟩⟩
      · rw [hin]
        constructor
        · intro hf'
          rw [hirev] at hf'; cases hf'
        · intro _ hp'
          rw [hp] at hp'; cases hp'
      · rw [hbrest, hirest]
    · -- forward: the first Next is Rewind, on both machines
      have hrev' : b.reverse = false := by simpa using hrev
      have hirev : i.reverse = false := by rw [← h.rev]; exact hrev'
      have hbn : b.next = b.rewind := by simp [BIter.next, hf, hrev']
      have hin : i.next = i.rewind := by simp [Iter.next, Iter.rewind, hirev, Iter.uNext, hp]
      rw [hbn, hin]
      exact h.rewind
  · obtain ⟨hg', hrest, hobs, hr, ha, hs, he⟩ := BIter.next_step hg
    obtain ⟨hw, hset', hirest, hir, hie, hiobs⟩ := Iter.next_step h.wf hset
    have hre' : b.next.1.rest = i.next.1.rest := by rw [hrest, hirest, hre]
    refine ⟨by rw [hobs, hiobs, hre'], ?_⟩
    exact ⟨by rw [ha]; exact h.sorted, by rw [ha]; exact h.nokey, hw, by rw [hr, hir]; exact h.rev,
      by rw [allR_congr hr ha hs he, all_congr hir hie]; exact h.all, Or.inr ⟨hg', hset', hre'⟩⟩

theorem Sim.session {b : BIter} {i : Iter} (h : Sim b i) (steps : List IStep) :
    b.session steps = i.session steps := by
  induction steps generalizing b i with
  | nil => rfl
  | cons st rest ih =>
    have hstep : BIter.obs (b.step st) = Iter.obs (i.step st) ∧ Sim (b.step st).1 (i.step st).1 := by
      cases st with
      | rewind => exact h.rewind
      | seek k => exact h.seek k
      | next => exact h.next
    simp only [BIter.session, Iter.session]
    rw [hstep.1, ih hstep.2]

theorem Sim.init {m : Map} (hs : Sorted m) (hne : ∀ e ∈ m, e.1 ≠ []) (start : Bytes) (end_ : Option Bytes)
    (rev : Bool) : Sim (BIter.mk' m start end_ rev) (Iter.mk' m start end_ rev) where
  sorted := hs
  nokey := hne
  wf := Iter.wf_mk' hs start end_ rev
  rev := rfl
  all := by cases rev <;> simp [BIter.allR, BIter.mk', Iter.all, Iter.mk']
  state := Or.inl ⟨rfl, rfl, rfl⟩

/-! ### well-formedness is preserved by every call (no side condition) -/

theorem Iter.next_wf {it : Iter} (h : it.WF) : it.next.1.WF := by
  cases hp : it.pos with
  | on i =>
    obtain ⟨hr, _⟩ : it.rest = it.ents[i]'(Iter.pos_lt h hp) :: _ ∧ True :=
      ⟨Iter.rest_eq_cons hp (Iter.pos_lt h hp), trivial⟩
    exact (Iter.next_rest h hr).1
  | soi =>
    by_cases hrev : it.reverse = true
    · have : it.next.1 = it := by simp [Iter.next, hrev, Iter.uPrev, hp]
      rw [this]; exact h
    · have hrev' : it.reverse = false := by simpa using hrev
      have : it.next.1 = it.rewind.1 := by simp [Iter.next, Iter.rewind, hrev', Iter.uNext, hp]
      rw [this]; exact (Iter.rewind_rest h).1
  | eoi =>
    by_cases hrev : it.reverse = true
    · have : it.next.1 = it.rewind.1 := by simp [Iter.next, Iter.rewind, hrev, Iter.uPrev, hp]
      rw [this]; exact (Iter.rewind_rest h).1
    · have hrev' : it.reverse = false := by simpa using hrev
      have : it.next.1 = it := by simp [Iter.next, hrev', Iter.uNext, hp]
      rw [this]; exact h

theorem Iter.step_wf {it : Iter} (h : it.WF) (st : IStep) : (it.step st).1.WF := by
  cases st with
  | rewind => exact (Iter.rewind_rest h).1
  | seek k => exact (Iter.seek_rest h k).1
  | next => exact Iter.next_wf h

theorem Iter.steps_wf {it : Iter} (h : it.WF) (steps : List IStep) :
    (steps.foldl (fun (i : Iter) st => (i.step st).1) it).WF := by
  induction steps generalizing it with
  | nil => exact h
  | cons st rest ih => exact ih (Iter.step_wf h st)

end C06
