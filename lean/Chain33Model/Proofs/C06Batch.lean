import Chain33Model.Proofs.C06Map
/-!
The batch wrappers (`memBatch`, `goLevelDBBatch`, `GoBadgerDBBatch`; model `C06.Batch`) refine
the specification `applyBatch`.
-/
namespace C06

/-- the value a `Set(k, v)` call stores: a nil slice is stored as the empty value. -/
def storedValue : Option Bytes → Bytes
  | some v => v
  | none => []

/-- the specification-level meaning of a sequence of `Batch` calls: `Reset` forgets what was
buffered, `Set(k, v)` is a write of `storedValue v` (never a delete), `Delete(k)` a delete. -/
def callsToOps (calls : List BCall) : List BOp :=
  calls.foldl (fun acc c =>
    match c with
    | .set k v => acc ++ [BOp.set k (storedValue v)]
    | .delete k => acc ++ [BOp.del k]
    | .reset => []) []

def callStep (acc : List BOp) : BCall → List BOp
  | .set k v => acc ++ [BOp.set k (storedValue v)]
  | .delete k => acc ++ [BOp.del k]
  | .reset => []

theorem callsToOps_eq (calls : List BCall) : callsToOps calls = calls.foldl callStep [] := by
  unfold callsToOps
  congr 1

theorem toBOps_call (b : Batch) (c : BCall) : (b.call c).toBOps = callStep b.toBOps c := by
  cases c with
  | set k v =>
    cases v <;> simp [Batch.call, Batch.set, Batch.toBOps, callStep, cloneByte, storedValue]
  | delete k => simp [Batch.call, Batch.delete, Batch.toBOps, callStep]
  | reset => simp [Batch.call, Batch.reset, Batch.toBOps, callStep]

theorem toBOps_calls (b : Batch) (calls : List BCall) :
    (calls.foldl Batch.call b).toBOps = calls.foldl callStep b.toBOps := by
  induction calls generalizing b with
  | nil => rfl
  | cons c cs ih => simp only [List.foldl_cons]; rw [ih, toBOps_call]

/-- writing a batch applies exactly its buffered writes, in order. -/
theorem Batch.write_state (b : Batch) (m : Map) : (b.write m).1 = applyBatch m b.toBOps := by
  unfold Batch.write Batch.toBOps applyBatch
  rw [List.foldl_map]
  generalize b.writes = ws
  suffices h : ∀ (acc : Map × Bool),
      (ws.foldl (fun (acc : Map × Bool) (kv : Bytes × Option Bytes) =>
        match kv.2 with
        | none => dbDelete acc.1 kv.1
        | some v => dbSet acc.1 kv.1 (some v)) acc).1
      = ws.foldl (fun (acc : Map) (kv : Bytes × Option Bytes) =>
          applyOp acc (match kv.2 with
                       | none => BOp.del kv.1
                       | some v => BOp.set kv.1 v)) acc.1 from h (m, false)
  induction ws with
  | nil => intro acc; rfl
  | cons kv ws ih =>
    intro acc
    simp only [List.foldl_cons]
    rw [ih]
    congr 1
    obtain ⟨k, v⟩ := kv
    cases v <;> rfl

theorem Batch.write_snoc (ws : List (Bytes × Option Bytes)) (kv : Bytes × Option Bytes) (sz ln : Nat) (m : Map) :
    ({ writes := ws ++ [kv], size := sz, len := ln } : Batch).write m
      = (match kv.2 with
         | none => dbDelete (({ writes := ws } : Batch).write m).1 kv.1
         | some v => dbSet (({ writes := ws } : Batch).write m).1 kv.1 (some v)) := by
  unfold Batch.write
  simp only [List.foldl_append, List.foldl_cons, List.foldl_nil]
  obtain ⟨k, v⟩ := kv
  cases v <;> rfl

/-- the error `Write` returns on GoMemDB: that of the *last* buffered write only. -/
theorem Batch.write_error (ws : List (Bytes × Option Bytes)) (kv : Bytes × Option Bytes) (sz ln : Nat) (m : Map) :
    (({ writes := ws ++ [kv], size := sz, len := ln } : Batch).write m).2
      = (match kv.2 with
         | none => (get (applyBatch m ({ writes := ws } : Batch).toBOps) kv.1).isNone
         | some _ => false) := by
  rw [Batch.write_snoc]
  obtain ⟨k, v⟩ := kv
  cases v with
  | none =>
    show (get (({ writes := ws } : Batch).write m).1 k).isNone = _
    rw [Batch.write_state]
  | some v => rfl

def callSize : BCall → Nat
  | .set k v => goLen v + k.length
  | .delete k => k.length
  | .reset => 0

def callLen : BCall → Nat
  | .set _ v => goLen v
  | .delete _ => 1
  | .reset => 0

/-- `ValueSize` / `ValueLen` of a batch built without `Reset`. -/
theorem counters_noReset (b : Batch) (calls : List BCall) (h : ∀ c ∈ calls, c ≠ .reset) :
    (calls.foldl Batch.call b).size = b.size + (calls.map callSize).sum
    ∧ (calls.foldl Batch.call b).len = b.len + (calls.map callLen).sum := by
  induction calls generalizing b with
  | nil => simp
  | cons c cs ih =>
    have hc := h c (by simp)
    obtain ⟨h1, h2⟩ := ih (b.call c) (fun c' hc' => h c' (by simp [hc']))
    simp only [List.foldl_cons, List.map_cons, List.sum_cons]
    rw [h1, h2]
    cases c with
    | set k v => simp [Batch.call, Batch.set, callSize, callLen]; omega
    | delete k => simp [Batch.call, Batch.delete, callSize, callLen]; omega
    | reset => exact absurd rfl hc

/-- `Reset` forgets everything buffered so far (writes and counters). -/
theorem calls_after_reset (b : Batch) (pre post : List BCall) :
    (pre ++ BCall.reset :: post).foldl Batch.call b = post.foldl Batch.call {} := by
  simp [List.foldl_append, Batch.call, Batch.reset]

end C06
