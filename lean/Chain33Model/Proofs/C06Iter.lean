import Chain33Model.Proofs.C06Map
/-!
The `goLevelDBIt` machine (`C06.Iter`) as a cursor over the sorted list of in-range entries:
`Iter.rest` = entries still to be visited (current first, iteration order).
-/
namespace C06

/-- well-formedness: sorted in-range snapshot, every entry passes `checkKey`, position in range. -/
def Iter.WF (it : Iter) : Prop :=
  Sorted it.ents ∧ (∀ e ∈ it.ents, checkKey it.start it.end_ e.1 = true) ∧
  (match it.pos with
   | .on i => i < it.ents.length
   | _ => True)

/-- entries still to be visited, current one first, in iteration order. -/
def Iter.rest (it : Iter) : List Entry :=
  match it.pos with
  | .on i => if it.reverse then (it.ents.take (i + 1)).reverse else it.ents.drop i
  | _ => []

/-- all entries in iteration order. -/
def Iter.all (it : Iter) : List Entry := if it.reverse then it.ents.reverse else it.ents

theorem checkKey_of_inRange {lo k : Bytes} {hi : Option Bytes} (h : inRange lo hi k = true) :
    checkKey lo hi k = true := by
  simp only [inRange, Bool.and_eq_true] at h
  simp only [checkKey, Bool.and_eq_true]
  refine ⟨h.1, ?_⟩
  cases hi with
  | none => rfl
  | some e => exact ble_of_blt (by simpa [belowUpper] using h.2)

theorem Iter.wf_mk' {m : Map} (hs : Sorted m) (start : Bytes) (end_ : Option Bytes) (rev : Bool) :
    (Iter.mk' m start end_ rev).WF := by
  refine ⟨sorted_range _ _ hs, ?_, trivial⟩
  intro e he
  exact checkKey_of_inRange (mem_range.mp he).2

theorem Iter.cur_on {it : Iter} {i : Nat} (hp : it.pos = .on i) (hi : i < it.ents.length) :
    it.cur = some it.ents[i] := by
  simp [Iter.cur, hp, List.getElem?_eq_getElem hi]

theorem Iter.cur_not_on {it : Iter} (hp : ∀ i, it.pos ≠ .on i) : it.cur = none := by
  unfold Iter.cur
  cases h : it.pos with
  | on i => exact absurd h (hp i)
  | soi => rfl
  | eoi => rfl

/-- with the exclusive underlying limit, `checkKey` never rejects: `Valid` = underlying `Valid`. -/
theorem Iter.valid_eq_uValid {it : Iter} (h : it.WF) : it.valid = it.uValid := by
  unfold Iter.valid Iter.uValid
  cases hc : it.cur with
  | none => rfl
  | some e =>
    have : e ∈ it.ents := by
      unfold Iter.cur at hc
      cases hp : it.pos with
      | on i =>
        rw [hp] at hc
        exact List.mem_of_getElem? hc
      | soi => rw [hp] at hc; cases hc
      | eoi => rw [hp] at hc; cases hc
    simp [h.2.1 e this]

theorem Iter.pos_lt {it : Iter} (h : it.WF) {i : Nat} (hp : it.pos = .on i) : i < it.ents.length := by
  have := h.2.2; rw [hp] at this; exact this

theorem Iter.rest_eq_cons {it : Iter} {i : Nat} (hp : it.pos = .on i) (hi : i < it.ents.length) :
    it.rest = it.ents[i] ::
      (if it.reverse then (it.ents.take i).reverse else it.ents.drop (i + 1)) := by
  unfold Iter.rest
  rw [hp]
  by_cases hr : it.reverse = true
  · simp only [hr, if_true]
    rw [List.take_succ_eq_append_getElem hi, List.reverse_append]
    rfl
  · simp only [hr, if_false, Bool.false_eq_true]
    exact List.drop_eq_getElem_cons hi

theorem Iter.rest_nil_of_not_on {it : Iter} (hp : ∀ i, it.pos ≠ .on i) : it.rest = [] := by
  unfold Iter.rest
  cases h : it.pos with
  | on i => exact absurd h (hp i)
  | soi => rfl
  | eoi => rfl

theorem Iter.valid_iff_rest {it : Iter} (h : it.WF) : it.valid = true ↔ it.rest ≠ [] := by
  rw [Iter.valid_eq_uValid h]
  unfold Iter.uValid
  cases hp : it.pos with
  | on i =>
    have hi : i < it.ents.length := Iter.pos_lt h hp
    rw [Iter.cur_on hp hi, Iter.rest_eq_cons hp hi]
    simp
  | soi =>
    rw [Iter.cur_not_on (by intro i; rw [hp]; exact fun h => nomatch h),
        Iter.rest_nil_of_not_on (by intro i; rw [hp]; exact fun h => nomatch h)]
    simp
  | eoi =>
    rw [Iter.cur_not_on (by intro i; rw [hp]; exact fun h => nomatch h),
        Iter.rest_nil_of_not_on (by intro i; rw [hp]; exact fun h => nomatch h)]
    simp

theorem Iter.head_of_rest {it : Iter} (h : it.WF) {e : Entry} {r : List Entry} (hr : it.rest = e :: r) :
    it.key = e.1 ∧ it.value = e.2 ∧ it.cur = some e := by
  cases hp : it.pos with
  | on i =>
    have hi : i < it.ents.length := Iter.pos_lt h hp
    rw [Iter.rest_eq_cons hp hi] at hr
    have he : it.ents[i] = e := (List.cons.inj hr).1
    simp [Iter.key, Iter.value, Iter.cur_on hp hi, he]
  | soi =>
    rw [Iter.rest_nil_of_not_on (by intro i; rw [hp]; exact fun h => nomatch h)] at hr; cases hr
  | eoi =>
    rw [Iter.rest_nil_of_not_on (by intro i; rw [hp]; exact fun h => nomatch h)] at hr; cases hr

/-- one `Next` drops the current entry. -/
theorem Iter.next_rest {it : Iter} (h : it.WF) {e : Entry} {r : List Entry} (hr : it.rest = e :: r) :
    (it.next.1).WF ∧ (it.next.1).rest = r ∧ (it.next.1).reverse = it.reverse
      ∧ (it.next.1).ents = it.ents := by
  cases hp : it.pos with
  | soi =>
    rw [Iter.rest_nil_of_not_on (by intro i; rw [hp]; exact fun h => nomatch h)] at hr; cases hr
  | eoi =>
    rw [Iter.rest_nil_of_not_on (by intro i; rw [hp]; exact fun h => nomatch h)] at hr; cases hr
  | on i =>
    have hi : i < it.ents.length := Iter.pos_lt h hp
    rw [Iter.rest_eq_cons hp hi] at hr
    have hr' := (List.cons.inj hr).2
    by_cases hrev : it.reverse = true
    · simp only [hrev, if_true] at hr'
      cases i with
      | zero =>
        have : it.next.1 = { it with pos := .soi } := by
          simp [Iter.next, hrev, Iter.uPrev, hp]
        rw [this]
        refine ⟨⟨h.1, h.2.1, trivial⟩, ?_, rfl, rfl⟩
        simp [Iter.rest] at hr' ⊢
        exact hr'
      | succ j =>
        have : it.next.1 = { it with pos := .on j } := by
          simp [Iter.next, hrev, Iter.uPrev, hp]
        rw [this]
        refine ⟨⟨h.1, h.2.1, by show j < it.ents.length; omega⟩, ?_, rfl, rfl⟩
        simp only [Iter.rest, hrev, if_true]
        exact hr'
    · have hrev' : it.reverse = false := by simpa using hrev
      simp only [hrev', Bool.false_eq_true, if_false] at hr'
      by_cases hlt : i + 1 < it.ents.length
      · have : it.next.1 = { it with pos := .on (i + 1) } := by
          simp [Iter.next, hrev', Iter.uNext, hp, hlt]
        rw [this]
        refine ⟨⟨h.1, h.2.1, hlt⟩, ?_, rfl, rfl⟩
        simp only [Iter.rest, hrev', Bool.false_eq_true, if_false]
        exact hr'
      · have : it.next.1 = { it with pos := .eoi } := by
          simp [Iter.next, hrev', Iter.uNext, hp, hlt]
        rw [this]
        refine ⟨⟨h.1, h.2.1, trivial⟩, ?_, rfl, rfl⟩
        simp only [Iter.rest]
        rw [← hr', List.drop_eq_nil_of_le (by omega)]

/-! #### rewind -/

theorem Iter.rewind_rest {it : Iter} (h : it.WF) :
    (it.rewind.1).WF ∧ (it.rewind.1).rest = it.all ∧ (it.rewind.1).reverse = it.reverse
      ∧ (it.rewind.1).ents = it.ents := by
  by_cases hrev : it.reverse = true
  · cases hl : it.ents.length with
    | zero =>
      have he : it.ents = [] := List.length_eq_zero_iff.mp hl
      have : it.rewind.1 = { it with pos := .soi } := by
        simp [Iter.rewind, hrev, Iter.uLast, hl]
      rw [this]
      refine ⟨⟨h.1, h.2.1, trivial⟩, ?_, rfl, rfl⟩
      simp [Iter.rest, Iter.all, he]
    | succ n =>
      have : it.rewind.1 = { it with pos := .on n } := by
        simp [Iter.rewind, hrev, Iter.uLast, hl]
      rw [this]
      refine ⟨⟨h.1, h.2.1, by show n < it.ents.length; omega⟩, ?_, rfl, rfl⟩
      simp only [Iter.rest, Iter.all, hrev, if_true]
      rw [List.take_of_length_le (by omega)]
  · have hrev' : it.reverse = false := by simpa using hrev
    cases hl : it.ents.length with
    | zero =>
      have he : it.ents = [] := List.length_eq_zero_iff.mp hl
      have : it.rewind.1 = { it with pos := .eoi } := by
        simp [Iter.rewind, hrev', Iter.uFirst, he]
      rw [this]
      refine ⟨⟨h.1, h.2.1, trivial⟩, ?_, rfl, rfl⟩
      simp [Iter.rest, Iter.all, he, hrev']
    | succ n =>
      have hne : it.ents.isEmpty = false := by
        cases he : it.ents with
        | nil => rw [he] at hl; simp at hl
        | cons e es => rfl
      have : it.rewind.1 = { it with pos := .on 0 } := by
        simp [Iter.rewind, hrev', Iter.uFirst, hne]
      rw [this]
      refine ⟨⟨h.1, h.2.1, by show 0 < it.ents.length; omega⟩, ?_, rfl, rfl⟩
      simp [Iter.rest, Iter.all, hrev']

/-! #### seek -/

theorem findGE_split (ents : List Entry) (k : Bytes) :
    ∃ A B, ents = A ++ B ∧ A.length = findGE ents k ∧ (∀ e ∈ A, blt e.1 k = true) ∧
      (∀ b B', B = b :: B' → blt b.1 k = false) := by
  induction ents with
  | nil => exact ⟨[], [], rfl, rfl, by simp, by simp⟩
  | cons e es ih =>
    by_cases hlt : blt e.1 k = true
    · obtain ⟨A, B, h1, h2, h3, h4⟩ := ih
      refine ⟨e :: A, B, by simp [h1], by simp [findGE, hlt, h2], ?_, h4⟩
      intro e' he'
      rcases List.mem_cons.mp he' with rfl | he'
      · exact hlt
      · exact h3 e' he'
    · refine ⟨[], e :: es, rfl, by simp [findGE, hlt], by simp, ?_⟩
      intro b B' hb
      cases hb
      simpa using hlt

theorem dropWhile_append_of_forall {p : Entry → Bool} {A B : List Entry} (h : ∀ e ∈ A, p e = true) :
    (A ++ B).dropWhile p = B.dropWhile p := by
  induction A with
  | nil => rfl
  | cons a A ih =>
    simp only [List.cons_append, List.dropWhile_cons, h a (by simp), if_true]
    exact ih (fun e he => h e (by simp [he]))

theorem dropWhile_eq_self_of_head {p : Entry → Bool} {A : List Entry}
    (h : ∀ a A', A = a :: A' → p a = false) : A.dropWhile p = A := by
  cases A with
  | nil => rfl
  | cons a A' => simp [List.dropWhile_cons, h a A' rfl]

/-- `Seek(k)` positions on the first entry, in iteration order, that is not strictly before `k`:
forward the least key ≥ `k`, reverse the greatest key ≤ `k`. -/
theorem Iter.seek_rest {it : Iter} (h : it.WF) (k : Bytes) :
    ((it.seek k).1).WF ∧ ((it.seek k).1).rest = it.all.dropWhile (before it.reverse k)
      ∧ ((it.seek k).1).reverse = it.reverse ∧ ((it.seek k).1).ents = it.ents := by
  obtain ⟨A, B, hAB, hlen, hA, hB⟩ := findGE_split it.ents k
  have hsorted : Sorted (A ++ B) := hAB ▸ h.1
  by_cases hrev : it.reverse = true
  · -- reverse
    cases B with
    | nil =>
      -- every entry is < k: EOI, then step back to the last entry (unless k = [])
      have hents : it.ents = A := by simpa using hAB
      have hi : ¬ findGE it.ents k < it.ents.length := by rw [← hlen, hents]; omega
      have h1 : it.uSeek k = { it with pos := .eoi } := by simp [Iter.uSeek, hi]
      have hkey : (it.uSeek k).key = [] := by rw [h1]; simp [Iter.key, Iter.cur]
      have hspec : it.all.dropWhile (before it.reverse k) = it.ents.reverse := by
        simp only [Iter.all, hrev, if_true]
        apply dropWhile_eq_self_of_head
        intro a A' ha
        have : a ∈ A := by
          have : a ∈ it.ents.reverse := by rw [ha]; simp
          rw [hents] at this; exact List.mem_reverse.mp this
        simp [before, blt_asymm (hA a this)]
      by_cases hk : k = []
      · subst hk
        have hA' : A = [] := by
          cases A with
          | nil => rfl
          | cons a A' => have := hA a (by simp); simp at this
        have : (it.seek []).1 = { it with pos := .eoi } := by
          rw [← h1]
          simp only [Iter.seek, hrev, Bool.true_and]
          rw [hkey]; simp
        rw [this, hspec]
        refine ⟨⟨h.1, h.2.1, trivial⟩, ?_, rfl, rfl⟩
        simp [Iter.rest, hents, hA']
      · have hne : ((it.uSeek k).key != k) = true := by
          rw [hkey]; exact bne_iff_ne.mpr (Ne.symm hk)
        have hseek : (it.seek k).1 = (it.uSeek k).uPrev := by
          simp [Iter.seek, hrev, hne]
        rw [hseek, h1, hspec]
        have := Iter.rewind_rest h
        have hrw : it.rewind.1 = it.uLast := by simp [Iter.rewind, hrev]
        have hall : it.all = it.ents.reverse := by simp [Iter.all, hrev]
        rw [hrw, hall] at this
        have hu : ({ it with pos := Pos.eoi } : Iter).uPrev = it.uLast := by
          simp [Iter.uPrev, Iter.uLast]
        rw [hu]
        exact this
    | cons b B' =>
      have hbk : blt b.1 k = false := hB b B' rfl
      have hlenlt : findGE it.ents k < it.ents.length := by
        rw [← hlen, hAB]; simp
      have h1 : it.uSeek k = { it with pos := .on A.length } := by
        simp [Iter.uSeek, hlenlt, hlen]
      have hwf1 : (it.uSeek k).WF := by
        rw [h1]; exact ⟨h.1, h.2.1, by show A.length < it.ents.length; rw [hlen]; exact hlenlt⟩
      have htake : it.ents.take (A.length + 1) = A ++ [b] := by
        rw [hAB, show A ++ b :: B' = (A ++ [b]) ++ B' by simp]
        exact List.take_left' (by simp)
      have hrest1 : (it.uSeek k).rest = b :: A.reverse := by
        rw [h1]; simp only [Iter.rest, hrev, if_true]
        rw [htake]; simp
      have hkey : (it.uSeek k).key = b.1 := (Iter.head_of_rest hwf1 hrest1).1
      have hgt : ∀ e ∈ B', blt b.1 e.1 = true := by
        have := (List.pairwise_append.mp hsorted).2.1
        exact (sorted_cons.mp this).1
      have hAlt : ∀ a ∈ A, blt k a.1 = false := fun a ha => blt_asymm (hA a ha)
      have hall : it.all = B'.reverse ++ (b :: A.reverse) := by
        simp [Iter.all, hrev, hAB]
      by_cases hk : b.1 = k
      · -- lands exactly on k
        have hne : ((it.uSeek k).key != k) = false := by rw [hkey]; simp [hk]
        have hseek : (it.seek k).1 = it.uSeek k := by simp [Iter.seek, hrev, hne]
        rw [hseek]
        refine ⟨hwf1, ?_, by rw [h1], by rw [h1]⟩
        rw [hrest1, hall, dropWhile_append_of_forall]
        · rw [List.dropWhile_cons_of_neg]
          simp [before, hrev, ← hk, blt_irrefl]
        · intro e he
          have := hgt e (List.mem_reverse.mp he)
          simp [before, hrev, ← hk, this]
      · have hkb : blt k b.1 = true := by
          rcases trichotomy k b.1 with h' | h' | h'
          · exact h'
          · exact absurd h'.symm hk
          · rw [h'] at hbk; cases hbk
        have hne : ((it.uSeek k).key != k) = true := by rw [hkey]; simp [hk]
        have hseek : (it.seek k).1 = (it.uSeek k).uPrev := by simp [Iter.seek, hrev, hne]
        have hspec : it.all.dropWhile (before it.reverse k) = A.reverse := by
          rw [hall, dropWhile_append_of_forall]
          · rw [List.dropWhile_cons, if_pos (by simp [before, hrev, hkb])]
            apply dropWhile_eq_self_of_head
            intro a A' ha
            have : a ∈ A := by
              have : a ∈ A.reverse := by rw [ha]; simp
              exact List.mem_reverse.mp this
            simp [before, hrev, hAlt a this]
          · intro e he
            have := blt_trans hkb (hgt e (List.mem_reverse.mp he))
            simp [before, hrev, this]
        rw [hseek, h1, hspec]
        cases hA' : A with
        | nil =>
          have : ({ it with pos := Pos.on ([] : List Entry).length } : Iter).uPrev = { it with pos := .soi } := by
            simp [Iter.uPrev]
          rw [this]
          refine ⟨⟨h.1, h.2.1, trivial⟩, ?_, rfl, rfl⟩
          simp [Iter.rest]
        | cons a A'' =>
          have : ({ it with pos := Pos.on (a :: A'').length } : Iter).uPrev = { it with pos := .on A''.length } := by
            simp [Iter.uPrev]
          rw [this]
          refine ⟨⟨h.1, h.2.1, ?_⟩, ?_, rfl, rfl⟩
          · show A''.length < it.ents.length
            rw [hAB, hA']; simp; omega
          · simp only [Iter.rest, hrev, if_true]
            have : it.ents.take (A''.length + 1) = a :: A'' := by
              rw [hAB, hA']
              exact List.take_left' (by simp)
            rw [this]
  · -- forward
    have hrev' : it.reverse = false := by simpa using hrev
    have hseek : (it.seek k).1 = it.uSeek k := by simp [Iter.seek, hrev']
    have hspec : it.all.dropWhile (before it.reverse k) = B := by
      simp only [Iter.all, hrev', Bool.false_eq_true, if_false]
      rw [hAB, dropWhile_append_of_forall (by intro e he; simp [before, hA e he])]
      apply dropWhile_eq_self_of_head
      intro b B' hb
      simp [before, hB b B' hb]
    rw [hseek, hspec]
    by_cases hlt : findGE it.ents k < it.ents.length
    · have h1 : it.uSeek k = { it with pos := .on A.length } := by
        simp [Iter.uSeek, hlt, hlen]
      rw [h1]
      refine ⟨⟨h.1, h.2.1, by show A.length < it.ents.length; rw [hlen]; exact hlt⟩, ?_, rfl, rfl⟩
      simp only [Iter.rest, hrev', Bool.false_eq_true, if_false]
      rw [hAB]; exact List.drop_left
    · have h1 : it.uSeek k = { it with pos := .eoi } := by simp [Iter.uSeek, hlt]
      rw [h1]
      refine ⟨⟨h.1, h.2.1, trivial⟩, ?_, rfl, rfl⟩
      have : B = [] := by
        have hl : it.ents.length = A.length + B.length := by rw [hAB]; simp
        have : B.length = 0 := by omega
        exact List.length_eq_zero_iff.mp this
      simp [Iter.rest, this]

/-! #### drain -/

theorem Iter.drain_eq_rest {it : Iter} (h : it.WF) {fuel : Nat} (hf : it.rest.length ≤ fuel) :
    Iter.drain fuel it = it.rest := by
  induction fuel generalizing it with
  | zero =>
    have : it.rest = [] := List.length_eq_zero_iff.mp (by omega)
    simp [Iter.drain, this]
  | succ n ih =>
    cases hr : it.rest with
    | nil =>
      have : it.valid = false := by
        cases hv : it.valid with
        | false => rfl
        | true => exact absurd hr ((Iter.valid_iff_rest h).mp hv)
      simp [Iter.drain, this]
    | cons e r =>
      have hv : it.valid = true := (Iter.valid_iff_rest h).mpr (by simp [hr])
      obtain ⟨hk, hvl, _⟩ := Iter.head_of_rest h hr
      obtain ⟨hwf', hr', _, _⟩ := Iter.next_rest h hr
      simp only [Iter.drain, hv, if_true, hk, hvl]
      rw [ih hwf' (by rw [hr']; rw [hr] at hf; simp at hf; omega), hr']

theorem Iter.rest_length_le {it : Iter} : it.rest.length ≤ it.ents.length := by
  unfold Iter.rest
  cases it.pos with
  | on i =>
    by_cases hrev : it.reverse = true
    · simp [hrev, List.length_take]; omega
    · simp [hrev]
  | soi => simp
  | eoi => simp

theorem Iter.scan_eq_all {it : Iter} (h : it.WF) : it.scan = it.all := by
  obtain ⟨hwf, hr, _, he⟩ := Iter.rewind_rest h
  unfold Iter.scan
  rw [Iter.drain_eq_rest hwf, hr]
  have := @Iter.rest_length_le it.rewind.1
  rw [he] at this
  omega

/-! #### landing position in terms of least / greatest -/

theorem mem_takeWhile_imp {p : Entry → Bool} {l : List Entry} {x : Entry} (h : x ∈ l.takeWhile p) : p x = true := by
  induction l with
  | nil => simp at h
  | cons a l ih =>
    by_cases ha : p a = true
    · simp only [List.takeWhile_cons, ha, if_true, List.mem_cons] at h
      rcases h with rfl | h
      · exact ha
      · exact ih h
    · simp [List.takeWhile_cons, ha] at h

/-- the head of `dropWhile p L` is the first element failing `p`; everything failing `p`
is in the remainder; nothing remains iff all satisfy `p`. -/
theorem dropWhile_spec (p : Entry → Bool) (L : List Entry) :
    match L.dropWhile p with
    | x :: r => p x = false ∧ x ∈ L ∧ (∀ y ∈ L, p y = false → y ∈ x :: r) ∧ (x :: r).Sublist L
    | [] => ∀ y ∈ L, p y = true := by
  have hsplit : L.takeWhile p ++ L.dropWhile p = L := List.takeWhile_append_dropWhile
  have hhead := List.head?_dropWhile_not p L
  cases hd : L.dropWhile p with
  | nil =>
    intro y hy
    rw [hd, List.append_nil] at hsplit
    rw [← hsplit] at hy
    exact mem_takeWhile_imp hy
  | cons x r =>
    rw [hd] at hhead
    simp only [List.head?_cons] at hhead
    refine ⟨hhead, ?_, ?_, ?_⟩
    · rw [← hsplit, hd]; simp
    · intro y hy hpy
      rw [← hsplit, hd] at hy
      rcases List.mem_append.mp hy with hy | hy
      · rw [mem_takeWhile_imp hy] at hpy; cases hpy
      · exact hy
    · rw [← hd]; exact List.dropWhile_sublist p

end C06
