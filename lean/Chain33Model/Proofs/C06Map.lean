import Chain33Model.Proofs.C06Order
/-!
Sorted association lists: `get / insert / erase / range`, batches.
-/
namespace C06

/-- strictly ascending keys. -/
def Sorted (m : Map) : Prop := m.Pairwise (fun a b => blt a.1 b.1 = true)

instance (m : Map) : Decidable (Sorted m) := by unfold Sorted; infer_instance

theorem sorted_nil : Sorted [] := List.Pairwise.nil

theorem sorted_cons {e : Entry} {m : Map} :
    Sorted (e :: m) ↔ (∀ e' ∈ m, blt e.1 e'.1 = true) ∧ Sorted m := List.pairwise_cons

theorem Sorted.tail {e : Entry} {m : Map} (h : Sorted (e :: m)) : Sorted m := (sorted_cons.mp h).2

theorem Sorted.filter {m : Map} (p : Entry → Bool) (h : Sorted m) : Sorted (m.filter p) :=
  List.Pairwise.filter p h

/-! #### get / insert -/

theorem trichotomy (a b : Bytes) : blt a b = true ∨ a = b ∨ blt b a = true := by
  cases h₁ : blt a b with
  | true => exact Or.inl rfl
  | false =>
    cases h₂ : blt b a with
    | true => exact Or.inr (Or.inr rfl)
    | false => exact Or.inr (Or.inl (eq_of_not_blt h₁ h₂))

theorem insert_cons_lt {k k' : Bytes} (v v' : Bytes) (m : Map) (h : blt k k' = true) :
    insert ((k', v') :: m) k v = (k, v) :: (k', v') :: m := by
  simp [insert, h]

theorem insert_cons_gt {k k' : Bytes} (v v' : Bytes) (m : Map) (h : blt k' k = true) :
    insert ((k', v') :: m) k v = (k', v') :: insert m k v := by
  simp [insert, h, blt_asymm h]

theorem insert_cons_eq (k v v' : Bytes) (m : Map) :
    insert ((k, v') :: m) k v = (k, v) :: m := by
  simp [insert, blt_irrefl]

theorem get_nil (k : Bytes) : get ([] : Map) k = none := rfl

theorem get_cons (k' v' : Bytes) (m : Map) (k : Bytes) :
    get ((k', v') :: m) k = if k' = k then some v' else get m k := rfl

theorem get_insert_self (m : Map) (k v : Bytes) : get (insert m k v) k = some v := by
  induction m with
  | nil => simp [insert, get]
  | cons e m ih =>
    obtain ⟨k', v'⟩ := e
    rcases trichotomy k k' with h | rfl | h
    · rw [insert_cons_lt _ _ _ h]; simp [get_cons]
    · rw [insert_cons_eq]; simp [get_cons]
    · rw [insert_cons_gt _ _ _ h, get_cons, if_neg (blt_ne h), ih]

theorem get_insert_other (m : Map) {k k₂ : Bytes} (v : Bytes) (h : k ≠ k₂) :
    get (insert m k v) k₂ = get m k₂ := by
  induction m with
  | nil => simp [insert, get, h]
  | cons e m ih =>
    obtain ⟨k', v'⟩ := e
    rcases trichotomy k k' with h' | rfl | h'
    · rw [insert_cons_lt _ _ _ h']; simp [get_cons, h]
    · rw [insert_cons_eq]; simp [get_cons, h]
    · rw [insert_cons_gt _ _ _ h', get_cons, get_cons, ih]

theorem mem_insert_subset {m : Map} {k v : Bytes} {e : Entry} (h : e ∈ insert m k v) :
    e = (k, v) ∨ e ∈ m := by
  induction m with
  | nil => simp [insert] at h; exact Or.inl h
  | cons e₀ m ih =>
    obtain ⟨k', v'⟩ := e₀
    rcases trichotomy k k' with h' | rfl | h'
    · rw [insert_cons_lt _ _ _ h'] at h
      rcases List.mem_cons.mp h with h | h
      · exact Or.inl h
      · exact Or.inr h
    · rw [insert_cons_eq] at h
      rcases List.mem_cons.mp h with h | h
      · exact Or.inl h
      · exact Or.inr (List.mem_cons_of_mem _ h)
    · rw [insert_cons_gt _ _ _ h'] at h
      rcases List.mem_cons.mp h with h | h
      · exact Or.inr (h ▸ List.mem_cons_self)
      · rcases ih h with h | h
        · exact Or.inl h
        · exact Or.inr (List.mem_cons_of_mem _ h)

theorem sorted_insert {m : Map} (k v : Bytes) (hs : Sorted m) : Sorted (insert m k v) := by
  induction m with
  | nil => simp [insert, Sorted]
  | cons e₀ m ih =>
    obtain ⟨k', v'⟩ := e₀
    have ⟨hhd, htl⟩ := sorted_cons.mp hs
    rcases trichotomy k k' with h' | rfl | h'
    · rw [insert_cons_lt _ _ _ h']
      refine sorted_cons.mpr ⟨?_, hs⟩
      intro e' he'
      rcases List.mem_cons.mp he' with rfl | he'
      · exact h'
      · exact blt_trans h' (hhd e' he')
    · rw [insert_cons_eq]
      exact sorted_cons.mpr ⟨hhd, htl⟩
    · rw [insert_cons_gt _ _ _ h']
      refine sorted_cons.mpr ⟨?_, ih htl⟩
      intro e' he'
      rcases mem_insert_subset he' with rfl | he'
      · exact h'
      · exact hhd e' he'

theorem get_eq_none_of_forall_ne {m : Map} {k : Bytes} (h : ∀ e ∈ m, e.1 ≠ k) : get m k = none := by
  induction m with
  | nil => rfl
  | cons e m ih =>
    obtain ⟨k', v'⟩ := e
    have := h (k', v') (by simp)
    simp only [get]
    simp only [ne_eq] at this
    simp only [this, if_false]
    exact ih (fun e he => h e (by simp [he]))

theorem mem_of_get {m : Map} {k v : Bytes} (h : get m k = some v) : (k, v) ∈ m := by
  induction m with
  | nil => simp [get] at h
  | cons e m ih =>
    obtain ⟨k', v'⟩ := e
    simp only [get] at h
    by_cases hk : k' = k
    · subst hk; simp at h; simp [h]
    · simp only [hk, if_false] at h; simp [ih h]

theorem get_of_mem {m : Map} (hs : Sorted m) {k v : Bytes} (h : (k, v) ∈ m) : get m k = some v := by
  induction m with
  | nil => simp at h
  | cons e m ih =>
    obtain ⟨k', v'⟩ := e
    have ⟨hhd, htl⟩ := sorted_cons.mp hs
    simp only [get]
    rcases List.mem_cons.mp h with h | h
    · cases h; simp
    · have : k' ≠ k := blt_ne (hhd _ h)
      simp only [this, if_false]
      exact ih htl h

theorem mem_iff_get {m : Map} (hs : Sorted m) {k v : Bytes} : (k, v) ∈ m ↔ get m k = some v :=
  ⟨get_of_mem hs, mem_of_get⟩

/-! #### erase -/

theorem erase_sublist (m : Map) (k : Bytes) : (erase m k).Sublist m := by
  induction m with
  | nil => simp [erase]
  | cons e m ih =>
    obtain ⟨k', v'⟩ := e
    simp only [erase]
    by_cases hk : k' = k
    · simp [hk]
    · simp only [hk, if_false]; exact ih.cons_cons _

theorem sorted_erase {m : Map} (k : Bytes) (hs : Sorted m) : Sorted (erase m k) :=
  List.Pairwise.sublist (erase_sublist m k) hs

theorem get_erase_self {m : Map} (hs : Sorted m) (k : Bytes) : get (erase m k) k = none := by
  induction m with
  | nil => rfl
  | cons e m ih =>
    obtain ⟨k', v'⟩ := e
    have ⟨hhd, htl⟩ := sorted_cons.mp hs
    simp only [erase]
    by_cases hk : k' = k
    · subst hk
      simp only [if_true]
      exact get_eq_none_of_forall_ne (fun e he => (blt_ne (hhd e he)).symm)
    · simp only [hk, if_false, get]
      exact ih htl

theorem get_erase_other (m : Map) {k k₂ : Bytes} (h : k ≠ k₂) : get (erase m k) k₂ = get m k₂ := by
  induction m with
  | nil => rfl
  | cons e m ih =>
    obtain ⟨k', v'⟩ := e
    simp only [erase]
    by_cases hk : k' = k
    · subst hk; simp [get, h]
    · simp only [hk, if_false, get]; rw [ih]

/-! #### extensionality -/

theorem sorted_ext {a b : Map} (ha : Sorted a) (hb : Sorted b) (h : ∀ k, get a k = get b k) : a = b := by
  induction a generalizing b with
  | nil =>
    cases b with
    | nil => rfl
    | cons e b =>
      obtain ⟨k, v⟩ := e
      have := h k
      simp [get] at this
  | cons e a ih =>
    obtain ⟨k, v⟩ := e
    have ⟨hha, hta⟩ := sorted_cons.mp ha
    cases b with
    | nil => have := h k; simp [get] at this
    | cons e' b =>
      obtain ⟨k', v'⟩ := e'
      have ⟨hhb, htb⟩ := sorted_cons.mp hb
      -- heads have equal keys
      have hk : k = k' := by
        apply eq_of_not_blt
        · -- not k < k': else k absent from b
          cases hlt : blt k k' with
          | false => rfl
          | true =>
            have h1 := h k
            simp only [get, if_true] at h1
            have : k' ≠ k := (blt_ne hlt).symm
            simp only [this, if_false] at h1
            have hnone : get b k = none :=
              get_eq_none_of_forall_ne (fun e he => (blt_ne (blt_trans hlt (hhb e he))).symm)
            rw [hnone] at h1; cases h1
        · cases hlt : blt k' k with
          | false => rfl
          | true =>
            have h1 := h k'
            simp only [get, if_true] at h1
            have : k ≠ k' := (blt_ne hlt).symm
            simp only [this, if_false] at h1
            have hnone : get a k' = none :=
              get_eq_none_of_forall_ne (fun e he => (blt_ne (blt_trans hlt (hha e he))).symm)
            rw [hnone] at h1; cases h1
      subst hk
      have hv : v = v' := by
        have h1 := h k
        simpa [get] using h1
      subst hv
      congr 1
      apply ih hta htb
      intro k₂
      by_cases hk₂ : k = k₂
      · subst hk₂
        rw [get_eq_none_of_forall_ne (fun e he => (blt_ne (hha e he)).symm),
            get_eq_none_of_forall_ne (fun e he => (blt_ne (hhb e he)).symm)]
      · have h1 := h k₂
        simpa [get, hk₂] using h1

/-! #### range -/

theorem mem_range {m : Map} {lo : Bytes} {hi : Option Bytes} {e : Entry} :
    e ∈ range m lo hi ↔ e ∈ m ∧ inRange lo hi e.1 = true := by
  simp [range, List.mem_filter]

theorem sorted_range {m : Map} (lo : Bytes) (hi : Option Bytes) (hs : Sorted m) : Sorted (range m lo hi) :=
  hs.filter _

/-! #### batches -/

theorem sorted_applyOp {m : Map} (hs : Sorted m) (op : BOp) : Sorted (applyOp m op) := by
  cases op with
  | set k v => exact sorted_insert k v hs
  | del k => exact sorted_erase k hs

theorem sorted_applyBatch {m : Map} (hs : Sorted m) (ops : List BOp) : Sorted (applyBatch m ops) := by
  induction ops generalizing m with
  | nil => exact hs
  | cons op ops ih => exact ih (sorted_applyOp hs op)

/-- the effect of the last operation of a batch on key `k`: `none` = untouched,
`some none` = deleted, `some (some v)` = set to `v`. -/
def lastWrite : List BOp → Bytes → Option (Option Bytes)
  | [], _ => none
  | op :: ops, k =>
    match lastWrite ops k with
    | some r => some r
    | none =>
      match op with
      | .set k' v => if k' = k then some (some v) else none
      | .del k' => if k' = k then some none else none

theorem get_applyBatch {m : Map} (hs : Sorted m) (ops : List BOp) (k : Bytes) :
    get (applyBatch m ops) k = (match lastWrite ops k with
                               | some r => r
                               | none => get m k) := by
  induction ops generalizing m with
  | nil => rfl
  | cons op ops ih =>
    simp only [applyBatch, List.foldl_cons] at *
    rw [ih (sorted_applyOp hs op)]
    simp only [lastWrite]
    cases hlw : lastWrite ops k with
    | some r => rfl
    | none =>
      cases op with
      | set k' v =>
        simp only [applyOp]
        by_cases hk : k' = k
        · subst hk; simp [get_insert_self]
        · simp [hk, get_insert_other _ _ hk]
      | del k' =>
        simp only [applyOp]
        by_cases hk : k' = k
        · subst hk; simp [get_erase_self hs]
        · simp [hk, get_erase_other _ hk]

end C06
