import Chain33Model.Model.C06
/-!
Order lemmas for `C06.blt` / `C06.ble` (= Go `bytes.Compare`): strict total order on `Bytes`.
-/
namespace C06

theorem u8_lt_irrefl (a : UInt8) : ¬ a < a := by
  rw [UInt8.lt_iff_toNat_lt]; omega

theorem u8_eq_of_not_lt {a b : UInt8} (h₁ : ¬ a < b) (h₂ : ¬ b < a) : a = b := by
  rw [UInt8.lt_iff_toNat_lt] at h₁ h₂
  exact UInt8.toNat_inj.mp (by omega)

theorem u8_lt_trans {a b c : UInt8} (h₁ : a < b) (h₂ : b < c) : a < c := by
  rw [UInt8.lt_iff_toNat_lt] at *; omega

theorem u8_lt_asymm {a b : UInt8} (h : a < b) : ¬ b < a := by
  rw [UInt8.lt_iff_toNat_lt] at *; omega

@[simp] theorem blt_nil_right (a : Bytes) : blt a [] = false := by
  cases a <;> rfl

@[simp] theorem blt_nil_cons (b : UInt8) (bs : Bytes) : blt [] (b :: bs) = true := rfl

theorem blt_cons_cons (a b : UInt8) (as bs : Bytes) :
    blt (a :: as) (b :: bs) = (if a < b then true else if b < a then false else blt as bs) := rfl

theorem blt_irrefl (a : Bytes) : blt a a = false := by
  induction a with
  | nil => rfl
  | cons x xs ih => simp [blt_cons_cons, u8_lt_irrefl, ih]

theorem blt_asymm {a b : Bytes} : blt a b = true → blt b a = false := by
  induction a generalizing b with
  | nil => intro _; simp
  | cons x xs ih =>
    cases b with
    | nil => simp
    | cons y ys =>
      simp only [blt_cons_cons]
      by_cases h₁ : x < y
      · simp [h₁, u8_lt_asymm h₁]
      · by_cases h₂ : y < x
        · simp [h₁, h₂]
        · simp only [h₁, h₂, if_false]; exact ih

theorem blt_trans {a b c : Bytes} : blt a b = true → blt b c = true → blt a c = true := by
  induction a generalizing b c with
  | nil =>
    intro h₁ h₂
    cases c with
    | nil => simp at h₂
    | cons z zs => rfl
  | cons x xs ih =>
    cases b with
    | nil => simp
    | cons y ys =>
      cases c with
      | nil => simp
      | cons z zs =>
        simp only [blt_cons_cons]
        by_cases hxy : x < y
        · by_cases hyz : y < z
          · simp [hxy, hyz, u8_lt_trans hxy hyz]
          · by_cases hzy : z < y
            · simp [hyz, hzy]
            · have : y = z := u8_eq_of_not_lt hyz hzy
              subst this; simp [hxy]
        · by_cases hyx : y < x
          · simp [hxy, hyx]
          · have hxy' : x = y := u8_eq_of_not_lt hxy hyx
            subst hxy'
            by_cases hxz : x < z
            · simp [hxz]
            · by_cases hzx : z < x
              · simp [hxz, hzx]
              · simp only [hxy, hxz, hzx, if_false]; exact ih

/-- trichotomy: if neither is smaller the strings are equal. -/
theorem eq_of_not_blt {a b : Bytes} : blt a b = false → blt b a = false → a = b := by
  induction a generalizing b with
  | nil =>
    cases b with
    | nil => intros; rfl
    | cons y ys => simp
  | cons x xs ih =>
    cases b with
    | nil => simp
    | cons y ys =>
      simp only [blt_cons_cons]
      by_cases hxy : x < y
      · simp [hxy]
      · by_cases hyx : y < x
        · simp [hxy, hyx]
        · have : x = y := u8_eq_of_not_lt hxy hyx
          subst this
          simp only [hxy, if_false]
          intro h₁ h₂; rw [ih h₁ h₂]

theorem ble_refl (a : Bytes) : ble a a = true := by simp [ble, blt_irrefl]

theorem ble_of_blt {a b : Bytes} (h : blt a b = true) : ble a b = true := by
  simp [ble, blt_asymm h]

theorem ble_iff {a b : Bytes} : ble a b = true ↔ (blt a b = true ∨ a = b) := by
  constructor
  · intro h
    simp only [ble, Bool.not_eq_true'] at h
    by_cases h' : blt a b = true
    · exact Or.inl h'
    · exact Or.inr (eq_of_not_blt (by simpa using h') h)
  · rintro (h | rfl)
    · exact ble_of_blt h
    · exact ble_refl a

theorem blt_of_blt_of_ble {a b c : Bytes} (h₁ : blt a b = true) (h₂ : ble b c = true) : blt a c = true := by
  rcases ble_iff.mp h₂ with h | rfl
  · exact blt_trans h₁ h
  · exact h₁

theorem blt_of_ble_of_blt {a b c : Bytes} (h₁ : ble a b = true) (h₂ : blt b c = true) : blt a c = true := by
  rcases ble_iff.mp h₁ with h | rfl
  · exact blt_trans h h₂
  · exact h₂

theorem ble_trans {a b c : Bytes} (h₁ : ble a b = true) (h₂ : ble b c = true) : ble a c = true := by
  rcases ble_iff.mp h₁ with h | rfl
  · exact ble_of_blt (blt_of_blt_of_ble h h₂)
  · exact h₂

theorem ble_antisymm {a b : Bytes} (h₁ : ble a b = true) (h₂ : ble b a = true) : a = b := by
  simp only [ble, Bool.not_eq_true'] at h₁ h₂
  exact eq_of_not_blt h₂ h₁

theorem ble_total (a b : Bytes) : ble a b = true ∨ ble b a = true := by
  by_cases h : blt a b = true
  · exact Or.inl (ble_of_blt h)
  · right; simp only [ble, Bool.not_eq_true'] ; simpa using h

theorem not_blt_iff_ble {a b : Bytes} : blt a b = false ↔ ble b a = true := by
  simp [ble]

theorem blt_ne {a b : Bytes} (h : blt a b = true) : a ≠ b := by
  rintro rfl; simp [blt_irrefl] at h

theorem ble_nil (a : Bytes) : ble [] a = true := by simp [ble]

end C06
