import Chain33Model.Proofs.C06Order
/-!
`prefixUpper` (= Go `bytesPrefix`) is the exclusive upper bound of the keys with a given prefix.
-/
namespace C06

theorem u8_succ_toNat {c : UInt8} (h : c < 255) : (c + 1).toNat = c.toNat + 1 := by
  rw [UInt8.lt_iff_toNat_lt] at h
  rw [UInt8.toNat_add]
  have : (255 : UInt8).toNat = 255 := rfl
  have h1 : (1 : UInt8).toNat = 1 := rfl
  omega

theorem u8_le_255 (c : UInt8) : c.toNat ≤ 255 := by
  have := c.toNat_lt; omega

theorem prefixUpper_spec_bool (p k : Bytes) :
    (ble p k && belowUpper (prefixUpper p) k) = p.isPrefixOf k := by
  induction p generalizing k with
  | nil => simp [ble_nil, prefixUpper, belowUpper]
  | cons c cs ih =>
    cases k with
    | nil => simp [ble]
    | cons d ds =>
      have ih' := ih ds
      simp only [List.isPrefixOf, ble, blt_cons_cons, prefixUpper]
      by_cases hdc : d < c
      · -- k below p
        have hne : (c == d) = false := by
          apply beq_false_of_ne; rintro rfl; exact u8_lt_irrefl _ hdc
        simp [hdc, hne]
      · by_cases hcd : c < d
        · have hne : (c == d) = false := by
            apply beq_false_of_ne; rintro rfl; exact u8_lt_irrefl _ hcd
          simp only [hdc, hcd, if_true, if_false, hne, Bool.false_and, Bool.not_false, Bool.true_and]
          cases hu : prefixUpper cs with
          | some u => simp [belowUpper, blt_cons_cons, hdc, hcd]
          | none =>
            by_cases hc : c < 255
            · have h1 := u8_succ_toNat hc
              have hlt : ¬ d < c + 1 := by
                rw [UInt8.lt_iff_toNat_lt] at *; omega
              simp [belowUpper, hc, blt_cons_cons, hlt]
            · exfalso
              have := u8_le_255 d
              rw [UInt8.lt_iff_toNat_lt] at hc hcd
              have h255 : (255 : UInt8).toNat = 255 := rfl
              omega
        · have hcd' : c = d := u8_eq_of_not_lt hcd hdc
          subst hcd'
          simp only [hdc, if_false, beq_self_eq_true, Bool.true_and]
          simp only [ble] at ih'
          cases hu : prefixUpper cs with
          | some u =>
            rw [hu] at ih'
            simpa [belowUpper, blt_cons_cons, hdc] using ih'
          | none =>
            rw [hu] at ih'
            by_cases hc : c < 255
            · have h1 := u8_succ_toNat hc
              have hlt : c < c + 1 := by
                rw [UInt8.lt_iff_toNat_lt]; omega
              simpa [belowUpper, hc, blt_cons_cons, hlt] using ih'
            · simpa [belowUpper, hc] using ih'

theorem effEnd_none {p : Bytes} (hq : prefixUpper p ≠ some emptyValue) : effEnd p none = prefixUpper p := by
  unfold effEnd
  cases hu : prefixUpper p with
  | none => rfl
  | some u =>
    have : u ≠ emptyValue := by rintro rfl; exact hq hu
    simp [this]

theorem range_prefixUpper (m : Map) (p : Bytes) : range m p (prefixUpper p) = withPrefix m p := by
  unfold range withPrefix
  congr 1
  funext e
  exact prefixUpper_spec_bool p e.1

/-- the range a prefix scan `Iterator(p, nil, _)` runs over. -/
theorem range_prefix (m : Map) {p : Bytes} (hq : prefixUpper p ≠ some emptyValue) :
    range m p (effEnd p none) = withPrefix m p := by
  rw [effEnd_none hq, range_prefixUpper]

end C06
