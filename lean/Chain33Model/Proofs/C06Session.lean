import Chain33Model.Proofs.C06BadgerStep
/-!
Every session of Rewind / Seek / Next calls on `goLevelDBIt` (`C06.Iter`) is answered like the
specification cursor `specSession` over the in-range entries.
-/
namespace C06

/-- relation between an iterator state and the specification cursor state. -/
def RelI (i : Iter) (st : Option (List Entry)) : Prop :=
  i.WF ∧ ((i.pos = .soi ∧ st = none) ∨ (i.Settled ∧ st = some i.rest))

theorem RelI.step {i : Iter} {st : Option (List Entry)} (h : RelI i st) (s : IStep) :
    Iter.obs (i.step s) = obsOf (specStep i.all i.reverse st s)
      ∧ RelI (i.step s).1 (some (specStep i.all i.reverse st s))
      ∧ (i.step s).1.all = i.all ∧ (i.step s).1.reverse = i.reverse := by
  obtain ⟨hw, hst⟩ := h
  cases s with
  | rewind =>
    obtain ⟨hw', hset, hrest, hr, he, hobs⟩ := Iter.rewind_step hw
    have hall : i.rewind.1.all = i.all := by unfold Iter.all; rw [hr, he]
    exact ⟨by rw [show i.step .rewind = i.rewind from rfl, hobs, hrest]; rfl,
      ⟨hw', Or.inr ⟨hset, by rw [show i.step .rewind = i.rewind from rfl, hrest]; rfl⟩⟩, hall, hr⟩
  | seek k =>
    obtain ⟨hw', hset, hrest, hr, he, hobs⟩ := Iter.seek_step hw k
    have hall : (i.seek k).1.all = i.all := by unfold Iter.all; rw [hr, he]
    exact ⟨by rw [show i.step (.seek k) = i.seek k from rfl, hobs, hrest]; rfl,
      ⟨hw', Or.inr ⟨hset, by rw [show i.step (.seek k) = i.seek k from rfl, hrest]; rfl⟩⟩, hall, hr⟩
  | next =>
    rcases hst with ⟨hp, rfl⟩ | ⟨hset, rfl⟩
    · by_cases hrev : i.reverse = true
      · -- fresh reverse iterator: nothing
        have hin : i.next.1 = i := by simp [Iter.next, hrev, Iter.uPrev, hp]
        have hw' : i.next.1.WF := by rw [hin]; exact hw
        have hiret : i.next.2 = i.next.1.valid := by
          have : i.next.2 = (i.next.1.uValid && i.next.1.valid) := rfl
          rw [this, Iter.and_valid hw']
        have hirest : i.next.1.rest = [] := by
          rw [hin]; exact Iter.rest_nil_of_not_on (by intro j; rw [hp]; exact fun h => nomatch h)
        have hspec : specStep i.all i.reverse none .next = [] := by simp [specStep, hrev]
        refine ⟨by rw [show i.step .next = i.next from rfl, Iter.obs_of_rest hw' hiret, hirest, hspec],
          ⟨hw', Or.inr ⟨?_, by rw [show i.step .next = i.next from rfl, hirest, hspec]⟩⟩,
          by rw [show i.step .next = i.next from rfl, hin], by rw [show i.step .next = i.next from rfl, hin]⟩
        rw [show i.step .next = i.next from rfl, hin]
        constructor
        · intro hf; rw [hrev] at hf; cases hf
        · intro _ hp'; rw [hp] at hp'; cases hp'
      · have hrev' : i.reverse = false := by simpa using hrev
        have hin : i.next = i.rewind := by simp [Iter.next, Iter.rewind, hrev', Iter.uNext, hp]
        obtain ⟨hw', hset, hrest, hr, he, hobs⟩ := Iter.rewind_step hw
        have hall : i.rewind.1.all = i.all := by unfold Iter.all; rw [hr, he]
        have hspec : specStep i.all i.reverse none .next = i.all := by simp [specStep, hrev']
        exact ⟨by rw [show i.step .next = i.next from rfl, hin, hobs, hrest, hspec],
          ⟨by rw [show i.step .next = i.next from rfl, hin]; exact hw',
           Or.inr ⟨by rw [show i.step .next = i.next from rfl, hin]; exact hset,
                   by rw [show i.step .next = i.next from rfl, hin, hrest, hspec]⟩⟩,
          by rw [show i.step .next = i.next from rfl, hin]; exact hall,
          by rw [show i.step .next = i.next from rfl, hin]; exact hr⟩
    · obtain ⟨hw', hset', hrest, hr, he, hobs⟩ := Iter.next_step hw hset
      have hall : i.next.1.all = i.all := by unfold Iter.all; rw [hr, he]
      exact ⟨by rw [show i.step .next = i.next from rfl, hobs, hrest]; rfl,
        ⟨hw', Or.inr ⟨hset', by rw [show i.step .next = i.next from rfl, hrest]; rfl⟩⟩, hall, hr⟩

theorem RelI.session {i : Iter} {st : Option (List Entry)} (h : RelI i st) (steps : List IStep) :
    i.session steps = specSession i.all i.reverse st steps := by
  induction steps generalizing i st with
  | nil => rfl
  | cons s rest ih =>
    obtain ⟨hobs, hrel, hall, hrev⟩ := h.step s
    simp only [Iter.session, specSession]
    rw [hobs, ih hrel, hall, hrev]
    rfl

theorem RelI.init {m : Map} (hs : Sorted m) (start : Bytes) (end_ : Option Bytes) (rev : Bool) :
    RelI (Iter.mk' m start end_ rev) none :=
  ⟨Iter.wf_mk' hs start end_ rev, Or.inl ⟨rfl, rfl⟩⟩

/-- no call changes the snapshot or the direction. -/
theorem Iter.step_fields {i : Iter} (hi : i.WF) (st : IStep) :
    (i.step st).1.ents = i.ents ∧ (i.step st).1.reverse = i.reverse := by
  cases st with
  | rewind => exact ⟨(Iter.rewind_rest hi).2.2.2, (Iter.rewind_rest hi).2.2.1⟩
  | seek k' => exact ⟨(Iter.seek_rest hi k').2.2.2, (Iter.seek_rest hi k').2.2.1⟩
  | next =>
    cases hp : i.pos with
    | soi =>
      by_cases hr : i.reverse = true
      · have : (i.step .next).1 = i := by simp [Iter.step, Iter.next, hr, Iter.uPrev, hp]
        rw [this]; exact ⟨rfl, rfl⟩
      · have hr' : i.reverse = false := by simpa using hr
        have : (i.step .next).1 = i.rewind.1 := by
          simp [Iter.step, Iter.next, Iter.rewind, hr', Iter.uNext, hp]
        rw [this]; exact ⟨(Iter.rewind_rest hi).2.2.2, (Iter.rewind_rest hi).2.2.1⟩
    | eoi =>
      by_cases hr : i.reverse = true
      · have : (i.step .next).1 = i.rewind.1 := by
          simp [Iter.step, Iter.next, Iter.rewind, hr, Iter.uPrev, hp]
        rw [this]; exact ⟨(Iter.rewind_rest hi).2.2.2, (Iter.rewind_rest hi).2.2.1⟩
      · have hr' : i.reverse = false := by simpa using hr
        have : (i.step .next).1 = i := by simp [Iter.step, Iter.next, hr', Iter.uNext, hp]
        rw [this]; exact ⟨rfl, rfl⟩
    | on j =>
      have hrest := Iter.rest_eq_cons hp (Iter.pos_lt hi hp)
      exact ⟨(Iter.next_rest hi hrest).2.2.2, (Iter.next_rest hi hrest).2.2.1⟩

theorem Iter.steps_fields {i : Iter} (hi : i.WF) (steps : List IStep) :
    (steps.foldl (fun (i : Iter) st => (i.step st).1) i).ents = i.ents
    ∧ (steps.foldl (fun (i : Iter) st => (i.step st).1) i).reverse = i.reverse := by
  induction steps generalizing i with
  | nil => exact ⟨rfl, rfl⟩
  | cons st rest ih =>
    obtain ⟨h1, h2⟩ := ih (Iter.step_wf hi st)
    obtain ⟨h3, h4⟩ := Iter.step_fields hi st
    exact ⟨by rw [List.foldl_cons, h1, h3], by rw [List.foldl_cons, h2, h4]⟩

end C06
