import Chain33Model.Model.C07
import Chain33Model.Proofs.C06Iter
/-!
`ListHelper` over an abstract *cursor*: an iterator whose states carry the list of entries
still to be visited (`rest`).  Proved once, instantiated for the single-database iterator
(`C06.Iter`) here and for the merged iterator in `C07Merged`.
-/
namespace C07
open C06

/-- live (not tombstoned) entries. -/
def live (L : List Entry) : List Entry := L.filter (fun e => !isDeleted e.2)

/-- what the scan loop keeps of the live entries: with `i` already collected, stop when the
`count`-th is reached; `count = 0` (or already past it) never stops. -/
def takeC (count i : Nat) (L : List Entry) : List Entry := if i < count then L.take (count - i) else L

structure Cursor {σ : Type} (ops : ItOps σ) (inv : σ → Prop) (rest : σ → List Entry) : Prop where
  valid_iff : ∀ s, inv s → (ops.valid s = true ↔ rest s ≠ [])
  head : ∀ s e r, inv s → rest s = e :: r → ops.key s = e.1 ∧ ops.value s = e.2
  next : ∀ s e r, inv s → rest s = e :: r → inv (ops.next s).1 ∧ rest (ops.next s).1 = r

section
variable {σ : Type} {ops : ItOps σ} {inv : σ → Prop} {rest : σ → List Entry}

theorem Cursor.valid_false (C : Cursor ops inv rest) {s : σ} (hi : inv s) (hr : rest s = []) :
    ops.valid s = false := by
  cases hv : ops.valid s with
  | false => rfl
  | true => exact absurd hr ((C.valid_iff s hi).mp hv)

theorem Cursor.valid_true (C : Cursor ops inv rest) {s : σ} (hi : inv s) {e : Entry} {r : List Entry}
    (hr : rest s = e :: r) : ops.valid s = true :=
  (C.valid_iff s hi).mpr (by simp [hr])

theorem takeC_cons_stop {count i : Nat} (h : i + 1 = count) (e : Entry) (L : List Entry) :
    takeC count i (e :: L) = [e] := by
  have : i < count := by omega
  simp [takeC, this, show count - i = 1 by omega]

theorem takeC_cons_go {count i : Nat} (h : i + 1 ≠ count) (e : Entry) (L : List Entry) :
    takeC count i (e :: L) = e :: takeC count (i + 1) L := by
  unfold takeC
  by_cases hlt : i < count
  · have h2 : i + 1 < count := by omega
    simp only [hlt, h2, if_true]
    rw [show count - i = (count - (i + 1)) + 1 by omega, List.take_succ_cons]
  · have h2 : ¬ i + 1 < count := by omega
    simp [hlt, h2]

/-- the scan loop returns the live remaining entries, cut at `count`. -/
theorem Cursor.scanLoop_spec (C : Cursor ops inv rest) (count : Nat) {fuel : Nat} {s : σ} (hi : inv s)
    (hf : (rest s).length < fuel) (i : Nat) :
    scanLoop ops count fuel s i = some (takeC count i (live (rest s))) := by
  induction fuel generalizing s i with
  | zero => omega
  | succ n ih =>
    cases hr : rest s with
    | nil =>
      simp [scanLoop, C.valid_false hi hr, live, takeC]
    | cons e r =>
      obtain ⟨hk, hv⟩ := C.head s e r hi hr
      obtain ⟨hi', hr'⟩ := C.next s e r hi hr
      have hf' : (rest (ops.next s).1).length < n := by rw [hr']; rw [hr] at hf; simp at hf; omega
      simp only [scanLoop, C.valid_true hi hr, if_true, hk, hv]
      by_cases hd : isDeleted e.2 = true
      · simp only [hd, if_true]
        rw [ih hi' hf', hr']
        simp [live, hd]
      · have hd' : isDeleted e.2 = false := by simpa using hd
        have hl : live (e :: r) = e :: live r := by simp [live, hd']
        simp only [hd', Bool.false_eq_true, if_false, hl]
        by_cases hc : i + 1 = count
        · simp [hc, takeC_cons_stop hc]
        · have : (i + 1 == count) = false := by simpa using hc
          simp only [this, Bool.false_eq_true, if_false]
          rw [ih hi' hf', hr', takeC_cons_go hc]
          rfl

theorem Cursor.countLoop_spec (C : Cursor ops inv rest) {fuel : Nat} {s : σ} (hi : inv s)
    (hf : (rest s).length < fuel) :
    countLoop ops fuel s = some (live (rest s)).length := by
  induction fuel generalizing s with
  | zero => omega
  | succ n ih =>
    cases hr : rest s with
    | nil => simp [countLoop, C.valid_false hi hr, live]
    | cons e r =>
      obtain ⟨_, hv⟩ := C.head s e r hi hr
      obtain ⟨hi', hr'⟩ := C.next s e r hi hr
      have hf' : (rest (ops.next s).1).length < n := by rw [hr']; rw [hr] at hf; simp at hf; omega
      simp only [countLoop, C.valid_true hi hr, if_true, hv]
      rw [ih hi' hf', hr']
      by_cases hd : isDeleted e.2 = true
      · simp [live, hd]
      · have hd' : isDeleted e.2 = false := by simpa using hd
        simp [live, hd']

end

/-- a cursor that can be positioned on a fixed ordered list `all` (iteration order) from its
initial state `s0`. -/
structure RangeCursor {σ : Type} (ops : ItOps σ) (inv : σ → Prop) (rest : σ → List Entry)
    (s0 : σ) (all : List Entry) (rev : Bool) : Prop where
  cursor : Cursor ops inv rest
  rewind : inv (ops.rewind s0).1 ∧ rest (ops.rewind s0).1 = all
  seek : ∀ k, inv (ops.seek s0 k).1 ∧ rest (ops.seek s0 k).1 = all.dropWhile (before rev k)

/-- drop the head if it carries exactly `key` (`if bytes.Equal(it.Key(), key) { it.Next() }`). -/
def skipKey (key : Bytes) : List Entry → List Entry
  | [] => []
  | e :: r => if e.1 == key then r else e :: r

/-- the entries a page request continues with: everything from the start for an empty `key`,
otherwise what follows `key` in iteration order. -/
def remaining (all : List Entry) (rev : Bool) (key : Bytes) : List Entry :=
  if key.isEmpty then all else skipKey key (all.dropWhile (before rev key))

section
variable {σ : Type} {ops : ItOps σ} {inv : σ → Prop} {rest : σ → List Entry}
  {s0 : σ} {all : List Entry} {rev : Bool}

theorem RangeCursor.scanFromEnd_spec (R : RangeCursor ops inv rest s0 all rev) {fuel : Nat}
    (hf : all.length < fuel) (count : Nat) :
    scanFromEnd ops fuel s0 count = some (takeC count 0 (live all)) := by
  unfold scanFromEnd
  obtain ⟨hi, hr⟩ := R.rewind
  rw [R.cursor.scanLoop_spec count hi (by rw [hr]; exact hf), hr]

theorem dropWhile_length_le (p : Entry → Bool) (L : List Entry) : (L.dropWhile p).length ≤ L.length :=
  (List.dropWhile_sublist p).length_le

theorem RangeCursor.iteratorScan_spec (R : RangeCursor ops inv rest s0 all rev) {fuel : Nat}
    (hf : all.length < fuel) (key : Bytes) (count : Nat) :
    iteratorScan ops fuel s0 key count
      = some (takeC count 0 (live (skipKey key (all.dropWhile (before rev key))))) := by
  unfold iteratorScan
  obtain ⟨hi, hr⟩ := R.seek key
  have hlen := dropWhile_length_le (before rev key) all
  cases hd : all.dropWhile (before rev key) with
  | nil =>
    rw [hd] at hr
    simp [R.cursor.valid_false hi hr, skipKey, live, takeC]
  | cons e r =>
    rw [hd] at hr hlen
    obtain ⟨hk, _⟩ := R.cursor.head _ e r hi hr
    obtain ⟨hi', hr'⟩ := R.cursor.next _ e r hi hr
    simp only [R.cursor.valid_true hi hr, Bool.not_true, Bool.false_eq_true, if_false, hk, skipKey]
    simp only [List.length_cons] at hlen
    by_cases hke : (e.1 == key) = true
    · simp only [hke, if_true]
      rw [R.cursor.scanLoop_spec count hi' (by rw [hr']; omega), hr']
    · have hke' : (e.1 == key) = false := by simpa using hke
      simp only [hke', Bool.false_eq_true, if_false]
      rw [R.cursor.scanLoop_spec count hi (by rw [hr]; simp; omega), hr]

theorem Cursor.skipDeleted_spec (C : Cursor ops inv rest) {fuel : Nat} {s : σ} (hi : inv s)
    (hf : (rest s).length < fuel) :
    ∃ s', skipDeleted ops fuel s = some s' ∧ inv s'
      ∧ rest s' = (rest s).dropWhile (fun e => isDeleted e.2) := by
  induction fuel generalizing s with
  | zero => omega
  | succ n ih =>
    cases hr : rest s with
    | nil =>
      refine ⟨s, ?_, hi, by simp [hr]⟩
      simp [skipDeleted, C.valid_false hi hr]
    | cons e r =>
      obtain ⟨_, hv⟩ := C.head s e r hi hr
      obtain ⟨hi', hr'⟩ := C.next s e r hi hr
      by_cases hd : isDeleted e.2 = true
      · have hf' : (rest (ops.next s).1).length < n := by rw [hr']; rw [hr] at hf; simp at hf; omega
        obtain ⟨s', h1, h2, h3⟩ := ih hi' hf'
        refine ⟨s', ?_, h2, ?_⟩
        · simp [skipDeleted, C.valid_true hi hr, hv, hd, h1]
        · rw [h3, hr']; simp [List.dropWhile_cons, hd]
      · refine ⟨s, ?_, hi, ?_⟩
        · simp [skipDeleted, hv, hd]
        · rw [hr]; simp [List.dropWhile_cons, hd]

/-- the answer of the special `ListSeek` request on the entries `D` at/after the seek point. -/
def seekAnswer (D : List Entry) : List Bytes :=
  match D.dropWhile (fun e => isDeleted e.2) with
  | e :: _ => [e.1, e.2]
  | [] => []

theorem RangeCursor.nextKeyValue_spec (R : RangeCursor ops inv rest s0 all rev) {fuel : Nat}
    (hf : all.length < fuel) (key : Bytes) :
    nextKeyValue ops fuel s0 key = some (seekAnswer (all.dropWhile (before rev key))) := by
  unfold nextKeyValue seekAnswer
  obtain ⟨hi, hr⟩ := R.seek key
  have hlen := dropWhile_length_le (before rev key) all
  obtain ⟨s', h1, h2, h3⟩ := R.cursor.skipDeleted_spec (fuel := fuel) hi (by rw [hr]; omega)
  rw [h1]
  simp only
  rw [← hr, ← h3]
  cases hd : rest s' with
  | nil => simp [R.cursor.valid_false h2 hd]
  | cons e r =>
    obtain ⟨hk, hv⟩ := R.cursor.head s' e r h2 hd
    simp [R.cursor.valid_true h2 hd, hk, hv]

theorem RangeCursor.prefixCount_spec (R : RangeCursor ops inv rest s0 all rev) {fuel : Nat}
    (hf : all.length < fuel) :
    prefixCount ops fuel s0 = some (live all).length := by
  unfold prefixCount
  obtain ⟨hi, hr⟩ := R.rewind
  rw [R.cursor.countLoop_spec hi (by rw [hr]; exact hf), hr]

end

/-! ### the single-database iterator is a cursor -/

theorem iterCursor : Cursor iterOps Iter.WF Iter.rest where
  valid_iff := fun _ h => Iter.valid_iff_rest h
  head := fun _ _ _ h hr => ⟨(Iter.head_of_rest h hr).1, (Iter.head_of_rest h hr).2.1⟩
  next := fun _ _ _ h hr => ⟨(Iter.next_rest h hr).1, (Iter.next_rest h hr).2.1⟩

theorem iterRangeCursor {it : Iter} (h : it.WF) :
    RangeCursor iterOps Iter.WF Iter.rest it it.all it.reverse where
  cursor := iterCursor
  rewind := ⟨(Iter.rewind_rest h).1, (Iter.rewind_rest h).2.1⟩
  seek := fun k => ⟨(Iter.seek_rest h k).1, (Iter.seek_rest h k).2.1⟩

/-- everything `ListHelper.List` can answer, as a function of the ordered entry list
(`allOf rev` = the entries under the prefix in ascending / descending order). -/
def listSpec (allOf : Bool → List Entry) (key : Bytes) (count dir : Nat) : List Bytes :=
  if !key.isEmpty && count == 1 && dir == ListSeek then seekAnswer ((allOf true).dropWhile (before true key))
  else encodeItems dir (takeC count 0 (live (remaining (allOf (!isASC dir)) (!isASC dir) key)))

theorem list_spec_of_cursors {σ : Type} {ops : ItOps σ} {inv : Bool → σ → Prop} {rest : σ → List Entry}
    {mk : Bool → σ} {allOf : Bool → List Entry}
    (R : ∀ rev, RangeCursor ops (inv rev) rest (mk rev) (allOf rev) rev) {fuel : Nat}
    (hf : ∀ rev, (allOf rev).length < fuel) (key : Bytes) (count dir : Nat) :
    list ops mk fuel key count dir = some (listSpec allOf key count dir) := by
  unfold list listSpec
  by_cases hc : (!key.isEmpty && count == 1 && dir == ListSeek) = true
  · rw [if_pos hc, if_pos hc]
    exact (R true).nextKeyValue_spec (hf true) key
  · rw [if_neg hc, if_neg hc]
    unfold listEntries remaining
    by_cases hk : key.isEmpty = true
    · simp only [hk, if_true]
      rw [(R (!isASC dir)).scanFromEnd_spec (hf _) count]; rfl
    · simp only [hk, Bool.false_eq_true, if_false]
      rw [(R (!isASC dir)).iteratorScan_spec (hf _) key count]; rfl

end C07
