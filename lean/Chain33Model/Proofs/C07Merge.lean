import Chain33Model.Proofs.C07Pages
/-!
List-level facts for the merged iterator: the left-biased ordered union `munion` of
direction-sorted lists, and `selectFrom` (the scan of `mergedIterator.selectKey`).
-/
namespace C07
open C06

/-! ### order lemmas for `dlt` (= `mless`) -/

theorem mless_eq_dlt (rev : Bool) (a b : Bytes) : mless rev a b = dlt rev a b := rfl

theorem dlt_trans {rev : Bool} {a b c : Bytes} (h₁ : dlt rev a b = true) (h₂ : dlt rev b c = true) :
    dlt rev a c = true := by
  cases rev
  · exact blt_trans h₁ h₂
  · exact blt_trans h₂ h₁

theorem dlt_asymm {rev : Bool} {a b : Bytes} (h : dlt rev a b = true) : dlt rev b a = false := by
  cases rev
  · exact blt_asymm h
  · exact blt_asymm h

theorem dlt_trichotomy (rev : Bool) (a b : Bytes) : dlt rev a b = true ∨ a = b ∨ dlt rev b a = true := by
  cases rev
  · exact trichotomy a b
  · rcases trichotomy a b with h | h | h
    · exact Or.inr (Or.inr h)
    · exact Or.inr (Or.inl h)
    · exact Or.inl h

theorem dlt_ne {rev : Bool} {a b : Bytes} (h : dlt rev a b = true) : a ≠ b := by
  rintro rfl; rw [dlt_irrefl] at h; cases h

/-- `¬ a < b` and `¬ b < c` give `¬ a < c`  (i.e. `b ≤ a`, `c ≤ b` ⟹ `c ≤ a`). -/
theorem not_dlt_trans {rev : Bool} {a b c : Bytes} (h₁ : dlt rev a b = false) (h₂ : dlt rev b c = false) :
    dlt rev a c = false := by
  cases hac : dlt rev a c with
  | false => rfl
  | true =>
    rcases dlt_trichotomy rev b a with h | h | h
    · -- b < a < c  ⟹ b < c
      rw [dlt_trans h hac] at h₂; cases h₂
    · subst h; rw [hac] at h₂; cases h₂
    · rw [h] at h₁; cases h₁

theorem eq_of_not_dlt {rev : Bool} {a b : Bytes} (h₁ : dlt rev a b = false) (h₂ : dlt rev b a = false) : a = b := by
  rcases dlt_trichotomy rev a b with h | h | h
  · rw [h] at h₁; cases h₁
  · exact h
  · rw [h] at h₂; cases h₂

/-! ### left-biased ordered union -/

/-- merge of two direction-sorted lists; on equal keys the left entry wins and the right one is dropped. -/
def merge2 (rev : Bool) : List Entry → List Entry → List Entry
  | [], ys => ys
  | x :: xs, [] => x :: xs
  | x :: xs, y :: ys =>
    if dlt rev x.1 y.1 then x :: merge2 rev xs (y :: ys)
    else if dlt rev y.1 x.1 then y :: merge2 rev (x :: xs) ys
    else x :: merge2 rev xs ys
termination_by xs ys => xs.length + ys.length

/-- union of layers, the first layer has priority. -/
def munion (rev : Bool) (Ls : List (List Entry)) : List Entry := Ls.foldr (merge2 rev) []

@[simp] theorem merge2_nil_left (rev : Bool) (ys : List Entry) : merge2 rev [] ys = ys := by
  unfold merge2; rfl

@[simp] theorem merge2_nil_right (rev : Bool) (xs : List Entry) : merge2 rev xs [] = xs := by
  cases xs <;> simp [merge2]

theorem merge2_cons_cons (rev : Bool) (x y : Entry) (xs ys : List Entry) :
    merge2 rev (x :: xs) (y :: ys) =
      if dlt rev x.1 y.1 then x :: merge2 rev xs (y :: ys)
      else if dlt rev y.1 x.1 then y :: merge2 rev (x :: xs) ys
      else x :: merge2 rev xs ys := by
  rw [merge2]

theorem mem_merge2 {rev : Bool} {xs ys : List Entry} {e : Entry} (h : e ∈ merge2 rev xs ys) : e ∈ xs ∨ e ∈ ys := by
  induction xs generalizing ys with
  | nil => simp at h; exact Or.inr h
  | cons x xs ihx =>
    induction ys with
    | nil => simp at h; exact Or.inl (by simpa using h)
    | cons y ys ihy =>
      rw [merge2_cons_cons] at h
      by_cases h1 : dlt rev x.1 y.1 = true
      · rw [if_pos h1] at h
        rcases List.mem_cons.mp h with rfl | h
        · exact Or.inl (by simp)
        · rcases ihx h with h | h
          · exact Or.inl (by simp [h])
          · exact Or.inr h
      · rw [if_neg h1] at h
        by_cases h2 : dlt rev y.1 x.1 = true
        · rw [if_pos h2] at h
          rcases List.mem_cons.mp h with rfl | h
          · exact Or.inr (by simp)
          · rcases ihy h with h | h
            · exact Or.inl h
            · exact Or.inr (by simp [h])
        · rw [if_neg h2] at h
          rcases List.mem_cons.mp h with rfl | h
          · exact Or.inl (by simp)
          · rcases ihx h with h | h
            · exact Or.inl (by simp [h])
            · exact Or.inr (by simp [h])

theorem mem_munion {rev : Bool} {Ls : List (List Entry)} {e : Entry} (h : e ∈ munion rev Ls) :
    ∃ L ∈ Ls, e ∈ L := by
  induction Ls with
  | nil => simp [munion] at h
  | cons L Ls ih =>
    simp only [munion, List.foldr_cons] at h
    rcases mem_merge2 h with h | h
    · exact ⟨L, by simp, h⟩
    · obtain ⟨L', hL', he⟩ := ih h
      exact ⟨L', by simp [hL'], he⟩

/-- drop the head if it carries the key `K`. -/
def dropKey (K : Bytes) : List Entry → List Entry
  | [] => []
  | e :: r => if e.1 = K then r else e :: r

def headKey (L : List Entry) : Option Bytes := L.head?.map (·.1)

/-- every key of the list is `≥ K` in iteration order. -/
def AllGE (rev : Bool) (K : Bytes) (L : List Entry) : Prop := ∀ e ∈ L, dlt rev e.1 K = false

theorem merge2_dropKey {rev : Bool} {K : Bytes} {L U : List Entry} (hL : AllGE rev K L) (hU : AllGE rev K U) :
    merge2 rev (dropKey K L) (dropKey K U) = dropKey K (merge2 rev L U) := by
  cases L with
  | nil => simp [dropKey]
  | cons l L' =>
    cases U with
    | nil => simp [dropKey]
    | cons u U' =>
      have hl := hL l (by simp)
      have hu := hU u (by simp)
      rw [merge2_cons_cons]
      by_cases hlK : l.1 = K
      · by_cases huK : u.1 = K
        · have h1 : dlt rev l.1 u.1 = false := by rw [hlK, huK, dlt_irrefl]
          have h2 : dlt rev u.1 l.1 = false := by rw [hlK, huK, dlt_irrefl]
          simp [dropKey, hlK, huK, dlt_irrefl]
        · have hKu : dlt rev K u.1 = true := by
            rcases dlt_trichotomy rev K u.1 with h | h | h
            · exact h
            · exact absurd h.symm huK
            · rw [h] at hu; cases hu
          simp [dropKey, hlK, huK, hKu]
      · have hKl : dlt rev K l.1 = true := by
          rcases dlt_trichotomy rev K l.1 with h | h | h
          · exact h
          · exact absurd h.symm hlK
          · rw [h] at hl; cases hl
        by_cases huK : u.1 = K
        · have h1 : dlt rev l.1 u.1 = false := by rw [huK]; exact hl
          have h2 : dlt rev u.1 l.1 = true := by rw [huK]; exact hKl
          simp [dropKey, hlK, huK, hl, hKl]
        · -- neither head is K: dropKey is the identity on both sides
          have e1 : dropKey K (l :: L') = l :: L' := by simp [dropKey, hlK]
          have e2 : dropKey K (u :: U') = u :: U' := by simp [dropKey, huK]
          rw [e1, e2, merge2_cons_cons]
          by_cases h1 : dlt rev l.1 u.1 = true
          · simp [h1, dropKey, hlK]
          · by_cases h2 : dlt rev u.1 l.1 = true
            · simp [h1, h2, dropKey, huK]
            · simp [h1, h2, dropKey, hlK]

theorem allGE_munion {rev : Bool} {K : Bytes} {Ls : List (List Entry)} (h : ∀ L ∈ Ls, AllGE rev K L) :
    AllGE rev K (munion rev Ls) := by
  intro e he
  obtain ⟨L, hL, heL⟩ := mem_munion he
  exact h L hL e heL

theorem munion_dropKey {rev : Bool} {K : Bytes} {Ls : List (List Entry)} (h : ∀ L ∈ Ls, AllGE rev K L) :
    munion rev (Ls.map (dropKey K)) = dropKey K (munion rev Ls) := by
  induction Ls with
  | nil => simp [munion, dropKey]
  | cons L Ls ih =>
    have ih' := ih (fun L' hL' => h L' (by simp [hL']))
    simp only [munion, List.map_cons, List.foldr_cons] at ih' ⊢
    rw [ih']
    exact merge2_dropKey (h L (by simp)) (allGE_munion (fun L' hL' => h L' (by simp [hL'])))

/-! ### `selectFrom` = leftmost minimum -/

/-- leftmost minimal non-nil key, computed from the right. -/
def selMin (rev : Bool) : List (Option Bytes) → Option (Bytes × Nat)
  | [] => none
  | none :: ks => (selMin rev ks).map (fun p => (p.1, p.2 + 1))
  | some k :: ks =>
    match selMin rev ks with
    | none => some (k, 0)
    | some (k', j) => if mless rev k' k then some (k', j + 1) else some (k, 0)

def comb (rev : Bool) : Option (Bytes × Nat) → Option (Bytes × Nat) → Option (Bytes × Nat)
  | none, r => r
  | some b, none => some b
  | some (bk, bi), some (k, j) => if mless rev k bk then some (k, j) else some (bk, bi)

theorem selectFrom_eq (rev : Bool) (ks : List (Option Bytes)) (i : Nat) (best : Option (Bytes × Nat)) :
    selectFrom rev ks i best = comb rev best ((selMin rev ks).map (fun p => (p.1, p.2 + i))) := by
  induction ks generalizing i best with
  | nil => cases best <;> simp [selectFrom, selMin, comb]
  | cons k? ks ih =>
    cases k? with
    | none =>
      simp only [selectFrom, selMin]
      rw [ih]
      congr 1
      cases selMin rev ks with
      | none => rfl
      | some p => simp [Nat.add_assoc, Nat.add_comm 1 i]
    | some k =>
      cases best with
      | none =>
        simp only [selectFrom, selMin]
        rw [ih]
        cases hs : selMin rev ks with
        | none => simp [comb]
        | some p =>
          obtain ⟨k', j⟩ := p
          simp only [Option.map_some, comb]
          by_cases hm : mless rev k' k = true
          · simp [hm, Nat.add_assoc, Nat.add_comm 1 i]
          · simp [hm]
      | some b =>
        obtain ⟨bk, bi⟩ := b
        simp only [selectFrom, selMin]
        by_cases hkb : mless rev k bk = true
        · simp only [hkb, if_true]
          rw [ih]
          cases hs : selMin rev ks with
          | none => simp [comb, hkb]
          | some p =>
            obtain ⟨k', j⟩ := p
            simp only [Option.map_some, comb]
            by_cases hm : mless rev k' k = true
            · have : mless rev k' bk = true := dlt_trans hm hkb
              simp [hm, this, comb, Nat.add_assoc, Nat.add_comm 1 i]
            · simp [hm, comb, hkb]
        · simp only [hkb, if_false, Bool.false_eq_true]
          rw [ih]
          cases hs : selMin rev ks with
          | none => simp [comb, hkb]
          | some p =>
            obtain ⟨k', j⟩ := p
            simp only [Option.map_some, comb]
            by_cases hm : mless rev k' k = true
            · simp [hm, comb, Nat.add_assoc, Nat.add_comm 1 i]
            · have hkb' : mless rev k bk = false := by simpa using hkb
              have hm' : mless rev k' k = false := by simpa using hm
              have : mless rev k' bk = false := not_dlt_trans hm' hkb'
              simp [hm, comb, hkb, this]

theorem selectFrom_zero (rev : Bool) (ks : List (Option Bytes)) :
    selectFrom rev ks 0 none = selMin rev ks := by
  rw [selectFrom_eq]
  cases selMin rev ks <;> simp [comb]

/-! ### the head of the union -/

theorem munion_eq_nil {rev : Bool} {Ls : List (List Entry)} (h : ∀ L ∈ Ls, L = []) : munion rev Ls = [] := by
  induction Ls with
  | nil => rfl
  | cons L Ls ih =>
    simp only [munion, List.foldr_cons]
    have := ih (fun L' hL' => h L' (by simp [hL']))
    simp only [munion] at this
    rw [this, h L (by simp)]
    simp

theorem allGE_of_head {rev : Bool} {K : Bytes} {x : Entry} {xs : List Entry} (hs : DSorted rev (x :: xs))
    (hx : dlt rev x.1 K = false) : AllGE rev K (x :: xs) := by
  intro e he
  rcases List.mem_cons.mp he with rfl | he
  · exact hx
  · have hxe : dlt rev x.1 e.1 = true := (List.pairwise_cons.mp hs).1 e he
    cases h : dlt rev e.1 K with
    | false => rfl
    | true => rw [dlt_trans hxe h] at hx; cases hx

theorem munion_cons (rev : Bool) (L : List Entry) (Ls : List (List Entry)) :
    munion rev (L :: Ls) = merge2 rev L (munion rev Ls) := rfl

theorem dropKey_cons_self (K v : Bytes) (r : List Entry) : dropKey K ((K, v) :: r) = r := by
  simp [dropKey]

theorem dropKey_of_ne {K : Bytes} {e : Entry} {r : List Entry} (h : e.1 ≠ K) : dropKey K (e :: r) = e :: r := by
  simp [dropKey, h]

/-- the selected key heads the union; the rest of the union is the union of the layers with
that key dropped from their heads. -/
theorem munion_head {rev : Bool} {Ls : List (List Entry)} (hs : ∀ L ∈ Ls, DSorted rev L) :
    match selMin rev (Ls.map headKey) with
    | none => ∀ L ∈ Ls, L = []
    | some (K, x) => ∃ v r, Ls[x]? = some ((K, v) :: r)
        ∧ munion rev Ls = (K, v) :: munion rev (Ls.map (dropKey K))
        ∧ (∀ L ∈ Ls, AllGE rev K L) := by
  induction Ls with
  | nil => simp [selMin]
  | cons L Ls ih =>
    have ih' := ih (fun L' hL' => hs L' (by simp [hL']))
    have hsL := hs L (by simp)
    cases L with
    | nil =>
      simp only [List.map_cons, headKey, List.head?_nil, Option.map_none, selMin]
      cases hsel : selMin rev (Ls.map headKey) with
      | none =>
        rw [hsel] at ih'
        simp only [Option.map_none]
        intro L' hL'
        rcases List.mem_cons.mp hL' with rfl | hL'
        · rfl
        · exact ih' L' hL'
      | some p =>
        obtain ⟨K, x⟩ := p
        rw [hsel] at ih'
        obtain ⟨v, r, h1, h2, h3⟩ := ih'
        simp only [Option.map_some]
        refine ⟨v, r, by simpa using h1, ?_, ?_⟩
        · rw [munion_cons, merge2_nil_left, h2]
          simp [munion, dropKey]
        · intro L' hL'
          rcases List.mem_cons.mp hL' with rfl | hL'
          · intro e he; simp at he
          · exact h3 L' hL'
    | cons l L' =>
      obtain ⟨k, v0⟩ := l
      simp only [List.map_cons, headKey, List.head?_cons, Option.map_some, selMin]
      have hLk : AllGE rev k ((k, v0) :: L') := allGE_of_head hsL (dlt_irrefl rev k)
      cases hsel : selMin rev (Ls.map headKey) with
      | none =>
        rw [hsel] at ih'
        have hU : munion rev Ls = [] := munion_eq_nil ih'
        refine ⟨v0, L', by simp, ?_, ?_⟩
        · rw [munion_cons, hU, merge2_nil_right]
          have : munion rev ((((k, v0) :: L') :: Ls).map (dropKey k)) = L' := by
            rw [List.map_cons, munion_cons, dropKey_cons_self]
            rw [munion_eq_nil, merge2_nil_right]
            intro L'' hL''
            obtain ⟨L3, hL3, rfl⟩ := List.mem_map.mp hL''
            rw [ih' L3 hL3]; rfl
          rw [List.map_cons] at this
          rw [this]
        · intro L'' hL''
          rcases List.mem_cons.mp hL'' with rfl | hL''
          · exact hLk
          · rw [ih' L'' hL'']; intro e he; simp at he
      | some p =>
        obtain ⟨K', j⟩ := p
        rw [hsel] at ih'
        obtain ⟨v', r', h1, h2, h3⟩ := ih'
        by_cases hm : mless rev K' k = true
        · -- a lower layer holds a strictly smaller key
          have hm' : dlt rev K' k = true := hm
          simp only [hm, if_true]
          refine ⟨v', r', by simpa using h1, ?_, ?_⟩
          · rw [munion_cons, h2, merge2_cons_cons]
            simp only [dlt_asymm hm', hm', if_true, Bool.false_eq_true, if_false]
            rw [munion_cons, dropKey_of_ne (dlt_ne hm').symm]
          · intro L'' hL''
            rcases List.mem_cons.mp hL'' with rfl | hL''
            · exact allGE_of_head hsL (dlt_asymm hm')
            · exact h3 L'' hL''
        · have hm' : dlt rev K' k = false := by rw [← mless_eq_dlt]; simpa using hm
          simp only [hm, if_false, Bool.false_eq_true]
          have hLs : ∀ L'' ∈ Ls, AllGE rev k L'' := by
            intro L'' hL'' e he
            exact not_dlt_trans (h3 L'' hL'' e he) hm'
          refine ⟨v0, L', by simp, ?_, ?_⟩
          · rw [munion_cons, munion_cons, dropKey_cons_self, munion_dropKey hLs, h2,
              merge2_cons_cons]
            by_cases hk : dlt rev k K' = true
            · simp only [hk, if_true]
              rw [dropKey_of_ne (dlt_ne hk).symm]
            · have hk' : dlt rev k K' = false := by simpa using hk
              have : k = K' := eq_of_not_dlt hk' hm'
              subst this
              simp only [dlt_irrefl, Bool.false_eq_true, if_false]
              rw [dropKey_cons_self]
          · intro L'' hL''
            rcases List.mem_cons.mp hL'' with rfl | hL''
            · exact hLk
            · exact hLs L'' hL''

/-! ### seeking commutes with the union -/

theorem dw_pos {p : Entry → Bool} {a : Entry} {l : List Entry} (h : p a = true) :
    (a :: l).dropWhile p = l.dropWhile p := by simp [List.dropWhile_cons, h]

theorem dw_neg {p : Entry → Bool} {a : Entry} {l : List Entry} (h : ¬ p a = true) :
    (a :: l).dropWhile p = a :: l := List.dropWhile_cons_of_neg h

theorem merge2_dropWhile (rev : Bool) (k : Bytes) (L U : List Entry) :
    merge2 rev (L.dropWhile (before rev k)) (U.dropWhile (before rev k))
      = (merge2 rev L U).dropWhile (before rev k) := by
  induction L generalizing U with
  | nil => simp
  | cons l L' ihL =>
    induction U with
    | nil => simp
    | cons u U' ihU =>
      rw [merge2_cons_cons]
      by_cases hl : before rev k l = true
      · by_cases hu : before rev k u = true
        · -- both heads are before k
          by_cases h1 : dlt rev l.1 u.1 = true
          · rw [if_pos h1, dw_pos hl, dw_pos hl, ← ihL]
          · rw [if_neg h1]
            by_cases h2 : dlt rev u.1 l.1 = true
            · rw [if_pos h2, dw_pos hu, dw_pos hu, ← ihU]
            · rw [if_neg h2, dw_pos hl, dw_pos hl, dw_pos hu, ← ihL]
        · -- l before k, u not: then l < u
          have hu' : before rev k u = false := by simpa using hu
          have h1 : dlt rev l.1 u.1 = true := by
            rw [before_eq_dlt] at hl hu'
            rcases dlt_trichotomy rev l.1 u.1 with h | h | h
            · exact h
            · rw [h] at hl; rw [hl] at hu'; cases hu'
            · rw [dlt_trans h hl] at hu'; cases hu'
          rw [if_pos h1, dw_pos hl, dw_pos hl, ← ihL]
      · have hl' : before rev k l = false := by simpa using hl
        by_cases hu : before rev k u = true
        · have h2 : dlt rev u.1 l.1 = true := by
            rw [before_eq_dlt] at hl' hu
            rcases dlt_trichotomy rev u.1 l.1 with h | h | h
            · exact h
            · rw [h] at hu; rw [hu] at hl'; cases hl'
            · rw [dlt_trans h hu] at hl'; cases hl'
          rw [if_neg (by rw [dlt_asymm h2]; simp), if_pos h2, dw_pos hu, dw_pos hu, ← ihU]
        · -- neither head is before k: nothing is dropped
          rw [dw_neg hl, dw_neg hu, merge2_cons_cons]
          by_cases h1 : dlt rev l.1 u.1 = true
          · rw [if_pos h1, dw_neg hl]
          · rw [if_neg h1]
            by_cases h2 : dlt rev u.1 l.1 = true
            · rw [if_pos h2, dw_neg hu]
            · rw [if_neg h2, dw_neg hl]

theorem munion_dropWhile (rev : Bool) (k : Bytes) (Ls : List (List Entry)) :
    munion rev (Ls.map (fun L => L.dropWhile (before rev k))) = (munion rev Ls).dropWhile (before rev k) := by
  induction Ls with
  | nil => simp [munion]
  | cons L Ls ih =>
    rw [List.map_cons, munion_cons, munion_cons, ih, merge2_dropWhile]

end C07
