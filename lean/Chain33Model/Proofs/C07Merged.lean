import Chain33Model.Proofs.C07Merge
import Chain33Model.Proofs.C07Plain
/-!
The merged iterator (`C07.MIter`, Go `mergedIterator`) is a cursor over the left-biased
ordered union of its layers.
-/
namespace C07
open C06

/-! ### facts about the layer iterators -/

theorem Iter.rest_sublist_all (it : Iter) : it.rest.Sublist it.all := by
  unfold Iter.rest Iter.all
  cases it.pos with
  | on i =>
    by_cases hrev : it.reverse = true
    · simp only [hrev, if_true]; exact (List.take_sublist _ _).reverse
    · simp only [hrev, if_false, Bool.false_eq_true]; exact List.drop_sublist _ _
  | soi => simp
  | eoi => simp

theorem Iter.dsorted_all {it : Iter} (h : it.WF) : DSorted it.reverse it.all := by
  unfold Iter.all
  by_cases hrev : it.reverse = true
  · simp only [hrev, if_true]; exact dsorted_reverse_of_sorted h.1
  · have : it.reverse = false := by simpa using hrev
    simp only [this, Bool.false_eq_true, if_false]; exact dsorted_of_sorted h.1

theorem Iter.dsorted_rest {it : Iter} (h : it.WF) : DSorted it.reverse it.rest :=
  List.Pairwise.sublist (Iter.rest_sublist_all it) (Iter.dsorted_all h)

/-- the key the merged iterator records for a layer: `some Key()` if the call returned true. -/
theorem keyOf_eq_headKey {r : Iter × Bool} (h : r.1.WF) (hv : r.2 = r.1.valid) :
    keyOf r = headKey r.1.rest := by
  unfold keyOf headKey
  rw [hv]
  cases hr : r.1.rest with
  | nil =>
    have : r.1.valid = false := by
      cases hvv : r.1.valid with
      | false => rfl
      | true => exact absurd hr ((Iter.valid_iff_rest h).mp hvv)
    simp [this]
  | cons e rs =>
    have : r.1.valid = true := (Iter.valid_iff_rest h).mpr (by simp [hr])
    simp [this, (Iter.head_of_rest h hr).1]

theorem and_valid_self {it : Iter} (h : it.WF) : (it.uValid && it.valid) = it.valid := by
  rw [Iter.valid_eq_uValid h]; simp

theorem Iter.rewind_snd {it : Iter} (h : it.WF) : it.rewind.2 = it.rewind.1.valid := by
  have hw := (Iter.rewind_rest h).1
  have : it.rewind.2 = (it.rewind.1.uValid && it.rewind.1.valid) := rfl
  rw [this, and_valid_self hw]

theorem Iter.next_snd {it : Iter} (hw : it.next.1.WF) : it.next.2 = it.next.1.valid := by
  have : it.next.2 = (it.next.1.uValid && it.next.1.valid) := rfl
  rw [this, and_valid_self hw]

theorem Iter.seek_snd {it : Iter} (h : it.WF) (k : Bytes) : (it.seek k).2 = (it.seek k).1.valid := by
  have hw := (Iter.seek_rest h k).1
  unfold Iter.seek at hw ⊢
  by_cases hc : (it.reverse && (it.uSeek k).key != k) = true
  · simp only [hc, if_true] at hw ⊢
    exact and_valid_self hw
  · simp only [hc, if_false, Bool.false_eq_true] at hw ⊢
    exact (Iter.valid_eq_uValid hw).symm

/-! ### invariant and abstraction -/

def subRests (it : MIter) : List (List Entry) := it.iters.map Iter.rest

/-- entries the merged iterator still has to visit. -/
def MIter.rest (it : MIter) : List Entry := munion it.reverse (subRests it)

structure MInv (rev : Bool) (it : MIter) : Prop where
  rev_eq : it.reverse = rev ∨ it.iters.length ≤ 1
  subs : ∀ sub ∈ it.iters, sub.WF ∧ sub.reverse = rev
  keys_eq : it.keys = (subRests it).map headKey
  state : (it.valid = true ∧ selMin rev it.keys = some (it.prevKey, it.index))
        ∨ (it.valid = false ∧ ∀ L ∈ subRests it, L = [])

theorem MInv.dsorted {rev : Bool} {it : MIter} (h : MInv rev it) : ∀ L ∈ subRests it, DSorted rev L := by
  intro L hL
  obtain ⟨sub, hsub, rfl⟩ := List.mem_map.mp hL
  have := h.subs sub hsub
  rw [← this.2]; exact Iter.dsorted_rest this.1

/-- with at most one layer the direction flag of the merged iterator is never consulted
(`NewMergedIterator` sets it to `true` for a single iterator). -/
theorem selMin_irrel {r1 r2 : Bool} {ks : List (Option Bytes)} (h : ks.length ≤ 1) :
    selMin r1 ks = selMin r2 ks := by
  match ks, h with
  | [], _ => rfl
  | [none], _ => rfl
  | [some k], _ => rfl

theorem munion_irrel {r1 r2 : Bool} {Ls : List (List Entry)} (h : Ls.length ≤ 1) :
    munion r1 Ls = munion r2 Ls := by
  match Ls, h with
  | [], _ => rfl
  | [L], _ => simp [munion]

theorem selectFrom_sel {rev : Bool} {it : MIter} (hrev : it.reverse = rev ∨ it.keys.length ≤ 1) :
    selectFrom it.reverse it.keys 0 none = selMin rev it.keys := by
  rw [selectFrom_zero]
  rcases hrev with h | h
  · rw [h]
  · exact selMin_irrel h

theorem MInv.munion_eq {rev : Bool} {it : MIter} (h : MInv rev it) :
    munion it.reverse (subRests it) = munion rev (subRests it) := by
  rcases h.rev_eq with h' | h'
  · rw [h']
  · exact munion_irrel (by simpa [subRests] using h')

/-- what `selectKey` does to a state whose `keys` are the layer heads. -/
theorem selectKey_spec {rev : Bool} {it : MIter} (hrev : it.reverse = rev ∨ it.keys.length ≤ 1)
    (hsubs : ∀ sub ∈ it.iters, sub.WF ∧ sub.reverse = rev)
    (hkeys : it.keys = (subRests it).map headKey) (hdir : it.dir ≠ .fault) :
    let r := it.selectKey
    r.1.iters = it.iters ∧ r.1.keys = it.keys ∧ r.1.reverse = it.reverse ∧
    (match selMin rev it.keys with
     | none => r.2 = false ∧ r.1.dir = .eoi ∧ (∀ L ∈ subRests it, L = [])
     | some (K, x) => r.2 = true ∧ r.1.dir = .forward ∧ r.1.index = x ∧
         r.1.prevKey = (if it.dir = .soi then K else it.prevKey)) := by
  intro r
  have hsel : selectFrom it.reverse it.keys 0 none = selMin rev it.keys := selectFrom_sel hrev
  have hds : ∀ L ∈ subRests it, DSorted rev L := by
    intro L hL
    obtain ⟨sub, hsub, rfl⟩ := List.mem_map.mp hL
    have := hsubs sub hsub
    rw [← this.2]; exact Iter.dsorted_rest this.1
  have hhead := munion_head hds
  rw [← hkeys] at hhead
  cases hm : selMin rev it.keys with
  | none =>
    rw [hm] at hhead
    have : r = ({ it with dir := .eoi }, false) := by
      show it.selectKey = _
      unfold MIter.selectKey; rw [hsel, hm]
    rw [this]
    exact ⟨rfl, rfl, rfl, rfl, rfl, hhead⟩
  | some p =>
    obtain ⟨K, x⟩ := p
    have : r = ({ it with index := x, prevKey := if it.dir = .soi then K else it.prevKey, dir := .forward }, true) := by
      show it.selectKey = _
      unfold MIter.selectKey; rw [hsel, hm]
    rw [this]
    exact ⟨rfl, rfl, rfl, rfl, rfl, rfl, rfl⟩

theorem MIter.valid_of_dir {it : MIter} : it.valid = true ↔ (it.dir = .forward ∨ it.dir = .seek) := by
  unfold MIter.valid; simp

/-- all layers positioned with `f` (Rewind or Seek), before `selectKey`. -/
def positioned (it : MIter) (f : Iter → Iter × Bool) : MIter :=
  { it with iters := (it.iters.map f).map (·.1), keys := (it.iters.map f).map keyOf, dir := .soi }

def finish (r : MIter × Bool) (d d0 : MDir) : MIter :=
  if r.2 then { r.1 with dir := d } else { r.1 with dir := d0 }

/-- positioning every layer with `f` (Rewind or Seek) and selecting. -/
theorem position_spec {rev : Bool} {it : MIter} (f : Iter → Iter × Bool)
    (hrev : it.reverse = rev ∨ it.iters.length ≤ 1) (hsubs : ∀ sub ∈ it.iters, sub.WF ∧ sub.reverse = rev)
    (hf : ∀ sub, sub.WF → (f sub).1.WF ∧ (f sub).1.reverse = sub.reverse ∧ (f sub).2 = (f sub).1.valid)
    (d : MDir) (hd : d = .forward ∨ d = .seek) (d0 : MDir) (hd0 : d0 = .eoi ∨ d0 = .soi) :
    MInv rev (finish (positioned it f).selectKey d d0)
      ∧ subRests (finish (positioned it f).selectKey d d0) = it.iters.map (fun sub => (f sub).1.rest) := by
  let rs := it.iters.map f
  let r := MIter.selectKey (positioned it f)
  let out : MIter := finish r d d0
  show MInv rev out ∧ subRests out = _
  let it0 : MIter := { it with iters := rs.map (·.1), keys := rs.map keyOf, dir := .soi }
  have hsubs0 : ∀ sub ∈ it0.iters, sub.WF ∧ sub.reverse = rev := by
    intro sub hsub
    simp only [it0, rs, List.map_map, List.mem_map] at hsub
    obtain ⟨s, hs, rfl⟩ := hsub
    have := hf s (hsubs s hs).1
    exact ⟨this.1, by rw [Function.comp, this.2.1]; exact (hsubs s hs).2⟩
  have hrests0 : subRests it0 = it.iters.map (fun sub => (f sub).1.rest) := by
    simp [subRests, it0, rs, List.map_map, Function.comp]
  have hkeys0 : it0.keys = (subRests it0).map headKey := by
    rw [hrests0]
    simp only [it0, rs, List.map_map]
    apply List.map_congr_left
    intro s hs
    have := hf s (hsubs s hs).1
    exact keyOf_eq_headKey this.1 this.2.2
  have hrev0 : it0.reverse = rev ∨ it0.keys.length ≤ 1 := by
    rcases hrev with h | h
    · exact Or.inl h
    · exact Or.inr (by simpa [it0, rs] using h)
  have hrevOut : ∀ (x : MIter), x.reverse = it0.reverse → x.iters = it0.iters →
      x.reverse = rev ∨ x.iters.length ≤ 1 := by
    intro x hx1 hx2
    rcases hrev with h | h
    · exact Or.inl (by rw [hx1]; exact h)
    · exact Or.inr (by rw [hx2]; simpa [it0, rs] using h)
  have hspec := selectKey_spec (it := it0) hrev0 hsubs0 hkeys0 (by simp [it0])
  obtain ⟨hi, hk, hr, hcase⟩ := hspec
  have hr1 : r = it0.selectKey := rfl
  cases hm : selMin rev it0.keys with
  | none =>
    rw [hm] at hcase
    obtain ⟨h2, _, hall⟩ := hcase
    have hout : out = { r.1 with dir := d0 } := by simp [out, finish, hr1, h2]
    have hsr : subRests out = subRests it0 := by rw [hout]; simp [subRests, hr1, hi]
    refine ⟨⟨?_, ?_, ?_, ?_⟩, by rw [hsr, hrests0]⟩
    · rw [hout]; exact hrevOut _ (by show r.1.reverse = _; rw [hr1, hr]) (by show r.1.iters = _; rw [hr1, hi])
    · rw [hout]; show ∀ sub ∈ r.1.iters, _; rw [hr1, hi]; exact hsubs0
    · rw [hsr, hout]; show r.1.keys = _; rw [hr1, hk]; exact hkeys0
    · right
      refine ⟨?_, by rw [hsr]; exact hall⟩
      rw [hout]
      rcases hd0 with rfl | rfl <;> simp [MIter.valid]
  | some p =>
    obtain ⟨K, x⟩ := p
    rw [hm] at hcase
    obtain ⟨h2, _, hx, hp⟩ := hcase
    have hout : out = { r.1 with dir := d } := by simp [out, finish, hr1, h2]
    have hsr : subRests out = subRests it0 := by rw [hout]; simp [subRests, hr1, hi]
    refine ⟨⟨?_, ?_, ?_, ?_⟩, by rw [hsr, hrests0]⟩
    · rw [hout]; exact hrevOut _ (by show r.1.reverse = _; rw [hr1, hr]) (by show r.1.iters = _; rw [hr1, hi])
    · rw [hout]; show ∀ sub ∈ r.1.iters, _; rw [hr1, hi]; exact hsubs0
    · rw [hsr, hout]; show r.1.keys = _; rw [hr1, hk]; exact hkeys0
    · left
      refine ⟨?_, ?_⟩
      · rw [hout]; rcases hd with rfl | rfl <;> simp [MIter.valid]
      · rw [hout]
        show selMin rev r.1.keys = some (r.1.prevKey, r.1.index)
        rw [hr1, hk, hm, hx, hp]; simp [it0]

theorem selectKey_dir (it : MIter) :
    it.selectKey.1 = (if it.selectKey.2 then { it.selectKey.1 with dir := .forward }
                      else { it.selectKey.1 with dir := .eoi }) := by
  unfold MIter.selectKey
  cases selectFrom it.reverse it.keys 0 none with
  | none => rfl
  | some p => rfl

theorem MIter.rewind_spec {rev : Bool} {it : MIter} (hrev : it.reverse = rev ∨ it.iters.length ≤ 1)
    (hsubs : ∀ sub ∈ it.iters, sub.WF ∧ sub.reverse = rev) (hdir : it.dir ≠ .fault) :
    MInv rev it.rewind.1 ∧ subRests it.rewind.1 = it.iters.map Iter.all := by
  have h := position_spec (it := it) Iter.rewind hrev hsubs
    (fun sub hw => ⟨(Iter.rewind_rest hw).1, (Iter.rewind_rest hw).2.2.1, Iter.rewind_snd hw⟩)
    .forward (Or.inl rfl) .eoi (Or.inl rfl)
  have he : it.rewind.1 = finish (positioned it Iter.rewind).selectKey .forward .eoi := by
    unfold MIter.rewind finish
    rw [if_neg hdir]
    exact selectKey_dir _
  rw [he]
  refine ⟨h.1, ?_⟩
  rw [h.2]
  apply List.map_congr_left
  intro sub hsub
  exact (Iter.rewind_rest (hsubs sub hsub).1).2.1

theorem MIter.seek_spec {rev : Bool} {it : MIter} (hrev : it.reverse = rev ∨ it.iters.length ≤ 1)
    (hsubs : ∀ sub ∈ it.iters, sub.WF ∧ sub.reverse = rev) (hdir : it.dir ≠ .fault) (k : Bytes) :
    MInv rev (it.seek k).1
      ∧ subRests (it.seek k).1 = it.iters.map (fun sub => sub.all.dropWhile (before rev k)) := by
  have h := position_spec (it := it) (fun sub => sub.seek k) hrev hsubs
    (fun sub hw => ⟨(Iter.seek_rest hw k).1, (Iter.seek_rest hw k).2.2.1, Iter.seek_snd hw k⟩)
    .seek (Or.inr rfl) .soi (Or.inr rfl)
  have he : (it.seek k).1 = finish (positioned it (fun sub => sub.seek k)).selectKey .seek .soi := by
    unfold MIter.seek finish
    rw [if_neg hdir]
    show (match MIter.selectKey (positioned it (fun sub => sub.seek k)) with
          | (it', ok) => if ok = true then ({ it' with dir := .seek }, true) else ({ it' with dir := .soi }, false)).1 = _
    cases hsk : MIter.selectKey (positioned it (fun sub => sub.seek k)) with
    | mk a b => cases b <;> rfl
  rw [he]
  refine ⟨h.1, ?_⟩
  rw [h.2]
  apply List.map_congr_left
  intro sub hsub
  have := hsubs sub hsub
  rw [(Iter.seek_rest this.1 k).2.1, this.2]

/-! ### `Next` -/

def sumLen (Ls : List (List Entry)) : Nat := (Ls.map List.length).sum

theorem sumLen_set {Ls : List (List Entry)} {x : Nat} {e : Entry} {r : List Entry}
    (h : Ls[x]? = some (e :: r)) : sumLen (Ls.set x r) + 1 = sumLen Ls := by
  induction Ls generalizing x with
  | nil => simp at h
  | cons L Ls ih =>
    cases x with
    | zero =>
      simp at h; subst h
      simp [sumLen, List.set]; omega
    | succ x =>
      simp at h
      have := ih h
      simp [sumLen, List.set] at this ⊢; omega

theorem dropKey_id_of_headKey_ne {K : Bytes} {L : List Entry} (h : headKey L ≠ some K) : dropKey K L = L := by
  cases L with
  | nil => rfl
  | cons e r =>
    have : e.1 ≠ K := by
      intro he; apply h; simp [headKey, he]
    simp [dropKey, this]

theorem set_eq_map_dropKey {Ls : List (List Entry)} {x : Nat} {K v : Bytes} {r : List Entry}
    (h : Ls[x]? = some ((K, v) :: r)) (hne : ∀ L ∈ Ls.set x r, headKey L ≠ some K) :
    Ls.set x r = Ls.map (dropKey K) := by
  have hx : x < Ls.length := by
    rcases List.getElem?_eq_some_iff.mp h with ⟨hx, _⟩; exact hx
  apply List.ext_getElem?
  intro j
  by_cases hj : x = j
  · subst hj
    rw [List.getElem?_set_self hx, List.getElem?_map, h]
    simp [dropKey]
  · rw [List.getElem?_set_ne hj, List.getElem?_map]
    cases hL : Ls[j]? with
    | none => rfl
    | some L =>
      have hmem : L ∈ Ls.set x r := by
        rw [List.mem_iff_getElem?]
        exact ⟨j, by rw [List.getElem?_set_ne hj]; exact hL⟩
      simp [dropKey_id_of_headKey_ne (hne L hmem)]

theorem map_dropKey_set {Ls : List (List Entry)} {x : Nat} {K v : Bytes} {r : List Entry}
    (h : Ls[x]? = some ((K, v) :: r)) (hr : dropKey K r = r) :
    (Ls.set x r).map (dropKey K) = Ls.map (dropKey K) := by
  have hx : x < Ls.length := by
    rcases List.getElem?_eq_some_iff.mp h with ⟨hx, _⟩; exact hx
  apply List.ext_getElem?
  intro j
  rw [List.getElem?_map, List.getElem?_map]
  by_cases hj : x = j
  · subst hj
    rw [List.getElem?_set_self hx, h]
    simp only [Option.map_some, hr, dropKey_cons_self]
  · rw [List.getElem?_set_ne hj]

theorem dropKey_tail_id {rev : Bool} {K v : Bytes} {r : List Entry} (hs : DSorted rev ((K, v) :: r)) :
    dropKey K r = r := by
  apply dropKey_id_of_headKey_ne
  cases r with
  | nil => simp [headKey]
  | cons e r' =>
    have : dlt rev K e.1 = true := (List.pairwise_cons.mp hs).1 e (by simp)
    simp only [headKey, List.head?_cons, Option.map_some, ne_eq, Option.some.injEq]
    exact (dlt_ne this).symm

/-- facts about a valid state: the selected layer `index` heads the union with key `prevKey`. -/
theorem MInv.vstate {rev : Bool} {it : MIter} (h : MInv rev it) (hv : it.valid = true) :
    ∃ v r sub, it.iters[it.index]? = some sub ∧ sub.rest = (it.prevKey, v) :: r
      ∧ (subRests it)[it.index]? = some ((it.prevKey, v) :: r)
      ∧ munion rev (subRests it) = (it.prevKey, v) :: munion rev ((subRests it).map (dropKey it.prevKey))
      ∧ (∀ L ∈ subRests it, AllGE rev it.prevKey L) := by
  have hsel : selMin rev it.keys = some (it.prevKey, it.index) := by
    rcases h.state with ⟨_, hs⟩ | ⟨hnv, _⟩
    · exact hs
    · rw [hv] at hnv; cases hnv
  have hhead := munion_head h.dsorted
  rw [← h.keys_eq, hsel] at hhead
  obtain ⟨v, r, h1, h2, h3⟩ := hhead
  have h1' := h1
  simp only [subRests, List.getElem?_map] at h1'
  cases hsub : it.iters[it.index]? with
  | none => rw [hsub] at h1'; simp at h1'
  | some sub =>
    rw [hsub] at h1'
    simp only [Option.map_some, Option.some.injEq] at h1'
    exact ⟨v, r, sub, rfl, h1', h1, h2, h3⟩

theorem MIter.dir_of_valid {it : MIter} (hv : it.valid = true) :
    it.dir ≠ .eoi ∧ it.dir ≠ .fault ∧ it.dir ≠ .soi := by
  rcases MIter.valid_of_dir.mp hv with h | h <;> rw [h] <;> exact ⟨by decide, by decide, by decide⟩

/-- one `next()` (lower case): the selected layer is advanced, the others are untouched. -/
theorem next1_spec {rev : Bool} {it : MIter} (h : MInv rev it) (hv : it.valid = true) :
    ∃ v r, (subRests it)[it.index]? = some ((it.prevKey, v) :: r) ∧
      ((it.next1.1).reverse = rev ∨ (it.next1.1).iters.length ≤ 1) ∧
      (∀ sub ∈ (it.next1.1).iters, sub.WF ∧ sub.reverse = rev) ∧
      (it.next1.1).keys = (subRests it.next1.1).map headKey ∧
      subRests it.next1.1 = (subRests it).set it.index r ∧
      (it.next1.1).prevKey = it.prevKey ∧
      (match selMin rev (it.next1.1).keys with
       | none => it.next1.2 = false ∧ (it.next1.1).valid = false ∧ ∀ L ∈ subRests it.next1.1, L = []
       | some (_, x') => it.next1.2 = true ∧ (it.next1.1).valid = true ∧ (it.next1.1).index = x') := by
  obtain ⟨v, r, sub, hsub, hsr, hidx, _, _⟩ := h.vstate hv
  obtain ⟨hd1, hd2, hd3⟩ := MIter.dir_of_valid hv
  refine ⟨v, r, hidx, ?_⟩
  have hsubmem : sub ∈ it.iters := List.mem_of_getElem? hsub
  have hsubwf := h.subs sub hsubmem
  obtain ⟨hnwf, hnrest, hnrev, _⟩ := Iter.next_rest hsubwf.1 hsr
  let it0 : MIter := { it with iters := it.iters.set it.index sub.next.1,
                               keys := it.keys.set it.index (keyOf sub.next) }
  have hn1 : it.next1 = it0.selectKey := by
    unfold MIter.next1
    have hc : (decide (it.dir = MDir.eoi) || decide (it.dir = MDir.fault)) = false := by simp [hd1, hd2]
    rw [if_neg (by rw [hc]; simp)]
    simp only [hsub]
    rfl
  have hklen : it.keys.length = it.iters.length := by rw [h.keys_eq]; simp [subRests]
  have hrev0 : it0.reverse = rev ∨ it0.keys.length ≤ 1 := by
    rcases h.rev_eq with h' | h'
    · exact Or.inl h'
    · exact Or.inr (by simp only [it0, List.length_set]; omega)
  have hrevOut : it0.selectKey.1.reverse = rev ∨ it0.selectKey.1.iters.length ≤ 1 := by
    rcases h.rev_eq with h' | h'
    · left
      unfold MIter.selectKey
      cases selectFrom it0.reverse it0.keys 0 none with
      | none => exact h'
      | some p => exact h'
    · right
      unfold MIter.selectKey
      cases selectFrom it0.reverse it0.keys 0 none with
      | none => simpa [it0] using h'
      | some p => simpa [it0] using h'
  have hsubs0 : ∀ s ∈ it0.iters, s.WF ∧ s.reverse = rev := by
    intro s hs
    rcases List.mem_or_eq_of_mem_set hs with hs | rfl
    · exact h.subs s hs
    · exact ⟨hnwf, by rw [hnrev]; exact hsubwf.2⟩
  have hrests0 : subRests it0 = (subRests it).set it.index r := by
    simp only [subRests, it0, List.map_set, hnrest]
  have hkeys0 : it0.keys = (subRests it0).map headKey := by
    rw [hrests0, List.map_set, ← h.keys_eq]
    simp only [it0]
    rw [keyOf_eq_headKey hnwf (Iter.next_snd hnwf), hnrest]
  have hdir0 : it0.dir ≠ .fault := hd2
  obtain ⟨hi, hk, hr, hcase⟩ := selectKey_spec hrev0 hsubs0 hkeys0 hdir0
  rw [hn1]
  have hsr0 : subRests it0.selectKey.1 = subRests it0 := by simp [subRests, hi]
  refine ⟨hrevOut, by rw [hi]; exact hsubs0, by rw [hsr0, hk]; exact hkeys0,
    by rw [hsr0]; exact hrests0, ?_, ?_⟩
  · -- prevKey is only reset from SOI
    rw [hk] at *
    cases hm : selMin rev it0.keys with
    | none =>
      have : it0.selectKey = ({ it0 with dir := .eoi }, false) := by
        unfold MIter.selectKey
        rw [selectFrom_sel hrev0, hm]
      rw [this]
    | some p =>
      rw [hm] at hcase
      obtain ⟨_, _, _, hp⟩ := hcase
      rw [hp, if_neg hd3]
  · rw [hk]
    cases hm : selMin rev it0.keys with
    | none =>
      rw [hm] at hcase
      obtain ⟨h2, hde, hall⟩ := hcase
      exact ⟨h2, by simp [MIter.valid, hde], by rw [hsr0]; exact hall⟩
    | some p =>
      obtain ⟨K', x'⟩ := p
      rw [hm] at hcase
      obtain ⟨h2, hdf, hx, _⟩ := hcase
      exact ⟨h2, by simp [MIter.valid, hdf], hx⟩

theorem dsorted_of_subs {rev : Bool} {it : MIter} (hsubs : ∀ sub ∈ it.iters, sub.WF ∧ sub.reverse = rev) :
    ∀ L ∈ subRests it, DSorted rev L := by
  intro L hL
  obtain ⟨sub, hsub, rfl⟩ := List.mem_map.mp hL
  have := hsubs sub hsub
  rw [← this.2]; exact Iter.dsorted_rest this.1

theorem headKey_eq_some {L : List Entry} {K : Bytes} (h : headKey L = some K) : ∃ v r, L = (K, v) :: r := by
  cases L with
  | nil => simp [headKey] at h
  | cons e r =>
    simp only [headKey, List.head?_cons, Option.map_some, Option.some.injEq] at h
    exact ⟨e.2, r, by rw [← h]⟩

/-- `Next`: every layer whose head carries the current key is advanced past it, nothing else moves. -/
theorem nextLoop_spec {rev : Bool} : ∀ (fuel : Nat) (it : MIter), MInv rev it → it.valid = true →
    sumLen (subRests it) < fuel →
    MInv rev (MIter.nextLoop fuel it).1 ∧
      subRests (MIter.nextLoop fuel it).1 = (subRests it).map (dropKey it.prevKey) := by
  intro fuel
  induction fuel with
  | zero => intro it _ _ hf; omega
  | succ n ih =>
    intro it h hv hf
    obtain ⟨_, _, hd3⟩ := MIter.dir_of_valid hv
    obtain ⟨v, r, hidx, hrev1, hsubs1, hkeys1, hrests1, hprev1, hcase⟩ := next1_spec h hv
    obtain ⟨_, _, _, _, _, _, _, hall⟩ := h.vstate hv
    have hLmem : ((it.prevKey, v) :: r) ∈ subRests it := List.mem_of_getElem? hidx
    have hds0 : DSorted rev ((it.prevKey, v) :: r) := h.dsorted _ hLmem
    have hds1 := dsorted_of_subs hsubs1
    -- every remaining list still has all keys ≥ the current key
    have hall1 : ∀ L ∈ subRests it.next1.1, AllGE rev it.prevKey L := by
      intro L hL
      rw [hrests1] at hL
      rcases List.mem_or_eq_of_mem_set hL with hL | rfl
      · exact hall L hL
      · intro e he
        exact hall _ hLmem e (List.mem_cons_of_mem _ he)
    have hloop : MIter.nextLoop (n + 1) it =
        (if !it.next1.2 then (it.next1.1, false)
         else if it.next1.1.key != it.next1.1.prevKey then
           ({ it.next1.1 with prevKey := it.next1.1.key }, true)
         else MIter.nextLoop n it.next1.1) := by
      rw [MIter.nextLoop, if_neg hd3]
    rw [hloop]
    cases hm : selMin rev it.next1.1.keys with
    | none =>
      rw [hm] at hcase
      obtain ⟨h2, hnv, hnil⟩ := hcase
      simp only [h2, Bool.not_false, if_true]
      refine ⟨⟨hrev1, hsubs1, hkeys1, Or.inr ⟨hnv, hnil⟩⟩, ?_⟩
      rw [hrests1]
      apply set_eq_map_dropKey hidx
      intro L hL
      rw [← hrests1] at hL
      rw [hnil L hL]; simp [headKey]
    | some p =>
      obtain ⟨K', x'⟩ := p
      rw [hm] at hcase
      obtain ⟨h2, hvl, hx'⟩ := hcase
      simp only [h2, Bool.not_true, Bool.false_eq_true, if_false]
      -- the newly selected key
      have hhead := munion_head hds1
      rw [← hkeys1, hm] at hhead
      obtain ⟨v2, r2, hidx2, _, hallK'⟩ := hhead
      have hkey : it.next1.1.key = K' := by
        unfold MIter.key
        rw [hvl, if_pos rfl, hx', hkeys1, List.getElem?_map, hidx2]
        simp [headKey]
      rw [hkey, hprev1]
      by_cases hK : K' = it.prevKey
      · -- same key in a lower-priority layer: skip it
        have hb : (K' != it.prevKey) = false := by simp [hK]
        simp only [hb, Bool.false_eq_true, if_false]
        have hinv1 : MInv rev it.next1.1 :=
          ⟨hrev1, hsubs1, hkeys1, Or.inl ⟨hvl, by rw [hm, hprev1, hx', hK]⟩⟩
        have hfuel : sumLen (subRests it.next1.1) < n := by
          rw [hrests1]; have := sumLen_set hidx; omega
        obtain ⟨hi, hr⟩ := ih it.next1.1 hinv1 hvl hfuel
        refine ⟨hi, ?_⟩
        rw [hr, hprev1, hrests1]
        exact map_dropKey_set hidx (dropKey_tail_id hds0)
      · have hb : (K' != it.prevKey) = true := by simp [hK]
        simp only [hb, if_true]
        refine ⟨⟨hrev1, hsubs1, hkeys1, Or.inl ⟨hvl, ?_⟩⟩, ?_⟩
        · show selMin rev it.next1.1.keys = some (K', it.next1.1.index)
          rw [hm, hx']
        · show subRests it.next1.1 = _
          rw [hrests1]
          apply set_eq_map_dropKey hidx
          intro L hL hk
          rw [← hrests1] at hL
          obtain ⟨vL, rL, rfl⟩ := headKey_eq_some hk
          -- K ≥ K' (K' is the minimum) and K' ≥ K (everything is ≥ K)
          have h1 : dlt rev it.prevKey K' = false := hallK' _ hL (it.prevKey, vL) (by simp)
          have hmem2 : ((K', v2) :: r2) ∈ subRests it.next1.1 := List.mem_of_getElem? hidx2
          have h2' : dlt rev K' it.prevKey = false := hall1 _ hmem2 (K', v2) (by simp)
          exact hK (eq_of_not_dlt h2' h1)

/-! ### the merged iterator is a cursor over the union -/

theorem sumLen_le_size (it : MIter) : sumLen (subRests it) ≤ it.size := by
  unfold sumLen subRests MIter.size
  induction it.iters with
  | nil => simp
  | cons s ss ih =>
    simp only [List.map_cons, List.sum_cons]
    have := @Iter.rest_length_le s
    omega

theorem MInv.rest_valid {rev : Bool} {it : MIter} (h : MInv rev it) :
    it.valid = true ↔ it.rest ≠ [] := by
  unfold MIter.rest
  rw [h.munion_eq]
  constructor
  · intro hv
    obtain ⟨v, r, _, _, _, _, hm, _⟩ := h.vstate hv
    rw [hm]; simp
  · intro hne
    rcases h.state with ⟨hv, _⟩ | ⟨_, hnil⟩
    · exact hv
    · exact absurd (munion_eq_nil hnil) hne

theorem mergedCursor (rev : Bool) : Cursor mergedOps (MInv rev) MIter.rest where
  valid_iff := fun _ h => h.rest_valid
  head := by
    intro it e r h hr
    have hv : it.valid = true := h.rest_valid.mpr (by rw [hr]; simp)
    obtain ⟨v, r', sub, hsub, hsr, hidx, hm, _⟩ := h.vstate hv
    have he : e = (it.prevKey, v) := by
      have : it.rest = (it.prevKey, v) :: munion rev ((subRests it).map (dropKey it.prevKey)) := by
        unfold MIter.rest; rw [h.munion_eq]; exact hm
      rw [hr] at this
      exact (List.cons.inj this).1
    subst he
    constructor
    · show it.key = it.prevKey
      unfold MIter.key
      rw [hv, if_pos rfl, h.keys_eq, List.getElem?_map, hidx]
      simp [headKey]
    · show it.value = v
      unfold MIter.value
      rw [hv, if_pos rfl, hsub]
      have hw := h.subs sub (List.mem_of_getElem? hsub)
      exact (Iter.head_of_rest hw.1 hsr).2.1
  next := by
    intro it e r h hr
    have hv : it.valid = true := h.rest_valid.mpr (by rw [hr]; simp)
    obtain ⟨v, r', _, _, _, _, hm, _⟩ := h.vstate hv
    have hfuel : sumLen (subRests it) < it.size + 2 := by have := sumLen_le_size it; omega
    obtain ⟨hi, hrs⟩ := nextLoop_spec (it.size + 2) it h hv hfuel
    refine ⟨hi, ?_⟩
    show MIter.rest (MIter.nextLoop (it.size + 2) it).1 = r
    unfold MIter.rest
    rw [hi.munion_eq, hrs]
    have : it.rest = (it.prevKey, v) :: munion rev ((subRests it).map (dropKey it.prevKey)) := by
      unfold MIter.rest; rw [h.munion_eq]; exact hm
    rw [hr] at this
    exact (List.cons.inj this).2.symm

/-- the layers' in-range entries in iteration order, merged (the first layer has priority). -/
def mergedAll (layers : List Map) (start : Bytes) (end_ : Option Bytes) (rev : Bool) : List Entry :=
  munion rev (layers.map (fun m => ordered rev (range m start (effEnd start end_))))

theorem mergedIter_reverse (layers : List Map) (start : Bytes) (end_ : Option Bytes) (rev : Bool) :
    (mergedIter layers start end_ rev).reverse = rev ∨ (mergedIter layers start end_ rev).iters.length ≤ 1 := by
  unfold mergedIter MIter.mk'
  match layers with
  | [] => exact Or.inr (by simp)
  | [_] => exact Or.inr (by simp)
  | a :: b :: rest => exact Or.inl rfl

/-- the merged iterator over any number of layers (also the single-layer case, where
`NewMergedIterator` defaults its direction flag to `true`) is a cursor over the union. -/
theorem mergedRangeCursor {layers : List Map} (hs : ∀ m ∈ layers, Sorted m)
    (start : Bytes) (end_ : Option Bytes) (rev : Bool) :
    RangeCursor mergedOps (MInv rev) MIter.rest (mergedIter layers start end_ rev)
      (mergedAll layers start end_ rev) rev := by
  have hrev := mergedIter_reverse layers start end_ rev
  have hsubs : ∀ sub ∈ (mergedIter layers start end_ rev).iters, sub.WF ∧ sub.reverse = rev := by
    intro sub hsub
    simp only [mergedIter, MIter.mk', List.mem_map] at hsub
    obtain ⟨m, hm, rfl⟩ := hsub
    exact ⟨Iter.wf_mk' (hs m hm) start end_ rev, rfl⟩
  have hdir : (mergedIter layers start end_ rev).dir ≠ .fault := by simp [mergedIter, MIter.mk']
  have halls : (mergedIter layers start end_ rev).iters.map Iter.all
      = layers.map (fun m => ordered rev (range m start (effEnd start end_))) := by
    simp only [mergedIter, MIter.mk', List.map_map]
    apply List.map_congr_left
    intro m _
    cases rev <;> simp [Iter.all, Iter.mk', ordered]
  refine ⟨mergedCursor rev, ?_, ?_⟩
  · obtain ⟨hi, hr⟩ := MIter.rewind_spec hrev hsubs hdir
    refine ⟨hi, ?_⟩
    show MIter.rest (MIter.rewind (mergedIter layers start end_ rev)).1 = _
    unfold MIter.rest mergedAll
    rw [hi.munion_eq, hr, halls]
  · intro k
    obtain ⟨hi, hr⟩ := MIter.seek_spec hrev hsubs hdir k
    refine ⟨hi, ?_⟩
    show MIter.rest (MIter.seek (mergedIter layers start end_ rev) k).1 = _
    unfold MIter.rest mergedAll
    rw [hi.munion_eq, hr, ← munion_dropWhile, ← halls, List.map_map]
    rfl

end C07
