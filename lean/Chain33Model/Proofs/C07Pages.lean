import Chain33Model.Proofs.C07Cursor
/-!
Paging over a direction-sorted list: the pages of the protocol `pagedAll` concatenate to the
live entries, in order, each once.
-/
namespace C07
open C06

/-- `a` strictly before `b` in iteration order. -/
def dlt (rev : Bool) (a b : Bytes) : Bool := if rev then blt b a else blt a b

/-- sorted in iteration order (ascending, or descending when `rev`), keys distinct. -/
def DSorted (rev : Bool) (L : List Entry) : Prop := L.Pairwise (fun a b => dlt rev a.1 b.1 = true)

theorem before_eq_dlt (rev : Bool) (k : Bytes) (e : Entry) : before rev k e = dlt rev e.1 k := by
  cases rev <;> rfl

theorem dlt_irrefl (rev : Bool) (a : Bytes) : dlt rev a a = false := by
  cases rev <;> simp [dlt, blt_irrefl]

theorem dsorted_of_sorted {L : List Entry} (h : Sorted L) : DSorted false L := by
  simpa [DSorted, dlt, Sorted] using h

theorem dsorted_reverse_of_sorted {L : List Entry} (h : Sorted L) : DSorted true L.reverse := by
  unfold DSorted
  rw [List.pairwise_reverse]
  simpa [dlt, Sorted] using h

/-- continuing after the key of an element of a direction-sorted list yields what follows it. -/
theorem remaining_split {rev : Bool} {P S : List Entry} {x : Entry}
    (hs : DSorted rev (P ++ x :: S)) (hx : x.1 ≠ []) :
    remaining (P ++ x :: S) rev x.1 = S := by
  have hne : x.1.isEmpty = false := by
    cases h : x.1 with
    | nil => exact absurd h hx
    | cons _ _ => rfl
  unfold remaining
  simp only [hne, Bool.false_eq_true, if_false]
  have hP : ∀ a ∈ P, before rev x.1 a = true := by
    intro a ha
    rw [before_eq_dlt]
    exact (List.pairwise_append.mp hs).2.2 a ha x (by simp)
  rw [dropWhile_append_of_forall hP, List.dropWhile_cons_of_neg (by simp [before_eq_dlt, dlt_irrefl])]
  simp [skipKey]

/-- the first `c ≥ 1` elements of a filtered list end at some element `x` of the list. -/
theorem take_filter_split (q : Entry → Bool) {c : Nat} (hc : 1 ≤ c) (R : List Entry) :
    R.filter q = [] ∨ ∃ P x S, R = P ++ x :: S ∧ (R.filter q).take c = P.filter q ++ [x] := by
  induction R generalizing c with
  | nil => exact Or.inl rfl
  | cons a R ih =>
    by_cases hq : q a = true
    · right
      cases c with
      | zero => omega
      | succ c' =>
        cases c' with
        | zero => exact ⟨[], a, R, rfl, by simp [hq]⟩
        | succ c'' =>
          rcases ih (c := c'' + 1) (by omega) with h | ⟨P, x, S, h1, h2⟩
          · exact ⟨[], a, R, rfl, by simp [hq, h]⟩
          · refine ⟨a :: P, x, S, by simp [h1], ?_⟩
            simp only [List.filter_cons, hq, if_true, List.take_succ_cons, List.cons_append]
            rw [h2]
    · rcases ih hc with h | ⟨P, x, S, h1, h2⟩
      · left; simp [hq, h]
      · right
        refine ⟨a :: P, x, S, by simp [h1], ?_⟩
        simpa [hq] using h2

theorem pagedAll_spec {page : Bytes → Option (List Entry)} {all : List Entry} {rev : Bool} {count : Nat}
    (hpage : ∀ key, page key = some (takeC count 0 (live (remaining all rev key))))
    (hs : DSorted rev all) (hk : ∀ e ∈ all, e.1 ≠ []) (hc : 1 ≤ count)
    {n : Nat} {key : Bytes} {P R : List Entry} (hsplit : all = P ++ R)
    (hrem : remaining all rev key = R) (hn : R.length < n) :
    pagedAll page n key = some (live R) := by
  induction n generalizing key P R with
  | zero => omega
  | succ n ih =>
    simp only [pagedAll, hpage, hrem]
    have htake : takeC count 0 (live R) = (live R).take count := by simp [takeC, show 0 < count by omega]
    rw [htake]
    rcases take_filter_split (fun e => !isDeleted e.2) hc R with h | ⟨P', x, S, h1, h2⟩
    · have : live R = [] := h
      simp [this]
    · have h2' : (live R).take count = live P' ++ [x] := h2
      rw [h2']
      have hlast : (live P' ++ [x]).getLast? = some x := by simp
      simp only [hlast]
      have hall : all = (P ++ P') ++ x :: S := by rw [hsplit, h1]; simp
      have hx : x.1 ≠ [] := hk x (by rw [hall]; simp)
      have hrem' : remaining all rev x.1 = S := by
        rw [hall]; exact remaining_split (hall ▸ hs) hx
      rw [ih (P := P ++ P' ++ [x]) (R := S) (by rw [hall]; simp) hrem' (by rw [h1] at hn; simp at hn; omega)]
      have hxlive : (!isDeleted x.2) = true := by
        have : x ∈ live R := by
          have : x ∈ (live R).take count := by rw [h2']; simp
          exact List.mem_of_mem_take this
        simpa [live] using (List.mem_filter.mp this).2
      simp [live, h1, List.filter_append, hxlive]

end C07
