import Chain33Model.Proofs.C07Pages
import Chain33Model.Proofs.C06Prefix
/-!
ListHelper on a single database: instantiate the cursor lemmas with `C06.Iter`.
-/
namespace C07
open C06

/-- a list in iteration order. -/
def ordered (rev : Bool) (L : List Entry) : List Entry := if rev then L.reverse else L

theorem dsorted_ordered {L : List Entry} (h : Sorted L) (rev : Bool) : DSorted rev (ordered rev L) := by
  cases rev with
  | false => exact dsorted_of_sorted h
  | true => exact dsorted_reverse_of_sorted h

theorem mem_ordered {rev : Bool} {L : List Entry} {e : Entry} : e ∈ ordered rev L ↔ e ∈ L := by
  cases rev <;> simp [ordered]

theorem length_ordered (rev : Bool) (L : List Entry) : (ordered rev L).length = L.length := by
  cases rev <;> simp [ordered]

theorem plain_all (m : Map) (pfx : Bytes) (rev : Bool) (hq : prefixUpper pfx ≠ some emptyValue) :
    (Iter.mk' m pfx none rev).all = ordered rev (withPrefix m pfx) := by
  cases rev <;> simp [Iter.all, Iter.mk', ordered, range_prefix m hq]

theorem withPrefix_length_le (m : Map) (p : Bytes) : (withPrefix m p).length ≤ m.length :=
  List.length_filter_le _ _

theorem sorted_withPrefix {m : Map} (hs : Sorted m) (p : Bytes) : Sorted (withPrefix m p) := hs.filter _

/-- one page on a single database. -/
theorem listEntriesPlain_spec {m : Map} (hs : Sorted m) (pfx key : Bytes) (count dir : Nat)
    (hq : prefixUpper pfx ≠ some emptyValue) :
    listEntriesPlain m pfx key count dir
      = some (takeC count 0 (live (remaining (ordered (!isASC dir) (withPrefix m pfx)) (!isASC dir) key))) := by
  have R := iterRangeCursor (Iter.wf_mk' hs pfx none (!isASC dir))
  have hall := plain_all m pfx (!isASC dir) hq
  have hrev : (Iter.mk' m pfx none (!isASC dir)).reverse = (!isASC dir) := rfl
  rw [hall, hrev] at R
  have hf : (ordered (!isASC dir) (withPrefix m pfx)).length < m.length + 2 := by
    rw [length_ordered]; have := withPrefix_length_le m pfx; omega
  unfold listEntriesPlain listEntries remaining
  by_cases hk : key.isEmpty = true
  · simp only [hk, if_true]
    exact R.scanFromEnd_spec hf count
  · simp only [hk, Bool.false_eq_true, if_false]
    exact R.iteratorScan_spec hf key count

theorem countPlain_spec {m : Map} (hs : Sorted m) (pfx : Bytes) (hq : prefixUpper pfx ≠ some emptyValue) :
    countPlain m pfx = some (live (withPrefix m pfx)).length := by
  have R := iterRangeCursor (Iter.wf_mk' hs pfx none true)
  have hall := plain_all m pfx true hq
  rw [hall] at R
  have hf : (ordered true (withPrefix m pfx)).length < m.length + 2 := by
    rw [length_ordered]; have := withPrefix_length_le m pfx; omega
  unfold countPlain
  rw [R.prefixCount_spec hf]
  simp [ordered, live, List.filter_reverse]

/-- the complete `List` answer on a single database. -/
theorem listPlain_spec {m : Map} (hs : Sorted m) (pfx key : Bytes) (count dir : Nat)
    (hq : prefixUpper pfx ≠ some emptyValue) :
    listPlain m pfx key count dir
      = some (listSpec (fun rev => ordered rev (withPrefix m pfx)) key count dir) := by
  unfold listPlain
  apply list_spec_of_cursors (inv := fun _ => Iter.WF) (rest := Iter.rest)
  · intro rev
    have R := iterRangeCursor (Iter.wf_mk' hs pfx none rev)
    rw [plain_all m pfx rev hq] at R
    exact R
  · intro rev
    rw [length_ordered]; have := withPrefix_length_le m pfx; omega

end C07
