import Chain33Model.Proofs.C07Merged
/-!
The union the merged iterator walks over, characterised by point reads:
`mergeMaps layers` is sorted and `get (mergeMaps layers) k` is the value of the first layer
that has `k`; the merged iterator's entries are the in-range entries of `mergeMaps layers`.
-/
namespace C07
open C06

/-- keys pairwise distinct. -/
def Distinct (L : List Entry) : Prop := L.Pairwise (fun a b => a.1 ≠ b.1)

theorem DSorted.distinct {rev : Bool} {L : List Entry} (h : DSorted rev L) : Distinct L :=
  List.Pairwise.imp (fun hab => dlt_ne hab) h

theorem get_of_mem_distinct {L : List Entry} (hd : Distinct L) {k v : Bytes} (h : (k, v) ∈ L) :
    get L k = some v := by
  induction L with
  | nil => simp at h
  | cons e L ih =>
    obtain ⟨k', v'⟩ := e
    have ⟨hhd, htl⟩ := List.pairwise_cons.mp hd
    rw [get_cons]
    rcases List.mem_cons.mp h with h | h
    · cases h; simp
    · have : k' ≠ k := hhd (k, v) h
      rw [if_neg this]; exact ih htl h

theorem get_reverse {L : List Entry} (hd : Distinct L) (k : Bytes) : get L.reverse k = get L k := by
  have hd' : Distinct L.reverse := by
    unfold Distinct; rw [List.pairwise_reverse]
    exact List.Pairwise.imp (fun hab => Ne.symm hab) hd
  cases h : get L k with
  | some v =>
    exact get_of_mem_distinct hd' (List.mem_reverse.mpr (mem_of_get h))
  | none =>
    cases h' : get L.reverse k with
    | none => rfl
    | some v =>
      have := get_of_mem_distinct hd (List.mem_reverse.mp (mem_of_get h'))
      rw [h] at this; cases this

theorem get_ordered {L : List Entry} (hd : Distinct L) (rev : Bool) (k : Bytes) : get (ordered rev L) k = get L k := by
  cases rev
  · rfl
  · exact get_reverse hd k

theorem get_filter_key (q : Bytes → Bool) (m : List Entry) (k : Bytes) :
    get (m.filter (fun e => q e.1)) k = if q k then get m k else none := by
  induction m with
  | nil => simp [get_nil]
  | cons e m ih =>
    obtain ⟨k', v'⟩ := e
    by_cases hq : q k' = true
    · simp only [List.filter_cons, hq, if_true, get_cons]
      by_cases hk : k' = k
      · subst hk; simp [hq]
      · simp only [hk, if_false]; exact ih
    · simp only [List.filter_cons, hq, if_false, Bool.false_eq_true, get_cons]
      by_cases hk : k' = k
      · subst hk
        rw [ih]; simp [hq]
      · simp only [hk, if_false]; exact ih

theorem get_range (m : Map) (lo : Bytes) (hi : Option Bytes) (k : Bytes) :
    get (range m lo hi) k = if inRange lo hi k then get m k else none :=
  get_filter_key (inRange lo hi) m k

/-- direction-sorted lists with the same point reads are equal. -/
theorem dsorted_ext {rev : Bool} {a b : List Entry} (ha : DSorted rev a) (hb : DSorted rev b)
    (h : ∀ k, get a k = get b k) : a = b := by
  cases rev with
  | false =>
    exact sorted_ext (by simpa [DSorted, dlt, Sorted] using ha) (by simpa [DSorted, dlt, Sorted] using hb) h
  | true =>
    have ha' : Sorted a.reverse := by
      unfold Sorted; rw [List.pairwise_reverse]; simpa [DSorted, dlt] using ha
    have hb' : Sorted b.reverse := by
      unfold Sorted; rw [List.pairwise_reverse]; simpa [DSorted, dlt] using hb
    have := sorted_ext ha' hb' (fun k => by rw [get_reverse ha.distinct, get_reverse hb.distinct, h])
    simpa using congrArg List.reverse this

/-! ### `merge2` / `munion`: sorted, point reads -/

theorem get_none_of_allGT {rev : Bool} {L : List Entry} {k : Bytes} (h : ∀ e ∈ L, dlt rev k e.1 = true) :
    get L k = none :=
  get_eq_none_of_forall_ne (fun e he => (dlt_ne (h e he)).symm)

theorem get_merge2 {rev : Bool} {xs ys : List Entry} (hx : DSorted rev xs) (hy : DSorted rev ys) (k : Bytes) :
    get (merge2 rev xs ys) k = (get xs k).or (get ys k) := by
  induction xs generalizing ys with
  | nil => simp [get_nil]
  | cons x xs ihx =>
    induction ys with
    | nil => simp [get_nil]
    | cons y ys ihy =>
      have ⟨hxh, hxt⟩ := List.pairwise_cons.mp hx
      have ⟨hyh, hyt⟩ := List.pairwise_cons.mp hy
      obtain ⟨xk, xv⟩ := x
      obtain ⟨yk, yv⟩ := y
      rw [merge2_cons_cons]
      by_cases h1 : dlt rev xk yk = true
      · rw [if_pos h1, get_cons, get_cons]
        by_cases hk : xk = k
        · simp [hk]
        · simp only [hk, if_false]; exact ihx hxt hy
      · rw [if_neg h1]
        by_cases h2 : dlt rev yk xk = true
        · rw [if_pos h2, get_cons, ihy hyt]
          by_cases hk : yk = k
          · subst hk
            have : get ((xk, xv) :: xs) yk = none := by
              apply get_none_of_allGT (rev := rev)
              intro e he
              rcases List.mem_cons.mp he with rfl | he
              · exact h2
              · exact dlt_trans h2 (hxh e he)
            simp [this, get_cons]
          · simp only [hk, if_false, get_cons (k := k) yk]
        · rw [if_neg h2, get_cons, get_cons, get_cons]
          have hxy : xk = yk := eq_of_not_dlt (by simpa using h1) (by simpa using h2)
          subst hxy
          by_cases hk : xk = k
          · simp [hk]
          · simp only [hk, if_false]; exact ihx hxt hyt

theorem dsorted_merge2 {rev : Bool} {xs ys : List Entry} (hx : DSorted rev xs) (hy : DSorted rev ys) :
    DSorted rev (merge2 rev xs ys) := by
  induction xs generalizing ys with
  | nil => simpa using hy
  | cons x xs ihx =>
    induction ys with
    | nil => simpa using hx
    | cons y ys ihy =>
      have ⟨hxh, hxt⟩ := List.pairwise_cons.mp hx
      have ⟨hyh, hyt⟩ := List.pairwise_cons.mp hy
      rw [merge2_cons_cons]
      by_cases h1 : dlt rev x.1 y.1 = true
      · rw [if_pos h1]
        refine List.pairwise_cons.mpr ⟨?_, ihx hxt hy⟩
        intro e he
        rcases mem_merge2 he with he | he
        · exact hxh e he
        · rcases List.mem_cons.mp he with rfl | he
          · exact h1
          · exact dlt_trans h1 (hyh e he)
      · rw [if_neg h1]
        by_cases h2 : dlt rev y.1 x.1 = true
        · rw [if_pos h2]
          refine List.pairwise_cons.mpr ⟨?_, ihy hyt⟩
          intro e he
          rcases mem_merge2 he with he | he
          · rcases List.mem_cons.mp he with rfl | he
            · exact h2
            · exact dlt_trans h2 (hxh e he)
          · exact hyh e he
        · rw [if_neg h2]
          have hxy : x.1 = y.1 := eq_of_not_dlt (by simpa using h1) (by simpa using h2)
          refine List.pairwise_cons.mpr ⟨?_, ihx hxt hyt⟩
          intro e he
          rcases mem_merge2 he with he | he
          · exact hxh e he
          · rw [hxy]; exact hyh e he

theorem dsorted_munion {rev : Bool} {Ls : List (List Entry)} (h : ∀ L ∈ Ls, DSorted rev L) :
    DSorted rev (munion rev Ls) := by
  induction Ls with
  | nil => exact List.Pairwise.nil
  | cons L Ls ih =>
    rw [munion_cons]
    exact dsorted_merge2 (h L (by simp)) (ih (fun L' hL' => h L' (by simp [hL'])))

/-- point reads of the union: the first layer that has the key. -/
def unionGet (Ls : List (List Entry)) (k : Bytes) : Option Bytes := Ls.findSome? (fun L => get L k)

theorem get_munion {rev : Bool} {Ls : List (List Entry)} (h : ∀ L ∈ Ls, DSorted rev L) (k : Bytes) :
    get (munion rev Ls) k = unionGet Ls k := by
  induction Ls with
  | nil => rfl
  | cons L Ls ih =>
    have hLs : ∀ L' ∈ Ls, DSorted rev L' := fun L' hL' => h L' (by simp [hL'])
    rw [munion_cons, get_merge2 (h L (by simp)) (dsorted_munion hLs), ih hLs]
    unfold unionGet
    rw [List.findSome?_cons]
    cases get L k <;> rfl

theorem findSome?_congr' {α β : Type} {l : List α} {f g : α → Option β} (h : ∀ x ∈ l, f x = g x) :
    l.findSome? f = l.findSome? g := by
  induction l with
  | nil => rfl
  | cons a l ih =>
    rw [List.findSome?_cons, List.findSome?_cons, h a (by simp), ih (fun x hx => h x (by simp [hx]))]

/-- the ordered union of the layers as a map (the first layer has priority). -/
def mergeMaps (layers : List Map) : Map := munion false layers

theorem sorted_mergeMaps {layers : List Map} (hs : ∀ m ∈ layers, Sorted m) : Sorted (mergeMaps layers) := by
  have := dsorted_munion (rev := false) (Ls := layers) (fun m hm => dsorted_of_sorted (hs m hm))
  simpa [DSorted, dlt, Sorted, mergeMaps] using this

theorem get_mergeMaps {layers : List Map} (hs : ∀ m ∈ layers, Sorted m) (k : Bytes) :
    get (mergeMaps layers) k = unionGet layers k :=
  get_munion (rev := false) (fun m hm => dsorted_of_sorted (hs m hm)) k

/-- the entries the merged iterator walks over are the in-range entries of the union map. -/
theorem mergedAll_eq {layers : List Map} (hs : ∀ m ∈ layers, Sorted m) (start : Bytes) (end_ : Option Bytes)
    (rev : Bool) :
    mergedAll layers start end_ rev = ordered rev (range (mergeMaps layers) start (effEnd start end_)) := by
  have hds : ∀ L ∈ layers.map (fun m => ordered rev (range m start (effEnd start end_))), DSorted rev L := by
    intro L hL
    obtain ⟨m, hm, rfl⟩ := List.mem_map.mp hL
    exact dsorted_ordered (sorted_range _ _ (hs m hm)) rev
  apply dsorted_ext (dsorted_munion hds)
    (dsorted_ordered (sorted_range _ _ (sorted_mergeMaps hs)) rev)
  intro k
  rw [get_munion hds,
    get_ordered (dsorted_of_sorted (sorted_range _ _ (sorted_mergeMaps hs))).distinct,
    get_range, get_mergeMaps hs]
  unfold unionGet
  rw [List.findSome?_map]
  by_cases hin : inRange start (effEnd start end_) k = true
  · rw [if_pos hin]
    apply findSome?_congr'
    intro m hm
    show get (ordered rev (range m start (effEnd start end_))) k = get m k
    rw [get_ordered (dsorted_of_sorted (sorted_range _ _ (hs m hm))).distinct, get_range, if_pos hin]
  · rw [if_neg hin]
    rw [List.findSome?_eq_none_iff]
    intro m hm
    show get (ordered rev (range m start (effEnd start end_))) k = none
    rw [get_ordered (dsorted_of_sorted (sorted_range _ _ (hs m hm))).distinct, get_range, if_neg hin]

/-! ### ListHelper over the merged view -/

theorem length_merge2_le (rev : Bool) (xs ys : List Entry) : (merge2 rev xs ys).length ≤ xs.length + ys.length := by
  induction xs generalizing ys with
  | nil => simp
  | cons x xs ihx =>
    induction ys with
    | nil => simp
    | cons y ys ihy =>
      rw [merge2_cons_cons]
      split
      · have := ihx (y :: ys); simp at this ⊢; omega
      · split
        · simp at ihy ⊢; omega
        · have := ihx ys; simp at this ⊢; omega

theorem length_munion_le (rev : Bool) (Ls : List (List Entry)) : (munion rev Ls).length ≤ (Ls.map List.length).sum := by
  induction Ls with
  | nil => simp [munion]
  | cons L Ls ih =>
    rw [munion_cons]
    have := length_merge2_le rev L (munion rev Ls)
    simp only [List.map_cons, List.sum_cons]
    omega

theorem length_mergeMaps_le (layers : List Map) : (mergeMaps layers).length ≤ layersSize layers :=
  length_munion_le false layers

theorem mergedAll_prefix {layers : List Map} (hs : ∀ m ∈ layers, Sorted m) (pfx : Bytes) (rev : Bool)
    (hq : prefixUpper pfx ≠ some emptyValue) :
    mergedAll layers pfx none rev = ordered rev (withPrefix (mergeMaps layers) pfx) := by
  rw [mergedAll_eq hs, range_prefix _ hq]

theorem listEntriesMerged_spec {layers : List Map} (hs : ∀ m ∈ layers, Sorted m)
    (pfx key : Bytes) (count dir : Nat) (hq : prefixUpper pfx ≠ some emptyValue) :
    listEntriesMerged layers pfx key count dir
      = some (takeC count 0 (live (remaining (ordered (!isASC dir) (withPrefix (mergeMaps layers) pfx))
          (!isASC dir) key))) := by
  have R := mergedRangeCursor hs pfx none (!isASC dir)
  rw [mergedAll_prefix hs pfx _ hq] at R
  have hf : (ordered (!isASC dir) (withPrefix (mergeMaps layers) pfx)).length < layersSize layers + 2 := by
    rw [length_ordered]
    have := withPrefix_length_le (mergeMaps layers) pfx
    have := length_mergeMaps_le layers
    omega
  unfold listEntriesMerged listEntries remaining
  by_cases hk : key.isEmpty = true
  · simp only [hk, if_true]
    exact R.scanFromEnd_spec hf count
  · simp only [hk, Bool.false_eq_true, if_false]
    exact R.iteratorScan_spec hf key count

theorem countMerged_spec {layers : List Map} (hs : ∀ m ∈ layers, Sorted m)
    (pfx : Bytes) (hq : prefixUpper pfx ≠ some emptyValue) :
    countMerged layers pfx = some (live (withPrefix (mergeMaps layers) pfx)).length := by
  have R := mergedRangeCursor hs pfx none true
  rw [mergedAll_prefix hs pfx _ hq] at R
  have hf : (ordered true (withPrefix (mergeMaps layers) pfx)).length < layersSize layers + 2 := by
    rw [length_ordered]
    have := withPrefix_length_le (mergeMaps layers) pfx
    have := length_mergeMaps_le layers
    omega
  unfold countMerged
  rw [R.prefixCount_spec hf]
  simp [ordered, live, List.filter_reverse]

/-- the complete `List` answer over the merged view. -/
theorem listMerged_spec {layers : List Map} (hs : ∀ m ∈ layers, Sorted m)
    (pfx key : Bytes) (count dir : Nat) (hq : prefixUpper pfx ≠ some emptyValue) :
    listMerged layers pfx key count dir
      = some (listSpec (fun rev => ordered rev (withPrefix (mergeMaps layers) pfx)) key count dir) := by
  unfold listMerged
  apply list_spec_of_cursors (inv := MInv) (rest := MIter.rest)
  · intro rev
    have R := mergedRangeCursor hs pfx none rev
    rw [mergedAll_prefix hs pfx rev hq] at R
    exact R
  · intro rev
    rw [length_ordered]
    have := withPrefix_length_le (mergeMaps layers) pfx
    have := length_mergeMaps_le layers
    omega

end C07
