import Chain33Model.Model.C08
import Chain33Model.Proofs.C07Union
/-!
`LocalDB` refines the (base, overlay, optional transaction) specification.
-/
namespace C08
open C06 C07

/-- the simulation relation; the read-through copies in `cache` are invisible because only the
combined view `cache` over `main` is related to `overlay` over `base`. -/
structure Refines (l : LocalDB) (s : Spec) : Prop where
  main_eq : l.main = s.base
  sorted_main : Sorted l.main
  sorted_cache : Sorted l.cache
  sorted_overlay : Sorted s.overlay
  tx_rel : match s.tx with
    | some t => l.intx = true ∧ Sorted t ∧ (l.txcache = some t ∨ (l.txcache = none ∧ t = []))
    | none => l.intx = false ∧ (l.txcache = none ∨ l.txcache = some [])
  view_eq : ∀ k, (get l.cache k).or (get l.main k) = (get s.overlay k).or (get s.base k)

theorem refines_new {main : Map} (hs : Sorted main) : Refines (LocalDB.new main) (Spec.new main) where
  main_eq := rfl
  sorted_main := hs
  sorted_cache := sorted_nil
  sorted_overlay := sorted_nil
  tx_rel := ⟨rfl, Or.inr rfl⟩
  view_eq := fun _ => rfl

/-- point read through the implementation's layers (before the tombstone check). -/
def implRaw (l : LocalDB) (k : Bytes) : Option Bytes := (l.txGet k).or ((get l.cache k).or (get l.main k))

theorem or3 (a b c : Option Bytes) : a.or (b.or c) = [a, b, c].findSome? id := by
  cases a <;> cases b <;> cases c <;> rfl

theorem Refines.raw_eq {l : LocalDB} {s : Spec} (h : Refines l s) (k : Bytes) :
    implRaw l k = s.rawGet k := by
  unfold implRaw Spec.rawGet Spec.view LocalDB.txGet
  have hv := h.view_eq k
  have ht := h.tx_rel
  cases hs : s.tx with
  | none =>
    rw [hs] at ht
    simp only [ht.1, Bool.false_eq_true, if_false, Option.none_or, List.nil_append,
      List.findSome?_cons, List.findSome?_nil]
    rw [hv]
    cases get s.overlay k with
    | some v => rfl
    | none => cases get s.base k <;> rfl
  | some t =>
    rw [hs] at ht
    obtain ⟨hi, _, htx⟩ := ht
    simp only [hi, if_true, List.cons_append, List.nil_append, List.findSome?_cons, List.findSome?_nil]
    rcases htx with htx | ⟨htx, rfl⟩
    · rw [htx]
      simp only
      cases get t k with
      | some v => rfl
      | none =>
        simp only [Option.none_or]
        rw [hv]
        cases get s.overlay k with
        | some v => rfl
        | none => cases get s.base k <;> rfl
    · rw [htx]
      simp only [Option.none_or, get_nil]
      rw [hv]
      cases get s.overlay k with
      | some v => rfl
      | none => cases get s.base k <;> rfl

theorem rawGet_val (l : LocalDB) (k : Bytes) : (l.rawGet k).2 = implRaw l k := by
  unfold LocalDB.rawGet implRaw
  split
  · rename_i v hv
    rw [hv]; rfl
  · rename_i hv
    rw [hv]
    split
    · rename_i v hc
      rw [hc]; rfl
    · rename_i hc
      rw [hc]
      split
      · rename_i hm; rw [hm]; rfl
      · rename_i v hm; rw [hm]; rfl

theorem rawGet_state (l : LocalDB) (k : Bytes) :
    (l.rawGet k).1 = l ∨ (∃ v, get l.cache k = none ∧ get l.main k = some v ∧
      (l.rawGet k).1 = { l with cache := insert l.cache k v }) := by
  unfold LocalDB.rawGet
  split
  · exact Or.inl rfl
  · split
    · exact Or.inl rfl
    · rename_i hc
      split
      · exact Or.inl rfl
      · rename_i v hm
        exact Or.inr ⟨v, hc, hm, rfl⟩

/-- `rawGet` returns the layered lookup and only adds a read-through copy. -/
theorem rawGet_spec {l : LocalDB} {s : Spec} (h : Refines l s) (k : Bytes) :
    (l.rawGet k).2 = s.rawGet k ∧ Refines (l.rawGet k).1 s := by
  refine ⟨by rw [rawGet_val, h.raw_eq], ?_⟩
  rcases rawGet_state l k with h1 | ⟨v, hc, hm, h1⟩
  · rw [h1]; exact h
  · rw [h1]
    refine ⟨h.main_eq, h.sorted_main, sorted_insert k v h.sorted_cache, h.sorted_overlay, h.tx_rel, ?_⟩
    intro k₂
    show (get (insert l.cache k v) k₂).or (get l.main k₂) = _
    by_cases hk : k = k₂
    · subst hk
      rw [get_insert_self, ← h.view_eq k, hc, hm]; rfl
    · rw [get_insert_other _ _ hk]; exact h.view_eq k₂

theorem get_spec {l : LocalDB} {s : Spec} (h : Refines l s) (k : Bytes) :
    (l.get k).2 = s.get k ∧ Refines (l.get k).1 s := by
  obtain ⟨h1, h2⟩ := rawGet_spec h k
  unfold LocalDB.get Spec.get
  rw [← h1]
  cases hr : (l.rawGet k).2 with
  | none =>
    have : l.rawGet k = ((l.rawGet k).1, none) := by rw [← hr]
    rw [this]; exact ⟨rfl, h2⟩
  | some v =>
    have : l.rawGet k = ((l.rawGet k).1, some v) := by rw [← hr]
    rw [this]
    by_cases hd : isDeleted v = true
    · simp only [hd, if_true]; exact ⟨trivial, h2⟩
    · simp only [hd, if_false, Bool.false_eq_true]; exact ⟨trivial, h2⟩

theorem set_spec {l : LocalDB} {s : Spec} (h : Refines l s) (k v : Bytes) :
    Refines (l.set k v) (s.set k v) := by
  have ht := h.tx_rel
  unfold LocalDB.set Spec.set
  cases hs : s.tx with
  | none =>
    rw [hs] at ht
    simp only [ht.1, Bool.false_eq_true, if_false]
    refine ⟨h.main_eq, h.sorted_main, sorted_insert k v h.sorted_cache, sorted_insert k v h.sorted_overlay, ?_, ?_⟩
    · dsimp only
      exact ⟨rfl, ht.2⟩
    · intro k₂
      show (get (insert l.cache k v) k₂).or (get l.main k₂) = (get (insert s.overlay k v) k₂).or (get s.base k₂)
      by_cases hk : k = k₂
      · subst hk; rw [get_insert_self, get_insert_self]; rfl
      · rw [get_insert_other _ _ hk, get_insert_other _ _ hk]; exact h.view_eq k₂
  | some t =>
    rw [hs] at ht
    obtain ⟨hi, hst, htx⟩ := ht
    simp only [hi, if_true]
    refine ⟨h.main_eq, h.sorted_main, h.sorted_cache, h.sorted_overlay, ?_, h.view_eq⟩
    dsimp only
    refine ⟨rfl, sorted_insert k v hst, Or.inl ?_⟩
    rcases htx with htx | ⟨htx, rfl⟩
    · rw [htx]
    · rw [htx]

theorem begin_spec {l : LocalDB} {s : Spec} (h : Refines l s) : Refines l.begin s.begin :=
  ⟨h.main_eq, h.sorted_main, h.sorted_cache, h.sorted_overlay, ⟨rfl, sorted_nil, Or.inr ⟨rfl, rfl⟩⟩, h.view_eq⟩

theorem rollback_spec {l : LocalDB} {s : Spec} (h : Refines l s) : Refines l.rollback s.rollback :=
  ⟨h.main_eq, h.sorted_main, h.sorted_cache, h.sorted_overlay, ⟨rfl, Or.inl rfl⟩, h.view_eq⟩

/-- copying a sorted map entry by entry into another: the copied entries win. -/
theorem get_foldl_insert {t : Map} (ht : Sorted t) (c : Map) (k : Bytes) :
    get (t.foldl (fun (c : Map) (e : Entry) => insert c e.1 e.2) c) k = (get t k).or (get c k) := by
  induction t generalizing c with
  | nil => rfl
  | cons e t ih =>
    obtain ⟨k', v'⟩ := e
    have ⟨hhd, htl⟩ := sorted_cons.mp ht
    rw [List.foldl_cons, ih htl, get_cons]
    by_cases hk : k' = k
    · subst hk
      have : get t k' = none := get_eq_none_of_forall_ne (fun e he => (blt_ne (hhd e he)).symm)
      rw [this, if_pos rfl, get_insert_self]; rfl
    · rw [if_neg hk, get_insert_other _ _ hk]

theorem sorted_foldl_insert (t : Map) {c : Map} (hc : Sorted c) :
    Sorted (t.foldl (fun (c : Map) (e : Entry) => insert c e.1 e.2) c) := by
  induction t generalizing c with
  | nil => exact hc
  | cons e t ih => exact ih (sorted_insert e.1 e.2 hc)

theorem commit_spec {l : LocalDB} {s : Spec} (h : Refines l s) : Refines l.commit s.commit := by
  have ht := h.tx_rel
  unfold LocalDB.commit Spec.commit
  cases hs : s.tx with
  | none =>
    rw [hs] at ht
    have hfin : Refines l.resetTx s :=
      ⟨h.main_eq, h.sorted_main, h.sorted_cache, h.sorted_overlay, by rw [hs]; exact ⟨rfl, Or.inl rfl⟩, h.view_eq⟩
    rcases ht.2 with htx | htx
    · rw [htx]; exact hfin
    · rw [htx]; exact hfin
  | some t =>
    rw [hs] at ht
    obtain ⟨_, hst, htx⟩ := ht
    have hview : ∀ k, (get (t.foldl (fun (c : Map) (e : Entry) => insert c e.1 e.2) l.cache) k).or (get l.main k)
        = (get (t.foldl (fun (c : Map) (e : Entry) => insert c e.1 e.2) s.overlay) k).or (get s.base k) := by
      intro k
      rw [get_foldl_insert hst, get_foldl_insert hst]
      cases get t k with
      | some v => rfl
      | none => simpa using h.view_eq k
    rcases htx with htx | ⟨htx, rfl⟩
    · rw [htx]
      exact ⟨h.main_eq, h.sorted_main, sorted_foldl_insert t h.sorted_cache,
        sorted_foldl_insert t h.sorted_overlay, ⟨rfl, Or.inl rfl⟩, hview⟩
    · rw [htx]
      exact ⟨h.main_eq, h.sorted_main, h.sorted_cache, h.sorted_overlay, ⟨rfl, Or.inl rfl⟩, h.view_eq⟩

/-! ### List / PrefixCount -/

/-- spec-side invariant: the three maps are ordered maps. -/
structure Spec.WF (s : Spec) : Prop where
  base : Sorted s.base
  overlay : Sorted s.overlay
  tx : ∀ t, s.tx = some t → Sorted t

theorem Refines.spec_wf {l : LocalDB} {s : Spec} (h : Refines l s) : s.WF where
  base := h.main_eq ▸ h.sorted_main
  overlay := h.sorted_overlay
  tx := by
    intro t ht
    have := h.tx_rel
    rw [ht] at this
    exact this.2.1

theorem Spec.WF.sorted_view {s : Spec} (h : s.WF) : ∀ m ∈ s.view, Sorted m := by
  intro m hm
  unfold Spec.view at hm
  cases hs : s.tx with
  | none =>
    rw [hs] at hm
    simp at hm
    rcases hm with rfl | rfl
    · exact h.overlay
    · exact h.base
  | some t =>
    rw [hs] at hm
    simp at hm
    rcases hm with rfl | rfl | rfl
    · exact h.tx _ hs
    · exact h.overlay
    · exact h.base

theorem Spec.view_length (s : Spec) : 2 ≤ s.view.length := by
  unfold Spec.view; cases s.tx <;> simp

theorem LocalDB.layers_length (l : LocalDB) : 2 ≤ l.layers.length := by
  unfold LocalDB.layers; cases l.txcache <;> simp

theorem Refines.sorted_layers {l : LocalDB} {s : Spec} (h : Refines l s) : ∀ m ∈ l.layers, Sorted m := by
  intro m hm
  have ht := h.tx_rel
  unfold LocalDB.layers at hm
  cases htc : l.txcache with
  | none =>
    rw [htc] at hm
    simp at hm
    rcases hm with rfl | rfl
    · exact h.sorted_cache
    · exact h.sorted_main
  | some t =>
    rw [htc] at hm
    simp at hm
    rcases hm with rfl | rfl | rfl
    · cases hs : s.tx with
      | none =>
        rw [hs] at ht
        rcases ht.2 with h' | h'
        · rw [htc] at h'; cases h'
        · rw [htc] at h'; cases h'; exact sorted_nil
      | some t' =>
        rw [hs] at ht
        rcases ht.2.2 with h' | ⟨h', _⟩
        · rw [htc] at h'; cases h'; exact ht.2.1
        · rw [htc] at h'; cases h'
    · exact h.sorted_cache
    · exact h.sorted_main

theorem findSome2 (f : Map → Option Bytes) (a b : Map) : [a, b].findSome? f = (f a).or (f b) := by
  simp only [List.findSome?_cons, List.findSome?_nil]
  cases f a <;> cases f b <;> rfl

theorem findSome3 (f : Map → Option Bytes) (a b c : Map) :
    [a, b, c].findSome? f = (f a).or ((f b).or (f c)) := by
  simp only [List.findSome?_cons, List.findSome?_nil]
  cases f a <;> cases f b <;> cases f c <;> rfl

theorem Refines.unionGet_layers {l : LocalDB} {s : Spec} (h : Refines l s) (k : Bytes) :
    unionGet l.layers k = implRaw l k := by
  have ht := h.tx_rel
  unfold unionGet LocalDB.layers implRaw LocalDB.txGet
  cases hs : s.tx with
  | none =>
    rw [hs] at ht
    rcases ht.2 with h' | h'
    · rw [h']; simp only [List.nil_append, findSome2, ht.1, Bool.false_eq_true, if_false, Option.none_or]
    · rw [h']; simp only [List.cons_append, List.nil_append, findSome3, ht.1, Bool.false_eq_true, if_false,
        Option.none_or, get_nil]
  | some t =>
    rw [hs] at ht
    obtain ⟨hi, _, htx⟩ := ht
    rcases htx with h' | ⟨h', _⟩
    · rw [h']; simp only [List.cons_append, List.nil_append, findSome3, hi, if_true]
    · rw [h']; simp only [List.nil_append, findSome2, hi, if_true, Option.none_or]

theorem Refines.mergeMaps_eq {l : LocalDB} {s : Spec} (h : Refines l s) :
    mergeMaps l.layers = mergeMaps s.view := by
  apply sorted_ext (sorted_mergeMaps h.sorted_layers) (sorted_mergeMaps h.spec_wf.sorted_view)
  intro k
  rw [get_mergeMaps h.sorted_layers, get_mergeMaps h.spec_wf.sorted_view, h.unionGet_layers, h.raw_eq]
  rfl

/-- every visible (key, value) pair, tombstones included, as one ordered map. -/
def Spec.merged (s : Spec) : Map := mergeMaps s.view

theorem Spec.WF.get_merged {s : Spec} (h : s.WF) (k : Bytes) : C06.get s.merged k = s.rawGet k := by
  unfold Spec.merged
  rw [get_mergeMaps h.sorted_view]; rfl

theorem list_spec {l : LocalDB} {s : Spec} (h : Refines l s) (pfx key : Bytes) (count dir : Nat)
    (hq : prefixUpper pfx ≠ some emptyValue) :
    l.list pfx key count dir
      = some (listSpec (fun rev => ordered rev (withPrefix s.merged pfx)) key count dir) := by
  unfold LocalDB.list Spec.merged
  rw [listMerged_spec h.sorted_layers pfx key count dir hq, h.mergeMaps_eq]

theorem count_spec {l : LocalDB} {s : Spec} (h : Refines l s) (pfx : Bytes)
    (hq : prefixUpper pfx ≠ some emptyValue) :
    l.prefixCount pfx = some (live (withPrefix s.merged pfx)).length := by
  unfold LocalDB.prefixCount Spec.merged
  rw [countMerged_spec h.sorted_layers pfx hq, h.mergeMaps_eq]

/-- the listed pairs are exactly the point-readable ones under the prefix. -/
theorem Spec.WF.listed_iff {s : Spec} (h : s.WF) (pfx k v : Bytes) :
    (k, v) ∈ live (withPrefix s.merged pfx) ↔ (pfx <+: k ∧ s.get k = some v) := by
  have hsm : Sorted s.merged := sorted_mergeMaps h.sorted_view
  simp only [live, withPrefix, List.mem_filter, List.isPrefixOf_iff_prefix]
  rw [mem_iff_get hsm, h.get_merged]
  unfold Spec.get
  constructor
  · rintro ⟨⟨h1, h2⟩, h3⟩
    refine ⟨h2, ?_⟩
    rw [h1]
    have : isDeleted v = false := by simpa using h3
    simp [this]
  · rintro ⟨h1, h2⟩
    cases hr : s.rawGet k with
    | none => rw [hr] at h2; cases h2
    | some v' =>
      rw [hr] at h2
      by_cases hd : isDeleted v' = true
      · simp [hd] at h2
      · simp only [hd, if_false, Bool.false_eq_true, Option.some.injEq] at h2
        subst h2
        exact ⟨⟨rfl, h1⟩, by simpa using hd⟩

/-! ### outputs of the specification, runs -/

/-- what the specification answers to an operation. -/
def Spec.out (s : Spec) : Op → Out
  | .begin | .commit | .rollback | .set _ _ => .ok
  | .get k => .val (s.get k)
  | .list p k c d => .items (some (listSpec (fun rev => ordered rev (withPrefix s.merged p)) k c d))
  | .count p => .num (some (live (withPrefix s.merged p)).length)

def Spec.outs (s : Spec) : List Op → List Out
  | [] => []
  | op :: ops => s.out op :: Spec.outs (s.step op) ops

/-- the prefix of a List/PrefixCount request is not the one 43-byte string whose `bytesPrefix`
is literally `types.EmptyValue`. -/
def Op.okPrefix : Op → Prop
  | .list p _ _ _ => prefixUpper p ≠ some emptyValue
  | .count p => prefixUpper p ≠ some emptyValue
  | _ => True

theorem step_refines {l : LocalDB} {s : Spec} (h : Refines l s) (op : Op) (hp : op.okPrefix) :
    (l.step op).2 = s.out op ∧ Refines (l.step op).1 (s.step op) := by
  cases op with
  | begin => exact ⟨rfl, begin_spec h⟩
  | commit => exact ⟨rfl, commit_spec h⟩
  | rollback => exact ⟨rfl, rollback_spec h⟩
  | set k v => exact ⟨rfl, set_spec h k v⟩
  | get k =>
    obtain ⟨h1, h2⟩ := get_spec h k
    exact ⟨by simp [LocalDB.step, Spec.out, h1], h2⟩
  | list p k c d =>
    exact ⟨by simp [LocalDB.step, Spec.out, list_spec h p k c d hp], h⟩
  | count p =>
    exact ⟨by simp [LocalDB.step, Spec.out, count_spec h p hp], h⟩

theorem run_refines {l : LocalDB} {s : Spec} (h : Refines l s) (ops : List Op) (hp : ∀ op ∈ ops, op.okPrefix) :
    (l.run ops).2 = s.outs ops ∧ Refines (l.run ops).1 (s.run ops) := by
  induction ops generalizing l s with
  | nil => exact ⟨rfl, h⟩
  | cons op ops ih =>
    obtain ⟨h1, h2⟩ := step_refines h op (hp op (by simp))
    obtain ⟨h3, h4⟩ := ih h2 (fun o ho => hp o (by simp [ho]))
    refine ⟨?_, ?_⟩
    · simp only [LocalDB.run, Spec.outs, h1, h3]
    · simpa [LocalDB.run, Spec.run] using h4

/-- data operations inside an open transaction only touch the transaction. -/
theorem run_data_in_tx {s : Spec} {t : Map} (ht : s.tx = some t) (ops : List Op) (hd : ∀ op ∈ ops, op.isData = true) :
    ∃ t', s.run ops = { s with tx := some t' } := by
  induction ops generalizing s t with
  | nil => exact ⟨t, by cases s; simp_all [Spec.run]⟩
  | cons op ops ih =>
    have hop := hd op (by simp)
    have hstep : ∃ t₁, s.step op = { s with tx := some t₁ } := by
      cases op with
      | begin => simp [Op.isData] at hop
      | commit => simp [Op.isData] at hop
      | rollback => simp [Op.isData] at hop
      | set k v => exact ⟨insert t k v, by simp [Spec.step, Spec.set, ht]⟩
      | get k => exact ⟨t, by cases s; simp_all [Spec.step]⟩
      | list p k c d => exact ⟨t, by cases s; simp_all [Spec.step]⟩
      | count p => exact ⟨t, by cases s; simp_all [Spec.step]⟩
    obtain ⟨t₁, h1⟩ := hstep
    obtain ⟨t', h2⟩ := ih (s := s.step op) (t := t₁) (by rw [h1]) (fun o ho => hd o (by simp [ho]))
    refine ⟨t', ?_⟩
    show Spec.run (s.step op) ops = _
    rw [h2, h1]

theorem commit_rawGet {s : Spec} (h : s.WF) (k : Bytes) : s.commit.rawGet k = s.rawGet k := by
  unfold Spec.commit
  cases hs : s.tx with
  | none => simp [hs]
  | some t =>
    simp only
    unfold Spec.rawGet Spec.view
    simp only [hs, List.nil_append, List.cons_append, findSome2, findSome3]
    rw [get_foldl_insert (h.tx t hs)]
    cases C06.get t k <;> cases C06.get s.overlay k <;> cases C06.get s.base k <;> rfl

theorem commit_wf {s : Spec} (h : s.WF) : s.commit.WF := by
  unfold Spec.commit
  cases hs : s.tx with
  | none => simpa [hs] using h
  | some t =>
    exact ⟨h.base, sorted_foldl_insert t h.overlay, by intro t' ht'; cases ht'⟩

end C08
