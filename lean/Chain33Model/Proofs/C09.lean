import Chain33Model.Model.C09
/-!
Helper lemmas for C09: lexicographic order, zero padding, key format, ordered store.
-/
namespace C09

/-! ### order -/

theorem ble_refl (a : Bytes) : ble a a = true := by
  induction a with
  | nil => rfl
  | cons x xs ih => simp [ble, ih]

theorem ble_total (a b : Bytes) : ble a b = true ∨ ble b a = true := by
  induction a generalizing b with
  | nil => left; rfl
  | cons x xs ih =>
    cases b with
    | nil => right; rfl
    | cons y ys =>
      simp only [ble]
      by_cases h1 : x < y
      · simp [h1]
      · by_cases h2 : y < x
        · simp [h2]
        · simp only [h1, h2, if_false]; exact ih ys

theorem ble_trans {a b c : Bytes} (h1 : ble a b = true) (h2 : ble b c = true) : ble a c = true := by
  induction a generalizing b c with
  | nil => rfl
  | cons x xs ih =>
    cases b with
    | nil => simp [ble] at h1
    | cons y ys =>
      cases c with
      | nil => simp [ble] at h2
      | cons z zs =>
        simp only [ble] at h1 h2 ⊢
        by_cases hxy : x < y
        · by_cases hyz : y < z
          · have : x < z := by omega
            simp [this]
          · by_cases hzy : z < y
            · simp [hyz, hzy] at h2
            · have : x < z := by omega
              simp [this]
        · by_cases hyx : y < x
          · simp [hxy, hyx] at h1
          · have hxy' : x = y := by omega
            subst hxy'
            simp only [hxy, if_false] at h1
            by_cases hxz : x < z
            · simp [hxz]
            · by_cases hzx : z < x
              · simp [hxz, hzx] at h2
              · simp only [hxz, hzx, if_false] at h2 ⊢
                exact ih h1 h2

theorem ble_antisymm {a b : Bytes} (h1 : ble a b = true) (h2 : ble b a = true) : a = b := by
  induction a generalizing b with
  | nil => cases b with
    | nil => rfl
    | cons y ys => simp [ble] at h2
  | cons x xs ih =>
    cases b with
    | nil => simp [ble] at h1
    | cons y ys =>
      simp only [ble] at h1 h2
      by_cases hxy : x < y
      · have : ¬ y < x := by omega
        simp [hxy, this] at h2
      · by_cases hyx : y < x
        · simp [hxy, hyx] at h1
        · simp only [hxy, hyx, if_false] at h1 h2
          have : x = y := by omega
          subst this
          rw [ih h1 h2]

theorem blt_iff {a b : Bytes} : blt a b = true ↔ ble b a = false := by
  simp [blt]

theorem ble_of_blt {a b : Bytes} (h : blt a b = true) : ble a b = true := by
  rcases ble_total a b with h' | h'
  · exact h'
  · simp [blt, h'] at h

theorem blt_irrefl (a : Bytes) : blt a a = false := by simp [blt, ble_refl]

theorem blt_trans {a b c : Bytes} (h1 : blt a b = true) (h2 : blt b c = true) : blt a c = true := by
  simp only [blt, Bool.not_eq_true'] at *
  cases h : ble c a with
  | false => rfl
  | true =>
    have := ble_trans h (ble_of_blt (by simpa [blt] using h1))
    simp [this] at h2

theorem blt_of_ble_of_blt {a b c : Bytes} (h1 : ble a b = true) (h2 : blt b c = true) : blt a c = true := by
  simp only [blt, Bool.not_eq_true'] at *
  cases h : ble c a with
  | false => rfl
  | true => have := ble_trans h h1; simp [this] at h2

theorem blt_of_blt_of_ble {a b c : Bytes} (h1 : blt a b = true) (h2 : ble b c = true) : blt a c = true := by
  simp only [blt, Bool.not_eq_true'] at *
  cases h : ble c a with
  | false => rfl
  | true => have := ble_trans h2 h; simp [this] at h1

theorem ble_append_left (p a b : Bytes) : ble (p ++ a) (p ++ b) = ble a b := by
  induction p with
  | nil => rfl
  | cons x xs ih => simp [ble, ih]

theorem ne_of_blt {a b : Bytes} (h : blt a b = true) : a ≠ b := by
  intro e; subst e; simp [blt_irrefl] at h

/-! ### prefix window -/

theorem prefixUpper_snoc (q : Bytes) (c : Nat) (hc : c < 255) :
    prefixUpper (q ++ [c]) = some (q ++ [c + 1]) := by
  have : ¬ 255 ≤ c := by omega
  simp [prefixUpper, List.reverse_append, this]

/-- keys `x` with `q ++ [c] ≤ x < q ++ [c+1]` are exactly those with prefix `q ++ [c]`. -/
theorem window_iff_prefix (q : Bytes) (c : Nat) (x : Bytes) :
    (ble (q ++ [c]) x = true ∧ blt x (q ++ [c + 1]) = true) ↔ (q ++ [c]) <+: x := by
  induction q generalizing x with
  | nil =>
    cases x with
    | nil => simp [ble, blt]
    | cons y ys =>
      simp only [List.nil_append, ble, blt, List.cons_prefix_cons, List.nil_prefix, and_true]
      by_cases h1 : c < y
      · by_cases h2 : c + 1 < y
        · simp [h1, h2]; omega
        · have : y = c + 1 := by omega
          subst this
          simp [h1]
      · by_cases h3 : y < c
        · simp [h1, h3]; omega
        · have : y = c := by omega
          subst this
          simp
  | cons z zs ih =>
    cases x with
    | nil => simp [ble, blt]
    | cons y ys =>
      simp only [List.cons_append, ble, blt, List.cons_prefix_cons]
      by_cases h1 : z < y
      · simp [h1]; omega
      · by_cases h2 : y < z
        · simp [h1, h2]; omega
        · have : z = y := by omega
          subst this
          simp only [h1, if_false, true_and]
          have := ih ys
          simp only [blt] at this
          exact this

theorem inRange_keyPrefix (k x : Bytes) : inRange (keyPrefix k) x = true ↔ keyPrefix k <+: x := by
  have hu : prefixUpper (keyPrefix k) = some (dataPrefix ++ k ++ [dot + 1]) := by
    unfold keyPrefix; exact prefixUpper_snoc _ _ (by decide)
  simp only [inRange, hu, Bool.and_eq_true]
  exact window_iff_prefix (dataPrefix ++ k) dot x

/-! ### zero padding -/

theorem padN_length (n v : Nat) : (padN n v).length = n := by
  induction n generalizing v with
  | zero => rfl
  | succ n ih => simp [padN, ih]

theorem padN_digits (n v : Nat) : ∀ c ∈ padN n v, 48 ≤ c ∧ c ≤ 57 := by
  induction n generalizing v with
  | zero => intro c h; simp [padN] at h
  | succ n ih =>
    intro c h
    simp only [padN, List.mem_cons] at h
    rcases h with h | h
    · have := Nat.mod_lt (v / 10 ^ n) (show 0 < 10 by omega); omega
    · exact ih _ c h

theorem pow10_pos (n : Nat) : 0 < 10 ^ n := Nat.pow_pos (by omega)

/-- lexicographic order of fixed-width zero-padded decimals is numeric order. -/
theorem padN_ble (n a b : Nat) (ha : a < 10 ^ n) (hb : b < 10 ^ n) :
    ble (padN n a) (padN n b) = true ↔ a ≤ b := by
  induction n generalizing a b with
  | zero => simp [padN, ble]; omega
  | succ n ih =>
    have hp := pow10_pos n
    have hpa : a / 10 ^ n < 10 := by
      apply Nat.div_lt_of_lt_mul; rw [Nat.pow_succ] at ha; omega
    have hpb : b / 10 ^ n < 10 := by
      apply Nat.div_lt_of_lt_mul; rw [Nat.pow_succ] at hb; omega
    have ea := Nat.div_add_mod a (10 ^ n)
    have eb := Nat.div_add_mod b (10 ^ n)
    have ra := Nat.mod_lt a hp
    have rb := Nat.mod_lt b hp
    simp only [padN, ble, Nat.mod_eq_of_lt hpa, Nat.mod_eq_of_lt hpb]
    generalize hqa : a / 10 ^ n = qa at *
    generalize hqb : b / 10 ^ n = qb at *
    generalize hra : a % 10 ^ n = r1 at *
    generalize hrb : b % 10 ^ n = r2 at *
    generalize 10 ^ n = p at *
    by_cases h1 : qa < qb
    · have : 48 + qa < 48 + qb := by omega
      simp only [this, if_true, true_iff]
      have : p * (qa + 1) ≤ p * qb := Nat.mul_le_mul_left p h1
      rw [Nat.mul_add] at this
      omega
    · by_cases h2 : qb < qa
      · have h3 : ¬ 48 + qa < 48 + qb := by omega
        have h4 : 48 + qb < 48 + qa := by omega
        simp only [h3, h4, if_true, if_false, false_iff, Bool.false_eq_true]
        have : p * (qb + 1) ≤ p * qa := Nat.mul_le_mul_left p h2
        rw [Nat.mul_add] at this
        omega
      · have : qa = qb := by omega
        subst this
        have h3 : ¬ 48 + qa < 48 + qa := by omega
        simp only [h3, if_false]
        rw [ih r1 r2 ra rb]
        omega

theorem padN_inj (n a b : Nat) (ha : a < 10 ^ n) (hb : b < 10 ^ n) (h : padN n a = padN n b) : a = b := by
  have h1 := (padN_ble n a b ha hb).1 (by rw [h]; exact ble_refl _)
  have h2 := (padN_ble n b a hb ha).1 (by rw [h]; exact ble_refl _)
  omega

theorem lt_pow20 {v : Nat} (h : v < 2 ^ 63) : v < 10 ^ 20 := by
  have : (2 : Nat) ^ 63 < 10 ^ 20 := by decide
  omega

theorem dot_not_mem_pad (n v : Nat) : dot ∉ padN n v := by
  intro h
  have := padN_digits n v dot h
  simp [dot] at this

theorem digitsVal_padN (n v acc : Nat) (hv : v < 10 ^ n) :
    digitsVal (padN n v) acc = some (acc * 10 ^ n + v) := by
  induction n generalizing v acc with
  | zero => simp [padN, digitsVal]; omega
  | succ n ih =>
    have hp := pow10_pos n
    have hq : v / 10 ^ n < 10 := by
      apply Nat.div_lt_of_lt_mul; rw [Nat.pow_succ] at hv; omega
    have ev := Nat.div_add_mod v (10 ^ n)
    have rv := Nat.mod_lt v hp
    simp only [padN, digitsVal, Nat.mod_eq_of_lt hq]
    rw [Nat.pow_succ]
    generalize v / 10 ^ n = q at *
    generalize hr : v % 10 ^ n = r at *
    have h1 : 48 ≤ 48 + q ∧ 48 + q ≤ 57 := by omega
    simp only [h1, and_self, if_true]
    rw [ih _ _ rv]
    congr 1
    have h2 : 48 + q - 48 = q := by omega
    rw [h2]
    generalize 10 ^ n = p at *
    subst ev
    simp only [Nat.add_mul, Nat.mul_assoc]
    rw [Nat.mul_comm 10 p, Nat.mul_comm q p]
    omega

/-! ### key format -/

theorem getKey_eq (k : Bytes) (v : Nat) : getKey k v = keyPrefix k ++ pad20 v := rfl

theorem splitLastDot_snoc (a s : Bytes) (hs : dot ∉ s) :
    splitLastDot (a ++ [dot] ++ s) = some (a, s) := by
  have hall : ∀ c ∈ s.reverse, (c != dot) = true := by
    intro c hc
    have : c ∈ s := List.mem_reverse.1 hc
    simp only [bne_iff_ne, ne_eq]
    intro e; subst e; exact hs this
  have hr : (a ++ [dot] ++ s).reverse = s.reverse ++ dot :: a.reverse := by simp
  have htw : ((a ++ [dot] ++ s).reverse).takeWhile (fun c => c != dot) = s.reverse := by
    rw [hr, List.takeWhile_append_of_pos hall]
    simp [List.takeWhile]
  unfold splitLastDot
  simp only [htw]
  rw [hr]
  have hlen : ¬ s.reverse.length = (s.reverse ++ dot :: a.reverse).length := by
    simp
  simp only [hlen, if_false]
  have : (s.reverse ++ dot :: a.reverse).drop (s.reverse.length + 1) = a.reverse := by
    rw [show s.reverse ++ dot :: a.reverse = (s.reverse ++ [dot]) ++ a.reverse by simp]
    have hl : (s.reverse ++ [dot]).length = s.reverse.length + 1 := by simp
    rw [← hl, List.drop_left]
  rw [List.length_reverse] at this
  simp [this]

theorem splitLastDot_getKey (k : Bytes) (v : Nat) :
    splitLastDot (getKey k v) = some (dataPrefix ++ k, pad20 v) := by
  unfold getKey
  exact splitLastDot_snoc (dataPrefix ++ k) (pad20 v) (dot_not_mem_pad 20 v)

theorem cutVersion_getKey (k : Bytes) (v : Nat) : cutVersion (getKey k v) = some (dataPrefix ++ k) := by
  simp [cutVersion, splitLastDot_getKey]

theorem parseInt64_pad20 (v : Nat) (hv : v < 2 ^ 63) : parseInt64 (pad20 v) = some (Int.ofNat v) := by
  have hd := digitsVal_padN 20 v 0 (lt_pow20 hv)
  have hc : pad20 v = (48 + v / 10 ^ 19 % 10) :: padN 19 (v % 10 ^ 19) := rfl
  have hm := Nat.mod_lt (v / 10 ^ 19) (show 0 < 10 by omega)
  have h45 : ¬ (48 + v / 10 ^ 19 % 10 = 45) := by omega
  have h43 : ¬ (48 + v / 10 ^ 19 % 10 = 43) := by omega
  unfold parseInt64
  rw [hc]
  simp only [h45, h43, if_false]
  rw [← hc]
  have hne : (pad20 v).isEmpty = false := by rw [hc]; rfl
  have hd' : digitsVal (pad20 v) 0 = some v := by
    have : pad20 v = padN 20 v := rfl
    rw [this, hd]; simp
  simp [hne, hd', hv]

theorem getVersion_getKey (k : Bytes) (v : Nat) (hv : v < 2 ^ 63) :
    getVersion (getKey k v) = some (Int.ofNat v) := by
  simp [getVersion, splitLastDot_getKey, parseInt64_pad20 v hv]

/-- a data key of `k'` lies in the seek window of `k` only if `k' = k` or `k'` extends `k ++ "."`. -/
theorem prefix_key_cases (k k' : Bytes) (i : Nat) (h : keyPrefix k <+: getKey k' i) :
    k = k' ∨ (k ++ [dot]) <+: k' := by
  have h1 : (k ++ [dot]) <+: (k' ++ ([dot] ++ pad20 i)) := by
    have : keyPrefix k = dataPrefix ++ (k ++ [dot]) := by simp [keyPrefix]
    have h2 : getKey k' i = dataPrefix ++ (k' ++ ([dot] ++ pad20 i)) := by simp [getKey]
    rw [this, h2] at h
    exact (List.prefix_append_right_inj _).1 h
  have h3 : k' <+: (k' ++ ([dot] ++ pad20 i)) := List.prefix_append _ _
  rcases List.prefix_or_prefix_of_prefix h1 h3 with h4 | h4
  · right; exact h4
  · obtain ⟨t, ht⟩ := h4
    obtain ⟨u, hu⟩ := h1
    rw [← ht, List.append_assoc] at hu
    have hu' := List.append_cancel_left hu
    cases t with
    | nil =>
      right
      rw [List.append_nil] at ht
      rw [ht]
      exact List.prefix_refl _
    | cons x t' =>
      simp only [List.cons_append, List.cons.injEq] at hu'
      obtain ⟨hx, hp⟩ := hu'
      subst hx
      cases ht' : t'.reverse with
      | nil =>
        left
        have : t' = [] := by simpa using ht'
        subst this
        exact (List.append_cancel_right ht).symm
      | cons y ys =>
        exfalso
        have hrev := congrArg List.reverse ht
        simp only [List.reverse_append, List.reverse_cons, List.reverse_nil, List.nil_append,
          ht', List.cons_append, List.append_assoc] at hrev
        have hy : y = dot := by
          have := List.head_eq_of_cons_eq hrev
          exact this
        have : y ∈ t' := by
          have : y ∈ t'.reverse := by rw [ht']; exact List.mem_cons_self
          exact List.mem_reverse.1 this
        have : dot ∈ pad20 i := by
          have hp' : t' ++ u = pad20 i := by simpa using hp
          rw [← hp']; subst hy; exact List.mem_append_left _ this
        exact dot_not_mem_pad 20 i this

theorem ble_getKey (k : Bytes) (i v : Nat) (hi : i < 2 ^ 63) (hv : v < 2 ^ 63) :
    ble (getKey k i) (getKey k v) = true ↔ i ≤ v := by
  rw [getKey_eq, getKey_eq, ble_append_left]
  exact padN_ble 20 i v (lt_pow20 hi) (lt_pow20 hv)

theorem getKey_inj_ver (k : Bytes) (i j : Nat) (hi : i < 2 ^ 63) (hj : j < 2 ^ 63)
    (h : getKey k i = getKey k j) : i = j := by
  rw [getKey_eq, getKey_eq] at h
  exact padN_inj 20 i j (lt_pow20 hi) (lt_pow20 hj) (List.append_cancel_left h)

/-! ### ordered store -/

section store
variable {β : Type}

theorem mem_put_of_mem (db : Store β) (k : Bytes) (v : β) (e : Bytes × β) (he : e ∈ db) (hk : e.1 ≠ k) :
    e ∈ put db k v := by
  induction db with
  | nil => cases he
  | cons x r ih =>
    obtain ⟨k', v'⟩ := x
    simp only [put]
    split
    · exact List.mem_cons_of_mem _ he
    · split
      · rename_i h2
        rcases List.mem_cons.1 he with h | h
        · subst h; exact absurd h2.symm hk
        · exact List.mem_cons_of_mem _ h
      · rcases List.mem_cons.1 he with h | h
        · subst h; exact List.mem_cons_self
        · exact List.mem_cons_of_mem _ (ih h)

theorem mem_put_self (db : Store β) (k : Bytes) (v : β) : (k, v) ∈ put db k v := by
  induction db with
  | nil => simp [put]
  | cons x r ih =>
    obtain ⟨k', v'⟩ := x
    simp only [put]
    split
    · exact List.mem_cons_self
    · split
      · exact List.mem_cons_self
      · exact List.mem_cons_of_mem _ ih

theorem mem_of_mem_put (db : Store β) (k : Bytes) (v : β) (e : Bytes × β) (he : e ∈ put db k v) :
    e = (k, v) ∨ (e ∈ db) := by
  induction db with
  | nil => simp [put] at he; left; exact he
  | cons x r ih =>
    obtain ⟨k', v'⟩ := x
    simp only [put] at he
    split at he
    · rcases List.mem_cons.1 he with h | h
      · left; exact h
      · right; exact h
    · split at he
      · rcases List.mem_cons.1 he with h | h
        · left; exact h
        · right; exact List.mem_cons_of_mem _ h
      · rcases List.mem_cons.1 he with h | h
        · right; rw [h]; exact List.mem_cons_self
        · rcases ih h with h' | h'
          · left; exact h'
          · right; exact List.mem_cons_of_mem _ h'

theorem sorted_put (db : Store β) (k : Bytes) (v : β) (hs : Sorted db) : Sorted (put db k v) := by
  induction db with
  | nil => simp [put, Sorted]
  | cons x r ih =>
    obtain ⟨k', v'⟩ := x
    have hs' := List.pairwise_cons.1 hs
    simp only [put]
    split
    · rename_i h1
      apply List.pairwise_cons.2
      refine ⟨?_, hs⟩
      intro e he
      rcases List.mem_cons.1 he with h | h
      · subst h; exact h1
      · exact blt_trans h1 (hs'.1 e h)
    · split
      · rename_i h1 h2
        subst h2
        apply List.pairwise_cons.2
        exact ⟨hs'.1, hs'.2⟩
      · rename_i h1 h2
        apply List.pairwise_cons.2
        refine ⟨?_, ih hs'.2⟩
        intro e he
        rcases mem_of_mem_put r k v e he with h | h
        · subst h
          -- ¬ k < k', k ≠ k' ⇒ k' < k
          show blt k' k = true
          simp only [blt, Bool.not_eq_true'] at h1 ⊢
          have h1' : ble k' k = true := by simpa using h1
          cases h3 : ble k k' with
          | false => rfl
          | true => exact absurd (ble_antisymm h3 h1') h2
        · exact hs'.1 e h

/-- in a sorted store a key occurs at most once. -/
theorem key_unique (db : Store β) (hs : Sorted db) (e e' : Bytes × β) (he : e ∈ db) (he' : e' ∈ db)
    (hk : e.1 = e'.1) : e = e' := by
  induction db with
  | nil => cases he
  | cons x r ih =>
    have hs' := List.pairwise_cons.1 hs
    rcases List.mem_cons.1 he with h | h <;> rcases List.mem_cons.1 he' with h' | h'
    · rw [h, h']
    · subst h
      have := hs'.1 e' h'
      rw [hk, blt_irrefl] at this; cases this
    · subst h'
      have := hs'.1 e h
      rw [hk, blt_irrefl] at this; cases this
    · exact ih hs'.2 h h'

theorem get_eq_some_iff (db : Store β) (hs : Sorted db) (k : Bytes) (v : β) :
    get db k = some v ↔ (k, v) ∈ db := by
  constructor
  · intro h
    simp only [get, Option.map_eq_some_iff] at h
    obtain ⟨e, he, hv⟩ := h
    have hm := List.mem_of_find?_eq_some he
    have hp := List.find?_some he
    simp only [beq_iff_eq] at hp
    obtain ⟨k1, v1⟩ := e
    simp only at hp hv
    subst hp; subst hv
    exact hm
  · intro h
    induction db with
    | nil => cases h
    | cons x r ih =>
      have hs' := List.pairwise_cons.1 hs
      simp only [get, List.find?]
      by_cases hx : x.1 = k
      · have : x = (k, v) := key_unique (x :: r) hs x (k, v) List.mem_cons_self h hx
        subst this
        simp
      · have hne : (x.1 == k) = false := by simpa using hx
        simp only [hne]
        rcases List.mem_cons.1 h with h' | h'
        · rw [← h'] at hx; exact absurd rfl hx
        · exact ih hs'.2 h'

theorem get_eq_none_iff (db : Store β) (k : Bytes) :
    get db k = none ↔ ∀ e ∈ db, e.1 ≠ k := by
  simp [get, List.find?_eq_none]

/-- filtering by a predicate on keys that rejects `k` does not see a `put` at `k`. -/
theorem filter_put (db : Store β) (k : Bytes) (v : β) (f : Bytes → Bool) (hf : f k = false) :
    (put db k v).filter (fun e => f e.1) = db.filter (fun e => f e.1) := by
  induction db with
  | nil => simp [put, hf]
  | cons x r ih =>
    obtain ⟨k', v'⟩ := x
    simp only [put]
    split
    · simp [List.filter_cons, hf]
    · split
      · rename_i h2; subst h2; simp [hf]
      · simp only [List.filter_cons, ih]

theorem sorted_filter (db : Store β) (hs : Sorted db) (q : Bytes × β → Bool) : Sorted (db.filter q) :=
  List.Pairwise.filter q hs

theorem getLast?_of_max (l : Store β) (hs : Sorted l) (e : Bytes × β) (he : e ∈ l)
    (hmax : ∀ e' ∈ l, ble e'.1 e.1 = true) : l.getLast? = some e := by
  induction l with
  | nil => cases he
  | cons x r ih =>
    have hs' := List.pairwise_cons.1 hs
    cases r with
    | nil =>
      rcases List.mem_cons.1 he with h | h
      · subst h; rfl
      · cases h
    | cons y ys =>
      rw [List.getLast?_cons_cons]
      apply ih hs'.2
      · rcases List.mem_cons.1 he with h | h
        · exfalso
          subst h
          have h1 := hs'.1 y List.mem_cons_self
          have h2 := hmax y (List.mem_cons_of_mem _ List.mem_cons_self)
          simp [blt, h2] at h1
        · exact h
      · intro e' he'; exact hmax e' (List.mem_cons_of_mem _ he')

end store

/-! ### point reads after put / erase -/

section store2
variable {β : Type}

theorem get_put (db : Store β) (k : Bytes) (v : β) (key : Bytes) :
    get (put db k v) key = if key = k then some v else get db key := by
  induction db with
  | nil =>
    by_cases h : key = k
    · subst h; simp [put, C09.get]
    · have : (k == key) = false := by simpa using fun e => h e.symm
      simp [put, C09.get, h, this]
  | cons x r ih =>
    obtain ⟨k', v'⟩ := x
    simp only [put]
    split
    · by_cases h : key = k
      · subst h; simp [C09.get]
      · have : (k == key) = false := by simpa using fun e => h e.symm
        simp [C09.get, List.find?, h, this]
    · split
      · rename_i h2
        subst h2
        by_cases h : key = k
        · subst h; simp [C09.get]
        · have : (k == key) = false := by simpa using fun e => h e.symm
          simp [C09.get, List.find?, h, this]
      · rename_i h2
        by_cases h : key = k
        · subst h
          have : (k' == key) = false := by simpa using fun e => h2 e.symm
          have ih' := ih
          simp only [C09.get, if_true] at ih'
          simp [C09.get, List.find?, this, ih']
        · simp only [h, if_false] at ih ⊢
          simp only [C09.get, List.find?] at ih ⊢
          cases hk : (k' == key) with
          | true => rfl
          | false => simpa using ih

theorem get_erase (db : Store β) (k key : Bytes) :
    get (erase db k) key = if key = k then none else get db key := by
  induction db with
  | nil => simp [erase, C09.get]
  | cons x r ih =>
    simp only [erase, C09.get] at ih ⊢
    by_cases hx : x.1 = k
    · have h1 : (x.1 != k) = false := by simpa using hx
      simp only [List.filter_cons, h1]
      by_cases h : key = k
      · simp only [h, if_true] at ih ⊢; exact ih
      · simp only [h, if_false] at ih ⊢
        have : (x.1 == key) = false := by simpa [hx] using fun e => h e.symm
        simp only [List.find?, this]; exact ih
    · have h1 : (x.1 != k) = true := by simpa using hx
      simp only [List.filter_cons, h1, if_true]
      by_cases h : key = k
      · simp only [h, if_true] at ih ⊢
        have : (x.1 == k) = false := by simpa using hx
        simp only [List.find?, this]; exact ih
      · simp only [h, if_false] at ih ⊢
        simp only [List.find?]
        cases (x.1 == key) with
        | true => rfl
        | false => exact ih

end store2

/-! ### AddMVCC / DelMVCC on the data region -/

theorem getKey_inj (k k' : Bytes) (i j : Nat) (hi : i < 2 ^ 63) (hj : j < 2 ^ 63)
    (h : getKey k i = getKey k' j) : k = k' ∧ i = j := by
  simp only [getKey, List.append_assoc] at h
  have h1 := List.append_cancel_left h
  have h2 : k ++ ([dot] ++ pad20 i) = (k ++ [dot]) ++ pad20 i := by simp
  have h3 : k' ++ ([dot] ++ pad20 j) = (k' ++ [dot]) ++ pad20 j := by simp
  rw [h2, h3] at h1
  have hl : (pad20 i).length = (pad20 j).length := by simp [pad20, padN_length]
  obtain ⟨h4, h5⟩ := List.append_inj' h1 hl
  exact ⟨List.append_cancel_right h4, padN_inj 20 i j (lt_pow20 hi) (lt_pow20 hj) h5⟩

theorem applyAdd_cons (db : DB) (n : Nat) (kv : Bytes × Bytes) (kvs : List (Bytes × Bytes)) :
    applyAdd db n (kv :: kvs) = applyAdd (put db (getKey kv.1 n) kv.2) n kvs := rfl

theorem applyAdd_filter (db : DB) (n : Nat) (kvs : List (Bytes × Bytes)) (f : Bytes → Bool)
    (hf : ∀ kv ∈ kvs, f (getKey kv.1 n) = false) :
    (applyAdd db n kvs).filter (fun e => f e.1) = db.filter (fun e => f e.1) := by
  induction kvs generalizing db with
  | nil => rfl
  | cons kv kvs ih =>
    rw [applyAdd_cons, ih _ (fun kv' h => hf kv' (List.mem_cons_of_mem _ h))]
    exact filter_put db _ _ f (hf kv List.mem_cons_self)

theorem applyDel_eq_filter (db : DB) (n : Nat) (keys : List Bytes) :
    applyDel db n keys = db.filter (fun e => keys.all (fun k => e.1 != getKey k n)) := by
  induction keys generalizing db with
  | nil =>
    simp only [applyDel, List.foldl_nil, List.all_nil]
    exact (List.filter_eq_self.2 (fun _ _ => rfl)).symm
  | cons k ks ih =>
    have : applyDel db n (k :: ks) = applyDel (erase db (getKey k n)) n ks := rfl
    rw [this, ih, erase, List.filter_filter]
    congr 1
    funext e
    simp [Bool.and_comm]

theorem sorted_applyAdd (db : DB) (n : Nat) (kvs : List (Bytes × Bytes)) (hs : Sorted db) :
    Sorted (applyAdd db n kvs) := by
  induction kvs generalizing db with
  | nil => exact hs
  | cons kv kvs ih => rw [applyAdd_cons]; exact ih _ (sorted_put db _ _ hs)

theorem mem_applyAdd (db : DB) (n : Nat) (kvs : List (Bytes × Bytes)) (e : Bytes × Bytes)
    (he : e ∈ applyAdd db n kvs) : e ∈ db ∨ ∃ kv ∈ kvs, e = (getKey kv.1 n, kv.2) := by
  induction kvs generalizing db with
  | nil => left; exact he
  | cons kv kvs ih =>
    rw [applyAdd_cons] at he
    rcases ih _ he with h | ⟨kv', hkv', h⟩
    · rcases mem_of_mem_put db _ _ e h with h' | h'
      · right; exact ⟨kv, List.mem_cons_self, h'⟩
      · left; exact h'
    · right; exact ⟨kv', List.mem_cons_of_mem _ hkv', h⟩

/-! ### MVCCIter: last records -/

/-- last write to `key` in a list of writes. -/
def lastOf (ws : List (Bytes × Bytes)) (key : Bytes) : Option Bytes :=
  match ws with
  | [] => none
  | w :: rest =>
    match lastOf rest key with
    | some v => some v
    | none => if w.1 = key then some w.2 else none

theorem get_foldl_put (ws : List (Bytes × Bytes)) (d0 : DB) (key : Bytes) :
    get (ws.foldl (fun d w => put d w.1 w.2) d0) key =
      match lastOf ws key with | some v => some v | none => get d0 key := by
  induction ws generalizing d0 with
  | nil => rfl
  | cons w rest ih =>
    simp only [List.foldl_cons, ih, lastOf]
    cases lastOf rest key with
    | some v => rfl
    | none =>
      simp only [get_put]
      by_cases h : key = w.1
      · simp [h]
      · have : ¬ w.1 = key := fun e => h e.symm
        simp [h, this]

theorem applyAdd_eq_foldl (db : DB) (n : Nat) (kvs : List (Bytes × Bytes)) :
    applyAdd db n kvs = (kvs.map (fun kv => (getKey kv.1 n, kv.2))).foldl (fun d w => put d w.1 w.2) db := by
  simp [applyAdd, List.foldl_map]

theorem getKey_inj_key (k k' : Bytes) (n : Nat) (h : getKey k n = getKey k' n) : k = k' := by
  simp only [getKey] at h
  have h1 := List.append_cancel_right h
  have h2 := List.append_cancel_right h1
  exact List.append_cancel_left h2

theorem lastOf_map_same (kvs : List (Bytes × Bytes)) (k : Bytes) (n : Nat) :
    lastOf (kvs.map (fun kv => (getKey kv.1 n, kv.2))) (getKey k n) = lastOf kvs k := by
  induction kvs with
  | nil => rfl
  | cons kv rest ih =>
    simp only [List.map_cons, lastOf, ih]
    cases lastOf rest k with
    | some v => rfl
    | none =>
      by_cases h : kv.1 = k
      · simp [h]
      · have : ¬ getKey kv.1 n = getKey k n := fun e => h (getKey_inj_key _ _ n e)
        simp [h, this]

theorem lastOf_map_other (kvs : List (Bytes × Bytes)) (k : Bytes) (n j : Nat) (hn : n < 2 ^ 63)
    (hj : j < 2 ^ 63) (hne : j ≠ n) :
    lastOf (kvs.map (fun kv => (getKey kv.1 n, kv.2))) (getKey k j) = none := by
  induction kvs with
  | nil => rfl
  | cons kv rest ih =>
    simp only [List.map_cons, lastOf, ih]
    have : ¬ getKey kv.1 n = getKey k j := fun e => hne (getKey_inj _ _ n j hn hj e).2.symm
    simp [this]

theorem get_applyAdd_same (db : DB) (n : Nat) (kvs : List (Bytes × Bytes)) (k : Bytes) :
    get (applyAdd db n kvs) (getKey k n) =
      match lastOf kvs k with | some v => some v | none => get db (getKey k n) := by
  rw [applyAdd_eq_foldl, get_foldl_put, lastOf_map_same]

theorem get_applyAdd_other (db : DB) (n j : Nat) (kvs : List (Bytes × Bytes)) (k : Bytes)
    (hn : n < 2 ^ 63) (hj : j < 2 ^ 63) (hne : j ≠ n) :
    get (applyAdd db n kvs) (getKey k j) = get db (getKey k j) := by
  rw [applyAdd_eq_foldl, get_foldl_put, lastOf_map_other kvs k n j hn hj hne]

theorem get_none_of_below (db : DB) (n j : Nat) (k : Bytes) (hb : Below n db) (hj : j < 2 ^ 63) (hnj : n ≤ j) :
    get db (getKey k j) = none := by
  apply (get_eq_none_iff db _).2
  intro e he heq
  obtain ⟨k', i, hi, hkey⟩ := hb e he
  rw [hkey] at heq
  have := (getKey_inj k' k i j (by omega) hj heq).2
  omega

theorem specRead_applyAdd_older (db : DB) (n : Nat) (kvs : List (Bytes × Bytes)) (k : Bytes)
    (hn : n < 2 ^ 63) (m : Nat) (hm : m < n) :
    specRead (applyAdd db n kvs) k m = specRead db k m := by
  induction m with
  | zero => simp only [specRead]; exact get_applyAdd_other db n 0 kvs k hn (by omega) (by omega)
  | succ m ih =>
    simp only [specRead]
    rw [get_applyAdd_other db n (m + 1) kvs k hn (by omega) (by omega), ih (by omega)]

theorem lastOf_none_iff (kvs : List (Bytes × Bytes)) (k : Bytes) :
    lastOf kvs k = none ↔ k ∉ kvs.map (·.1) := by
  induction kvs with
  | nil => simp [lastOf]
  | cons kv rest ih =>
    simp only [lastOf, List.map_cons, List.mem_cons, not_or]
    cases h : lastOf rest k with
    | some v =>
      simp only [reduceCtorEq, false_iff, not_and]
      intro _
      have : ¬ (k ∉ rest.map (·.1)) := fun hn => by rw [ih.2 hn] at h; cases h
      exact this
    | none =>
      have hr := ih.1 h
      by_cases hk : kv.1 = k
      · simp [hk]
      · have : ¬ k = kv.1 := fun e => hk e.symm
        simp [hk, this, hr]

/-- the loop of `MVCCIter.DelMVCC` over the keys of the removed version, given that every read it
makes is right. -/
theorem iterDelLast_spec (data : DB) (ver : Nat) (hver : ver ≠ 0) (R : Bytes → Option Bytes)
    (ks : List Bytes) (last : DB)
    (hread : ∀ k ∈ ks, getV data k (ver - 1) = match R k with | some v => .val v | none => .notfound) :
    ∃ last2, iterDelLast data ver ks last = .ok last2 ∧
      ∀ k, get last2 k = if k ∈ ks then R k else get last k := by
  induction ks generalizing last with
  | nil => exact ⟨last, rfl, fun k => by simp⟩
  | cons k0 rest ih =>
    have hr0 := hread k0 List.mem_cons_self
    have hrest : ∀ k ∈ rest, getV data k (ver - 1) = match R k with | some v => .val v | none => .notfound :=
      fun k hk => hread k (List.mem_cons_of_mem _ hk)
    simp only [iterDelLast, hver, if_false, hr0]
    cases hR : R k0 with
    | none =>
      simp only
      obtain ⟨l2, h1, h2⟩ := ih (erase last k0) hrest
      refine ⟨l2, h1, ?_⟩
      intro k
      rw [h2 k]
      by_cases hk : k ∈ rest
      · simp [hk]
      · by_cases hk0 : k = k0
        · subst hk0; simp [hk, get_erase, hR]
        · simp [hk, hk0, get_erase]
    | some v =>
      simp only
      obtain ⟨l2, h1, h2⟩ := ih (put last k0 v) hrest
      refine ⟨l2, h1, ?_⟩
      intro k
      rw [h2 k]
      by_cases hk : k ∈ rest
      · simp [hk]
      · by_cases hk0 : k = k0
        · subst hk0; simp [hk, get_put, hR]
        · simp [hk, hk0, get_put]

/-! ### Trash -/

theorem snoc_cases {α : Type} (l : List α) : l = [] ∨ ∃ L b, l = L ++ [b] := by
  induction l with
  | nil => left; rfl
  | cons x xs ih =>
    right
    rcases ih with h | ⟨L, b, h⟩
    · subst h; exact ⟨[], x, rfl⟩
    · subst h; exact ⟨x :: L, b, rfl⟩

/-- prefix in force when the record after `l1` is visited: `cutVersion` of the last visited record. -/
def prevCut (pfx : Bytes) (l1 : List (Bytes × Bytes)) : Bytes :=
  match l1.getLast? with
  | some a => cutOf a.1
  | none => pfx

theorem prevCut_cons (pfx : Bytes) (a : Bytes × Bytes) (l1 : List (Bytes × Bytes)) :
    prevCut pfx (a :: l1) = prevCut (cutOf a.1) l1 := by
  cases l1 with
  | nil => rfl
  | cons b rest =>
    unfold prevCut
    rw [List.getLast?_cons_cons]
    cases h : (b :: rest).getLast? with
    | none => simp at h
    | some x => rfl

theorem trashStep_fst (cut : Nat) (pfx : Bytes) (dels : List Bytes) (a : Bytes × Bytes)
    (hc : (cutVersion a.1).isSome) : (trashStep cut (pfx, dels) a).1 = cutOf a.1 := by
  obtain ⟨c, hcv⟩ := Option.isSome_iff_exists.1 hc
  unfold trashStep
  simp only
  by_cases h : cutOf a.1 = pfx
  · have : (cutOf a.1 != pfx) = false := by simpa using h
    simp only [this, Bool.false_eq_true, if_false]
    cases getVersion a.1 with
    | none => exact h.symm
    | some v =>
      show (if v ≤ Int.ofNat cut then (pfx, a.1 :: dels) else (pfx, dels)).1 = _
      split <;> exact h.symm
  · have : (cutOf a.1 != pfx) = true := by simpa using h
    simp only [this, if_true]
    show (match cutVersion a.1 with | some p => p | none => sentinel) = cutOf a.1
    unfold cutOf
    rw [hcv]

theorem trashStep_snd (cut : Nat) (pfx : Bytes) (dels : List Bytes) (a : Bytes × Bytes) (key : Bytes) :
    key ∈ (trashStep cut (pfx, dels) a).2 ↔
      key ∈ dels ∨ (a.1 = key ∧ cutOf a.1 = pfx ∧ ∃ v, getVersion a.1 = some v ∧ v ≤ Int.ofNat cut) := by
  unfold trashStep
  simp only
  by_cases h : cutOf a.1 = pfx
  · have : (cutOf a.1 != pfx) = false := by simpa using h
    simp only [this, Bool.false_eq_true, if_false]
    cases hg : getVersion a.1 with
    | none => simp
    | some v =>
      show key ∈ (if v ≤ Int.ofNat cut then (pfx, a.1 :: dels) else (pfx, dels)).2 ↔ _
      by_cases hv : v ≤ Int.ofNat cut
      · rw [if_pos hv]
        simp only [List.mem_cons]
        constructor
        · rintro (h1 | h1)
          · right; exact ⟨h1.symm, h, v, rfl, hv⟩
          · left; exact h1
        · rintro (h1 | ⟨h1, _, _⟩)
          · right; exact h1
          · left; exact h1.symm
      · rw [if_neg hv]
        constructor
        · intro h1; left; exact h1
        · rintro (h1 | ⟨_, _, v', hv', hle⟩)
          · exact h1
          · simp only [Option.some.injEq] at hv'; subst hv'; exact absurd hle hv
  · have : (cutOf a.1 != pfx) = true := by simpa using h
    simp only [this, if_true]
    constructor
    · intro h1; left; exact h1
    · rintro (h1 | ⟨_, h2, _⟩)
      · exact h1
      · exact absurd h2 h

/-- exactly which keys the loop of `Trash` collects: those of records whose version is at most
the cut and whose `cutVersion` equals that of the record visited right before them. -/
theorem trash_fold_exact (cut : Nat) (l : List (Bytes × Bytes)) (pfx : Bytes) (dels : List Bytes)
    (hc : ∀ a ∈ l, (cutVersion a.1).isSome) (key : Bytes) :
    key ∈ (l.foldl (trashStep cut) (pfx, dels)).2 ↔
      key ∈ dels ∨ ∃ l1 e l2, l = l1 ++ e :: l2 ∧ e.1 = key ∧ cutOf key = prevCut pfx l1 ∧
        ∃ v, getVersion key = some v ∧ v ≤ Int.ofNat cut := by
  induction l generalizing pfx dels with
  | nil => simp
  | cons a rest ih =>
    have hca := hc a List.mem_cons_self
    have hrest := fun b hb => hc b (List.mem_cons_of_mem _ hb)
    simp only [List.foldl_cons]
    have hst : trashStep cut (pfx, dels) a = (cutOf a.1, (trashStep cut (pfx, dels) a).2) :=
      Prod.ext (trashStep_fst cut pfx dels a hca) rfl
    rw [hst, ih _ _ hrest, trashStep_snd]
    constructor
    · rintro ((h | ⟨h1, h2, v, h3, h4⟩) | ⟨l1, e, l2, hl, hk, hp, hv⟩)
      · left; exact h
      · right; exact ⟨[], a, rest, rfl, h1, by rw [← h1]; exact h2, v, by rw [← h1]; exact h3, h4⟩
      · right; exact ⟨a :: l1, e, l2, by rw [hl]; rfl, hk, by rw [prevCut_cons]; exact hp, hv⟩
    · rintro (h | ⟨l1, e, l2, hl, hk, hp, v, hv, hle⟩)
      · left; left; exact h
      · cases l1 with
        | nil =>
          simp only [List.nil_append, List.cons.injEq] at hl
          obtain ⟨h1, _⟩ := hl
          subst h1
          left; right
          exact ⟨hk, by rw [hk]; exact hp, v, by rw [hk]; exact hv, hle⟩
        | cons b l1' =>
          simp only [List.cons_append, List.cons.injEq] at hl
          obtain ⟨h1, h2⟩ := hl
          subst h1
          right
          exact ⟨l1', e, l2, h2, hk, by rw [← prevCut_cons]; exact hp, v, hv, hle⟩

/-! ### reads -/

theorem specRead_spec (db : DB) (k : Bytes) (v : Nat) :
    (∀ val, specRead db k v = some val →
        ∃ i, i ≤ v ∧ get db (getKey k i) = some val ∧ ∀ j, i < j → j ≤ v → get db (getKey k j) = none) ∧
    (specRead db k v = none → ∀ j, j ≤ v → get db (getKey k j) = none) := by
  induction v with
  | zero =>
    constructor
    · intro val h
      exact ⟨0, Nat.le_refl _, h, by intro j h1 h2; omega⟩
    · intro h j hj
      have : j = 0 := by omega
      subst this; exact h
  | succ v ih =>
    simp only [specRead]
    cases hg : get db (getKey k (v + 1)) with
    | some x =>
      constructor
      · intro val h
        simp only [Option.some.injEq] at h
        subst h
        exact ⟨v + 1, Nat.le_refl _, hg, by intro j h1 h2; omega⟩
      · intro h; cases h
    | none =>
      constructor
      · intro val h
        obtain ⟨i, hi, hget, hno⟩ := ih.1 val h
        refine ⟨i, by omega, hget, ?_⟩
        intro j h1 h2
        by_cases hj : j = v + 1
        · subst hj; exact hg
        · exact hno j h1 (by omega)
      · intro h j hj
        by_cases hj' : j = v + 1
        · subst hj'; exact hg
        · exact ih.2 h j (by omega)

/-- under `SepFree`, the records the reverse seek of `GetV k v` can see are the records of `k`
at versions `≤ v`. -/
theorem seek_window (K : List Bytes) (db : DB) (k : Bytes) (v : Nat)
    (hwf : WF K db) (hne : NoEmpty db) (hk : k ∈ K) (hsep : SepFree K) (hv : v < 2 ^ 63)
    (e : Bytes × Bytes) (he : e ∈ db) :
    (inRange (keyPrefix k) e.1 && ble e.1 (getKey k v) && !e.2.isEmpty) = true ↔
      ∃ i, i ≤ v ∧ e.1 = getKey k i := by
  obtain ⟨k', hk', i, hi, hkey⟩ := hwf.2 e he
  constructor
  · intro h
    simp only [Bool.and_eq_true] at h
    obtain ⟨⟨h1, h2⟩, _⟩ := h
    have hp := (inRange_keyPrefix k e.1).1 h1
    rw [hkey] at hp
    rcases prefix_key_cases k k' i hp with h3 | h3
    · subst h3
      refine ⟨i, ?_, hkey⟩
      rw [hkey] at h2
      exact (ble_getKey k i v hi hv).1 h2
    · exact absurd h3 (hsep k hk k' hk')
  · rintro ⟨j, hj, hkey'⟩
    have hjb : j < 2 ^ 63 := by omega
    simp only [Bool.and_eq_true]
    refine ⟨⟨?_, ?_⟩, ?_⟩
    · rw [inRange_keyPrefix, hkey', getKey_eq]; exact List.prefix_append _ _
    · rw [hkey']; exact (ble_getKey k j v hjb hv).2 hj
    · have := hne e he
      cases h : e.2 with
      | nil => exact absurd h this
      | cons _ _ => rfl

end C09
