import Chain33Model.Proofs.C09
import Chain33Model.Props.C07
/-!
Bridge between the closed form `C09.seekRev` (bytes as naturals) and the iterator-level model of
`ListHelper.List(prefix, key, 1, ListSeek)` of C07 (`C07.listPlain` over `C06.Iter`, bytes as UInt8).
-/
namespace C09

/-- a C09 byte string as a wire byte string. -/
def u8 (b : Bytes) : C06.Bytes := b.map UInt8.ofNat

def Small (b : Bytes) : Prop := ∀ c ∈ b, c < 256

instance (b : Bytes) : Decidable (Small b) := by unfold Small; infer_instance

/-- the store as a C06 map. -/
def embed (db : DB) : C06.Map := db.map (fun e => (u8 e.1, u8 e.2))

def SmallDB (db : DB) : Prop := ∀ e ∈ db, Small e.1 ∧ Small e.2

instance (db : DB) : Decidable (SmallDB db) := by unfold SmallDB; infer_instance

theorem u8lt (x y : Nat) (hx : x < 256) (hy : y < 256) : (UInt8.ofNat x < UInt8.ofNat y) ↔ x < y := by
  rw [UInt8.lt_iff_toNat_lt]
  simp [UInt8.toNat_ofNat', Nat.mod_eq_of_lt hx, Nat.mod_eq_of_lt hy]

theorem u8inj (x y : Nat) (hx : x < 256) (hy : y < 256) (h : UInt8.ofNat x = UInt8.ofNat y) : x = y := by
  have := congrArg UInt8.toNat h
  simpa [UInt8.toNat_ofNat', Nat.mod_eq_of_lt hx, Nat.mod_eq_of_lt hy] using this

theorem small_cons {c : Nat} {b : Bytes} (h : Small (c :: b)) : c < 256 ∧ Small b :=
  ⟨h c List.mem_cons_self, fun x hx => h x (List.mem_cons_of_mem _ hx)⟩

/-- the two lexicographic orders agree. -/
theorem blt_u8 (a b : Bytes) (ha : Small a) (hb : Small b) : C06.blt (u8 a) (u8 b) = blt a b := by
  induction a generalizing b with
  | nil =>
    cases b with
    | nil => rfl
    | cons y ys => simp [u8, C06.blt, blt, ble]
  | cons x xs ih =>
    cases b with
    | nil => simp [u8, C06.blt, blt, ble]
    | cons y ys =>
      obtain ⟨hx, hxs⟩ := small_cons ha
      obtain ⟨hy, hys⟩ := small_cons hb
      have ih' := ih ys hxs hys
      simp only [u8, List.map_cons, C06.blt, blt, ble] at ih' ⊢
      by_cases h1 : x < y
      · have h1' := (u8lt x y hx hy).2 h1
        have : ¬ y < x := by omega
        simp [h1, h1', this]
      · have h1' : ¬ UInt8.ofNat x < UInt8.ofNat y := fun h => h1 ((u8lt x y hx hy).1 h)
        by_cases h2 : y < x
        · have h2' := (u8lt y x hy hx).2 h2
          simp [h1, h1', h2, h2']
        · have h2' : ¬ UInt8.ofNat y < UInt8.ofNat x := fun h => h2 ((u8lt y x hy hx).1 h)
          simp only [h1, h1', h2, h2', if_false]
          exact ih'

theorem isPrefixOf_u8 (p x : Bytes) (hp : Small p) (hx : Small x) :
    (u8 p).isPrefixOf (u8 x) = p.isPrefixOf x := by
  induction p generalizing x with
  | nil => rfl
  | cons a p ih =>
    cases x with
    | nil => rfl
    | cons b x =>
      obtain ⟨ha, hps⟩ := small_cons hp
      obtain ⟨hb, hxs⟩ := small_cons hx
      have ih' := ih x hps hxs
      simp only [u8, List.map_cons, List.isPrefixOf] at ih' ⊢
      have e1 : (UInt8.ofNat a == UInt8.ofNat b) = (a == b) := by
        by_cases hab : a = b
        · subst hab; simp
        · have h1 : UInt8.ofNat a ≠ UInt8.ofNat b := fun e => hab (u8inj a b ha hb e)
          have h2 : (UInt8.ofNat a == UInt8.ofNat b) = false := by simpa using h1
          have h3 : (a == b) = false := by simpa using hab
          rw [h2, h3]
      rw [e1, ih']

theorem u8_isEmpty (b : Bytes) : (u8 b).isEmpty = b.isEmpty := by
  cases b <;> rfl

theorem sorted_embed (db : DB) (hs : Sorted db) (hsm : SmallDB db) : C06.Sorted (embed db) := by
  unfold C06.Sorted embed
  rw [List.pairwise_map]
  unfold Sorted at hs
  induction db with
  | nil => exact List.Pairwise.nil
  | cons e rest ih =>
    have hp := List.pairwise_cons.1 hs
    apply List.pairwise_cons.2
    refine ⟨?_, ih hp.2 (fun x hx => hsm x (List.mem_cons_of_mem _ hx))⟩
    intro b hb
    show C06.blt (u8 e.1) (u8 b.1) = true
    rw [blt_u8 _ _ (hsm e List.mem_cons_self).1 (hsm b (List.mem_cons_of_mem _ hb)).1]
    exact hp.1 b hb

/-- on a list that is downward closed for `¬ p`, `dropWhile p` is `filter (¬ p)`. -/
theorem dropWhile_eq_filter {α : Type} (p : α → Bool) (l : List α)
    (h : ∀ l1 a l2, l = l1 ++ a :: l2 → p a = false → ∀ b ∈ l2, p b = false) :
    l.dropWhile p = l.filter (fun a => !p a) := by
  induction l with
  | nil => rfl
  | cons x xs ih =>
    by_cases hx : p x = true
    · simp only [List.dropWhile_cons, hx, if_true, List.filter_cons, Bool.not_true, Bool.false_eq_true, if_false]
      exact ih (fun l1 a l2 hl ha => h (x :: l1) a l2 (by rw [hl]; rfl) ha)
    · have hx' : p x = false := by simpa using hx
      simp only [List.dropWhile_cons, hx', Bool.false_eq_true, if_false, List.filter_cons, Bool.not_false, if_true]
      congr 1
      symm
      apply List.filter_eq_self.2
      intro b hb
      simp [h [] x xs rfl hx' b hb]

/-- walking down from `search`: the first live record at or below it is the last record of the
ascending store that is at or below it and live. -/
theorem head_down_eq_getLast (L : DB) (hs : Sorted L) (search : Bytes) (q : Bytes × Bytes → Bool) :
    ((L.reverse.dropWhile (fun e => blt search e.1)).filter q).head? =
      (L.filter (fun e => ble e.1 search && q e)).getLast? := by
  have hdw : L.reverse.dropWhile (fun e => blt search e.1) = L.reverse.filter (fun e => !blt search e.1) := by
    apply dropWhile_eq_filter
    intro l1 a l2 hl ha b hb
    -- in the descending list b comes after a, so b < a ≤ search
    have hL : L = l2.reverse ++ a :: l1.reverse := by
      have := congrArg List.reverse hl
      simpa using this
    rw [hL] at hs
    have h2 := List.pairwise_append.1 hs
    have hba : blt b.1 a.1 = true := h2.2.2 b (by simp [hb]) a (by simp)
    have hale : ble a.1 search = true := by simpa [blt] using ha
    have := ble_trans (ble_of_blt hba) hale
    simp [blt, this]
  rw [hdw, List.filter_filter, List.filter_reverse, List.head?_reverse]
  congr 1
  apply List.filter_congr
  intro e _
  simp [blt, Bool.and_comm]

theorem prefixUpper_snoc8 (x : C06.Bytes) (c : UInt8) (hc : c < 255) :
    C06.prefixUpper (x ++ [c]) = some (x ++ [c + 1]) := by
  induction x with
  | nil => simp [C06.prefixUpper, hc]
  | cons a x ih => simp [C06.prefixUpper, ih]

theorem dropWhile_congr' {α : Type} (p q : α → Bool) (l : List α) (h : ∀ a ∈ l, p a = q a) :
    l.dropWhile p = l.dropWhile q := by
  induction l with
  | nil => rfl
  | cons x xs ih =>
    simp only [List.dropWhile_cons, h x List.mem_cons_self]
    split
    · exact ih (fun a ha => h a (List.mem_cons_of_mem _ ha))
    · rfl

theorem filter_congr' {α : Type} (p q : α → Bool) (l : List α) (h : ∀ a ∈ l, p a = q a) :
    l.filter p = l.filter q := List.filter_congr h

theorem small_append {a b : Bytes} (ha : Small a) (hb : Small b) : Small (a ++ b) := by
  intro c hc
  rcases List.mem_append.1 hc with h | h
  · exact ha c h
  · exact hb c h

theorem small_dataPrefix : Small dataPrefix := by decide

theorem small_pad (n v : Nat) : Small (padN n v) := by
  intro c hc
  have := padN_digits n v c hc
  omega

theorem inRange_keyPrefix_bool (k x : Bytes) : inRange (keyPrefix k) x = (keyPrefix k).isPrefixOf x := by
  cases h : (keyPrefix k).isPrefixOf x with
  | true => exact (inRange_keyPrefix k x).2 (List.isPrefixOf_iff_prefix.1 h)
  | false =>
    cases h2 : inRange (keyPrefix k) x with
    | false => rfl
    | true =>
      have := List.isPrefixOf_iff_prefix.2 ((inRange_keyPrefix k x).1 h2)
      rw [h] at this; cases this

/-- **`seekRev` is `ListHelper.List(prefix, key, 1, ListSeek)`**: on the store seen as a C06 map,
the iterator-level model of C07 (`nextKeyValue` over `C06.Iter`: reverse iterator on
`[prefix, bytesPrefix prefix)`, `Seek`, skipping deleted values) answers exactly what the closed
form `seekRev` of Model/C09.lean answers for the seek of `GetV(k, v)`. -/
theorem seekRev_is_list_seek (db : DB) (k : Bytes) (v : Nat) (hs : Sorted db) (hsm : SmallDB db)
    (hk : Small k) :
    C07.listPlain (embed db) (u8 (keyPrefix k)) (u8 (getKey k v)) 1 C07.ListSeek =
      some (match seekRev db (keyPrefix k) (getKey k v) with
            | some e => [u8 e.1, u8 e.2]
            | none => []) := by
  have hsp : Small (keyPrefix k) := by
    unfold keyPrefix
    exact small_append (small_append small_dataPrefix hk) (by decide)
  have hsk : Small (getKey k v) := by
    rw [getKey_eq]; exact small_append hsp (small_pad 20 v)
  have hkne : u8 (getKey k v) ≠ [] := by
    simp [u8, getKey, dataPrefix]
  have hq : C06.prefixUpper (u8 (keyPrefix k)) ≠ some C06.emptyValue := by
    have h1 : u8 (keyPrefix k) = u8 (dataPrefix ++ k) ++ [46] := by
      simp [u8, keyPrefix, dot]
    rw [h1, prefixUpper_snoc8 _ 46 (by decide)]
    intro h
    have := congrArg (fun o => o.bind List.getLast?) h
    simp [C06.emptyValue] at this
  rw [C07.list_seek (sorted_embed db hs hsm) _ _ hkne hq]
  congr 1
  -- push the embedding outwards
  have hwp : C06.withPrefix (embed db) (u8 (keyPrefix k)) =
      embed (db.filter (fun e => (keyPrefix k).isPrefixOf e.1)) := by
    unfold C06.withPrefix embed
    rw [List.filter_map]
    congr 1
    apply List.filter_congr
    intro e he
    exact isPrefixOf_u8 _ _ hsp (hsm e he).1
  rw [hwp]
  generalize hL : db.filter (fun e => (keyPrefix k).isPrefixOf e.1) = L
  have hLs : Sorted L := by rw [← hL]; exact sorted_filter db hs _
  have hLsm : SmallDB L := by
    intro e he
    rw [← hL] at he
    exact hsm e (List.mem_filter.1 he).1
  have hdrop : (embed L).reverse.dropWhile (fun e => C06.blt (u8 (getKey k v)) e.1) =
      embed (L.reverse.dropWhile (fun e => blt (getKey k v) e.1)) := by
    unfold embed
    rw [← List.map_reverse, List.dropWhile_map]
    congr 1
    apply dropWhile_congr'
    intro a ha
    exact blt_u8 _ _ hsk (hLsm a (List.mem_reverse.1 ha)).1
  rw [hdrop]
  have hlive : C07.live (embed (L.reverse.dropWhile (fun e => blt (getKey k v) e.1))) =
      embed ((L.reverse.dropWhile (fun e => blt (getKey k v) e.1)).filter (fun e => !e.2.isEmpty)) := by
    unfold C07.live embed
    rw [List.filter_map]
    congr 1
    apply List.filter_congr
    intro e _
    simp [C07.isDeleted, u8_isEmpty]
  rw [hlive]
  have hhead : (embed ((L.reverse.dropWhile (fun e => blt (getKey k v) e.1)).filter (fun e => !e.2.isEmpty))).head? =
      ((L.filter (fun e => ble e.1 (getKey k v) && !e.2.isEmpty)).getLast?).map (fun e => (u8 e.1, u8 e.2)) := by
    unfold embed
    rw [List.head?_map, head_down_eq_getLast L hLs]
  rw [hhead]
  have hseek : seekRev db (keyPrefix k) (getKey k v) =
      (L.filter (fun e => ble e.1 (getKey k v) && !e.2.isEmpty)).getLast? := by
    unfold seekRev
    rw [← hL, List.filter_filter]
    congr 1
    apply List.filter_congr
    intro e _
    rw [inRange_keyPrefix_bool]
    cases (keyPrefix k).isPrefixOf e.1 <;> cases ble e.1 (getKey k v) <;> cases e.2.isEmpty <;> rfl
  rw [hseek]
  cases (L.filter (fun e => ble e.1 (getKey k v) && !e.2.isEmpty)).getLast? <;> rfl

end C09
