import Chain33Model.Model.C10
import Chain33Model.Proofs.C09
/-!
Helper lemmas for C10: last-write-wins semantics of a kv list, DelDupKey, key shapes.
-/
namespace C10
open C09 (Bytes ble blt Store put erase get Sorted)

open C09 (get_put get_erase)

/-- the last entry of a kv list for `key` (`none`: the list does not mention the key). -/
def lastW (kvs : List KV) (key : Bytes) : Option (Option Val) :=
  match kvs with
  | [] => none
  | kv :: rest =>
    match lastW rest key with
    | some x => some x
    | none => if kv.1 = key then some kv.2 else none

/-- a store read after a kv list has been written over it. -/
def overlay (w : Option (Option Val)) (old : Option Val) : Option Val :=
  match w with
  | none => old
  | some x => x

theorem lastW_append (a b : List KV) (key : Bytes) :
    lastW (a ++ b) key = match lastW b key with | some x => some x | none => lastW a key := by
  induction a with
  | nil => cases h : lastW b key <;> simp [h, lastW]
  | cons x a ih =>
    simp only [List.cons_append, lastW, ih]
    cases h : lastW b key <;> simp

theorem lastW_none_of_not_mem (kvs : List KV) (key : Bytes) (h : ∀ kv ∈ kvs, kv.1 ≠ key) :
    lastW kvs key = none := by
  induction kvs with
  | nil => rfl
  | cons x r ih =>
    simp only [lastW, ih (fun kv hkv => h kv (List.mem_cons_of_mem _ hkv))]
    simp [h x List.mem_cons_self]

theorem get_applyKVs (db : TDB) (kvs : List KV) (key : Bytes) :
    get (applyKVs db kvs) key = overlay (lastW kvs key) (get db key) := by
  induction kvs generalizing db with
  | nil => rfl
  | cons kv rest ih =>
    have : applyKVs db (kv :: rest) =
        applyKVs (match kv.2 with | none => erase db kv.1 | some v => put db kv.1 v) rest := rfl
    rw [this, ih]
    simp only [lastW]
    cases hl : lastW rest key with
    | some x => rfl
    | none =>
      simp only [overlay]
      cases hv : kv.2 with
      | none =>
        simp only [get_erase]
        by_cases h : key = kv.1
        · simp [h]
        · have : ¬ kv.1 = key := fun e => h e.symm
          simp [h, this]
      | some v =>
        simp only [get_put]
        by_cases h : key = kv.1
        · simp [h]
        · have : ¬ kv.1 = key := fun e => h e.symm
          simp [h, this]

theorem lastW_snoc (a : List KV) (kv : KV) (key : Bytes) :
    lastW (a ++ [kv]) key = if kv.1 = key then some kv.2 else lastW a key := by
  rw [lastW_append]
  simp only [lastW]
  by_cases h : kv.1 = key <;> simp [h]

theorem lastW_map_replace (acc : List KV) (kv : KV) (key : Bytes)
    (hany : acc.any (fun e => e.1 == kv.1) = true) :
    lastW (acc.map (fun e => if e.1 == kv.1 then kv else e)) key =
      if kv.1 = key then some kv.2 else lastW acc key := by
  induction acc with
  | nil => simp at hany
  | cons x r ih =>
    simp only [List.map_cons, lastW]
    by_cases hr : r.any (fun e => e.1 == kv.1) = true
    · rw [ih hr]
      by_cases h : kv.1 = key
      · simp [h]
      · simp only [h, if_false]
        cases hl : lastW r key with
        | some y => rfl
        | none =>
          simp only
          by_cases hx : (x.1 == kv.1) = true
          · have hx' : x.1 = kv.1 := by simpa using hx
            have : ¬ x.1 = key := by rw [hx']; exact h
            simp [hx, h, this]
          · simp [hx]
    · have hx : (x.1 == kv.1) = true := by
        simp only [List.any_cons, Bool.or_eq_true] at hany
        rcases hany with h | h
        · exact h
        · exact absurd h hr
      have hrn : ∀ e ∈ r, (e.1 == kv.1) = false := by
        intro e he
        cases hb : (e.1 == kv.1) with
        | false => rfl
        | true => exact absurd (List.any_eq_true.2 ⟨e, he, hb⟩) hr
      have hmap : r.map (fun e => if e.1 == kv.1 then kv else e) = r := by
        have h1 : r.map (fun e => if e.1 == kv.1 then kv else e) = r.map id := by
          apply List.map_congr_left
          intro e he
          simp [hrn e he]
        rw [h1, List.map_id]
      have hx' : x.1 = kv.1 := by simpa using hx
      rw [hmap]
      simp only [hx, if_true]
      by_cases h : kv.1 = key
      · have hnone : lastW r key = none := by
          apply lastW_none_of_not_mem
          intro e he heq
          have := hrn e he
          rw [heq, ← h] at this
          simp at this
        simp [h, hnone]
      · have : ¬ x.1 = key := by rw [hx']; exact h
        simp only [h, if_false]
        cases lastW r key with
        | some y => rfl
        | none => simp [this]

theorem lastW_delDupKey (kvs : List KV) (key : Bytes) : lastW (delDupKey kvs) key = lastW kvs key := by
  have gen : ∀ (acc : List KV),
      lastW (kvs.foldl (fun acc kv =>
        if acc.any (fun e => e.1 == kv.1) then acc.map (fun e => if e.1 == kv.1 then kv else e)
        else acc ++ [kv]) acc) key = match lastW kvs key with | some x => some x | none => lastW acc key := by
    induction kvs with
    | nil => intro acc; rfl
    | cons kv rest ih =>
      intro acc
      simp only [List.foldl_cons]
      rw [ih]
      simp only [lastW]
      cases hl : lastW rest key with
      | some x => rfl
      | none =>
        simp only
        split
        · rename_i hany
          rw [lastW_map_replace acc kv key hany]
          by_cases h : kv.1 = key <;> simp [h]
        · rw [lastW_snoc]
          by_cases h : kv.1 = key <;> simp [h]
  have := gen []
  simp only [lastW] at this
  unfold delDupKey
  rw [this]
  cases lastW kvs key <;> rfl

/-! ### key shapes -/

theorem split_at_first {α : Type} (x : α) (l1 l2 r1 r2 : List α) (h1 : x ∉ l1) (h2 : x ∉ l2)
    (h : l1 ++ x :: r1 = l2 ++ x :: r2) : l1 = l2 ∧ r1 = r2 := by
  induction l1 generalizing l2 with
  | nil =>
    cases l2 with
    | nil => simp at h; exact ⟨rfl, h⟩
    | cons y ys =>
      simp only [List.nil_append, List.cons_append, List.cons.injEq] at h
      exact absurd (h.1 ▸ List.mem_cons_self) h2
  | cons a as ih =>
    cases l2 with
    | nil =>
      simp only [List.nil_append, List.cons_append, List.cons.injEq] at h
      exact absurd (h.1 ▸ List.mem_cons_self) h1
    | cons y ys =>
      simp only [List.cons_append, List.cons.injEq] at h
      obtain ⟨ha, hr⟩ := h
      subst ha
      have := ih ys (fun hm => h1 (List.mem_cons_of_mem _ hm)) (fun hm => h2 (List.mem_cons_of_mem _ hm)) hr
      exact ⟨by rw [this.1], this.2⟩

theorem snoc_sep_inj (A A' p q : Bytes) (hp : NoSep p) (hq : NoSep q)
    (h : A ++ [sep] ++ p = A' ++ [sep] ++ q) : A = A' ∧ p = q := by
  have hr := congrArg List.reverse h
  simp only [List.reverse_append, List.reverse_cons, List.reverse_nil, List.nil_append,
    List.append_assoc, List.singleton_append] at hr
  have := split_at_first sep p.reverse q.reverse A.reverse A'.reverse
    (fun hm => hp (List.mem_reverse.1 hm)) (fun hm => hq (List.mem_reverse.1 hm)) hr
  exact ⟨List.reverse_inj.1 this.2, List.reverse_inj.1 this.1⟩

theorem dataKey_inj {p q : Bytes} : dataKey p = dataKey q ↔ p = q := by
  simp [dataKey]

theorem dataKey_ne_indexKey (p n v q : Bytes) : dataKey p ≠ indexKey n v q := by
  simp [dataKey, indexKey, indexPrefix, dataPrefix, metaPrefix]

theorem indexKey_inj (n n' v v' p q : Bytes) (hn : n.length = n'.length) (hp : NoSep p) (hq : NoSep q)
    (h : indexKey n v p = indexKey n' v' q) : n = n' ∧ v = v' ∧ p = q := by
  unfold indexKey indexPrefix at h
  obtain ⟨hA, hpq⟩ := snoc_sep_inj _ _ p q hp hq h
  simp only [List.append_assoc] at hA
  have h1 := List.append_cancel_left hA
  obtain ⟨h2, h3⟩ := List.append_inj h1 hn
  simp only [List.singleton_append, List.cons.injEq, true_and] at h3
  exact ⟨h2, h3, hpq⟩

theorem name_len (ix : Bytes × (Row → Bytes)) (h : ix ∈ indexes) : ix.1.length = 2 := by
  simp only [indexes, List.mem_cons, List.not_mem_nil, or_false] at h
  rcases h with h | h <;> subst h <;> rfl

/-! ### operations that miss the cache -/

/-- the cache row appended and the result, when the operation misses the cache and the stored row
of its key is `m op.pk`. -/
def rowOfSpec (m : Spec) : Op → Option CRow × Res
  | .add r => match m r.pk with
    | none => (some ⟨.add, r.pk, r, none⟩, .ok)
    | some _ => (none, .dup)
  | .replace r => match m r.pk with
    | none => (some ⟨.add, r.pk, r, none⟩, .ok)
    | some old => (some ⟨.update, r.pk, r, some old⟩, .ok)
  | .update r => match m r.pk with
    | none => (none, .notfound)
    | some old => (some ⟨.update, r.pk, r, some old⟩, .ok)
  | .del pk => match m pk with
    | none => (none, .notfound)
    | some d => (some ⟨.del, pk, d, none⟩, .ok)

theorem getData_of_rep (db : TDB) (m : Spec) (p : Bytes) (h : RepAtG (get db) m p) :
    getData db p = match m p with | some r => .row p r | none => .missing := by
  unfold getData
  rw [h.1]
  cases m p <;> rfl

theorem rowOfSpec_res (m : Spec) (op : Op) : (rowOfSpec m op).2 = (specStep m op).2 := by
  cases op with
  | add r => simp only [rowOfSpec, specStep]; cases m r.pk <;> rfl
  | replace r => simp only [rowOfSpec, specStep]; cases m r.pk <;> rfl
  | update r => simp only [rowOfSpec, specStep]; cases m r.pk <;> rfl
  | del pk => simp only [rowOfSpec, specStep]; cases m pk <;> rfl

theorem rowOfSpec_primary (m : Spec) (op : Op) (row : CRow) (h : (rowOfSpec m op).1 = some row) :
    row.primary = op.pk := by
  cases op <;> simp only [rowOfSpec] at h <;> split at h <;> simp at h <;> subst h <;> rfl

theorem exec_miss (t : Table) (m : Spec) (op : Op) (hrep : RepAtG (get t.db) m op.pk)
    (hmiss : assocGet t.rowmap op.pk = none) :
    exec t op = ((match (rowOfSpec m op).1 with | some row => addRowCache t row | none => t),
                 (rowOfSpec m op).2) := by
  have hg := getData_of_rep t.db m op.pk hrep
  cases op with
  | add r =>
    simp only [Op.pk] at hmiss hg
    simp only [exec, add, findRow, hmiss, hg, rowOfSpec]
    cases m r.pk <;> rfl
  | replace r =>
    simp only [Op.pk] at hmiss hg
    simp only [exec, replace, findRow, hmiss, hg, rowOfSpec]
    cases m r.pk <;> rfl
  | update r =>
    simp only [Op.pk] at hmiss hg
    simp only [exec, update, findRow, hmiss, hg, rowOfSpec, ne_eq, not_true_eq_false, if_false]
    cases m r.pk <;> rfl
  | del pk =>
    simp only [Op.pk] at hmiss hg
    simp only [exec, del, findRow, hmiss, hg, rowOfSpec]
    cases m pk <;> rfl

theorem assocGet_none_iff (l : List (Bytes × Nat)) (a : Bytes) :
    assocGet l a = none ↔ ∀ e ∈ l, e.1 ≠ a := by
  simp [assocGet, List.find?_eq_none]

theorem addRowCache_db (t : Table) (r : CRow) : (addRowCache t r).db = t.db := rfl
theorem addRowCache_rows (t : Table) (r : CRow) : (addRowCache t r).rows = t.rows ++ [r] := rfl

theorem addRowCache_keys (t : Table) (r : CRow) (e : Bytes × Nat) (he : e ∈ (addRowCache t r).rowmap) :
    e ∈ t.rowmap ∨ e.1 = r.primary := by
  unfold addRowCache at he
  simp only at he
  cases hty : r.ty <;> simp only [hty] at he
  · left; exact he
  · simp only [assocSet, List.mem_cons] at he
    rcases he with h | h
    · right; rw [h]
    · left; exact (List.mem_filter.1 h).1
  · simp only [assocSet, List.mem_cons] at he
    rcases he with h | h
    · right; rw [h]
    · left; exact (List.mem_filter.1 h).1
  · left; exact (List.mem_filter.1 he).1

/-- rows appended by a run of operations on pairwise distinct keys that were not in the cache. -/
def rowsOf (m : Spec) (ops : List Op) : List CRow := ops.filterMap (fun op => (rowOfSpec m op).1)

theorem run_miss (db : TDB) (m : Spec) (ops : List Op) (t : Table) (htdb : t.db = db)
    (hrep : ∀ op ∈ ops, RepAtG (get db) m op.pk)
    (hnd : (ops.map Op.pk).Nodup)
    (hmiss : ∀ op ∈ ops, ∀ e ∈ t.rowmap, e.1 ≠ op.pk) :
    (run t ops).1.db = db ∧ (run t ops).1.rows = t.rows ++ rowsOf m ops ∧
      (run t ops).2 = ops.map (fun op => (rowOfSpec m op).2) := by
  induction ops generalizing t with
  | nil => simp [run, rowsOf, htdb]
  | cons op rest ih =>
    have hnd' : op.pk ∉ rest.map Op.pk ∧ (rest.map Op.pk).Nodup := List.nodup_cons.1 hnd
    have hex := exec_miss t m op (by rw [htdb]; exact hrep op List.mem_cons_self)
      ((assocGet_none_iff _ _).2 (hmiss op List.mem_cons_self))
    simp only [run, hex]
    have hrest_rep : ∀ op' ∈ rest, RepAtG (get db) m op'.pk := fun op' h => hrep op' (List.mem_cons_of_mem _ h)
    cases hrow : (rowOfSpec m op).1 with
    | none =>
      simp only
      have := ih t htdb hrest_rep hnd'.2 (fun op' h => hmiss op' (List.mem_cons_of_mem _ h))
      refine ⟨this.1, ?_, ?_⟩
      · rw [this.2.1]; simp [rowsOf, hrow]
      · rw [this.2.2]; rfl
    | some row =>
      simp only
      have hprim := rowOfSpec_primary m op row hrow
      have := ih (addRowCache t row) (by rw [addRowCache_db, htdb]) hrest_rep hnd'.2 (by
        intro op' hop' e he
        rcases addRowCache_keys t row e he with h | h
        · exact hmiss op' (List.mem_cons_of_mem _ hop') e h
        · rw [h, hprim]
          intro heq
          exact hnd'.1 (List.mem_map.2 ⟨op', hop', heq.symm⟩))
      refine ⟨this.1, ?_, ?_⟩
      · rw [this.2.1, addRowCache_rows]; simp [rowsOf, hrow]
      · rw [this.2.2]; rfl

/-! ### what one buffered row writes -/

def rowKVs (r : CRow) : List KV := match saveRow r with | some l => l | none => []

theorem repAtG_iff (g : Bytes → Option Val) (m : Spec) (p : Bytes) :
    RepAtG g m p ↔
      g (dataKey p) = (m p).map (fun r => Val.row p r) ∧
      (∀ val, g (indexKey nameF1 val p) =
        match m p with | some r => if r.f1 = val then some (Val.pk p) else none | none => none) ∧
      (∀ val, g (indexKey nameF2 val p) =
        match m p with | some r => if r.f2 = val then some (Val.pk p) else none | none => none) := by
  unfold RepAtG
  constructor
  · rintro ⟨hd, hi⟩
    exact ⟨hd, hi (nameF1, Row.f1) (by simp [indexes]), hi (nameF2, Row.f2) (by simp [indexes])⟩
  · rintro ⟨hd, h1, h2⟩
    refine ⟨hd, ?_⟩
    intro ix hix
    simp only [indexes, List.mem_cons, List.not_mem_nil, or_false] at hix
    rcases hix with h | h <;> subst h
    · exact h1
    · exact h2

theorem ik_11 (a b p : Bytes) (hp : NoSep p) : indexKey nameF1 a p = indexKey nameF1 b p ↔ a = b :=
  ⟨fun h => (indexKey_inj nameF1 nameF1 a b p p rfl hp hp h).2.1, fun h => by rw [h]⟩
theorem ik_22 (a b p : Bytes) (hp : NoSep p) : indexKey nameF2 a p = indexKey nameF2 b p ↔ a = b :=
  ⟨fun h => (indexKey_inj nameF2 nameF2 a b p p rfl hp hp h).2.1, fun h => by rw [h]⟩
theorem ik_12 (a b p : Bytes) (hp : NoSep p) : indexKey nameF1 a p = indexKey nameF2 b p ↔ False :=
  ⟨fun h => by have := (indexKey_inj nameF1 nameF2 a b p p rfl hp hp h).1; simp [nameF1, nameF2] at this, False.elim⟩
theorem ik_21 (a b p : Bytes) (hp : NoSep p) : indexKey nameF2 a p = indexKey nameF1 b p ↔ False :=
  ⟨fun h => by have := (indexKey_inj nameF2 nameF1 a b p p rfl hp hp h).1; simp [nameF1, nameF2] at this, False.elim⟩
theorem dk_ik (p n v q : Bytes) : dataKey p = indexKey n v q ↔ False :=
  ⟨fun h => dataKey_ne_indexKey p n v q h, False.elim⟩
theorem ik_dk (p n v q : Bytes) : indexKey n v q = dataKey p ↔ False :=
  ⟨fun h => dataKey_ne_indexKey p n v q h.symm, False.elim⟩

theorem overlay_nil (key : Bytes) (old : Option Val) : overlay (lastW [] key) old = old := rfl

theorem overlay_cons (kv : KV) (rest : List KV) (key : Bytes) (old : Option Val) :
    overlay (lastW (kv :: rest) key) old = overlay (lastW rest key) (if kv.1 = key then kv.2 else old) := by
  simp only [lastW]
  cases lastW rest key with
  | some x => rfl
  | none => by_cases h : kv.1 = key <;> simp [overlay, h]

theorem ifchain {α : Type} (c1 c2 : Prop) [Decidable c1] [Decidable c2] (x : α) :
    (if c1 then some x else if c2 then none else if c2 then some x else none) =
      if c1 then some x else none := by
  by_cases h1 : c1 <;> by_cases h2 : c2 <;> simp [h1, h2]

theorem ifchain2 {α : Type} (c : Prop) [Decidable c] (x : α) :
    (if c then (none : Option α) else if c then some x else none) = none := by
  by_cases h : c <;> simp [h]

/-- a single operation that misses the cache writes, for its own key, exactly the encoding of the
map after the operation. -/
theorem op_kvs_correct (g : Bytes → Option Val) (m : Spec) (op : Op) (hp : NoSep op.pk)
    (hrep : RepAtG g m op.pk) :
    RepAtG (fun key => overlay (lastW (match (rowOfSpec m op).1 with
        | some row => rowKVs row | none => []) key) (g key)) (specStep m op).1 op.pk := by
  rw [repAtG_iff] at hrep ⊢
  obtain ⟨hd, h1, h2⟩ := hrep
  cases op with
  | add r =>
    simp only [Op.pk] at hp hd h1 h2 ⊢
    cases hm : m r.pk with
    | some old =>
      simp only [hm] at hd h1 h2
      simp [rowOfSpec, specStep, hm, overlay_nil, hd, h1, h2]
    | none =>
      simp only [hm] at hd h1 h2
      simp [rowOfSpec, specStep, hm, rowKVs, saveRow, addRow, indexes, overlay_cons, overlay_nil, Spec.set,
        ik_11, ik_22, ik_12, ik_21, dk_ik, ik_dk, hp, hd, h1, h2]
  | replace r =>
    simp only [Op.pk] at hp hd h1 h2 ⊢
    cases hm : m r.pk with
    | none =>
      simp only [hm] at hd h1 h2
      simp [rowOfSpec, specStep, hm, rowKVs, saveRow, addRow, indexes, overlay_cons, overlay_nil, Spec.set,
        ik_11, ik_22, ik_12, ik_21, dk_ik, ik_dk, hp, hd, h1, h2]
    | some old =>
      simp only [hm] at hd h1 h2
      by_cases heq : r = old
      · subst heq
        simp [rowOfSpec, specStep, hm, rowKVs, saveRow, updateRow, overlay_nil, Spec.set, hd, h1, h2]
      · by_cases hf1 : r.f1 = old.f1 <;> by_cases hf2 : r.f2 = old.f2 <;>
        simp [rowOfSpec, specStep, hm, rowKVs, saveRow, updateRow, indexes, heq, hf1, hf2, overlay_cons,
          overlay_nil, Spec.set, ik_11, ik_22, ik_12, ik_21, dk_ik, ik_dk, hp, hd, h1, h2, ifchain]
  | update r =>
    simp only [Op.pk] at hp hd h1 h2 ⊢
    cases hm : m r.pk with
    | none =>
      simp only [hm] at hd h1 h2
      simp [rowOfSpec, specStep, hm, overlay_nil, hd, h1, h2]
    | some old =>
      simp only [hm] at hd h1 h2
      by_cases heq : r = old
      · subst heq
        simp [rowOfSpec, specStep, hm, rowKVs, saveRow, updateRow, overlay_nil, Spec.set, hd, h1, h2]
      · by_cases hf1 : r.f1 = old.f1 <;> by_cases hf2 : r.f2 = old.f2 <;>
        simp [rowOfSpec, specStep, hm, rowKVs, saveRow, updateRow, indexes, heq, hf1, hf2, overlay_cons,
          overlay_nil, Spec.set, ik_11, ik_22, ik_12, ik_21, dk_ik, ik_dk, hp, hd, h1, h2, ifchain]
  | del pk =>
    simp only [Op.pk] at hp hd h1 h2 ⊢
    cases hm : m pk with
    | none =>
      simp only [hm] at hd h1 h2
      simp [rowOfSpec, specStep, hm, overlay_nil, hd, h1, h2]
    | some old =>
      simp only [hm] at hd h1 h2
      simp [rowOfSpec, specStep, hm, rowKVs, saveRow, delRow, indexes, overlay_cons, overlay_nil, Spec.set,
        ik_11, ik_22, ik_12, ik_21, dk_ik, ik_dk, hp, hd, h1, h2, ifchain2]

/-! ### locality: a row only writes records of its own primary key -/

theorem rowKVs_keys (r : CRow) (kv : KV) (h : kv ∈ rowKVs r) :
    kv.1 = dataKey r.primary ∨ ∃ ix ∈ indexes, ∃ v, kv.1 = indexKey ix.1 v r.primary := by
  unfold rowKVs saveRow at h
  cases hty : r.ty <;> simp only [hty] at h
  · cases h
  · simp only [addRow, List.mem_cons, List.mem_map] at h
    rcases h with h | ⟨ix, hix, h⟩
    · left; rw [h]
    · right; exact ⟨ix, hix, _, by rw [← h]⟩
  · unfold updateRow at h
    cases hold : r.old with
    | none => simp [hold] at h
    | some old =>
      simp only [hold] at h
      by_cases hd : r.data = old
      · simp [hd] at h
      · simp only [hd, if_false, List.mem_cons, List.mem_flatMap, List.mem_filter, List.not_mem_nil,
          or_false] at h
        rcases h with h | ⟨ix, ⟨hix, _⟩, h | h⟩
        · left; rw [h]
        · right; exact ⟨ix, hix, _, by rw [h]⟩
        · right; exact ⟨ix, hix, _, by rw [h]⟩
  · simp only [delRow, List.mem_cons, List.mem_map] at h
    rcases h with h | ⟨ix, hix, h⟩
    · left; rw [h]
    · right; exact ⟨ix, hix, _, by rw [← h]⟩

/-- `key` is a record key of primary key `p`. -/
def KeyOf (p key : Bytes) : Prop := key = dataKey p ∨ ∃ ix ∈ indexes, ∃ v, key = indexKey ix.1 v p

theorem rowKVs_local (r : CRow) (p key : Bytes) (hq : NoSep r.primary) (hp : NoSep p)
    (hne : r.primary ≠ p) (hk : KeyOf p key) : lastW (rowKVs r) key = none := by
  apply lastW_none_of_not_mem
  intro kv hkv heq
  rcases rowKVs_keys r kv hkv with h | ⟨ix, hix, v, h⟩ <;> rcases hk with h' | ⟨ix', hix', v', h'⟩
  · rw [h, h'] at heq; exact hne (dataKey_inj.1 heq)
  · rw [h, h'] at heq; exact dataKey_ne_indexKey _ _ _ _ heq
  · rw [h, h'] at heq; exact dataKey_ne_indexKey _ _ _ _ heq.symm
  · rw [h, h'] at heq
    have := indexKey_inj _ _ _ _ _ _ (by rw [name_len ix hix, name_len ix' hix']) hq hp heq
    exact hne this.2.2

theorem saveRow_rowOfSpec (m : Spec) (op : Op) (row : CRow) (h : (rowOfSpec m op).1 = some row) :
    saveRow row = some (rowKVs row) := by
  have : ∃ l, saveRow row = some l := by
    cases op <;> simp only [rowOfSpec] at h <;> split at h <;> simp at h <;> subst h <;>
      simp [saveRow, updateRow] <;> split <;> simp
  obtain ⟨l, hl⟩ := this
  simp [rowKVs, hl]

theorem mapM_saveRow (rows : List CRow) (h : ∀ r ∈ rows, saveRow r = some (rowKVs r)) :
    rows.mapM saveRow = some (rows.map rowKVs) := by
  induction rows with
  | nil => rfl
  | cons r rest ih =>
    rw [List.mapM_cons, h r List.mem_cons_self, ih (fun r' hr' => h r' (List.mem_cons_of_mem _ hr'))]
    rfl

/-- kv lists of a run of operations on distinct keys, seen from one primary key. -/
theorem lastW_rows (m : Spec) (ops : List Op) (p key : Bytes) (hp : NoSep p) (hk : KeyOf p key)
    (hns : ∀ op ∈ ops, NoSep op.pk) (hnd : (ops.map Op.pk).Nodup) :
    lastW ((rowsOf m ops).map rowKVs).flatten key =
      match ops.find? (fun op => op.pk == p) with
      | some op => lastW (match (rowOfSpec m op).1 with | some row => rowKVs row | none => []) key
      | none => none := by
  induction ops with
  | nil => rfl
  | cons op rest ih =>
    have hnd' : op.pk ∉ rest.map Op.pk ∧ (rest.map Op.pk).Nodup := List.nodup_cons.1 hnd
    have ih' := ih (fun o h => hns o (List.mem_cons_of_mem _ h)) hnd'.2
    have hflat : ((rowsOf m (op :: rest)).map rowKVs).flatten =
        (match (rowOfSpec m op).1 with | some row => rowKVs row | none => []) ++
          ((rowsOf m rest).map rowKVs).flatten := by
      simp only [rowsOf, List.filterMap_cons]
      cases (rowOfSpec m op).1 <;> simp
    rw [hflat, lastW_append, ih']
    by_cases hop : op.pk = p
    · have hnone : rest.find? (fun o => o.pk == p) = none := by
        apply List.find?_eq_none.2
        intro o ho hb
        have : o.pk = p := by simpa using hb
        exact hnd'.1 (List.mem_map.2 ⟨o, ho, by rw [this, hop]⟩)
      simp [List.find?, hop, hnone]
    · have hb : (op.pk == p) = false := by simpa using hop
      simp only [List.find?, hb]
      have hloc : lastW (match (rowOfSpec m op).1 with | some row => rowKVs row | none => []) key = none := by
        cases hrow : (rowOfSpec m op).1 with
        | none => rfl
        | some row =>
          have hprim := rowOfSpec_primary m op row hrow
          exact rowKVs_local row p key (by rw [hprim]; exact hns op List.mem_cons_self) hp
            (by rw [hprim]; exact hop) hk
      rw [hloc]
      cases rest.find? (fun o => o.pk == p) with
      | none => rfl
      | some o =>
        cases hx : lastW (match (rowOfSpec m o).1 with | some row => rowKVs row | none => []) key <;> simp [hx]

/-! ### the map semantics on distinct keys -/

theorem specStep_other (m : Spec) (op : Op) (p : Bytes) (h : p ≠ op.pk) : (specStep m op).1 p = m p := by
  cases op <;> simp only [specStep, Op.pk] at h ⊢
  · split <;> simp [Spec.set, h]
  · simp [Spec.set, h]
  · split <;> simp [Spec.set, h]
  · split <;> simp [Spec.set, h]

theorem specStep_congr (m1 m2 : Spec) (op : Op) (h : m1 op.pk = m2 op.pk) :
    (specStep m1 op).2 = (specStep m2 op).2 ∧ (specStep m1 op).1 op.pk = (specStep m2 op).1 op.pk := by
  cases op <;> simp only [specStep, Op.pk] at h ⊢
  · rw [h]; cases m2 _ <;> simp [Spec.set, h]
  · simp [Spec.set]
  · rw [h]; cases m2 _ <;> simp [Spec.set, h]
  · rw [h]; cases m2 _ <;> simp [Spec.set, h]

theorem specRun_nodup (m : Spec) (ops : List Op) (hnd : (ops.map Op.pk).Nodup) :
    (specRun m ops).2 = ops.map (fun op => (specStep m op).2) ∧
    ∀ p, (specRun m ops).1 p =
      match ops.find? (fun op => op.pk == p) with
      | some op => (specStep m op).1 p
      | none => m p := by
  induction ops generalizing m with
  | nil => exact ⟨rfl, fun p => rfl⟩
  | cons op rest ih =>
    have hnd' : op.pk ∉ rest.map Op.pk ∧ (rest.map Op.pk).Nodup := List.nodup_cons.1 hnd
    have ih' := ih (specStep m op).1 hnd'.2
    have hne : ∀ o ∈ rest, o.pk ≠ op.pk := fun o ho heq => hnd'.1 (List.mem_map.2 ⟨o, ho, heq⟩)
    simp only [specRun]
    constructor
    · simp only [List.map_cons, ih'.1, List.cons.injEq, true_and]
      apply List.map_congr_left
      intro o ho
      exact (specStep_congr _ _ o (specStep_other m op o.pk (hne o ho))).1
    · intro p
      rw [ih'.2 p]
      by_cases hop : op.pk = p
      · have hnone : rest.find? (fun o => o.pk == p) = none := by
          apply List.find?_eq_none.2
          intro o ho hb
          have : o.pk = p := by simpa using hb
          exact hne o ho (by rw [this, hop])
        simp [List.find?, hop, hnone]
      · have hb : (op.pk == p) = false := by simpa using hop
        simp only [List.find?, hb]
        cases hf : rest.find? (fun o => o.pk == p) with
        | none => exact specStep_other m op p (fun h => hop h.symm)
        | some o =>
          have hop' : o.pk = p := by simpa using List.find?_some hf
          have := (specStep_congr _ _ o (specStep_other m op o.pk (by rw [hop']; exact fun h => hop h.symm))).2
          rw [hop'] at this
          exact this

theorem repAtG_congr (g1 g2 : Bytes → Option Val) (m1 m2 : Spec) (p : Bytes)
    (hg : ∀ key, KeyOf p key → g1 key = g2 key) (hm : m1 p = m2 p) (h : RepAtG g1 m1 p) :
    RepAtG g2 m2 p := by
  unfold RepAtG at h ⊢
  rw [← hm]
  refine ⟨by rw [← hg _ (Or.inl rfl)]; exact h.1, ?_⟩
  intro ix hix val
  rw [← hg _ (Or.inr ⟨ix, hix, val, rfl⟩)]
  exact h.2 ix hix val

/-! ### Save keeps the db sorted and of table shape -/

theorem mem_delDupKey (kvs : List KV) (kv : KV) (h : kv ∈ delDupKey kvs) : kv ∈ kvs := by
  have gen : ∀ (acc : List KV), kv ∈ kvs.foldl (fun acc kv =>
        if acc.any (fun e => e.1 == kv.1) then acc.map (fun e => if e.1 == kv.1 then kv else e)
        else acc ++ [kv]) acc → kv ∈ acc ∨ kv ∈ kvs := by
    clear h
    induction kvs with
    | nil => intro acc h; left; exact h
    | cons x rest ih =>
      intro acc h
      simp only [List.foldl_cons] at h
      rcases ih _ h with h' | h'
      · split at h'
        · obtain ⟨e, he, heq⟩ := List.mem_map.1 h'
          split at heq
          · right; rw [← heq]; exact List.mem_cons_self
          · left; rw [← heq]; exact he
        · rcases List.mem_append.1 h' with h'' | h''
          · left; exact h''
          · right; simp only [List.mem_singleton] at h''; rw [h'']; exact List.mem_cons_self
      · right; exact List.mem_cons_of_mem _ h'
  rcases gen [] h with h' | h'
  · cases h'
  · exact h'

theorem sorted_applyKVs (db : TDB) (kvs : List KV) (hs : Sorted db) : Sorted (applyKVs db kvs) := by
  induction kvs generalizing db with
  | nil => exact hs
  | cons kv rest ih =>
    have : applyKVs db (kv :: rest) =
        applyKVs (match kv.2 with | none => erase db kv.1 | some v => put db kv.1 v) rest := rfl
    rw [this]
    apply ih
    cases kv.2 with
    | none => exact C09.sorted_filter db hs _
    | some v => exact C09.sorted_put db _ _ hs

theorem mem_applyKVs (db : TDB) (kvs : List KV) (e : Bytes × Val) (h : e ∈ applyKVs db kvs) :
    e ∈ db ∨ (e.1, some e.2) ∈ kvs := by
  induction kvs generalizing db with
  | nil => left; exact h
  | cons kv rest ih =>
    have : applyKVs db (kv :: rest) =
        applyKVs (match kv.2 with | none => erase db kv.1 | some v => put db kv.1 v) rest := rfl
    rw [this] at h
    rcases ih _ h with h' | h'
    · cases hv : kv.2 with
      | none =>
        simp only [hv] at h'
        left; exact (List.mem_filter.1 h').1
      | some v =>
        simp only [hv] at h'
        rcases C09.mem_of_mem_put db _ _ e h' with h'' | h''
        · right
          have : kv = (e.1, some e.2) := by
            rw [h'']; simp [← hv]
          rw [this]; exact List.mem_cons_self
        · left; exact h''
    · right; exact List.mem_cons_of_mem _ h'

theorem rowKVs_vals (r : CRow) (key : Bytes) (v : Val) (h : (key, some v) ∈ rowKVs r) :
    key = dataKey r.primary ∨ ∃ ix ∈ indexes, ∃ x, key = indexKey ix.1 x r.primary ∧ v = Val.pk r.primary := by
  unfold rowKVs saveRow at h
  cases hty : r.ty <;> simp only [hty] at h
  · cases h
  · simp only [addRow, List.mem_cons, List.mem_map, Prod.mk.injEq] at h
    rcases h with h | ⟨ix, hix, h⟩
    · left; exact h.1
    · right; exact ⟨ix, hix, _, h.1.symm, by simpa using h.2.symm⟩
  · unfold updateRow at h
    cases hold : r.old with
    | none => simp [hold] at h
    | some old =>
      simp only [hold] at h
      by_cases hd : r.data = old
      · simp [hd] at h
      · simp only [hd, if_false, List.mem_cons, List.mem_flatMap, List.mem_filter, List.not_mem_nil,
          or_false, Prod.mk.injEq] at h
        rcases h with h | ⟨ix, ⟨hix, _⟩, h | h⟩
        · left; exact h.1
        · simp at h
        · right; exact ⟨ix, hix, _, h.1, by simpa using h.2⟩
  · simp only [delRow, List.mem_cons, List.mem_map, Prod.mk.injEq] at h
    rcases h with h | ⟨ix, hix, h⟩
    · simp at h
    · simp at h

/-! ### listing -/

def rowOfVal (db : TDB) : Val → Option Row
  | .pk p => (match getData db p with | .row _ d => some d | _ => none)
  | .row _ _ => none

theorem collectRows_eq (db : TDB) (vals : List Val) (acc : List Row)
    (h : ∀ v ∈ vals, (rowOfVal db v).isSome) :
    collectRows db vals acc =
      if (acc.reverse ++ vals.filterMap (rowOfVal db)).isEmpty then .notfound
      else .rows (acc.reverse ++ vals.filterMap (rowOfVal db)) := by
  induction vals generalizing acc with
  | nil => simp [collectRows]
  | cons v rest ih =>
    have hv := h v List.mem_cons_self
    have hrest := fun v' hv' => h v' (List.mem_cons_of_mem _ hv')
    cases v with
    | row _ _ => simp [rowOfVal] at hv
    | pk p =>
      simp only [rowOfVal] at hv
      cases hg : getData db p with
      | missing => simp [hg] at hv
      | undecodable => simp [hg] at hv
      | row q d =>
        simp only [collectRows, hg]
        rw [ih (d :: acc) hrest]
        simp [rowOfVal, hg]

theorem prefix_same_len {α : Type} (a b t : List α) (hp : a <+: b ++ t) (hl : a.length = b.length) : a = b := by
  obtain ⟨s, hs⟩ := hp
  exact (List.append_inj hs hl).1

theorem meta_not_prefix_data (x p : Bytes) : ¬ (metaPrefix ++ x) <+: dataKey p := by
  intro h
  obtain ⟨s, hs⟩ := h
  simp [metaPrefix, dataKey, dataPrefix] at hs

theorem snoc_cases {α : Type} (l : List α) : l = [] ∨ ∃ L b, l = L ++ [b] := by
  induction l with
  | nil => left; rfl
  | cons x xs ih =>
    right
    rcases ih with h | ⟨L, b, h⟩
    · subst h; exact ⟨[], x, rfl⟩
    · subst h; exact ⟨x :: L, b, rfl⟩

theorem inRange_snoc (q : Bytes) (c : Nat) (x : Bytes) (hc : c < 255) :
    C09.inRange (q ++ [c]) x = true ↔ (q ++ [c]) <+: x := by
  simp only [C09.inRange, C09.prefixUpper_snoc q c hc, Bool.and_eq_true]
  exact C09.window_iff_prefix q c x

theorem inRange_indexPrefix (name val x : Bytes) (hff : ∀ b ∈ val, b < 255) :
    C09.inRange (indexPrefix name ++ val) x = true ↔ (indexPrefix name ++ val) <+: x := by
  rcases snoc_cases val with h | ⟨L, b, h⟩
  · subst h
    have : indexPrefix name ++ [] = (metaPrefix ++ name) ++ [sep] := by simp [indexPrefix]
    rw [this]
    exact inRange_snoc _ _ _ (by decide)
  · subst h
    have : indexPrefix name ++ (L ++ [b]) = (indexPrefix name ++ L) ++ [b] := by simp
    rw [this]
    exact inRange_snoc _ _ _ (hff b (by simp))

theorem index_name_eq (ix ix' : Bytes × (Row → Bytes)) (h : ix ∈ indexes) (h' : ix' ∈ indexes)
    (hn : ix.1 = ix'.1) : ix = ix' := by
  simp only [indexes, List.mem_cons, List.not_mem_nil, or_false] at h h'
  rcases h with h | h <;> rcases h' with h' | h' <;> subst h <;> subst h' <;>
    first | rfl | (simp [nameF1, nameF2] at hn)

/-- the records an index listing with prefix `val` can see are exactly the index entries of the
present rows whose field equals `val` (fixed-width values). -/
theorem index_window (db : TDB) (m : Spec) (ix : Bytes × (Row → Bytes)) (val : Bytes)
    (hs : Sorted db) (hrep : Rep db m) (hshape : Shape db) (hix : ix ∈ indexes)
    (hw : ∀ p r, m p = some r → (ix.2 r).length = val.length) (hff : ∀ b ∈ val, b < 255)
    (e : Bytes × Val) :
    (e ∈ db ∧ C09.inRange (indexPrefix ix.1 ++ val) e.1 = true) ↔
      ∃ p r, NoSep p ∧ p ≠ [] ∧ m p = some r ∧ ix.2 r = val ∧ e = (indexKey ix.1 val p, Val.pk p) := by
  constructor
  · rintro ⟨he, hr⟩
    have hpre := (inRange_indexPrefix ix.1 val e.1 hff).1 hr
    rcases hshape e he with ⟨p, hk⟩ | ⟨ix', hix', v, p, hp, hpne, hk⟩
    · exfalso
      rw [hk] at hpre
      have : indexPrefix ix.1 ++ val = metaPrefix ++ (ix.1 ++ [sep] ++ val) := by simp [indexPrefix]
      rw [this] at hpre
      exact meta_not_prefix_data _ _ hpre
    · subst hk
      simp only at hpre
      have h1 : indexPrefix ix.1 ++ val = metaPrefix ++ (ix.1 ++ ([sep] ++ val)) := by simp [indexPrefix]
      have h2 : indexKey ix'.1 v p = metaPrefix ++ (ix'.1 ++ ([sep] ++ (v ++ ([sep] ++ p)))) := by
        simp [indexKey, indexPrefix]
      rw [h1, h2] at hpre
      have h3 := (List.prefix_append_right_inj _).1 hpre
      obtain ⟨s, hs'⟩ := h3
      have hlen : ix.1.length = ix'.1.length := by rw [name_len ix hix, name_len ix' hix']
      rw [List.append_assoc] at hs'
      obtain ⟨hn, hrest⟩ := List.append_inj hs' hlen
      have hixeq := index_name_eq ix ix' hix hix' hn
      subst hixeq
      simp only [List.singleton_append, List.cons_append, List.cons.injEq, true_and] at hrest
      -- the entry is in the db: Rep gives the row
      have hget := (C09.get_eq_some_iff db hs _ _).2 he
      have hr2 := (hrep p hp).2 ix hix v
      rw [hget] at hr2
      cases hm : m p with
      | none => simp [hm] at hr2
      | some r =>
        simp only [hm] at hr2
        by_cases hv : ix.2 r = v
        · have hvl : val = v := by
            apply prefix_same_len val v ([sep] ++ p) ⟨s, by simpa using hrest⟩
            rw [← hv]; exact (hw p r hm).symm
          subst hvl
          exact ⟨p, r, hp, hpne, hm, hv, rfl⟩
        · simp [hv] at hr2
  · rintro ⟨p, r, hp, hpne, hm, hv, he⟩
    subst he
    constructor
    · apply (C09.get_eq_some_iff db hs _ _).1
      have := (hrep p hp).2 ix hix val
      rw [this, hm]
      simp [hv]
    · apply (inRange_indexPrefix ix.1 val _ hff).2
      simp only [indexKey]
      exact ⟨[sep] ++ p, by simp⟩

end C10
