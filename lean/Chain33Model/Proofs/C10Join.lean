import Chain33Model.Model.C10Join
import Chain33Model.Proofs.C10
/-!
Helper lemmas for the join-table model: last-write-wins semantics of kv lists (as Proofs/C10.lean,
for the value type of Model/C10Join.lean), key shapes of configuration-generic tables.
-/
namespace C10J
open C09 (Bytes ble blt Store put erase get Sorted get_put get_erase)

def lastW (kvs : List KV) (key : Bytes) : Option (Option Val) :=
  match kvs with
  | [] => none
  | kv :: rest =>
    match lastW rest key with
    | some x => some x
    | none => if kv.1 = key then some kv.2 else none

/-- a store read after a kv list has been written over it. -/
def overlay (w : Option (Option Val)) (old : Option Val) : Option Val :=
  match w with
  | none => old
  | some x => x

theorem lastW_append (a b : List KV) (key : Bytes) :
    lastW (a ++ b) key = match lastW b key with | some x => some x | none => lastW a key := by
  induction a with
  | nil => cases h : lastW b key <;> simp [h, lastW]
  | cons x a ih =>
    simp only [List.cons_append, lastW, ih]
    cases h : lastW b key <;> simp

theorem lastW_none_of_not_mem (kvs : List KV) (key : Bytes) (h : ∀ kv ∈ kvs, kv.1 ≠ key) :
    lastW kvs key = none := by
  induction kvs with
  | nil => rfl
  | cons x r ih =>
    simp only [lastW, ih (fun kv hkv => h kv (List.mem_cons_of_mem _ hkv))]
    simp [h x List.mem_cons_self]

theorem get_applyKVs (db : TDB) (kvs : List KV) (key : Bytes) :
    get (applyKVs db kvs) key = overlay (lastW kvs key) (get db key) := by
  induction kvs generalizing db with
  | nil => rfl
  | cons kv rest ih =>
    have : applyKVs db (kv :: rest) =
        applyKVs (match kv.2 with | none => erase db kv.1 | some v => put db kv.1 v) rest := rfl
    rw [this, ih]
    simp only [lastW]
    cases hl : lastW rest key with
    | some x => rfl
    | none =>
      simp only [overlay]
      cases hv : kv.2 with
      | none =>
        simp only [get_erase]
        by_cases h : key = kv.1
        · simp [h]
        · have : ¬ kv.1 = key := fun e => h e.symm
          simp [h, this]
      | some v =>
        simp only [get_put]
        by_cases h : key = kv.1
        · simp [h]
        · have : ¬ kv.1 = key := fun e => h e.symm
          simp [h, this]

theorem lastW_snoc (a : List KV) (kv : KV) (key : Bytes) :
    lastW (a ++ [kv]) key = if kv.1 = key then some kv.2 else lastW a key := by
  rw [lastW_append]
  simp only [lastW]
  by_cases h : kv.1 = key <;> simp [h]

theorem lastW_map_replace (acc : List KV) (kv : KV) (key : Bytes)
    (hany : acc.any (fun e => e.1 == kv.1) = true) :
    lastW (acc.map (fun e => if e.1 == kv.1 then kv else e)) key =
      if kv.1 = key then some kv.2 else lastW acc key := by
  induction acc with
  | nil => simp at hany
  | cons x r ih =>
    simp only [List.map_cons, lastW]
    by_cases hr : r.any (fun e => e.1 == kv.1) = true
    · rw [ih hr]
      by_cases h : kv.1 = key
      · simp [h]
      · simp only [h, if_false]
        cases hl : lastW r key with
        | some y => rfl
        | none =>
          simp only
          by_cases hx : (x.1 == kv.1) = true
          · have hx' : x.1 = kv.1 := by simpa using hx
            have : ¬ x.1 = key := by rw [hx']; exact h
            simp [hx, h, this]
          · simp [hx]
    · have hx : (x.1 == kv.1) = true := by
        simp only [List.any_cons, Bool.or_eq_true] at hany
        rcases hany with h | h
        · exact h
        · exact absurd h hr
      have hrn : ∀ e ∈ r, (e.1 == kv.1) = false := by
        intro e he
        cases hb : (e.1 == kv.1) with
        | false => rfl
        | true => exact absurd (List.any_eq_true.2 ⟨e, he, hb⟩) hr
      have hmap : r.map (fun e => if e.1 == kv.1 then kv else e) = r := by
        have h1 : r.map (fun e => if e.1 == kv.1 then kv else e) = r.map id := by
          apply List.map_congr_left
          intro e he
          simp [hrn e he]
        rw [h1, List.map_id]
      have hx' : x.1 = kv.1 := by simpa using hx
      rw [hmap]
      simp only [hx, if_true]
      by_cases h : kv.1 = key
      · have hnone : lastW r key = none := by
          apply lastW_none_of_not_mem
          intro e he heq
          have := hrn e he
          rw [heq, ← h] at this
          simp at this
        simp [h, hnone]
      · have : ¬ x.1 = key := by rw [hx']; exact h
        simp only [h, if_false]
        cases lastW r key with
        | some y => rfl
        | none => simp [this]

theorem lastW_delDupKey (kvs : List KV) (key : Bytes) : lastW (delDupKey kvs) key = lastW kvs key := by
  have gen : ∀ (acc : List KV),
      lastW (kvs.foldl (fun acc kv =>
        if acc.any (fun e => e.1 == kv.1) then acc.map (fun e => if e.1 == kv.1 then kv else e)
        else acc ++ [kv]) acc) key = match lastW kvs key with | some x => some x | none => lastW acc key := by
    induction kvs with
    | nil => intro acc; rfl
    | cons kv rest ih =>
      intro acc
      simp only [List.foldl_cons]
      rw [ih]
      simp only [lastW]
      cases hl : lastW rest key with
      | some x => rfl
      | none =>
        simp only
        split
        · rename_i hany
          rw [lastW_map_replace acc kv key hany]
          by_cases h : kv.1 = key <;> simp [h]
        · rw [lastW_snoc]
          by_cases h : kv.1 = key <;> simp [h]
  have := gen []
  simp only [lastW] at this
  unfold delDupKey
  rw [this]
  cases lastW kvs key <;> rfl

theorem overlay_nil (key : Bytes) (old : Option Val) : overlay (lastW [] key) old = old := rfl

theorem overlay_cons (kv : KV) (rest : List KV) (key : Bytes) (old : Option Val) :
    overlay (lastW (kv :: rest) key) old = overlay (lastW rest key) (if kv.1 = key then kv.2 else old) := by
  simp only [lastW]
  cases lastW rest key with
  | some x => rfl
  | none => by_cases h : kv.1 = key <;> simp [overlay, h]


/-! ### key shapes -/

open C10 (NoSep)

/-- common prefix of every key of table `c`: "LODB-<name>-". -/
def tablePfx (c : Cfg) : Bytes := dbPrefix ++ [sep] ++ c.name ++ [sep]

theorem dataKey_eq (c : Cfg) (p : Bytes) : dataKey c p = tablePfx c ++ ([100, sep] ++ p) := by
  simp [dataKey, dataPrefix, tablePfx]

theorem indexKey_eq (c : Cfg) (n v p : Bytes) :
    indexKey c n v p = tablePfx c ++ ([109, sep] ++ (n ++ [sep] ++ v ++ [sep] ++ p)) := by
  simp [indexKey, indexPrefix, metaPrefix, tablePfx]

theorem dk_inj (c : Cfg) (p q : Bytes) : dataKey c p = dataKey c q ↔ p = q := by
  simp [dataKey]

theorem dk_ik (c : Cfg) (p n v q : Bytes) : dataKey c p = indexKey c n v q ↔ False := by
  rw [dataKey_eq, indexKey_eq]
  simp

theorem ik_dk (c : Cfg) (p n v q : Bytes) : indexKey c n v q = dataKey c p ↔ False := by
  rw [dataKey_eq, indexKey_eq]
  simp

theorem ik_inj (c : Cfg) (n n' v v' p q : Bytes) (hn : NoSep n) (hn' : NoSep n') (hp : NoSep p)
    (hq : NoSep q) : indexKey c n v p = indexKey c n' v' q ↔ n = n' ∧ v = v' ∧ p = q := by
  constructor
  · intro h
    rw [indexKey_eq, indexKey_eq] at h
    have h1 := List.append_cancel_left h
    simp only [List.cons_append, List.nil_append, List.cons.injEq, true_and] at h1
    have h2 : (n ++ [sep] ++ v) ++ [C10.sep] ++ p = (n' ++ [sep] ++ v') ++ [C10.sep] ++ q := by
      simpa [sep, C10.sep] using h1
    obtain ⟨hA, hpq⟩ := C10.snoc_sep_inj _ _ p q hp hq h2
    have h3 : n ++ C10.sep :: v = n' ++ C10.sep :: v' := by simpa [sep, C10.sep] using hA
    obtain ⟨h4, h5⟩ := C10.split_at_first C10.sep n n' v v' hn hn' h3
    exact ⟨h4, h5, hpq⟩
  · rintro ⟨h1, h2, h3⟩; rw [h1, h2, h3]

/-- tables whose keys can never coincide. -/
def Disj (c c' : Cfg) : Prop := ∀ x y, tablePfx c ++ x ≠ tablePfx c' ++ y

theorem disj_symm {c c' : Cfg} (h : Disj c c') : Disj c' c := fun x y e => h y x e.symm

theorem disj_left_right : Disj leftCfg rightCfg := by
  intro x y h
  simp [tablePfx, leftCfg, rightCfg, dbPrefix, nGameaddr, nGame, sep] at h

theorem disj_left_join : Disj leftCfg joinCfg := by
  intro x y h
  simp [tablePfx, leftCfg, joinCfg, dbPrefix, nGameaddr, nGame, sep, hash] at h

theorem disj_right_join : Disj rightCfg joinCfg := by
  intro x y h
  simp [tablePfx, rightCfg, joinCfg, dbPrefix, nGameaddr, nGame, sep, hash] at h

theorem x_dk_dk {c c' : Cfg} (h : Disj c c') (p q : Bytes) : dataKey c p = dataKey c' q ↔ False := by
  rw [dataKey_eq, dataKey_eq]; exact ⟨fun e => h _ _ e, False.elim⟩
theorem x_dk_ik {c c' : Cfg} (h : Disj c c') (p n v q : Bytes) : dataKey c p = indexKey c' n v q ↔ False := by
  rw [dataKey_eq, indexKey_eq]; exact ⟨fun e => h _ _ e, False.elim⟩
theorem x_ik_dk {c c' : Cfg} (h : Disj c c') (p n v q : Bytes) : indexKey c n v q = dataKey c' p ↔ False := by
  rw [dataKey_eq, indexKey_eq]; exact ⟨fun e => h _ _ e, False.elim⟩
theorem x_ik_ik {c c' : Cfg} (h : Disj c c') (n v p n' v' q : Bytes) :
    indexKey c n v p = indexKey c' n' v' q ↔ False := by
  rw [indexKey_eq, indexKey_eq]; exact ⟨fun e => h _ _ e, False.elim⟩

/-! ### evaluation of the concrete configuration -/

theorem overlay_append (a b : List KV) (key : Bytes) (old : Option Val) :
    overlay (lastW (a ++ b) key) old = overlay (lastW b key) (overlay (lastW a key) old) := by
  rw [lastW_append]
  cases lastW b key <;> rfl

theorem overlay_delDup (kvs : List KV) (key : Bytes) (old : Option Val) :
    overlay (lastW (delDupKey kvs) key) old = overlay (lastW kvs key) old := by
  rw [lastW_delDupKey]

def jAS : Bytes := nAddr ++ [hash] ++ nStatus
def jS : Bytes := [hash] ++ nStatus

theorem getL_gid (tx g a : Bytes) : leftCfg.getF (.one (leftG tx g a)) nGameID = some g := by
  simp [leftCfg, plainGet, leftRow, leftG, fieldOf, nGameID, nTxhash, nAddr]
theorem getL_addr (tx g a : Bytes) : leftCfg.getF (.one (leftG tx g a)) nAddr = some a := by
  simp [leftCfg, plainGet, leftRow, leftG, fieldOf, nGameID, nTxhash, nAddr]
theorem getL_pk (tx g a : Bytes) : leftCfg.getF (.one (leftG tx g a)) nTxhash = some tx := by
  simp [leftCfg, plainGet, leftRow, leftG]
theorem getR_status (g st : Bytes) : rightCfg.getF (.one (rightG g st)) nStatus = some st := by
  simp [rightCfg, plainGet, rightRow, rightG, fieldOf, nGameID, nStatus]
theorem getR_pk (g st : Bytes) : rightCfg.getF (.one (rightG g st)) nGameID = some g := by
  simp [rightCfg, plainGet, rightRow, rightG]

theorem split_jAS : splitHash jAS = [nAddr, nStatus] := by decide
theorem split_jS : splitHash jS = [[], nStatus] := by decide

theorem getJ_AS (tx g a g' st : Bytes) :
    joinCfg.getF (.pair (leftG tx g a) (rightG g' st)) jAS = some (joinKey a st) := by
  have h1 : leftCfg.getF (.one (leftG tx g a)) nAddr = some a := getL_addr tx g a
  have h2 : rightCfg.getF (.one (rightG g' st)) nStatus = some st := getR_status g' st
  simp only [joinCfg, joinGet, split_jAS, h1, h2]
  simp [nAddr]
theorem getJ_S (tx g a g' st : Bytes) :
    joinCfg.getF (.pair (leftG tx g a) (rightG g' st)) jS = some (joinKey [] st) := by
  have h2 : rightCfg.getF (.one (rightG g' st)) nStatus = some st := getR_status g' st
  simp only [joinCfg, joinGet, split_jS, h2]
  simp

theorem joinCfg_index : joinCfg.index = [jAS, jS] := rfl

theorem nosep_names : NoSep nGameID ∧ NoSep nAddr ∧ NoSep nStatus ∧ NoSep jAS ∧ NoSep jS := by decide

theorem repRow_left (g : Bytes → Option Val) (p : Bytes) (v : Option Data) :
    RepRow g leftCfg p v ↔
      g (dataKey leftCfg p) = v.map (fun d => Val.row p d) ∧
      (∀ val, g (indexKey leftCfg nGameID val p) =
        match v with | some d => if leftCfg.getF d nGameID = some val then some (Val.pk p) else none | none => none) ∧
      (∀ val, g (indexKey leftCfg nAddr val p) =
        match v with | some d => if leftCfg.getF d nAddr = some val then some (Val.pk p) else none | none => none) := by
  unfold RepRow
  have hidx : leftCfg.index = [nGameID, nAddr] := rfl
  have hj : leftCfg.join = false := rfl
  constructor
  · rintro ⟨hd, hi⟩
    exact ⟨hd hj, hi nGameID (by simp [hidx]), hi nAddr (by simp [hidx])⟩
  · rintro ⟨hd, h1, h2⟩
    refine ⟨fun _ => hd, ?_⟩
    intro n hn
    rw [hidx] at hn
    simp only [List.mem_cons, List.not_mem_nil, or_false] at hn
    rcases hn with h | h <;> subst h
    · exact h1
    · exact h2

theorem repRow_right (g : Bytes → Option Val) (p : Bytes) (v : Option Data) :
    RepRow g rightCfg p v ↔
      g (dataKey rightCfg p) = v.map (fun d => Val.row p d) ∧
      (∀ val, g (indexKey rightCfg nStatus val p) =
        match v with | some d => if rightCfg.getF d nStatus = some val then some (Val.pk p) else none | none => none) := by
  unfold RepRow
  have hidx : rightCfg.index = [nStatus] := rfl
  have hj : rightCfg.join = false := rfl
  constructor
  · rintro ⟨hd, hi⟩
    exact ⟨hd hj, hi nStatus (by simp [hidx])⟩
  · rintro ⟨hd, h1⟩
    refine ⟨fun _ => hd, ?_⟩
    intro n hn
    rw [hidx] at hn
    simp only [List.mem_cons, List.not_mem_nil, or_false] at hn
    subst hn
    exact h1

theorem repRow_join (g : Bytes → Option Val) (p : Bytes) (v : Option Data) :
    RepRow g joinCfg p v ↔
      (∀ val, g (indexKey joinCfg jAS val p) =
        match v with | some d => if joinCfg.getF d jAS = some val then some (Val.pk p) else none | none => none) ∧
      (∀ val, g (indexKey joinCfg jS val p) =
        match v with | some d => if joinCfg.getF d jS = some val then some (Val.pk p) else none | none => none) := by
  unfold RepRow
  have hidx : joinCfg.index = [jAS, jS] := rfl
  have hj : joinCfg.join = true := rfl
  constructor
  · rintro ⟨_, hi⟩
    exact ⟨hi jAS (by simp [hidx]), hi jS (by simp [hidx])⟩
  · rintro ⟨h1, h2⟩
    refine ⟨fun h => (by rw [hj] at h; cases h), ?_⟩
    intro n hn
    rw [hidx] at hn
    simp only [List.mem_cons, List.not_mem_nil, or_false] at hn
    rcases hn with h | h <;> subst h
    · exact h1
    · exact h2

/-! simp set for the evaluation of overlays over the three tables -/

theorem d_lr : Disj leftCfg rightCfg := disj_left_right
theorem d_rl : Disj rightCfg leftCfg := disj_symm disj_left_right
theorem d_lj : Disj leftCfg joinCfg := disj_left_join
theorem d_jl : Disj joinCfg leftCfg := disj_symm disj_left_join
theorem d_rj : Disj rightCfg joinCfg := disj_right_join
theorem d_jr : Disj joinCfg rightCfg := disj_symm disj_right_join

theorem ne_names : (nAddr = nGameID ↔ False) ∧ (nGameID = nAddr ↔ False) ∧ (jAS = jS ↔ False) ∧ (jS = jAS ↔ False) := by
  decide

attribute [simp] d_lr d_rl d_lj d_jl d_rj d_jr x_dk_dk x_dk_ik x_ik_dk x_ik_ik dk_inj dk_ik ik_dk ik_inj
  overlay_cons overlay_nil overlay_append overlay_delDup getL_gid getL_addr getL_pk getR_status getR_pk getJ_AS getJ_S

theorem L_primary : leftCfg.primary = nTxhash := rfl
theorem L_index : leftCfg.index = [nGameID, nAddr] := rfl
theorem L_join : leftCfg.join = false := rfl
theorem R_primary : rightCfg.primary = nGameID := rfl
theorem R_index : rightCfg.index = [nStatus] := rfl
theorem R_join : rightCfg.join = false := rfl
theorem J_index : joinCfg.index = [jAS, jS] := rfl
theorem J_join : joinCfg.join = true := rfl
theorem J_primary : joinCfg.primary = nTxhash := rfl

end C10J
