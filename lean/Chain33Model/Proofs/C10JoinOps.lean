import Chain33Model.Proofs.C10Join
/-!
Join tables: one buffered operation on the left table followed by `JoinTable.Save`, case by case
(what is written, and that it re-establishes the representation invariant `JRep`).
-/
namespace C10J
open C09 (Bytes get)
open C10 (NoSep)

def kvAddL (tx g a : Bytes) : List KV :=
  [(dataKey leftCfg tx, some (.row tx (leftRow tx g a))), (indexKey leftCfg nGameID g tx, some (.pk tx)),
   (indexKey leftCfg nAddr a tx, some (.pk tx))]
def kvAddJ (tx a st : Bytes) : List KV :=
  [(indexKey joinCfg jAS (joinKey a st) tx, some (.pk tx)), (indexKey joinCfg jS (joinKey [] st) tx, some (.pk tx))]
def kvDelL (tx g a : Bytes) : List KV :=
  [(dataKey leftCfg tx, none), (indexKey leftCfg nGameID g tx, none), (indexKey leftCfg nAddr a tx, none)]
def kvDelJ (tx a st : Bytes) : List KV :=
  [(indexKey joinCfg jAS (joinKey a st) tx, none), (indexKey joinCfg jS (joinKey [] st) tx, none)]
/-- update of the addr field a0 → a (a ≠ a0), foreign key unchanged. -/
def kvUpdL (tx g a0 a : Bytes) : List KV :=
  [(dataKey leftCfg tx, some (.row tx (leftRow tx g a))), (indexKey leftCfg nAddr a0 tx, none),
   (indexKey leftCfg nAddr a tx, some (.pk tx))]
def kvUpdJ (tx a0 a st : Bytes) : List KV :=
  if joinKey a st = joinKey a0 st then []
  else [(indexKey joinCfg jAS (joinKey a0 st) tx, none), (indexKey joinCfg jAS (joinKey a st) tx, some (.pk tx))]

theorem leftIndex_eq (jt : JT) (h : jt.joinT.cfg = joinCfg) : leftIndex jt = [nAddr] := by
  simp [leftIndex, h, J_index, split_jAS, split_jS, nAddr]

/-! ### what the save writes -/

theorem save_nothing (db : TDB) : saveJoin db initJT = .ok ([], initJT) := by
  simp [saveJoin, initJT, saveT, delDupKey]

theorem exec_add_new (db : TDB) (tx g a : Bytes) (hdl : get db (dataKey leftCfg tx) = none) :
    execL db initJT (.add tx g a) =
      ({ initJT with left := addRowCache { cfg := leftCfg } ⟨.add, tx, leftRow tx g a, none⟩ }, .ok) := by
  simp [execL, add, checkIndex, initJT, L_primary, L_index, findRow, assocGet, getData, hdl, leftRow]

theorem exec_replace_new (db : TDB) (tx g a : Bytes) (hdl : get db (dataKey leftCfg tx) = none) :
    execL db initJT (.replace tx g a) =
      ({ initJT with left := addRowCache { cfg := leftCfg } ⟨.add, tx, leftRow tx g a, none⟩ }, .ok) := by
  simp [execL, replace, checkIndex, initJT, L_primary, L_index, findRow, assocGet, getData, hdl, leftRow]

theorem save_add (db : TDB) (tx g a st : Bytes)
    (hdr : get db (dataKey rightCfg g) = some (.row g (rightRow g st))) :
    ∃ kvs jt2, saveJoin db { initJT with left := addRowCache { cfg := leftCfg } ⟨.add, tx, leftRow tx g a, none⟩ }
        = .ok (kvs, jt2) ∧
      ∀ key old, overlay (lastW kvs key) old = overlay (lastW (kvAddJ tx a st ++ kvAddL tx g a) key) old := by
  simp [saveJoin, saveLeft, saveRight, initJT, addRowCache, isModified, R_primary, findRow, assocGet,
    getData, hdr, oneOf, leftRow, rightRow, saveT, saveRow, addRow, indexVals, J_index, J_join, L_index, L_join,
    assocSet, kvAddJ, kvAddL]

theorem exec_del_old (db : TDB) (tx g a0 : Bytes)
    (hdl : get db (dataKey leftCfg tx) = some (.row tx (leftRow tx g a0))) :
    execL db initJT (.del tx) =
      ({ initJT with left := addRowCache { cfg := leftCfg } ⟨.del, tx, leftRow tx g a0, none⟩ }, .ok) := by
  simp [execL, del, initJT, findRow, assocGet, getData, hdl]

theorem save_del (db : TDB) (tx g a0 st : Bytes)
    (hdr : get db (dataKey rightCfg g) = some (.row g (rightRow g st))) :
    ∃ kvs jt2, saveJoin db { initJT with left := addRowCache { cfg := leftCfg } ⟨.del, tx, leftRow tx g a0, none⟩ }
        = .ok (kvs, jt2) ∧
      ∀ key old, overlay (lastW kvs key) old = overlay (lastW (kvDelJ tx a0 st ++ kvDelL tx g a0) key) old := by
  simp [saveJoin, saveLeft, saveRight, initJT, addRowCache, isModified, R_primary, findRow, assocGet,
    getData, hdr, oneOf, leftRow, rightRow, saveT, saveRow, delRow, indexVals, J_index, J_join, L_index, L_join,
    assocDel, kvDelJ, kvDelL]

theorem exec_update_old (db : TDB) (tx g a0 a : Bytes)
    (hdl : get db (dataKey leftCfg tx) = some (.row tx (leftRow tx g a0))) :
    execL db initJT (.update tx g a) =
      ({ initJT with left := addRowCache { cfg := leftCfg } ⟨.update, tx, leftRow tx g a, some (leftRow tx g a0)⟩ }, .ok) := by
  simp [execL, update, checkIndex, initJT, L_primary, L_index, findRow, assocGet, getData, hdl, leftRow]

theorem exec_replace_old (db : TDB) (tx g a0 a : Bytes)
    (hdl : get db (dataKey leftCfg tx) = some (.row tx (leftRow tx g a0))) :
    execL db initJT (.replace tx g a) =
      ({ initJT with left := addRowCache { cfg := leftCfg } ⟨.update, tx, leftRow tx g a, some (leftRow tx g a0)⟩ }, .ok) := by
  simp [execL, replace, checkIndex, initJT, L_primary, L_index, findRow, assocGet, getData, hdl, leftRow]

theorem delDup_nil : delDupKey [] = [] := rfl

theorem save_update_same (db : TDB) (tx g a : Bytes) :
    ∃ jt2, saveJoin db { initJT with left := addRowCache { cfg := leftCfg } ⟨.update, tx, leftRow tx g a, some (leftRow tx g a)⟩ }
        = .ok ([], jt2) := by
  have hli : leftIndex { initJT with left := addRowCache { cfg := leftCfg } ⟨.update, tx, leftRow tx g a, some (leftRow tx g a)⟩ } = [nAddr] :=
    leftIndex_eq _ rfl
  simp [saveJoin, saveLeft, saveRight, leftIndex_eq, initJT, addRowCache, isModified, leftRow, saveT, saveRow, updateRow,
    assocSet, delDup_nil]

theorem save_update (db : TDB) (tx g a0 a st : Bytes) (hne : a ≠ a0)
    (hdr : get db (dataKey rightCfg g) = some (.row g (rightRow g st))) :
    ∃ kvs jt2, saveJoin db { initJT with left := addRowCache { cfg := leftCfg } ⟨.update, tx, leftRow tx g a, some (leftRow tx g a0)⟩ }
        = .ok (kvs, jt2) ∧
      ∀ key old, overlay (lastW kvs key) old = overlay (lastW (kvUpdJ tx a0 a st ++ kvUpdL tx g a0 a) key) old := by
  have hne' : ¬ a0 = a := fun e => hne e.symm
  have hG : ¬ leftG tx g a = leftG tx g a0 := by
    simp [leftG, hne]
  have hli : leftIndex { initJT with left := addRowCache { cfg := leftCfg } ⟨.update, tx, leftRow tx g a, some (leftRow tx g a0)⟩ } = [nAddr] :=
    leftIndex_eq _ rfl
  by_cases hjk : joinKey a st = joinKey a0 st
  · simp [saveJoin, saveLeft, saveRight, leftIndex_eq, initJT, addRowCache, isModified, R_primary, findRow, assocGet,
      getData, hdr, oneOf, leftRow, rightRow, saveT, saveRow, updateRow, indexVals, J_index, J_join, L_index, L_join,
      assocSet, kvUpdJ, kvUpdL, hne, hne', hjk, hG, delDup_nil]
  · simp [saveJoin, saveLeft, saveRight, leftIndex_eq, initJT, addRowCache, isModified, R_primary, findRow, assocGet,
      getData, hdr, oneOf, leftRow, rightRow, saveT, saveRow, updateRow, indexVals, J_index, J_join, L_index, L_join,
      assocSet, kvUpdJ, kvUpdL, hne, hne', hjk, hG, delDup_nil]

theorem exec_add_dup (db : TDB) (tx g a : Bytes) (d : Data)
    (hdl : get db (dataKey leftCfg tx) = some (.row tx d)) :
    execL db initJT (.add tx g a) = (initJT, .dup) := by
  simp [execL, add, checkIndex, initJT, L_primary, L_index, findRow, assocGet, getData, hdl, leftRow]

theorem exec_update_missing (db : TDB) (tx g a : Bytes) (hdl : get db (dataKey leftCfg tx) = none) :
    execL db initJT (.update tx g a) = (initJT, .notfound) := by
  simp [execL, update, checkIndex, initJT, L_primary, L_index, findRow, assocGet, getData, hdl, leftRow]

theorem exec_del_missing (db : TDB) (tx : Bytes) (hdl : get db (dataKey leftCfg tx) = none) :
    execL db initJT (.del tx) = (initJT, .notfound) := by
  simp [execL, del, initJT, findRow, assocGet, getData, hdl]

theorem jrep_congr (db : TDB) (s s' : JSpec) (hL : ∀ p, s'.L p = s.L p) (hR : ∀ p, s'.R p = s.R p)
    (h : JRep db s) : JRep db s' := by
  obtain ⟨hl, hr, hj⟩ := h
  refine ⟨?_, ?_, ?_⟩
  · intro p hp; rw [hL p]; exact hl p hp
  · intro p hp; rw [hR p]; exact hr p hp
  · intro p hp
    have : joined s' p = joined s p := by
      simp only [joined, hL p]
      cases s.L p with
      | none => rfl
      | some la => simp only [hR la.1]
    rw [this]; exact hj p hp

theorem left_data_of_rep (db : TDB) (s : JSpec) (tx : Bytes) (hrep : JRep db s) (htx : NoSep tx) :
    get db (dataKey leftCfg tx) = (s.L tx).map (fun la => Val.row tx (leftRow tx la.1 la.2)) := by
  have := ((repRow_left _ _ _).1 (hrep.1 tx htx)).1
  rw [this]; cases s.L tx <;> rfl

theorem right_data_of_rep (db : TDB) (s : JSpec) (g st : Bytes) (hrep : JRep db s) (hg : NoSep g)
    (hR : s.R g = some st) : get db (dataKey rightCfg g) = some (Val.row g (rightRow g st)) := by
  have := ((repRow_right _ _ _).1 (hrep.2.1 g hg)).1
  rw [this, hR]; rfl

def kvAddR (g st : Bytes) : List KV :=
  [(dataKey rightCfg g, some (.row g (rightRow g st))), (indexKey rightCfg nStatus st g, some (.pk g))]

/-- writing the records of a new, not yet referenced right row keeps the invariant (used to build
witness stores). -/
theorem jrep_put_right (db : TDB) (s : JSpec) (g st : Bytes) (hrep : JRep db s) (hg : NoSep g)
    (hR : s.R g = none) (hnoref : ∀ tx la, s.L tx = some la → la.1 ≠ g) :
    JRep (applyKVs db (kvAddR g st)) { s with R := fun p => if p = g then some st else s.R p } := by
  obtain ⟨hl, hr, hj⟩ := hrep
  obtain ⟨n1, n2, n3, n4, n5⟩ := nosep_names
  refine ⟨?_, ?_, ?_⟩
  · intro p hp
    have h0 := (repRow_left _ _ _).1 (hl p hp)
    rw [repRow_left]
    simp only [get_applyKVs, kvAddR]
    simp [h0]
  · intro p hp
    have h0 := (repRow_right _ _ _).1 (hr p hp)
    rw [repRow_right]
    simp only [get_applyKVs, kvAddR]
    by_cases hpg : p = g
    · subst hpg
      simp [hR] at h0
      simp [n3, hp, h0, rightRow]
    · have hpg' : ¬ g = p := fun e => hpg e.symm
      simp [hpg] at h0 ⊢
      simp [n3, hp, hg, hpg', h0]
  · intro p hp
    have h0 := (repRow_join _ _ _).1 (hj p hp)
    rw [repRow_join]
    simp only [get_applyKVs, kvAddR]
    have hjoin : joined { s with R := fun q => if q = g then some st else s.R q } p = joined s p := by
      simp only [joined]
      cases hL : s.L p with
      | none => rfl
      | some la =>
        have := hnoref p la hL
        simp [this]
    rw [hjoin]
    simp [h0]

/-! ### the representation invariant after the save -/

theorem jrep_add (db : TDB) (s : JSpec) (tx g a st : Bytes) (kvs : List KV)
    (hrep : JRep db s) (htx : NoSep tx) (hL : s.L tx = none) (hR : s.R g = some st)
    (hk : ∀ key old, overlay (lastW kvs key) old = overlay (lastW (kvAddJ tx a st ++ kvAddL tx g a) key) old) :
    JRep (applyKVs db kvs) { s with L := fun p => if p = tx then some (g, a) else s.L p } := by
  obtain ⟨hl, hr, hj⟩ := hrep
  obtain ⟨n1, n2, n3, n4, n5⟩ := nosep_names
  obtain ⟨m1, m2, m3, m4⟩ := ne_names
  refine ⟨?_, ?_, ?_⟩
  · intro p hp
    have h0 := (repRow_left _ _ _).1 (hl p hp)
    rw [repRow_left]
    simp only [get_applyKVs, hk, kvAddJ, kvAddL]
    by_cases hpt : p = tx
    · subst hpt
      simp [hL] at h0
      simp [n1, n2, m1, m2, hp, h0, leftRow]
    · have hpt' : ¬ tx = p := fun e => hpt e.symm
      simp [hpt] at h0 ⊢
      simp [n1, n2, hp, htx, hpt', h0]
  · intro p hp
    have h0 := (repRow_right _ _ _).1 (hr p hp)
    rw [repRow_right]
    simp only [get_applyKVs, hk, kvAddJ, kvAddL]
    simp [h0]
  · intro p hp
    have h0 := (repRow_join _ _ _).1 (hj p hp)
    rw [repRow_join]
    simp only [get_applyKVs, hk, kvAddJ, kvAddL]
    by_cases hpt : p = tx
    · subst hpt
      simp [joined, hL] at h0
      simp [joined, hR, n4, n5, m3, m4, hp, h0]
    · have hpt' : ¬ tx = p := fun e => hpt e.symm
      simp [joined, hpt] at h0 ⊢
      simp [n4, n5, hp, htx, hpt', h0]

theorem jrep_del (db : TDB) (s : JSpec) (tx g a0 st : Bytes) (kvs : List KV)
    (hrep : JRep db s) (htx : NoSep tx) (hL : s.L tx = some (g, a0)) (hR : s.R g = some st)
    (hk : ∀ key old, overlay (lastW kvs key) old = overlay (lastW (kvDelJ tx a0 st ++ kvDelL tx g a0) key) old) :
    JRep (applyKVs db kvs) { s with L := fun p => if p = tx then none else s.L p } := by
  obtain ⟨hl, hr, hj⟩ := hrep
  obtain ⟨n1, n2, n3, n4, n5⟩ := nosep_names
  obtain ⟨m1, m2, m3, m4⟩ := ne_names
  refine ⟨?_, ?_, ?_⟩
  · intro p hp
    have h0 := (repRow_left _ _ _).1 (hl p hp)
    rw [repRow_left]
    simp only [get_applyKVs, hk, kvDelJ, kvDelL]
    by_cases hpt : p = tx
    · subst hpt
      simp [hL, leftRow] at h0
      simp [n1, n2, m1, m2, hp, h0]
    · have hpt' : ¬ tx = p := fun e => hpt e.symm
      simp [hpt] at h0 ⊢
      simp [n1, n2, hp, htx, hpt', h0]
  · intro p hp
    have h0 := (repRow_right _ _ _).1 (hr p hp)
    rw [repRow_right]
    simp only [get_applyKVs, hk, kvDelJ, kvDelL]
    simp [h0]
  · intro p hp
    have h0 := (repRow_join _ _ _).1 (hj p hp)
    rw [repRow_join]
    simp only [get_applyKVs, hk, kvDelJ, kvDelL]
    by_cases hpt : p = tx
    · subst hpt
      simp [joined, hL, hR] at h0
      simp [joined, n4, n5, m3, m4, hp, h0]
    · have hpt' : ¬ tx = p := fun e => hpt e.symm
      simp [joined, hpt] at h0 ⊢
      simp [n4, n5, hp, htx, hpt', h0]

theorem jrep_update (db : TDB) (s : JSpec) (tx g a0 a st : Bytes) (kvs : List KV)
    (hrep : JRep db s) (htx : NoSep tx) (hL : s.L tx = some (g, a0)) (hR : s.R g = some st) (hne : a ≠ a0)
    (hk : ∀ key old, overlay (lastW kvs key) old = overlay (lastW (kvUpdJ tx a0 a st ++ kvUpdL tx g a0 a) key) old) :
    JRep (applyKVs db kvs) { s with L := fun p => if p = tx then some (g, a) else s.L p } := by
  obtain ⟨hl, hr, hj⟩ := hrep
  obtain ⟨n1, n2, n3, n4, n5⟩ := nosep_names
  obtain ⟨m1, m2, m3, m4⟩ := ne_names
  have hne' : ¬ a0 = a := fun e => hne e.symm
  refine ⟨?_, ?_, ?_⟩
  · intro p hp
    have h0 := (repRow_left _ _ _).1 (hl p hp)
    rw [repRow_left]
    simp only [get_applyKVs, hk, kvUpdL]
    by_cases hpt : p = tx
    · subst hpt
      simp [hL, leftRow] at h0
      by_cases hjk : joinKey a st = joinKey a0 st <;>
      · simp [kvUpdJ, hjk, n1, n2, n4, m1, m2, hp, h0, leftRow]
        intro val; split <;> simp_all
    · have hpt' : ¬ tx = p := fun e => hpt e.symm
      simp [hpt] at h0 ⊢
      by_cases hjk : joinKey a st = joinKey a0 st <;>
        simp [kvUpdJ, hjk, n1, n2, n4, hp, htx, hpt', h0]
  · intro p hp
    have h0 := (repRow_right _ _ _).1 (hr p hp)
    rw [repRow_right]
    simp only [get_applyKVs, hk, kvUpdL]
    by_cases hjk : joinKey a st = joinKey a0 st <;> simp [kvUpdJ, hjk, h0]
  · intro p hp
    have h0 := (repRow_join _ _ _).1 (hj p hp)
    rw [repRow_join]
    simp only [get_applyKVs, hk, kvUpdL]
    by_cases hpt : p = tx
    · subst hpt
      simp [joined, hL, hR] at h0
      by_cases hjk : joinKey a st = joinKey a0 st
      · simp [kvUpdJ, hjk, joined, hR, n4, n5, m3, m4, hp, h0]
      · simp [kvUpdJ, hjk, joined, hR, n4, n5, m3, m4, hp, h0]
        intro val; split <;> simp_all
    · have hpt' : ¬ tx = p := fun e => hpt e.symm
      simp [joined, hpt] at h0 ⊢
      by_cases hjk : joinKey a st = joinKey a0 st <;>
        simp [kvUpdJ, hjk, n4, n5, hp, htx, hpt', h0]

end C10J
