import Chain33Model.Proofs.C10
/-!
C10 — several buffered operations per key: simulation invariant between the row cache and the map.
-/
namespace C10
open C09 (Bytes get)

/-- effective (not cancelled) cache rows of primary key `p`. -/
def eff (rows : List CRow) (p : Bytes) : List CRow :=
  rows.filter (fun r => r.primary == p && r.ty != .none)

/-- per-key state of the simulation. -/
inductive KState (t : Table) (m0 m : Spec) (fl : Bytes → Flag) (p : Bytes) : Prop where
  | clean (h1 : eff t.rows p = []) (h2 : assocGet t.rowmap p = none) (h3 : m p = m0 p)
      (h4 : m0 p ≠ none → fl p = .fresh)
  | deleted (old : Row) (o : Option Row) (h1 : eff t.rows p = [⟨.del, p, old, o⟩]) (h2 : assocGet t.rowmap p = none)
      (h3 : m0 p = some old) (h4 : m p = none) (h5 : fl p = .deleted)
  | added (i : Nat) (d : Row) (h1 : eff t.rows p = [⟨.add, p, d, none⟩])
      (h2 : assocGet t.rowmap p = some i) (h3 : t.rows[i]? = some ⟨.add, p, d, none⟩)
      (h4 : m0 p = none) (h5 : m p = some d) (h6 : d.pk = p)
  | updated (i : Nat) (d old : Row) (h1 : eff t.rows p = [⟨.update, p, d, some old⟩])
      (h2 : assocGet t.rowmap p = some i) (h3 : t.rows[i]? = some ⟨.update, p, d, some old⟩)
      (h4 : m0 p = some old) (h5 : m p = some d) (h6 : d.pk = p) (h7 : fl p = .written)

/-- primary keys the theorems speak about: without the '-' separator and non-empty. -/
def OKpk (p : Bytes) : Prop := NoSep p ∧ p ≠ []

structure Inv (db0 : TDB) (m0 : Spec) (t : Table) (m : Spec) (fl : Bytes → Flag) : Prop where
  db : t.db = db0
  nosep : ∀ r ∈ t.rows, OKpk r.primary
  savable : ∀ r ∈ t.rows, r.ty = .update → r.old ≠ none
  keys : ∀ p, KState t m0 m fl p

/-! ### list facts -/

theorem eff_append (rows : List CRow) (r : CRow) (p : Bytes) :
    eff (rows ++ [r]) p = eff rows p ++ (if r.primary = p ∧ r.ty ≠ .none then [r] else []) := by
  simp only [eff, List.filter_append, List.filter_cons, List.filter_nil]
  by_cases h1 : r.primary = p <;> by_cases h2 : r.ty = .none <;> simp [h1, h2]

theorem getElem?_append_old {α : Type} (l : List α) (x y : α) (i : Nat) (h : l[i]? = some x) :
    (l ++ [y])[i]? = some x := by
  have hi : i < l.length := by
    rcases Nat.lt_or_ge i l.length with h' | h'
    · exact h'
    · rw [List.getElem?_eq_none h'] at h; cases h
  rw [List.getElem?_append_left hi]; exact h

theorem getElem?_append_new {α : Type} (l : List α) (y : α) : (l ++ [y])[l.length]? = some y := by
  simp

/-- replacing the element at position `i` (which has primary key `q`) by one with the same primary
key does not change the effective rows of other keys. -/
theorem eff_set_other (rows : List CRow) (i : Nat) (r r' : CRow) (p : Bytes)
    (hi : rows[i]? = some r) (hq : r.primary ≠ p) (hq' : r'.primary ≠ p) :
    eff (rows.set i r') p = eff rows p := by
  induction rows generalizing i with
  | nil => rfl
  | cons x xs ih =>
    cases i with
    | zero =>
      simp only [List.getElem?_cons_zero, Option.some.injEq] at hi
      subst hi
      have h1 : (x.primary == p) = false := by simpa using hq
      have h2 : (r'.primary == p) = false := by simpa using hq'
      simp [eff, List.filter_cons, h1, h2]
    | succ j =>
      simp only [List.getElem?_cons_succ] at hi
      have := ih j hi
      simp only [eff] at this ⊢
      simp only [List.set_cons_succ, List.filter_cons, this]

/-- if `r` at position `i` is the only effective row of `p`, replacing it replaces the effective rows. -/
theorem eff_set_self (rows : List CRow) (i : Nat) (r r' : CRow) (p : Bytes)
    (hi : rows[i]? = some r) (he : eff rows p = [r]) (hr : r.primary = p ∧ r.ty ≠ .none) :
    eff (rows.set i r') p = if r'.primary = p ∧ r'.ty ≠ .none then [r'] else [] := by
  induction rows generalizing i with
  | nil => simp at hi
  | cons x xs ih =>
    have hrb : (r.primary == p && r.ty != .none) = true := by
      simp [hr.1, hr.2]
    cases i with
    | zero =>
      simp only [List.getElem?_cons_zero, Option.some.injEq] at hi
      subst hi
      simp only [eff, List.filter_cons, hrb, if_true, List.cons.injEq, true_and] at he
      simp only [eff, List.set_cons_zero, List.filter_cons, he]
      by_cases h1 : r'.primary = p <;> by_cases h2 : r'.ty = .none <;> simp [h1, h2]
    | succ j =>
      simp only [List.getElem?_cons_succ] at hi
      simp only [eff, List.filter_cons] at he
      by_cases hx : (x.primary == p && x.ty != .none) = true
      · -- x would be a second effective row: then r ∈ xs effective too, contradiction with he
        simp only [hx, if_true, List.cons.injEq] at he
        have hmem : r ∈ xs.filter (fun r => r.primary == p && r.ty != .none) :=
          List.mem_filter.2 ⟨List.mem_of_getElem? hi, hrb⟩
        rw [he.2] at hmem
        cases hmem
      · simp only [hx] at he
        have := ih j hi (by simpa [eff] using he)
        simp only [eff] at this ⊢
        simp only [List.set_cons_succ, List.filter_cons, hx, this]
        simp

/-! ### rowmap facts -/

theorem assocGet_set (l : List (Bytes × Nat)) (a : Bytes) (b : Nat) (p : Bytes) :
    assocGet (assocSet l a b) p = if p = a then some b else assocGet l p := by
  by_cases h : p = a
  · subst h; simp [assocGet, assocSet]
  · have h' : (a == p) = false := by simpa using fun e => h e.symm
    simp only [assocGet, assocSet, List.find?, h', h, if_false, List.find?_filter]
    congr 2
    funext x
    by_cases hx : x.1 = p
    · simp [hx, h]
    · simp [hx]

theorem assocGet_del (l : List (Bytes × Nat)) (a p : Bytes) :
    assocGet (assocDel l a) p = if p = a then none else assocGet l p := by
  by_cases h : p = a
  · subst h
    simp only [assocGet, assocDel, if_true, Option.map_eq_none_iff, List.find?_eq_none]
    intro x hx
    have := (List.mem_filter.1 hx).2
    simpa using this
  · simp only [assocGet, assocDel, h, if_false, List.find?_filter]
    congr 2
    funext x
    by_cases hx : x.1 = p
    · simp [hx, h]
    · simp [hx]

/-! ### frame: what an operation on `q` leaves untouched for `p ≠ q` -/

theorem kstate_frame (t t' : Table) (m0 m m' : Spec) (fl fl' : Bytes → Flag) (p : Bytes)
    (heff : eff t'.rows p = eff t.rows p) (hmap : assocGet t'.rowmap p = assocGet t.rowmap p)
    (hrows : ∀ i x, assocGet t.rowmap p = some i → t.rows[i]? = some x → t'.rows[i]? = some x)
    (hm : m' p = m p) (hfl : fl' p = fl p) (h : KState t m0 m fl p) : KState t' m0 m' fl' p := by
  cases h with
  | clean h1 h2 h3 h4 => exact .clean (by rw [heff]; exact h1) (by rw [hmap]; exact h2) (by rw [hm]; exact h3) (by rw [hfl]; exact h4)
  | deleted old o h1 h2 h3 h4 h5 =>
    exact .deleted old o (by rw [heff]; exact h1) (by rw [hmap]; exact h2) h3 (by rw [hm]; exact h4) (by rw [hfl]; exact h5)
  | added i d h1 h2 h3 h4 h5 h6 =>
    exact .added i d (by rw [heff]; exact h1) (by rw [hmap]; exact h2) (hrows i _ h2 h3) h4 (by rw [hm]; exact h5) h6
  | updated i d old h1 h2 h3 h4 h5 h6 h7 =>
    exact .updated i d old (by rw [heff]; exact h1) (by rw [hmap]; exact h2) (hrows i _ h2 h3) h4
      (by rw [hm]; exact h5) h6 (by rw [hfl]; exact h7)

/-- appending a row of primary key `q`. -/
theorem frame_append (t : Table) (r : CRow) (m0 m m' : Spec) (fl fl' : Bytes → Flag) (p : Bytes)
    (hp : r.primary ≠ p) (hm : m' p = m p) (hfl : fl' p = fl p) (h : KState t m0 m fl p) :
    KState (addRowCache t r) m0 m' fl' p := by
  apply kstate_frame t _ m0 m m' fl fl' p _ _ _ hm hfl h
  · rw [addRowCache_rows, eff_append]; simp [hp]
  · have hp' : ¬ p = r.primary := fun e => hp e.symm
    unfold addRowCache
    cases r.ty <;> simp [assocGet_set, assocGet_del, hp']
  · intro i x _ hx
    rw [addRowCache_rows]; exact getElem?_append_old _ _ _ _ hx

/-- replacing the cached row of `q` at position `i` (and possibly dropping `q` from the rowmap). -/
theorem frame_set (t : Table) (i : Nat) (r r' : CRow) (q : Bytes) (rowmap' : List (Bytes × Nat))
    (m0 m m' : Spec) (fl fl' : Bytes → Flag) (p : Bytes)
    (hi : t.rows[i]? = some r) (hrq : r.primary = q) (hrq' : r'.primary = q) (hp : q ≠ p)
    (hmap : assocGet rowmap' p = assocGet t.rowmap p)
    (hm : m' p = m p) (hfl : fl' p = fl p) (h : KState t m0 m fl p) :
    KState { t with rows := t.rows.set i r', rowmap := rowmap' } m0 m' fl' p := by
  apply kstate_frame t _ m0 m m' fl fl' p _ hmap _ hm hfl h
  · exact eff_set_other t.rows i r r' p hi (by rw [hrq]; exact hp) (by rw [hrq']; exact hp)
  · intro j x hj hx
    have hji : j ≠ i := by
      intro e; subst e
      rw [hi] at hx
      have hx' : r = x := Option.some.inj hx
      -- x is the row of p, r the row of q
      cases h with
      | clean _ h2 _ _ => rw [h2] at hj; cases hj
      | deleted _ _ _ h2 _ _ _ => rw [h2] at hj; cases hj
      | added i' d _ h2 h3 _ _ _ =>
        rw [h2] at hj; have := Option.some.inj hj; subst this
        rw [hi] at h3; have := Option.some.inj h3
        rw [this] at hrq; exact hp hrq.symm
      | updated i' d old _ h2 h3 _ _ _ _ =>
        rw [h2] at hj; have := Option.some.inj hj; subst this
        rw [hi] at h3; have := Option.some.inj h3
        rw [this] at hrq; exact hp hrq.symm
    show (t.rows.set i r')[j]? = some x
    rw [List.getElem?_set_ne (Ne.symm hji)]; exact hx

/-! ### one step of the simulation -/

theorem findRow_db (t : Table) (db0 : TDB) (m0 : Spec) (q : Bytes) (hdb : t.db = db0)
    (hrep : RepAtG (get db0) m0 q) (hmap : assocGet t.rowmap q = none) :
    findRow t q = match m0 q with | some old => .stored q old | none => .missing := by
  have hg := getData_of_rep db0 m0 q hrep
  simp only [findRow, hmap, hdb, hg]
  cases m0 q <;> rfl

theorem findRow_cached (t : Table) (q : Bytes) (i : Nat) (r : CRow)
    (hmap : assocGet t.rowmap q = some i) (hi : t.rows[i]? = some r) : findRow t q = .cached i r := by
  simp [findRow, hmap, hi]

/-- Inv after appending a row for `q` given the new per-key state of `q`. -/
theorem inv_append (db0 : TDB) (m0 : Spec) (t : Table) (m m' : Spec) (fl fl' : Bytes → Flag) (r : CRow)
    (q : Bytes) (hinv : Inv db0 m0 t m fl) (hr : r.primary = q) (hq : OKpk q)
    (hsav : r.ty = .update → r.old ≠ none)
    (hm : ∀ p, p ≠ q → m' p = m p) (hfl : ∀ p, p ≠ q → fl' p = fl p)
    (hkq : KState (addRowCache t r) m0 m' fl' q) : Inv db0 m0 (addRowCache t r) m' fl' := by
  refine ⟨hinv.db, ?_, ?_, ?_⟩
  · intro x hx
    rw [addRowCache_rows] at hx
    rcases List.mem_append.1 hx with h | h
    · exact hinv.nosep x h
    · simp only [List.mem_singleton] at h; rw [h, hr]; exact hq
  · intro x hx
    rw [addRowCache_rows] at hx
    rcases List.mem_append.1 hx with h | h
    · exact hinv.savable x h
    · simp only [List.mem_singleton] at h; rw [h]; exact hsav
  · intro p
    by_cases hp : p = q
    · subst hp; exact hkq
    · exact frame_append t r m0 m m' fl fl' p (by rw [hr]; exact fun e => hp e.symm) (hm p hp) (hfl p hp)
        (hinv.keys p)

/-- Inv after replacing the cached row of `q`. -/
theorem inv_set (db0 : TDB) (m0 : Spec) (t : Table) (m m' : Spec) (fl fl' : Bytes → Flag)
    (i : Nat) (r r' : CRow) (q : Bytes) (rowmap' : List (Bytes × Nat))
    (hinv : Inv db0 m0 t m fl) (hi : t.rows[i]? = some r) (hr : r.primary = q) (hr' : r'.primary = q)
    (hq : OKpk q) (hsav : r'.ty = .update → r'.old ≠ none)
    (hmap : ∀ p, p ≠ q → assocGet rowmap' p = assocGet t.rowmap p)
    (hm : ∀ p, p ≠ q → m' p = m p) (hfl : ∀ p, p ≠ q → fl' p = fl p)
    (hkq : KState { t with rows := t.rows.set i r', rowmap := rowmap' } m0 m' fl' q) :
    Inv db0 m0 { t with rows := t.rows.set i r', rowmap := rowmap' } m' fl' := by
  refine ⟨hinv.db, ?_, ?_, ?_⟩
  · intro x hx
    rcases List.mem_or_eq_of_mem_set hx with h | h
    · exact hinv.nosep x h
    · rw [h, hr']; exact hq
  · intro x hx
    rcases List.mem_or_eq_of_mem_set hx with h | h
    · exact hinv.savable x h
    · rw [h]; exact hsav
  · intro p
    by_cases hp : p = q
    · subst hp; exact hkq
    · exact frame_set t i r r' q rowmap' m0 m m' fl fl' p hi hr hr' (fun e => hp e.symm) (hmap p hp)
        (hm p hp) (hfl p hp) (hinv.keys p)

theorem set_other (m : Spec) (q : Bytes) (v : Option Row) (p : Bytes) (h : p ≠ q) : (m.set q v) p = m p := by
  simp [Spec.set, h]

theorem set_self (m : Spec) (q : Bytes) (v : Option Row) : (m.set q v) q = v := by
  simp [Spec.set]

theorem getElem?_lt {α : Type} (l : List α) (i : Nat) (x : α) (h : l[i]? = some x) : i < l.length := by
  rcases Nat.lt_or_ge i l.length with h' | h'
  · exact h'
  · rw [List.getElem?_eq_none h'] at h; cases h

/-- the key is clean (nothing effective buffered) and absent from the map at the last save. -/
theorem step_clean_absent (db0 : TDB) (m0 : Spec) (hrep : Rep db0 m0) (t : Table) (m : Spec)
    (fl : Bytes → Flag) (op : Op) (hinv : Inv db0 m0 t m fl) (hq : OKpk op.pk)
    (h1 : eff t.rows op.pk = []) (h2 : assocGet t.rowmap op.pk = none) (h3 : m op.pk = m0 op.pk)
    (hm0 : m0 op.pk = none) :
    (exec t op).2 = (specStep m op).2 ∧ Inv db0 m0 (exec t op).1 (specStep m op).1 fl := by
  have hfind := findRow_db t db0 m0 op.pk hinv.db (hrep op.pk hq.1) h2
  rw [hm0] at hfind
  have hmq : m op.pk = none := by rw [h3, hm0]
  cases op with
  | add d =>
    simp only [Op.pk] at *
    simp only [exec, add, hfind, specStep, hmq]
    refine ⟨trivial, inv_append db0 m0 t m _ fl fl _ d.pk hinv rfl hq (by intro h; cases h)
      (fun p hp => set_other m d.pk _ p hp) (fun _ _ => rfl) ?_⟩
    refine .added t.rows.length d ?_ ?_ ?_ hm0 (set_self m d.pk _) rfl
    · rw [addRowCache_rows, eff_append, h1]; simp
    · simp [addRowCache, assocGet_set]
    · rw [addRowCache_rows]; exact getElem?_append_new _ _
  | replace d =>
    simp only [Op.pk] at *
    simp only [exec, replace, hfind, specStep]
    refine ⟨trivial, inv_append db0 m0 t m _ fl fl _ d.pk hinv rfl hq (by intro h; cases h)
      (fun p hp => set_other m d.pk _ p hp) (fun _ _ => rfl) ?_⟩
    refine .added t.rows.length d ?_ ?_ ?_ hm0 (set_self m d.pk _) rfl
    · rw [addRowCache_rows, eff_append, h1]; simp
    · simp [addRowCache, assocGet_set]
    · rw [addRowCache_rows]; exact getElem?_append_new _ _
  | update d =>
    simp only [Op.pk] at *
    simp only [exec, update, hfind, specStep, hmq, ne_eq, not_true_eq_false, if_false]
    exact ⟨trivial, hinv⟩
  | del pk =>
    simp only [Op.pk] at *
    simp only [exec, del, hfind, specStep, hmq]
    exact ⟨trivial, hinv⟩

/-- the key is clean and was stored at the last save (flag fresh). -/
theorem step_clean_present (db0 : TDB) (m0 : Spec) (hrep : Rep db0 m0) (t : Table) (m : Spec)
    (fl fl' : Bytes → Flag) (op : Op) (hinv : Inv db0 m0 t m fl) (hq : OKpk op.pk)
    (h1 : eff t.rows op.pk = []) (h2 : assocGet t.rowmap op.pk = none) (h3 : m op.pk = m0 op.pk)
    (old : Row) (hm0 : m0 op.pk = some old) (hfl : fl op.pk = .fresh)
    (hgood : goodStep m0 fl op = some fl') :
    (exec t op).2 = (specStep m op).2 ∧ Inv db0 m0 (exec t op).1 (specStep m op).1 fl' := by
  have hfind := findRow_db t db0 m0 op.pk hinv.db (hrep op.pk hq.1) h2
  rw [hm0] at hfind
  have hmq : m op.pk = some old := by rw [h3, hm0]
  simp only [goodStep, hm0, hfl] at hgood
  cases op with
  | add d =>
    simp only [Op.pk] at *
    simp only [Option.some.injEq] at hgood
    subst hgood
    simp only [exec, add, hfind, specStep, hmq]
    exact ⟨trivial, hinv⟩
  | replace d =>
    simp only [Op.pk] at *
    simp only [Option.some.injEq] at hgood
    subst hgood
    simp only [exec, replace, hfind, specStep]
    refine ⟨trivial, inv_append db0 m0 t m _ fl _ _ d.pk hinv rfl hq (by intro _ h; cases h)
      (fun p hp => set_other m d.pk _ p hp) (fun p hp => by simp [hp]) ?_⟩
    refine .updated t.rows.length d old ?_ ?_ ?_ hm0 (set_self m d.pk _) rfl (by simp)
    · rw [addRowCache_rows, eff_append, h1]; simp
    · simp [addRowCache, assocGet_set]
    · rw [addRowCache_rows]; exact getElem?_append_new _ _
  | update d =>
    simp only [Op.pk] at *
    simp only [Option.some.injEq] at hgood
    subst hgood
    simp only [exec, update, hfind, specStep, hmq, ne_eq, not_true_eq_false, if_false]
    refine ⟨trivial, inv_append db0 m0 t m _ fl _ _ d.pk hinv rfl hq (by intro _ h; cases h)
      (fun p hp => set_other m d.pk _ p hp) (fun p hp => by simp [hp]) ?_⟩
    refine .updated t.rows.length d old ?_ ?_ ?_ hm0 (set_self m d.pk _) rfl (by simp)
    · rw [addRowCache_rows, eff_append, h1]; simp
    · simp [addRowCache, assocGet_set]
    · rw [addRowCache_rows]; exact getElem?_append_new _ _
  | del pk =>
    simp only [Op.pk] at *
    simp only [Option.some.injEq] at hgood
    subst hgood
    simp only [exec, del, hfind, specStep, hmq]
    refine ⟨trivial, inv_append db0 m0 t m _ fl _ _ pk hinv rfl hq (by intro h; cases h)
      (fun p hp => set_other m pk _ p hp) (fun p hp => by simp [hp]) ?_⟩
    refine .deleted old none ?_ ?_ hm0 (set_self m pk _) (by simp)
    · rw [addRowCache_rows, eff_append, h1]; simp
    · simp [addRowCache, assocGet_del]

/-- the key has a buffered Add row (it was absent at the last save). -/
theorem step_added (db0 : TDB) (m0 : Spec) (t : Table) (m : Spec)
    (fl : Bytes → Flag) (op : Op) (hinv : Inv db0 m0 t m fl) (hq : OKpk op.pk)
    (i : Nat) (d : Row) (h1 : eff t.rows op.pk = [⟨.add, op.pk, d, none⟩])
    (h2 : assocGet t.rowmap op.pk = some i) (h3 : t.rows[i]? = some ⟨.add, op.pk, d, none⟩)
    (h4 : m0 op.pk = none) (h5 : m op.pk = some d) :
    (exec t op).2 = (specStep m op).2 ∧ Inv db0 m0 (exec t op).1 (specStep m op).1 fl := by
  have hfind := findRow_cached t op.pk i _ h2 h3
  have hlt := getElem?_lt _ _ _ h3
  cases op with
  | add d' =>
    simp only [Op.pk] at *
    simp only [exec, add, hfind, specStep, h5]
    exact ⟨trivial, hinv⟩
  | replace d' =>
    simp only [Op.pk] at *
    simp only [exec, replace, hfind, specStep, setData]
    refine ⟨trivial, inv_set db0 m0 t m _ fl fl i _ _ d'.pk t.rowmap hinv h3 rfl rfl hq
      (by intro h; cases h) (fun _ _ => rfl) (fun p hp => set_other m d'.pk _ p hp) (fun _ _ => rfl) ?_⟩
    refine .added i d' ?_ h2 ?_ h4 (set_self m d'.pk _) rfl
    · show eff (t.rows.set i _) d'.pk = _
      rw [eff_set_self t.rows i _ _ d'.pk h3 h1 ⟨rfl, by simp⟩]; simp
    · show (t.rows.set i _)[i]? = _
      simp [hlt]
  | update d' =>
    simp only [Op.pk] at *
    simp only [exec, update, hfind, specStep, h5, setData, ne_eq, not_true_eq_false, if_false]
    refine ⟨trivial, inv_set db0 m0 t m _ fl fl i _ _ d'.pk t.rowmap hinv h3 rfl rfl hq
      (by intro h; cases h) (fun _ _ => rfl) (fun p hp => set_other m d'.pk _ p hp) (fun _ _ => rfl) ?_⟩
    refine .added i d' ?_ h2 ?_ h4 (set_self m d'.pk _) rfl
    · show eff (t.rows.set i _) d'.pk = _
      rw [eff_set_self t.rows i _ _ d'.pk h3 h1 ⟨rfl, by simp⟩]; simp
    · show (t.rows.set i _)[i]? = _
      simp [hlt]
  | del pk =>
    simp only [Op.pk] at *
    simp only [exec, del, hfind, specStep, h5, if_true]
    refine ⟨trivial, inv_set db0 m0 t m _ fl fl i _ _ pk (assocDel t.rowmap pk) hinv h3 rfl rfl hq
      (by intro h; cases h) (fun p hp => by simp [assocGet_del, hp]) (fun p hp => set_other m pk _ p hp)
      (fun _ _ => rfl) ?_⟩
    refine .clean ?_ (by simp [assocGet_del]) (by rw [set_self, h4]) (fun h => absurd h4 h)
    show eff (t.rows.set i _) pk = _
    rw [eff_set_self t.rows i _ _ pk h3 h1 ⟨rfl, by simp⟩]; simp

/-- the key has a buffered Update row (it was stored at the last save; flag written). -/
theorem step_updated (db0 : TDB) (m0 : Spec) (t : Table) (m : Spec)
    (fl fl' : Bytes → Flag) (op : Op) (hinv : Inv db0 m0 t m fl) (hq : OKpk op.pk)
    (i : Nat) (d old : Row) (h1 : eff t.rows op.pk = [⟨.update, op.pk, d, some old⟩])
    (h2 : assocGet t.rowmap op.pk = some i) (h3 : t.rows[i]? = some ⟨.update, op.pk, d, some old⟩)
    (h4 : m0 op.pk = some old) (h5 : m op.pk = some d) (h7 : fl op.pk = .written)
    (hgood : goodStep m0 fl op = some fl') :
    (exec t op).2 = (specStep m op).2 ∧ Inv db0 m0 (exec t op).1 (specStep m op).1 fl' := by
  have hfind := findRow_cached t op.pk i _ h2 h3
  have hlt := getElem?_lt _ _ _ h3
  simp only [goodStep, h4, h7] at hgood
  cases op with
  | add d' =>
    simp only [Op.pk] at *
    simp only [Option.some.injEq] at hgood
    subst hgood
    simp only [exec, add, hfind, specStep, h5]
    exact ⟨trivial, hinv⟩
  | replace d' =>
    simp only [Op.pk] at *
    simp only [Option.some.injEq] at hgood
    subst hgood
    simp only [exec, replace, hfind, specStep, setData]
    refine ⟨trivial, inv_set db0 m0 t m _ fl fl i _ _ d'.pk t.rowmap hinv h3 rfl rfl hq
      (by intro _ h; cases h) (fun _ _ => rfl) (fun p hp => set_other m d'.pk _ p hp) (fun _ _ => rfl) ?_⟩
    refine .updated i d' old ?_ h2 ?_ h4 (set_self m d'.pk _) rfl h7
    · show eff (t.rows.set i _) d'.pk = _
      rw [eff_set_self t.rows i _ _ d'.pk h3 h1 ⟨rfl, by simp⟩]; simp
    · show (t.rows.set i _)[i]? = _
      simp [hlt]
  | update d' =>
    simp only [Op.pk] at *
    simp only [Option.some.injEq] at hgood
    subst hgood
    simp only [exec, update, hfind, specStep, h5, setData, ne_eq, not_true_eq_false, if_false]
    refine ⟨trivial, inv_set db0 m0 t m _ fl fl i _ _ d'.pk t.rowmap hinv h3 rfl rfl hq
      (by intro _ h; cases h) (fun _ _ => rfl) (fun p hp => set_other m d'.pk _ p hp) (fun _ _ => rfl) ?_⟩
    refine .updated i d' old ?_ h2 ?_ h4 (set_self m d'.pk _) rfl h7
    · show eff (t.rows.set i _) d'.pk = _
      rw [eff_set_self t.rows i _ _ d'.pk h3 h1 ⟨rfl, by simp⟩]; simp
    · show (t.rows.set i _)[i]? = _
      simp [hlt]
  | del pk =>
    simp only [Op.pk] at *
    simp only [Option.some.injEq] at hgood
    subst hgood
    simp only [exec, del, hfind, specStep, h5]
    have hne : ¬ (Ty.update = Ty.add) := by decide
    simp only [hne, if_false]
    refine ⟨trivial, hinv.db, ?_, ?_, ?_⟩
    · intro x hx
      rw [addRowCache_rows] at hx
      rcases List.mem_append.1 hx with h | h
      · rcases List.mem_or_eq_of_mem_set h with h' | h'
        · exact hinv.nosep x h'
        · rw [h']; exact hq
      · simp only [List.mem_singleton] at h; rw [h]; exact hq
    · intro x hx
      rw [addRowCache_rows] at hx
      rcases List.mem_append.1 hx with h | h
      · rcases List.mem_or_eq_of_mem_set h with h' | h'
        · exact hinv.savable x h'
        · rw [h']; intro hc; cases hc
      · simp only [List.mem_singleton] at h; rw [h]; intro hc; cases hc
    · intro p
      by_cases hp : p = pk
      · subst hp
        refine .deleted old (some old) ?_ ?_ h4 (set_self m p _) (by simp)
        · rw [addRowCache_rows, eff_append]
          show eff (t.rows.set i _) p ++ _ = _
          rw [eff_set_self t.rows i _ _ p h3 h1 ⟨rfl, by simp⟩]
          simp
        · simp [addRowCache, assocGet_del]
      · apply frame_append _ _ m0 m _ fl _ p (fun e => hp e.symm) (set_other m pk _ p hp) (by simp [hp])
        exact frame_set t i _ _ pk (assocDel t.rowmap pk) m0 m m fl fl p h3 rfl rfl (fun e => hp e.symm)
          (by simp [assocGet_del, hp]) rfl rfl (hinv.keys p)

/-- one good step keeps the simulation invariant and answers like the map. -/
theorem step_inv (db0 : TDB) (m0 : Spec) (hrep : Rep db0 m0) (t : Table) (m : Spec)
    (fl fl' : Bytes → Flag) (op : Op) (hinv : Inv db0 m0 t m fl) (hq : OKpk op.pk)
    (hgood : goodStep m0 fl op = some fl') :
    (exec t op).2 = (specStep m op).2 ∧ Inv db0 m0 (exec t op).1 (specStep m op).1 fl' := by
  cases hinv.keys op.pk with
  | clean h1 h2 h3 h4 =>
    cases hm0 : m0 op.pk with
    | none =>
      have : fl' = fl := by simp [goodStep, hm0] at hgood; exact hgood.symm
      subst this
      exact step_clean_absent db0 m0 hrep t m fl' op hinv hq h1 h2 h3 hm0
    | some old =>
      exact step_clean_present db0 m0 hrep t m fl fl' op hinv hq h1 h2 h3 old hm0
        (h4 (by rw [hm0]; simp)) hgood
  | deleted old o h1 h2 h3 h4 h5 => simp [goodStep, h3, h5] at hgood
  | added i d h1 h2 h3 h4 h5 h6 =>
    have : fl' = fl := by simp [goodStep, h4] at hgood; exact hgood.symm
    subst this
    exact step_added db0 m0 t m fl' op hinv hq i d h1 h2 h3 h4 h5
  | updated i d old h1 h2 h3 h4 h5 h6 h7 =>
    exact step_updated db0 m0 t m fl fl' op hinv hq i d old h1 h2 h3 h4 h5 h7 hgood

/-! ### runs -/

theorem inv_init (db0 : TDB) (m0 : Spec) : Inv db0 m0 { db := db0 } m0 (fun _ => .fresh) := by
  refine ⟨rfl, ?_, ?_, ?_⟩
  · intro r hr; cases hr
  · intro r hr; cases hr
  · intro p; exact .clean rfl rfl rfl (fun _ => rfl)

theorem run_inv (db0 : TDB) (m0 : Spec) (hrep : Rep db0 m0) (ops : List Op) (t : Table) (m : Spec)
    (fl : Bytes → Flag) (hinv : Inv db0 m0 t m fl) (hns : ∀ op ∈ ops, OKpk op.pk)
    (hgood : GoodRun m0 fl ops) :
    (run t ops).2 = (specRun m ops).2 ∧ ∃ fl', Inv db0 m0 (run t ops).1 (specRun m ops).1 fl' := by
  induction ops generalizing t m fl with
  | nil => exact ⟨rfl, fl, hinv⟩
  | cons op rest ih =>
    simp only [GoodRun] at hgood
    cases hg : goodStep m0 fl op with
    | none => simp [hg] at hgood
    | some fl1 =>
      simp only [hg] at hgood
      have hstep := step_inv db0 m0 hrep t m fl fl1 op hinv (hns op List.mem_cons_self) hg
      have hrest := ih (exec t op).1 (specStep m op).1 fl1 hstep.2
        (fun o ho => hns o (List.mem_cons_of_mem _ ho)) hgood
      simp only [run, specRun]
      exact ⟨by rw [hstep.1, hrest.1], hrest.2⟩

/-! ### what a save writes, seen from one key -/

theorem saveRow_of_savable (r : CRow) (h : r.ty = .update → r.old ≠ none) : saveRow r = some (rowKVs r) := by
  unfold rowKVs
  cases hty : r.ty <;> simp only [saveRow, hty]
  cases hold : r.old with
  | none => exact absurd hold (h hty)
  | some old => simp only [updateRow, hold]; split <;> rfl

theorem lastW_eff (rows : List CRow) (p key : Bytes) (hp : NoSep p) (hk : KeyOf p key)
    (hns : ∀ r ∈ rows, NoSep r.primary) :
    lastW (rows.map rowKVs).flatten key = lastW ((eff rows p).map rowKVs).flatten key := by
  induction rows with
  | nil => rfl
  | cons r rest ih =>
    have ih' := ih (fun x hx => hns x (List.mem_cons_of_mem _ hx))
    simp only [List.map_cons, List.flatten_cons, eff, List.filter_cons]
    by_cases hr : (r.primary == p && r.ty != .none) = true
    · simp only [hr, if_true, List.map_cons, List.flatten_cons]
      rw [lastW_append, lastW_append]
      simp only [eff] at ih'
      rw [ih']
    · have hr' : (r.primary == p && r.ty != .none) = false := Bool.eq_false_iff.2 hr
      have hnone : lastW (rowKVs r) key = none := by
        by_cases hprim : r.primary = p
        · have hty : r.ty = .none := by
            simp only [hprim, beq_self_eq_true, Bool.true_and, bne_iff_ne, ne_eq,
              Decidable.not_not] at hr
            exact hr
          simp [rowKVs, saveRow, hty, lastW]
        · exact rowKVs_local r p key (hns r List.mem_cons_self) hp hprim hk
      simp only [hr', Bool.false_eq_true, if_false]
      rw [lastW_append]
      simp only [eff] at ih'
      rw [ih', hnone]
      generalize lastW (List.map rowKVs (List.filter (fun r => r.primary == p && r.ty != .none) rest)).flatten key = x
      cases x <;> rfl

/-- an invariant state saves to the encoding of its map. -/
theorem inv_save (db0 : TDB) (m0 : Spec) (hrep : Rep db0 m0) (t : Table) (m : Spec) (fl : Bytes → Flag)
    (hinv : Inv db0 m0 t m fl) :
    ∃ kvs, saveKVs t = some kvs ∧ Rep (applyKVs db0 kvs) m := by
  have hsave : saveKVs t = some (delDupKey (t.rows.map rowKVs).flatten) := by
    unfold saveKVs
    rw [mapM_saveRow t.rows (fun r hr => saveRow_of_savable r (hinv.savable r hr))]
    rfl
  refine ⟨_, hsave, ?_⟩
  intro p hp
  have hview : ∀ key, KeyOf p key →
      get (applyKVs db0 (delDupKey (t.rows.map rowKVs).flatten)) key =
        overlay (lastW ((eff t.rows p).map rowKVs).flatten key) (get db0 key) := by
    intro key hk
    rw [get_applyKVs, lastW_delDupKey, lastW_eff t.rows p key hp hk (fun r hr => (hinv.nosep r hr).1)]
  cases hinv.keys p with
  | clean h1 h2 h3 h4 =>
    apply repAtG_congr (get db0) _ m0 m p _ h3.symm (hrep p hp)
    intro key hk
    rw [hview key hk, h1]; rfl
  | deleted old o h1 h2 h3 h4 h5 =>
    have hB := op_kvs_correct (get db0) m0 (.del p) hp (hrep p hp)
    simp only [rowOfSpec, Op.pk, h3] at hB
    apply repAtG_congr _ _ _ m p _ _ hB
    · intro key hk
      have hsame : rowKVs ⟨.del, p, old, o⟩ = rowKVs ⟨.del, p, old, none⟩ := by
        simp [rowKVs, saveRow, delRow]
      rw [hview key hk, h1]; simp [hsame]
    · simp [specStep, h3, Spec.set, h4]
  | added i d h1 h2 h3 h4 h5 h6 =>
    have hB := op_kvs_correct (get db0) m0 (.add d) (by rw [Op.pk, h6]; exact hp)
      (by rw [Op.pk, h6]; exact hrep p hp)
    simp only [rowOfSpec, Op.pk, h6, h4] at hB
    apply repAtG_congr _ _ _ m p _ _ hB
    · intro key hk
      rw [hview key hk, h1]; simp
    · simp [specStep, h6, h4, Spec.set, h5]
  | updated i d old h1 h2 h3 h4 h5 h6 h7 =>
    have hB := op_kvs_correct (get db0) m0 (.update d) (by rw [Op.pk, h6]; exact hp)
      (by rw [Op.pk, h6]; exact hrep p hp)
    simp only [rowOfSpec, Op.pk, h6, h4] at hB
    apply repAtG_congr _ _ _ m p _ _ hB
    · intro key hk
      rw [hview key hk, h1]; simp
    · simp [specStep, h6, h4, Spec.set, h5]

/-- an invariant state saves to a sorted db of table shape. -/
theorem inv_shape (db0 : TDB) (m0 : Spec) (t : Table) (m : Spec) (fl : Bytes → Flag)
    (hinv : Inv db0 m0 t m fl) (hs : C09.Sorted db0) (hshape : Shape db0) (kvs : List KV)
    (hk : saveKVs t = some kvs) : C09.Sorted (applyKVs db0 kvs) ∧ Shape (applyKVs db0 kvs) := by
  have hsave : saveKVs t = some (delDupKey (t.rows.map rowKVs).flatten) := by
    unfold saveKVs
    rw [mapM_saveRow t.rows (fun r hr => saveRow_of_savable r (hinv.savable r hr))]
    rfl
  rw [hsave] at hk
  have hkvs := (Option.some.inj hk).symm
  subst hkvs
  refine ⟨sorted_applyKVs db0 _ hs, ?_⟩
  intro e he
  rcases mem_applyKVs db0 _ e he with h | h
  · exact hshape e h
  · have h1 := mem_delDupKey _ _ h
    simp only [List.mem_flatten, List.mem_map] at h1
    obtain ⟨l, ⟨r, hr, hl⟩, hmem⟩ := h1
    subst hl
    have hok := hinv.nosep r hr
    rcases rowKVs_vals r e.1 e.2 hmem with h2 | ⟨ix, hix, x, h2, h3⟩
    · left; exact ⟨r.primary, h2⟩
    · right; exact ⟨ix, hix, x, r.primary, hok.1, hok.2, Prod.ext h2 h3⟩

end C10
