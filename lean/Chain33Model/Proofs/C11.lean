import Chain33Model.Model.C11
/-!
Helper lemmas for C11: observational equivalence of StateDBs, and what a transaction run inside a
db transaction (`intx = true`) can and cannot change.
-/
namespace C11
open C12 (Bytes)

theorem lookup_append {β : Type} (k : Bytes) (a b : List (Bytes × β)) :
    lookup k (a ++ b) = match lookup k a with | some v => some v | none => lookup k b := by
  induction a with
  | nil => simp [lookup]
  | cons x xs ih =>
    obtain ⟨k', v⟩ := x
    simp only [List.cons_append, lookup]
    split
    · rfl
    · exact ih

namespace StateDB

/-- what a read outside a db transaction returns: cache, then the committed store. -/
def committed (s : StateDB) (k : Bytes) : Option Val :=
  match lookup k s.cache with
  | some v => v
  | none => lookup k s.store

/-- observational equivalence: same transaction state, same committed view. -/
structure SEq (s t : StateDB) : Prop where
  intx : s.intx = t.intx
  keys : s.keys = t.keys
  txcache : s.txcache = t.txcache
  view : ∀ k, s.committed k = t.committed k

theorem SEq.refl (s : StateDB) : SEq s s := ⟨rfl, rfl, rfl, fun _ => rfl⟩
theorem SEq.symm {s t : StateDB} (h : SEq s t) : SEq t s :=
  ⟨h.intx.symm, h.keys.symm, h.txcache.symm, fun k => (h.view k).symm⟩
theorem SEq.trans {s t u : StateDB} (h : SEq s t) (g : SEq t u) : SEq s u :=
  ⟨h.intx.trans g.intx, h.keys.trans g.keys, h.txcache.trans g.txcache, fun k => (h.view k).trans (g.view k)⟩

/-- the value `get` returns, as a function of txcache and the committed view only. -/
theorem get_val (s : StateDB) (k : Bytes) :
    (s.get k).2 = match (if s.intx then lookup k s.txcache else none) with
      | some v => v
      | none => s.committed k := by
  unfold get committed
  cases h1 : (if s.intx then lookup k s.txcache else none) with
  | some v => simp
  | none =>
    cases h2 : lookup k s.cache with
    | some v => simp
    | none => cases h3 : lookup k s.store <;> simp

theorem get_fields (s : StateDB) (k : Bytes) :
    (s.get k).1.intx = s.intx ∧ (s.get k).1.keys = s.keys ∧ (s.get k).1.txcache = s.txcache ∧
      (s.get k).1.store = s.store := by
  unfold get
  cases h1 : (if s.intx then lookup k s.txcache else none) with
  | some v => simp
  | none =>
    cases h2 : lookup k s.cache with
    | some v => simp
    | none => cases h3 : lookup k s.store <;> simp

theorem get_intx (s : StateDB) (k : Bytes) : (s.get k).1.intx = s.intx := (get_fields s k).1
theorem get_keys (s : StateDB) (k : Bytes) : (s.get k).1.keys = s.keys := (get_fields s k).2.1
theorem get_txcache (s : StateDB) (k : Bytes) : (s.get k).1.txcache = s.txcache := (get_fields s k).2.2.1
theorem get_store (s : StateDB) (k : Bytes) : (s.get k).1.store = s.store := (get_fields s k).2.2.2

/-- a read never changes the committed view (a store hit is cached with the store's value). -/
theorem get_committed (s : StateDB) (k k' : Bytes) : (s.get k).1.committed k' = s.committed k' := by
  unfold get
  cases h1 : (if s.intx then lookup k s.txcache else none) with
  | some v => simp
  | none =>
    cases h2 : lookup k s.cache with
    | some v => simp
    | none =>
      cases h3 : lookup k s.store with
      | none => simp
      | some v =>
        simp only
        unfold committed
        simp only [lookup]
        by_cases hk : k = k'
        · subst hk; simp [h2, h3]
        · simp [hk]

theorem SEq.get {s t : StateDB} (h : SEq s t) (k : Bytes) :
    (s.get k).2 = (t.get k).2 ∧ SEq (s.get k).1 (t.get k).1 := by
  refine ⟨?_, ?_⟩
  · rw [get_val, get_val, h.intx, h.txcache, h.view k]
  · exact ⟨by rw [get_intx, get_intx, h.intx], by rw [get_keys, get_keys, h.keys],
      by rw [get_txcache, get_txcache, h.txcache], fun k' => by rw [get_committed, get_committed, h.view]⟩

theorem SEq.set {s t : StateDB} (h : SEq s t) (k : Bytes) (v : Val) : SEq (s.set k v) (t.set k v) := by
  have hi := h.intx
  unfold StateDB.set
  cases hs : s.intx
  · have ht : t.intx = false := by rw [← hi, hs]
    simp only [ht, Bool.false_eq_true, if_false]
    refine ⟨by simp [ht], h.keys, h.txcache, fun k' => ?_⟩
    have := h.view k'
    unfold committed at this ⊢
    simp only [lookup]
    by_cases hk : k = k'
    · simp [hk]
    · simp only [hk, if_false]; exact this
  · have ht : t.intx = true := by rw [← hi, hs]
    simp only [ht, if_true]
    exact ⟨rfl, by simp [h.keys], by simp [h.txcache], fun k' => by simpa [committed] using h.view k'⟩

theorem SEq.begin {s t : StateDB} (h : SEq s t) (fr : Bool) : SEq (s.begin fr) (t.begin fr) := by
  unfold StateDB.begin
  cases fr
  · exact ⟨rfl, rfl, h.txcache, h.view⟩
  · exact ⟨rfl, rfl, rfl, h.view⟩

theorem SEq.resetTx {s t : StateDB} (h : SEq s t) : SEq s.resetTx t.resetTx :=
  ⟨rfl, rfl, rfl, h.view⟩

theorem committed_merge (s : StateDB) (k : Bytes) :
    ({ s with cache := s.txcache ++ s.cache } : StateDB).committed k =
      match lookup k s.txcache with
      | some v => v
      | none => s.committed k := by
  unfold committed
  simp only [lookup_append]
  cases lookup k s.txcache with
  | some v => rfl
  | none => rfl

theorem SEq.commit {s t : StateDB} (h : SEq s t) (fr : Bool) : SEq (s.commit fr) (t.commit fr) := by
  have hv : ∀ k, ({ s with cache := s.txcache ++ s.cache } : StateDB).committed k =
      ({ t with cache := t.txcache ++ t.cache } : StateDB).committed k := by
    intro k; rw [committed_merge, committed_merge, h.txcache, h.view k]
  unfold StateDB.commit
  cases fr
  · exact ⟨rfl, rfl, h.txcache, hv⟩
  · exact ⟨rfl, rfl, rfl, hv⟩

theorem SEq.rollback {s t : StateDB} (h : SEq s t) : SEq s.rollback t.rollback := h.resetTx
theorem SEq.startTx {s t : StateDB} (h : SEq s t) : SEq s.startTx t.startTx :=
  ⟨h.intx, rfl, h.txcache, h.view⟩

/-- every operation a later transaction can perform on the StateDB. -/
inductive SOp
  | get (k : Bytes) | set (k : Bytes) (v : Val) | begin (fr : Bool) | commit (fr : Bool) | rollback | startTx

/-- run operations, collecting what every `get` returns. -/
def runS : StateDB → List SOp → List (Option Val)
  | _, [] => []
  | s, .get k :: ops => (s.get k).2 :: runS (s.get k).1 ops
  | s, .set k v :: ops => runS (s.set k v) ops
  | s, .begin fr :: ops => runS (s.begin fr) ops
  | s, .commit fr :: ops => runS (s.commit fr) ops
  | s, .rollback :: ops => runS s.rollback ops
  | s, .startTx :: ops => runS s.startTx ops

/-- `SEq` is a bisimulation: equivalent StateDBs answer every future read identically. -/
theorem SEq.runS_eq {s t : StateDB} (h : SEq s t) (ops : List SOp) : runS s ops = runS t ops := by
  induction ops generalizing s t with
  | nil => rfl
  | cons op ops ih =>
    cases op with
    | get k => simp only [runS]; rw [(h.get k).1, ih (h.get k).2]
    | set k v => exact ih (h.set k v)
    | begin fr => exact ih (h.begin fr)
    | commit fr => exact ih (h.commit fr)
    | rollback => exact ih h.rollback
    | startTx => exact ih h.startTx

/-- inside a db transaction nothing but reads reaches the committed part. -/
structure Pres (s s' : StateDB) : Prop where
  intx : s'.intx = true
  view : ∀ k, s'.committed k = s.committed k

theorem Pres.refl {s : StateDB} (h : s.intx = true) : Pres s s := ⟨h, fun _ => rfl⟩

theorem Pres.get {s s' : StateDB} (h : Pres s s') (k : Bytes) : Pres s (s'.get k).1 :=
  ⟨by rw [get_intx]; exact h.intx, fun k' => by rw [get_committed]; exact h.view k'⟩

theorem Pres.set {s s' : StateDB} (h : Pres s s') (k : Bytes) (v : Val) : Pres s (s'.set k v) := by
  unfold StateDB.set
  simp only [h.intx, if_true]
  exact ⟨rfl, fun k' => by simpa [committed] using h.view k'⟩

theorem Pres.startTx {s s' : StateDB} (h : Pres s s') : Pres s s'.startTx :=
  ⟨h.intx, fun k' => by simpa [committed, StateDB.startTx] using h.view k'⟩

theorem Pres.foldSet {s s' : StateDB} (h : Pres s s') (kvs : List (Bytes × Val)) :
    Pres s (kvs.foldl (fun s p => s.set p.1 p.2) s') := by
  induction kvs generalizing s' with
  | nil => exact h
  | cons p ps ih => exact ih (h.set p.1 p.2)

/-- rolling back a transaction that ran in `intx` mode restores the state at `begin`, observationally. -/
theorem Pres.rollback_SEq {s s' : StateDB} (h : Pres s s') : SEq s'.rollback s.resetTx :=
  ⟨rfl, rfl, rfl, fun k => by simpa [committed, StateDB.rollback, StateDB.resetTx] using h.view k⟩

end StateDB

open StateDB

/-! ### what program execution does to the StateDB -/

theorem runExecOps_pres (ops : List Op) (st : St) (decl : List (Bytes × Val)) (obs : List Obs) (s0 : StateDB)
    (h : Pres s0 st.sdb) : Pres s0 (runExecOps ops st decl obs).1.sdb := by
  induction ops generalizing st decl obs with
  | nil => exact h
  | cons op ops ih =>
    cases op <;> simp only [runExecOps]
    case setS k v => exact ih _ _ _ (h.set k _)
    case hidS k v => exact ih _ _ _ (h.set k _)
    case declS k v => exact ih _ _ _ h
    case getS k => exact ih _ _ _ (h.get k)
    case setL k v => exact ih _ _ _ h
    case hidL k v => exact ih _ _ _ h
    case declL k v => exact ih _ _ _ h
    case getL k => exact ih _ _ _ h
    case listL p => exact ih _ _ _ h
    case fail => exact h
    case panic => exact h

theorem runLocalOps_pres (ops : List Op) (st : St) (decl : List (Bytes × Bytes)) (obs : List Obs) (s0 : StateDB)
    (h : Pres s0 st.sdb) : Pres s0 (runLocalOps ops st decl obs).1.sdb := by
  induction ops generalizing st decl obs with
  | nil => exact h
  | cons op ops ih =>
    cases op <;> simp only [runLocalOps]
    case setS k v => exact ih _ _ _ h
    case hidS k v => exact ih _ _ _ h
    case declS k v => exact ih _ _ _ h
    case getS k => exact ih _ _ _ (h.get k)
    case setL k v => exact ih _ _ _ h
    case hidL k v => exact ih _ _ _ h
    case declL k v => exact ih _ _ _ h
    case getL k => exact ih _ _ _ h
    case listL p => exact ih _ _ _ h
    case fail => exact h
    case panic => exact h


theorem execPhase_pres (env : Env) (st : St) (tx : Tx) (s0 : StateDB) (h : Pres s0 st.sdb) :
    Pres s0 (execPhase env st tx).1.sdb := by
  unfold execPhase
  cases hd : loadDriver env tx.execer with
  | none => cases hf : env.forkLocalDBAccess <;> simpa [hf] using h
  | some d =>
    cases hf : env.forkLocalDBAccess
    · simpa [hf] using runExecOps_pres tx.execOps st [] [] s0 h
    · simp only [if_true]
      exact runExecOps_pres tx.execOps _ [] [] s0 h

/-- the states a transaction's local phase can end in keep the committed StateDB view. -/
def LocalRes.PresAll (s0 : StateDB) : LocalRes → Prop
  | .ok st _ => Pres s0 st.sdb
  | .err _ st _ => Pres s0 st.sdb
  | .blockPanic => True

theorem execLocalTx_pres (st : St) (tx : Tx) (obs : List Obs) (s0 : StateDB) (h : Pres s0 st.sdb) :
    (execLocalTx st tx obs).PresAll s0 := by
  unfold execLocalTx
  have hp := runLocalOps_pres tx.localOps st [] obs s0 h
  rcases hr : runLocalOps tx.localOps st [] obs with ⟨st1, ret, obs1⟩
  rw [hr] at hp
  cases ret with
  | panic => trivial
  | err => exact hp
  | ok decl =>
    simp only
    split
    · split
      · exact hp
      · split
        · trivial
        · split
          · exact hp
          · trivial
    · split
      · exact hp
      · exact hp

def OneRes.PresAll (s0 : StateDB) : OneRes → Prop
  | .ok _ st _ => Pres s0 st.sdb
  | .failed _ st _ => Pres s0 st.sdb
  | .blockPanic => True

theorem finishOk_pres (env : Env) (st : St) (feelog : Receipt) (kv : List (Bytes × Val)) (b : Bool)
    (obs : List Obs) (s0 : StateDB) (h : Pres s0 st.sdb) : (finishOk env st feelog kv b obs).PresAll s0 := by
  unfold finishOk
  cases hf : env.forkStateDBSet
  · simpa [OneRes.PresAll] using h
  · simp only [if_true, OneRes.PresAll]
    exact h.foldSet _

/-- whatever `execTxOne` does inside a db transaction, the committed StateDB view is untouched. -/
theorem execTxOne_pres (env : Env) (st : St) (feelog : Receipt) (tx : Tx) (s0 : StateDB)
    (h : Pres s0 st.sdb) : (execTxOne env st feelog tx).PresAll s0 := by
  unfold execTxOne
  have h1 : Pres s0 st.startTx.sdb := h.startTx
  have hp := execPhase_pres env st.startTx tx s0 h1
  rcases hr : execPhase env st.startTx tx with ⟨st1, ret, obs1⟩
  rw [hr] at hp
  cases ret with
  | err => exact hp
  | panic => exact hp
  | ok kv =>
    simp only
    split
    · exact hp
    · split
      · exact hp
      · split
        · have hl := execLocalTx_pres st1 tx obs1 s0 hp
          cases hlr : execLocalTx st1 tx obs1 with
          | blockPanic => trivial
          | err e st2 obs2 => rw [hlr] at hl; exact hl
          | ok st2 obs2 => rw [hlr] at hl; exact finishOk_pres env st2 feelog kv _ obs2 s0 hl
        · exact finishOk_pres env st1 feelog kv _ obs1 s0 hp

/-- a failing `execTxOne` returns the fee receipt with one error log appended: no KV of the driver. -/
theorem execTxOne_failed_shape (env : Env) (st : St) (feelog : Receipt) (tx : Tx) (r : Receipt) (st' : St)
    (obs : List Obs) (h : execTxOne env st feelog tx = .failed r st' obs) : ∃ e, r = addErr feelog e := by
  unfold execTxOne at h
  rcases hr : execPhase env st.startTx tx with ⟨st1, ret, obs1⟩
  rw [hr] at h
  cases ret with
  | err => simp only at h; injection h with h _ _; exact ⟨_, h.symm⟩
  | panic => simp only at h; injection h with h _ _; exact ⟨_, h.symm⟩
  | ok kv =>
    simp only at h
    split at h
    · injection h with h _ _; exact ⟨_, h.symm⟩
    · split at h
      · injection h with h _ _; exact ⟨_, h.symm⟩
      · split at h
        · cases hlr : execLocalTx st1 tx obs1 with
          | blockPanic => rw [hlr] at h; cases h
          | err e st2 obs2 => rw [hlr] at h; simp only at h; injection h with h _ _; exact ⟨_, h.symm⟩
          | ok st2 obs2 => rw [hlr] at h; simp only [finishOk] at h; cases h
        · simp only [finishOk] at h; cases h


/-- a receipt is that of a failed transaction iff it carries an error log. -/
def Receipt.failed (r : Receipt) : Bool :=
  r.logs.any (fun l => match l with | .err _ => true | _ => false)

theorem execFee_ok_not_failed (env : Env) (st : St) (tx : Tx) (feelog : Receipt) (st1 : St)
    (h : execFee env st tx = .ok feelog st1) : feelog.failed = false := by
  unfold execFee at h
  split at h
  · injection h with h _; subst h; rfl
  · simp only at h
    split at h
    · cases h
    · split at h
      · injection h with h _; subst h; rfl
      · cases h

theorem execPhase_feeOnly (env : Env) (st : St) (tx : Tx) (d : Drv) (hd : loadDriver env tx.execer = some d) :
    ∃ stX, execPhase env st (feeOnly tx) = (stX, .err, []) := by
  unfold execPhase
  have he : (feeOnly tx).execer = tx.execer := rfl
  simp only [he, hd, feeOnly, runExecOps]
  exact ⟨_, rfl⟩

theorem execTxOne_feeOnly (env : Env) (st : St) (feelog : Receipt) (tx : Tx) (d : Drv)
    (hd : loadDriver env tx.execer = some d) :
    ∃ stX, execTxOne env st feelog (feeOnly tx) = .failed (addErr feelog .fail) stX [] := by
  obtain ⟨stX, hx⟩ := execPhase_feeOnly env st.startTx tx d hd
  unfold execTxOne
  rw [hx]
  exact ⟨stX, rfl⟩

theorem startTx_keys (st : St) : st.startTx.sdb.keys = [] := rfl

theorem execPhase_none (env : Env) (st : St) (tx : Tx) (hd : loadDriver env tx.execer = none) :
    ∃ stX, execPhase env st tx = (stX, .ok [], []) ∧ stX.sdb = st.sdb := by
  unfold execPhase
  simp only [hd]
  cases env.forkLocalDBAccess <;> exact ⟨_, rfl, rfl⟩

/-- on the `none` driver `execTxOne` cannot fail. -/
theorem execTxOne_none_ok (env : Env) (st : St) (feelog : Receipt) (tx : Tx)
    (hd : loadDriver env tx.execer = none) :
    ∃ st' obs, execTxOne env st feelog tx = .ok feelog st' obs := by
  obtain ⟨stX, hx, hs⟩ := execPhase_none env st.startTx tx hd
  unfold execTxOne
  rw [hx]
  have hk : stX.sdb.keys = [] := by rw [hs]; rfl
  have hsame : isExecLocalSameTime env tx.execer = false := by unfold isExecLocalSameTime; rw [hd]
  simp only [hk, hsame, hd, C12.checkKV, List.map_nil, List.all_nil, List.any_nil, Bool.not_true,
    Bool.false_eq_true, if_false, Option.isSome_none, finishOk]
  exact ⟨_, _, rfl⟩

/-- the receipt of a successful `execTxOne` carries no error log when the fee receipt has none. -/
theorem execTxOne_ok_not_failed (env : Env) (st : St) (feelog : Receipt) (tx : Tx) (r : Receipt) (st' : St)
    (obs : List Obs) (hf : feelog.failed = false) (h : execTxOne env st feelog tx = .ok r st' obs) :
    r.failed = false := by
  have fin : ∀ st kv b o, finishOk env st feelog kv b o = .ok r st' obs → r.failed = false := by
    intro st kv b o hh
    unfold finishOk at hh
    injection hh with hh _ _
    subst hh
    cases b
    · simpa using hf
    · simp only [if_true, Receipt.failed, List.any_append, Bool.or_eq_false_iff]
      exact ⟨hf, rfl⟩
  unfold execTxOne at h
  rcases hr : execPhase env st.startTx tx with ⟨st1, ret, obs1⟩
  rw [hr] at h
  cases ret with
  | err => cases h
  | panic => cases h
  | ok kv =>
    simp only at h
    split at h
    · cases h
    · split at h
      · cases h
      · split at h
        · cases hlr : execLocalTx st1 tx obs1 with
          | blockPanic => rw [hlr] at h; cases h
          | err e st2 obs2 => rw [hlr] at h; cases h
          | ok st2 obs2 => rw [hlr] at h; simp only at h; exact fin _ _ _ _ h
        · exact fin _ _ _ _ h

theorem addErr_failed (r : Receipt) (e : Err) : (addErr r e).failed = true := by
  simp [addErr, Receipt.failed]


theorem execFee_ok_ty (env : Env) (st : St) (tx : Tx) (feelog : Receipt) (st1 : St)
    (h : execFee env st tx = .ok feelog st1) : feelog.ty = 1 := by
  unfold execFee at h
  split at h
  · injection h with h _; subst h; rfl
  · simp only at h
    split at h
    · cases h
    · split at h
      · injection h with h _; subst h; rfl
      · cases h

def MembersRes.PresAll (s0 : StateDB) : MembersRes → Prop
  | .ok _ _ st => Pres s0 st.sdb
  | .failed _ _ _ st => Pres s0 st.sdb
  | .blockPanic => True

theorem execMembers_pres (env : Env) (txs : List Tx) (st : St) (rs : List Receipt) (obs : List (List Obs))
    (s0 : StateDB) (h : Pres s0 st.sdb) : (execMembers env txs st rs obs).PresAll s0 := by
  induction txs generalizing st rs obs with
  | nil => exact h
  | cons tx txs ih =>
    unfold execMembers
    have hp := execTxOne_pres env st emptyPack tx s0 h
    cases hr : execTxOne env st emptyPack tx with
    | blockPanic => trivial
    | failed r st2 o => rw [hr] at hp; exact hp
    | ok r st2 o => rw [hr] at hp; exact ih st2 _ _ hp

theorem execMembers_failed_shape (env : Env) (txs : List Tx) (st : St) (rs : List Receipt) (obs : List (List Obs))
    (nb : Nat) (r : Receipt) (obs' : List (List Obs)) (st' : St)
    (h : execMembers env txs st rs obs = .failed nb r obs' st') : ∃ e, r = addErr emptyPack e := by
  induction txs generalizing st rs obs with
  | nil => cases h
  | cons tx txs ih =>
    unfold execMembers at h
    cases hr : execTxOne env st emptyPack tx with
    | blockPanic => rw [hr] at h; cases h
    | failed r2 st2 o =>
      rw [hr] at h
      simp only at h
      injection h with _ h2 _ _
      subst h2
      exact execTxOne_failed_shape env st emptyPack tx _ _ _ hr
    | ok r2 st2 o => rw [hr] at h; exact ih st2 _ _ h

theorem execMembers_ok_not_failed (env : Env) (txs : List Tx) (st : St) (rs : List Receipt) (obs : List (List Obs))
    (rs' : List Receipt) (obs' : List (List Obs)) (st' : St) (h0 : ∀ r ∈ rs, r.failed = false)
    (h : execMembers env txs st rs obs = .ok rs' obs' st') : ∀ r ∈ rs', r.failed = false := by
  induction txs generalizing st rs obs with
  | nil =>
    unfold execMembers at h
    injection h with h1 _ _
    subst h1; exact h0
  | cons tx txs ih =>
    unfold execMembers at h
    cases hr : execTxOne env st emptyPack tx with
    | blockPanic => rw [hr] at h; cases h
    | failed r2 st2 o => rw [hr] at h; cases h
    | ok r2 st2 o =>
      rw [hr] at h
      refine ih st2 _ _ ?_ h
      intro r hm
      rcases List.mem_append.1 hm with hm | hm
      · exact h0 r hm
      · simp only [List.mem_singleton] at hm
        subst hm
        exact execTxOne_ok_not_failed env st emptyPack tx _ _ _ rfl hr


theorem execMembers_failed_nb (env : Env) (txs : List Tx) (st : St) (rs : List Receipt) (obs : List (List Obs))
    (nb : Nat) (r : Receipt) (obs' : List (List Obs)) (st' : St)
    (h : execMembers env txs st rs obs = .failed nb r obs' st') : nb < rs.length + txs.length := by
  induction txs generalizing st rs obs with
  | nil => cases h
  | cons tx txs ih =>
    unfold execMembers at h
    cases hr : execTxOne env st emptyPack tx with
    | blockPanic => rw [hr] at h; cases h
    | failed r2 st2 o =>
      rw [hr] at h
      simp only at h
      injection h with h1 _ _ _
      subst h1
      simp
    | ok r2 st2 o =>
      rw [hr] at h
      have := ih st2 _ _ h
      simp at this ⊢
      omega


/-! ### local data: executors that do not run ExecLocal at execution time -/

theorem runExecOps_ldb_disabled (ops : List Op) (st : St) (decl : List (Bytes × Val)) (obs : List Obs)
    (hr : st.ldb.disableread = true) (hw : st.ldb.disablewrite = true) :
    (runExecOps ops st decl obs).1.ldb = st.ldb := by
  induction ops generalizing st decl obs with
  | nil => rfl
  | cons op ops ih =>
    cases op <;> simp only [runExecOps]
    case setS k v => exact ih _ _ _ hr hw
    case hidS k v => exact ih _ _ _ hr hw
    case declS k v => exact ih _ _ _ hr hw
    case getS k => exact ih _ _ _ hr hw
    case setL k v =>
      have : (st.ldb.set k v).1 = st.ldb := by simp [LocalDB.set, hw]
      rw [ih _ _ _ (by simpa [this] using hr) (by simpa [this] using hw)]; exact this
    case hidL k v =>
      have : (st.ldb.set k v).1 = st.ldb := by simp [LocalDB.set, hw]
      rw [ih _ _ _ (by simpa [this] using hr) (by simpa [this] using hw)]; exact this
    case declL k v => exact ih _ _ _ hr hw
    case getL k =>
      have : (st.ldb.get k).1 = st.ldb := by simp [LocalDB.get, hr]
      rw [ih _ _ _ (by simpa [this] using hr) (by simpa [this] using hw)]; exact this
    case listL p =>
      have : (st.ldb.list p).1 = st.ldb := by simp [LocalDB.list, hr]
      rw [ih _ _ _ (by simpa [this] using hr) (by simpa [this] using hw)]; exact this

/-- with ForkLocalDBAccess, the Exec of a driver that is not ExecLocalSameTime cannot touch the LocalDB:
the result only depends on the flags being toggled. -/
theorem execPhase_ldb_ordinary (env : Env) (st : St) (tx : Tx) (d : Drv)
    (hd : loadDriver env tx.execer = some d) (hs : d.sameTime = false) (hf : env.forkLocalDBAccess = true) :
    (execPhase env st tx).1.ldb = { st.ldb with disablewrite := false, disableread := false } := by
  unfold execPhase
  have hsame : isExecLocalSameTime env tx.execer = false := by unfold isExecLocalSameTime; rw [hd]; exact hs
  simp only [hd, hsame, hf, if_true, Bool.false_eq_true, if_false]
  rw [runExecOps_ldb_disabled tx.execOps _ [] [] rfl rfl]


theorem execTxOne_failed_state_ordinary (env : Env) (st : St) (feelog : Receipt) (tx : Tx) (r : Receipt)
    (st' : St) (obs : List Obs) (hs : isExecLocalSameTime env tx.execer = false)
    (h : execTxOne env st feelog tx = .failed r st' obs) : st' = (execPhase env st.startTx tx).1 := by
  unfold execTxOne at h
  rcases hr : execPhase env st.startTx tx with ⟨st1, ret, obs1⟩
  rw [hr] at h
  cases ret with
  | err => simp only at h; injection h with _ h _; exact h.symm
  | panic => simp only at h; injection h with _ h _; exact h.symm
  | ok kv =>
    simp only [hs, Bool.false_eq_true, if_false] at h
    split at h
    · injection h with _ h _; exact h.symm
    · split at h
      · injection h with _ h _; exact h.symm
      · simp only [finishOk] at h; cases h


/-! ### C12: what a successful `execTxOne` guarantees -/

/-- keys a program writes through the StateDB in its Exec phase (up to the first F/P). -/
def stateWrites : List Op → List Bytes
  | [] => []
  | .setS k _ :: r => k :: stateWrites r
  | .hidS k _ :: r => k :: stateWrites r
  | .fail :: _ => []
  | .panic :: _ => []
  | .declS _ _ :: r => stateWrites r
  | .getS _ :: r => stateWrites r
  | .setL _ _ :: r => stateWrites r
  | .hidL _ _ :: r => stateWrites r
  | .declL _ _ :: r => stateWrites r
  | .getL _ :: r => stateWrites r
  | .listL _ :: r => stateWrites r

theorem set_keys_intx (s : StateDB) (k : Bytes) (v : Val) (h : s.intx = true) :
    (s.set k v).keys = s.keys ++ [k] ∧ (s.set k v).intx = true := by
  unfold StateDB.set; simp [h]

theorem runExecOps_keys (ops : List Op) (st : St) (decl : List (Bytes × Val)) (obs : List Obs)
    (h : st.sdb.intx = true) :
    (runExecOps ops st decl obs).1.sdb.keys = st.sdb.keys ++ stateWrites ops := by
  induction ops generalizing st decl obs with
  | nil => simp [runExecOps, stateWrites]
  | cons op ops ih =>
    cases op <;> simp only [runExecOps, stateWrites]
    case setS k v =>
      rw [ih _ _ _ (set_keys_intx st.sdb k _ h).2, (set_keys_intx st.sdb k _ h).1]; simp
    case hidS k v =>
      rw [ih _ _ _ (set_keys_intx st.sdb k _ h).2, (set_keys_intx st.sdb k _ h).1]; simp
    case declS k v => exact ih _ _ _ h
    case getS k =>
      rw [ih _ _ _ (by simpa [get_intx] using h)]; simp [get_keys]
    case setL k v => exact ih _ _ _ h
    case hidL k v => exact ih _ _ _ h
    case declL k v => exact ih _ _ _ h
    case getL k => exact ih _ _ _ h
    case listL p => exact ih _ _ _ h
    case fail => simp
    case panic => simp

/-- the receipt KVs the synthetic driver declares: exactly the S and D instructions it executed. -/
theorem execPhase_keys (env : Env) (st : St) (tx : Tx) (d : Drv) (hd : loadDriver env tx.execer = some d)
    (h : st.sdb.intx = true) : (execPhase env st tx).1.sdb.keys = st.sdb.keys ++ stateWrites tx.execOps := by
  unfold execPhase
  simp only [hd]
  cases env.forkLocalDBAccess
  · simpa using runExecOps_keys tx.execOps st [] [] h
  · simp only [if_true]
    exact runExecOps_keys tx.execOps _ [] [] h

theorem execTxOne_ok_shape (env : Env) (st : St) (feelog : Receipt) (tx : Tx) (r : Receipt) (st' : St)
    (obs : List Obs) (h : execTxOne env st feelog tx = .ok r st' obs) :
    ∃ stE kv obsE, execPhase env st.startTx tx = (stE, .ok kv, obsE) ∧
      C12.checkKV stE.sdb.keys (kv.map (·.1)) = true ∧
      (∀ p ∈ kv, isAllowExec env p.1 tx.execer = true) ∧
      r = (if (loadDriver env tx.execer).isSome then
             { ty := 2, kv := feelog.kv ++ kv, logs := feelog.logs ++ [.user] } else feelog) ∧
      (isExecLocalSameTime env tx.execer = true → ∃ stL obsL, execLocalTx stE tx obsE = .ok stL obsL) := by
  have fin : ∀ st kv b o, finishOk env st feelog kv b o = .ok r st' obs →
      r = (if b then { ty := 2, kv := feelog.kv ++ kv, logs := feelog.logs ++ [.user] } else feelog) := by
    intro st kv b o hh
    unfold finishOk at hh
    injection hh with hh _ _
    exact hh.symm
  unfold execTxOne at h
  rcases hr : execPhase env st.startTx tx with ⟨st1, ret, obs1⟩
  rw [hr] at h
  cases ret with
  | err => cases h
  | panic => cases h
  | ok kv =>
    simp only at h
    split at h
    · cases h
    · rename_i hck
      split at h
      · cases h
      · rename_i hany
        have hck' : C12.checkKV st1.sdb.keys (kv.map (·.1)) = true := by simpa using hck
        have hall : ∀ p ∈ kv, isAllowExec env p.1 tx.execer = true := by
          intro p hp
          have := hany
          simp only [List.any_eq_true, Bool.not_eq_true', not_exists, not_and, Bool.not_eq_false] at this
          exact this p hp
        split at h
        · rename_i hsame
          cases hlr : execLocalTx st1 tx obs1 with
          | blockPanic => rw [hlr] at h; cases h
          | err e st2 obs2 => rw [hlr] at h; cases h
          | ok st2 obs2 =>
            rw [hlr] at h
            simp only at h
            exact ⟨st1, kv, obs1, rfl, hck', hall, fin _ _ _ _ h, fun _ => ⟨_, _, hlr⟩⟩
        · rename_i hsame
          exact ⟨st1, kv, obs1, rfl, hck', hall, fin _ _ _ _ h, fun hs => absurd hs hsame⟩

/-- a successful `execLocalTx`: every declared local key passed `isAllowLocalKey`. -/
theorem execLocalTx_ok_keys (st : St) (tx : Tx) (obs : List Obs) (st' : St) (obs' : List Obs)
    (h : execLocalTx st tx obs = .ok st' obs') :
    ∃ decl, (runLocalOps tx.localOps st [] obs).2.1 = .ok decl ∧
      ∀ kv ∈ decl, C12.isAllowLocalKey tx.execer kv.1 = none := by
  unfold execLocalTx at h
  rcases hr : runLocalOps tx.localOps st [] obs with ⟨st1, ret, obs1⟩
  rw [hr] at h
  cases ret with
  | panic => cases h
  | err => cases h
  | ok decl =>
    refine ⟨decl, rfl, ?_⟩
    simp only at h
    split at h
    · split at h
      · cases h
      · split at h
        · cases h
        · rename_i hany
          intro kv hkv
          simp only [List.any_eq_true, not_exists, not_and, Bool.not_eq_true, Option.isSome_eq_false_iff,
            Option.isNone_iff_eq_none] at hany
          exact hany kv hkv
    · rename_i hempty
      intro kv hkv
      simp only [Bool.not_eq_true', Bool.not_eq_false, List.isEmpty_iff] at hempty
      rw [hempty] at hkv; cases hkv

end C11
