import Chain33Model.Proofs.C11Local
/-!
C11: observational equivalence lifted through the whole block-execution function.
`StTx` relates two executor states inside a db transaction, `StIdle` between units; both are
preserved by every layer of `execBlock`, with equal receipts and observations.
-/
namespace C11
open C12 (Bytes)
open StateDB LocalDB

/-- related states inside a db transaction. -/
structure StTx (a b : St) : Prop where
  s : SEq a.sdb b.sdb
  l : TEq a.ldb b.ldb

/-- related states between units. -/
structure StIdle (a b : St) : Prop where
  s : SEq a.sdb b.sdb
  l : LEq a.ldb b.ldb
  idle : a.ldb.intx = false

namespace LocalDB

theorem TEq.flagsEq {a b : LocalDB} (h : TEq a b) :
    a.disableread = b.disableread ∧ a.disablewrite = b.disablewrite ∧ a.keys = b.keys := by
  have h1 : a.erase.disableread = b.erase.disableread := congrArg LocalDB.disableread h.er
  have h2 : a.erase.disablewrite = b.erase.disablewrite := congrArg LocalDB.disablewrite h.er
  have h3 : a.erase.keys = b.erase.keys := congrArg LocalDB.keys h.er
  exact ⟨h1, h2, h3⟩

theorem TEq.get {a b : LocalDB} (h : TEq a b) (k : Bytes) :
    (a.get k).2 = (b.get k).2 ∧ TEq (a.get k).1 (b.get k).1 := by
  obtain ⟨va, ea, ia⟩ := get_spec a h.ia k
  obtain ⟨vb, eb, ib⟩ := get_spec b h.ib k
  have hv : a.getVal k = b.getVal k := by rw [erase_eq h.er]; rfl
  have := (h.step (.get k)).2
  exact ⟨by rw [va, vb, hv], this⟩

theorem TEq.set {a b : LocalDB} (h : TEq a b) (k v : Bytes) :
    (a.set k v).2 = (b.set k v).2 ∧ TEq (a.set k v).1 (b.set k v).1 := by
  have := set_erase b a.cache k v
  rw [← erase_eq h.er] at this
  exact ⟨this.2, (h.step (.set k v)).2⟩

theorem TEq.list {a b : LocalDB} (h : TEq a b) (p : Bytes) :
    (a.list p).2 = (b.list p).2 ∧ TEq (a.list p).1 (b.list p).1 := by
  have := list_erase b a.cache p
  rw [← erase_eq h.er] at this
  exact ⟨this.2, (h.step (.list p)).2⟩

end LocalDB

theorem runExecOps_congr (ops : List Op) (a b : St) (decl : List (Bytes × Val)) (obs : List Obs)
    (h : StTx a b) :
    (runExecOps ops a decl obs).2 = (runExecOps ops b decl obs).2 ∧
      StTx (runExecOps ops a decl obs).1 (runExecOps ops b decl obs).1 := by
  induction ops generalizing a b decl obs with
  | nil => exact ⟨rfl, h⟩
  | cons op ops ih =>
    cases op <;> simp only [runExecOps]
    case setS k v => exact ih _ _ _ _ ⟨h.s.set k _, h.l⟩
    case hidS k v => exact ih _ _ _ _ ⟨h.s.set k _, h.l⟩
    case declS k v => exact ih _ _ _ _ h
    case getS k =>
      obtain ⟨e, s'⟩ := h.s.get k
      rw [e]; exact ih _ _ _ _ ⟨s', h.l⟩
    case setL k v =>
      obtain ⟨e, l'⟩ := h.l.set k v
      rw [e]; exact ih _ _ _ _ ⟨h.s, l'⟩
    case hidL k v =>
      obtain ⟨e, l'⟩ := h.l.set k v
      rw [e]; exact ih _ _ _ _ ⟨h.s, l'⟩
    case declL k v => exact ih _ _ _ _ h
    case getL k =>
      obtain ⟨e, l'⟩ := h.l.get k
      rw [e]; exact ih _ _ _ _ ⟨h.s, l'⟩
    case listL p =>
      obtain ⟨e, l'⟩ := h.l.list p
      rw [e]; exact ih _ _ _ _ ⟨h.s, l'⟩
    case fail => exact ⟨by trivial, h⟩
    case panic => exact ⟨by trivial, h⟩

theorem runLocalOps_congr (ops : List Op) (a b : St) (decl : List (Bytes × Bytes)) (obs : List Obs)
    (h : StTx a b) :
    (runLocalOps ops a decl obs).2 = (runLocalOps ops b decl obs).2 ∧
      StTx (runLocalOps ops a decl obs).1 (runLocalOps ops b decl obs).1 := by
  induction ops generalizing a b decl obs with
  | nil => exact ⟨rfl, h⟩
  | cons op ops ih =>
    cases op <;> simp only [runLocalOps]
    case setS k v => exact ih _ _ _ _ h
    case hidS k v => exact ih _ _ _ _ h
    case declS k v => exact ih _ _ _ _ h
    case getS k =>
      obtain ⟨e, s'⟩ := h.s.get k
      rw [e]; exact ih _ _ _ _ ⟨s', h.l⟩
    case setL k v =>
      obtain ⟨e, l'⟩ := h.l.set k v
      rw [e]; exact ih _ _ _ _ ⟨h.s, l'⟩
    case hidL k v =>
      obtain ⟨e, l'⟩ := h.l.set k v
      rw [e]; exact ih _ _ _ _ ⟨h.s, l'⟩
    case declL k v => exact ih _ _ _ _ h
    case getL k =>
      obtain ⟨e, l'⟩ := h.l.get k
      rw [e]; exact ih _ _ _ _ ⟨h.s, l'⟩
    case listL p =>
      obtain ⟨e, l'⟩ := h.l.list p
      rw [e]; exact ih _ _ _ _ ⟨h.s, l'⟩
    case fail => exact ⟨by trivial, h⟩
    case panic => exact ⟨by trivial, h⟩

/-- `setAll` on related LocalDBs: both panic, or both succeed in related states. -/
def OptRel (x y : Option LocalDB) : Prop :=
  match x, y with
  | some a, some b => TEq a b
  | none, none => True
  | _, _ => False

theorem setAll_congr (decl : List (Bytes × Bytes)) (a b : LocalDB) (h : TEq a b) :
    OptRel (setAll decl a) (setAll decl b) := by
  induction decl generalizing a b with
  | nil => exact h
  | cons kv r ih =>
    unfold setAll
    obtain ⟨e, l'⟩ := h.set kv.1 kv.2
    rcases ha : a.set kv.1 kv.2 with ⟨a1, ra⟩
    rcases hb : b.set kv.1 kv.2 with ⟨b1, rb⟩
    rw [ha, hb] at e l'
    simp only at e l'
    subst e
    cases ra with
    | ok u => exact ih a1 b1 l'
    | error e => trivial


def LocalRes.Rel : LocalRes → LocalRes → Prop
  | .ok a oa, .ok b ob => oa = ob ∧ StTx a b
  | .err ea a oa, .err eb b ob => ea = eb ∧ oa = ob ∧ StTx a b
  | .blockPanic, .blockPanic => True
  | _, _ => False

theorem execLocalTx_congr (a b : St) (tx : Tx) (obs : List Obs) (h : StTx a b) :
    (execLocalTx a tx obs).Rel (execLocalTx b tx obs) := by
  unfold execLocalTx
  obtain ⟨e, h'⟩ := runLocalOps_congr tx.localOps a b [] obs h
  rcases ha : runLocalOps tx.localOps a [] obs with ⟨a1, ra, oa⟩
  rcases hb : runLocalOps tx.localOps b [] obs with ⟨b1, rb, ob⟩
  rw [ha, hb] at e h'
  simp only at e h'
  injection e with e1 e2
  subst e1; subst e2
  cases ra with
  | panic => trivial
  | err => exact ⟨rfl, rfl, h'⟩
  | ok decl =>
    simp only
    rw [← h'.l.flagsEq.2.2]
    by_cases c1 : (!decl.isEmpty) = true
    · simp only [c1, if_true]
      by_cases c2 : (!C12.checkKV a1.ldb.keys (decl.map (·.1))) = true
      · simp only [c2, if_true]; exact ⟨rfl, rfl, h'⟩
      · simp only [c2, if_false]
        by_cases c3 : decl.any (fun kv => (C12.isAllowLocalKey tx.execer kv.1).isSome) = true
        · simp only [c3, if_true]; trivial
        · simp only [c3, if_false]
          have := setAll_congr decl a1.ldb b1.ldb h'.l
          cases hsa : setAll decl a1.ldb with
          | none =>
            cases hsb : setAll decl b1.ldb with
            | none => trivial
            | some lb => rw [hsa, hsb] at this; exact this.elim
          | some la =>
            cases hsb : setAll decl b1.ldb with
            | none => rw [hsa, hsb] at this; exact this.elim
            | some lb =>
              rw [hsa, hsb] at this
              exact ⟨rfl, ⟨h'.s, this⟩⟩
    · simp only [c1, if_false]
      by_cases c4 : (!a1.ldb.keys.isEmpty) = true
      · simp only [c4, if_true]; exact ⟨rfl, rfl, h'⟩
      · simp only [c4, if_false]; exact ⟨rfl, h'⟩

theorem StTx.flags {a b : St} (h : StTx a b) (dr dw : Bool) :
    StTx { a with ldb := { a.ldb with disablewrite := dw, disableread := dr } }
         { b with ldb := { b.ldb with disablewrite := dw, disableread := dr } } :=
  ⟨h.s, (h.l.step (.flags dr dw)).2⟩

theorem execPhase_congr (env : Env) (a b : St) (tx : Tx) (h : StTx a b) :
    (execPhase env a tx).2 = (execPhase env b tx).2 ∧ StTx (execPhase env a tx).1 (execPhase env b tx).1 := by
  unfold execPhase
  have hdr := h.l.flagsEq.1
  cases hf : env.forkLocalDBAccess
  · simp only [Bool.false_eq_true, if_false]
    cases hd : loadDriver env tx.execer with
    | none => exact ⟨rfl, h⟩
    | some d => exact runExecOps_congr tx.execOps a b [] [] h
  · simp only [if_true]
    cases hs : isExecLocalSameTime env tx.execer
    · simp only [Bool.false_eq_true, if_false]
      cases hd : loadDriver env tx.execer with
      | none => exact ⟨by trivial, (h.flags true true).flags false false⟩
      | some d =>
        simp only
        obtain ⟨e, h2⟩ := runExecOps_congr tx.execOps _ _ [] [] (h.flags true true)
        exact ⟨e, h2.flags false false⟩
    · simp only [if_true]
      rw [hdr]
      cases hd : loadDriver env tx.execer with
      | none => exact ⟨by trivial, (h.flags b.ldb.disableread true).flags b.ldb.disableread false⟩
      | some d =>
        simp only
        obtain ⟨e, h2⟩ := runExecOps_congr tx.execOps _ _ [] [] (h.flags b.ldb.disableread true)
        refine ⟨e, ?_⟩
        rw [h2.l.flagsEq.1]
        exact h2.flags _ false

def OneRes.Rel : OneRes → OneRes → Prop
  | .ok ra a oa, .ok rb b ob => ra = rb ∧ oa = ob ∧ StTx a b
  | .failed ra a oa, .failed rb b ob => ra = rb ∧ oa = ob ∧ StTx a b
  | .blockPanic, .blockPanic => True
  | _, _ => False

theorem SEq.foldSet {s t : StateDB} (h : SEq s t) (kvs : List (Bytes × Val)) :
    SEq (kvs.foldl (fun s p => s.set p.1 p.2) s) (kvs.foldl (fun s p => s.set p.1 p.2) t) := by
  induction kvs generalizing s t with
  | nil => exact h
  | cons p ps ih => exact ih (h.set p.1 p.2)

theorem finishOk_congr (env : Env) (a b : St) (feelog : Receipt) (kv : List (Bytes × Val)) (sy : Bool)
    (obs : List Obs) (h : StTx a b) :
    (finishOk env a feelog kv sy obs).Rel (finishOk env b feelog kv sy obs) := by
  unfold finishOk
  cases env.forkStateDBSet
  · exact ⟨rfl, rfl, h⟩
  · exact ⟨rfl, rfl, ⟨SEq.foldSet h.s _, h.l⟩⟩

theorem execTxOne_congr (env : Env) (a b : St) (feelog : Receipt) (tx : Tx) (h : StTx a b) :
    (execTxOne env a feelog tx).Rel (execTxOne env b feelog tx) := by
  unfold execTxOne
  have h0 : StTx a.startTx b.startTx := ⟨h.s.startTx, (h.l.step .startTx).2⟩
  obtain ⟨e, h1⟩ := execPhase_congr env a.startTx b.startTx tx h0
  rcases ha : execPhase env a.startTx tx with ⟨a1, ra, oa⟩
  rcases hb : execPhase env b.startTx tx with ⟨b1, rb, ob⟩
  rw [ha, hb] at e h1
  simp only at e h1
  injection e with e1 e2
  subst e1; subst e2
  cases ra with
  | err => exact ⟨rfl, rfl, h1⟩
  | panic => exact ⟨rfl, rfl, h1⟩
  | ok kv =>
    simp only
    rw [← h1.s.keys]
    by_cases c1 : (!C12.checkKV a1.sdb.keys (kv.map (·.1))) = true
    · simp only [c1, if_true]; exact ⟨rfl, rfl, h1⟩
    · simp only [c1, if_false]
      by_cases c2 : kv.any (fun p => !isAllowExec env p.1 tx.execer) = true
      · simp only [c2, if_true]; exact ⟨rfl, rfl, h1⟩
      · simp only [c2, if_false]
        by_cases c3 : isExecLocalSameTime env tx.execer = true
        · simp only [c3, if_true]
          have hl := execLocalTx_congr a1 b1 tx oa h1
          cases hla : execLocalTx a1 tx oa with
          | blockPanic =>
            cases hlb : execLocalTx b1 tx oa with
            | blockPanic => trivial
            | err e s o => rw [hla, hlb] at hl; exact hl.elim
            | ok s o => rw [hla, hlb] at hl; exact hl.elim
          | err ea sa oa' =>
            cases hlb : execLocalTx b1 tx oa with
            | blockPanic => rw [hla, hlb] at hl; exact hl.elim
            | ok s o => rw [hla, hlb] at hl; exact hl.elim
            | err eb sb ob' =>
              rw [hla, hlb] at hl
              obtain ⟨x1, x2, x3⟩ := hl
              subst x1; subst x2
              exact ⟨rfl, rfl, x3⟩
          | ok sa oa' =>
            cases hlb : execLocalTx b1 tx oa with
            | blockPanic => rw [hla, hlb] at hl; exact hl.elim
            | err e s o => rw [hla, hlb] at hl; exact hl.elim
            | ok sb ob' =>
              rw [hla, hlb] at hl
              obtain ⟨x2, x3⟩ := hl
              subst x2
              exact finishOk_congr env sa sb feelog kv _ oa' x3
        · simp only [c3, if_false]
          exact finishOk_congr env a1 b1 feelog kv _ oa h1


theorem OneRes.rel_cases {x y : OneRes} (h : x.Rel y) :
    (x = .blockPanic ∧ y = .blockPanic) ∨
    (∃ r a b o, x = .ok r a o ∧ y = .ok r b o ∧ StTx a b) ∨
    (∃ r a b o, x = .failed r a o ∧ y = .failed r b o ∧ StTx a b) := by
  cases x <;> cases y <;> simp only [OneRes.Rel] at h
  · obtain ⟨h1, h2, h3⟩ := h; subst h1; subst h2; exact Or.inr (Or.inl ⟨_, _, _, _, rfl, rfl, h3⟩)
  · obtain ⟨h1, h2, h3⟩ := h; subst h1; subst h2; exact Or.inr (Or.inr ⟨_, _, _, _, rfl, rfl, h3⟩)
  · exact Or.inl ⟨rfl, rfl⟩

theorem StIdle.begin {a b : St} (env : Env) (hfr : env.forkExecRollback = true) (h : StIdle a b) :
    StTx (a.begin env) (b.begin env) := by
  simp only [St.begin, hfr, if_true]
  exact ⟨h.s.begin true, h.l.begin h.idle⟩

theorem StTx.rollback {a b : St} (env : Env) (hfr : env.forkExecRollback = true) (h : StTx a b) :
    StIdle (a.rollback env) (b.rollback env) := by
  simp only [St.rollback, hfr, if_true]
  exact ⟨h.s.rollback, h.l.rollback.1, h.l.rollback.2⟩

theorem StTx.commit {a b : St} (env : Env) (hfr : env.forkExecRollback = true) (h : StTx a b) :
    StIdle (a.commit env) (b.commit env) := by
  simp only [St.commit, hfr, if_true]
  exact ⟨h.s.commit true, h.l.commit.1, h.l.commit.2⟩

/-- `execFee` on related idle states: same outcome, related states. -/
theorem execFee_congr (env : Env) (a b : St) (tx : Tx) (h : StIdle a b) :
    (execFee env a tx = .panic ∧ execFee env b tx = .panic) ∨
    (∃ f a' b', execFee env a tx = .ok f a' ∧ execFee env b tx = .ok f b' ∧ StIdle a' b') ∨
    (∃ e a' b', execFee env a tx = .err e a' ∧ execFee env b tx = .err e b' ∧ StIdle a' b') := by
  unfold execFee
  cases env.feeOn
  · exact Or.inr (Or.inl ⟨_, _, _, rfl, rfl, h⟩)
  · simp only [Bool.not_true, Bool.false_eq_true, if_false]
    obtain ⟨e, hs⟩ := h.s.get tx.acctKey
    rcases ha : a.sdb.get tx.acctKey with ⟨sa, va⟩
    rcases hb : b.sdb.get tx.acctKey with ⟨sb, vb⟩
    rw [ha, hb] at e hs
    simp only at e hs
    subst e
    have hi : StIdle { a with sdb := sa } { b with sdb := sb } := ⟨hs, h.l, h.idle⟩
    cases va with
    | none =>
      simp only
      by_cases c : (0 : Int) - tx.fee ≥ 0
      · simp only [c, if_true]
        exact Or.inr (Or.inl ⟨_, _, _, rfl, rfl, ⟨hs.set _ _, h.l, h.idle⟩⟩)
      · simp only [c, if_false]
        exact Or.inr (Or.inr ⟨_, _, _, rfl, rfl, hi⟩)
    | some v =>
      cases v with
      | raw r => exact Or.inl ⟨rfl, rfl⟩
      | acct bal =>
        simp only
        by_cases c : bal - tx.fee ≥ 0
        · simp only [c, if_true]
          exact Or.inr (Or.inl ⟨_, _, _, rfl, rfl, ⟨hs.set _ _, h.l, h.idle⟩⟩)
        · simp only [c, if_false]
          exact Or.inr (Or.inr ⟨_, _, _, rfl, rfl, hi⟩)

def UnitRes.Rel : UnitRes → UnitRes → Prop
  | .done ra oa a, .done rb ob b => ra = rb ∧ oa = ob ∧ StIdle a b
  | .blockPanic, .blockPanic => True
  | _, _ => False

theorem execTx_congr (env : Env) (hfr : env.forkExecRollback = true) (a b : St) (tx : Tx) (h : StIdle a b) :
    (execTx env a tx).Rel (execTx env b tx) := by
  unfold execTx
  by_cases c : (!C12.isAllowExecName env.allowUser (realExecName env tx.execer) tx.execer) = true
  · simp only [c, if_true]; exact ⟨rfl, rfl, h⟩
  · simp only [c, if_false]
    rcases execFee_congr env a b tx h with ⟨e1, e2⟩ | ⟨f, a', b', e1, e2, h'⟩ | ⟨e, a', b', e1, e2, h'⟩
    · rw [e1, e2]; trivial
    · rw [e1, e2]
      simp only
      rcases OneRes.rel_cases (execTxOne_congr env _ _ f tx (h'.begin env hfr)) with
        ⟨x1, x2⟩ | ⟨r, sa, sb, o, x1, x2, hh⟩ | ⟨r, sa, sb, o, x1, x2, hh⟩
      · rw [x1, x2]; trivial
      · rw [x1, x2]; exact ⟨rfl, rfl, hh.commit env hfr⟩
      · rw [x1, x2]; exact ⟨rfl, rfl, hh.rollback env hfr⟩
    · rw [e1, e2]; exact ⟨rfl, rfl, h'⟩

def MembersRes.Rel : MembersRes → MembersRes → Prop
  | .ok ra oa a, .ok rb ob b => ra = rb ∧ oa = ob ∧ StTx a b
  | .failed na ra oa a, .failed nb rb ob b => na = nb ∧ ra = rb ∧ oa = ob ∧ StTx a b
  | .blockPanic, .blockPanic => True
  | _, _ => False

theorem execMembers_congr (env : Env) (txs : List Tx) (a b : St) (rs : List Receipt) (obs : List (List Obs))
    (h : StTx a b) : (execMembers env txs a rs obs).Rel (execMembers env txs b rs obs) := by
  induction txs generalizing a b rs obs with
  | nil => exact ⟨rfl, rfl, h⟩
  | cons tx txs ih =>
    unfold execMembers
    rcases OneRes.rel_cases (execTxOne_congr env a b emptyPack tx h) with
      ⟨x1, x2⟩ | ⟨r, sa, sb, o, x1, x2, hh⟩ | ⟨r, sa, sb, o, x1, x2, hh⟩
    · rw [x1, x2]; trivial
    · rw [x1, x2]; exact ih sa sb _ _ hh
    · rw [x1, x2]; exact ⟨rfl, rfl, rfl, hh⟩

theorem MembersRes.rel_cases {x y : MembersRes} (h : x.Rel y) :
    (x = .blockPanic ∧ y = .blockPanic) ∨
    (∃ r o a b, x = .ok r o a ∧ y = .ok r o b ∧ StTx a b) ∨
    (∃ n r o a b, x = .failed n r o a ∧ y = .failed n r o b ∧ StTx a b) := by
  cases x <;> cases y <;> simp only [MembersRes.Rel] at h
  · obtain ⟨h1, h2, h3⟩ := h; subst h1; subst h2; exact Or.inr (Or.inl ⟨_, _, _, _, rfl, rfl, h3⟩)
  · obtain ⟨h0, h1, h2, h3⟩ := h; subst h0; subst h1; subst h2; exact Or.inr (Or.inr ⟨_, _, _, _, _, rfl, rfl, h3⟩)
  · exact Or.inl ⟨rfl, rfl⟩

theorem execTxGroup_congr (env : Env) (hfr : env.forkExecRollback = true) (a b : St) (txs : List Tx)
    (h : StIdle a b) : (execTxGroup env a txs).Rel (execTxGroup env b txs) := by
  unfold execTxGroup
  cases txs with
  | nil => exact ⟨rfl, rfl, h⟩
  | cons head members =>
    simp only
    rcases execFee_congr env a b head h with ⟨e1, e2⟩ | ⟨f, a', b', e1, e2, h'⟩ | ⟨e, a', b', e1, e2, h'⟩
    · rw [e1, e2]; trivial
    · rw [e1, e2]
      simp only
      rcases OneRes.rel_cases (execTxOne_congr env _ _ f head (h'.begin env hfr)) with
        ⟨x1, x2⟩ | ⟨r, sa, sb, o, x1, x2, hh⟩ | ⟨r, sa, sb, o, x1, x2, hh⟩
      · rw [x1, x2]; trivial
      · rw [x1, x2]
        simp only
        rcases MembersRes.rel_cases (execMembers_congr env members sa sb [] [] hh) with
          ⟨y1, y2⟩ | ⟨r', o', ma, mb, y1, y2, hm⟩ | ⟨n, r', o', ma, mb, y1, y2, hm⟩
        · rw [y1, y2]; trivial
        · rw [y1, y2]; exact ⟨rfl, rfl, hm.commit env hfr⟩
        · rw [y1, y2]; exact ⟨rfl, rfl, hm.rollback env hfr⟩
      · rw [x1, x2]; exact ⟨rfl, rfl, hh.rollback env hfr⟩
    · rw [e1, e2]; exact ⟨rfl, rfl, h'⟩

theorem execUnit_congr (env : Env) (hfr : env.forkExecRollback = true) (a b : St) (u : TxUnit)
    (h : StIdle a b) : (execUnit env a u).Rel (execUnit env b u) := by
  cases u with
  | single tx => exact execTx_congr env hfr a b tx h
  | group txs => exact execTxGroup_congr env hfr a b txs h

/-- receipts and observations of a block run (the final state dropped). -/
def blockView (r : Option (List Receipt × List (List Obs) × St)) : Option (List Receipt × List (List Obs)) :=
  r.map (fun x => (x.1, x.2.1))

/-- **related states are indistinguishable by any continuation of the block**: every later unit produces
the same receipts and every later transaction observes the same state and local reads. -/
theorem execBlock_congr (env : Env) (hfr : env.forkExecRollback = true) (us : List TxUnit) (a b : St)
    (rs : List Receipt) (obs : List (List Obs)) (h : StIdle a b) :
    blockView (execBlock env us a rs obs) = blockView (execBlock env us b rs obs) := by
  induction us generalizing a b rs obs with
  | nil => rfl
  | cons u us ih =>
    unfold execBlock
    have hu := execUnit_congr env hfr a b u h
    cases ha : execUnit env a u with
    | blockPanic =>
      cases hb : execUnit env b u with
      | blockPanic => rfl
      | done r o s => rw [ha, hb] at hu; exact hu.elim
    | done ra oa sa =>
      cases hb : execUnit env b u with
      | blockPanic => rw [ha, hb] at hu; exact hu.elim
      | done rb ob sb =>
        rw [ha, hb] at hu
        obtain ⟨x1, x2, x3⟩ := hu
        subst x1; subst x2
        exact ih sa sb _ _ x3

end C11
