import Chain33Model.Proofs.C11
/-!
C11, local data: the coherence invariant of `executor.LocalDB` during block execution, and the
observational equivalence used by `local_rollback_exact`.
-/
namespace C11
open C12 (Bytes)

def fkv (p : Bytes × Bytes) : Bytes × Option Bytes := (p.1, optBytes p.2)

theorem lookup_map_fkv (k : Bytes) (l : List (Bytes × Bytes)) :
    lookup k (l.map fkv) = (lookup k l).map optBytes := by
  induction l with
  | nil => rfl
  | cons x xs ih =>
    obtain ⟨k', v⟩ := x
    simp only [List.map_cons, fkv, lookup]
    split
    · rfl
    · exact ih

theorem lookup_append_none {β : Type} (k : Bytes) (a b : List (Bytes × β)) (h : lookup k (a ++ b) = none) :
    lookup k a = none ∧ lookup k b = none := by
  rw [lookup_append] at h
  cases ha : lookup k a with
  | some v => rw [ha] at h; cases h
  | none => rw [ha] at h; exact ⟨rfl, h⟩

namespace Remote

/-- the writes of the open remote transaction, newest first. -/
def rtx (r : Remote) : List (Bytes × Bytes) :=
  match r.txcache with
  | some t => t
  | none => []

/-- the committed view: memdb cache over the main db, deletion markers read as absent. -/
def cview (r : Remote) (k : Bytes) : Option Bytes :=
  match lookup k r.cache with
  | some v => optBytes v
  | none =>
    match lookup k r.main with
    | some v => optBytes v
    | none => none

theorem set_intx (r : Remote) (k v : Bytes) (h : r.intx = true) :
    r.set k v = { r with txcache := some ((k, v) :: r.rtx) } := by
  unfold Remote.set rtx
  simp only [h, if_true]
  cases r.txcache <;> rfl

theorem foldl_set_intx (x : Bytes × Bytes) (xs : List (Bytes × Bytes)) (r : Remote) (h : r.intx = true) :
    (x :: xs).foldl (fun r kv => r.set kv.1 kv.2) r = { r with txcache := some ((x :: xs).reverse ++ r.rtx) } := by
  induction xs generalizing x r with
  | nil => simp [set_intx r x.1 x.2 h]
  | cons y ys ih =>
    rw [List.foldl_cons, set_intx r x.1 x.2 h]
    rw [ih y _ (by simpa using h)]
    simp [rtx]

end Remote

namespace LocalDB

/-- the LocalDB with its read cache forgotten. -/
def erase (l : LocalDB) : LocalDB := { l with cache := [] }

/-- block-execution invariant of `executor.LocalDB` over its remote store. -/
structure Inv (l : LocalDB) : Prop where
  idle : l.intx = false → l.txcache = [] ∧ l.kvs = [] ∧ l.hasbegin = false
  rIdle : l.hasbegin = false → l.remote.intx = false ∧ l.remote.txcache = none
  rBusy : l.hasbegin = true → l.remote.intx = true
  tx : l.intx = true → l.txcache = (l.kvs.reverse ++ l.remote.rtx).map fkv
  coh : ∀ k x, lookup k l.cache = some x → x = l.remote.cview k
  txkvs : l.txkvs = 0

def retOf (v : Option Bytes) : Except DbErr Bytes :=
  match v with
  | some b => .ok b
  | none => .error .notFound

/-- what `Get` answers, as a function of everything but the read cache. -/
def getVal (l : LocalDB) (k : Bytes) : Except DbErr Bytes :=
  if l.disableread then .error .disableRead
  else match (if l.intx then lookup k l.txcache else none) with
    | some v => retOf v
    | none => retOf (l.remote.cview k)

theorem remote_get_cview (l : LocalDB) (h : Inv l) (k : Bytes)
    (hk : (if l.intx then lookup k l.txcache else none) = none) : l.remote.get k = l.remote.cview k := by
  have hin : l.remote.intx = true → ∀ t, l.remote.txcache = some t → lookup k t = none := by
    intro hri t ht
    cases hb : l.hasbegin
    · rw [(h.rIdle hb).1] at hri; cases hri
    · have hi : l.intx = true := by
        cases hi : l.intx
        · have := (h.idle hi).2.2; rw [hb] at this; cases this
        · rfl
      rw [hi] at hk
      simp only [if_true] at hk
      rw [h.tx hi, lookup_map_fkv] at hk
      have hn : lookup k (l.kvs.reverse ++ l.remote.rtx) = none := by
        cases hl : lookup k (l.kvs.reverse ++ l.remote.rtx) with
        | none => rfl
        | some v => rw [hl] at hk; cases hk
      have := (lookup_append_none k _ _ hn).2
      unfold Remote.rtx at this
      rw [ht] at this
      exact this
  unfold Remote.get Remote.cview
  cases hri : l.remote.intx
  · simp only [Bool.false_eq_true, if_false]
    cases lookup k l.remote.cache with
    | some v => rfl
    | none => cases lookup k l.remote.main <;> rfl
  · cases hrt : l.remote.txcache with
    | none =>
      simp only [if_true]
      cases lookup k l.remote.cache with
      | some v => rfl
      | none => cases lookup k l.remote.main <;> rfl
    | some t =>
      simp only [if_true, hin hri t hrt]
      cases lookup k l.remote.cache with
      | some v => rfl
      | none => cases lookup k l.remote.main <;> rfl

theorem get_spec (l : LocalDB) (h : Inv l) (k : Bytes) :
    (l.get k).2 = l.getVal k ∧ (l.get k).1.erase = l.erase ∧ Inv (l.get k).1 := by
  unfold LocalDB.get getVal
  by_cases hr : l.disableread = true
  · rw [if_pos hr, if_pos hr]
    exact ⟨rfl, rfl, h⟩
  · rw [if_neg hr, if_neg hr]
    cases h1 : (if l.intx then lookup k l.txcache else none) with
    | some v => cases v <;> exact ⟨rfl, rfl, h⟩
    | none =>
      simp only
      cases h2 : lookup k l.cache with
      | some v =>
        have := h.coh k v h2
        subst this
        simp only
        cases l.remote.cview k <;> exact ⟨rfl, rfl, h⟩
      | none =>
        simp only
        rw [remote_get_cview l h k h1]
        have hinv : ∀ v, v = l.remote.cview k → Inv { l with cache := (k, v) :: l.cache } := by
          intro v hv
          refine ⟨h.idle, h.rIdle, h.rBusy, h.tx, ?_, h.txkvs⟩
          intro k' x hx
          simp only [lookup] at hx
          split at hx
          · rename_i hkk; subst hkk; injection hx with hx; rw [← hx]; exact hv
          · exact h.coh k' x hx
        cases hc : l.remote.cview k with
        | none => exact ⟨rfl, rfl, hinv none hc.symm⟩
        | some b => exact ⟨rfl, rfl, hinv (some b) hc.symm⟩


/-- the fields a database transaction does not touch: the committed part of the remote store. -/
structure Frame (l0 l : LocalDB) : Prop where
  main : l.remote.main = l0.remote.main
  rcache : l.remote.cache = l0.remote.cache
  intx : l.intx = true

theorem cview_congr {r r' : Remote} (hm : r'.main = r.main) (hc : r'.cache = r.cache) (k : Bytes) :
    r'.cview k = r.cview k := by
  unfold Remote.cview; rw [hm, hc]

theorem set_inv (l : LocalDB) (h : Inv l) (hi : l.intx = true) (k v : Bytes) :
    Inv (l.set k v).1 ∧ (l.set k v).1.intx = true ∧ (l.set k v).1.remote = l.remote ∧
      (l.set k v).1.disableread = l.disableread ∧ (l.set k v).1.disablewrite = l.disablewrite := by
  unfold LocalDB.set
  by_cases hw : l.disablewrite = true
  · rw [if_pos hw]; exact ⟨h, hi, rfl, rfl, rfl⟩
  · rw [if_neg hw]
    simp only [hi, if_true]
    refine ⟨⟨?_, h.rIdle, h.rBusy, ?_, h.coh, h.txkvs⟩, by trivial, by trivial, by trivial, by trivial⟩
    · intro hh; cases hh
    · intro _
      show (k, optBytes v) :: l.txcache = ((l.kvs ++ [(k, v)]).reverse ++ l.remote.rtx).map fkv
      rw [h.tx hi]; simp [fkv]

theorem save_inv (l : LocalDB) (h : Inv l) (hi : l.intx = true) :
    Inv l.save ∧ l.save.intx = true ∧ l.save.remote.main = l.remote.main ∧
      l.save.remote.cache = l.remote.cache ∧ l.save.disableread = l.disableread ∧
      l.save.disablewrite = l.disablewrite ∧ l.save.kvs = [] := by
  unfold LocalDB.save
  cases hk : l.kvs with
  | nil => simp only [List.isEmpty_nil, if_true]; exact ⟨h, hi, by trivial, by trivial, by trivial, by trivial, hk⟩
  | cons x xs =>
    simp only [List.isEmpty_cons, Bool.false_eq_true, if_false]
    cases hb : l.hasbegin
    · have hr := h.rIdle hb
      simp only [Bool.false_eq_true, if_false]
      rw [Remote.foldl_set_intx x xs l.remote.begin rfl]
      refine ⟨⟨?_, ?_, ?_, ?_, ?_, by trivial⟩, hi, by trivial, by trivial, by trivial, by trivial, by trivial⟩
      · intro hh; rw [hi] at hh; cases hh
      · intro hh; cases hh
      · intro _; rfl
      · intro _
        show l.txcache = (([] : List (Bytes × Bytes)).reverse ++ ((x :: xs).reverse ++ l.remote.begin.rtx)).map fkv
        rw [h.tx hi, hk]
        have : l.remote.rtx = [] := by unfold Remote.rtx; rw [hr.2]
        rw [this]
        simp [Remote.rtx, Remote.begin]
      · intro k' y hy
        exact h.coh k' y hy
    · simp only [if_true]
      rw [Remote.foldl_set_intx x xs l.remote (h.rBusy hb)]
      refine ⟨⟨?_, ?_, ?_, ?_, ?_, by trivial⟩, hi, by trivial, by trivial, by trivial, by trivial, by trivial⟩
      · intro hh; rw [hi] at hh; cases hh
      · intro hh; cases hh
      · intro _; exact h.rBusy hb
      · intro _
        show l.txcache = (([] : List (Bytes × Bytes)).reverse ++ ((x :: xs).reverse ++ l.remote.rtx)).map fkv
        rw [h.tx hi, hk]; simp
      · intro k' y hy
        exact h.coh k' y hy

theorem list_inv (l : LocalDB) (h : Inv l) (hi : l.intx = true) (p : Bytes) :
    Inv (l.list p).1 ∧ (l.list p).1.intx = true ∧ (l.list p).1.remote.main = l.remote.main ∧
      (l.list p).1.remote.cache = l.remote.cache ∧ (l.list p).1.disableread = l.disableread ∧
      (l.list p).1.disablewrite = l.disablewrite := by
  unfold LocalDB.list
  by_cases hr : l.disableread = true
  · rw [if_pos hr]; exact ⟨h, hi, rfl, rfl, rfl, rfl⟩
  · rw [if_neg hr]
    obtain ⟨a, b, c, d, e, f, _⟩ := save_inv l h hi
    simp only
    split <;> exact ⟨a, b, c, d, e, f⟩

theorem begin_inv (l : LocalDB) (h : Inv l) (hi : l.intx = false) : Inv l.begin ∧ Frame l l.begin := by
  obtain ⟨h1, h2, h3⟩ := h.idle hi
  have hr := h.rIdle h3
  refine ⟨⟨?_, ?_, ?_, ?_, h.coh, ?_⟩, ⟨rfl, rfl, rfl⟩⟩
  · intro hh; cases hh
  · intro _; exact hr
  · intro hh; cases hh
  · intro _
    show ([] : Cache Bytes) = (l.kvs.reverse ++ l.remote.rtx).map fkv
    have : l.remote.rtx = [] := by unfold Remote.rtx; rw [hr.2]
    rw [h2, this]; rfl
  · show l.kvs.length = 0
    rw [h2]; rfl

theorem get_frame (l0 l : LocalDB) (h : Inv l) (f : Frame l0 l) (k : Bytes) :
    Inv (l.get k).1 ∧ Frame l0 (l.get k).1 ∧ (l.get k).1.disableread = l.disableread ∧
      (l.get k).1.disablewrite = l.disablewrite := by
  obtain ⟨_, he, hinv⟩ := get_spec l h k
  have hf : ∀ (a b : LocalDB), a.erase = b.erase → a.remote = b.remote ∧ a.intx = b.intx ∧
      a.disableread = b.disableread ∧ a.disablewrite = b.disablewrite := by
    intro a b hab
    have h1 : a.erase.remote = b.erase.remote := congrArg LocalDB.remote hab
    have h2 : a.erase.intx = b.erase.intx := congrArg LocalDB.intx hab
    have h3 : a.erase.disableread = b.erase.disableread := congrArg LocalDB.disableread hab
    have h4 : a.erase.disablewrite = b.erase.disablewrite := congrArg LocalDB.disablewrite hab
    exact ⟨h1, h2, h3, h4⟩
  obtain ⟨e1, e2, e3, e4⟩ := hf _ _ he
  exact ⟨hinv, ⟨by rw [e1]; exact f.main, by rw [e1]; exact f.rcache, by rw [e2]; exact f.intx⟩, e3, e4⟩


theorem save_cache (l : LocalDB) (c : Cache Bytes) :
    ({ l with cache := c } : LocalDB).save = { l.save with cache := c } := by
  unfold LocalDB.save
  cases hk : l.kvs with
  | nil => simp [hk]
  | cons x xs => cases hb : l.hasbegin <;> simp [hk, hb]

theorem save_keeps (l : LocalDB) : l.save.txcache = l.txcache ∧ l.save.cache = l.cache ∧ l.save.keys = l.keys := by
  unfold LocalDB.save
  cases hk : l.kvs with
  | nil => simp
  | cons x xs => simp

/-- canonical form of a LocalDB between transactions, read cache forgotten. -/
def idleForm (main rc : List (Bytes × Bytes)) (dr dw : Bool) : LocalDB :=
  { cache := [], txcache := [], keys := [], intx := false, hasbegin := false, kvs := [], txkvs := 0,
    disableread := dr, disablewrite := dw,
    remote := { main := main, cache := rc, txcache := none, intx := false } }

theorem remote_idle_eq (r : Remote) (h1 : r.intx = false) (h2 : r.txcache = none) :
    r = { main := r.main, cache := r.cache, txcache := none, intx := false } := by
  cases r; simp_all

theorem rollback_eq (l : LocalDB) (h : Inv l) (hi : l.intx = true) :
    l.rollback = { l with kvs := [], remote := if l.hasbegin then l.remote.rollback else l.remote,
                          intx := false, txcache := [], keys := [], hasbegin := false } := by
  unfold LocalDB.rollback
  have hc : (l.intx && decide (l.txkvs ≤ l.kvs.length)) = true := by simp [hi, h.txkvs]
  rw [if_pos hc]
  have ht : l.kvs.take l.txkvs = [] := by rw [h.txkvs]; rfl
  rw [ht]
  cases hb : l.hasbegin <;> simp [LocalDB.resetTx, hb]

theorem rollback_inv (l : LocalDB) (h : Inv l) (hi : l.intx = true) :
    Inv l.rollback ∧ l.rollback.intx = false ∧
      l.rollback.erase = idleForm l.remote.main l.remote.cache l.disableread l.disablewrite := by
  rw [rollback_eq l h hi]
  cases hb : l.hasbegin
  · have hr := h.rIdle hb
    refine ⟨⟨?_, ?_, ?_, ?_, h.coh, h.txkvs⟩, rfl, ?_⟩
    · intro _; exact ⟨rfl, rfl, rfl⟩
    · intro _; exact hr
    · intro hh; cases hh
    · intro hh; cases hh
    · unfold erase idleForm
      simp only [h.txkvs, Bool.false_eq_true, if_false]
      rw [remote_idle_eq l.remote hr.1 hr.2]
  · refine ⟨⟨?_, ?_, ?_, ?_, ?_, h.txkvs⟩, rfl, ?_⟩
    · intro _; exact ⟨rfl, rfl, rfl⟩
    · intro _; exact ⟨rfl, rfl⟩
    · intro hh; cases hh
    · intro hh; cases hh
    · intro k x hx; exact h.coh k x hx
    · unfold erase idleForm Remote.rollback Remote.resetTx
      simp only [h.txkvs, if_true]

theorem commit_inv (l : LocalDB) (h : Inv l) (hi : l.intx = true) :
    Inv l.commit ∧ l.commit.intx = false := by
  obtain ⟨hs, hsi, hsm, hsc, _, _, hsk⟩ := save_inv l h hi
  obtain ⟨kt, kc, _⟩ := save_keeps l
  unfold LocalDB.commit
  simp only [save_cache]
  have htx : l.txcache = (l.save.remote.rtx).map fkv := by
    have := hs.tx hsi
    rw [kt, hsk] at this
    simpa using this
  cases hb : l.save.hasbegin
  · have hr := hs.rIdle hb
    have hnil : l.txcache = [] := by
      rw [htx]; unfold Remote.rtx; rw [hr.2]; rfl
    simp only [hb, Bool.false_eq_true, if_false]
    refine ⟨⟨?_, ?_, ?_, ?_, ?_, hs.txkvs⟩, rfl⟩
    · intro _; exact ⟨rfl, hsk, rfl⟩
    · intro _; exact hr
    · intro hh; cases hh
    · intro hh; cases hh
    · intro k x hx
      have hx0 : lookup k (l.txcache ++ l.cache) = some x := hx
      have hx' : lookup k l.cache = some x := by simpa [hnil] using hx0
      rw [← kc] at hx'
      exact hs.coh k x hx'
  · simp only [hb, if_true]
    refine ⟨⟨?_, ?_, ?_, ?_, ?_, hs.txkvs⟩, rfl⟩
    · intro _; exact ⟨rfl, hsk, rfl⟩
    · intro _
      show l.save.remote.commit.intx = false ∧ l.save.remote.commit.txcache = none
      unfold Remote.commit
      cases l.save.remote.txcache <;> exact ⟨rfl, rfl⟩
    · intro hh; cases hh
    · intro hh; cases hh
    · intro k x hx
      have hx' : lookup k (l.txcache ++ l.cache) = some x := hx
      show x = l.save.remote.commit.cview k
      rw [lookup_append] at hx'
      unfold Remote.commit
      cases ht : l.save.remote.txcache with
      | none =>
        have hnil : l.txcache = [] := by rw [htx]; unfold Remote.rtx; rw [ht]; rfl
        rw [hnil] at hx'
        have := hs.coh k x (by rw [kc]; simpa [lookup] using hx')
        simpa [Remote.cview, Remote.resetTx] using this
      | some t =>
        have htt : l.txcache = t.map fkv := by rw [htx]; unfold Remote.rtx; rw [ht]
        rw [htt, lookup_map_fkv] at hx'
        simp only [Remote.cview, Remote.resetTx, lookup_append]
        cases hlt : lookup k t with
        | some v =>
          rw [hlt] at hx'
          simp only [Option.map_some] at hx'
          injection hx' with hx'
          exact hx'.symm
        | none =>
          rw [hlt] at hx'
          simp only [Option.map_none] at hx'
          have := hs.coh k x (by rw [kc]; exact hx')
          simpa [Remote.cview] using this


/-- inside the transaction begun from `l0`: invariant, frame, and the current access flags. -/
structure TxF (l0 : LocalDB) (dr dw : Bool) (l : LocalDB) : Prop where
  inv : Inv l
  frame : Frame l0 l
  dr : l.disableread = dr
  dw : l.disablewrite = dw

theorem TxF.get {l0 l : LocalDB} {dr dw : Bool} (h : TxF l0 dr dw l) (k : Bytes) : TxF l0 dr dw (l.get k).1 := by
  obtain ⟨a, b, c, d⟩ := get_frame l0 l h.inv h.frame k
  exact ⟨a, b, by rw [c]; exact h.dr, by rw [d]; exact h.dw⟩

theorem TxF.set {l0 l : LocalDB} {dr dw : Bool} (h : TxF l0 dr dw l) (k v : Bytes) : TxF l0 dr dw (l.set k v).1 := by
  obtain ⟨a, b, c, d, e⟩ := set_inv l h.inv h.frame.intx k v
  exact ⟨a, ⟨by rw [c]; exact h.frame.main, by rw [c]; exact h.frame.rcache, b⟩, by rw [d]; exact h.dr, by rw [e]; exact h.dw⟩

theorem TxF.list {l0 l : LocalDB} {dr dw : Bool} (h : TxF l0 dr dw l) (p : Bytes) : TxF l0 dr dw (l.list p).1 := by
  obtain ⟨a, b, c, d, e, f⟩ := list_inv l h.inv h.frame.intx p
  exact ⟨a, ⟨by rw [c]; exact h.frame.main, by rw [d]; exact h.frame.rcache, b⟩, by rw [e]; exact h.dr, by rw [f]; exact h.dw⟩

theorem TxF.startTx {l0 l : LocalDB} {dr dw : Bool} (h : TxF l0 dr dw l) : TxF l0 dr dw l.startTx :=
  ⟨⟨h.inv.idle, h.inv.rIdle, h.inv.rBusy, h.inv.tx, h.inv.coh, h.inv.txkvs⟩, ⟨h.frame.main, h.frame.rcache, h.frame.intx⟩, h.dr, h.dw⟩

theorem TxF.flags {l0 l : LocalDB} {dr dw : Bool} (h : TxF l0 dr dw l) (a b : Bool) :
    TxF l0 a b { l with disablewrite := b, disableread := a } :=
  ⟨⟨h.inv.idle, h.inv.rIdle, h.inv.rBusy, h.inv.tx, h.inv.coh, h.inv.txkvs⟩, ⟨h.frame.main, h.frame.rcache, h.frame.intx⟩, rfl, rfl⟩

end LocalDB

open LocalDB

theorem runExecOps_txf (ops : List Op) (st : St) (decl : List (Bytes × Val)) (obs : List Obs)
    (l0 : LocalDB) (dr dw : Bool) (h : TxF l0 dr dw st.ldb) : TxF l0 dr dw (runExecOps ops st decl obs).1.ldb := by
  induction ops generalizing st decl obs with
  | nil => exact h
  | cons op ops ih =>
    cases op <;> simp only [runExecOps]
    case setS k v => exact ih _ _ _ h
    case hidS k v => exact ih _ _ _ h
    case declS k v => exact ih _ _ _ h
    case getS k => exact ih _ _ _ h
    case setL k v => exact ih _ _ _ (h.set k v)
    case hidL k v => exact ih _ _ _ (h.set k v)
    case declL k v => exact ih _ _ _ h
    case getL k => exact ih _ _ _ (h.get k)
    case listL p => exact ih _ _ _ (h.list p)
    case fail => exact h
    case panic => exact h

theorem runLocalOps_txf (ops : List Op) (st : St) (decl : List (Bytes × Bytes)) (obs : List Obs)
    (l0 : LocalDB) (dr dw : Bool) (h : TxF l0 dr dw st.ldb) : TxF l0 dr dw (runLocalOps ops st decl obs).1.ldb := by
  induction ops generalizing st decl obs with
  | nil => exact h
  | cons op ops ih =>
    cases op <;> simp only [runLocalOps]
    case setS k v => exact ih _ _ _ h
    case hidS k v => exact ih _ _ _ h
    case declS k v => exact ih _ _ _ h
    case getS k => exact ih _ _ _ h
    case setL k v => exact ih _ _ _ (h.set k v)
    case hidL k v => exact ih _ _ _ (h.set k v)
    case declL k v => exact ih _ _ _ h
    case getL k => exact ih _ _ _ (h.get k)
    case listL p => exact ih _ _ _ (h.list p)
    case fail => exact h
    case panic => exact h


/-- the LocalDB access flags after `(*executor).Exec` returns. -/
def phaseFlags (env : Env) (same dr dw : Bool) : Bool × Bool :=
  if env.forkLocalDBAccess then (if same then dr else false, false) else (dr, dw)

theorem execPhase_txf (env : Env) (st : St) (tx : Tx) (l0 : LocalDB) (dr dw : Bool) (h : TxF l0 dr dw st.ldb) :
    TxF l0 (phaseFlags env (isExecLocalSameTime env tx.execer) dr dw).1
      (phaseFlags env (isExecLocalSameTime env tx.execer) dr dw).2 (execPhase env st tx).1.ldb := by
  have hdr := h.dr
  subst hdr
  unfold execPhase phaseFlags
  cases hf : env.forkLocalDBAccess
  · simp only [Bool.false_eq_true, if_false]
    cases hd : loadDriver env tx.execer with
    | none => exact h
    | some d => exact runExecOps_txf tx.execOps st [] [] l0 _ dw h
  · simp only [if_true]
    cases hs : isExecLocalSameTime env tx.execer
    · simp only [Bool.false_eq_true, if_false]
      cases hd : loadDriver env tx.execer with
      | none => exact (h.flags true true).flags false false
      | some d =>
        simp only
        exact (runExecOps_txf tx.execOps _ [] [] l0 true true (h.flags true true)).flags false false
    · simp only [if_true]
      cases hd : loadDriver env tx.execer with
      | none =>
        simp only
        exact (h.flags st.ldb.disableread true).flags st.ldb.disableread false
      | some d =>
        simp only
        have h1 := runExecOps_txf tx.execOps
          { st with ldb := { st.ldb with disablewrite := true, disableread := st.ldb.disableread } } [] [] l0
          st.ldb.disableread true (h.flags st.ldb.disableread true)
        have h2 := h1.flags (runExecOps tx.execOps
          { st with ldb := { st.ldb with disablewrite := true, disableread := st.ldb.disableread } } [] []).1.ldb.disableread false
        exact ⟨h2.inv, h2.frame, h1.dr, rfl⟩

theorem setAll_txf (decl : List (Bytes × Bytes)) (l l0 : LocalDB) (dr dw : Bool) (h : TxF l0 dr dw l) :
    ∀ l', setAll decl l = some l' → TxF l0 dr dw l' := by
  induction decl generalizing l with
  | nil => intro l' hl; simp only [setAll] at hl; injection hl with hl; rw [← hl]; exact h
  | cons kv r ih =>
    intro l' hl
    unfold setAll at hl
    have hs := h.set kv.1 kv.2
    rcases hr : l.set kv.1 kv.2 with ⟨l1, res⟩
    rw [hr] at hl hs
    cases res with
    | ok u => exact ih l1 hs l' hl
    | error e => cases hl

def LocalRes.TxAll (l0 : LocalDB) (dr dw : Bool) : LocalRes → Prop
  | .ok st _ => TxF l0 dr dw st.ldb
  | .err _ st _ => TxF l0 dr dw st.ldb
  | .blockPanic => True

theorem execLocalTx_txf (st : St) (tx : Tx) (obs : List Obs) (l0 : LocalDB) (dr dw : Bool)
    (h : TxF l0 dr dw st.ldb) : (execLocalTx st tx obs).TxAll l0 dr dw := by
  unfold execLocalTx
  have hp := runLocalOps_txf tx.localOps st [] obs l0 dr dw h
  rcases hr : runLocalOps tx.localOps st [] obs with ⟨st1, ret, obs1⟩
  rw [hr] at hp
  cases ret with
  | panic => trivial
  | err => exact hp
  | ok decl =>
    simp only
    split
    · split
      · exact hp
      · split
        · trivial
        · cases hsa : setAll decl st1.ldb with
          | none => trivial
          | some l' => exact setAll_txf decl st1.ldb l0 dr dw hp l' hsa
    · split
      · exact hp
      · exact hp

def OneRes.TxAll (l0 : LocalDB) (dr dw : Bool) : OneRes → Prop
  | .ok _ st _ => TxF l0 dr dw st.ldb
  | .failed _ st _ => TxF l0 dr dw st.ldb
  | .blockPanic => True

theorem finishOk_ldb (env : Env) (st : St) (feelog : Receipt) (kv : List (Bytes × Val)) (b : Bool) (obs : List Obs) :
    ∃ r st', finishOk env st feelog kv b obs = .ok r st' obs ∧ st'.ldb = st.ldb := by
  unfold finishOk
  cases env.forkStateDBSet <;> exact ⟨_, _, rfl, rfl⟩

/-- every state `execTxOne` can end in is still inside the transaction, with the flags `Exec` restores. -/
theorem execTxOne_txf (env : Env) (st : St) (feelog : Receipt) (tx : Tx) (l0 : LocalDB) (dr dw : Bool)
    (h : TxF l0 dr dw st.ldb) :
    (execTxOne env st feelog tx).TxAll l0 (phaseFlags env (isExecLocalSameTime env tx.execer) dr dw).1
      (phaseFlags env (isExecLocalSameTime env tx.execer) dr dw).2 := by
  unfold execTxOne
  have hp := execPhase_txf env st.startTx tx l0 dr dw h.startTx
  rcases hr : execPhase env st.startTx tx with ⟨st1, ret, obs1⟩
  rw [hr] at hp
  cases ret with
  | err => exact hp
  | panic => exact hp
  | ok kv =>
    simp only
    split
    · exact hp
    · split
      · exact hp
      · split
        · have hl := execLocalTx_txf st1 tx obs1 l0 _ _ hp
          cases hlr : execLocalTx st1 tx obs1 with
          | blockPanic => trivial
          | err e st2 obs2 => rw [hlr] at hl; exact hl
          | ok st2 obs2 =>
            rw [hlr] at hl
            obtain ⟨r, st', he, hs⟩ := finishOk_ldb env st2 feelog kv (loadDriver env tx.execer).isSome obs2
            simp only [he, OneRes.TxAll, hs]
            exact hl
        · obtain ⟨r, st', he, hs⟩ := finishOk_ldb env st1 feelog kv (loadDriver env tx.execer).isSome obs1
          simp only [he, OneRes.TxAll, hs]
          exact hp


namespace LocalDB

theorem erase_eq {a b : LocalDB} (h : a.erase = b.erase) : a = { b with cache := a.cache } := by
  cases a; cases b
  simp only [erase, LocalDB.mk.injEq] at h ⊢
  obtain ⟨_, h2, h3, h4, h5, h6, h7, h8, h9, h10⟩ := h
  exact ⟨by trivial, h2, h3, h4, h5, h6, h7, h8, h9, h10⟩

theorem set_erase (l : LocalDB) (c : Cache Bytes) (k v : Bytes) :
    (({ l with cache := c } : LocalDB).set k v).1.erase = (l.set k v).1.erase ∧
      (({ l with cache := c } : LocalDB).set k v).2 = (l.set k v).2 := by
  unfold LocalDB.set
  dsimp only
  by_cases hw : l.disablewrite = true
  · rw [if_pos hw, if_pos hw]; exact ⟨rfl, rfl⟩
  · rw [if_neg hw, if_neg hw]
    by_cases hi : l.intx = true
    · rw [if_pos hi, if_pos hi]; exact ⟨rfl, rfl⟩
    · rw [if_neg hi, if_neg hi]; exact ⟨rfl, rfl⟩

theorem list_erase (l : LocalDB) (c : Cache Bytes) (p : Bytes) :
    (({ l with cache := c } : LocalDB).list p).1.erase = (l.list p).1.erase ∧
      (({ l with cache := c } : LocalDB).list p).2 = (l.list p).2 := by
  unfold LocalDB.list
  dsimp only
  by_cases hr : l.disableread = true
  · rw [if_pos hr, if_pos hr]; exact ⟨rfl, rfl⟩
  · rw [if_neg hr, if_neg hr]
    rw [save_cache]
    dsimp only
    by_cases he : (l.save.remote.list p).isEmpty = true
    · rw [if_pos he, if_pos he]; exact ⟨rfl, rfl⟩
    · rw [if_neg he, if_neg he]; exact ⟨rfl, rfl⟩

theorem commit_erase (l : LocalDB) (c : Cache Bytes) :
    ({ l with cache := c } : LocalDB).commit.erase = l.commit.erase := by
  unfold LocalDB.commit
  simp only [save_cache]
  cases hb : l.save.hasbegin <;> simp [hb, erase, LocalDB.resetTx]

/-- observational equivalence of LocalDBs between transactions: equal up to the read cache, both coherent. -/
structure LEq (a b : LocalDB) : Prop where
  er : a.erase = b.erase
  ia : Inv a
  ib : Inv b

/-- operations a transaction performs on the LocalDB while it is open. -/
inductive LOp
  | get (k : Bytes) | set (k v : Bytes) | list (p : Bytes) | startTx | flags (dr dw : Bool)

def stepL (l : LocalDB) : LOp → LocalDB × Option Obs
  | .get k => ((l.get k).1, some (obsOfGet (l.get k).2))
  | .set k v => ((l.set k v).1, some (obsOfSet (l.set k v).2))
  | .list p => ((l.list p).1, some (obsOfList (l.list p).2))
  | .startTx => (l.startTx, none)
  | .flags dr dw => ({ l with disablewrite := dw, disableread := dr }, none)

def runLOps : LocalDB → List LOp → LocalDB × List (Option Obs)
  | l, [] => (l, [])
  | l, op :: ops => ((runLOps (stepL l op).1 ops).1, (stepL l op).2 :: (runLOps (stepL l op).1 ops).2)

/-- a later local transaction: Begin, operations, then Commit or Rollback. -/
structure LTxn where
  ops : List LOp
  commit : Bool

def runL : LocalDB → List LTxn → List (List (Option Obs))
  | _, [] => []
  | l, t :: ts =>
    let r := runLOps l.begin t.ops
    r.2 :: runL (if t.commit then r.1.commit else r.1.rollback) ts

/-- in-transaction equivalence. -/
structure TEq (a b : LocalDB) : Prop where
  er : a.erase = b.erase
  ia : Inv a
  ib : Inv b
  ix : a.intx = true

theorem TEq.ixb {a b : LocalDB} (h : TEq a b) : b.intx = true := by
  have : a.erase.intx = b.erase.intx := congrArg LocalDB.intx h.er
  exact this.symm.trans h.ix

theorem selfTxF (l : LocalDB) (h : Inv l) (hi : l.intx = true) : TxF l l.disableread l.disablewrite l :=
  ⟨h, ⟨rfl, rfl, hi⟩, rfl, rfl⟩

theorem TEq.step {a b : LocalDB} (h : TEq a b) (op : LOp) :
    (stepL a op).2 = (stepL b op).2 ∧ TEq (stepL a op).1 (stepL b op).1 := by
  have hab := erase_eq h.er
  have fa := selfTxF a h.ia h.ix
  have fb := selfTxF b h.ib h.ixb
  cases op with
  | get k =>
    obtain ⟨va, ea, ia⟩ := get_spec a h.ia k
    obtain ⟨vb, eb, ib⟩ := get_spec b h.ib k
    have hv : a.getVal k = b.getVal k := by rw [hab]; rfl
    refine ⟨by simp only [stepL, va, vb, hv], ⟨by simp only [stepL]; rw [ea, eb]; exact h.er, ia, ib, ?_⟩⟩
    exact (fa.get k).frame.intx
  | set k v =>
    have := set_erase b a.cache k v
    rw [← hab] at this
    exact ⟨by simp only [stepL, this.2], ⟨this.1, (fa.set k v).inv, (fb.set k v).inv, (fa.set k v).frame.intx⟩⟩
  | list p =>
    have := list_erase b a.cache p
    rw [← hab] at this
    exact ⟨by simp only [stepL, this.2], ⟨this.1, (fa.list p).inv, (fb.list p).inv, (fa.list p).frame.intx⟩⟩
  | startTx =>
    refine ⟨rfl, ⟨?_, fa.startTx.inv, fb.startTx.inv, h.ix⟩⟩
    simp only [stepL]; rw [hab]; rfl
  | flags dr dw =>
    refine ⟨rfl, ⟨?_, (fa.flags dr dw).inv, (fb.flags dr dw).inv, h.ix⟩⟩
    simp only [stepL]; rw [hab]; rfl

theorem TEq.run {a b : LocalDB} (h : TEq a b) (ops : List LOp) :
    (runLOps a ops).2 = (runLOps b ops).2 ∧ TEq (runLOps a ops).1 (runLOps b ops).1 := by
  induction ops generalizing a b with
  | nil => exact ⟨rfl, h⟩
  | cons op ops ih =>
    obtain ⟨h1, h2⟩ := h.step op
    obtain ⟨h3, h4⟩ := ih h2
    exact ⟨by simp only [runLOps, h1, h3], h4⟩

theorem LEq.intx_eq {a b : LocalDB} (h : LEq a b) : a.intx = b.intx := by
  have : a.erase.intx = b.erase.intx := congrArg LocalDB.intx h.er
  exact this

theorem LEq.begin {a b : LocalDB} (h : LEq a b) (hi : a.intx = false) : TEq a.begin b.begin := by
  have hab := erase_eq h.er
  refine ⟨?_, (begin_inv a h.ia hi).1, (begin_inv b h.ib (h.intx_eq ▸ hi)).1, rfl⟩
  rw [hab]; rfl

theorem TEq.commit {a b : LocalDB} (h : TEq a b) : LEq a.commit b.commit ∧ a.commit.intx = false := by
  have hab := erase_eq h.er
  have := commit_erase b a.cache
  rw [← hab] at this
  exact ⟨⟨this, (commit_inv a h.ia h.ix).1, (commit_inv b h.ib h.ixb).1⟩, (commit_inv a h.ia h.ix).2⟩

theorem TEq.rollback {a b : LocalDB} (h : TEq a b) : LEq a.rollback b.rollback ∧ a.rollback.intx = false := by
  obtain ⟨ia, xa, ea⟩ := rollback_inv a h.ia h.ix
  obtain ⟨ib, _, eb⟩ := rollback_inv b h.ib h.ixb
  have hab := erase_eq h.er
  refine ⟨⟨?_, ia, ib⟩, xa⟩
  rw [ea, eb, hab]

/-- `LEq` is a bisimulation for every later sequence of local transactions. -/
theorem LEq.runL_eq {a b : LocalDB} (h : LEq a b) (hi : a.intx = false) (ts : List LTxn) :
    runL a ts = runL b ts := by
  induction ts generalizing a b with
  | nil => rfl
  | cons t ts ih =>
    obtain ⟨h1, h2⟩ := (h.begin hi).run t.ops
    simp only [runL, h1]
    cases t.commit
    · simp only [Bool.false_eq_true, if_false]
      rw [ih h2.rollback.1 h2.rollback.2]
    · simp only [if_true]
      rw [ih h2.commit.1 h2.commit.2]

end LocalDB


open LocalDB

theorem execFee_ldb (env : Env) (st : St) (tx : Tx) (feelog : Receipt) (st1 : St)
    (h : execFee env st tx = .ok feelog st1) : st1.ldb = st.ldb := by
  unfold execFee at h
  split at h
  · injection h with _ h; subst h; rfl
  · simp only at h
    split at h
    · cases h
    · split at h
      · injection h with _ h; subst h; rfl
      · cases h

theorem initSt_linv (store : List (Bytes × Val)) (main : List (Bytes × Bytes)) :
    Inv (initSt store main).ldb ∧ (initSt store main).ldb.intx = false := by
  refine ⟨⟨?_, ?_, ?_, ?_, ?_, rfl⟩, rfl⟩
  · intro _; exact ⟨rfl, rfl, rfl⟩
  · intro _; exact ⟨rfl, rfl⟩
  · intro h; cases h
  · intro h; cases h
  · intro k x h; cases h

/-- the state of the LocalDB right after `St.begin`, as a `TxF`. -/
theorem begin_txf (env : Env) (hfr : env.forkExecRollback = true) (st : St) (h : Inv st.ldb)
    (hi : st.ldb.intx = false) :
    TxF st.ldb st.ldb.disableread st.ldb.disablewrite (st.begin env).ldb := by
  have : (st.begin env).ldb = st.ldb.begin := by simp [St.begin, hfr]
  rw [this]
  obtain ⟨a, b⟩ := begin_inv st.ldb h hi
  exact ⟨a, b, rfl, rfl⟩

/-- rolling back any state of the transaction begun from `l0` gives, up to the read cache, `l0`'s idle form. -/
theorem TxF.rollback {l0 l : LocalDB} {dr dw : Bool} (h : TxF l0 dr dw l) :
    Inv l.rollback ∧ l.rollback.intx = false ∧
      l.rollback.erase = idleForm l0.remote.main l0.remote.cache dr dw := by
  obtain ⟨a, b, c⟩ := rollback_inv l h.inv h.frame.intx
  exact ⟨a, b, by rw [c, h.frame.main, h.frame.rcache, h.dr, h.dw]⟩


theorem execFee_err_ldb (env : Env) (st : St) (tx : Tx) (e : Err) (st1 : St)
    (h : execFee env st tx = .err e st1) : st1.ldb = st.ldb := by
  unfold execFee at h
  split at h
  · cases h
  · simp only at h
    split at h
    · cases h
    · split at h
      · cases h
      · injection h with _ h; subst h; rfl

/-- idle = coherent and between transactions. -/
def LIdle (l : LocalDB) : Prop := Inv l ∧ l.intx = false

theorem TxF.commit_idle {l0 l : LocalDB} {dr dw : Bool} (h : TxF l0 dr dw l) : LIdle l.commit :=
  commit_inv l h.inv h.frame.intx

theorem TxF.rollback_idle {l0 l : LocalDB} {dr dw : Bool} (h : TxF l0 dr dw l) : LIdle l.rollback :=
  ⟨(rollback_inv l h.inv h.frame.intx).1, (rollback_inv l h.inv h.frame.intx).2.1⟩

def MembersRes.TxAll (l0 : LocalDB) : MembersRes → Prop
  | .ok _ _ st => ∃ dr dw, TxF l0 dr dw st.ldb
  | .failed _ _ _ st => ∃ dr dw, TxF l0 dr dw st.ldb
  | .blockPanic => True

theorem execMembers_txf (env : Env) (txs : List Tx) (st : St) (rs : List Receipt) (obs : List (List Obs))
    (l0 : LocalDB) (dr dw : Bool) (h : TxF l0 dr dw st.ldb) : (execMembers env txs st rs obs).TxAll l0 := by
  induction txs generalizing st rs obs dr dw with
  | nil => exact ⟨dr, dw, h⟩
  | cons tx txs ih =>
    unfold execMembers
    have hp := execTxOne_txf env st emptyPack tx l0 dr dw h
    cases hr : execTxOne env st emptyPack tx with
    | blockPanic => trivial
    | failed r st2 o => rw [hr] at hp; exact ⟨_, _, hp⟩
    | ok r st2 o => rw [hr] at hp; exact ih st2 _ _ _ _ hp

/-- block execution keeps the LocalDB coherent and idle at every unit boundary. -/
theorem execUnit_linv (env : Env) (hfr : env.forkExecRollback = true) (st : St) (h : LIdle st.ldb)
    (u : TxUnit) (rs : List Receipt) (obs : List (List Obs)) (st' : St)
    (hu : execUnit env st u = .done rs obs st') : LIdle st'.ldb := by
  have hroll : ∀ s : St, (s.rollback env).ldb = s.ldb.rollback := fun s => by simp [St.rollback, hfr]
  have hcomm : ∀ s : St, (s.commit env).ldb = s.ldb.commit := fun s => by simp [St.commit, hfr]
  cases u with
  | single tx =>
    simp only [execUnit] at hu
    unfold execTx at hu
    split at hu
    · injection hu with _ _ h3; subst h3; exact h
    · cases hfe : execFee env st tx with
      | panic => rw [hfe] at hu; cases hu
      | err e st1 =>
        rw [hfe] at hu
        injection hu with _ _ h3; subst h3
        rw [execFee_err_ldb env st tx e st1 hfe]; exact h
      | ok feelog st1 =>
        rw [hfe] at hu
        simp only at hu
        have hl := execFee_ldb env st tx feelog st1 hfe
        have hb := begin_txf env hfr st1 (by rw [hl]; exact h.1) (by rw [hl]; exact h.2)
        have t := execTxOne_txf env (st1.begin env) feelog tx _ _ _ hb
        cases hA : execTxOne env (st1.begin env) feelog tx with
        | blockPanic => rw [hA] at hu; cases hu
        | failed r2 st2 o2 =>
          rw [hA] at hu t
          injection hu with _ _ h3; subst h3
          rw [hroll]; exact TxF.rollback_idle t
        | ok r2 st2 o2 =>
          rw [hA] at hu t
          injection hu with _ _ h3; subst h3
          rw [hcomm]; exact TxF.commit_idle t
  | group txs =>
    simp only [execUnit] at hu
    unfold execTxGroup at hu
    cases txs with
    | nil => simp only at hu; injection hu with _ _ h3; subst h3; exact h
    | cons head members =>
      simp only at hu
      cases hfe : execFee env st head with
      | panic => rw [hfe] at hu; cases hu
      | err e st1 =>
        rw [hfe] at hu
        injection hu with _ _ h3; subst h3
        rw [execFee_err_ldb env st head e st1 hfe]; exact h
      | ok feelog st1 =>
        rw [hfe] at hu
        simp only at hu
        have hl := execFee_ldb env st head feelog st1 hfe
        have hb := begin_txf env hfr st1 (by rw [hl]; exact h.1) (by rw [hl]; exact h.2)
        have t := execTxOne_txf env (st1.begin env) feelog head _ _ _ hb
        cases hA : execTxOne env (st1.begin env) feelog head with
        | blockPanic => rw [hA] at hu; cases hu
        | failed r2 st2 o2 =>
          rw [hA] at hu t
          injection hu with _ _ h3; subst h3
          rw [hroll]; exact TxF.rollback_idle t
        | ok r2 st2 o2 =>
          rw [hA] at hu t
          simp only at hu
          have tm := execMembers_txf env members st2 [] [] _ _ _ t
          cases hM : execMembers env members st2 [] [] with
          | blockPanic => rw [hM] at hu; cases hu
          | failed nb r obsM st3 =>
            rw [hM] at hu tm
            obtain ⟨_, _, tm⟩ := tm
            injection hu with _ _ h3; subst h3
            rw [hroll]; exact TxF.rollback_idle tm
          | ok rsM obsM st3 =>
            rw [hM] at hu tm
            obtain ⟨_, _, tm⟩ := tm
            injection hu with _ _ h3; subst h3
            rw [hcomm]; exact TxF.commit_idle tm


/-! ### clean states: coherent, between transactions, no pending key list, access flags off -/

/-- the LocalDB as block execution leaves it between units. -/
structure LClean (l : LocalDB) : Prop where
  inv : Inv l
  idle : l.intx = false
  keys : l.keys = []
  dr : l.disableread = false
  dw : l.disablewrite = false

theorem phaseFlags_ff (env : Env) (same : Bool) : phaseFlags env same false false = (false, false) := by
  unfold phaseFlags
  cases env.forkLocalDBAccess <;> cases same <;> rfl

theorem LClean.erase_eq {l : LocalDB} (h : LClean l) :
    l.erase = idleForm l.remote.main l.remote.cache false false := by
  obtain ⟨a, b, c⟩ := h.inv.idle h.idle
  have hr := h.inv.rIdle c
  have e := remote_idle_eq l.remote hr.1 hr.2
  have ht := h.inv.txkvs
  have hi := h.idle
  have hk := h.keys
  have hdr := h.dr
  have hdw := h.dw
  cases l with
  | mk cache txcache keys intx hasbegin kvs txkvs dr dw remote =>
    simp only at a b c e ht hi hk hdr hdw
    subst a; subst b; subst c; subst ht; subst hi; subst hk; subst hdr; subst hdw
    unfold erase idleForm
    simp only
    rw [e]

theorem initSt_lclean (store : List (Bytes × Val)) (main : List (Bytes × Bytes)) :
    LClean (initSt store main).ldb :=
  ⟨(initSt_linv store main).1, rfl, rfl, rfl, rfl⟩

theorem TxF.rollback_clean {l0 l : LocalDB} (h : TxF l0 false false l) : LClean l.rollback := by
  have e := rollback_eq l h.inv h.frame.intx
  obtain ⟨a, b, _⟩ := rollback_inv l h.inv h.frame.intx
  refine ⟨a, b, ?_, ?_, ?_⟩
  · rw [e]
  · rw [e]; exact h.dr
  · rw [e]; exact h.dw

theorem commit_fields (l : LocalDB) : l.commit.keys = [] ∧ l.commit.disableread = l.disableread ∧
    l.commit.disablewrite = l.disablewrite := by
  unfold LocalDB.commit
  simp only [save_cache]
  have hs : l.save.disableread = l.disableread ∧ l.save.disablewrite = l.disablewrite := by
    unfold LocalDB.save
    cases l.kvs <;> exact ⟨rfl, rfl⟩
  cases hb : l.save.hasbegin <;> simp [LocalDB.resetTx, hb, hs.1, hs.2]

theorem TxF.commit_clean {l0 l : LocalDB} (h : TxF l0 false false l) : LClean l.commit := by
  obtain ⟨a, b⟩ := commit_inv l h.inv h.frame.intx
  obtain ⟨k, r, w⟩ := commit_fields l
  exact ⟨a, b, k, by rw [r]; exact h.dr, by rw [w]; exact h.dw⟩

theorem begin_txf_clean (env : Env) (hfr : env.forkExecRollback = true) (st : St) (h : LClean st.ldb) :
    TxF st.ldb false false (st.begin env).ldb := by
  have := begin_txf env hfr st h.inv h.idle
  rw [h.dr, h.dw] at this
  exact this

theorem execTxOne_txf_ff (env : Env) (st : St) (feelog : Receipt) (tx : Tx) (l0 : LocalDB)
    (h : TxF l0 false false st.ldb) : (execTxOne env st feelog tx).TxAll l0 false false := by
  have := execTxOne_txf env st feelog tx l0 false false h
  rw [phaseFlags_ff] at this
  exact this

def MembersRes.TxAllFF (l0 : LocalDB) : MembersRes → Prop
  | .ok _ _ st => TxF l0 false false st.ldb
  | .failed _ _ _ st => TxF l0 false false st.ldb
  | .blockPanic => True

theorem execMembers_txf_ff (env : Env) (txs : List Tx) (st : St) (rs : List Receipt) (obs : List (List Obs))
    (l0 : LocalDB) (h : TxF l0 false false st.ldb) : (execMembers env txs st rs obs).TxAllFF l0 := by
  induction txs generalizing st rs obs with
  | nil => exact h
  | cons tx txs ih =>
    unfold execMembers
    have hp := execTxOne_txf_ff env st emptyPack tx l0 h
    cases hr : execTxOne env st emptyPack tx with
    | blockPanic => trivial
    | failed r st2 o => rw [hr] at hp; exact hp
    | ok r st2 o => rw [hr] at hp; exact ih st2 _ _ hp

/-- block execution leaves the LocalDB clean at every unit boundary. -/
theorem execUnit_lclean (env : Env) (hfr : env.forkExecRollback = true) (st : St) (h : LClean st.ldb)
    (u : TxUnit) (rs : List Receipt) (obs : List (List Obs)) (st' : St)
    (hu : execUnit env st u = .done rs obs st') : LClean st'.ldb := by
  have hroll : ∀ s : St, (s.rollback env).ldb = s.ldb.rollback := fun s => by simp [St.rollback, hfr]
  have hcomm : ∀ s : St, (s.commit env).ldb = s.ldb.commit := fun s => by simp [St.commit, hfr]
  cases u with
  | single tx =>
    simp only [execUnit] at hu
    unfold execTx at hu
    split at hu
    · injection hu with _ _ h3; subst h3; exact h
    · cases hfe : execFee env st tx with
      | panic => rw [hfe] at hu; cases hu
      | err e st1 =>
        rw [hfe] at hu
        injection hu with _ _ h3; subst h3
        rw [execFee_err_ldb env st tx e st1 hfe]; exact h
      | ok feelog st1 =>
        rw [hfe] at hu
        simp only at hu
        have hl := execFee_ldb env st tx feelog st1 hfe
        have hb := begin_txf_clean env hfr st1 (by rw [hl]; exact h)
        have t := execTxOne_txf_ff env (st1.begin env) feelog tx _ hb
        cases hA : execTxOne env (st1.begin env) feelog tx with
        | blockPanic => rw [hA] at hu; cases hu
        | failed r2 st2 o2 =>
          rw [hA] at hu t
          injection hu with _ _ h3; subst h3
          rw [hroll]; exact TxF.rollback_clean t
        | ok r2 st2 o2 =>
          rw [hA] at hu t
          injection hu with _ _ h3; subst h3
          rw [hcomm]; exact TxF.commit_clean t
  | group txs =>
    simp only [execUnit] at hu
    unfold execTxGroup at hu
    cases txs with
    | nil => simp only at hu; injection hu with _ _ h3; subst h3; exact h
    | cons head members =>
      simp only at hu
      cases hfe : execFee env st head with
      | panic => rw [hfe] at hu; cases hu
      | err e st1 =>
        rw [hfe] at hu
        injection hu with _ _ h3; subst h3
        rw [execFee_err_ldb env st head e st1 hfe]; exact h
      | ok feelog st1 =>
        rw [hfe] at hu
        simp only at hu
        have hl := execFee_ldb env st head feelog st1 hfe
        have hb := begin_txf_clean env hfr st1 (by rw [hl]; exact h)
        have t := execTxOne_txf_ff env (st1.begin env) feelog head _ hb
        cases hA : execTxOne env (st1.begin env) feelog head with
        | blockPanic => rw [hA] at hu; cases hu
        | failed r2 st2 o2 =>
          rw [hA] at hu t
          injection hu with _ _ h3; subst h3
          rw [hroll]; exact TxF.rollback_clean t
        | ok r2 st2 o2 =>
          rw [hA] at hu t
          simp only at hu
          have tm := execMembers_txf_ff env members st2 [] [] _ t
          cases hM : execMembers env members st2 [] [] with
          | blockPanic => rw [hM] at hu; cases hu
          | failed nb r obsM st3 =>
            rw [hM] at hu tm
            injection hu with _ _ h3; subst h3
            rw [hroll]; exact TxF.rollback_clean tm
          | ok rsM obsM st3 =>
            rw [hM] at hu tm
            injection hu with _ _ h3; subst h3
            rw [hcomm]; exact TxF.commit_clean tm



end C11
