import Chain33Model.Model.C12
/-!
Helper lemmas and the declarative grammar for C12.
-/
namespace C12

/-! ### scanning to the first occurrence of a byte -/

theorem splitAt1_some {c : UInt8} : ∀ {l a b : Bytes}, splitAt1 c l = some (a, b) ↔ (c ∉ a ∧ l = a ++ c :: b)
  | [], a, b => by
    simp [splitAt1]
  | x :: xs, a, b => by
    unfold splitAt1
    by_cases hx : x = c
    · subst hx
      simp only [if_true]
      constructor
      · intro h
        injection h with h
        injection h with h1 h2
        subst h1; subst h2
        simp
      · rintro ⟨hn, he⟩
        cases a with
        | nil => simp at he; simp [he]
        | cons y ys =>
          simp at he
          exact absurd (by simp [he.1]) hn
    · simp only [hx, if_false]
      cases hs : splitAt1 c xs with
      | none =>
        simp only
        constructor
        · intro h; cases h
        · rintro ⟨hn, he⟩
          cases a with
          | nil => simp at he; exact absurd he.1 hx
          | cons y ys =>
            simp at he
            have : splitAt1 c xs = some (ys, b) :=
              (splitAt1_some (l := xs) (a := ys) (b := b)).2 ⟨fun h => hn (List.mem_cons_of_mem _ h), he.2⟩
            rw [hs] at this; cases this
      | some p =>
        obtain ⟨a', b'⟩ := p
        simp only
        have ih := (splitAt1_some (l := xs) (a := a') (b := b')).1 hs
        constructor
        · intro h
          injection h with h
          injection h with h1 h2
          subst h1; subst h2
          refine ⟨?_, by simp [ih.2]⟩
          intro hm
          rcases List.mem_cons.1 hm with h | h
          · exact hx h.symm
          · exact ih.1 h
        · rintro ⟨hn, he⟩
          cases a with
          | nil => simp at he; exact absurd he.1 hx
          | cons y ys =>
            simp at he
            have h2 : splitAt1 c xs = some (ys, b) :=
              (splitAt1_some (l := xs) (a := ys) (b := b)).2 ⟨fun h => hn (List.mem_cons_of_mem _ h), he.2⟩
            rw [hs] at h2
            injection h2 with h2
            injection h2 with h3 h4
            subst h3; subst h4
            simp [he.1]

theorem splitAt1_none {c : UInt8} : ∀ {l : Bytes}, splitAt1 c l = none ↔ c ∉ l
  | [] => by simp [splitAt1]
  | x :: xs => by
    unfold splitAt1
    by_cases hx : x = c
    · subst hx; simp
    · simp only [hx, if_false]
      cases hs : splitAt1 c xs with
      | none =>
        have := (splitAt1_none (l := xs)).1 hs
        simp [this, Ne.symm hx]
      | some p =>
        obtain ⟨a, b⟩ := p
        have := (splitAt1_some.1 hs)
        simp only [reduceCtorEq, false_iff, Classical.not_not]
        rw [this.2]
        simp

/-! ### the declarative grammar -/

/-- `key = "mavl-" ++ x ++ "-" ++ rest`, no dash in `x`: `x` is the executor segment of the key. -/
def OwnerOf (key x : Bytes) : Prop := ∃ rest, dash ∉ x ∧ key = mavlPrefix ++ (x ++ dash :: rest)

/-- `key = ????? ++ x ++ "-" ++ y ++ "-exec-" ++ a ++ ":" ++ tail` (x, y without dash, a without colon):
`a` is the address whose deposit area (inside executor `x`, symbol `y`) the key lies in. -/
def DepositOf (key a : Bytes) : Prop :=
  ∃ p x y tail, p.length = 5 ∧ dash ∉ x ∧ dash ∉ y ∧ colon ∉ a ∧
    key = p ++ (x ++ dash :: (y ++ dash :: (execSeg ++ dash :: (a ++ colon :: tail))))

theorem isPrefixOf_iff {p l : Bytes} : p.isPrefixOf l = true ↔ ∃ t, l = p ++ t := by
  rw [List.isPrefixOf_iff_prefix]
  constructor
  · rintro ⟨t, h⟩; exact ⟨t, h.symm⟩
  · rintro ⟨t, h⟩; exact ⟨t, h.symm⟩

theorem findExecer_ok {key x : Bytes} : findExecer key = .ok x ↔ OwnerOf key x := by
  unfold findExecer OwnerOf
  by_cases hp : mavlPrefix.isPrefixOf key = true
  · obtain ⟨t, ht⟩ := isPrefixOf_iff.1 hp
    subst ht
    have hd : (mavlPrefix ++ t).drop 5 = t := by simp [mavlPrefix]
    simp only [hp, if_true, hd]
    cases hs : splitAt1 dash t with
    | none =>
      simp only [reduceCtorEq, false_iff]
      rintro ⟨rest, _, he⟩
      have := List.append_cancel_left he
      subst this
      have := splitAt1_none.1 hs
      simp at this
    | some q =>
      obtain ⟨a, b⟩ := q
      have h1 := splitAt1_some.1 hs
      simp only [Except.ok.injEq]
      constructor
      · intro h; subst h; exact ⟨b, h1.1, by rw [h1.2]⟩
      · rintro ⟨rest, hn, he⟩
        have he' := List.append_cancel_left he
        have := (splitAt1_some (c := dash) (l := t) (a := x) (b := rest)).2 ⟨hn, he'⟩
        rw [hs] at this
        injection this with this
        injection this
  · simp only [hp]
    simp only [Bool.false_eq_true, if_false, reduceCtorEq, false_iff]
    rintro ⟨rest, _, he⟩
    exact hp (isPrefixOf_iff.2 ⟨_, he⟩)

theorem findExecer_error {key : Bytes} : (∃ e, findExecer key = .error e) ↔ ¬ ∃ x, OwnerOf key x := by
  constructor
  · rintro ⟨e, he⟩ ⟨x, hx⟩
    rw [findExecer_ok.2 hx] at he; cases he
  · intro h
    cases hf : findExecer key with
    | error e => exact ⟨e, rfl⟩
    | ok x => exact absurd ⟨x, findExecer_ok.1 hf⟩ h

theorem drop5_eq {key r : Bytes} (h : key.drop 5 = r) (hr : r ≠ []) : ∃ p, p.length = 5 ∧ key = p ++ r := by
  refine ⟨key.take 5, ?_, ?_⟩
  · have : 5 < key.length ∨ key.length ≤ 5 := by omega
    rcases this with h5 | h5
    · simp [List.length_take]; omega
    · have : key.drop 5 = [] := List.drop_eq_nil_of_le h5
      rw [this] at h; exact absurd h.symm hr
  · rw [← h]; simp

theorem getExecKey_some {key a : Bytes} : getExecKey key = some a ↔ DepositOf key a := by
  unfold getExecKey DepositOf
  constructor
  · intro h
    cases h1 : splitAt1 dash (key.drop 5) with
    | none => simp [h1] at h
    | some q1 =>
      obtain ⟨x, r1⟩ := q1
      simp only [h1] at h
      cases h2 : splitAt1 dash r1 with
      | none => simp [h2] at h
      | some q2 =>
        obtain ⟨y, r2⟩ := q2
        simp only [h2] at h
        cases h3 : splitAt1 dash r2 with
        | none => simp [h3] at h
        | some q3 =>
          obtain ⟨z, r3⟩ := q3
          simp only [h3] at h
          by_cases hz : z = execSeg
          · simp only [hz, if_true] at h
            cases h4 : splitAt1 colon r3 with
            | none => simp [h4] at h
            | some q4 =>
              obtain ⟨a', tail⟩ := q4
              simp only [h4, Option.some.injEq] at h
              subst h
              have e1 := splitAt1_some.1 h1
              have e2 := splitAt1_some.1 h2
              have e3 := splitAt1_some.1 h3
              have e4 := splitAt1_some.1 h4
              obtain ⟨p, hp, hk⟩ := drop5_eq e1.2 (by simp)
              refine ⟨p, x, y, tail, hp, e1.1, e2.1, e4.1, ?_⟩
              rw [hk, e2.2, e3.2, e4.2, hz]
          · simp [hz] at h
  · rintro ⟨p, x, y, tail, hp, hx, hy, ha, hk⟩
    have hd : key.drop 5 = x ++ dash :: (y ++ dash :: (execSeg ++ dash :: (a ++ colon :: tail))) := by
      rw [hk, List.drop_append_of_le_length (by omega)]
      simp [hp]
    rw [hd]
    rw [(splitAt1_some (c := dash)).2 ⟨hx, rfl⟩]
    simp only
    rw [(splitAt1_some (c := dash)).2 ⟨hy, rfl⟩]
    simp only
    have hes : dash ∉ execSeg := by decide
    rw [(splitAt1_some (c := dash)).2 ⟨hes, rfl⟩]
    simp only [if_true]
    rw [(splitAt1_some (c := colon)).2 ⟨ha, rfl⟩]

end C12
