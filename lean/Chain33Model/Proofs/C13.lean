import Chain33Model.Model.C13
/-! Helper lemmas for C13. -/
namespace C13

/-- the comparison used for sorting is a linear order (true of Go's string `<=`). -/
structure LinOrd {α : Type} (le : α → α → Bool) : Prop where
  total : ∀ a b, le a b = true ∨ le b a = true
  trans : ∀ a b c, le a b = true → le b c = true → le a c = true
  antisymm : ∀ a b, le a b = true → le b a = true → a = b

theorem ins_comm {α : Type} {le : α → α → Bool} (h : LinOrd le) (a b : α) (l : List α) :
    ins le a (ins le b l) = ins le b (ins le a l) := by
  induction l with
  | nil =>
    simp only [ins]
    cases hab : le a b <;> cases hba : le b a <;> simp [ins, hab, hba]
    · rcases h.total a b with x | x <;> simp_all
    · have := h.antisymm a b hab hba; subst this; simp
  | cons c rest ih =>
    simp only [ins]
    cases hbc : le b c <;> cases hac : le a c <;> simp only [ins, hbc, hac, if_true, if_false, Bool.false_eq_true]
    · rw [ih]
    · cases hba : le b a
      · simp [hbc]
      · have := h.trans b a c hba hac; simp_all
    · cases hab : le a b
      · simp [hac]
      · have := h.trans a b c hab hbc; simp_all
    · cases hab : le a b <;> cases hba : le b a <;> simp [hab, hba, hbc, hac]
      · rcases h.total a b with x | x <;> simp_all
      · have := h.antisymm a b hab hba; subst this; simp

theorem length_foldl_set {α : Type} (arr : List (Nat × α)) (acc : List (Option α)) :
    (arr.foldl (fun acc p => acc.set p.1 (some p.2)) acc).length = acc.length := by
  induction arr generalizing acc with
  | nil => rfl
  | cons p rest ih => simp [List.foldl_cons, ih]

theorem foldl_set_keep {α : Type} (arr : List (Nat × α)) (i : Nat) (hnot : ∀ q ∈ arr, q.1 ≠ i) (acc : List (Option α)) :
    (arr.foldl (fun acc p => acc.set p.1 (some p.2)) acc)[i]? = acc[i]? := by
  induction arr generalizing acc with
  | nil => rfl
  | cons q rest ih =>
    simp only [List.foldl_cons]
    rw [ih (fun x hx => hnot x (by simp [hx])), List.getElem?_set_ne (hnot q (by simp))]

theorem getElem?_foldl_set {α : Type} (arr : List (Nat × α)) (hn : (arr.map (·.1)).Nodup) (acc : List (Option α))
    (i : Nat) (v : α) (hm : (i, v) ∈ arr) (hi : i < acc.length) :
    (arr.foldl (fun acc p => acc.set p.1 (some p.2)) acc)[i]? = some (some v) := by
  induction arr generalizing acc with
  | nil => simp at hm
  | cons p rest ih =>
    simp only [List.map_cons, List.nodup_cons] at hn
    simp only [List.foldl_cons]
    rcases List.mem_cons.mp hm with e | e
    · subst e
      have hnot : ∀ q ∈ rest, q.1 ≠ i := by
        intro q hq e
        apply hn.1
        simp only [List.mem_map]
        exact ⟨q, hq, e⟩
      rw [foldl_set_keep rest i hnot]
      simp [hi]
    · exact ih hn.2 _ e (by simp [hi])

/-! ### DelDupKey: specification side -/

/-- first occurrences, in order. -/
def firstOcc {K : Type} [DecidableEq K] : List K → List K
  | [] => []
  | k :: rest => k :: (firstOcc rest).filter (fun x => x ≠ k)

/-- the value of the last occurrence of `k`. -/
def lastVal {K V : Type} [DecidableEq K] (l : List (K × V)) (k : K) : Option V :=
  ((l.filter (fun p => p.1 = k)).getLast?).map (·.2)

theorem mem_firstOcc {K : Type} [DecidableEq K] (l : List K) (k : K) : k ∈ firstOcc l ↔ k ∈ l := by
  induction l with
  | nil => simp [firstOcc]
  | cons a t ih =>
    simp only [firstOcc, List.mem_cons, List.mem_filter, ih, decide_eq_true_eq]
    constructor
    · rintro (e | ⟨h, _⟩)
      · exact Or.inl e
      · exact Or.inr h
    · rintro (e | h)
      · exact Or.inl e
      · by_cases e : k = a
        · exact Or.inl e
        · exact Or.inr ⟨h, e⟩

theorem firstOcc_snoc {K : Type} [DecidableEq K] (l : List K) (k : K) :
    firstOcc (l ++ [k]) = if k ∈ l then firstOcc l else firstOcc l ++ [k] := by
  induction l with
  | nil => simp [firstOcc]
  | cons a t ih =>
    simp only [List.cons_append, firstOcc, ih]
    by_cases e : k = a
    · subst e
      by_cases h : k ∈ t
      · simp [h]
      · simp [h, List.filter_append]
    · have e' : ¬ a = k := fun x => e x.symm
      by_cases h : k ∈ t
      · simp [h]
      · simp [h, e, List.filter_append]

theorem lastVal_snoc {K V : Type} [DecidableEq K] (l : List (K × V)) (kv : K × V) (k : K) :
    lastVal (l ++ [kv]) k = if kv.1 = k then some kv.2 else lastVal l k := by
  unfold lastVal
  by_cases e : kv.1 = k
  · simp [e, List.filter_append, List.getLast?_append]
  · simp [e, List.filter_append]

/-- the loop invariant of `DelDupKey` after the prefix `p`. -/
def DelDupInv {K V : Type} [DecidableEq K] (out p : List (K × V)) : Prop :=
  out.map (·.1) = firstOcc (p.map (·.1)) ∧ ∀ k v, (k, v) ∈ out → lastVal p k = some v

theorem delDupStep_inv {K V : Type} [DecidableEq K] (out p : List (K × V)) (kv : K × V) (h : DelDupInv out p) :
    DelDupInv (delDupStep out kv) (p ++ [kv]) := by
  obtain ⟨hk, hv⟩ := h
  have hmem : (out.any (fun q => q.1 = kv.1)) = true ↔ kv.1 ∈ p.map (·.1) := by
    rw [← mem_firstOcc, ← hk]
    simp only [List.any_eq_true, decide_eq_true_eq, List.mem_map]
  unfold delDupStep
  by_cases hany : (out.any (fun q => q.1 = kv.1)) = true
  · have hin := hmem.mp hany
    simp only [hany, if_true]
    constructor
    · rw [List.map_append, List.map_cons, List.map_nil, firstOcc_snoc, if_pos hin, ← hk, List.map_map]
      apply List.map_congr_left
      intro q _
      simp only [Function.comp]
      by_cases e : q.1 = kv.1 <;> simp [e]
    · intro k v hm
      simp only [List.mem_map] at hm
      obtain ⟨q, hq, e⟩ := hm
      rw [lastVal_snoc]
      by_cases e2 : q.1 = kv.1
      · simp only [e2, if_true] at e
        subst e; simp
      · simp only [e2, if_false] at e
        subst e
        have : ¬ kv.1 = k := fun x => e2 x.symm
        simp only [this, if_false]
        exact hv k v hq
  · have hnin : ¬ kv.1 ∈ p.map (·.1) := fun x => hany (hmem.mpr x)
    simp only [hany, Bool.false_eq_true, if_false]
    constructor
    · simp only [List.map_append, List.map_cons, List.map_nil]
      rw [firstOcc_snoc, if_neg hnin, hk]
    · intro k v hm
      rw [lastVal_snoc]
      rcases List.mem_append.mp hm with h1 | h1
      · have hkin : k ∈ p.map (·.1) := by
          rw [← mem_firstOcc, ← hk]; simp only [List.mem_map]; exact ⟨(k, v), h1, rfl⟩
        have : ¬ kv.1 = k := fun x => hnin (x ▸ hkin)
        simp only [this, if_false]
        exact hv k v h1
      · simp at h1; rw [← h1]; simp

theorem delDup_inv {K V : Type} [DecidableEq K] (rest out p : List (K × V)) (h : DelDupInv out p) :
    DelDupInv (rest.foldl delDupStep out) (p ++ rest) := by
  induction rest generalizing out p with
  | nil => simpa using h
  | cons kv t ih =>
    simp only [List.foldl_cons]
    have := ih _ _ (delDupStep_inv out p kv h)
    simpa [List.append_assoc] using this

end C13
