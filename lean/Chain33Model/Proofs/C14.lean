import Chain33Model.Model.C14
/-! Helper lemmas for C14: store algebra, cache coherence of `run`, per-key projection of `exec`. -/
namespace C14

theorem get_del (m : Store) (k k' : Key) : get (del m k) k' = if k = k' then none else get m k' := by
  induction m with
  | nil => simp [del, get]
  | cons p rest ih =>
    obtain ⟨a, v⟩ := p
    simp only [del] at ih ⊢
    by_cases h : a = k
    · subst h
      simp only [List.filter, ne_eq, not_true_eq_false, decide_false]
      rw [ih]
      by_cases h2 : a = k'
      · simp [h2]
      · simp [h2, get]
    · simp only [List.filter, ne_eq, h, not_false_eq_true, decide_true, get]
      rw [ih]
      by_cases h2 : a = k'
      · subst h2
        have : ¬ k = a := fun e => h e.symm
        simp [this]
      · simp [h2]

theorem get_set (m : Store) (k : Key) (v : Val) (k' : Key) :
    get (set m k v) k' = if k = k' then some v else get m k' := by
  simp only [set, get]
  by_cases h : k = k'
  · simp [h]
  · simp [h, get_del]

theorem get_upd (m : Store) (k : Key) (v : Option Val) (k' : Key) :
    get (upd m k v) k' = if k = k' then v else get m k' := by
  cases v with
  | none => simp [upd, get_del]
  | some x => simp [upd, get_set]

theorem applyKVs_cons (m : Store) (k : Key) (v : Option Val) (l : List KV) :
    applyKVs m ((k, v) :: l) = applyKVs (upd m k v) l := by
  cases v <;> simp [applyKVs, upd]

theorem applyKVs_append (m : Store) (l1 l2 : List KV) :
    applyKVs m (l1 ++ l2) = applyKVs (applyKVs m l1) l2 := by
  induction l1 generalizing m with
  | nil => simp [applyKVs]
  | cons p rest ih =>
    obtain ⟨k, v⟩ := p
    simp only [List.cons_append, applyKVs_cons]
    exact ih _

/-- **cache coherence**: applying the returned KV list to the database (AddTxs/DelTxs) reproduces exactly
the block-local cache the hooks worked on. -/
theorem applyKVs_run (m : Store) (steps : List Step) : applyKVs m (run m steps) = exec m steps := by
  induction steps generalizing m with
  | nil => simp [run, exec, applyKVs]
  | cons s rest ih =>
    cases s with
    | put k v =>
      simp only [run, exec, applyKVs_cons]
      exact ih _
    | bump k d =>
      simp only [run, exec, applyKVs_append]
      have : applyKVs m (bump m k d).2 = (bump m k d).1 := by
        unfold bump
        cases readInt (get m k) <;> simp [applyKVs]
      rw [this]
      exact ih _

theorem exec_append (m : Store) (s1 s2 : List Step) : exec m (s1 ++ s2) = exec (exec m s1) s2 := by
  induction s1 generalizing m with
  | nil => simp [exec]
  | cons s rest ih =>
    cases s <;> simp [exec, ih]

/-- effect of one step on the value stored under its own key. -/
def stepVal (cur : Option Val) : Step → Option Val
  | .put _ v => v
  | .bump _ d => match readInt cur with
    | none => cur
    | some n => some (.int (n + d))

theorem get_bump (m : Store) (k : Key) (d : Int) (k' : Key) :
    get (bump m k d).1 k' = if k = k' then stepVal (get m k) (.bump k d) else get m k' := by
  unfold bump stepVal
  cases h : readInt (get m k) with
  | none => by_cases e : k = k' <;> simp [e]
  | some n => simp [get_set]

/-- **per-key projection**: the value of key `k` after a run of steps only depends on its value before and on
the steps that name `k`. -/
theorem get_exec (m : Store) (steps : List Step) (k : Key) :
    get (exec m steps) k = (steps.filter (fun s => s.key = k)).foldl stepVal (get m k) := by
  induction steps generalizing m with
  | nil => simp [exec]
  | cons s rest ih =>
    cases s with
    | put k' v =>
      simp only [exec]
      rw [ih]
      rw [get_upd]
      by_cases e : k' = k
      · simp [List.filter, Step.key, e, stepVal]
      · simp [List.filter, Step.key, e]
    | bump k' d =>
      simp only [exec]
      rw [ih, get_bump]
      by_cases e : k' = k
      · subst e; simp [List.filter, Step.key]
      · simp [List.filter, Step.key, e]

/-! ### per-key balance conditions -/

def proj (k : Key) (l : List Step) : List Step := l.filter (fun s => s.key = k)

theorem proj_append (k : Key) (a b : List Step) : proj k (a ++ b) = proj k a ++ proj k b := by
  simp [proj]

def Step.isBump : Step → Bool
  | .bump _ _ => true
  | .put _ _ => false

def Step.delta : Step → Int
  | .bump _ d => d
  | .put _ _ => 0

def deltaSum : List Step → Int
  | [] => 0
  | s :: rest => s.delta + deltaSum rest

theorem deltaSum_append (a b : List Step) : deltaSum (a ++ b) = deltaSum a + deltaSum b := by
  induction a with
  | nil => simp [deltaSum]
  | cons s rest ih => simp [deltaSum, ih, Int.add_assoc]

theorem readInt_int (n : Int) : readInt (some (.int n)) = some n := rfl

/-- a run of counter updates adds up. -/
theorem foldl_bumps (l : List Step) (hb : ∀ s ∈ l, s.isBump = true) (v0 : Option Val) :
    l.foldl stepVal v0 =
      match readInt v0 with
      | none => v0
      | some n => if l = [] then v0 else some (.int (n + deltaSum l)) := by
  induction l generalizing v0 with
  | nil => cases h : readInt v0 <;> simp
  | cons s rest ih =>
    have hs := hb s (by simp)
    have hr : ∀ s ∈ rest, s.isBump = true := fun x hx => hb x (by simp [hx])
    cases s with
    | put k v => simp [Step.isBump] at hs
    | bump k d =>
      simp only [List.foldl_cons]
      rw [ih hr]
      cases h : readInt v0 with
      | none => simp [stepVal, h]
      | some n =>
        simp only [stepVal, h, readInt_int]
        by_cases e : rest = []
        · subst e; simp [deltaSum, Step.delta]
        · simp [e, deltaSum, Step.delta, Int.add_assoc]

/-- a non-empty run of deletions ends in "absent". -/
theorem foldl_putNone (l : List Step) (hp : ∀ s ∈ l, ∃ k, s = Step.put k none) (hne : l ≠ []) (v0 : Option Val) :
    l.foldl stepVal v0 = none := by
  induction l generalizing v0 with
  | nil => exact absurd rfl hne
  | cons s rest ih =>
    obtain ⟨k, hk⟩ := hp s (by simp)
    subst hk
    simp only [List.foldl_cons, stepVal]
    by_cases e : rest = []
    · subst e; simp
    · exact ih (fun x hx => hp x (by simp [hx])) e none

theorem obsEq_refl (a : Option Val) : obsEq a a := Or.inl rfl

theorem readInt_obs {v0 : Option Val} {n : Int} (h : readInt v0 = some n) : obsEq (some (.int n)) v0 := by
  unfold obsEq
  cases v0 with
  | none =>
    simp [readInt] at h; subst h
    right; exact ⟨Or.inr ⟨_, rfl, by simp [Val.isEmptyEnc]⟩, Or.inl rfl⟩
  | some v =>
    cases v with
    | int x => simp [readInt] at h; subst h; left; rfl
    | blob b =>
      simp only [readInt] at h
      split at h
      · rename_i he
        simp at h; subst h
        right; exact ⟨Or.inr ⟨_, rfl, by simp [Val.isEmptyEnc]⟩, Or.inr ⟨_, rfl, he⟩⟩
      · simp at h
    | fee f c =>
      simp only [readInt] at h
      split at h
      · rename_i he
        simp at h; subst h
        right; exact ⟨Or.inr ⟨_, rfl, by simp [Val.isEmptyEnc]⟩, Or.inr ⟨_, rfl, he⟩⟩
      · simp at h
    | keys ks =>
      simp only [readInt] at h
      split at h
      · rename_i he
        simp at h; subst h
        right; exact ⟨Or.inr ⟨_, rfl, by simp [Val.isEmptyEnc]⟩, Or.inr ⟨_, rfl, he⟩⟩
      · simp at h

/-- the counter case: only counter updates name `k`, and they cancel. -/
def CounterBalanced (k : Key) (sa sd : List Step) : Prop :=
  (∀ s ∈ proj k sa, s.isBump = true) ∧ (∀ s ∈ proj k sd, s.isBump = true) ∧
    deltaSum (proj k sa) + deltaSum (proj k sd) = 0

/-- the slot case: only puts name `k`; the removal side deletes; both sides name it or neither does; a named
key was absent before. -/
def SlotBalanced (m : Store) (k : Key) (sa sd : List Step) : Prop :=
  (∀ s ∈ proj k sd, ∃ k', s = Step.put k' none) ∧ (∀ s ∈ proj k sa, s.isBump = false) ∧
    (proj k sa = [] ↔ proj k sd = []) ∧ (proj k sa ≠ [] → get m k = none)

theorem foldl_puts_irrelevant (l : List Step) (hp : ∀ s ∈ l, s.isBump = false) (hne : l ≠ []) (v0 v1 : Option Val) :
    l.foldl stepVal v0 = l.foldl stepVal v1 := by
  induction l generalizing v0 v1 with
  | nil => exact absurd rfl hne
  | cons s rest ih =>
    cases s with
    | bump k d => have := hp (.bump k d) (by simp); simp [Step.isBump] at this
    | put k v => simp [stepVal]

theorem key_restored (m : Store) (k : Key) (sa sd : List Step)
    (h : CounterBalanced k sa sd ∨ SlotBalanced m k sa sd) :
    obsEq (get (exec m (sa ++ sd)) k) (get m k) := by
  rw [get_exec]
  show obsEq ((proj k (sa ++ sd)).foldl stepVal (get m k)) (get m k)
  rw [proj_append]
  rcases h with ⟨ha, hd, hs⟩ | ⟨hd, ha, hiff, hfresh⟩
  · have hall : ∀ s ∈ proj k sa ++ proj k sd, s.isBump = true := by
      intro s hs'
      rcases List.mem_append.mp hs' with h1 | h1
      · exact ha s h1
      · exact hd s h1
    rw [foldl_bumps _ hall]
    cases hr : readInt (get m k) with
    | none => exact obsEq_refl _
    | some n =>
      simp only
      by_cases e : proj k sa ++ proj k sd = []
      · simp [e]; exact obsEq_refl _
      · simp only [e, if_false, deltaSum_append, hs, Int.add_zero]
        exact readInt_obs hr
  · rw [List.foldl_append]
    by_cases e : proj k sd = []
    · have ea := hiff.mpr e
      simp [e, ea]; exact obsEq_refl _
    · rw [foldl_putNone _ hd e]
      have ea : proj k sa ≠ [] := fun x => e (hiff.mp x)
      rw [hfresh ea]; exact obsEq_refl _

/-! ### mirrored step lists (the index plugins): the removal side deletes what the add side put and
decrements what it incremented, position by position -/

def Key.isCounter : Key → Bool
  | .count _ => true
  | .recv _ => true
  | _ => false

inductive Mirror : Step → Step → Prop where
  | put (k : Key) (v : Val) (h : k.isCounter = false) : Mirror (.put k (some v)) (.put k none)
  | bump (k : Key) (d : Int) (h : k.isCounter = true) : Mirror (.bump k d) (.bump k (-d))

inductive MirrorL : List Step → List Step → Prop where
  | nil : MirrorL [] []
  | cons {s s' : Step} {a d : List Step} : Mirror s s' → MirrorL a d → MirrorL (s :: a) (s' :: d)

theorem MirrorL.append {a d a' d' : List Step} (h : MirrorL a d) (h' : MirrorL a' d') :
    MirrorL (a ++ a') (d ++ d') := by
  induction h with
  | nil => simpa using h'
  | cons hm _ ih => exact MirrorL.cons hm ih

theorem Mirror.key_eq {s s' : Step} (h : Mirror s s') : s.key = s'.key := by
  cases h <;> rfl

theorem MirrorL.proj {a d : List Step} (h : MirrorL a d) (k : Key) : MirrorL (proj k a) (proj k d) := by
  induction h with
  | nil => exact MirrorL.nil
  | cons hm _ ih =>
    rename_i s s' a d _
    have hk := hm.key_eq
    by_cases e : s.key = k
    · have e' : s'.key = k := hk ▸ e
      simp only [C14.proj, List.filter, e, e', decide_true] at ih ⊢
      exact MirrorL.cons hm ih
    · have e' : ¬ s'.key = k := fun x => e (hk ▸ x)
      simp only [C14.proj, List.filter, e, e', decide_false] at ih ⊢
      exact ih

theorem MirrorL.deltaSum {a d : List Step} (h : MirrorL a d) : deltaSum a + deltaSum d = 0 := by
  induction h with
  | nil => simp [C14.deltaSum]
  | cons hm _ ih =>
    cases hm with
    | put k v hk => simp [C14.deltaSum, Step.delta, ih]
    | bump k x hk => simp only [C14.deltaSum, Step.delta]; omega

theorem MirrorL.nil_iff {a d : List Step} (h : MirrorL a d) : a = [] ↔ d = [] := by
  cases h <;> simp

theorem mem_proj {k : Key} {l : List Step} {s : Step} (h : s ∈ proj k l) : s ∈ l ∧ s.key = k := by
  simp only [proj, List.mem_filter, decide_eq_true_eq] at h; exact h

/-- what a mirrored pair of lists says about the steps that name `k`. -/
theorem MirrorL.sides {a d : List Step} (h : MirrorL a d) :
    (∀ s ∈ a, s.isBump = s.key.isCounter) ∧ (∀ s ∈ d, s.isBump = s.key.isCounter) ∧
      (∀ s ∈ d, s.isBump = false → ∃ k', s = Step.put k' none) := by
  induction h with
  | nil => simp
  | cons hm _ ih =>
    obtain ⟨i1, i2, i3⟩ := ih
    cases hm with
    | put k v hk =>
      refine ⟨?_, ?_, ?_⟩
      · intro s hs; rcases List.mem_cons.mp hs with e | e
        · subst e; simp [Step.isBump, Step.key, hk]
        · exact i1 s e
      · intro s hs; rcases List.mem_cons.mp hs with e | e
        · subst e; simp [Step.isBump, Step.key, hk]
        · exact i2 s e
      · intro s hs hb; rcases List.mem_cons.mp hs with e | e
        · subst e; exact ⟨k, rfl⟩
        · exact i3 s e hb
    | bump k x hk =>
      refine ⟨?_, ?_, ?_⟩
      · intro s hs; rcases List.mem_cons.mp hs with e | e
        · subst e; simp [Step.isBump, Step.key, hk]
        · exact i1 s e
      · intro s hs; rcases List.mem_cons.mp hs with e | e
        · subst e; simp [Step.isBump, Step.key, hk]
        · exact i2 s e
      · intro s hs hb; rcases List.mem_cons.mp hs with e | e
        · subst e; simp [Step.isBump] at hb
        · exact i3 s e hb

/-- the put keys of a step list. -/
def putKeys : List Step → List Key
  | [] => []
  | .put k _ :: rest => k :: putKeys rest
  | .bump _ _ :: rest => putKeys rest

theorem mem_putKeys {l : List Step} {k : Key} {v : Option Val} (h : Step.put k v ∈ l) : k ∈ putKeys l := by
  induction l with
  | nil => simp at h
  | cons s rest ih =>
    rcases List.mem_cons.mp h with e | e
    · subst e; simp [putKeys]
    · cases s <;> simp [putKeys, ih e]

theorem mirror_balanced (m : Store) {a d : List Step} (h : MirrorL a d) (k : Key)
    (hfresh : k ∈ putKeys a → get m k = none) :
    CounterBalanced k a d ∨ SlotBalanced m k a d := by
  have hp := h.proj k
  obtain ⟨s1, s2, s3⟩ := hp.sides
  cases hc : k.isCounter with
  | true =>
    left
    refine ⟨?_, ?_, hp.deltaSum⟩
    · intro s hs; rw [s1 s hs, (mem_proj hs).2, hc]
    · intro s hs; rw [s2 s hs, (mem_proj hs).2, hc]
  | false =>
    right
    refine ⟨?_, ?_, hp.nil_iff, ?_⟩
    · intro s hs; exact s3 s hs (by rw [s2 s hs, (mem_proj hs).2, hc])
    · intro s hs; rw [s1 s hs, (mem_proj hs).2, hc]
    · intro hne
      cases hpa : proj k a with
      | nil => exact absurd hpa hne
      | cons s rest =>
        have hs : s ∈ proj k a := by rw [hpa]; simp
        have hb : s.isBump = false := by rw [s1 s hs, (mem_proj hs).2, hc]
        obtain ⟨hmem, hkey⟩ := mem_proj hs
        cases s with
        | bump k' x => simp [Step.isBump] at hb
        | put k' v =>
          simp [Step.key] at hkey; subst hkey
          exact hfresh (mem_putKeys hmem)

/-! ### the plugin generators are mirrored -/

theorem mirror_feeIdx (h : Nat) (txs : List Tx) (i : Nat) :
    MirrorL (feeIdxSteps true h i txs) (feeIdxSteps false h i txs) := by
  induction txs generalizing i with
  | nil => exact MirrorL.nil
  | cons t rest ih =>
    simp only [feeIdxSteps]
    apply MirrorL.append _ (ih _)
    by_cases e : t.sender.isEmpty
    · simp [e]; exact MirrorL.nil
    · simp only [e]
      exact MirrorL.cons (Mirror.put _ _ rfl) MirrorL.nil

theorem mirror_side (a : Bytes) (dir s : Nat) (info : Bytes) :
    MirrorL (sideSteps true a dir s info) (sideSteps false a dir s info) := by
  unfold sideSteps
  by_cases e : a.isEmpty
  · simp [e]; exact MirrorL.nil
  · simp only [e]
    exact MirrorL.cons (Mirror.put _ _ rfl) (MirrorL.cons (Mirror.put _ _ rfl)
      (MirrorL.cons (by simpa using Mirror.bump (Key.count a) 1 rfl) MirrorL.nil))

theorem mirror_addr (h : Nat) (txs : List Tx) (i : Nat) :
    MirrorL (addrSteps true h i txs) (addrSteps false h i txs) := by
  induction txs generalizing i with
  | nil => exact MirrorL.nil
  | cons t rest ih =>
    simp only [addrSteps]
    exact ((mirror_side _ _ _ _).append (mirror_side _ _ _ _)).append (ih _)

theorem mirror_fee (pf pf' : Int × Int) (b : Block) : MirrorL (feeSteps true pf b) (feeSteps false pf' b) := by
  simp only [feeSteps]
  exact MirrorL.cons (Mirror.put _ _ rfl) MirrorL.nil

theorem mirror_map (l : List (Key × Val)) (hl : ∀ kv ∈ l, kv.1.isCounter = false) :
    MirrorL (l.map fun kv => Step.put kv.1 (if true then some kv.2 else none))
      (l.map fun kv => Step.put kv.1 (if false then some kv.2 else none)) := by
  induction l with
  | nil => exact MirrorL.nil
  | cons kv rest ih =>
    simp only [List.map_cons]
    exact MirrorL.cons (by simpa using Mirror.put kv.1 kv.2 (hl kv (by simp)))
      (ih (fun x hx => hl x (by simp [hx])))

theorem txKVs_notCounter (q : Bool) (t : Tx) : ∀ kv ∈ txKVs q t, kv.1.isCounter = false := by
  intro kv hkv
  simp only [txKVs, List.mem_append, List.mem_singleton] at hkv
  rcases hkv with (e | e) | e
  · subst e; rfl
  · by_cases h : t.eth.isEmpty
    · simp [h] at e
    · simp [h] at e; subst e; rfl
  · cases q
    · simp at e
    · simp at e; subst e; rfl

theorem mirror_txindex (b : Block) : MirrorL (txindexSteps true b) (txindexSteps false b) := by
  unfold txindexSteps
  generalize b.txs = txs
  induction txs with
  | nil => exact MirrorL.nil
  | cons t rest ih =>
    simp only [List.flatMap_cons]
    exact (mirror_map _ (txKVs_notCounter _ _)).append ih

theorem mirror_plugins (pf pf' : Int × Int) (b : Block) :
    MirrorL (pluginSteps true pf b) (pluginSteps false pf' b) := by
  unfold pluginSteps
  exact (((mirror_feeIdx _ _ _).append (mirror_addr _ _ _)).append (mirror_fee _ _ _)).append (mirror_txindex _)

theorem mirror_counter {a d : List Step} (h : MirrorL a d) (k : Key) (hc : k.isCounter = true) :
    CounterBalanced k a d := by
  have hp := h.proj k
  obtain ⟨s1, s2, _⟩ := hp.sides
  refine ⟨?_, ?_, hp.deltaSum⟩
  · intro s hs; rw [s1 s hs, (mem_proj hs).2, hc]
  · intro s hs; rw [s2 s hs, (mem_proj hs).2, hc]

theorem mirror_slot (m : Store) {a d : List Step} (h : MirrorL a d) (k : Key)
    (hfresh : k ∈ putKeys a → get m k = none) (hc : k.isCounter = false) :
    SlotBalanced m k a d := by
  rcases mirror_balanced m h k hfresh with ⟨h1, _, _⟩ | h2
  · -- a counter-balanced non-counter key has no steps at all
    have hp := h.proj k
    obtain ⟨s1, s2, s3⟩ := hp.sides
    refine ⟨?_, ?_, hp.nil_iff, ?_⟩
    · intro s hs; exact s3 s hs (by rw [s2 s hs, (mem_proj hs).2, hc])
    · intro s hs; rw [s1 s hs, (mem_proj hs).2, hc]
    · intro hne
      cases hpa : proj k a with
      | nil => exact absurd hpa hne
      | cons s rest =>
        have hs : s ∈ proj k a := by rw [hpa]; simp
        have : s.isBump = true := h1 s hs
        rw [s1 s hs, (mem_proj hs).2, hc] at this
        exact absurd this (by simp)
  · exact h2

/-! ### coins -/

def sumOver (g : Tx → Int) : List Tx → Int
  | [] => 0
  | t :: rest => g t + sumOver g rest

theorem sumOver_append (g : Tx → Int) (a b : List Tx) : sumOver g (a ++ b) = sumOver g a + sumOver g b := by
  induction a with
  | nil => simp [sumOver]
  | cons t rest ih => simp [sumOver, ih, Int.add_assoc]

theorem sumOver_reverse (g : Tx → Int) (l : List Tx) : sumOver g l.reverse = sumOver g l := by
  induction l with
  | nil => rfl
  | cons t rest ih => simp [sumOver_append, sumOver, ih, Int.add_comm]

theorem deltaSum_proj_flatMap (k : Key) (f : Tx → List Step) (l : List Tx) :
    deltaSum (proj k (l.flatMap f)) = sumOver (fun t => deltaSum (proj k (f t))) l := by
  induction l with
  | nil => rfl
  | cons t rest ih => simp [List.flatMap_cons, proj_append, deltaSum_append, sumOver, ih]

theorem sumOver_neg (g g' : Tx → Int) (l : List Tx) (h : ∀ t ∈ l, g' t = - g t) : sumOver g l + sumOver g' l = 0 := by
  induction l with
  | nil => rfl
  | cons t rest ih =>
    have h1 := h t (by simp)
    have h2 := ih (fun x hx => h x (by simp [hx]))
    simp only [sumOver]; omega

/-- no genesis action of the list executed successfully: `Exec_Genesis` returns ErrReRunGenesis at every height
above 0 (there is no `ExecDelLocal_Genesis`; the genesis block is never removed). -/
def NoGenesisOk (txs : List Tx) : Prop :=
  ∀ t ∈ txs, ∀ a, t.coins = .genesis a → t.rty ≠ execOk

theorem coins_step_neg (k : Key) (t : Tx) (h : ∀ a, t.coins = .genesis a → t.rty ≠ execOk) :
    deltaSum (proj k (coinsDelStep t)) = - deltaSum (proj k (coinsAddStep t)) := by
  unfold coinsDelStep coinsAddStep
  by_cases hr : t.rty ≠ execOk
  · simp [hr, proj, deltaSum]
  · simp only [hr, if_false]
    cases hc : t.coins with
    | none => simp [proj, deltaSum]
    | genesis a => exact absurd (h a hc) hr
    | transfer a =>
      simp only [proj, List.filter, Step.key]
      by_cases e : Key.recv t.to = k <;> simp [e, deltaSum, Step.delta]
    | toExec a =>
      simp only [proj, List.filter, Step.key]
      by_cases e : Key.recv t.to = k <;> simp [e, deltaSum, Step.delta]
    | withdraw a =>
      simp only [proj, List.filter, Step.key]
      by_cases e : Key.recv t.sender = k <;> simp [e, deltaSum, Step.delta]

theorem coinsAddStep_shape (t : Tx) : ∀ s ∈ coinsAddStep t, s.isBump = true ∧ s.key.isCounter = true := by
  intro s hs
  unfold coinsAddStep at hs
  by_cases e : t.rty ≠ execOk
  · simp [e] at hs
  · simp only [e, if_false] at hs
    cases hc : t.coins <;> simp [hc] at hs <;> subst hs <;> simp [Step.isBump, Step.key, Key.isCounter]

theorem coinsDelStep_shape (t : Tx) : ∀ s ∈ coinsDelStep t, s.isBump = true ∧ s.key.isCounter = true := by
  intro s hs
  unfold coinsDelStep at hs
  by_cases e : t.rty ≠ execOk
  · simp [e] at hs
  · simp only [e, if_false] at hs
    cases hc : t.coins <;> simp [hc] at hs <;> subst hs <;> simp [Step.isBump, Step.key, Key.isCounter]

theorem coinsSteps_shape (adding : Bool) (txs : List Tx) :
    ∀ s ∈ coinsSteps adding txs, s.isBump = true ∧ s.key.isCounter = true := by
  intro s hs
  unfold coinsSteps at hs
  cases adding
  · simp only [Bool.false_eq_true, if_false, List.mem_flatMap] at hs
    obtain ⟨t, _, h⟩ := hs; exact coinsDelStep_shape t s h
  · simp only [if_true, List.mem_flatMap] at hs
    obtain ⟨t, _, h⟩ := hs; exact coinsAddStep_shape t s h

theorem coins_counter (k : Key) (txs : List Tx) (H : NoGenesisOk txs) :
    CounterBalanced k (coinsSteps true txs) (coinsSteps false txs) := by
  refine ⟨?_, ?_, ?_⟩
  · intro s hs; exact (coinsSteps_shape true txs s (mem_proj hs).1).1
  · intro s hs; exact (coinsSteps_shape false txs s (mem_proj hs).1).1
  · simp only [coinsSteps, if_true, Bool.false_eq_true, if_false]
    rw [deltaSum_proj_flatMap, deltaSum_proj_flatMap, sumOver_reverse]
    exact sumOver_neg _ _ _ (fun t ht => coins_step_neg k t (H t ht))

theorem proj_eq_nil_of_counter (k : Key) (l : List Step) (hk : k.isCounter = false)
    (hl : ∀ s ∈ l, s.isBump = true ∧ s.key.isCounter = true) : proj k l = [] := by
  simp only [proj, List.filter_eq_nil_iff, decide_eq_true_eq]
  intro s hs e
  have := (hl s hs).2
  rw [e, hk] at this; exact absurd this (by simp)

theorem CounterBalanced.append {k : Key} {a d a' d' : List Step} (h : CounterBalanced k a d)
    (h' : CounterBalanced k a' d') : CounterBalanced k (a ++ a') (d ++ d') := by
  obtain ⟨h1, h2, h3⟩ := h
  obtain ⟨g1, g2, g3⟩ := h'
  refine ⟨?_, ?_, ?_⟩
  · intro s hs; rw [proj_append] at hs
    rcases List.mem_append.mp hs with x | x
    · exact h1 s x
    · exact g1 s x
  · intro s hs; rw [proj_append] at hs
    rcases List.mem_append.mp hs with x | x
    · exact h2 s x
    · exact g2 s x
  · simp only [proj_append, deltaSum_append]; omega

theorem SlotBalanced.append_nil {m : Store} {k : Key} {a d a' d' : List Step} (h : SlotBalanced m k a d)
    (ha : proj k a' = []) (hd : proj k d' = []) : SlotBalanced m k (a ++ a') (d ++ d') := by
  unfold SlotBalanced at *
  simp only [proj_append, ha, hd, List.append_nil]
  exact h

/-! ### applying put-only lists directly -/

theorem get_applyKVs_not_mem (m : Store) (l : List KV) (k : Key) (h : k ∉ l.map Prod.fst) :
    get (applyKVs m l) k = get m k := by
  induction l generalizing m with
  | nil => rfl
  | cons p rest ih =>
    obtain ⟨k', v⟩ := p
    simp only [List.map_cons, List.mem_cons, not_or] at h
    rw [applyKVs_cons, ih _ h.2, get_upd]
    have : ¬ k' = k := fun e => h.1 e.symm
    simp [this]

theorem get_applyKVs_all_none (m : Store) (l : List KV) (k : Key) (hn : ∀ kv ∈ l, kv.2 = none)
    (h : k ∈ l.map Prod.fst) : get (applyKVs m l) k = none := by
  induction l generalizing m with
  | nil => simp at h
  | cons p rest ih =>
    obtain ⟨k', v⟩ := p
    have hv : v = none := hn (k', v) (by simp)
    subst hv
    rw [applyKVs_cons]
    by_cases hr : k ∈ rest.map Prod.fst
    · exact ih _ (fun kv hkv => hn kv (by simp [hkv])) hr
    · rw [get_applyKVs_not_mem _ _ _ hr, get_upd]
      simp only [List.map_cons, List.mem_cons] at h
      rcases h with e | e
      · simp [e]
      · exact absurd e hr

theorem get_applyKVs_last (m : Store) (l : List KV) (k : Key) (v : Val) :
    get (applyKVs m (l ++ [(k, some v)])) k = some v := by
  rw [applyKVs_append, applyKVs_cons]
  simp [applyKVs, get_upd]

end C14
