import Chain33Model.Model.C15
/-!
C15 — definitions used in the property statements (abstract ledger quantities, invariants)
and helper lemmas.  The property theorems themselves are in `Props/C15.lean`.
-/
set_option linter.unusedSectionVars false
set_option linter.unusedSimpArgs false
namespace C15

/-! ## association lists -/
section alist
variable {κ α : Type} [DecidableEq κ]

theorem aget_aset (m : List (κ × α)) (k k' : κ) (v : α) :
    aget (aset m k v) k' = if k = k' then some v else aget m k' := by
  induction m with
  | nil => simp [aset, aget]
  | cons p r ih =>
    obtain ⟨k0, v0⟩ := p
    by_cases h : k0 = k
    · subst h; simp only [aset, aget, if_true]
      by_cases h2 : k0 = k' <;> simp [h2]
    · simp only [aset, h, if_false, aget, ih]
      by_cases h2 : k0 = k'
      · subst h2; simp [Ne.symm h]
      · simp [h2]

theorem aget_aset_self (m : List (κ × α)) (k : κ) (v : α) : aget (aset m k v) k = some v := by
  simp [aget_aset]

theorem aget_mem {m : List (κ × α)} {k : κ} {v : α} (h : aget m k = some v) : (k, v) ∈ m := by
  induction m with
  | nil => simp [aget] at h
  | cons p r ih =>
    obtain ⟨k0, v0⟩ := p
    by_cases h0 : k0 = k
    · subst h0; simp [aget] at h; subst h; simp
    · simp [aget, h0] at h; exact List.mem_cons_of_mem _ (ih h)

/-- every binding satisfies `P`. -/
def AllV (P : κ → α → Prop) (m : List (κ × α)) : Prop := ∀ k v, (k, v) ∈ m → P k v

omit [DecidableEq κ] in
theorem allv_nil (P : κ → α → Prop) : AllV P ([] : List (κ × α)) := by
  intro k v h; cases h

theorem allv_aset {P : κ → α → Prop} {m : List (κ × α)} (hm : AllV P m) {k : κ} {v : α}
    (hv : P k v) : AllV P (aset m k v) := by
  induction m with
  | nil => intro k' v' h; simp [aset] at h; obtain ⟨rfl, rfl⟩ := h; exact hv
  | cons p r ih =>
    obtain ⟨k0, v0⟩ := p
    have hr : AllV P r := fun a b hab => hm a b (List.mem_cons_of_mem _ hab)
    by_cases h0 : k0 = k
    · subst h0
      intro k' v' h
      simp only [aset, if_true, List.mem_cons] at h
      rcases h with h | h
      · cases h; exact hv
      · exact hr _ _ h
    · intro k' v' h
      simp only [aset, h0, if_false, List.mem_cons] at h
      rcases h with h | h
      · cases h; exact hm _ _ (by simp)
      · exact ih hr _ _ h

theorem allv_get {P : κ → α → Prop} {m : List (κ × α)} (hm : AllV P m) {k : κ} {v : α}
    (h : aget m k = some v) : P k v := hm _ _ (aget_mem h)

omit [DecidableEq κ] in
theorem allv_mono {P Q : κ → α → Prop} {m : List (κ × α)} (hm : AllV P m)
    (h : ∀ k v, P k v → Q k v) : AllV Q m := fun k v hkv => h k v (hm k v hkv)

/-- sum of `f` over the bindings whose key satisfies `p`. -/
def asumP (p : κ → Bool) (f : α → Int) : List (κ × α) → Int
  | [] => 0
  | (k, v) :: r => (if p k then f v else 0) + asumP p f r

/-- value of an optional record under `f` (absent = 0). -/
def oval (f : α → Int) : Option α → Int
  | some o => f o
  | none => 0

omit [DecidableEq κ] in
@[simp] theorem oval_some (f : α → Int) (o : α) : oval f (some o) = f o := rfl
omit [DecidableEq κ] in
@[simp] theorem oval_none (f : α → Int) : oval f (none : Option α) = 0 := rfl

/-- the contribution of key `k` to `asumP`. -/
def aterm (p : κ → Bool) (f : α → Int) (m : List (κ × α)) (k : κ) : Int :=
  if p k then oval f (aget m k) else 0

theorem asumP_aset (p : κ → Bool) (f : α → Int) (m : List (κ × α)) (k : κ) (v : α) :
    asumP p f (aset m k v) = asumP p f m - aterm p f m k + (if p k then f v else 0) := by
  induction m with
  | nil => simp [aset, asumP, aterm, aget]
  | cons q r ih =>
    obtain ⟨k0, v0⟩ := q
    by_cases h0 : k0 = k
    · subst h0
      simp only [aset, if_true, asumP, aterm, aget, oval_some]
      split <;> omega
    · simp only [aset, h0, if_false, asumP, ih, aterm, aget]
      omega

omit [DecidableEq κ] in
theorem asumP_nonneg (p : κ → Bool) (f : α → Int) (m : List (κ × α))
    (hf : AllV (fun _ v => 0 ≤ f v) m) : 0 ≤ asumP p f m := by
  induction m with
  | nil => simp [asumP]
  | cons q r ih =>
    obtain ⟨k0, v0⟩ := q
    have hr : AllV (fun _ v => 0 ≤ f v) r := fun a b hab => hf a b (List.mem_cons_of_mem _ hab)
    have h0v : 0 ≤ f v0 := hf k0 v0 (by simp)
    have := ih hr
    simp only [asumP]; split <;> omega

theorem aterm_le_asumP (p : κ → Bool) (f : α → Int) (m : List (κ × α))
    (hf : AllV (fun _ v => 0 ≤ f v) m) (k : κ) : aterm p f m k ≤ asumP p f m := by
  induction m with
  | nil => simp [aterm, aget, asumP]
  | cons q r ih =>
    obtain ⟨k0, v0⟩ := q
    have hr : AllV (fun _ v => 0 ≤ f v) r := fun a b hab => hf a b (List.mem_cons_of_mem _ hab)
    have h0v : 0 ≤ f v0 := hf k0 v0 (by simp)
    have ihr := ih hr
    have hnn := asumP_nonneg p f r hr
    by_cases hp : p k = true
    · by_cases h0 : k0 = k
      · subst h0
        simp only [aterm, aget, if_true, asumP, hp, oval_some]
        omega
      · simp only [aterm, aget, h0, if_false, asumP, hp, if_true] at ihr ⊢
        split <;> omega
    · have hp' : p k = false := by simpa using hp
      simp only [aterm, hp', asumP, Bool.false_eq_true, if_false]
      split <;> omega

end alist

/-! ## abstract ledger quantities and invariants (used in the property statements) -/
section defs
variable {σ κ : Type} [DecidableEq σ] [DecidableEq κ]

/-- storage well-formedness: every record sits under `norm` of the spelling it stores. -/
def WF (c : Cfg σ κ) (s : State σ κ) : Prop :=
  AllV (fun k r => c.norm r.addr = k) s.main ∧ AllV (fun k r => c.norm r.addr = k.2) s.sub

/-- main ledger within bounds: `0 ≤ balance ≤ MaxTokenBalance`, `0 ≤ frozen`. -/
def MainOK (s : State σ κ) : Prop :=
  AllV (fun _ r => 0 ≤ r.bal ∧ r.bal ≤ maxBal ∧ 0 ≤ r.frz) s.main

/-- every sub-account has `0 ≤ balance ≤ B`, `0 ≤ frozen ≤ B`. -/
def SubBound (B : Int) (s : State σ κ) : Prop :=
  AllV (fun _ r => 0 ≤ r.bal ∧ r.bal ≤ B ∧ 0 ≤ r.frz ∧ r.frz ≤ B) s.sub

/-- no balance and no frozen amount is negative, in either ledger. -/
def NonNeg (s : State σ κ) : Prop :=
  AllV (fun _ r => 0 ≤ r.bal ∧ 0 ≤ r.frz) s.main ∧ AllV (fun _ r => 0 ≤ r.bal ∧ 0 ≤ r.frz) s.sub

/-- total supply: balance + frozen over the main ledger (unbounded integer sum). -/
def supply (s : State σ κ) : Int := asumP (fun _ => true) (fun r => r.bal + r.frz) s.main

/-- sum of balance + frozen of the accounts held under exec address `e` (as spelled). -/
def subSum (e : σ) (s : State σ κ) : Int :=
  asumP (fun k => decide (k.1 = e)) (fun r => r.bal + r.frz) s.sub

/-- `balance(exec address) - Σ (balance + frozen)` of its sub-accounts. -/
def deficit (c : Cfg σ κ) (s : State σ κ) (e : σ) : Int := (loadMain c s e).bal - subSum e s

/-- amount by which an operation with result `r` is meant to change the supply. -/
def opSupply : Op σ → Res → Int
  | .mint _ amt, .ok => amt
  | .burn _ amt, .ok => -amt
  | .genesis _ amt, .ok => amt
  | .genesisExec _ amt _, .ok => amt
  | .genesisExec _ amt _, .panic => amt   -- the grant is stored before the failing deposit panics
  | .execIssue _ amt, .ok => amt
  | .execDepositFrozen _ _ amt, .ok => amt
  | _, _ => 0

/-- supply minted/burned/issued/granted along a run. -/
def granted (c : Cfg σ κ) (s : State σ κ) : List (Op σ) → Int
  | [] => 0
  | op :: ops => opSupply op (step c s op).2 + granted c (step c s op).1 ops

end defs

/-! ## int64 facts -/

theorem wrap_id {x : Int} (h1 : -9223372036854775808 ≤ x) (h2 : x ≤ 9223372036854775807) :
    wrap x = x := by
  unfold wrap; omega

theorem checkAmount_iff (amt : Int) : checkAmount amt = true ↔ 0 < amt ∧ amt < 100000000000000000 := by
  unfold checkAmount amountLimit
  rw [Bool.and_eq_true, decide_eq_true_iff, decide_eq_true_iff]

theorem safeAdd_some {b amt nb : Int} (h : safeAdd b amt = some nb) (hb0 : 0 ≤ b)
    (hb1 : b ≤ 9000000000000000000) :
    nb = b + amt ∧ nb ≤ 9000000000000000000 ∧ 0 ≤ amt := by
  unfold safeAdd wrap maxBal at h
  simp only at h
  split at h
  · cases h
  · cases h; omega

theorem safeAdd_ok {b amt : Int} (hb0 : 0 ≤ b) (ha : 0 ≤ amt) (h : b + amt ≤ 9000000000000000000) :
    safeAdd b amt = some (b + amt) := by
  unfold safeAdd wrap maxBal
  simp only
  rw [if_neg (by omega)]
  congr 1; omega

end C15
