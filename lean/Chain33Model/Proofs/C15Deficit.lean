import Chain33Model.Proofs.C15Run
/-!
C15 — the per-executor equation: exact effect of every operation on
`deficit c s e = balance(exec address e) - Σ (balance+frozen) of the accounts under e`.
-/
set_option linter.unusedSectionVars false
set_option linter.unusedSimpArgs false
namespace C15
section
variable {σ κ : Type} [DecidableEq σ] [DecidableEq κ] (c : Cfg σ κ)

/-- intended change of `deficit · e'` by a successful operation. -/
def opDeficit (c : Cfg σ κ) (e' : σ) : Op σ → Int
  | .transfer f t amt =>
      (if c.norm t = c.norm e' then amt else 0) - (if c.norm f = c.norm e' then amt else 0)
  | .checkTransfer _ _ _ => 0
  | .mint a amt => if c.norm a = c.norm e' then amt else 0
  | .burn a amt => -(if c.norm a = c.norm e' then amt else 0)
  | .genesis a amt => if c.norm a = c.norm e' then amt else 0
  | .genesisExec _ amt e => (if c.norm e = c.norm e' then amt else 0) - (if e = e' then amt else 0)
  | .toExec f e amt =>
      (if c.norm e = c.norm e' then amt else 0) - (if c.norm f = c.norm e' then amt else 0)
        - (if e = e' then amt else 0)
  | .withdraw f e amt =>
      (if c.norm f = c.norm e' then amt else 0) - (if c.norm e = c.norm e' then amt else 0)
        + (if e = e' then amt else 0)
  | .execFrozen _ _ _ => 0
  | .execActive _ _ _ => 0
  | .execTransfer _ _ _ _ => 0
  | .execTransferFrozen _ _ _ _ => 0
  | .execDepositFrozen _ e amt => (if c.norm e = c.norm e' then amt else 0) - (if e = e' then amt else 0)
  | .execIssue e amt => if c.norm e = c.norm e' then amt else 0
  | .execDeposit _ e amt => -(if e = e' then amt else 0)
  | .execWithdraw e _ amt => if e = e' then amt else 0

theorem subSum_saveSub (s : State σ κ) (e : σ) (r : Acct σ) (e' : σ) :
    subSum e' (saveSub c s e r) =
      subSum e' s - (if e = e' then oval (fun r => r.bal + r.frz) (aget s.sub (e, c.norm r.addr)) else 0)
        + (if e = e' then r.bal + r.frz else 0) := by
  unfold subSum saveSub
  simp only [asumP_aset, aterm, decide_eq_true_eq]

theorem oval_loadSub (s : State σ κ) (a e : σ) :
    oval (fun r => r.bal + r.frz) (aget s.sub (e, c.norm a)) =
      (loadSub c s a e).bal + (loadSub c s a e).frz := by
  unfold loadSub
  cases aget s.sub (e, c.norm a) <;> simp

/-- rewriting the record of `(a, e)` to new field values moves `subSum e` by the difference. -/
theorem subSum_update {s : State σ κ} (hw : WF c s) (a e e' : σ) (nb nf : Int) :
    subSum e' (saveSub c s e ⟨(loadSub c s a e).addr, nb, nf⟩) =
      subSum e' s + (if e = e' then (nb + nf) - ((loadSub c s a e).bal + (loadSub c s a e).frz) else 0) := by
  rw [subSum_saveSub]
  dsimp only
  rw [loadSub_norm c hw, oval_loadSub]
  split <;> omega

theorem subSum_of_sub_eq {s s' : State σ κ} (h : s'.sub = s.sub) (e' : σ) :
    subSum e' s' = subSum e' s := by
  unfold subSum; rw [h]

theorem deficit_eq (s : State σ κ) (e' : σ) : deficit c s e' = mb c s e' - subSum e' s := rfl

/-! ### effect of the sub-ledger basic operations on `subSum` -/

theorem execDeposit_subSum {s : State σ κ} (hw : WF c s) (hs : SubB 9000000000000000000 s.sub) (a e : σ) (amt : Int)
    (hok : (execDeposit c s a e amt).2 = .ok) (e' : σ) :
    subSum e' (execDeposit c s a e amt).1 = subSum e' s + (if e = e' then amt else 0) := by
  rcases execDeposit_cases c s a e amt with hf | ⟨nb, _, h1, h4, he⟩
  · exact absurd hok (not_ok_of_failed hf)
  · rw [he]
    obtain ⟨a1, a2, a3, a4⟩ := subB_load c hs (by decide) a e
    obtain ⟨n1, n2, n3⟩ := safeAdd_some h4 a1 a2
    have := subSum_update c hw a e e' nb (loadSub c s a e).frz
    rw [show (saveSub c s e { loadSub c s a e with bal := nb }) =
      saveSub c s e ⟨(loadSub c s a e).addr, nb, (loadSub c s a e).frz⟩ from rfl]
    rw [this]; split <;> omega

theorem execWithdraw_subSum {s : State σ κ} (hw : WF c s) (hs : SubB 9000000000000000000 s.sub) (e a : σ) (amt : Int)
    (hok : (execWithdraw c s e a amt).2 = .ok) (e' : σ) :
    subSum e' (execWithdraw c s e a amt).1 = subSum e' s - (if e = e' then amt else 0) := by
  rcases execWithdraw_cases c s e a amt with hf | ⟨_, h1, h2, he⟩
  · exact absurd hok (not_ok_of_failed hf)
  · rw [he]; rw [checkAmount_iff] at h1
    obtain ⟨a1, a2, a3, a4⟩ := subB_load c hs (by decide) a e
    rw [wrap_id (by omega) (by omega)]
    have := subSum_update c hw a e e' ((loadSub c s a e).bal - amt) (loadSub c s a e).frz
    rw [show (saveSub c s e { loadSub c s a e with bal := (loadSub c s a e).bal - amt }) =
      saveSub c s e ⟨(loadSub c s a e).addr, (loadSub c s a e).bal - amt, (loadSub c s a e).frz⟩ from rfl]
    rw [this]; split <;> omega

theorem execFrozen_subSum {s : State σ κ} (hw : WF c s) (hs : SubB 9000000000000000000 s.sub) (a e : σ) (amt : Int)
    (hok : (execFrozen c s a e amt).2 = .ok) (e' : σ) :
    subSum e' (execFrozen c s a e amt).1 = subSum e' s := by
  rcases execFrozen_cases c s a e amt with hf | ⟨nf, _, h1, h2, h4, he⟩
  · exact absurd hok (not_ok_of_failed hf)
  · rw [he]; rw [checkAmount_iff] at h1
    obtain ⟨a1, a2, a3, a4⟩ := subB_load c hs (by decide) a e
    obtain ⟨n1, n2, n3⟩ := safeAdd_some h4 a3 a4
    rw [wrap_id (x := (loadSub c s a e).bal - amt) (by omega) (by omega)]
    have := subSum_update c hw a e e' ((loadSub c s a e).bal - amt) nf
    rw [show (saveSub c s e { loadSub c s a e with bal := (loadSub c s a e).bal - amt, frz := nf }) =
      saveSub c s e ⟨(loadSub c s a e).addr, (loadSub c s a e).bal - amt, nf⟩ from rfl]
    rw [this]; split <;> omega

theorem execActive_subSum {s : State σ κ} (hw : WF c s) (hs : SubB 9000000000000000000 s.sub) (a e : σ) (amt : Int)
    (hok : (execActive c s a e amt).2 = .ok) (e' : σ) :
    subSum e' (execActive c s a e amt).1 = subSum e' s := by
  rcases execActive_cases c s a e amt with hf | ⟨nb, _, h1, h2, h4, he⟩
  · exact absurd hok (not_ok_of_failed hf)
  · rw [he]; rw [checkAmount_iff] at h1
    obtain ⟨a1, a2, a3, a4⟩ := subB_load c hs (by decide) a e
    obtain ⟨n1, n2, n3⟩ := safeAdd_some h4 a1 a2
    rw [wrap_id (x := (loadSub c s a e).frz - amt) (by omega) (by omega)]
    have := subSum_update c hw a e e' nb ((loadSub c s a e).frz - amt)
    rw [show (saveSub c s e { loadSub c s a e with bal := nb, frz := (loadSub c s a e).frz - amt }) =
      saveSub c s e ⟨(loadSub c s a e).addr, nb, (loadSub c s a e).frz - amt⟩ from rfl]
    rw [this]; split <;> omega

theorem depositFrozen2_subSum {s : State σ κ} (hw : WF c s) (hs : SubB 9000000000000000000 s.sub) (a e : σ) (amt : Int)
    (hok : (depositFrozen2 c s a e amt).2 = .ok) (e' : σ) :
    subSum e' (depositFrozen2 c s a e amt).1 = subSum e' s + (if e = e' then amt else 0) := by
  rcases depositFrozen2_cases c s a e amt with hf | ⟨nf, h4, he⟩
  · exact absurd hok (not_ok_of_failed hf)
  · rw [he]
    obtain ⟨a1, a2, a3, a4⟩ := subB_load c hs (by decide) a e
    obtain ⟨n1, n2, n3⟩ := safeAdd_some h4 a3 a4
    have := subSum_update c hw a e e' (loadSub c s a e).bal nf
    rw [show (saveSub c s e { loadSub c s a e with frz := nf }) =
      saveSub c s e ⟨(loadSub c s a e).addr, (loadSub c s a e).bal, nf⟩ from rfl]
    rw [this]; split <;> omega

/-- the second load of an exec-internal transfer sees the original record when the two accounts
differ; the first save then does not disturb it. -/
theorem loadSub_after_save_ne {s : State σ κ} (hw : WF c s) (f t e : σ) (hne : c.norm f ≠ c.norm t)
    (nb nf : Int) :
    loadSub c (saveSub c s e ⟨(loadSub c s f e).addr, nb, nf⟩) t e = loadSub c s t e := by
  rw [loadSub_saveSub]; dsimp only
  rw [loadSub_norm c hw, if_neg]
  intro h; exact hne (Prod.mk.inj h).2

theorem execTransfer_subSum {s : State σ κ} (hw : WF c s) (hs : SubB 9000000000000000000 s.sub) (f t e : σ) (amt : Int)
    (hok : (execTransfer c s f t e amt).2 = .ok) (e' : σ) :
    subSum e' (execTransfer c s f t e amt).1 = subSum e' s := by
  rcases execTransfer_cases c s f t e amt with hf | ⟨nb, _, hne, h1, h2, h4, he⟩
  · exact absurd hok (not_ok_of_failed hf)
  · rw [he]; rw [checkAmount_iff] at h1
    obtain ⟨a1, a2, a3, a4⟩ := subB_load c hs (by decide) f e
    obtain ⟨b1, b2, b3, b4⟩ := subB_load c hs (by decide) t e
    obtain ⟨n1, n2, n3⟩ := safeAdd_some h4 b1 b2
    rw [wrap_id (x := (loadSub c s f e).bal - amt) (by omega) (by omega)] at h2 ⊢
    have e1 := subSum_update c hw f e e' ((loadSub c s f e).bal - amt) (loadSub c s f e).frz
    have hw1 := wf_saveSub c hw e ⟨(loadSub c s f e).addr, (loadSub c s f e).bal - amt, (loadSub c s f e).frz⟩
    have hl := loadSub_after_save_ne c hw f t e hne ((loadSub c s f e).bal - amt) (loadSub c s f e).frz
    have e2 := subSum_update c hw1 t e e' nb (loadSub c s t e).frz
    rw [hl] at e2
    show subSum e' (saveSub c (saveSub c s e ⟨(loadSub c s f e).addr, (loadSub c s f e).bal - amt, (loadSub c s f e).frz⟩) e
      ⟨(loadSub c s t e).addr, nb, (loadSub c s t e).frz⟩) = _
    rw [e2, e1]; split <;> omega

theorem execTransferFrozen_subSum {s : State σ κ} (hw : WF c s) (hs : SubB 9000000000000000000 s.sub) (f t e : σ)
    (amt : Int) (hok : (execTransferFrozen c s f t e amt).2 = .ok) (e' : σ) :
    subSum e' (execTransferFrozen c s f t e amt).1 = subSum e' s := by
  rcases execTransferFrozen_cases c s f t e amt with hf | ⟨nb, _, hne, h1, h2, h4, he⟩
  · exact absurd hok (not_ok_of_failed hf)
  · rw [he]; rw [checkAmount_iff] at h1
    obtain ⟨a1, a2, a3, a4⟩ := subB_load c hs (by decide) f e
    obtain ⟨b1, b2, b3, b4⟩ := subB_load c hs (by decide) t e
    obtain ⟨n1, n2, n3⟩ := safeAdd_some h4 b1 b2
    rw [wrap_id (x := (loadSub c s f e).frz - amt) (by omega) (by omega)] at h2 ⊢
    have e1 := subSum_update c hw f e e' (loadSub c s f e).bal ((loadSub c s f e).frz - amt)
    have hw1 := wf_saveSub c hw e ⟨(loadSub c s f e).addr, (loadSub c s f e).bal, (loadSub c s f e).frz - amt⟩
    have hl := loadSub_after_save_ne c hw f t e hne (loadSub c s f e).bal ((loadSub c s f e).frz - amt)
    have e2 := subSum_update c hw1 t e e' nb (loadSub c s t e).frz
    rw [hl] at e2
    show subSum e' (saveSub c (saveSub c s e ⟨(loadSub c s f e).addr, (loadSub c s f e).bal, (loadSub c s f e).frz - amt⟩) e
      ⟨(loadSub c s t e).addr, nb, (loadSub c s t e).frz⟩) = _
    rw [e2, e1]; split <;> omega

/-- `ExecTransfer` as it was before repo commit 3bc3d2b: only the *spellings* were compared. -/
def execTransferOld (c : Cfg σ κ) (s : State σ κ) (src dst e : σ) (amt : Int) : State σ κ × Res :=
  if src = dst then (s, .errSame) else
  if !checkAmount amt then (s, .errAmount) else
  let F := loadSub c s src e
  let T := loadSub c s dst e
  if wrap (F.bal - amt) < 0 then (s, .errNoBalance) else
  (saveSub c (saveSub c s e { F with bal := wrap (F.bal - amt) }) e
      { T with bal := wrap (T.bal + amt) }, .ok)

theorem execTransferOld_cases (s : State σ κ) (f t e : σ) (amt : Int) :
    Failed (execTransferOld c s f t e amt) s ∨
    (f ≠ t ∧ checkAmount amt = true ∧ 0 ≤ wrap ((loadSub c s f e).bal - amt) ∧
      execTransferOld c s f t e amt =
        (saveSub c (saveSub c s e { loadSub c s f e with bal := wrap ((loadSub c s f e).bal - amt) }) e
          { loadSub c s t e with bal := wrap ((loadSub c s t e).bal + amt) }, .ok)) := by
  unfold execTransferOld Failed
  by_cases h0 : f = t
  · left; simp [h0, Res.isErr]
  · by_cases h1 : checkAmount amt = true
    · by_cases h2 : wrap ((loadSub c s f e).bal - amt) < 0
      · left; simp [h0, h1, h2, Res.isErr]
      · right; exact ⟨h0, h1, by omega, by simp [h0, h1, h2]⟩
    · left; simp [h0, h1, Res.isErr]

/-- Regression witness about the OLD guard, for every state: when `from` and `to` are two
spellings of one account (`norm from = norm to`, `from ≠ to`) a successful old `ExecTransfer`
raises the sub-ledger total of the exec address by `amount` (credit without debit). -/
theorem execTransferOld_alias_subSum {s : State σ κ} (hw : WF c s) (hs : SubB 9000000000000000000 s.sub) (f t e : σ)
    (amt : Int) (heq : c.norm f = c.norm t) (hok : (execTransferOld c s f t e amt).2 = .ok) :
    subSum e (execTransferOld c s f t e amt).1 = subSum e s + amt := by
  rcases execTransferOld_cases c s f t e amt with hf | ⟨_, h1, h2, he⟩
  · exact absurd hok (not_ok_of_failed hf)
  · rw [he]; rw [checkAmount_iff] at h1
    obtain ⟨a1, a2, a3, a4⟩ := subB_load c hs (by decide) f e
    obtain ⟨b1, b2, b3, b4⟩ := subB_load c hs (by decide) t e
    rw [wrap_id (x := (loadSub c s f e).bal - amt) (by omega) (by omega)] at h2 ⊢
    rw [wrap_id (x := (loadSub c s t e).bal + amt) (by omega) (by omega)]
    have hbal : (loadSub c s t e).bal = (loadSub c s f e).bal ∧ (loadSub c s t e).frz = (loadSub c s f e).frz := by
      unfold loadSub; rw [heq]; cases aget s.sub (e, c.norm t) <;> simp
    have e1 := subSum_update c hw f e e ((loadSub c s f e).bal - amt) (loadSub c s f e).frz
    rw [subSum_saveSub]
    dsimp only
    rw [loadSub_norm c hw t e, ← heq]
    have hg : aget (saveSub c s e ⟨(loadSub c s f e).addr, (loadSub c s f e).bal - amt, (loadSub c s f e).frz⟩).sub
        (e, c.norm f) = some ⟨(loadSub c s f e).addr, (loadSub c s f e).bal - amt, (loadSub c s f e).frz⟩ := by
      unfold saveSub; dsimp only
      rw [loadSub_norm c hw f e, aget_aset_self]
    rw [show (saveSub c s e { loadSub c s f e with bal := (loadSub c s f e).bal - amt }) =
      saveSub c s e ⟨(loadSub c s f e).addr, (loadSub c s f e).bal - amt, (loadSub c s f e).frz⟩ from rfl]
    rw [hg, e1]
    simp only [if_true, oval_some]
    omega

end
end C15

namespace C15
section
variable {σ κ : Type} [DecidableEq σ] [DecidableEq κ] (c : Cfg σ κ)

theorem subB_of_sub_eq {s s' : State σ κ} {B : Int} (h : s'.sub = s.sub) (hs : SubB B s.sub) :
    SubB B s'.sub := by rw [h]; exact hs

/-- Exact change of the exec equation by one successful operation, for every exec address `e'`:
the state satisfies the reachable-state invariant (well formed, both ledgers within
`[0, MaxTokenBalance]`). -/
theorem deficit_step {s : State σ κ} (hw : WF c s) (hm : MainOK s) (hs : SubB 9000000000000000000 s.sub)
    (op : Op σ) (hok : (step c s op).2 = .ok) (e' : σ) :
    deficit c (step c s op).1 e' = deficit c s e' + opDeficit c e' op := by
  simp only [deficit_eq]
  cases op with
  | transfer f t amt =>
    simp only [step] at hok ⊢
    obtain ⟨_, h2, h3⟩ := transfer_effect c hw hm f t amt hok
    rw [h3 e', subSum_of_sub_eq h2]; simp only [opDeficit]; omega
  | checkTransfer f t amt => simp [step, opDeficit]
  | mint a amt =>
    simp only [step, mint] at hok ⊢
    obtain ⟨_, h2, h3⟩ := depositBalance_effect c hw hm a amt hok
    rw [h3 e', subSum_of_sub_eq h2]; simp only [opDeficit]; omega
  | burn a amt =>
    simp only [step] at hok ⊢
    obtain ⟨_, h2, h3⟩ := burn_effect c hw hm a amt hok
    rw [h3 e', subSum_of_sub_eq h2]; simp only [opDeficit]; omega
  | genesis a amt =>
    simp only [step] at hok ⊢
    obtain ⟨_, h2, h3⟩ := genesis_effect c hw hm a amt hok
    rw [h3 e', subSum_of_sub_eq h2]; simp only [opDeficit]; omega
  | execIssue e amt =>
    simp only [step] at hok ⊢
    obtain ⟨_, h2, h3⟩ := execIssue_effect c hw hm e amt hok
    rw [h3 e', subSum_of_sub_eq h2]; simp only [opDeficit]; omega
  | genesisExec a amt e =>
    simp only [step, genesisExec] at hok ⊢
    rcases basic_ok_or_failed_genesis c s e amt with h | h
    · rw [if_pos (not_ok_of_failed h)] at hok; exact absurd hok (not_ok_of_failed h)
    · rw [if_neg (by simp [h])] at hok ⊢
      obtain ⟨_, h2, h3⟩ := genesis_effect c hw hm e amt h
      have hw1 : WF c (genesis c s e amt).1 := wf_step c (.genesis e amt) hw
      split at hok
      · cases hok
      · next hd =>
        have hd' : (execDeposit c (genesis c s e amt).1 a e amt).2 = .ok := by simpa using hd
        rw [if_neg hd, mb_of_main_eq c (main_execDeposit c _ a e amt),
          execDeposit_subSum c hw1 (subB_of_sub_eq h2 hs) a e amt hd' e', h3 e', subSum_of_sub_eq h2]
        simp only [opDeficit]; omega
  | toExec f e amt =>
    simp only [step, toExec] at hok ⊢
    rcases basic_ok_or_failed_transfer c s f e amt with h | h
    · rw [if_pos (not_ok_of_failed h)] at hok; exact absurd hok (not_ok_of_failed h)
    · rw [if_neg (by simp [h])] at hok ⊢
      obtain ⟨_, h2, h3⟩ := transfer_effect c hw hm f e amt h
      have hw1 : WF c (transfer c s f e amt).1 := wf_step c (.transfer f e amt) hw
      split at hok
      · cases hok
      · next hd =>
        have hd' : (execDeposit c (transfer c s f e amt).1 f e amt).2 = .ok := by simpa using hd
        rw [if_neg hd, mb_of_main_eq c (main_execDeposit c _ f e amt),
          execDeposit_subSum c hw1 (subB_of_sub_eq h2 hs) f e amt hd' e', h3 e', subSum_of_sub_eq h2]
        simp only [opDeficit]; omega
  | withdraw f e amt =>
    simp only [step, withdraw] at hok ⊢
    split at hok
    · next h0 => exact absurd hok h0
    · next h0 =>
      rw [if_neg h0]
      rcases basic_ok_or_failed_execWithdraw c s e f amt with h | h
      · rw [if_pos (not_ok_of_failed h)] at hok; exact absurd hok (not_ok_of_failed h)
      · rw [if_neg (by simp [h])] at hok ⊢
        have hmain := main_execWithdraw c s e f amt
        have hw1 : WF c (execWithdraw c s e f amt).1 := wf_step c (.execWithdraw e f amt) hw
        have hm1 : MainOK (execWithdraw c s e f amt).1 := mainOK_of_main_eq hmain hm
        split at hok
        · cases hok
        · next ht =>
          have ht' : (transfer c (execWithdraw c s e f amt).1 e f amt).2 = .ok := by simpa using ht
          obtain ⟨_, h2, h3⟩ := transfer_effect c hw1 hm1 e f amt ht'
          rw [if_neg ht, h3 e', subSum_of_sub_eq h2, mb_of_main_eq c hmain,
            execWithdraw_subSum c hw hs e f amt h e']
          simp only [opDeficit]; omega
  | execFrozen a e amt =>
    simp only [step] at hok ⊢
    rw [mb_of_main_eq c (main_execFrozen c s a e amt), execFrozen_subSum c hw hs a e amt hok e']
    simp [opDeficit]
  | execActive a e amt =>
    simp only [step] at hok ⊢
    rw [mb_of_main_eq c (main_execActive c s a e amt), execActive_subSum c hw hs a e amt hok e']
    simp [opDeficit]
  | execTransfer f t e amt =>
    simp only [step] at hok ⊢
    rw [mb_of_main_eq c (main_execTransfer c s f t e amt), execTransfer_subSum c hw hs f t e amt hok e']
    simp [opDeficit]
  | execTransferFrozen f t e amt =>
    simp only [step] at hok ⊢
    rw [mb_of_main_eq c (main_execTransferFrozen c s f t e amt),
      execTransferFrozen_subSum c hw hs f t e amt hok e']
    simp [opDeficit]
  | execDepositFrozen a e amt =>
    simp only [step, execDepositFrozen] at hok ⊢
    split at hok
    · cases hok
    · next hae =>
      rw [if_neg hae]
      split at hok
      · cases hok
      · next hg =>
        rw [if_neg hg]
        rcases basic_ok_or_failed_execIssue c s e amt with h | h
        · rw [if_pos (not_ok_of_failed h)] at hok; exact absurd hok (not_ok_of_failed h)
        · rw [if_neg (by simp [h])] at hok ⊢
          obtain ⟨_, h2, h3⟩ := execIssue_effect c hw hm e amt h
          have hw1 : WF c (execIssue c s e amt).1 := wf_step c (.execIssue e amt) hw
          rw [mb_of_main_eq c (main_depositFrozen2 c _ a e amt),
            depositFrozen2_subSum c hw1 (subB_of_sub_eq h2 hs) a e amt hok e', subSum_of_sub_eq h2, h3 e']
          simp only [opDeficit]; omega
  | execDeposit a e amt =>
    simp only [step] at hok ⊢
    rw [mb_of_main_eq c (main_execDeposit c s a e amt), execDeposit_subSum c hw hs a e amt hok e']
    simp only [opDeficit]; omega
  | execWithdraw e a amt =>
    simp only [step] at hok ⊢
    rw [mb_of_main_eq c (main_execWithdraw c s e a amt), execWithdraw_subSum c hw hs e a amt hok e']
    simp only [opDeficit]; omega

end
end C15
