import Chain33Model.Proofs.C15Deficit
import Chain33Model.Proofs.C15Run
/-!
C15 — the exec equation as an invariant: for op lists that name the exec address `e` by one
spelling, never touch the record of `e` by a plain main-ledger operation or a raw
ExecDeposit/ExecWithdraw, and in which no step panicked, `deficit … e` stays what it was (0 from
the empty store).
-/
set_option linter.unusedSectionVars false
namespace C15
section
variable {σ κ : Type} [DecidableEq σ] [DecidableEq κ] (c : Cfg σ κ)

/-- `op` keeps the exec equation of `e`: paired operations either name exactly the spelling `e` or
an exec address with another storage key, their account argument is not the exec address itself;
plain main-ledger operations do not touch the record of `e`; the raw building blocks
ExecDeposit / ExecWithdraw are not used on `e`. -/
def OneSpelling (c : Cfg σ κ) (e : σ) : Op σ → Prop
  | .transfer f t _ => c.norm f ≠ c.norm e ∧ c.norm t ≠ c.norm e
  | .checkTransfer _ _ _ => True
  | .mint a _ => c.norm a ≠ c.norm e
  | .burn a _ => c.norm a ≠ c.norm e
  | .genesis a _ => c.norm a ≠ c.norm e
  | .execIssue x _ => c.norm x ≠ c.norm e
  | .genesisExec _ _ x => x = e ∨ c.norm x ≠ c.norm e
  | .execDepositFrozen _ x _ => x = e ∨ c.norm x ≠ c.norm e
  | .toExec f x _ => (x = e ∨ c.norm x ≠ c.norm e) ∧ c.norm f ≠ c.norm e
  | .withdraw f x _ => (x = e ∨ c.norm x ≠ c.norm e) ∧ c.norm f ≠ c.norm e
  | .execFrozen _ _ _ => True
  | .execActive _ _ _ => True
  | .execTransfer _ _ _ _ => True
  | .execTransferFrozen _ _ _ _ => True
  | .execDeposit _ x _ => x ≠ e
  | .execWithdraw x _ _ => x ≠ e

theorem opDeficit_zero {e : σ} {op : Op σ} (h : OneSpelling c e op) : opDeficit c e op = 0 := by
  cases op <;> simp only [OneSpelling] at h <;> simp only [opDeficit]
  case transfer f t amt => simp [h.1, h.2]
  case mint a amt => simp [h]
  case burn a amt => simp [h]
  case genesis a amt => simp [h]
  case execIssue x amt => simp [h]
  case genesisExec a amt x =>
    rcases h with h | h
    · subst h; simp
    · have : x ≠ e := fun hx => h (by rw [hx])
      simp [h, this]
  case execDepositFrozen a x amt =>
    rcases h with h | h
    · subst h; simp
    · have : x ≠ e := fun hx => h (by rw [hx])
      simp [h, this]
  case toExec f x amt =>
    obtain ⟨h1, h2⟩ := h
    rcases h1 with h1 | h1
    · subst h1; simp [h2] <;> omega
    · have : x ≠ e := fun hx => h1 (by rw [hx])
      simp [h1, h2, this]
  case withdraw f x amt =>
    obtain ⟨h1, h2⟩ := h
    rcases h1 with h1 | h1
    · subst h1; simp [h2] <;> omega
    · have : x ≠ e := fun hx => h1 (by rw [hx])
      simp [h1, h2, this]
  case execDeposit a x amt => simp [h]
  case execWithdraw x a amt => simp [h]

/-- no step of the run ended in a Go panic (a panic aborts the caller's transaction, which rolls
the store back; the model keeps the partial write). -/
def NoPanic (c : Cfg σ κ) (s : State σ κ) : List (Op σ) → Prop
  | [] => True
  | op :: ops => (step c s op).2 ≠ .panic ∧ NoPanic c (step c s op).1 ops

instance decNoPanic (c : Cfg σ κ) : ∀ (s : State σ κ) (ops : List (Op σ)), Decidable (NoPanic c s ops)
  | _, [] => isTrue trivial
  | s, op :: ops =>
    have := decNoPanic c (step c s op).1 ops
    inferInstanceAs (Decidable ((step c s op).2 ≠ .panic ∧ NoPanic c (step c s op).1 ops))

theorem deficit_run_const (e : σ) (ops : List (Op σ)) {s : State σ κ} (hi : Inv c s)
    (hops : ∀ op ∈ ops, OneSpelling c e op) (hp : NoPanic c s ops) :
    deficit c (run c s ops) e = deficit c s e := by
  induction ops generalizing s with
  | nil => rfl
  | cons op ops ih =>
    have hop := hops op List.mem_cons_self
    have hrest : ∀ o ∈ ops, OneSpelling c e o := fun o ho => hops o (List.mem_cons_of_mem _ ho)
    obtain ⟨hp1, hp2⟩ := hp
    show deficit c (run c (step c s op).1 ops) e = deficit c s e
    rw [ih (inv_step c op hi) hrest hp2]
    cases hr : (step c s op).2 with
    | ok => rw [deficit_step c hi.1 hi.2.1 hi.2.2 op hr e, opDeficit_zero c hop]; omega
    | panic => exact absurd hr hp1
    | errAmount => rw [step_err_unchanged c s op (by rw [hr]; rfl)]
    | errNoBalance => rw [step_err_unchanged c s op (by rw [hr]; rfl)]
    | errSame => rw [step_err_unchanged c s op (by rw [hr]; rfl)]
    | errNotAllow => rw [step_err_unchanged c s op (by rw [hr]; rfl)]

end
end C15
