import Chain33Model.Proofs.C15Ops
/-!
C15 — invariants of `step`: a generic lifting lemma from the basic operations, then
`WF`, `MainOK` (main ledger within `[0, MaxTokenBalance]`), error-means-unchanged.
-/
set_option linter.unusedSectionVars false
set_option linter.unusedSimpArgs false
namespace C15
section
variable {σ κ : Type} [DecidableEq σ] [DecidableEq κ] (c : Cfg σ κ)

/-- A state predicate preserved by every basic operation is preserved by `step`, whatever the
result (ok, error or panic). -/
theorem step_inv (I : State σ κ → Prop)
    (hT : ∀ s f t amt, I s → I (transfer c s f t amt).1)
    (hD : ∀ s e amt, I s → I (depositBalance c s e amt).1)
    (hB : ∀ s a amt, I s → I (burn c s a amt).1)
    (hG : ∀ s a amt, I s → I (genesis c s a amt).1)
    (hED : ∀ s a e amt, I s → I (execDeposit c s a e amt).1)
    (hEW : ∀ s e a amt, I s → I (execWithdraw c s e a amt).1)
    (hEF : ∀ s a e amt, I s → I (execFrozen c s a e amt).1)
    (hEA : ∀ s a e amt, I s → I (execActive c s a e amt).1)
    (hET : ∀ s f t e amt, I s → I (execTransfer c s f t e amt).1)
    (hETF : ∀ s f t e amt, I s → I (execTransferFrozen c s f t e amt).1)
    (hDF : ∀ s a e amt, I s → I (depositFrozen2 c s a e amt).1)
    (s : State σ κ) (op : Op σ) (hs : I s) : I (step c s op).1 := by
  have hI : ∀ s e amt, I s → I (execIssue c s e amt).1 := by
    intro s e amt h
    unfold execIssue
    split
    · exact h
    · exact hD s e amt h
  cases op with
  | transfer f t amt => exact hT s f t amt hs
  | checkTransfer f t amt => exact hs
  | mint a amt => exact hD s a amt hs
  | burn a amt => exact hB s a amt hs
  | genesis a amt => exact hG s a amt hs
  | genesisExec a amt e =>
    have h1 := hG s e amt hs
    simp only [step, genesisExec]
    split
    · exact h1
    · split
      · exact h1
      · exact hED _ a e amt h1
  | toExec f e amt =>
    have h1 := hT s f e amt hs
    simp only [step, toExec]
    split
    · exact h1
    · split
      · exact h1
      · exact hED _ f e amt h1
  | withdraw f e amt =>
    simp only [step, withdraw]
    split
    · exact hs
    · have h1 := hEW s e f amt hs
      split
      · exact h1
      · split
        · exact h1
        · exact hT _ e f amt h1
  | execFrozen a e amt => exact hEF s a e amt hs
  | execActive a e amt => exact hEA s a e amt hs
  | execTransfer f t e amt => exact hET s f t e amt hs
  | execTransferFrozen f t e amt => exact hETF s f t e amt hs
  | execDepositFrozen a e amt =>
    simp only [step, execDepositFrozen]
    split
    · exact hs
    · split
      · exact hs
      · have h1 := hI s e amt hs
        split
        · exact h1
        · exact hDF _ a e amt h1
  | execIssue e amt => exact hI s e amt hs
  | execDeposit a e amt => exact hED s a e amt hs
  | execWithdraw e a amt => exact hEW s e a amt hs

/-- every basic operation either leaves the state alone or performs saves; `WF` survives saves. -/
theorem wf_step {s : State σ κ} (op : Op σ) (h : WF c s) : WF c (step c s op).1 := by
  refine step_inv c (WF c) ?_ ?_ ?_ ?_ ?_ ?_ ?_ ?_ ?_ ?_ ?_ s op h
  · intro s f t amt h
    rcases transfer_cases c s f t amt with hf | ⟨nb, _, _, _, _, he⟩
    · rw [hf.1]; exact h
    · rw [he]; exact wf_saveMain c (wf_saveMain c h _) _
  · intro s e amt h
    rcases depositBalance_cases c s e amt with hf | ⟨nb, _, _, he⟩
    · rw [hf.1]; exact h
    · rw [he]; exact wf_saveMain c h _
  · intro s a amt h
    rcases burn_cases c s a amt with hf | ⟨_, _, he⟩
    · rw [hf.1]; exact h
    · rw [he]; exact wf_saveMain c h _
  · intro s a amt h
    rcases genesis_cases c s a amt with hf | ⟨nb, _, he⟩
    · rw [hf.1]; exact h
    · rw [he]; exact wf_saveMain c h _
  · intro s a e amt h
    rcases execDeposit_cases c s a e amt with hf | ⟨_, _, _, _, he⟩
    · rw [hf.1]; exact h
    · rw [he]; exact wf_saveSub c h _ _
  · intro s e a amt h
    rcases execWithdraw_cases c s e a amt with hf | ⟨_, _, _, he⟩
    · rw [hf.1]; exact h
    · rw [he]; exact wf_saveSub c h _ _
  · intro s a e amt h
    rcases execFrozen_cases c s a e amt with hf | ⟨_, _, _, _, _, he⟩
    · rw [hf.1]; exact h
    · rw [he]; exact wf_saveSub c h _ _
  · intro s a e amt h
    rcases execActive_cases c s a e amt with hf | ⟨_, _, _, _, _, he⟩
    · rw [hf.1]; exact h
    · rw [he]; exact wf_saveSub c h _ _
  · intro s f t e amt h
    rcases execTransfer_cases c s f t e amt with hf | ⟨_, _, _, _, _, _, he⟩
    · rw [hf.1]; exact h
    · rw [he]; exact wf_saveSub c (wf_saveSub c h _ _) _ _
  · intro s f t e amt h
    rcases execTransferFrozen_cases c s f t e amt with hf | ⟨_, _, _, _, _, _, he⟩
    · rw [hf.1]; exact h
    · rw [he]; exact wf_saveSub c (wf_saveSub c h _ _) _ _
  · intro s a e amt h
    rcases depositFrozen2_cases c s a e amt with hf | ⟨_, _, he⟩
    · rw [hf.1]; exact h
    · rw [he]; exact wf_saveSub c h _ _

theorem wf_run (ops : List (Op σ)) {s : State σ κ} (h : WF c s) : WF c (run c s ops) := by
  induction ops generalizing s with
  | nil => exact h
  | cons op ops ih => exact ih (wf_step c op h)

/-! ### error ⇒ nothing changed -/

theorem failed_of_isErr {p : State σ κ × Res} {s : State σ κ}
    (h : Failed p s ∨ p.2 = .ok) (he : p.2.isErr = true) : p.1 = s := by
  rcases h with h | h
  · exact h.1
  · rw [h] at he; simp [Res.isErr] at he

theorem basic_ok_or_failed_transfer (s : State σ κ) (f t : σ) (amt : Int) :
    Failed (transfer c s f t amt) s ∨ (transfer c s f t amt).2 = .ok := by
  rcases transfer_cases c s f t amt with h | ⟨_, _, _, _, _, he⟩
  · exact Or.inl h
  · right; rw [he]

theorem basic_ok_or_failed_genesis (s : State σ κ) (a : σ) (amt : Int) :
    Failed (genesis c s a amt) s ∨ (genesis c s a amt).2 = .ok := by
  rcases genesis_cases c s a amt with h | ⟨_, _, he⟩
  · exact Or.inl h
  · right; rw [he]

theorem basic_ok_or_failed_execWithdraw (s : State σ κ) (e a : σ) (amt : Int) :
    Failed (execWithdraw c s e a amt) s ∨ (execWithdraw c s e a amt).2 = .ok := by
  rcases execWithdraw_cases c s e a amt with h | ⟨_, _, _, he⟩
  · exact Or.inl h
  · right; rw [he]

theorem basic_ok_or_failed_execIssue (s : State σ κ) (e : σ) (amt : Int) :
    Failed (execIssue c s e amt) s ∨ (execIssue c s e amt).2 = .ok := by
  rcases execIssue_cases c s e amt with h | ⟨_, _, _, he⟩
  · exact Or.inl h
  · right; rw [he]

theorem basic_ok_or_failed_depositBalance (s : State σ κ) (a : σ) (amt : Int) :
    Failed (depositBalance c s a amt) s ∨ (depositBalance c s a amt).2 = .ok := by
  rcases depositBalance_cases c s a amt with h | ⟨_, _, _, he⟩
  · exact Or.inl h
  · right; rw [he]

theorem basic_ok_or_failed_burn (s : State σ κ) (a : σ) (amt : Int) :
    Failed (burn c s a amt) s ∨ (burn c s a amt).2 = .ok := by
  rcases burn_cases c s a amt with h | ⟨_, _, he⟩
  · exact Or.inl h
  · right; rw [he]

theorem basic_ok_or_failed_execDeposit (s : State σ κ) (a e : σ) (amt : Int) :
    Failed (execDeposit c s a e amt) s ∨ (execDeposit c s a e amt).2 = .ok := by
  rcases execDeposit_cases c s a e amt with h | ⟨_, _, _, _, he⟩
  · exact Or.inl h
  · right; rw [he]

theorem basic_ok_or_failed_execFrozen (s : State σ κ) (a e : σ) (amt : Int) :
    Failed (execFrozen c s a e amt) s ∨ (execFrozen c s a e amt).2 = .ok := by
  rcases execFrozen_cases c s a e amt with h | ⟨_, _, _, _, _, he⟩
  · exact Or.inl h
  · right; rw [he]

theorem basic_ok_or_failed_execActive (s : State σ κ) (a e : σ) (amt : Int) :
    Failed (execActive c s a e amt) s ∨ (execActive c s a e amt).2 = .ok := by
  rcases execActive_cases c s a e amt with h | ⟨_, _, _, _, _, he⟩
  · exact Or.inl h
  · right; rw [he]

theorem basic_ok_or_failed_execTransfer (s : State σ κ) (f t e : σ) (amt : Int) :
    Failed (execTransfer c s f t e amt) s ∨ (execTransfer c s f t e amt).2 = .ok := by
  rcases execTransfer_cases c s f t e amt with h | ⟨_, _, _, _, _, _, he⟩
  · exact Or.inl h
  · right; rw [he]

theorem basic_ok_or_failed_execTransferFrozen (s : State σ κ) (f t e : σ) (amt : Int) :
    Failed (execTransferFrozen c s f t e amt) s ∨ (execTransferFrozen c s f t e amt).2 = .ok := by
  rcases execTransferFrozen_cases c s f t e amt with h | ⟨_, _, _, _, _, _, he⟩
  · exact Or.inl h
  · right; rw [he]

/-! ### the sub-ledger operations do not touch the main ledger -/

theorem main_execDeposit (s : State σ κ) (a e : σ) (amt : Int) :
    (execDeposit c s a e amt).1.main = s.main := by
  rcases execDeposit_cases c s a e amt with h | ⟨_, _, _, _, he⟩
  · rw [h.1]
  · rw [he]; rfl

theorem main_execWithdraw (s : State σ κ) (e a : σ) (amt : Int) :
    (execWithdraw c s e a amt).1.main = s.main := by
  rcases execWithdraw_cases c s e a amt with h | ⟨_, _, _, he⟩
  · rw [h.1]
  · rw [he]; rfl

theorem main_execFrozen (s : State σ κ) (a e : σ) (amt : Int) :
    (execFrozen c s a e amt).1.main = s.main := by
  rcases execFrozen_cases c s a e amt with h | ⟨_, _, _, _, _, he⟩
  · rw [h.1]
  · rw [he]; rfl

theorem main_execActive (s : State σ κ) (a e : σ) (amt : Int) :
    (execActive c s a e amt).1.main = s.main := by
  rcases execActive_cases c s a e amt with h | ⟨_, _, _, _, _, he⟩
  · rw [h.1]
  · rw [he]; rfl

theorem main_execTransfer (s : State σ κ) (f t e : σ) (amt : Int) :
    (execTransfer c s f t e amt).1.main = s.main := by
  rcases execTransfer_cases c s f t e amt with h | ⟨_, _, _, _, _, _, he⟩
  · rw [h.1]
  · rw [he]; rfl

theorem main_execTransferFrozen (s : State σ κ) (f t e : σ) (amt : Int) :
    (execTransferFrozen c s f t e amt).1.main = s.main := by
  rcases execTransferFrozen_cases c s f t e amt with h | ⟨_, _, _, _, _, _, he⟩
  · rw [h.1]
  · rw [he]; rfl

theorem basic_ok_or_failed_depositFrozen2 (s : State σ κ) (a e : σ) (amt : Int) :
    Failed (depositFrozen2 c s a e amt) s ∨ (depositFrozen2 c s a e amt).2 = .ok := by
  rcases depositFrozen2_cases c s a e amt with h | ⟨_, _, he⟩
  · exact Or.inl h
  · right; rw [he]

theorem main_depositFrozen2 (s : State σ κ) (a e : σ) (amt : Int) :
    (depositFrozen2 c s a e amt).1.main = s.main := by
  rcases depositFrozen2_cases c s a e amt with h | ⟨_, _, he⟩
  · rw [h.1]
  · rw [he]; rfl

theorem checkTransfer_isErr_or_ok (s : State σ κ) (f : σ) (amt : Int) :
    (checkTransfer c s f amt).isErr = true ∨ checkTransfer c s f amt = .ok := by
  unfold checkTransfer
  split
  · left; rfl
  · split
    · left; rfl
    · right; rfl

/-- Inside `ExecDepositFrozen` the frozen addition cannot fail once the pre-check passed and the
issue succeeded (valid amount, sub-ledger untouched by the issue). -/
theorem depositFrozen2_ok_after_issue (s : State σ κ) (a e : σ) (amt : Int)
    (hg : ¬ (checkAmount amt && (safeAdd (loadSub c s a e).frz amt).isNone) = true)
    (h1 : (execIssue c s e amt).2 = .ok) :
    (depositFrozen2 c (execIssue c s e amt).1 a e amt).2 = .ok := by
  rcases execIssue_cases c s e amt with hf | ⟨nb, hca, _, hie⟩
  · have h2 := hf.2; rw [h1] at h2; simp [Res.isErr] at h2
  · have hsub : loadSub c (execIssue c s e amt).1 a e = loadSub c s a e := by rw [hie]; rfl
    unfold depositFrozen2
    rw [hsub]
    cases h4 : safeAdd (loadSub c s a e).frz amt with
    | none => exact absurd (by simp [hca, h4]) hg
    | some nf => simp [h4]

/-- An operation that returns an error leaves the store exactly as it was. -/
theorem step_err_unchanged (s : State σ κ) (op : Op σ) (he : (step c s op).2.isErr = true) :
    (step c s op).1 = s := by
  cases op with
  | transfer f t amt => exact failed_of_isErr (basic_ok_or_failed_transfer c s f t amt) he
  | checkTransfer f t amt => rfl
  | mint a amt =>
    refine failed_of_isErr ?_ he
    rcases depositBalance_cases c s a amt with h | ⟨_, _, _, h⟩
    · exact Or.inl h
    · right; show (depositBalance c s a amt).2 = .ok; rw [h]
  | burn a amt =>
    refine failed_of_isErr ?_ he
    rcases burn_cases c s a amt with h | ⟨_, _, h⟩
    · exact Or.inl h
    · right; show (burn c s a amt).2 = .ok; rw [h]
  | genesis a amt => exact failed_of_isErr (basic_ok_or_failed_genesis c s a amt) he
  | genesisExec a amt e =>
    simp only [step, genesisExec] at he ⊢
    split at he
    · next h1 => rw [if_pos h1]; exact failed_of_isErr (basic_ok_or_failed_genesis c s e amt) he
    · split at he
      · simp [Res.isErr] at he
      · next h1 h2 =>
        have : (execDeposit c (genesis c s e amt).1 a e amt).2 = .ok := by simpa using h2
        rw [this] at he; simp [Res.isErr] at he
  | toExec f e amt =>
    simp only [step, toExec] at he ⊢
    split at he
    · next h1 => rw [if_pos h1]; exact failed_of_isErr (basic_ok_or_failed_transfer c s f e amt) he
    · split at he
      · simp [Res.isErr] at he
      · next h1 h2 =>
        have : (execDeposit c (transfer c s f e amt).1 f e amt).2 = .ok := by simpa using h2
        rw [this] at he; simp [Res.isErr] at he
  | withdraw f e amt =>
    simp only [step, withdraw] at he ⊢
    split at he
    · next h0 => rw [if_pos h0]
    · next h0 =>
      rw [if_neg h0]
      split at he
      · next h1 => rw [if_pos h1]; exact failed_of_isErr (basic_ok_or_failed_execWithdraw c s e f amt) he
      · split at he
        · simp [Res.isErr] at he
        · next h1 h2 =>
          have : (transfer c (execWithdraw c s e f amt).1 e f amt).2 = .ok := by simpa using h2
          rw [this] at he; simp [Res.isErr] at he
  | execFrozen a e amt =>
    refine failed_of_isErr ?_ he
    rcases execFrozen_cases c s a e amt with h | ⟨_, _, _, _, _, h⟩
    · exact Or.inl h
    · right; show (execFrozen c s a e amt).2 = .ok; rw [h]
  | execActive a e amt =>
    refine failed_of_isErr ?_ he
    rcases execActive_cases c s a e amt with h | ⟨_, _, _, _, _, h⟩
    · exact Or.inl h
    · right; show (execActive c s a e amt).2 = .ok; rw [h]
  | execTransfer f t e amt =>
    refine failed_of_isErr ?_ he
    rcases execTransfer_cases c s f t e amt with h | ⟨_, _, _, _, _, _, h⟩
    · exact Or.inl h
    · right; show (execTransfer c s f t e amt).2 = .ok; rw [h]
  | execTransferFrozen f t e amt =>
    refine failed_of_isErr ?_ he
    rcases execTransferFrozen_cases c s f t e amt with h | ⟨_, _, _, _, _, _, h⟩
    · exact Or.inl h
    · right; show (execTransferFrozen c s f t e amt).2 = .ok; rw [h]
  | execDepositFrozen a e amt =>
    simp only [step, execDepositFrozen] at he ⊢
    split at he
    · next h0 => rw [if_pos h0]
    · next h0 =>
      rw [if_neg h0]
      split at he
      · next hg => rw [if_pos hg]
      · next hg =>
        rw [if_neg hg]
        split at he
        · next h1 => rw [if_pos h1]; exact failed_of_isErr (basic_ok_or_failed_execIssue c s e amt) he
        · next h1 =>
          rw [if_neg h1]
          -- the issue succeeded: the amount is valid, the sub-ledger untouched, so the frozen
          -- addition checked before the issue succeeds again
          exfalso
          rcases execIssue_cases c s e amt with hf | ⟨nb, hca, _, hie⟩
          · have : (execIssue c s e amt).2 = .ok := by simpa using h1
            have h2 := hf.2; rw [this] at h2; simp [Res.isErr] at h2
          · have hsub : loadSub c (execIssue c s e amt).1 a e = loadSub c s a e := by rw [hie]; rfl
            rcases depositFrozen2_cases c (execIssue c s e amt).1 a e amt with hf2 | ⟨nf, _, he2⟩
            · have hnone : safeAdd (loadSub c s a e).frz amt = none := by
                have := hf2.2
                unfold depositFrozen2 at this
                rw [hsub] at this
                cases h4 : safeAdd (loadSub c s a e).frz amt with
                | none => rfl
                | some nf => simp [h4, Res.isErr] at this
              exact hg (by simp [hca, hnone])
            · rw [he2] at he; simp [Res.isErr] at he
  | execIssue e amt => exact failed_of_isErr (basic_ok_or_failed_execIssue c s e amt) he
  | execDeposit a e amt =>
    refine failed_of_isErr ?_ he
    rcases execDeposit_cases c s a e amt with h | ⟨_, _, _, _, h⟩
    · exact Or.inl h
    · right; show (execDeposit c s a e amt).2 = .ok; rw [h]
  | execWithdraw e a amt => exact failed_of_isErr (basic_ok_or_failed_execWithdraw c s e a amt) he

end
end C15
