import Chain33Model.Proofs.C15Inv
/-!
C15 — the main ledger: `MainOK` is inductive (for non-negative genesis grants), exact effect of
every main-ledger basic operation on `supply` and on each account's balance.
-/
set_option linter.unusedSectionVars false
set_option linter.unusedSimpArgs false
namespace C15
section
variable {σ κ : Type} [DecidableEq σ] [DecidableEq κ] (c : Cfg σ κ)

/-- balance of the main account a spelling denotes. -/
def mb (c : Cfg σ κ) (s : State σ κ) (x : σ) : Int := (loadMain c s x).bal

theorem mainOK_load {s : State σ κ} (h : MainOK s) (a : σ) :
    0 ≤ (loadMain c s a).bal ∧ (loadMain c s a).bal ≤ 9000000000000000000 ∧ 0 ≤ (loadMain c s a).frz := by
  unfold loadMain; split
  · next r hr => have := allv_get h hr; simpa [maxBal] using this
  · simp

theorem mainOK_saveMain {s : State σ κ} (h : MainOK s) {r : Acct σ}
    (hr : 0 ≤ r.bal ∧ r.bal ≤ 9000000000000000000 ∧ 0 ≤ r.frz) : MainOK (saveMain c s r) :=
  allv_aset h (by simpa [maxBal] using hr)

theorem mainOK_init : MainOK (State.init : State σ κ) := allv_nil _

theorem mainOK_of_main_eq {s s' : State σ κ} (h : s'.main = s.main) (hs : MainOK s) : MainOK s' := by
  unfold MainOK; rw [h]; exact hs

theorem loadMain_of_main_eq {s s' : State σ κ} (h : s'.main = s.main) (x : σ) :
    loadMain c s' x = loadMain c s x := by
  unfold loadMain; rw [h]

/-- a successful transfer is between two different records. -/
theorem transfer_ok_norm_ne {s : State σ κ} {f t : σ} {amt : Int}
    (h1 : checkAmount amt = true) (h2 : (loadMain c s f).addr ≠ (loadMain c s t).addr)
    (h3 : 0 ≤ wrap ((loadMain c s f).bal - amt)) : c.norm f ≠ c.norm t := by
  intro hn
  rw [checkAmount_iff] at h1
  unfold loadMain at h2 h3
  rw [hn] at h2 h3
  cases hg : aget s.main (c.norm t) with
  | some r => simp [hg] at h2
  | none =>
    simp only [hg] at h3
    unfold wrap at h3
    omega

/-! ### MainOK is preserved -/

theorem mainOK_transfer (s : State σ κ) (f t : σ) (amt : Int) (h : MainOK s) :
    MainOK (transfer c s f t amt).1 := by
  rcases transfer_cases c s f t amt with hf | ⟨nb, h1, _, h3, h4, he⟩
  · rw [hf.1]; exact h
  · rw [he]
    rw [checkAmount_iff] at h1
    obtain ⟨a1, a2, a3⟩ := mainOK_load c h f
    obtain ⟨b1, b2, b3⟩ := mainOK_load c h t
    obtain ⟨n1, n2, _⟩ := safeAdd_some h4 b1 b2
    have hw : wrap ((loadMain c s f).bal - amt) = (loadMain c s f).bal - amt := wrap_id (by omega) (by omega)
    rw [hw] at h3 ⊢
    refine mainOK_saveMain c (mainOK_saveMain c h ⟨?_, ?_, ?_⟩) ⟨?_, ?_, ?_⟩
    all_goals first | exact a3 | exact b3 | (dsimp only; omega)

theorem mainOK_depositBalance (s : State σ κ) (e : σ) (amt : Int) (h : MainOK s) :
    MainOK (depositBalance c s e amt).1 := by
  rcases depositBalance_cases c s e amt with hf | ⟨nb, h1, h4, he⟩
  · rw [hf.1]; exact h
  · rw [he]
    rw [checkAmount_iff] at h1
    obtain ⟨b1, b2, b3⟩ := mainOK_load c h e
    obtain ⟨n1, n2, _⟩ := safeAdd_some h4 b1 b2
    refine mainOK_saveMain c h ⟨?_, ?_, ?_⟩
    all_goals first | exact b3 | (dsimp only; omega)

theorem mainOK_burn (s : State σ κ) (a : σ) (amt : Int) (h : MainOK s) :
    MainOK (burn c s a amt).1 := by
  rcases burn_cases c s a amt with hf | ⟨h1, h2, he⟩
  · rw [hf.1]; exact h
  · rw [he]
    rw [checkAmount_iff] at h1
    obtain ⟨b1, b2, b3⟩ := mainOK_load c h a
    have hw : wrap ((loadMain c s a).bal - amt) = (loadMain c s a).bal - amt := wrap_id (by omega) (by omega)
    rw [hw]
    refine mainOK_saveMain c h ⟨?_, ?_, ?_⟩
    all_goals first | exact b3 | (dsimp only; omega)

theorem mainOK_genesis (s : State σ κ) (a : σ) (amt : Int) (h : MainOK s) :
    MainOK (genesis c s a amt).1 := by
  rcases genesis_cases c s a amt with hf | ⟨nb, h4, he⟩
  · rw [hf.1]; exact h
  · rw [he]
    obtain ⟨b1, b2, b3⟩ := mainOK_load c h a
    obtain ⟨n1, n2, ha⟩ := safeAdd_some h4 b1 b2
    refine mainOK_saveMain c h ⟨?_, ?_, ?_⟩
    all_goals first | exact b3 | (dsimp only; omega)

/-- The main ledger stays within `[0, MaxTokenBalance]` under every operation — also across a panic. -/
theorem mainOK_step {s : State σ κ} (op : Op σ) (h : MainOK s) :
    MainOK (step c s op).1 := by
  refine step_inv c MainOK (mainOK_transfer c) (mainOK_depositBalance c) (mainOK_burn c)
    (mainOK_genesis c) ?_ ?_ ?_ ?_ ?_ ?_ ?_ s op h
  · intro s a e amt h; exact mainOK_of_main_eq (main_execDeposit c s a e amt) h
  · intro s e a amt h; exact mainOK_of_main_eq (main_execWithdraw c s e a amt) h
  · intro s a e amt h; exact mainOK_of_main_eq (main_execFrozen c s a e amt) h
  · intro s a e amt h; exact mainOK_of_main_eq (main_execActive c s a e amt) h
  · intro s f t e amt h; exact mainOK_of_main_eq (main_execTransfer c s f t e amt) h
  · intro s f t e amt h; exact mainOK_of_main_eq (main_execTransferFrozen c s f t e amt) h
  · intro s a e amt h; exact mainOK_of_main_eq (main_depositFrozen2 c s a e amt) h

end
end C15

namespace C15
section
variable {σ κ : Type} [DecidableEq σ] [DecidableEq κ] (c : Cfg σ κ)

/-! ### exact effect of the main-ledger operations -/

theorem supply_saveMain (s : State σ κ) (r : Acct σ) :
    supply (saveMain c s r) =
      supply s - oval (fun r => r.bal + r.frz) (aget s.main (c.norm r.addr)) + (r.bal + r.frz) := by
  unfold supply saveMain
  simp [asumP_aset, aterm]

theorem oval_load (s : State σ κ) (a : σ) :
    oval (fun r => r.bal + r.frz) (aget s.main (c.norm a)) =
      (loadMain c s a).bal + (loadMain c s a).frz := by
  unfold loadMain
  cases aget s.main (c.norm a) <;> simp

theorem supply_of_main_eq {s s' : State σ κ} (h : s'.main = s.main) : supply s' = supply s := by
  unfold supply; rw [h]

theorem mb_of_main_eq {s s' : State σ κ} (h : s'.main = s.main) (x : σ) : mb c s' x = mb c s x := by
  unfold mb; rw [loadMain_of_main_eq c h]

/-- effect of a credit of `amt` to the record of `a` (depositBalance / genesis / issue). -/
theorem credit_effect {s : State σ κ} (hw : WF c s) (a : σ) (amt nb : Int)
    (hnb : nb = (loadMain c s a).bal + amt) :
    let s' := saveMain c s { loadMain c s a with bal := nb }
    supply s' = supply s + amt ∧ s'.sub = s.sub ∧
      ∀ x, mb c s' x = mb c s x + (if c.norm a = c.norm x then amt else 0) := by
  refine ⟨?_, rfl, ?_⟩
  · rw [supply_saveMain]
    dsimp only
    rw [loadMain_norm c hw, oval_load]
    omega
  · intro x
    unfold mb
    rw [loadMain_saveMain]
    dsimp only
    rw [loadMain_norm c hw]
    by_cases h : c.norm a = c.norm x
    · simp only [h, if_true]
      have : (loadMain c s a).bal = (loadMain c s x).bal := by
        unfold loadMain; rw [h]; cases aget s.main (c.norm x) <;> rfl
      omega
    · simp [h]

theorem transfer_effect {s : State σ κ} (hw : WF c s) (hm : MainOK s) (f t : σ) (amt : Int)
    (hok : (transfer c s f t amt).2 = .ok) :
    supply (transfer c s f t amt).1 = supply s ∧ (transfer c s f t amt).1.sub = s.sub ∧
      ∀ x, mb c (transfer c s f t amt).1 x =
        mb c s x + (if c.norm t = c.norm x then amt else 0) - (if c.norm f = c.norm x then amt else 0) := by
  rcases transfer_cases c s f t amt with hf | ⟨nb, h1, h2, h3, h4, he⟩
  · have := hf.2; rw [hok] at this; simp [Res.isErr] at this
  · have hne := transfer_ok_norm_ne c h1 h2 h3
    rw [he]
    rw [checkAmount_iff] at h1
    obtain ⟨a1, a2, a3⟩ := mainOK_load c hm f
    obtain ⟨b1, b2, b3⟩ := mainOK_load c hm t
    obtain ⟨n1, n2, _⟩ := safeAdd_some h4 b1 b2
    have hwr : wrap ((loadMain c s f).bal - amt) = (loadMain c s f).bal - amt := wrap_id (by omega) (by omega)
    rw [hwr]
    -- first save: debit of f
    have e1 := credit_effect c hw f (-amt) ((loadMain c s f).bal - amt) (by omega)
    dsimp only at e1
    obtain ⟨s1, s2, s3⟩ := e1
    have hw1 : WF c (saveMain c s { loadMain c s f with bal := (loadMain c s f).bal - amt }) :=
      wf_saveMain c hw _
    -- the record of t is untouched by the first save
    have ht : loadMain c (saveMain c s { loadMain c s f with bal := (loadMain c s f).bal - amt }) t
        = loadMain c s t := by
      rw [loadMain_saveMain]; dsimp only; rw [loadMain_norm c hw, if_neg hne]
    have e2 := credit_effect c hw1 t amt nb (by rw [ht]; omega)
    dsimp only at e2
    rw [ht] at e2
    obtain ⟨t1, t2, t3⟩ := e2
    refine ⟨by dsimp only; omega, by dsimp only; rw [t2, s2], ?_⟩
    intro x
    dsimp only
    rw [t3 x, s3 x]
    by_cases hx : c.norm f = c.norm x <;> simp [hx] <;> omega

theorem depositBalance_effect {s : State σ κ} (hw : WF c s) (hm : MainOK s) (a : σ) (amt : Int)
    (hok : (depositBalance c s a amt).2 = .ok) :
    supply (depositBalance c s a amt).1 = supply s + amt ∧ (depositBalance c s a amt).1.sub = s.sub ∧
      ∀ x, mb c (depositBalance c s a amt).1 x = mb c s x + (if c.norm a = c.norm x then amt else 0) := by
  rcases depositBalance_cases c s a amt with hf | ⟨nb, h1, h4, he⟩
  · have := hf.2; rw [hok] at this; simp [Res.isErr] at this
  · rw [he]
    rw [checkAmount_iff] at h1
    obtain ⟨b1, b2, b3⟩ := mainOK_load c hm a
    obtain ⟨n1, n2, _⟩ := safeAdd_some h4 b1 b2
    exact credit_effect c hw a amt nb n1

theorem genesis_effect {s : State σ κ} (hw : WF c s) (hm : MainOK s) (a : σ) (amt : Int)
    (hok : (genesis c s a amt).2 = .ok) :
    supply (genesis c s a amt).1 = supply s + amt ∧ (genesis c s a amt).1.sub = s.sub ∧
      ∀ x, mb c (genesis c s a amt).1 x = mb c s x + (if c.norm a = c.norm x then amt else 0) := by
  rcases genesis_cases c s a amt with hf | ⟨nb, h4, he⟩
  · have := hf.2; rw [hok] at this; simp [Res.isErr] at this
  · rw [he]
    obtain ⟨b1, b2, b3⟩ := mainOK_load c hm a
    obtain ⟨n1, n2, ha⟩ := safeAdd_some h4 b1 b2
    exact credit_effect c hw a amt nb n1

theorem execIssue_effect {s : State σ κ} (hw : WF c s) (hm : MainOK s) (e : σ) (amt : Int)
    (hok : (execIssue c s e amt).2 = .ok) :
    supply (execIssue c s e amt).1 = supply s + amt ∧ (execIssue c s e amt).1.sub = s.sub ∧
      ∀ x, mb c (execIssue c s e amt).1 x = mb c s x + (if c.norm e = c.norm x then amt else 0) := by
  unfold execIssue at hok ⊢
  split at hok
  · simp at hok
  · next h => rw [if_neg h]; exact depositBalance_effect c hw hm e amt hok

theorem burn_effect {s : State σ κ} (hw : WF c s) (hm : MainOK s) (a : σ) (amt : Int)
    (hok : (burn c s a amt).2 = .ok) :
    supply (burn c s a amt).1 = supply s - amt ∧ (burn c s a amt).1.sub = s.sub ∧
      ∀ x, mb c (burn c s a amt).1 x = mb c s x - (if c.norm a = c.norm x then amt else 0) := by
  rcases burn_cases c s a amt with hf | ⟨h1, h2, he⟩
  · have := hf.2; rw [hok] at this; simp [Res.isErr] at this
  · rw [he]
    rw [checkAmount_iff] at h1
    obtain ⟨b1, b2, b3⟩ := mainOK_load c hm a
    have hwr : wrap ((loadMain c s a).bal - amt) = (loadMain c s a).bal - amt := wrap_id (by omega) (by omega)
    rw [hwr]
    have e1 := credit_effect c hw a (-amt) ((loadMain c s a).bal - amt) (by omega)
    dsimp only at e1 ⊢
    obtain ⟨s1, s2, s3⟩ := e1
    refine ⟨by omega, s2, ?_⟩
    intro x
    rw [s3 x]
    by_cases hx : c.norm a = c.norm x <;> simp [hx] <;> omega

end
end C15
