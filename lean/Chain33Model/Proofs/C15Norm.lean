import Chain33Model.Model.C15
/-!
C15 — the concrete key normalisation `normEth` (eth address driver: lower-case hex addresses)
satisfies the laws the abstract theorems are used with: idempotent, and equal on spellings of a
hex address that differ only in letter case.
-/
namespace C15

theorem upper_cases (c : Char) (h : c.val ≥ 'A'.val ∧ c.val ≤ 'Z'.val) :
    ∃ i : Fin 26, c = Char.ofNat (65 + i.val) := by
  have h1 : 65 ≤ c.toNat := by
    have := h.1; simp only [ge_iff_le, UInt32.le_iff_toNat_le] at this; exact this
  have h2 : c.toNat ≤ 90 := by
    have := h.2; simp only [UInt32.le_iff_toNat_le] at this; exact this
  refine ⟨⟨c.toNat - 65, by omega⟩, ?_⟩
  have : 65 + (c.toNat - 65) = c.toNat := by omega
  simp only [this, Char.ofNat_toNat]

theorem forall_char (P : Char → Prop) (hU : ∀ i : Fin 26, P (Char.ofNat (65 + i.val)))
    (hO : ∀ c : Char, ¬(c.val ≥ 'A'.val ∧ c.val ≤ 'Z'.val) → P c) (c : Char) : P c := by
  by_cases h : c.val ≥ 'A'.val ∧ c.val ≤ 'Z'.val
  · obtain ⟨i, rfl⟩ := upper_cases c h; exact hU i
  · exact hO c h

theorem toLower_of_not_upper (c : Char) (h : ¬(c.val ≥ 'A'.val ∧ c.val ≤ 'Z'.val)) : c.toLower = c := by
  unfold Char.toLower; rw [dif_neg h]

theorem isHexChar_toLower (c : Char) : isHexChar c.toLower = isHexChar c := by
  refine forall_char (fun c => isHexChar c.toLower = isHexChar c) (by decide) ?_ c
  intro c h; rw [toLower_of_not_upper c h]

theorem toLower_idem (c : Char) : c.toLower.toLower = c.toLower := by
  refine forall_char (fun c => c.toLower.toLower = c.toLower) (by decide) ?_ c
  intro c h; rw [toLower_of_not_upper c h, toLower_of_not_upper c h]

theorem toLower_eq_zero (c : Char) : c.toLower = '0' ↔ c = '0' := by
  refine forall_char (fun c => c.toLower = '0' ↔ c = '0') (by decide) ?_ c
  intro c h; rw [toLower_of_not_upper c h]

theorem toLower_eq_x (c : Char) : c.toLower = 'x' ↔ (c = 'x' ∨ c = 'X') := by
  refine forall_char (fun c => c.toLower = 'x' ↔ (c = 'x' ∨ c = 'X')) (by decide) ?_ c
  intro c h; rw [toLower_of_not_upper c h]
  constructor
  · exact Or.inl
  · rintro (h1 | h1)
    · exact h1
    · subst h1; exact absurd (by decide) h

theorem toLower_ne_X (c : Char) : c.toLower ≠ 'X' := by
  refine forall_char (fun c => c.toLower ≠ 'X') (by decide) ?_ c
  intro c h; rw [toLower_of_not_upper c h]
  intro h1; subst h1; exact absurd (by decide) h

theorem strip_map_lower (l : List Char) :
    stripHexPrefix (l.map Char.toLower) = (stripHexPrefix l).map Char.toLower := by
  match l with
  | [] => rfl
  | [c] => rfl
  | c1 :: c2 :: r =>
    simp only [List.map_cons, stripHexPrefix]
    by_cases h : c1 = '0' ∧ (c2 = 'x' ∨ c2 = 'X')
    · have h' : c1.toLower = '0' ∧ (c2.toLower = 'x' ∨ c2.toLower = 'X') :=
        ⟨(toLower_eq_zero c1).2 h.1, Or.inl ((toLower_eq_x c2).2 h.2)⟩
      rw [if_pos h, if_pos h']
    · have h' : ¬(c1.toLower = '0' ∧ (c2.toLower = 'x' ∨ c2.toLower = 'X')) := by
        rintro ⟨a, b | b⟩
        · exact h ⟨(toLower_eq_zero c1).1 a, (toLower_eq_x c2).1 b⟩
        · exact toLower_ne_X c2 b
      rw [if_neg h, if_neg h']; rfl

theorem isHexAddr_map_lower (l : List Char) : isHexAddr (l.map Char.toLower) = isHexAddr l := by
  unfold isHexAddr
  rw [strip_map_lower, List.length_map, List.all_map]
  have : (isHexChar ∘ Char.toLower) = isHexChar := funext isHexChar_toLower
  rw [this]

theorem normEthL_idem (l : List Char) : normEthL (normEthL l) = normEthL l := by
  unfold normEthL
  by_cases h : isHexAddr l = true
  · simp only [h, if_true, isHexAddr_map_lower, List.map_map]
    have : (Char.toLower ∘ Char.toLower) = Char.toLower := funext toLower_idem
    rw [this]
  · simp only [h]; simp [h]

theorem normEthL_case (l l' : List Char) (hl : isHexAddr l = true)
    (h : l.map Char.toLower = l'.map Char.toLower) : normEthL l = normEthL l' := by
  have hl' : isHexAddr l' = true := by
    rw [← isHexAddr_map_lower, ← h, isHexAddr_map_lower]; exact hl
  unfold normEthL
  rw [if_pos hl, if_pos hl', h]

end C15
