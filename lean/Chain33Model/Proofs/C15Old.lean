import Chain33Model.Proofs.C15Deficit
/-!
C15 — the code as it was before repo commit b0959e4, kept only for regression-witness theorems:
`safeAdd` without the sign check, `GenesisInit` on top of it, `ExecDeposit` with a plain `+=`.
(`execTransferOld`, the guard before commit 3bc3d2b, is in `C15Deficit.lean`.)
-/
set_option linter.unusedSectionVars false
namespace C15
section
variable {σ κ : Type} [DecidableEq σ] [DecidableEq κ]

/-- `safeAdd` before b0959e4: only the upper side was guarded. -/
def safeAddOld (bal amt : Int) : Option Int :=
  let s := wrap (bal + amt)
  if s < amt ∨ s > maxBal then none else some s

/-- `GenesisInit` before b0959e4. -/
def genesisOld (c : Cfg σ κ) (s : State σ κ) (a : σ) (amt : Int) : State σ κ × Res :=
  let A := loadMain c s a
  match safeAddOld A.bal amt with
  | none => (s, .errAmount)
  | some nb => (saveMain c s { A with bal := nb }, .ok)

/-- `ExecDeposit` before b0959e4: `acc1.Balance += amount`. -/
def execDepositOld (c : Cfg σ κ) (s : State σ κ) (a e : σ) (amt : Int) : State σ κ × Res :=
  if a = e then (s, .errSame) else
  if !checkAmount amt then (s, .errAmount) else
  let A := loadSub c s a e
  (saveSub c s e { A with bal := wrap (A.bal + amt) }, .ok)

/-- `n` old deposits in a row. -/
def depositsOld (c : Cfg σ κ) (s : State σ κ) (a e : σ) (amt : Int) : Nat → State σ κ
  | 0 => s
  | n + 1 => (execDepositOld c (depositsOld c s a e amt n) a e amt).1

theorem safeAddOld_negative {b amt : Int} (hb0 : 0 ≤ b) (hb1 : b ≤ 9000000000000000000)
    (ha0 : -9223372036854775808 ≤ amt) (ha1 : amt < 0) : safeAddOld b amt = some (b + amt) := by
  unfold safeAddOld wrap maxBal
  simp only
  rw [if_neg (by omega)]
  congr 1; omega

theorem safeAdd_negative (b amt : Int) (ha : amt < 0) : safeAdd b amt = none := by
  unfold safeAdd
  simp only
  rw [if_pos (Or.inl ha)]

end
end C15
