import Chain33Model.Proofs.C15
/-!
C15 — load/save algebra and a case characterisation of every basic operation:
either the result is an error and the state is untouched, or the result is `ok`, the guards
held and the new state is an explicit sequence of saves.
-/
set_option linter.unusedSectionVars false
set_option linter.unusedSimpArgs false
namespace C15
section
variable {σ κ : Type} [DecidableEq σ] [DecidableEq κ] (c : Cfg σ κ)

theorem loadMain_norm {s : State σ κ} (h : WF c s) (a : σ) :
    c.norm (loadMain c s a).addr = c.norm a := by
  unfold loadMain; split
  · next r hr => exact allv_get h.1 hr
  · rfl

theorem loadSub_norm {s : State σ κ} (h : WF c s) (a e : σ) :
    c.norm (loadSub c s a e).addr = c.norm a := by
  unfold loadSub; split
  · next r hr => exact allv_get h.2 hr
  · rfl

theorem wf_init : WF c (State.init : State σ κ) := ⟨allv_nil _, allv_nil _⟩

theorem wf_saveMain {s : State σ κ} (h : WF c s) (r : Acct σ) : WF c (saveMain c s r) :=
  ⟨allv_aset h.1 rfl, h.2⟩

theorem wf_saveSub {s : State σ κ} (h : WF c s) (e : σ) (r : Acct σ) : WF c (saveSub c s e r) :=
  ⟨h.1, allv_aset h.2 rfl⟩

theorem loadMain_saveMain (s : State σ κ) (r : Acct σ) (a : σ) :
    loadMain c (saveMain c s r) a = if c.norm r.addr = c.norm a then r else loadMain c s a := by
  unfold loadMain saveMain
  simp only [aget_aset]
  by_cases h : c.norm r.addr = c.norm a <;> simp [h]

@[simp] theorem loadMain_saveSub (s : State σ κ) (e : σ) (r : Acct σ) (a : σ) :
    loadMain c (saveSub c s e r) a = loadMain c s a := rfl

@[simp] theorem loadSub_saveMain (s : State σ κ) (r : Acct σ) (a e : σ) :
    loadSub c (saveMain c s r) a e = loadSub c s a e := rfl

theorem loadSub_saveSub (s : State σ κ) (e : σ) (r : Acct σ) (a e' : σ) :
    loadSub c (saveSub c s e r) a e' =
      if (e, c.norm r.addr) = (e', c.norm a) then r else loadSub c s a e' := by
  unfold loadSub saveSub
  simp only [aget_aset]
  by_cases h : (e, c.norm r.addr) = (e', c.norm a) <;> simp only [h, if_true, if_false]

/-- result is an error and nothing changed. -/
def Failed (p : State σ κ × Res) (s : State σ κ) : Prop := p.1 = s ∧ p.2.isErr = true

theorem transfer_cases (s : State σ κ) (f t : σ) (amt : Int) :
    Failed (transfer c s f t amt) s ∨
    ∃ nb, checkAmount amt = true ∧ (loadMain c s f).addr ≠ (loadMain c s t).addr ∧
      0 ≤ wrap ((loadMain c s f).bal - amt) ∧ safeAdd (loadMain c s t).bal amt = some nb ∧
      transfer c s f t amt =
        (saveMain c (saveMain c s { loadMain c s f with bal := wrap ((loadMain c s f).bal - amt) })
          { loadMain c s t with bal := nb }, .ok) := by
  unfold transfer Failed
  by_cases h1 : checkAmount amt = true
  · by_cases h2 : (loadMain c s f).addr = (loadMain c s t).addr
    · left; simp [h1, h2, Res.isErr]
    · by_cases h3 : 0 ≤ wrap ((loadMain c s f).bal - amt)
      · cases h4 : safeAdd (loadMain c s t).bal amt with
        | none => left; simp [h1, h2, h3, h4, Res.isErr]
        | some nb => right; exact ⟨nb, h1, h2, h3, rfl, by simp [h1, h2, h3, h4]⟩
      · left; simp [h1, h2, h3, Res.isErr]
  · left; simp [h1, Res.isErr]

theorem depositBalance_cases (s : State σ κ) (e : σ) (amt : Int) :
    Failed (depositBalance c s e amt) s ∨
    ∃ nb, checkAmount amt = true ∧ safeAdd (loadMain c s e).bal amt = some nb ∧
      depositBalance c s e amt = (saveMain c s { loadMain c s e with bal := nb }, .ok) := by
  unfold depositBalance Failed
  by_cases h1 : checkAmount amt = true
  · cases h4 : safeAdd (loadMain c s e).bal amt with
    | none => left; simp [h1, h4, Res.isErr]
    | some nb => right; exact ⟨nb, h1, rfl, by simp [h1, h4]⟩
  · left; simp [h1, Res.isErr]

theorem burn_cases (s : State σ κ) (a : σ) (amt : Int) :
    Failed (burn c s a amt) s ∨
    (checkAmount amt = true ∧ amt ≤ (loadMain c s a).bal ∧
      burn c s a amt =
        (saveMain c s { loadMain c s a with bal := wrap ((loadMain c s a).bal - amt) }, .ok)) := by
  unfold burn Failed
  by_cases h1 : checkAmount amt = true
  · by_cases h2 : (loadMain c s a).bal < amt
    · left; simp [h1, h2, Res.isErr]
    · right; exact ⟨h1, by omega, by simp [h1, h2]⟩
  · left; simp [h1, Res.isErr]

theorem genesis_cases (s : State σ κ) (a : σ) (amt : Int) :
    Failed (genesis c s a amt) s ∨
    ∃ nb, safeAdd (loadMain c s a).bal amt = some nb ∧
      genesis c s a amt = (saveMain c s { loadMain c s a with bal := nb }, .ok) := by
  unfold genesis Failed
  cases h4 : safeAdd (loadMain c s a).bal amt with
  | none => left; simp [h4, Res.isErr]
  | some nb => right; exact ⟨nb, rfl, by simp [h4]⟩

theorem execDeposit_cases (s : State σ κ) (a e : σ) (amt : Int) :
    Failed (execDeposit c s a e amt) s ∨
    ∃ nb, a ≠ e ∧ checkAmount amt = true ∧ safeAdd (loadSub c s a e).bal amt = some nb ∧
      execDeposit c s a e amt = (saveSub c s e { loadSub c s a e with bal := nb }, .ok) := by
  unfold execDeposit Failed
  by_cases h0 : a = e
  · left; simp [h0, Res.isErr]
  · by_cases h1 : checkAmount amt = true
    · cases h4 : safeAdd (loadSub c s a e).bal amt with
      | none => left; simp [h0, h1, h4, Res.isErr]
      | some nb => right; exact ⟨nb, h0, h1, rfl, by simp [h0, h1, h4]⟩
    · left; simp [h0, h1, Res.isErr]

theorem execWithdraw_cases (s : State σ κ) (e a : σ) (amt : Int) :
    Failed (execWithdraw c s e a amt) s ∨
    (a ≠ e ∧ checkAmount amt = true ∧ 0 ≤ wrap ((loadSub c s a e).bal - amt) ∧
      execWithdraw c s e a amt =
        (saveSub c s e { loadSub c s a e with bal := wrap ((loadSub c s a e).bal - amt) }, .ok)) := by
  unfold execWithdraw Failed
  by_cases h0 : a = e
  · left; simp [h0, Res.isErr]
  · by_cases h1 : checkAmount amt = true
    · by_cases h2 : wrap ((loadSub c s a e).bal - amt) < 0
      · left; simp [h0, h1, h2, Res.isErr]
      · right; exact ⟨h0, h1, by omega, by simp [h0, h1, h2]⟩
    · left; simp [h0, h1, Res.isErr]

theorem execFrozen_cases (s : State σ κ) (a e : σ) (amt : Int) :
    Failed (execFrozen c s a e amt) s ∨
    ∃ nf, a ≠ e ∧ checkAmount amt = true ∧ 0 ≤ wrap ((loadSub c s a e).bal - amt) ∧
      safeAdd (loadSub c s a e).frz amt = some nf ∧
      execFrozen c s a e amt =
        (saveSub c s e { loadSub c s a e with bal := wrap ((loadSub c s a e).bal - amt), frz := nf }, .ok) := by
  unfold execFrozen Failed
  by_cases h0 : a = e
  · left; simp [h0, Res.isErr]
  · by_cases h1 : checkAmount amt = true
    · by_cases h2 : wrap ((loadSub c s a e).bal - amt) < 0
      · left; simp [h0, h1, h2, Res.isErr]
      · cases h4 : safeAdd (loadSub c s a e).frz amt with
        | none => left; simp [h0, h1, h2, h4, Res.isErr]
        | some nf => right; exact ⟨nf, h0, h1, by omega, rfl, by simp [h0, h1, h2, h4]⟩
    · left; simp [h0, h1, Res.isErr]

theorem execActive_cases (s : State σ κ) (a e : σ) (amt : Int) :
    Failed (execActive c s a e amt) s ∨
    ∃ nb, a ≠ e ∧ checkAmount amt = true ∧ 0 ≤ wrap ((loadSub c s a e).frz - amt) ∧
      safeAdd (loadSub c s a e).bal amt = some nb ∧
      execActive c s a e amt =
        (saveSub c s e { loadSub c s a e with bal := nb, frz := wrap ((loadSub c s a e).frz - amt) }, .ok) := by
  unfold execActive Failed
  by_cases h0 : a = e
  · left; simp [h0, Res.isErr]
  · by_cases h1 : checkAmount amt = true
    · by_cases h2 : wrap ((loadSub c s a e).frz - amt) < 0
      · left; simp [h0, h1, h2, Res.isErr]
      · cases h4 : safeAdd (loadSub c s a e).bal amt with
        | none => left; simp [h0, h1, h2, h4, Res.isErr]
        | some nb => right; exact ⟨nb, h0, h1, by omega, rfl, by simp [h0, h1, h2, h4]⟩
    · left; simp [h0, h1, Res.isErr]

theorem execTransfer_cases (s : State σ κ) (f t e : σ) (amt : Int) :
    Failed (execTransfer c s f t e amt) s ∨
    ∃ nb, f ≠ t ∧ c.norm f ≠ c.norm t ∧ checkAmount amt = true ∧
      0 ≤ wrap ((loadSub c s f e).bal - amt) ∧ safeAdd (loadSub c s t e).bal amt = some nb ∧
      execTransfer c s f t e amt =
        (saveSub c (saveSub c s e { loadSub c s f e with bal := wrap ((loadSub c s f e).bal - amt) }) e
          { loadSub c s t e with bal := nb }, .ok) := by
  unfold execTransfer Failed
  by_cases h0 : f = t ∨ c.norm f = c.norm t
  · left; simp [h0, Res.isErr]
  · by_cases h1 : checkAmount amt = true
    · by_cases h2 : wrap ((loadSub c s f e).bal - amt) < 0
      · left; simp [h0, h1, h2, Res.isErr]
      · cases h4 : safeAdd (loadSub c s t e).bal amt with
        | none => left; simp [h0, h1, h2, h4, Res.isErr]
        | some nb =>
          right
          exact ⟨nb, fun h => h0 (Or.inl h), fun h => h0 (Or.inr h), h1, by omega, rfl,
            by simp [h0, h1, h2, h4]⟩
    · left; simp [h0, h1, Res.isErr]

theorem execTransferFrozen_cases (s : State σ κ) (f t e : σ) (amt : Int) :
    Failed (execTransferFrozen c s f t e amt) s ∨
    ∃ nb, f ≠ t ∧ c.norm f ≠ c.norm t ∧ checkAmount amt = true ∧
      0 ≤ wrap ((loadSub c s f e).frz - amt) ∧ safeAdd (loadSub c s t e).bal amt = some nb ∧
      execTransferFrozen c s f t e amt =
        (saveSub c (saveSub c s e { loadSub c s f e with frz := wrap ((loadSub c s f e).frz - amt) }) e
          { loadSub c s t e with bal := nb }, .ok) := by
  unfold execTransferFrozen Failed
  by_cases h0 : f = t ∨ c.norm f = c.norm t
  · left; simp [h0, Res.isErr]
  · by_cases h1 : checkAmount amt = true
    · by_cases h2 : wrap ((loadSub c s f e).frz - amt) < 0
      · left; simp [h0, h1, h2, Res.isErr]
      · cases h4 : safeAdd (loadSub c s t e).bal amt with
        | none => left; simp [h0, h1, h2, h4, Res.isErr]
        | some nb =>
          right
          exact ⟨nb, fun h => h0 (Or.inl h), fun h => h0 (Or.inr h), h1, by omega, rfl,
            by simp [h0, h1, h2, h4]⟩
    · left; simp [h0, h1, Res.isErr]

theorem depositFrozen2_cases (s : State σ κ) (a e : σ) (amt : Int) :
    Failed (depositFrozen2 c s a e amt) s ∨
    ∃ nf, safeAdd (loadSub c s a e).frz amt = some nf ∧
      depositFrozen2 c s a e amt = (saveSub c s e { loadSub c s a e with frz := nf }, .ok) := by
  unfold depositFrozen2 Failed
  cases h4 : safeAdd (loadSub c s a e).frz amt with
  | none => left; simp [h4, Res.isErr]
  | some nf => right; exact ⟨nf, rfl, by simp [h4]⟩

theorem execIssue_cases (s : State σ κ) (e : σ) (amt : Int) :
    Failed (execIssue c s e amt) s ∨
    ∃ nb, checkAmount amt = true ∧ safeAdd (loadMain c s e).bal amt = some nb ∧
      execIssue c s e amt = (saveMain c s { loadMain c s e with bal := nb }, .ok) := by
  unfold execIssue
  by_cases h : c.allow e = true
  · simpa [h] using depositBalance_cases c s e amt
  · left; simp [h, Failed, Res.isErr]

end
end C15
