import Chain33Model.Proofs.C15Sub
/-!
C15 — lifting the step lemmas to op lists (`run`).
-/
set_option linter.unusedSectionVars false
set_option linter.unusedSimpArgs false
namespace C15
section
variable {σ κ : Type} [DecidableEq σ] [DecidableEq κ] (c : Cfg σ κ)

theorem mainOK_run (ops : List (Op σ)) (hops : ∀ op ∈ ops, GenesisOK op) {s : State σ κ}
    (h : MainOK s) : MainOK (run c s ops) := by
  induction ops generalizing s with
  | nil => exact h
  | cons op ops ih =>
    exact ih (fun o ho => hops o (List.mem_cons_of_mem _ ho))
      (mainOK_step c op (hops op List.mem_cons_self) h)

theorem supply_run (ops : List (Op σ)) (hops : ∀ op ∈ ops, GenesisOK op) {s : State σ κ}
    (hw : WF c s) (hm : MainOK s) : supply (run c s ops) = supply s + granted c s ops := by
  induction ops generalizing s with
  | nil => simp [run, granted]
  | cons op ops ih =>
    have hop := hops op List.mem_cons_self
    have := ih (fun o ho => hops o (List.mem_cons_of_mem _ ho)) (wf_step c op hw)
      (mainOK_step c op hop hm)
    simp only [run, granted]
    rw [this, supply_step c hw hm op hop]
    omega

theorem nonNeg_of_bounds {s : State σ κ} {B : Int} (hm : MainOK s) (hs : SubB B s.sub) : NonNeg s :=
  ⟨allv_mono hm (fun _ _ h => ⟨h.1, h.2.2⟩), allv_mono hs (fun _ _ h => ⟨h.1, h.2.2.1⟩)⟩

end
end C15
