import Chain33Model.Proofs.C15Sub
/-!
C15 — lifting the step lemmas to op lists (`run`): the reachable-state invariant `Inv`.
-/
set_option linter.unusedSectionVars false
set_option linter.unusedSimpArgs false
namespace C15
section
variable {σ κ : Type} [DecidableEq σ] [DecidableEq κ] (c : Cfg σ κ)

/-- invariant of every reachable state: well-formed keys, main ledger within
`[0, MaxTokenBalance]`, every sub-account field within `[0, MaxTokenBalance]`. -/
def Inv (c : Cfg σ κ) (s : State σ κ) : Prop :=
  WF c s ∧ MainOK s ∧ SubBound 9000000000000000000 s

theorem inv_init : Inv c (State.init : State σ κ) := ⟨wf_init c, mainOK_init, allv_nil _⟩

theorem inv_step {s : State σ κ} (op : Op σ) (h : Inv c s) : Inv c (step c s op).1 :=
  ⟨wf_step c op h.1, mainOK_step c op h.2.1, subB_step c s op h.2.2⟩

theorem inv_run (ops : List (Op σ)) {s : State σ κ} (h : Inv c s) : Inv c (run c s ops) := by
  induction ops generalizing s with
  | nil => exact h
  | cons op ops ih => exact ih (inv_step c op h)

theorem supply_run (ops : List (Op σ)) {s : State σ κ} (h : Inv c s) :
    supply (run c s ops) = supply s + granted c s ops := by
  induction ops generalizing s with
  | nil => simp [run, granted]
  | cons op ops ih =>
    have := ih (inv_step c op h)
    simp only [run, granted]
    rw [this, supply_step c h.1 h.2.1 op]
    omega

theorem nonNeg_of_inv {s : State σ κ} (h : Inv c s) : NonNeg s :=
  ⟨allv_mono h.2.1 (fun _ _ h => ⟨h.1, h.2.2⟩), allv_mono h.2.2 (fun _ _ h => ⟨h.1, h.2.2.1⟩)⟩

end
end C15
