import Chain33Model.Proofs.C15Supply
/-!
C15 — the exec sub-ledger: bounded growth (`SubBound`), hence no int64 wrap within 92 operations;
exact effect of every sub-ledger operation on `subSum`; the deficit equation.
-/
set_option linter.unusedSectionVars false
set_option linter.unusedSimpArgs false
namespace C15
section
variable {σ κ : Type} [DecidableEq σ] [DecidableEq κ] (c : Cfg σ κ)

/-! ### main-ledger operations never touch the sub-ledger -/

theorem sub_transfer (s : State σ κ) (f t : σ) (amt : Int) : (transfer c s f t amt).1.sub = s.sub := by
  rcases transfer_cases c s f t amt with h | ⟨_, _, _, _, _, he⟩
  · rw [h.1]
  · rw [he]; rfl

theorem sub_depositBalance (s : State σ κ) (a : σ) (amt : Int) :
    (depositBalance c s a amt).1.sub = s.sub := by
  rcases depositBalance_cases c s a amt with h | ⟨_, _, _, he⟩
  · rw [h.1]
  · rw [he]; rfl

theorem sub_burn (s : State σ κ) (a : σ) (amt : Int) : (burn c s a amt).1.sub = s.sub := by
  rcases burn_cases c s a amt with h | ⟨_, _, he⟩
  · rw [h.1]
  · rw [he]; rfl

theorem sub_genesis (s : State σ κ) (a : σ) (amt : Int) : (genesis c s a amt).1.sub = s.sub := by
  rcases genesis_cases c s a amt with h | ⟨_, _, he⟩
  · rw [h.1]
  · rw [he]; rfl

theorem sub_execIssue (s : State σ κ) (e : σ) (amt : Int) : (execIssue c s e amt).1.sub = s.sub := by
  rcases execIssue_cases c s e amt with h | ⟨_, _, _, he⟩
  · rw [h.1]
  · rw [he]; rfl

/-- Lifting for predicates of the sub-ledger alone: if every sub-ledger basic operation takes
`P` to `Q` (and `P → Q`), so does `step` — no composite operation writes the sub-ledger twice. -/
theorem step_sub (P Q : List ((σ × κ) × Acct σ) → Prop) (hPQ : ∀ m, P m → Q m)
    (hED : ∀ s a e amt, P s.sub → Q (execDeposit c s a e amt).1.sub)
    (hEW : ∀ s e a amt, P s.sub → Q (execWithdraw c s e a amt).1.sub)
    (hEF : ∀ s a e amt, P s.sub → Q (execFrozen c s a e amt).1.sub)
    (hEA : ∀ s a e amt, P s.sub → Q (execActive c s a e amt).1.sub)
    (hET : ∀ s f t e amt, P s.sub → Q (execTransfer c s f t e amt).1.sub)
    (hETF : ∀ s f t e amt, P s.sub → Q (execTransferFrozen c s f t e amt).1.sub)
    (hDF : ∀ (s : State σ κ) a e amt, P s.sub → Q (depositFrozen2 c s a e amt).1.sub)
    (s : State σ κ) (op : Op σ) (hs : P s.sub) : Q (step c s op).1.sub := by
  cases op with
  | transfer f t amt => simp only [step]; rw [sub_transfer]; exact hPQ _ hs
  | checkTransfer f t amt => exact hPQ _ hs
  | mint a amt => simp only [step, mint]; rw [sub_depositBalance]; exact hPQ _ hs
  | burn a amt => simp only [step]; rw [sub_burn]; exact hPQ _ hs
  | genesis a amt => simp only [step]; rw [sub_genesis]; exact hPQ _ hs
  | genesisExec a amt e =>
    have h1 : P (genesis c s e amt).1.sub := by rw [sub_genesis]; exact hs
    simp only [step, genesisExec]
    split
    · exact hPQ _ h1
    · split
      · exact hPQ _ h1
      · exact hED _ a e amt h1
  | toExec f e amt =>
    have h1 : P (transfer c s f e amt).1.sub := by rw [sub_transfer]; exact hs
    simp only [step, toExec]
    split
    · exact hPQ _ h1
    · split
      · exact hPQ _ h1
      · exact hED _ f e amt h1
  | withdraw f e amt =>
    simp only [step, withdraw]
    split
    · exact hPQ _ hs
    · have h1 := hEW s e f amt hs
      split
      · exact h1
      · split
        · exact h1
        · rw [sub_transfer]; exact h1
  | execFrozen a e amt => exact hEF s a e amt hs
  | execActive a e amt => exact hEA s a e amt hs
  | execTransfer f t e amt => exact hET s f t e amt hs
  | execTransferFrozen f t e amt => exact hETF s f t e amt hs
  | execDepositFrozen a e amt =>
    simp only [step, execDepositFrozen]
    split
    · exact hPQ _ hs
    · split
      · exact hPQ _ hs
      · have h1 : P (execIssue c s e amt).1.sub := by rw [sub_execIssue]; exact hs
        split
        · exact hPQ _ h1
        · exact hDF _ a e amt h1
  | execIssue e amt => simp only [step]; rw [sub_execIssue]; exact hPQ _ hs
  | execDeposit a e amt => exact hED s a e amt hs
  | execWithdraw e a amt => exact hEW s e a amt hs

/-! ### bounded growth -/

/-- bound on the fields of every sub-account (a predicate of the sub-ledger alone). -/
def SubB (B : Int) (m : List ((σ × κ) × Acct σ)) : Prop :=
  AllV (fun _ r => 0 ≤ r.bal ∧ r.bal ≤ B ∧ 0 ≤ r.frz ∧ r.frz ≤ B) m

theorem subBound_iff (B : Int) (s : State σ κ) : SubBound B s ↔ SubB B s.sub := Iff.rfl

theorem subB_load {B : Int} {s : State σ κ} (h : SubB B s.sub) (hB : 0 ≤ B) (a e : σ) :
    0 ≤ (loadSub c s a e).bal ∧ (loadSub c s a e).bal ≤ B ∧
    0 ≤ (loadSub c s a e).frz ∧ (loadSub c s a e).frz ≤ B := by
  unfold loadSub; split
  · next r hr => exact allv_get h hr
  · simp [hB]

theorem subB_mono {B B' : Int} (hBB : B ≤ B') {m : List ((σ × κ) × Acct σ)} (h : SubB B m) :
    SubB B' m :=
  allv_mono h (fun _ r ⟨h1, h2, h3, h4⟩ => ⟨h1, by omega, h3, by omega⟩)

theorem subB_saveSub {B : Int} {s : State σ κ} (h : SubB B s.sub) (e : σ) {r : Acct σ}
    (hr : 0 ≤ r.bal ∧ r.bal ≤ B ∧ 0 ≤ r.frz ∧ r.frz ≤ B) : SubB B (saveSub c s e r).sub :=
  allv_aset h hr

/-- Every sub-account field stays within `[0, MaxTokenBalance]`: additions go through `safeAdd`,
subtractions are guarded by the sufficiency checks. -/
theorem subB_step (s : State σ κ) (op : Op σ) (hs : SubB 9000000000000000000 s.sub) :
    SubB 9000000000000000000 (step c s op).1.sub := by
  refine step_sub c (SubB 9000000000000000000) (SubB 9000000000000000000) (fun _ h => h)
    ?_ ?_ ?_ ?_ ?_ ?_ ?_ s op hs
  · intro s a e amt h
    rcases execDeposit_cases c s a e amt with hf | ⟨nb, _, h1, h4, he⟩
    · rw [hf.1]; exact h
    · rw [he]
      obtain ⟨a1, a2, a3, a4⟩ := subB_load c h (by decide) a e
      obtain ⟨n1, n2, n3⟩ := safeAdd_some h4 a1 a2
      refine subB_saveSub c h e ⟨?_, ?_, ?_, ?_⟩ <;> dsimp only <;> omega
  · intro s e a amt h
    rcases execWithdraw_cases c s e a amt with hf | ⟨_, h1, h2, he⟩
    · rw [hf.1]; exact h
    · rw [he]; rw [checkAmount_iff] at h1
      obtain ⟨a1, a2, a3, a4⟩ := subB_load c h (by decide) a e
      rw [wrap_id (by omega) (by omega)] at h2 ⊢
      refine subB_saveSub c h e ⟨?_, ?_, ?_, ?_⟩ <;> dsimp only <;> omega
  · intro s a e amt h
    rcases execFrozen_cases c s a e amt with hf | ⟨nf, _, h1, h2, h4, he⟩
    · rw [hf.1]; exact h
    · rw [he]; rw [checkAmount_iff] at h1
      obtain ⟨a1, a2, a3, a4⟩ := subB_load c h (by decide) a e
      obtain ⟨n1, n2, n3⟩ := safeAdd_some h4 a3 a4
      rw [wrap_id (x := (loadSub c s a e).bal - amt) (by omega) (by omega)] at h2 ⊢
      refine subB_saveSub c h e ⟨?_, ?_, ?_, ?_⟩ <;> dsimp only <;> omega
  · intro s a e amt h
    rcases execActive_cases c s a e amt with hf | ⟨nb, _, h1, h2, h4, he⟩
    · rw [hf.1]; exact h
    · rw [he]; rw [checkAmount_iff] at h1
      obtain ⟨a1, a2, a3, a4⟩ := subB_load c h (by decide) a e
      obtain ⟨n1, n2, n3⟩ := safeAdd_some h4 a1 a2
      rw [wrap_id (x := (loadSub c s a e).frz - amt) (by omega) (by omega)] at h2 ⊢
      refine subB_saveSub c h e ⟨?_, ?_, ?_, ?_⟩ <;> dsimp only <;> omega
  · intro s f t e amt h
    rcases execTransfer_cases c s f t e amt with hf | ⟨nb, _, _, h1, h2, h4, he⟩
    · rw [hf.1]; exact h
    · rw [he]; rw [checkAmount_iff] at h1
      obtain ⟨a1, a2, a3, a4⟩ := subB_load c h (by decide) f e
      obtain ⟨b1, b2, b3, b4⟩ := subB_load c h (by decide) t e
      obtain ⟨n1, n2, n3⟩ := safeAdd_some h4 b1 b2
      rw [wrap_id (x := (loadSub c s f e).bal - amt) (by omega) (by omega)] at h2 ⊢
      refine subB_saveSub c (s := saveSub c s e _) (subB_saveSub c h e ⟨?_, ?_, ?_, ?_⟩) e ⟨?_, ?_, ?_, ?_⟩ <;>
        dsimp only <;> omega
  · intro s f t e amt h
    rcases execTransferFrozen_cases c s f t e amt with hf | ⟨nb, _, _, h1, h2, h4, he⟩
    · rw [hf.1]; exact h
    · rw [he]; rw [checkAmount_iff] at h1
      obtain ⟨a1, a2, a3, a4⟩ := subB_load c h (by decide) f e
      obtain ⟨b1, b2, b3, b4⟩ := subB_load c h (by decide) t e
      obtain ⟨n1, n2, n3⟩ := safeAdd_some h4 b1 b2
      rw [wrap_id (x := (loadSub c s f e).frz - amt) (by omega) (by omega)] at h2 ⊢
      refine subB_saveSub c (s := saveSub c s e _) (subB_saveSub c h e ⟨?_, ?_, ?_, ?_⟩) e ⟨?_, ?_, ?_, ?_⟩ <;>
        dsimp only <;> omega
  · intro s a e amt h
    rcases depositFrozen2_cases c s a e amt with hf | ⟨nf, h4, he⟩
    · rw [hf.1]; exact h
    · rw [he]
      obtain ⟨a1, a2, a3, a4⟩ := subB_load c h (by decide) a e
      obtain ⟨n1, n2, n3⟩ := safeAdd_some h4 a3 a4
      refine subB_saveSub c h e ⟨?_, ?_, ?_, ?_⟩ <;> dsimp only <;> omega

theorem subB_run (ops : List (Op σ)) (s : State σ κ) (hs : SubB 9000000000000000000 s.sub) :
    SubB 9000000000000000000 (run c s ops).sub := by
  induction ops generalizing s with
  | nil => exact hs
  | cons op ops ih => exact ih _ (subB_step c s op hs)

end
end C15
