import Chain33Model.Proofs.C15Main
/-!
C15 — supply accounting: `supply` moves by exactly `opSupply op result` in every step.
-/
set_option linter.unusedSectionVars false
set_option linter.unusedSimpArgs false
namespace C15
section
variable {σ κ : Type} [DecidableEq σ] [DecidableEq κ] (c : Cfg σ κ)

theorem opSupply_err (op : Op σ) (r : Res) (h : r.isErr = true) : opSupply op r = 0 := by
  cases op <;> cases r <;> simp [opSupply, Res.isErr] at *

theorem not_ok_of_failed {p : State σ κ × Res} {s : State σ κ} (h : Failed p s) : p.2 ≠ .ok := by
  intro h2; have := h.2; rw [h2] at this; simp [Res.isErr] at this

/-- In every step the supply changes by exactly the minted / burned / issued / granted amount
of that step (0 for all other operations and for errors). -/
theorem supply_step {s : State σ κ} (hw : WF c s) (hm : MainOK s) (op : Op σ) :
    supply (step c s op).1 = supply s + opSupply op (step c s op).2 := by
  cases op with
  | transfer f t amt =>
    rcases basic_ok_or_failed_transfer c s f t amt with h | h
    · simp only [step]; rw [h.1, opSupply_err _ _ h.2]; omega
    · simp only [step]; rw [(transfer_effect c hw hm f t amt h).1, h]; simp [opSupply]
  | checkTransfer f t amt => simp [step, opSupply]
  | mint a amt =>
    rcases basic_ok_or_failed_depositBalance c s a amt with h | h
    · simp only [step, mint]; rw [h.1, opSupply_err _ _ h.2]; omega
    · simp only [step, mint]; rw [(depositBalance_effect c hw hm a amt h).1, h]; simp [opSupply]
  | burn a amt =>
    rcases basic_ok_or_failed_burn c s a amt with h | h
    · simp only [step]; rw [h.1, opSupply_err _ _ h.2]; omega
    · simp only [step]; rw [(burn_effect c hw hm a amt h).1, h]; simp [opSupply]; omega
  | genesis a amt =>
    rcases basic_ok_or_failed_genesis c s a amt with h | h
    · simp only [step]; rw [h.1, opSupply_err _ _ h.2]; omega
    · simp only [step]; rw [(genesis_effect c hw hm a amt h).1, h]; simp [opSupply]
  | genesisExec a amt e =>
    simp only [step, genesisExec]
    rcases basic_ok_or_failed_genesis c s e amt with h | h
    · rw [if_pos (not_ok_of_failed h), h.1, opSupply_err _ _ h.2]; omega
    · rw [if_neg (by simp [h])]
      have e1 := (genesis_effect c hw hm e amt h).1
      split
      · simp only [opSupply]; exact e1
      · next h2 =>
        have h2' : (execDeposit c (genesis c s e amt).1 a e amt).2 = .ok := by simpa using h2
        rw [h2', supply_of_main_eq (main_execDeposit c _ a e amt), e1]; simp [opSupply]
  | toExec f e amt =>
    simp only [step, toExec]
    rcases basic_ok_or_failed_transfer c s f e amt with h | h
    · rw [if_pos (not_ok_of_failed h), h.1, opSupply_err _ _ h.2]; omega
    · rw [if_neg (by simp [h])]
      have e1 := (transfer_effect c hw hm f e amt h).1
      split
      · simp only [opSupply]; omega
      · next h2 =>
        have h2' : (execDeposit c (transfer c s f e amt).1 f e amt).2 = .ok := by simpa using h2
        rw [h2', supply_of_main_eq (main_execDeposit c _ f e amt), e1]; simp [opSupply]
  | withdraw f e amt =>
    simp only [step, withdraw]
    split
    · simp [opSupply]
    · have hmain := main_execWithdraw c s e f amt
      have hw1 : WF c (execWithdraw c s e f amt).1 := wf_step c (.execWithdraw e f amt) hw
      have hm1 : MainOK (execWithdraw c s e f amt).1 := mainOK_of_main_eq hmain hm
      have e0 := supply_of_main_eq hmain
      split
      · simp only [opSupply]; omega
      · split
        · simp only [opSupply]; omega
        · next h2 =>
          have h2' : (transfer c (execWithdraw c s e f amt).1 e f amt).2 = .ok := by simpa using h2
          rw [h2', (transfer_effect c hw1 hm1 e f amt h2').1, e0]; simp [opSupply]
  | execFrozen a e amt =>
    simp only [step]; rw [supply_of_main_eq (main_execFrozen c s a e amt)]; simp [opSupply]
  | execActive a e amt =>
    simp only [step]; rw [supply_of_main_eq (main_execActive c s a e amt)]; simp [opSupply]
  | execTransfer f t e amt =>
    simp only [step]; rw [supply_of_main_eq (main_execTransfer c s f t e amt)]; simp [opSupply]
  | execTransferFrozen f t e amt =>
    simp only [step]; rw [supply_of_main_eq (main_execTransferFrozen c s f t e amt)]; simp [opSupply]
  | execDepositFrozen a e amt =>
    simp only [step, execDepositFrozen]
    split
    · simp [opSupply]
    · split
      · simp [opSupply]
      · rcases basic_ok_or_failed_execIssue c s e amt with h | h
        · rw [if_pos (not_ok_of_failed h), h.1, opSupply_err _ _ h.2]; omega
        · rw [if_neg (by simp [h])]
          have e1 := (execIssue_effect c hw hm e amt h).1
          rw [supply_of_main_eq (main_depositFrozen2 c _ a e amt), e1]
          rcases basic_ok_or_failed_depositFrozen2 c (execIssue c s e amt).1 a e amt with h2 | h2
          · exfalso
            -- cannot fail: checked before the issue (see `step_err_unchanged`)
            have herr : (step c s (.execDepositFrozen a e amt)).2.isErr = true := by
              simp only [step, execDepositFrozen]
              rw [if_neg (by assumption), if_neg (by assumption), if_neg (by simp [h])]
              exact h2.2
            have hst := step_err_unchanged c s (.execDepositFrozen a e amt) herr
            simp only [step, execDepositFrozen] at hst
            rw [if_neg (by assumption), if_neg (by assumption), if_neg (by simp [h])] at hst
            have hsup : supply (depositFrozen2 c (execIssue c s e amt).1 a e amt).1 = supply s := by rw [hst]
            rw [supply_of_main_eq (main_depositFrozen2 c _ a e amt), e1] at hsup
            have hca : 0 < amt := by
              rcases execIssue_cases c s e amt with hf | ⟨nb, hca, _, _⟩
              · exact absurd h (not_ok_of_failed hf)
              · exact ((checkAmount_iff amt).1 hca).1
            omega
          · rw [h2]; simp [opSupply]
  | execIssue e amt =>
    rcases basic_ok_or_failed_execIssue c s e amt with h | h
    · simp only [step]; rw [h.1, opSupply_err _ _ h.2]; omega
    · simp only [step]; rw [(execIssue_effect c hw hm e amt h).1, h]; simp [opSupply]
  | execDeposit a e amt =>
    simp only [step]; rw [supply_of_main_eq (main_execDeposit c s a e amt)]; simp [opSupply]
  | execWithdraw e a amt =>
    simp only [step]; rw [supply_of_main_eq (main_execWithdraw c s e a amt)]; simp [opSupply]

end
end C15
