import Chain33Model.Model.C16
/-!
Helper lemmas for C16/C17: the proto3 encoding of `Transaction` is injective on records whose
integer fields are in the range of their Go types.

Plan (DESIGN.md Appendix C): `varint` is prefix-free; a length-delimited field is prefix-free;
a message is the concatenation of its present fields in field order, each starting with its
own one-byte tag, so fields are peeled front to back: an absent field contributes nothing and
whatever follows starts with a strictly larger tag.
-/
namespace C16
open Proto

/-! ### varint -/

theorem varint_lt {n : Nat} (h : n < 128) : varint n = [UInt8.ofNat n] := by
  rw [varint]; simp [h]

theorem varint_ge {n : Nat} (h : ¬ n < 128) :
    varint n = UInt8.ofNat (n % 128 + 128) :: varint (n / 128) := by
  rw [varint]; simp [h]

theorem ofNat_inj {a b : Nat} (ha : a < 256) (hb : b < 256) (h : UInt8.ofNat a = UInt8.ofNat b) : a = b := by
  have := congrArg UInt8.toNat h
  simp [UInt8.toNat_ofNat'] at this
  omega

theorem varint_ne_nil (n : Nat) : varint n ≠ [] := by
  by_cases h : n < 128
  · rw [varint_lt h]; simp
  · rw [varint_ge h]; simp

/-- varints are prefix-free: a varint followed by anything determines the number and the rest. -/
theorem varint_prefix_free : ∀ (a b : Nat) (r r' : Bytes),
    varint a ++ r = varint b ++ r' → a = b ∧ r = r' := by
  intro a
  induction a using Nat.strongRecOn with
  | _ a ih =>
    intro b r r' h
    by_cases ha : a < 128 <;> by_cases hb : b < 128
    · rw [varint_lt ha, varint_lt hb] at h
      simp only [List.cons_append, List.nil_append, List.cons.injEq] at h
      exact ⟨ofNat_inj (by omega) (by omega) h.1, h.2⟩
    · rw [varint_lt ha, varint_ge hb] at h
      simp only [List.cons_append, List.nil_append, List.cons.injEq] at h
      have := ofNat_inj (by omega) (by omega) h.1
      omega
    · rw [varint_ge ha, varint_lt hb] at h
      simp only [List.cons_append, List.nil_append, List.cons.injEq] at h
      have := ofNat_inj (by omega) (by omega) h.1
      omega
    · rw [varint_ge ha, varint_ge hb] at h
      simp only [List.cons_append, List.cons.injEq] at h
      have h1 := ofNat_inj (by omega) (by omega) h.1
      have ⟨h2, h3⟩ := ih (a / 128) (by omega) (b / 128) r r' h.2
      exact ⟨by omega, h3⟩

theorem varint_inj {a b : Nat} (h : varint a = varint b) : a = b := by
  have := varint_prefix_free a b [] [] (by simpa using h)
  exact this.1

/-- a length-delimited byte string is prefix-free decodable. -/
theorem lenDelim_prefix_free (b b' r r' : Bytes)
    (h : varint b.length ++ (b ++ r) = varint b'.length ++ (b' ++ r')) : b = b' ∧ r = r' := by
  have ⟨hl, h2⟩ := varint_prefix_free _ _ _ _ h
  exact List.append_inj h2 hl

/-! ### tags -/

theorem tag_small {f w : Nat} (h : f * 8 + w < 128) : tag f w = [UInt8.ofNat (f * 8 + w)] := by
  unfold tag; exact varint_lt h

/-- every byte that can start `r` is at least `k` (vacuous for the empty string). -/
def HeadGe (k : Nat) (r : Bytes) : Prop := ∀ x rest, r = x :: rest → k ≤ x.toNat

theorem headGe_nil (k : Nat) : HeadGe k [] := by
  intro x rest h; cases h

theorem headGe_cons {k : Nat} {x : UInt8} {r : Bytes} (h : k ≤ x.toNat) : HeadGe k (x :: r) := by
  intro y rest e; cases e; exact h

theorem headGe_mono {k k' : Nat} {r : Bytes} (hk : k' ≤ k) (h : HeadGe k r) : HeadGe k' r := by
  intro x rest e; exact Nat.le_trans hk (h x rest e)

theorem toNat_ofNat_small {n : Nat} (h : n < 256) : (UInt8.ofNat n).toNat = n := by
  simp [UInt8.toNat_ofNat']; omega

/-! ### single fields: what they look like -/

theorem fBytes_nil (f : Nat) : fBytes f [] = [] := by simp [fBytes]

theorem fBytes_cons {f : Nat} (hf : f * 8 + 2 < 128) (x : UInt8) (xs : Bytes) :
    fBytes f (x :: xs) = UInt8.ofNat (f * 8 + 2) :: (varint (x :: xs).length ++ (x :: xs)) := by
  simp [fBytes, tag_small hf]

theorem fVarint_zero (f : Nat) : fVarint f 0 = [] := by simp [fVarint]

theorem fVarint_pos {f n : Nat} (hf : f * 8 + 0 < 128) (hn : n ≠ 0) :
    fVarint f n = UInt8.ofNat (f * 8 + 0) :: varint n := by
  simp [fVarint, hn, tag_small hf]

theorem fMsg_some {f : Nat} (hf : f * 8 + 2 < 128) (e : Bytes) :
    fMsg f (some e) = UInt8.ofNat (f * 8 + 2) :: (varint e.length ++ e) := by
  simp [fMsg, tag_small hf]

/-! ### HeadGe of fields -/

theorem headGe_fBytes {k f : Nat} (hf : f * 8 + 2 < 128) (hk : k ≤ f * 8 + 2) (b r : Bytes)
    (h : HeadGe k r) : HeadGe k (fBytes f b ++ r) := by
  cases b with
  | nil => simpa [fBytes_nil] using h
  | cons x xs =>
    rw [fBytes_cons hf]; simp only [List.cons_append]
    exact headGe_cons (by rw [toNat_ofNat_small (by omega)]; exact hk)

theorem headGe_fVarint {k f : Nat} (hf : f * 8 + 0 < 128) (hk : k ≤ f * 8) (n : Nat) (r : Bytes)
    (h : HeadGe k r) : HeadGe k (fVarint f n ++ r) := by
  by_cases hn : n = 0
  · subst hn; simpa [fVarint_zero] using h
  · rw [fVarint_pos hf hn]; simp only [List.cons_append]
    exact headGe_cons (by rw [toNat_ofNat_small (by omega)]; omega)

theorem headGe_fInt64 {k f : Nat} (hf : f * 8 + 0 < 128) (hk : k ≤ f * 8) (i : Int) (r : Bytes)
    (h : HeadGe k r) : HeadGe k (fInt64 f i ++ r) := headGe_fVarint hf hk _ r h

theorem headGe_fMsg {k f : Nat} (hf : f * 8 + 2 < 128) (hk : k ≤ f * 8 + 2) (e : Option Bytes) (r : Bytes)
    (h : HeadGe k r) : HeadGe k (fMsg f e ++ r) := by
  cases e with
  | none => simpa [fMsg] using h
  | some e =>
    rw [fMsg_some hf]; simp only [List.cons_append]
    exact headGe_cons (by rw [toNat_ofNat_small (by omega)]; exact hk)

/-! ### peeling one field off the front -/

theorem not_headGe_cons {k n : Nat} {r : Bytes} (hn : n < 256) (hk : n < k) :
    ¬ HeadGe k (UInt8.ofNat n :: r) := by
  intro h
  have := h _ _ rfl
  rw [toNat_ofNat_small hn] at this
  omega

theorem fBytes_peel {f : Nat} (hf : f * 8 + 2 < 128) (b b' r r' : Bytes)
    (hr : HeadGe (f * 8 + 8) r) (hr' : HeadGe (f * 8 + 8) r')
    (h : fBytes f b ++ r = fBytes f b' ++ r') : b = b' ∧ r = r' := by
  cases b with
  | nil =>
    cases b' with
    | nil => simpa [fBytes_nil] using h
    | cons y ys =>
      rw [fBytes_nil, fBytes_cons hf] at h
      simp only [List.nil_append, List.cons_append] at h
      rw [h] at hr
      exact absurd hr (not_headGe_cons (by omega) (by omega))
  | cons x xs =>
    cases b' with
    | nil =>
      rw [fBytes_nil, fBytes_cons hf] at h
      simp only [List.nil_append, List.cons_append] at h
      rw [← h] at hr'
      exact absurd hr' (not_headGe_cons (by omega) (by omega))
    | cons y ys =>
      rw [fBytes_cons hf, fBytes_cons hf] at h
      simp only [List.cons_append, List.cons.injEq, true_and, List.append_assoc] at h
      exact lenDelim_prefix_free _ _ _ _ h

theorem fVarint_peel {f : Nat} (hf : f * 8 + 0 < 128) (n n' : Nat) (r r' : Bytes)
    (hr : HeadGe (f * 8 + 8) r) (hr' : HeadGe (f * 8 + 8) r')
    (h : fVarint f n ++ r = fVarint f n' ++ r') : n = n' ∧ r = r' := by
  by_cases hn : n = 0 <;> by_cases hn' : n' = 0
  · subst hn; subst hn'; simpa [fVarint_zero] using h
  · subst hn
    rw [fVarint_zero, fVarint_pos hf hn'] at h
    simp only [List.nil_append, List.cons_append] at h
    rw [h] at hr
    exact absurd hr (not_headGe_cons (by omega) (by omega))
  · subst hn'
    rw [fVarint_zero, fVarint_pos hf hn] at h
    simp only [List.nil_append, List.cons_append] at h
    rw [← h] at hr'
    exact absurd hr' (not_headGe_cons (by omega) (by omega))
  · rw [fVarint_pos hf hn, fVarint_pos hf hn'] at h
    simp only [List.cons_append, List.cons.injEq, true_and] at h
    exact varint_prefix_free _ _ _ _ h

theorem int64ToU_inj {i j : Int} (hi : I64 i) (hj : I64 j) (h : int64ToU i = int64ToU j) : i = j := by
  unfold int64ToU at h
  unfold I64 at hi hj
  split at h <;> split at h <;> omega

theorem fInt64_peel {f : Nat} (hf : f * 8 + 0 < 128) (i j : Int) (hi : I64 i) (hj : I64 j) (r r' : Bytes)
    (hr : HeadGe (f * 8 + 8) r) (hr' : HeadGe (f * 8 + 8) r')
    (h : fInt64 f i ++ r = fInt64 f j ++ r') : i = j ∧ r = r' := by
  have ⟨h1, h2⟩ := fVarint_peel hf _ _ r r' hr hr' h
  exact ⟨int64ToU_inj hi hj h1, h2⟩

theorem fMsg_peel {f : Nat} (hf : f * 8 + 2 < 128) (e e' : Option Bytes) (r r' : Bytes)
    (hr : HeadGe (f * 8 + 8) r) (hr' : HeadGe (f * 8 + 8) r')
    (h : fMsg f e ++ r = fMsg f e' ++ r') : e = e' ∧ r = r' := by
  cases e with
  | none =>
    cases e' with
    | none => simpa [fMsg] using h
    | some y =>
      rw [fMsg_some hf] at h
      simp only [fMsg, List.nil_append, List.cons_append] at h
      rw [h] at hr
      exact absurd hr (not_headGe_cons (by omega) (by omega))
  | some x =>
    cases e' with
    | none =>
      rw [fMsg_some hf] at h
      simp only [fMsg, List.nil_append, List.cons_append] at h
      rw [← h] at hr'
      exact absurd hr' (not_headGe_cons (by omega) (by omega))
    | some y =>
      rw [fMsg_some hf, fMsg_some hf] at h
      simp only [List.cons_append, List.cons.injEq, true_and, List.append_assoc] at h
      have ⟨h1, h2⟩ := lenDelim_prefix_free _ _ _ _ h
      exact ⟨by rw [h1], h2⟩

theorem I32.toI64 {i : Int} (h : I32 i) : I64 i := by
  unfold I32 at h; unfold I64; omega

/-! ### messages -/

theorem encodeSig_injective {a b : Signature} (ha : a.WF) (hb : b.WF)
    (h : encodeSig a = encodeSig b) : a = b := by
  unfold encodeSig at h
  have e3 : ∀ s : Signature, fBytes 3 s.signature = fBytes 3 s.signature ++ [] := by intro s; simp
  rw [e3 a, e3 b] at h
  have g3 : ∀ s : Signature, HeadGe 24 (fBytes 3 s.signature ++ []) :=
    fun s => headGe_fBytes (by decide) (by decide) _ _ (headGe_nil _)
  have g2 : ∀ s : Signature, HeadGe 16 (fBytes 2 s.pubkey ++ (fBytes 3 s.signature ++ [])) :=
    fun s => headGe_fBytes (by decide) (by decide) _ _ (headGe_mono (by decide) (g3 s))
  have ⟨h1, h⟩ := fInt64_peel (f := 1) (by decide) _ _ ha.ty.toI64 hb.ty.toI64 _ _ (g2 a) (g2 b) h
  have ⟨h2, h⟩ := fBytes_peel (f := 2) (by decide) _ _ _ _ (g3 a) (g3 b) h
  have ⟨h3, _⟩ := fBytes_peel (f := 3) (by decide) _ _ _ _ (headGe_nil _) (headGe_nil _) h
  cases a; cases b; simp_all

theorem optSig_injective {a b : Option Signature}
    (ha : ∀ s, a = some s → s.WF) (hb : ∀ s, b = some s → s.WF)
    (h : a.map encodeSig = b.map encodeSig) : a = b := by
  cases a with
  | none => cases b with
    | none => rfl
    | some y => simp at h
  | some x => cases b with
    | none => simp at h
    | some y =>
      simp at h
      rw [encodeSig_injective (ha x rfl) (hb y rfl) h]

/-- **encode is injective** on transactions whose integer fields are in range. -/
theorem encode_injective_aux {a b : Transaction} (ha : a.WF) (hb : b.WF)
    (h : encode a = encode b) : a = b := by
  unfold encode at h
  have e11 : ∀ t : Transaction, fInt64 11 t.chainID = fInt64 11 t.chainID ++ [] := by intro t; simp
  rw [e11 a, e11 b] at h
  have g11 : ∀ t : Transaction, HeadGe 88 (fInt64 11 t.chainID ++ []) :=
    fun t => headGe_fInt64 (by decide) (by decide) _ _ (headGe_nil _)
  have g10 : ∀ t : Transaction, HeadGe 80 (fBytes 10 t.next ++ (fInt64 11 t.chainID ++ [])) :=
    fun t => headGe_fBytes (by decide) (by decide) _ _ (headGe_mono (by decide) (g11 t))
  have g9 : ∀ t : Transaction, HeadGe 72 (fBytes 9 t.header ++ (fBytes 10 t.next ++ (fInt64 11 t.chainID ++ []))) :=
    fun t => headGe_fBytes (by decide) (by decide) _ _ (headGe_mono (by decide) (g10 t))
  have g8 : ∀ t : Transaction, HeadGe 64 (fInt64 8 t.groupCount ++ (fBytes 9 t.header ++ (fBytes 10 t.next ++ (fInt64 11 t.chainID ++ [])))) :=
    fun t => headGe_fInt64 (by decide) (by decide) _ _ (headGe_mono (by decide) (g9 t))
  have g7 : ∀ t : Transaction, HeadGe 56 (fBytes 7 t.to ++ (fInt64 8 t.groupCount ++ (fBytes 9 t.header ++ (fBytes 10 t.next ++ (fInt64 11 t.chainID ++ []))))) :=
    fun t => headGe_fBytes (by decide) (by decide) _ _ (headGe_mono (by decide) (g8 t))
  have g6 : ∀ t : Transaction, HeadGe 48 (fInt64 6 t.nonce ++ (fBytes 7 t.to ++ (fInt64 8 t.groupCount ++ (fBytes 9 t.header ++ (fBytes 10 t.next ++ (fInt64 11 t.chainID ++ [])))))) :=
    fun t => headGe_fInt64 (by decide) (by decide) _ _ (headGe_mono (by decide) (g7 t))
  have g5 : ∀ t : Transaction, HeadGe 40 (fInt64 5 t.expire ++ (fInt64 6 t.nonce ++ (fBytes 7 t.to ++ (fInt64 8 t.groupCount ++ (fBytes 9 t.header ++ (fBytes 10 t.next ++ (fInt64 11 t.chainID ++ []))))))) :=
    fun t => headGe_fInt64 (by decide) (by decide) _ _ (headGe_mono (by decide) (g6 t))
  have g4 : ∀ t : Transaction, HeadGe 32 (fInt64 4 t.fee ++ (fInt64 5 t.expire ++ (fInt64 6 t.nonce ++ (fBytes 7 t.to ++ (fInt64 8 t.groupCount ++ (fBytes 9 t.header ++ (fBytes 10 t.next ++ (fInt64 11 t.chainID ++ [])))))))) :=
    fun t => headGe_fInt64 (by decide) (by decide) _ _ (headGe_mono (by decide) (g5 t))
  have g3 : ∀ t : Transaction, HeadGe 24 (fMsg 3 (t.signature.map encodeSig) ++ (fInt64 4 t.fee ++ (fInt64 5 t.expire ++ (fInt64 6 t.nonce ++ (fBytes 7 t.to ++ (fInt64 8 t.groupCount ++ (fBytes 9 t.header ++ (fBytes 10 t.next ++ (fInt64 11 t.chainID ++ []))))))))) :=
    fun t => headGe_fMsg (by decide) (by decide) _ _ (headGe_mono (by decide) (g4 t))
  have g2 : ∀ t : Transaction, HeadGe 16 (fBytes 2 t.payload ++ (fMsg 3 (t.signature.map encodeSig) ++ (fInt64 4 t.fee ++ (fInt64 5 t.expire ++ (fInt64 6 t.nonce ++ (fBytes 7 t.to ++ (fInt64 8 t.groupCount ++ (fBytes 9 t.header ++ (fBytes 10 t.next ++ (fInt64 11 t.chainID ++ [])))))))))) :=
    fun t => headGe_fBytes (by decide) (by decide) _ _ (headGe_mono (by decide) (g3 t))
  have ⟨h1, h⟩ := fBytes_peel (f := 1) (by decide) _ _ _ _ (g2 a) (g2 b) h
  have ⟨h2, h⟩ := fBytes_peel (f := 2) (by decide) _ _ _ _ (g3 a) (g3 b) h
  have ⟨h3, h⟩ := fMsg_peel (f := 3) (by decide) _ _ _ _ (g4 a) (g4 b) h
  have ⟨h4, h⟩ := fInt64_peel (f := 4) (by decide) _ _ ha.fee hb.fee _ _ (g5 a) (g5 b) h
  have ⟨h5, h⟩ := fInt64_peel (f := 5) (by decide) _ _ ha.expire hb.expire _ _ (g6 a) (g6 b) h
  have ⟨h6, h⟩ := fInt64_peel (f := 6) (by decide) _ _ ha.nonce hb.nonce _ _ (g7 a) (g7 b) h
  have ⟨h7, h⟩ := fBytes_peel (f := 7) (by decide) _ _ _ _ (g8 a) (g8 b) h
  have ⟨h8, h⟩ := fInt64_peel (f := 8) (by decide) _ _ ha.groupCount.toI64 hb.groupCount.toI64 _ _ (g9 a) (g9 b) h
  have ⟨h9, h⟩ := fBytes_peel (f := 9) (by decide) _ _ _ _ (g10 a) (g10 b) h
  have ⟨h10, h⟩ := fBytes_peel (f := 10) (by decide) _ _ _ _ (g11 a) (g11 b) h
  have ⟨h11, _⟩ := fInt64_peel (f := 11) (by decide) _ _ ha.chainID.toI64 hb.chainID.toI64 _ _ (headGe_nil _) (headGe_nil _) h
  have h3' := optSig_injective ha.sig hb.sig h3
  cases a; cases b; simp_all

/-! ### stripping / cloning preserve well-formedness -/

theorem cloneTx_id (t : Transaction) : cloneTx t = t := by cases t; rfl

theorem cloneSig_id (s : Signature) : cloneSig s = s := by cases s; rfl

theorem clone_id (t : Transaction) : clone t = t := by
  cases t with
  | mk e p s f ex n to gc h nx c =>
    cases s <;> simp [clone, cloneTx, cloneSig]

theorem WF_stripSigHeader {t : Transaction} (h : t.WF) : (stripSigHeader t).WF :=
  ⟨h.fee, h.expire, h.nonce, h.groupCount, h.chainID, by intro s e; simp [stripSigHeader] at e⟩

theorem WF_stripSig {t : Transaction} (h : t.WF) : (stripSig t).WF :=
  ⟨h.fee, h.expire, h.nonce, h.groupCount, h.chainID, by intro s e; simp [stripSig] at e⟩

end C16
