import Chain33Model.Model.C16
import Chain33Model.Proofs.C16Enc
/-!
Helper lemmas for C17: the header/next/count chain checked by `Transactions.CheckWithFork`.
-/
namespace C16

/-- the header condition of position `i` (`b = true` for the head). -/
def HeaderCond (H : Bytes → Bytes) (hh : Bytes) (b : Bool) (t : Transaction) : Prop :=
  if b then H (encode (stripSigHeader t)) = t.header else hh = t.header

theorem chainCheck_single (H : Bytes → Bytes) (n : Nat) (hh : Bytes) (b : Bool) (t : Transaction) :
    chainCheck H n hh b [t] = .ok () ↔
      HeaderCond H hh b t ∧
      t.groupCount ≤ MaxTxGroupSize ∧ t.groupCount = Int.ofNat n ∧ t.next = [] := by
  cases b <;> simp [chainCheck, HeaderCond] <;> (repeat' split) <;> simp_all <;> omega

theorem chainCheck_cons (H : Bytes → Bytes) (n : Nat) (hh : Bytes) (b : Bool) (t u : Transaction)
    (rs : List Transaction) :
    chainCheck H n hh b (t :: u :: rs) = .ok () ↔
      HeaderCond H hh b t ∧
      t.groupCount ≤ MaxTxGroupSize ∧ t.groupCount = Int.ofNat n ∧
      t.next = H (encode (stripSigHeader u)) ∧
      chainCheck H n hh false (u :: rs) = .ok () := by
  cases b <;> simp [chainCheck, HeaderCond] <;> (repeat' split) <;> simp_all <;> omega

/-- every member of a passing chain carries the declared count. -/
theorem chain_counts (H : Bytes → Bytes) (n : Nat) (hh : Bytes) :
    ∀ (l : List Transaction) (b : Bool), chainCheck H n hh b l = .ok () →
      ∀ x ∈ l, x.groupCount = Int.ofNat n ∧ x.groupCount ≤ MaxTxGroupSize := by
  intro l
  induction l with
  | nil => intro b _ x hx; cases hx
  | cons t rest ih =>
    intro b h x hx
    cases rest with
    | nil =>
      rw [chainCheck_single] at h
      simp at hx; subst hx; exact ⟨h.2.2.1, h.2.1⟩
    | cons u rs =>
      rw [chainCheck_cons] at h
      cases hx with
      | head => exact ⟨h.2.2.1, h.2.1⟩
      | tail _ hx' => exact ih false h.2.2.2.2 x hx'

/-- every non-head member of a passing chain carries the head's header. -/
theorem chain_headers (H : Bytes → Bytes) (n : Nat) (hh : Bytes) :
    ∀ (l : List Transaction), chainCheck H n hh false l = .ok () → ∀ x ∈ l, x.header = hh := by
  intro l
  induction l with
  | nil => intro _ x hx; cases hx
  | cons t rest ih =>
    intro h x hx
    cases rest with
    | nil =>
      rw [chainCheck_single] at h
      simp at hx; subst hx; exact (h.1).symm
    | cons u rs =>
      rw [chainCheck_cons] at h
      cases hx with
      | head => exact (h.1).symm
      | tail _ hx' => exact ih h.2.2.2.2 x hx'

theorem stripSig_eq_of {a b : Transaction} (h : stripSigHeader a = stripSigHeader b)
    (hh : a.header = b.header) : stripSig a = stripSig b := by
  cases a; cases b
  simp [stripSigHeader, stripSig, cloneTx] at *
  simp_all

theorem hash_eq_binds (H : Bytes → Bytes) {a b : Transaction} (ha : a.WF) (hb : b.WF)
    (h : H (encode (stripSigHeader a)) = H (encode (stripSigHeader b))) :
    stripSigHeader a = stripSigHeader b ∨ Collision H := by
  by_cases he : encode (stripSigHeader a) = encode (stripSigHeader b)
  · exact Or.inl (encode_injective_aux (WF_stripSigHeader ha) (WF_stripSigHeader hb) he)
  · exact Or.inr ⟨_, _, he, h⟩

/-- binding along the `next` chain below a pair of members already known to agree. -/
theorem chain_tail_binding (H : Bytes → Bytes) (n n' : Nat) (hh : Bytes) :
    ∀ (rest rest' : List Transaction) (t t' : Transaction) (b b' : Bool),
      (∀ x ∈ rest, x.WF) → (∀ x ∈ rest', x.WF) →
      chainCheck H n hh b (t :: rest) = .ok () → chainCheck H n' hh b' (t' :: rest') = .ok () →
      t.next = t'.next → rest.length = rest'.length →
      rest.map stripSig = rest'.map stripSig ∨ Collision H := by
  intro rest
  induction rest with
  | nil =>
    intro rest' t t' b b' _ _ _ _ _ hl
    cases rest' with
    | nil => exact Or.inl rfl
    | cons _ _ => simp at hl
  | cons u rs ih =>
    intro rest' t t' b b' hw hw' hc hc' hn hl
    cases rest' with
    | nil => simp at hl
    | cons u' rs' =>
      rw [chainCheck_cons] at hc hc'
      have hu : u.WF := hw u (by simp)
      have hu' : u'.WF := hw' u' (by simp)
      have hH : H (encode (stripSigHeader u)) = H (encode (stripSigHeader u')) := by
        rw [← hc.2.2.2.1, ← hc'.2.2.2.1, hn]
      cases hash_eq_binds H hu hu' hH with
      | inr c => exact Or.inr c
      | inl hs =>
        have hhu : u.header = hh := chain_headers H n hh _ hc.2.2.2.2 u (by simp)
        have hhu' : u'.header = hh := chain_headers H n' hh _ hc'.2.2.2.2 u' (by simp)
        have hss : stripSig u = stripSig u' := stripSig_eq_of hs (by rw [hhu, hhu'])
        have hnx : u.next = u'.next := by
          have := congrArg Transaction.next hs
          simpa [stripSigHeader, cloneTx] using this
        cases ih rs' u u' false false (fun x hx => hw x (by simp [hx])) (fun x hx => hw' x (by simp [hx]))
            hc.2.2.2.2 hc'.2.2.2.2 hnx (by simpa using hl) with
        | inr c => exact Or.inr c
        | inl hr => exact Or.inl (by simp [hss, hr])

/-- a group whose chain check passes (head header = hash of the head, …). -/
def GroupChained (H : Bytes → Bytes) : List Transaction → Prop
  | [] => False
  | head :: tail => chainCheck H (head :: tail).length head.header true (head :: tail) = .ok ()

theorem group_binding_aux (H : Bytes → Bytes) (t t' : Transaction) (rest rest' : List Transaction)
    (hw : ∀ x ∈ t :: rest, x.WF) (hw' : ∀ x ∈ t' :: rest', x.WF)
    (hc : GroupChained H (t :: rest)) (hc' : GroupChained H (t' :: rest'))
    (hh : t.header = t'.header) :
    (t :: rest).map stripSig = (t' :: rest').map stripSig ∨ Collision H := by
  simp only [GroupChained] at hc hc'
  have ht : t.WF := hw t (by simp)
  have ht' : t'.WF := hw' t' (by simp)
  -- heads: header = hash of the head
  have hd : H (encode (stripSigHeader t)) = t.header := by
    cases rest with
    | nil => rw [chainCheck_single] at hc; exact hc.1
    | cons _ _ => rw [chainCheck_cons] at hc; exact hc.1
  have hd' : H (encode (stripSigHeader t')) = t'.header := by
    cases rest' with
    | nil => rw [chainCheck_single] at hc'; exact hc'.1
    | cons _ _ => rw [chainCheck_cons] at hc'; exact hc'.1
  cases hash_eq_binds H ht ht' (by rw [hd, hd', hh]) with
  | inr c => exact Or.inr c
  | inl hs =>
    have hss : stripSig t = stripSig t' := stripSig_eq_of hs hh
    have hgc : t.groupCount = t'.groupCount := by
      have := congrArg Transaction.groupCount hs
      simpa [stripSigHeader, cloneTx] using this
    have hnx : t.next = t'.next := by
      have := congrArg Transaction.next hs
      simpa [stripSigHeader, cloneTx] using this
    have c1 := (chain_counts H _ _ _ true hc t (by simp)).1
    have c2 := (chain_counts H _ _ _ true hc' t' (by simp)).1
    have hl : rest.length = rest'.length := by
      rw [c1, c2] at hgc
      simp at hgc
      omega
    rw [← hh] at hc'
    cases chain_tail_binding H _ _ t.header rest rest' t t' true true
        (fun x hx => hw x (by simp [hx])) (fun x hx => hw' x (by simp [hx])) hc hc' hnx hl with
    | inr c => exact Or.inr c
    | inl hr => exact Or.inl (by simp [hss, hr])

theorem chainCheck_step (H : Bytes → Bytes) (n : Nat) (hh : Bytes) (b : Bool) (t u : Transaction)
    (rs : List Transaction) :
    chainCheck H n hh b (t :: u :: rs) =
      if (if b then H (encode (stripSigHeader t)) ≠ t.header else hh ≠ t.header) then .error .groupHeader
      else if t.groupCount > MaxTxGroupSize then .error .groupCountBig
      else if t.groupCount ≠ Int.ofNat n then .error .groupCount
      else if t.next ≠ H (encode (stripSigHeader u)) then .error .groupNext
      else chainCheck H n hh false (u :: rs) := by
  rw [chainCheck]

/-- the chain check never looks at signatures. -/
theorem chainCheck_ignores_sig (H : Bytes → Bytes) (n : Nat) (hh : Bytes) (f : Transaction → Option Signature) :
    ∀ (l : List Transaction) (b : Bool),
      chainCheck H n hh b (l.map (fun t => { t with signature := f t })) = chainCheck H n hh b l := by
  intro l
  induction l with
  | nil => intro b; rfl
  | cons t rest ih =>
    intro b
    cases rest with
    | nil => simp [chainCheck, stripSigHeader, cloneTx]
    | cons u rs =>
      have := ih false
      simp only [List.map] at this ⊢
      rw [chainCheck_step, chainCheck_step, this]
      rfl

end C16
