import Chain33Model.Model.C16
import Chain33Model.Proofs.C16Enc
import Chain33Model.Proofs.C17Chain
/-!
Helper lemmas for C17: `CreateTxGroup` produces a correctly chained group.
-/
namespace C16

/-- the input's last member has no stale `Next` (CreateTxGroup leaves that field untouched). -/
def lastNextNil : List Transaction → Prop
  | [] => True
  | [t] => t.next = []
  | _ :: u :: rs => lastNextNil (u :: rs)

/-- members carry count `n`, fee 0 and each `next` is the hash of the following member. -/
def linkOK (H : Bytes → Bytes) (n : Nat) : List Transaction → Prop
  | [] => True
  | [t] => t.groupCount = Int.ofNat n ∧ t.fee = 0 ∧ t.next = []
  | t :: u :: rs => t.groupCount = Int.ofNat n ∧ t.fee = 0 ∧ t.next = H (encode (stripSigHeader u)) ∧
      linkOK H n (u :: rs)

theorem linkOK_fee (H : Bytes → Bytes) (n : Nat) : ∀ l, linkOK H n l → ∀ x ∈ l, x.fee = 0 := by
  intro l
  induction l with
  | nil => intro _ x hx; cases hx
  | cons t rest ih =>
    intro h x hx
    cases rest with
    | nil => simp only [linkOK] at h; simp at hx; subst hx; exact h.2.1
    | cons u rs =>
      simp only [linkOK] at h
      cases hx with
      | head => exact h.2.1
      | tail _ hx' => exact ih h.2.2.2 x hx'

theorem createTail_spec (H : Bytes → Bytes) (n : Nat) (hd : Bytes) (rate : Int) :
    ∀ (l l' : List Transaction) (tot minf : Int),
      createTail H n hd rate l = .ok (l', tot, minf) → lastNextNil l →
      linkOK H n l' ∧ l'.length = l.length := by
  intro l
  induction l with
  | nil =>
    intro l' tot minf h _
    simp [createTail] at h
    rcases h with ⟨rfl, -, -⟩
    exact ⟨trivial, rfl⟩
  | cons t rest ih =>
    intro l' tot minf h hl
    simp only [createTail] at h
    split at h
    · cases h
    · rename_i rest' tot' minf' hrec
      split at h
      · cases h
      · rename_i rf hrf
        have hl' : lastNextNil rest := by
          cases rest with
          | nil => trivial
          | cons u rs => exact hl
        have ⟨hlk, hlen⟩ := ih rest' tot' minf' hrec hl'
        simp only [Except.ok.injEq, Prod.mk.injEq] at h
        rw [← h.1]
        refine ⟨?_, by simp [hlen]⟩
        cases rest' with
        | nil =>
          have : rest = [] := by
            cases rest with
            | nil => rfl
            | cons _ _ => simp at hlen
          subst this
          exact ⟨rfl, rfl, hl⟩
        | cons u rs => exact ⟨rfl, rfl, rfl, hlk⟩

theorem strip_setHeader (h : Bytes) (t : Transaction) :
    stripSigHeader (setHeader h t) = stripSigHeader t := rfl

theorem setHeader_header (h : Bytes) (t : Transaction) : (setHeader h t).header = h := rfl
theorem setHeader_groupCount (h : Bytes) (t : Transaction) : (setHeader h t).groupCount = t.groupCount := rfl
theorem setHeader_next (h : Bytes) (t : Transaction) : (setHeader h t).next = t.next := rfl
theorem setHeader_fee (h : Bytes) (t : Transaction) : (setHeader h t).fee = t.fee := rfl

/-- a linked list of members, all given the header `hh`, passes the non-head chain check. -/
theorem linkOK_chainCheck (H : Bytes → Bytes) (n : Nat) (hh : Bytes) (hn : Int.ofNat n ≤ MaxTxGroupSize) :
    ∀ (l : List Transaction), l ≠ [] → linkOK H n l →
      chainCheck H n hh false (l.map (setHeader hh)) = .ok () := by
  intro l
  induction l with
  | nil => intro h; exact absurd rfl h
  | cons t rest ih =>
    intro _ hl
    cases rest with
    | nil =>
      simp only [List.map]
      rw [chainCheck_single]
      simp only [linkOK] at hl
      refine ⟨?_, ?_, ?_, ?_⟩
      · simp only [HeaderCond, Bool.false_eq_true, if_false]; rfl
      · rw [setHeader_groupCount, hl.1]; exact hn
      · rw [setHeader_groupCount]; exact hl.1
      · rw [setHeader_next]; exact hl.2.2
    | cons u rs =>
      simp only [List.map]
      rw [chainCheck_cons]
      simp only [linkOK] at hl
      refine ⟨?_, ?_, ?_, ?_, ?_⟩
      · simp only [HeaderCond, Bool.false_eq_true, if_false]; rfl
      · rw [setHeader_groupCount, hl.1]; exact hn
      · rw [setHeader_groupCount]; exact hl.1
      · rw [setHeader_next, strip_setHeader]; exact hl.2.2.1
      · exact ih (by simp) hl.2.2.2

/-- **`CreateTxGroup` output is correctly chained**: header = hash of the head, common header,
counts, next links, zero fees of the non-head members. -/
theorem createGroup_chained (H : Bytes → Bytes) (txs g : List Transaction) (rate : Int)
    (hc : createGroupWith H txs rate = .ok g) (hl : lastNextNil txs)
    (hn : Int.ofNat txs.length ≤ MaxTxGroupSize) :
    GroupChained H g ∧ g.length = txs.length ∧ (∀ x ∈ g.tail, x.fee = 0) := by
  cases txs with
  | nil => simp [createGroupWith] at hc
  | cons t0 tail =>
    cases tail with
    | nil => simp [createGroupWith] at hc
    | cons t1 rest =>
      simp only [createGroupWith] at hc
      split at hc
      · cases hc
      · rename_i tail' tot minf hrec
        split at hc
        · cases hc
        · rename_i rf hrf
          have ⟨hlk, hlen⟩ := createTail_spec H _ _ rate _ _ _ _ hrec hl
          cases tail' with
          | nil => simp at hlen
          | cons u rs =>
            simp only [Except.ok.injEq] at hc
            rw [← hc]
            generalize (if tot + t0.fee < minf + rf then minf + rf else tot + t0.fee) = fee
            have hg0 : ∀ nxt, (mkHead t0 (t0 :: t1 :: rest).length (H (encode (stripSigHeader t0))) fee nxt).groupCount
                = Int.ofNat (t0 :: t1 :: rest).length := fun _ => rfl
            have hn0 : ∀ nxt, (mkHead t0 (t0 :: t1 :: rest).length (H (encode (stripSigHeader t0))) fee nxt).next
                = nxt := fun _ => rfl
            generalize hh0 : mkHead t0 (t0 :: t1 :: rest).length (H (encode (stripSigHeader t0))) fee
                (nextOf H t0.next (u :: rs)) = h0
            have hg0 := hh0 ▸ hg0 (nextOf H t0.next (u :: rs))
            have hn0 := hh0 ▸ hn0 (nextOf H t0.next (u :: rs))
            have hlen' : (u :: rs).length = (t1 :: rest).length := hlen
            refine ⟨?_, ?_, ?_⟩
            · show GroupChained H (setHeader _ h0 :: (u :: rs).map (setHeader _))
              simp only [GroupChained]
              have hL : (setHeader (H (encode (stripSigHeader h0))) h0 ::
                  (u :: rs).map (setHeader (H (encode (stripSigHeader h0))))).length
                    = (t0 :: t1 :: rest).length := by
                simp only [List.length_cons, List.length_map] at hlen' ⊢; omega
              rw [hL, setHeader_header]
              simp only [List.map]
              rw [chainCheck_cons]
              refine ⟨?_, ?_, ?_, ?_, ?_⟩
              · simp only [HeaderCond, if_true]; rfl
              · rw [setHeader_groupCount, hg0]; exact hn
              · rw [setHeader_groupCount, hg0]
              · rw [setHeader_next, strip_setHeader, hn0]; rfl
              · exact linkOK_chainCheck H _ _ hn (u :: rs) (by simp) hlk
            · simp only [List.length_cons, List.length_map] at hlen' ⊢; omega
            · intro x hx
              simp only [List.map, List.tail_cons, List.mem_cons, List.mem_map] at hx
              cases hx with
              | inl h => rw [h, setHeader_fee]; exact linkOK_fee H _ _ hlk u (by simp)
              | inr h =>
                obtain ⟨y, hy, rfl⟩ := h
                rw [setHeader_fee]; exact linkOK_fee H _ _ hlk y (by simp [hy])

end C16
