import Chain33Model.Model.C16
import Chain33Model.Proofs.C16Enc
import Chain33Model.Proofs.C17Chain
import Chain33Model.Proofs.C17Create
/-!
Helper lemmas for C17: the fee estimate made by `CreateTxGroup` (unsigned size + 300 bytes, head fee
`1<<62`) dominates the required fee of the signed members.
-/
namespace C16
open Proto

/-! ### lengths of encoded fields -/

theorem varint_length_le : ∀ (k n : Nat), n < 128 ^ (k + 1) → (varint n).length ≤ k + 1 := by
  intro k
  induction k with
  | zero => intro n h; rw [varint_lt (by simpa using h)]; simp
  | succ k ih =>
    intro n h
    by_cases hn : n < 128
    · rw [varint_lt hn]; simp
    · rw [varint_ge hn]
      have : n / 128 < 128 ^ (k + 1) := by
        rw [Nat.div_lt_iff_lt_mul (by decide)]
        rw [Nat.pow_succ] at h; exact h
      have := ih (n / 128) this
      simp only [List.length_cons]; omega

theorem fBytes_length_congr (f : Nat) (b b' : Bytes) (h : b.length = b'.length) :
    (fBytes f b).length = (fBytes f b').length := by
  unfold fBytes
  cases b with
  | nil => cases b' with
    | nil => rfl
    | cons _ _ => simp at h
  | cons x xs => cases b' with
    | nil => simp at h
    | cons y ys =>
      simp only [List.isEmpty_cons, Bool.false_eq_true, if_false, List.length_append]
      rw [h]

theorem fInt64_4_length_le (fee : Int) (h0 : 0 ≤ fee) (h1 : fee < 2 ^ 63) :
    (fInt64 4 fee).length ≤ 10 := by
  unfold fInt64 fVarint int64ToU
  simp only [h0, if_true]
  by_cases hz : fee.toNat = 0
  · simp [hz]
  · simp only [hz, if_false, List.length_append]
    have ht : (tag 4 0).length = 1 := by rw [tag_small (by decide)]; rfl
    have : fee.toNat < 128 ^ (8 + 1) := by
      have : (128 : Nat) ^ (8 + 1) = 2 ^ 63 := by decide
      rw [this]; omega
    have := varint_length_le 8 _ this
    omega

theorem fInt64_4_probe_length : (fInt64 4 (2 ^ 62)).length = 10 := by decide +kernel

theorem fMsg_3_length_le (e : Option Bytes) (h : ∀ x, e = some x → x.length + 3 ≤ 300) :
    (fMsg 3 e).length ≤ 300 := by
  cases e with
  | none => simp [fMsg]
  | some x =>
    have hx := h x rfl
    unfold fMsg
    simp only [List.length_append]
    have ht : (tag 3 2).length = 1 := by rw [tag_small (by decide)]; rfl
    have : x.length < 128 ^ (1 + 1) := by
      have : (128 : Nat) ^ (1 + 1) = 16384 := by decide
      omega
    have := varint_length_le 1 _ this
    omega

/-- `types.Size` as the sum of the field lengths. -/
theorem size_eq (t : Transaction) :
    size t = (fBytes 1 t.execer).length + (fBytes 2 t.payload).length +
      (fMsg 3 (t.signature.map encodeSig)).length + (fInt64 4 t.fee).length + (fInt64 5 t.expire).length +
      (fInt64 6 t.nonce).length + (fBytes 7 t.to).length + (fInt64 8 t.groupCount).length +
      (fBytes 9 t.header).length + (fBytes 10 t.next).length + (fInt64 11 t.chainID).length := by
  simp only [size, encode, List.length_append]; omega

/-- size estimate used by `GetRealFee`: +300 bytes for a missing signature. -/
def feeSize (t : Transaction) : Nat := size t + (if t.signature.isNone then 300 else 0)

theorem realFee_def (t : Transaction) (rate : Int) :
    realFee t rate = if feeSize t > MaxTxSize then .error .msgSizeTooBig
      else .ok (Int.ofNat (feeSize t / 1000 + 1) * rate) := rfl

/-- signing (or not) a member and giving it a header of the same length never increases the fee size
beyond the unsigned estimate. -/
theorem feeSize_signed_le (t : Transaction) (hu : t.signature = none) (hdr : Bytes)
    (hl : hdr.length = t.header.length) (s : Option Signature)
    (hs : ∀ x, s = some x → (encodeSig x).length + 3 ≤ 300) :
    feeSize { setHeader hdr t with signature := s } ≤ feeSize t := by
  unfold feeSize
  rw [size_eq, size_eq t]
  simp only [setHeader, hu, Option.map_none, Option.isNone_none, if_true]
  have h9 := fBytes_length_congr 9 hdr t.header hl
  have h3 : (fMsg 3 (none : Option Bytes)).length = 0 := by simp [fMsg]
  have hm := fMsg_3_length_le (s.map encodeSig) (by
    intro x hx
    cases s with
    | none => simp at hx
    | some y => simp at hx; rw [← hx]; exact hs y rfl)
  cases s with
  | none => simp only [Option.map_none, Option.isNone_none, if_true] at hm ⊢; omega
  | some y => simp only [Option.map_some, Option.isNone_some] at hm ⊢; simp at hm ⊢; omega

theorem realFee_mono (a b : Transaction) (rate : Int) (hr : 0 ≤ rate) (h : feeSize a ≤ feeSize b)
    (fb : Int) (hb : realFee b rate = .ok fb) :
    ∃ fa, realFee a rate = .ok fa ∧ fa ≤ fb := by
  rw [realFee_def] at hb ⊢
  by_cases hbig : feeSize b > MaxTxSize
  · simp [hbig] at hb
  · simp only [hbig, if_false, Except.ok.injEq] at hb
    have : ¬ feeSize a > MaxTxSize := by omega
    refine ⟨Int.ofNat (feeSize a / 1000 + 1) * rate, by simp only [this, if_false], ?_⟩
    rw [← hb]
    apply Int.mul_le_mul_of_nonneg_right _ hr
    have := Nat.div_le_div_right (c := 1000) h
    simp only [Int.ofNat_eq_natCast]
    omega

end C16

namespace C16
open Proto

/-- attach signatures chosen per member. -/
def withSig (sigs : Transaction → Option Signature) (t : Transaction) : Transaction :=
  { t with signature := sigs t }

theorem withSig_fee (sigs) (t : Transaction) : (withSig sigs t).fee = t.fee := rfl
theorem withSig_chainID (sigs) (t : Transaction) : (withSig sigs t).chainID = t.chainID := rfl
theorem withSig_execer (sigs) (t : Transaction) : (withSig sigs t).execer = t.execer := rfl

theorem firstErr_withSig (c : CheckCfg) (sigs) :
    ∀ l : List Transaction, firstErr (memberCheck c) (l.map (withSig sigs)) = firstErr (memberCheck c) l := by
  intro l
  induction l with
  | nil => rfl
  | cons t rest ih =>
    simp only [List.map, firstErr]
    rw [ih]
    rfl

theorem paraCheck_withSig (pf : Bool) (sigs) (l : List Transaction) :
    paraCheck pf (l.map (withSig sigs)) = paraCheck pf l := by
  unfold paraCheck
  simp only [List.filterMap_map, List.any_map]
  rfl

/-- the head's fee size: fee `1<<62` in the estimate dominates any fee in `[0, 2^63)`. -/
theorem feeSize_head_le (t : Transaction) (hu : t.signature = none) (hp : t.fee = 2 ^ 62) (hdr : Bytes)
    (hl : hdr.length = t.header.length) (s : Option Signature)
    (hs : ∀ x, s = some x → (encodeSig x).length + 3 ≤ 300) (fee : Int) (h0 : 0 ≤ fee) (h1 : fee < 2 ^ 63) :
    feeSize { setHeader hdr { t with fee := fee } with signature := s } ≤ feeSize t := by
  unfold feeSize
  rw [size_eq, size_eq t]
  simp only [setHeader, hu, Option.map_none, Option.isNone_none, if_true]
  have h9 := fBytes_length_congr 9 hdr t.header hl
  have h3 : (fMsg 3 (none : Option Bytes)).length = 0 := by simp [fMsg]
  have h4 := fInt64_4_length_le fee h0 h1
  have h4' : (fInt64 4 t.fee).length = 10 := by rw [hp]; exact fInt64_4_probe_length
  have hm := fMsg_3_length_le (s.map encodeSig) (by
    intro x hx
    cases s with
    | none => simp at hx
    | some y => simp at hx; rw [← hx]; exact hs y rfl)
  cases s with
  | none => simp only [Option.map_none, Option.isNone_none, if_true] at hm ⊢; omega
  | some y => simp only [Option.map_some, Option.isNone_some] at hm ⊢; simp at hm ⊢; omega

/-- the estimates accumulated by the backwards pass dominate the required fees of the final,
signed non-head members; the accumulated original fees are non-negative. -/
theorem createTail_fee (H : Bytes → Bytes) (n : Nat) (hd : Bytes) (rate : Int) (hr : 0 ≤ rate)
    (hdr : Bytes) (hhl : hdr.length = hd.length) (sigs : Transaction → Option Signature) :
    ∀ (l l' : List Transaction) (tot minf : Int),
      createTail H n hd rate l = .ok (l', tot, minf) →
      (∀ x ∈ l, x.signature = none) → (∀ x ∈ l, 0 ≤ x.fee) →
      (∀ x ∈ l'.map (setHeader hdr), ∀ s, sigs x = some s → (encodeSig s).length + 3 ≤ 300) →
      0 ≤ tot ∧ ∃ sum, sumFees rate ((l'.map (setHeader hdr)).map (withSig sigs)) = .ok sum ∧ sum ≤ minf := by
  intro l
  induction l with
  | nil =>
    intro l' tot minf h _ _ _
    simp [createTail] at h
    rcases h with ⟨rfl, rfl, rfl⟩
    exact ⟨by omega, 0, rfl, by omega⟩
  | cons t rest ih =>
    intro l' tot minf h hu hf hs
    simp only [createTail] at h
    split at h
    · cases h
    · rename_i rest' tot' minf' hrec
      split at h
      · cases h
      · rename_i rf hrf
        simp only [Except.ok.injEq, Prod.mk.injEq] at h
        rcases h with ⟨rfl, rfl, rfl⟩
        have ⟨htot, sum, hsum, hle⟩ := ih rest' tot' minf' hrec
          (fun x hx => hu x (by simp [hx])) (fun x hx => hf x (by simp [hx]))
          (fun x hx => hs x (by simp only [List.map, List.mem_cons]; exact Or.inr hx))
        refine ⟨by have := hf t (by simp); omega, ?_⟩
        have hsig0 : ∀ nxt, (mkMember t n hd nxt).signature = none := fun _ => hu t (by simp)
        have hhd0 : ∀ nxt, (mkMember t n hd nxt).header = hd := fun _ => rfl
        generalize ht' : mkMember t n hd (nextOf H t.next rest') = t' at hrf hs ⊢
        have hsig0 := ht' ▸ hsig0 (nextOf H t.next rest')
        have hhd0 := ht' ▸ hhd0 (nextOf H t.next rest')
        have hsig : t'.signature = none := hsig0
        have hhd : t'.header = hd := hhd0
        have hle' := feeSize_signed_le t' hsig hdr (by rw [hhd]; exact hhl) (sigs (setHeader hdr t'))
          (hs (setHeader hdr t') (by simp))
        have ⟨fa, hfa, hfale⟩ := realFee_mono _ t' rate hr hle' rf hrf
        refine ⟨fa + sum, ?_, by omega⟩
        simp only [List.map, sumFees]
        have e : withSig sigs (setHeader hdr t') =
            { setHeader hdr t' with signature := sigs (setHeader hdr t') } := rfl
        rw [e, hfa]
        simp only [hsum]

end C16

namespace C16
open Proto

theorem sumFees_cons (m : Int) (t : Transaction) (ts : List Transaction) :
    sumFees m (t :: ts) = match realFee t m with
      | .error e => .error e
      | .ok f => match sumFees m ts with
        | .error e => .error e
        | .ok s => .ok (f + s) := rfl

theorem any_fee_withSig (sigs) (l : List Transaction) (h : ∀ x ∈ l, x.fee = 0) :
    (l.map (withSig sigs)).any (fun t => decide (t.fee ≠ 0)) = false := by
  rw [List.any_eq_false]
  intro x hx
  simp only [List.mem_map] at hx
  obtain ⟨y, hy, rfl⟩ := hx
  rw [withSig_fee, h y hy]; simp

/-- **a created group, signed, passes `Check`** at the fee rate used for creation. -/
theorem createGroup_checks (H : Bytes → Bytes) (hlenH : ∀ x y, (H x).length = (H y).length)
    (c : CheckCfg) (rate maxFee : Int) (txs g : List Transaction) (sigs : Transaction → Option Signature)
    (hc : createGroupWith H txs rate = .ok g) (hl : lastNextNil txs)
    (hn : Int.ofNat txs.length ≤ MaxTxGroupSize) (hr : 0 ≤ rate)
    (hu : ∀ x ∈ txs, x.signature = none) (hf : ∀ x ∈ txs, 0 ≤ x.fee)
    (hfee : ∀ x ∈ g, x.fee < 2 ^ 63)
    (hs : ∀ x ∈ g, ∀ s, sigs x = some s → (encodeSig s).length + 3 ≤ 300)
    (hm : firstErr (memberCheck c) g = .ok ()) (hp : paraCheck c.paraFork g = .ok ())
    (hmax : ∀ x ∈ g, ¬ (x.fee > maxFee ∧ maxFee > 0 ∧ c.checkFork)) :
    groupCheckWith H c rate maxFee (g.map (withSig sigs)) = .ok () := by
  have ⟨hchain, hglen, hzero⟩ := createGroup_chained H txs g rate hc hl hn
  cases txs with
  | nil => simp [createGroupWith] at hc
  | cons t0 tail =>
    cases tail with
    | nil => simp [createGroupWith] at hc
    | cons t1 rest =>
      simp only [createGroupWith] at hc
      split at hc
      · cases hc
      · rename_i tail' tot minf hrec
        split at hc
        · cases hc
        · rename_i rf hrf
          simp only [Except.ok.injEq] at hc
          generalize hfeeq : (if tot + t0.fee < minf + rf then minf + rf else tot + t0.fee) = fee at hc
          generalize hnx : nextOf H t0.next tail' = nxt at hc hrf
          generalize hhdr : H (encode (stripSigHeader (mkHead t0 (t0 :: t1 :: rest).length
              (H (encode (stripSigHeader t0))) fee nxt))) = hdr at hc
          have hhl : hdr.length = (H (encode (stripSigHeader t0))).length := by rw [← hhdr]; exact hlenH _ _
          subst hc
          -- the tail
          have hs' : ∀ x ∈ tail'.map (setHeader hdr), ∀ s, sigs x = some s → (encodeSig s).length + 3 ≤ 300 :=
            fun x hx => hs x (by simp only [List.map, List.mem_cons]; exact Or.inr hx)
          have ⟨htot, sum, hsum, hle⟩ := createTail_fee H _ _ rate hr hdr hhl sigs _ _ _ _ hrec
            (fun x hx => hu x (by simp only [List.mem_cons] at hx ⊢; exact Or.inr hx))
            (fun x hx => hf x (by simp only [List.mem_cons] at hx ⊢; exact Or.inr hx)) hs'
          -- the head
          have hfee0 : 0 ≤ fee := by
            have := hf t0 (by simp)
            rw [← hfeeq]; split <;> omega
          have hfee1 : fee < 2 ^ 63 :=
            hfee (setHeader hdr (mkHead t0 (t0 :: t1 :: rest).length (H (encode (stripSigHeader t0))) fee nxt))
              (by simp)
          have hprobe := feeSize_head_le
            (mkHead t0 (t0 :: t1 :: rest).length (H (encode (stripSigHeader t0))) (2 ^ 62) nxt)
            (hu t0 (by simp)) rfl hdr hhl
            (sigs (setHeader hdr (mkHead t0 (t0 :: t1 :: rest).length (H (encode (stripSigHeader t0))) fee nxt)))
            (hs _ (by simp)) fee hfee0 hfee1
          have ⟨fa, hfa, hfale⟩ := realFee_mono _ _ rate hr hprobe rf hrf
          have hge : minf + rf ≤ fee := by rw [← hfeeq]; split <;> omega
          -- assemble
          have hfa' : realFee (withSig sigs (setHeader hdr
              (mkHead t0 (t0 :: t1 :: rest).length (H (encode (stripSigHeader t0))) fee nxt))) rate = .ok fa := hfa
          generalize hh0 : mkHead t0 (t0 :: t1 :: rest).length (H (encode (stripSigHeader t0))) fee nxt = h0
            at hchain hzero hm hp hmax hfa' ⊢
          have hfeeh0 : h0.fee = fee := by rw [← hh0]; rfl
          cases tail' with
          | nil => simp at hglen
          | cons u rs =>
            simp only [List.map] at hchain hzero hm hp hsum ⊢
            have hz : ∀ x ∈ setHeader hdr u :: rs.map (setHeader hdr), x.fee = 0 := by
              intro x hx; exact hzero x (by simpa using hx)
            have hany := any_fee_withSig sigs _ hz
            simp only [List.map] at hany
            have hm' := firstErr_withSig c sigs (setHeader hdr h0 :: setHeader hdr u :: rs.map (setHeader hdr))
            have hp' := paraCheck_withSig c.paraFork sigs (setHeader hdr h0 :: setHeader hdr u :: rs.map (setHeader hdr))
            simp only [List.map] at hm' hp'
            have hch := chainCheck_ignores_sig H (rs.length + 1 + 1) hdr sigs
              (setHeader hdr h0 :: setHeader hdr u :: rs.map (setHeader hdr)) true
            simp only [List.map] at hch
            simp only [GroupChained, List.length_cons, List.length_map, setHeader_header] at hchain
            have hmx := hmax (setHeader hdr h0) (by simp)
            rw [setHeader_fee, hfeeh0] at hmx
            have hsumAll : sumFees rate (withSig sigs (setHeader hdr h0) :: withSig sigs (setHeader hdr u) ::
                List.map (withSig sigs) (List.map (setHeader hdr) rs)) = .ok (fa + sum) := by
              rw [sumFees_cons, hfa', hsum]
            have h1 : ¬ fee < fa + sum := by omega
            simp only [groupCheckWith, hm', hm, hp', hp, feeCheck, hany, Bool.false_eq_true, if_false, hsumAll,
              withSig_fee, setHeader_fee, hfeeh0, List.length_cons, List.length_map, h1, hmx]
            exact hch ▸ hchain

end C16
