import Chain33Model.Model.C16
import Chain33Model.Proofs.C16Enc
import Chain33Model.Proofs.C17Chain
import Chain33Model.Proofs.C17Create
import Chain33Model.Proofs.C17Fee
/-!
Helper lemmas for C17: `Transactions.CheckWithFork` looks at the members' signatures only through
their encoded size (the fee rule) — who signed is invisible to it.
-/
namespace C16
open Proto

/-- two signature assignments that are present/absent together and have equal encoded lengths. -/
def SameSigSize (f g : Transaction → Option Signature) : Prop :=
  ∀ t, (f t).isNone = (g t).isNone ∧
    (fMsg 3 ((f t).map encodeSig)).length = (fMsg 3 ((g t).map encodeSig)).length

theorem encodeSig_length_congr (a b : Signature) (hty : a.ty = b.ty)
    (hp : a.pubkey.length = b.pubkey.length) (hs : a.signature.length = b.signature.length) :
    (encodeSig a).length = (encodeSig b).length := by
  unfold encodeSig
  simp only [List.length_append, hty, fBytes_length_congr 2 _ _ hp, fBytes_length_congr 3 _ _ hs]

theorem fMsg_length_congr (f : Nat) (a b : Bytes) (h : a.length = b.length) :
    (fMsg f (some a)).length = (fMsg f (some b)).length := by
  simp only [fMsg, List.length_append, h]

theorem feeSize_withSig_congr (f g : Transaction → Option Signature) (h : SameSigSize f g) (t : Transaction) :
    feeSize (withSig f t) = feeSize (withSig g t) := by
  unfold feeSize
  rw [size_eq, size_eq (withSig g t)]
  simp only [withSig, (h t).1, (h t).2]
  rfl

theorem realFee_withSig_congr (f g : Transaction → Option Signature) (h : SameSigSize f g) (t : Transaction)
    (m : Int) : realFee (withSig f t) m = realFee (withSig g t) m := by
  rw [realFee_def, realFee_def, feeSize_withSig_congr f g h t]

theorem sumFees_withSig_congr (f g : Transaction → Option Signature) (h : SameSigSize f g) (m : Int) :
    ∀ l : List Transaction, sumFees m (l.map (withSig f)) = sumFees m (l.map (withSig g)) := by
  intro l
  induction l with
  | nil => rfl
  | cons t rest ih =>
    simp only [List.map]
    rw [sumFees_cons, sumFees_cons, realFee_withSig_congr f g h t m, ih]

theorem any_fee_withSig_eq (f : Transaction → Option Signature) (l : List Transaction) :
    (l.map (withSig f)).any (fun t => decide (t.fee ≠ 0)) = l.any (fun t => decide (t.fee ≠ 0)) := by
  simp only [List.any_map]
  rfl

theorem chainCheck_withSig (H : Bytes → Bytes) (n : Nat) (hh : Bytes) (f : Transaction → Option Signature)
    (l : List Transaction) (b : Bool) :
    chainCheck H n hh b (l.map (withSig f)) = chainCheck H n hh b l :=
  chainCheck_ignores_sig H n hh f l b

/-- **`Check` cannot tell who signed**: re-signing members (any of them, the head included) with
signatures of the same encoded size leaves the verdict of `CheckWithFork` unchanged. -/
theorem groupCheckWith_sig_congr (H : Bytes → Bytes) (c : CheckCfg) (m M : Int)
    (f g : Transaction → Option Signature) (h : SameSigSize f g) (l : List Transaction) :
    groupCheckWith H c m M (l.map (withSig f)) = groupCheckWith H c m M (l.map (withSig g)) := by
  cases l with
  | nil => rfl
  | cons x rest =>
    cases rest with
    | nil => rfl
    | cons y zs =>
      have e1 : firstErr (memberCheck c) (withSig f x :: withSig f y :: zs.map (withSig f)) =
          firstErr (memberCheck c) (x :: y :: zs) := firstErr_withSig c f (x :: y :: zs)
      have e2 : firstErr (memberCheck c) (withSig g x :: withSig g y :: zs.map (withSig g)) =
          firstErr (memberCheck c) (x :: y :: zs) := firstErr_withSig c g (x :: y :: zs)
      have p1 : paraCheck c.paraFork (withSig f x :: withSig f y :: zs.map (withSig f)) =
          paraCheck c.paraFork (x :: y :: zs) := paraCheck_withSig c.paraFork f (x :: y :: zs)
      have p2 : paraCheck c.paraFork (withSig g x :: withSig g y :: zs.map (withSig g)) =
          paraCheck c.paraFork (x :: y :: zs) := paraCheck_withSig c.paraFork g (x :: y :: zs)
      have a1 : (withSig f y :: zs.map (withSig f)).any (fun t => decide (t.fee ≠ 0)) =
          (y :: zs).any (fun t => decide (t.fee ≠ 0)) := any_fee_withSig_eq f (y :: zs)
      have a2 : (withSig g y :: zs.map (withSig g)).any (fun t => decide (t.fee ≠ 0)) =
          (y :: zs).any (fun t => decide (t.fee ≠ 0)) := any_fee_withSig_eq g (y :: zs)
      have s : sumFees m (withSig f x :: withSig f y :: zs.map (withSig f)) =
          sumFees m (withSig g x :: withSig g y :: zs.map (withSig g)) :=
        sumFees_withSig_congr f g h m (x :: y :: zs)
      have c1 : chainCheck H (zs.length + 1 + 1) x.header true (withSig f x :: withSig f y :: zs.map (withSig f)) =
          chainCheck H (zs.length + 1 + 1) x.header true (x :: y :: zs) :=
        chainCheck_withSig H _ _ f (x :: y :: zs) true
      have c2 : chainCheck H (zs.length + 1 + 1) x.header true (withSig g x :: withSig g y :: zs.map (withSig g)) =
          chainCheck H (zs.length + 1 + 1) x.header true (x :: y :: zs) :=
        chainCheck_withSig H _ _ g (x :: y :: zs) true
      have hx : (withSig f x).header = x.header := rfl
      have hx' : (withSig g x).header = x.header := rfl
      simp only [List.map, groupCheckWith, feeCheck, e1, e2, p1, p2, a1, a2, s, List.length_cons,
        List.length_map, withSig_fee, hx, hx', c1, c2]
      rfl

end C16

namespace C16
open Proto

/-! ### what `CreateTxGroup` leaves untouched: chain id and executor of every member -/

theorem createTail_fields (H : Bytes → Bytes) (n : Nat) (hd : Bytes) (rate : Int) :
    ∀ (l l' : List Transaction) (tot minf : Int), createTail H n hd rate l = .ok (l', tot, minf) →
      l'.map (·.chainID) = l.map (·.chainID) ∧ l'.map (·.execer) = l.map (·.execer) := by
  intro l
  induction l with
  | nil =>
    intro l' tot minf h
    simp [createTail] at h
    rcases h with ⟨rfl, -, -⟩
    exact ⟨rfl, rfl⟩
  | cons t rest ih =>
    intro l' tot minf h
    simp only [createTail] at h
    split at h
    · cases h
    · rename_i rest' tot' minf' hrec
      split at h
      · cases h
      · simp only [Except.ok.injEq, Prod.mk.injEq] at h
        rcases h with ⟨rfl, -, -⟩
        have ⟨h1, h2⟩ := ih rest' tot' minf' hrec
        simp only [List.map, h1, h2]
        exact ⟨rfl, rfl⟩

theorem map_setHeader_chainID (hdr : Bytes) (l : List Transaction) :
    (l.map (setHeader hdr)).map (·.chainID) = l.map (·.chainID) := by
  induction l with
  | nil => rfl
  | cons t rest ih => simp only [List.map, ih]; rfl

theorem map_setHeader_execer (hdr : Bytes) (l : List Transaction) :
    (l.map (setHeader hdr)).map (·.execer) = l.map (·.execer) := by
  induction l with
  | nil => rfl
  | cons t rest ih => simp only [List.map, ih]; rfl

theorem createGroup_fields (H : Bytes → Bytes) (txs g : List Transaction) (rate : Int)
    (hc : createGroupWith H txs rate = .ok g) :
    g.map (·.chainID) = txs.map (·.chainID) ∧ g.map (·.execer) = txs.map (·.execer) := by
  cases txs with
  | nil => simp [createGroupWith] at hc
  | cons t0 tail =>
    cases tail with
    | nil => simp [createGroupWith] at hc
    | cons t1 rest =>
      simp only [createGroupWith] at hc
      split at hc
      · cases hc
      · rename_i tail' tot minf hrec
        split at hc
        · cases hc
        · simp only [Except.ok.injEq] at hc
          have ⟨h1, h2⟩ := createTail_fields H _ _ rate _ _ _ _ hrec
          rw [← hc, map_setHeader_chainID, map_setHeader_execer]
          simp only [List.map] at h1 h2 ⊢
          rw [h1, h2]
          exact ⟨rfl, rfl⟩

theorem firstErr_memberCheck_congr (c : CheckCfg) :
    ∀ (l l' : List Transaction), l.map (·.chainID) = l'.map (·.chainID) →
      firstErr (memberCheck c) l = firstErr (memberCheck c) l' := by
  intro l
  induction l with
  | nil => intro l' h; cases l' with
    | nil => rfl
    | cons _ _ => simp at h
  | cons t rest ih =>
    intro l' h
    cases l' with
    | nil => simp at h
    | cons t' rest' =>
      simp only [List.map, List.cons.injEq] at h
      simp only [firstErr, memberCheck, h.1]
      rw [ih rest' h.2]

theorem paraCheck_congr (pf : Bool) (l l' : List Transaction) (h : l.map (·.execer) = l'.map (·.execer)) :
    paraCheck pf l = paraCheck pf l' := by
  have e1 : ∀ l : List Transaction, l.filterMap (fun t => paraTitle t.execer) = (l.map (·.execer)).filterMap paraTitle := by
    intro l; rw [List.filterMap_map]; rfl
  have e2 : ∀ l : List Transaction, l.any (fun t => !isParaExec t.execer) = (l.map (·.execer)).any (fun e => !isParaExec e) := by
    intro l; rw [List.any_map]; rfl
  unfold paraCheck
  rw [e1 l, e1 l', e2 l, e2 l', h]

end C16
