import Chain33Model.Model.C18
/-!
Helper lemmas for C18: pairing rounds, fuel sufficiency, chunk roots = `k` pairing rounds.
-/
namespace C18

variable {β : Type} (nil : β) (H2 : β → β → β)

/-- `k` pairing rounds. -/
def iterPair : Nat → List β → List β
  | 0, xs => xs
  | k + 1, xs => iterPair k (pairUp H2 xs)

theorem length_pairUp : ∀ xs : List β, (pairUp H2 xs).length = (xs.length + 1) / 2
  | [] => by simp [pairUp]
  | [_] => by simp [pairUp]
  | a :: b :: rest => by
    simp only [pairUp, List.length_cons, length_pairUp rest]
    omega

theorem pairUp_append_even : ∀ (a b : List β), a.length % 2 = 0 →
    pairUp H2 (a ++ b) = pairUp H2 a ++ pairUp H2 b
  | [], b, _ => rfl
  | [_], _, h => by simp at h
  | x :: y :: rest, b, h => by
    have : rest.length % 2 = 0 := by simp only [List.length_cons] at h; omega
    simp only [List.cons_append, pairUp, pairUp_append_even rest b this]

theorem rootFuel_indep : ∀ (f g : Nat) (xs : List β), xs.length ≤ f → xs.length ≤ g →
    rootFuel nil H2 f xs = rootFuel nil H2 g xs
  | _, _, [], _, _ => by simp [rootFuel]
  | _, _, [_], _, _ => by simp [rootFuel]
  | 0, _, _ :: _ :: _, h, _ => by simp at h
  | _ + 1, 0, _ :: _ :: _, _, h => by simp at h
  | f + 1, g + 1, a :: b :: rest, hf, hg => by
    simp only [rootFuel]
    apply rootFuel_indep f g
    · rw [length_pairUp]; simp only [List.length_cons] at hf ⊢; omega
    · rw [length_pairUp]; simp only [List.length_cons] at hg ⊢; omega

theorem root_nil : getMerkleRoot nil H2 [] = nil := rfl
theorem root_single (a : β) : getMerkleRoot nil H2 [a] = a := rfl

theorem root_pairUp (xs : List β) (h : 2 ≤ xs.length) :
    getMerkleRoot nil H2 xs = getMerkleRoot nil H2 (pairUp H2 xs) := by
  match xs, h with
  | a :: b :: rest, _ =>
    unfold getMerkleRoot
    simp only [List.length_cons, rootFuel]
    apply rootFuel_indep
    · rw [length_pairUp]; simp only [List.length_cons]; omega
    · exact Nat.le_refl _

theorem iterPair_nil (k : Nat) : iterPair H2 k ([] : List β) = [] := by
  induction k with
  | zero => rfl
  | succ k ih => simpa [iterPair, pairUp] using ih

theorem length_iterPair_pos (k : Nat) : ∀ xs : List β, xs ≠ [] → iterPair H2 k xs ≠ [] := by
  induction k with
  | zero => intro xs h; exact h
  | succ k ih =>
    intro xs h
    apply ih
    intro hp
    have := length_pairUp H2 xs
    rw [hp] at this
    cases xs with
    | nil => exact h rfl
    | cons a t => simp at this; omega

/-- rounds distribute over a prefix whose length is a multiple of `2^k`. -/
theorem iterPair_append (k : Nat) : ∀ (a b : List β), a.length % 2 ^ k = 0 →
    iterPair H2 k (a ++ b) = iterPair H2 k a ++ iterPair H2 k b := by
  induction k with
  | zero => intro a b _; rfl
  | succ k ih =>
    intro a b h
    have h2 : a.length % 2 = 0 := by
      have : 2 ^ (k + 1) = 2 * 2 ^ k := by rw [Nat.pow_succ]; omega
      rw [this] at h
      have := Nat.mod_mul_right_mod a.length 2 (2 ^ k)
      omega
    simp only [iterPair]
    rw [pairUp_append_even H2 a b h2]
    apply ih
    rw [length_pairUp]
    have : 2 ^ (k + 1) = 2 * 2 ^ k := by rw [Nat.pow_succ]; omega
    rw [this] at h
    have hd : a.length = 2 * (a.length / 2) := by omega
    have : (a.length + 1) / 2 = a.length / 2 := by omega
    rw [this]
    have := Nat.mod_mul_right_div_self a.length 2 (2 ^ k)
    omega

/-- the root survives `k` rounds as long as the list has at least `2^k` elements. -/
theorem root_iterPair (k : Nat) : ∀ xs : List β, 2 ^ k ≤ xs.length →
    getMerkleRoot nil H2 xs = getMerkleRoot nil H2 (iterPair H2 k xs) := by
  induction k with
  | zero => intro xs _; rfl
  | succ k ih =>
    intro xs h
    have hp : 2 ^ (k + 1) = 2 * 2 ^ k := by rw [Nat.pow_succ]; omega
    have h1 : 1 ≤ 2 ^ k := Nat.one_le_two_pow
    simp only [iterPair]
    rw [root_pairUp nil H2 xs (by omega)]
    apply ih
    rw [length_pairUp]; omega

/-- number of pairing rounds that reduce `n` elements to one. -/
def lv (n : Nat) : Nat := if n ≤ 1 then 0 else 1 + lv ((n + 1) / 2)
decreasing_by omega

theorem lv_le_one (n : Nat) (h : n ≤ 1) : lv n = 0 := by rw [lv]; simp [h]
theorem lv_ge_two (n : Nat) (h : 2 ≤ n) : lv n = 1 + lv ((n + 1) / 2) := by
  rw [lv]; simp [show ¬ n ≤ 1 by omega]

theorem calcLevelLoop_eq : ∀ (f n level : Nat), n ≤ f → calcLevelLoop f n level = level + lv n
  | 0, n, level, h => by
    have : n = 0 := by omega
    subst this; simp [calcLevelLoop, lv_le_one]
  | f + 1, n, level, h => by
    simp only [calcLevelLoop]
    split
    · next h1 =>
      have he : (if n % 2 = 1 then n + 1 else n) / 2 = (n + 1) / 2 := by split <;> omega
      rw [he, calcLevelLoop_eq f _ _ (by omega), lv_ge_two n (by omega)]
      omega
    · next h1 => rw [lv_le_one n (by omega)]; rfl

theorem calcLevel_eq (n : Nat) (h : n ≠ 1) : calcLevel n = lv n := by
  unfold calcLevel
  simp only [h, if_false]
  rw [calcLevelLoop_eq n n 0 (Nat.le_refl _)]; omega

theorem iterSelf_succ' (k : Nat) (a : β) : iterSelf H2 (k + 1) a = iterSelf H2 k (H2 a a) := rfl

/-- a non-empty chunk of at most `2^k` elements collapses, after `k` rounds, to its root padded
upwards with `H r r`. -/
theorem iterPair_chunk (k : Nat) : ∀ c : List β, c ≠ [] → c.length ≤ 2 ^ k →
    iterPair H2 k c = [iterSelf H2 (k - lv c.length) (getMerkleRoot nil H2 c)] := by
  induction k with
  | zero =>
    intro c hne hl
    match c, hne, hl with
    | [a], _, _ => simp [iterPair, lv_le_one, iterSelf, root_single]
    | _ :: _ :: _, _, hl => simp at hl
  | succ k ih =>
    intro c hne hl
    match c, hne with
    | [a], _ =>
      simp only [iterPair, pairUp, List.length_cons, List.length_nil]
      rw [ih [H2 a a] (by simp) (by simpa using Nat.one_le_two_pow)]
      simp [lv_le_one, root_single, iterSelf]
    | a :: b :: rest, _ =>
      have hp : 2 ^ (k + 1) = 2 * 2 ^ k := by rw [Nat.pow_succ]; omega
      have hlen : 2 ≤ (a :: b :: rest).length := by simp
      simp only [iterPair]
      have hne' : pairUp H2 (a :: b :: rest) ≠ [] := by simp [pairUp]
      rw [ih _ hne' (by rw [length_pairUp]; omega)]
      rw [← root_pairUp nil H2 _ hlen, length_pairUp, lv_ge_two _ hlen]
      congr 2
      omega

theorem log2Loop_pow : ∀ (j f level : Nat), j ≤ f → log2Loop f (2 ^ (j + 1)) level = level + j
  | 0, 0, level, _ => by simp [log2Loop]
  | 0, f + 1, level, _ => by simp [log2Loop]
  | j + 1, 0, level, h => by omega
  | j + 1, f + 1, level, h => by
    have hp : 2 ^ (j + 1 + 1) / 2 = 2 ^ (j + 1) := by
      rw [Nat.pow_succ]; omega
    have h2 : ¬ 2 ^ (j + 1) ≤ 1 := by
      have : 2 ^ (j + 1) = 2 * 2 ^ j := by rw [Nat.pow_succ]; omega
      have := @Nat.one_le_two_pow j
      omega
    simp only [log2Loop, hp, h2, if_false]
    rw [log2Loop_pow j f (level + 1) (by omega)]
    omega

theorem log2_pow (k : Nat) (hk : 1 ≤ k) : log2 (2 ^ k) = k := by
  obtain ⟨j, rfl⟩ : ∃ j, k = j + 1 := ⟨k - 1, by omega⟩
  unfold log2
  have hpos : 2 ^ (j + 1) ≠ 0 := by have := @Nat.one_le_two_pow (j + 1); omega
  simp only [hpos, if_false]
  rw [log2Loop_pow j _ 1 (by have := @Nat.lt_two_pow_self (j + 1); omega)]
  omega

theorem pow2_eq (d : Nat) : pow2 d = 2 ^ d := by
  induction d with
  | zero => rfl
  | succ d ih => simp [pow2, ih, Nat.pow_succ]; omega

/-- `log2Loop` computes a floor logarithm: the result `r` satisfies `2^(r-level+1) ≤ data`. -/
theorem log2Loop_le : ∀ (f data level : Nat), 2 ≤ data →
    ∃ j, log2Loop f data level = level + j ∧ 2 ^ (j + 1) ≤ data
  | 0, data, level, h => ⟨0, by simp [log2Loop], by simpa using h⟩
  | f + 1, data, level, h => by
    simp only [log2Loop]
    split
    · exact ⟨0, rfl, by simpa using h⟩
    · next hd =>
      obtain ⟨j, hj, hle⟩ := log2Loop_le f (data / 2) (level + 1) (by omega)
      refine ⟨j + 1, by rw [hj]; omega, ?_⟩
      have : 2 ^ (j + 1 + 1) = 2 * 2 ^ (j + 1) := by rw [Nat.pow_succ]; omega
      omega

/-- the chunk size is a power of two `2^k`, `1 ≤ k`, not larger than the list. -/
theorem stepOf_spec (n ncpu : Nat) (hn : 80 < n) :
    ∃ k, 1 ≤ k ∧ stepOf n ncpu = 2 ^ k ∧ 2 ^ k ≤ n := by
  unfold stepOf
  simp only [pow2_eq]
  have hq : n / ncpu ≤ n := Nat.div_le_self _ _
  generalize n / ncpu = q at hq
  have key : ∃ s1, 1 ≤ s1 ∧ (if log2 q < 1 then 1 else log2 q) = s1 ∧ 2 ^ s1 ≤ n := by
    by_cases h0 : log2 q < 1
    · exact ⟨1, by omega, by simp [h0], by omega⟩
    · refine ⟨log2 q, by omega, by simp [h0], ?_⟩
      by_cases hx : q ≤ 1
      · have : log2 q ≤ 1 := by
          have h01 : q = 0 ∨ q = 1 := by omega
          rcases h01 with h | h <;> rw [h] <;> decide
        have : log2 q = 1 := by omega
        rw [this]; omega
      · unfold log2
        have hne : q ≠ 0 := by omega
        simp only [hne, if_false]
        obtain ⟨j, hj, hle⟩ := log2Loop_le q q 1 (by omega)
        rw [hj]
        have : 1 + j = j + 1 := by omega
        rw [this]
        omega
  obtain ⟨s1, hs1, he, hle⟩ := key
  rw [he]
  by_cases hc : 2 ^ s1 > 256
  · exact ⟨8, by omega, by simp [hc], by omega⟩
  · exact ⟨s1, hs1, by simp [hc], hle⟩

/-- the child list of `GetMerkleRoot` is the level reached after `k` pairing rounds. -/
theorem chunkRoots_eq (k : Nat) (hk : 1 ≤ k) : ∀ (f : Nat) (xs : List β), xs.length ≤ f →
    chunkRoots nil H2 (2 ^ k) f xs = iterPair H2 k xs
  | 0, xs, h => by
    have : xs = [] := List.eq_nil_of_length_eq_zero (by omega)
    subst this; simp [chunkRoots, iterPair_nil]
  | f + 1, [], _ => by simp [chunkRoots, iterPair_nil]
  | f + 1, x :: xs, h => by
    have hpos : 1 ≤ 2 ^ k := Nat.one_le_two_pow
    have hsplit : (x :: xs) = (x :: xs).take (2 ^ k) ++ (x :: xs).drop (2 ^ k) := (List.take_append_drop _ _).symm
    simp only [chunkRoots]
    by_cases hfull : ((x :: xs).take (2 ^ k)).length = 2 ^ k
    · simp only [hfull, ne_eq, not_true_eq_false, if_false]
      rw [chunkRoots_eq k hk f _ (by simp only [List.length_drop, List.length_cons] at h ⊢; omega)]
      conv => rhs; rw [hsplit]
      rw [iterPair_append H2 k _ _ (by rw [hfull]; exact Nat.mod_self _)]
      have hc := iterPair_chunk nil H2 k ((x :: xs).take (2 ^ k))
        (by intro h0; rw [h0] at hfull; simp at hfull; omega) (by omega)
      have hroot := root_iterPair nil H2 k ((x :: xs).take (2 ^ k)) (by omega)
      rw [hc] at hroot ⊢
      rw [root_single] at hroot
      rw [← hroot]; rfl
    · simp only [hfull, ne_eq, not_false_eq_true, if_true]
      have hlt : (x :: xs).length < 2 ^ k := by
        rw [List.length_take] at hfull; omega
      have htake : (x :: xs).take (2 ^ k) = x :: xs := List.take_of_length_le (by omega)
      have hdrop : (x :: xs).drop (2 ^ k) = [] := List.drop_of_length_le (by omega)
      rw [htake, hdrop]
      have : chunkRoots nil H2 (2 ^ k) f [] = [] := by cases f <;> rfl
      rw [this, iterPair_chunk nil H2 k (x :: xs) (by simp) (by omega)]
      congr 1
      unfold getMerkleRootPad
      rw [log2_pow k hk]
      match xs with
      | [] =>
        simp only [List.length_cons, List.length_nil, calcLevel, if_true, root_single]
        obtain ⟨j, rfl⟩ : ∃ j, k = j + 1 := ⟨k - 1, by omega⟩
        rw [lv_le_one (0 + 1) (by omega)]
        rfl
      | y :: ys =>
        simp only
        rw [calcLevel_eq _ (by simp)]

/-- chunked root = sequential root (the proof of `parallel_eq_seq`). -/
theorem GetMerkleRoot_eq (xs : List β) (ncpu : Nat) :
    GetMerkleRoot nil H2 ncpu xs = getMerkleRoot nil H2 xs := by
  unfold GetMerkleRoot
  split
  · rfl
  · next h =>
    have hn : 80 < xs.length := by omega
    obtain ⟨k, hk, hstep, hle⟩ := stepOf_spec xs.length ncpu hn
    simp only [hstep]
    rw [chunkRoots_eq nil H2 k hk xs.length xs (Nat.le_refl _)]
    exact (root_iterPair nil H2 k xs hle).symm

/-- the (start, count, hash) triples produced by `childRoots`: every non-empty range carries its
sequential root. -/
def ChildOK (hs : List β) (c : Child β) : Prop :=
  (hs.drop c.start).take c.count ≠ [] → c.hash = getMerkleRoot nil H2 ((hs.drop c.start).take c.count)

theorem singleLayerRoot_ok [DecidableEq β] (zero : β) (ncpu : Nat) (hs : List β) (r : β)
    (h : singleLayerRoot nil zero H2 ncpu hs = .ok r) (hne : hs ≠ []) : r = getMerkleRoot nil H2 hs := by
  unfold singleLayerRoot at h
  have : hs.isEmpty = false := by cases hs <;> simp_all
  simp only [this, Bool.false_eq_true, if_false, GetMerkleRoot_eq] at h
  split at h
  · cases h
  · cases h; rfl

theorem childRoots_ok [DecidableEq β] (zero : β) (ncpu : Nat) (hs : List β) (total : Nat) :
    ∀ (starts : List (Bytes × Nat)) (cs : List (Child β)),
      childRoots nil zero H2 ncpu hs total starts = .ok cs → ∀ c ∈ cs, ChildOK nil H2 hs c
  | [], cs, h => by simp [childRoots] at h; subst h; simp
  | (t, s) :: rest, cs, h => by
    simp only [childRoots] at h
    split at h
    · cases h
    · next r hr =>
      split at h
      · cases h
      · next cs' hcs' =>
        cases h
        intro c hc
        rcases List.mem_cons.mp hc with rfl | hc
        · intro hne; exact singleLayerRoot_ok nil H2 zero ncpu _ r hr hne
        · exact childRoots_ok zero ncpu hs total rest cs' hcs' c hc

theorem childStarts_head (e : Bytes) (rest : List Bytes) :
    ∃ t tl, childStarts (e :: rest) 0 [] = (t, 0) :: tl := by
  unfold childStarts
  split
  · exact ⟨_, _, by simp; exact ⟨rfl, rfl⟩⟩
  · exact ⟨_, _, by simp; exact ⟨rfl, rfl⟩⟩

end C18
