import Chain33Model.Model.C18
import Chain33Model.Proofs.C18
import Chain33Model.Proofs.C18Comp
/-!
C18 helper lemmas for the binding theorem: comparison of two padded subtrees of equal value.
-/
namespace C18

variable {β : Type} (nil : β) (H2 : β → β → β)

/-- an explicit collision of the two-to-one function: two different argument pairs, same value. -/
def Collision : Prop := ∃ a b c d, (a ≠ c ∨ b ≠ d) ∧ H2 a b = H2 c d

/-- some leaf of the list is itself a value of `H2` — possible because leaves and inner nodes are
not domain-separated. -/
def LeafIsInner (xs : List β) : Prop := ∃ a ∈ xs, ∃ u v, a = H2 u v

/-- two adjacent, aligned, complete subtrees (`2^l` leaves each) with the same root: the pattern
produced by duplicating a tail, and what `Computation` reports as `mutated`. -/
def SibDup (xs : List β) : Prop :=
  ∃ l P B S R, xs = P ++ B ++ S ++ R ∧ B.length = 2 ^ l ∧ S.length = 2 ^ l ∧ 2 ^ (l + 1) ∣ P.length ∧
    getMerkleRoot nil H2 B = getMerkleRoot nil H2 S

/-- `SibDup` inside a block of height `k`. -/
def SibDupIn (k : Nat) (c : List β) : Prop :=
  ∃ l P B S R, c = P ++ B ++ S ++ R ∧ B.length = 2 ^ l ∧ S.length = 2 ^ l ∧ 2 ^ (l + 1) ∣ P.length ∧ l < k ∧
    getMerkleRoot nil H2 B = getMerkleRoot nil H2 S

theorem H2_inj {a b c d : β} (h : H2 a b = H2 c d) : (a = c ∧ b = d) ∨ Collision H2 := by
  by_cases hac : a = c
  · by_cases hbd : b = d
    · exact Or.inl ⟨hac, hbd⟩
    · exact Or.inr ⟨a, b, c, d, Or.inr hbd, h⟩
  · exact Or.inr ⟨a, b, c, d, Or.inl hac, h⟩

theorem sibDupIn_mono {k : Nat} {c : List β} (h : SibDupIn nil H2 k c) : SibDupIn nil H2 (k + 1) c := by
  obtain ⟨l, P, B, S, R, h1, h2, h3, h4, h5, h6⟩ := h
  exact ⟨l, P, B, S, R, h1, h2, h3, h4, by omega, h6⟩

theorem sibDupIn_left {k : Nat} {a : List β} (b : List β) (h : SibDupIn nil H2 k a) : SibDupIn nil H2 (k + 1) (a ++ b) := by
  obtain ⟨l, P, B, S, R, h1, h2, h3, h4, h5, h6⟩ := h
  exact ⟨l, P, B, S, R ++ b, by rw [h1]; simp, h2, h3, h4, by omega, h6⟩

theorem sibDupIn_right {k : Nat} (a : List β) {b : List β} (ha : a.length = 2 ^ k) (h : SibDupIn nil H2 k b) :
    SibDupIn nil H2 (k + 1) (a ++ b) := by
  obtain ⟨l, P, B, S, R, h1, h2, h3, h4, h5, h6⟩ := h
  refine ⟨l, a ++ P, B, S, R, by rw [h1]; simp, h2, h3, ?_, by omega, h6⟩
  rw [List.length_append, ha]
  exact Nat.dvd_add (Nat.pow_dvd_pow 2 (by omega)) h4

theorem sibDup_of_in {k : Nat} {c : List β} (h : SibDupIn nil H2 k c) : SibDup nil H2 c := by
  obtain ⟨l, P, B, S, R, h1, h2, h3, h4, _, h6⟩ := h
  exact ⟨l, P, B, S, R, h1, h2, h3, h4, h6⟩

theorem top_complete (k : Nat) (c : List β) (h : c.length = 2 ^ k) : top nil H2 k c = getMerkleRoot nil H2 c := by
  have hp := Nat.two_pow_pos k
  have hne : c ≠ [] := by intro h0; rw [h0] at h; simp at h; omega
  exact (root_eq_top nil H2 k c hne (by omega) (by omega)).symm

theorem top_split (k : Nat) (c : List β) (h1 : 2 ^ k < c.length) (h2 : c.length ≤ 2 ^ (k + 1)) :
    top nil H2 (k + 1) c = H2 (top nil H2 k (c.take (2 ^ k))) (top nil H2 k (c.drop (2 ^ k))) := by
  have hpow : 2 ^ (k + 1) = 2 * 2 ^ k := by rw [Nat.pow_succ]; omega
  conv => lhs; rw [← List.take_append_drop (2 ^ k) c]
  apply top_merge
  · rw [List.length_take]; omega
  · intro h0
    have := congrArg List.length h0
    rw [List.length_drop] at this; simp at this; omega
  · rw [List.length_drop]; omega

/-- a complete subtree and a strictly shorter padded one with the same value: one of them
contains a duplicated sibling pair (or there is a collision). -/
theorem desc (k : Nat) : ∀ (c1 c2 : List β), c1.length = 2 ^ k → c2 ≠ [] → c2.length < 2 ^ k →
    top nil H2 k c1 = top nil H2 k c2 →
    SibDupIn nil H2 k c1 ∨ SibDupIn nil H2 k c2 ∨ Collision H2 := by
  induction k with
  | zero =>
    intro c1 c2 _ hne hlt _
    have : 0 < c2.length := List.length_pos_iff.mpr hne
    have h1 : (2 : Nat) ^ 0 = 1 := rfl
    omega
  | succ k ih =>
    intro c1 c2 h1 hne hlt htop
    have hpow : 2 ^ (k + 1) = 2 * 2 ^ k := by rw [Nat.pow_succ]; omega
    have hp := Nat.two_pow_pos k
    have hta : (c1.take (2 ^ k)).length = 2 ^ k := by rw [List.length_take]; omega
    have hda : (c1.drop (2 ^ k)).length = 2 ^ k := by rw [List.length_drop]; omega
    rw [top_split nil H2 k c1 (by omega) (by omega)] at htop
    by_cases hpad : c2.length ≤ 2 ^ k
    · -- c2 is padded at this level: the two halves of c1 have equal values
      rw [top_pad nil H2 k c2 hne hpad] at htop
      rcases H2_inj H2 htop with ⟨e1, e2⟩ | hc
      · left
        refine ⟨k, [], c1.take (2 ^ k), c1.drop (2 ^ k), [], by simp, hta, hda, by simp, by omega, ?_⟩
        rw [← top_complete nil H2 k _ hta, ← top_complete nil H2 k _ hda, e1, e2]
      · exact Or.inr (Or.inr hc)
    · rw [top_split nil H2 k c2 (by omega) (by omega)] at htop
      rcases H2_inj H2 htop with ⟨_, e2⟩ | hc
      · have hdb : (c2.drop (2 ^ k)).length < 2 ^ k := by rw [List.length_drop]; omega
        have hdne : c2.drop (2 ^ k) ≠ [] := by
          intro h0
          have := congrArg List.length h0
          rw [List.length_drop] at this; simp at this; omega
        have htb : (c2.take (2 ^ k)).length = 2 ^ k := by rw [List.length_take]; omega
        rcases ih _ _ hda hdne hdb e2 with h | h | h
        · left; rw [← List.take_append_drop (2 ^ k) c1]; exact sibDupIn_right nil H2 _ hta h
        · right; left; rw [← List.take_append_drop (2 ^ k) c2]; exact sibDupIn_right nil H2 _ htb h
        · exact Or.inr (Or.inr h)
      · exact Or.inr (Or.inr hc)

/-- two padded subtrees of the same height with the same value. -/
theorem inj (k : Nat) : ∀ (c c' : List β), c ≠ [] → c' ≠ [] → c.length ≤ 2 ^ k → c'.length ≤ 2 ^ k →
    top nil H2 k c = top nil H2 k c' →
    c = c' ∨ SibDupIn nil H2 k c ∨ SibDupIn nil H2 k c' ∨ Collision H2 := by
  induction k with
  | zero =>
    intro c c' hne hne' hl hl' htop
    have h1 : (2 : Nat) ^ 0 = 1 := rfl
    match c, c', hne, hne', hl, hl' with
    | [a], [a'], _, _, _, _ =>
      rw [top_zero, top_zero] at htop
      left; rw [htop]
    | _ :: _ :: _, _, _, _, hl, _ => simp at hl
    | _, _ :: _ :: _, _, _, _, hl' => simp at hl'
  | succ k ih =>
    intro c c' hne hne' hl hl' htop
    have hpow : 2 ^ (k + 1) = 2 * 2 ^ k := by rw [Nat.pow_succ]; omega
    have hp := Nat.two_pow_pos k
    -- facts about the halves of a list longer than 2^k
    have halves : ∀ z : List β, 2 ^ k < z.length → z.length ≤ 2 ^ (k + 1) →
        (z.take (2 ^ k)).length = 2 ^ k ∧ z.drop (2 ^ k) ≠ [] ∧ (z.drop (2 ^ k)).length ≤ 2 ^ k := by
      intro z h1 h2
      refine ⟨by rw [List.length_take]; omega, ?_, by rw [List.length_drop]; omega⟩
      intro h0
      have := congrArg List.length h0
      rw [List.length_drop] at this; simp at this; omega
    -- split against padded: the two halves of the split one have equal values
    have mixed : ∀ z w : List β, 2 ^ k < z.length → z.length ≤ 2 ^ (k + 1) → w ≠ [] → w.length ≤ 2 ^ k →
        top nil H2 (k + 1) z = top nil H2 (k + 1) w →
        SibDupIn nil H2 (k + 1) z ∨ Collision H2 := by
      intro z w h1 h2 hwne hw ht
      obtain ⟨hta, hdne, hdl⟩ := halves z h1 h2
      rw [top_split nil H2 k z h1 h2, top_pad nil H2 k w hwne hw] at ht
      rcases H2_inj H2 ht with ⟨e1, e2⟩ | hc
      · have heq : top nil H2 k (z.take (2 ^ k)) = top nil H2 k (z.drop (2 ^ k)) := by rw [e1, e2]
        by_cases hfull : (z.drop (2 ^ k)).length = 2 ^ k
        · left
          refine ⟨k, [], z.take (2 ^ k), z.drop (2 ^ k), [], by simp, hta, hfull, by simp, by omega, ?_⟩
          rw [← top_complete nil H2 k _ hta, ← top_complete nil H2 k _ hfull, heq]
        · rcases desc nil H2 k _ _ hta hdne (by omega) heq with h | h | h
          · left; rw [← List.take_append_drop (2 ^ k) z]; exact sibDupIn_left nil H2 _ h
          · left; rw [← List.take_append_drop (2 ^ k) z]; exact sibDupIn_right nil H2 _ hta h
          · exact Or.inr h
      · exact Or.inr hc
    by_cases hc : c.length ≤ 2 ^ k
    · by_cases hc' : c'.length ≤ 2 ^ k
      · rw [top_pad nil H2 k c hne hc, top_pad nil H2 k c' hne' hc'] at htop
        rcases H2_inj H2 htop with ⟨e1, _⟩ | hcol
        · rcases ih c c' hne hne' hc hc' e1 with h | h | h | h
          · exact Or.inl h
          · exact Or.inr (Or.inl (sibDupIn_mono nil H2 h))
          · exact Or.inr (Or.inr (Or.inl (sibDupIn_mono nil H2 h)))
          · exact Or.inr (Or.inr (Or.inr h))
        · exact Or.inr (Or.inr (Or.inr hcol))
      · rcases mixed c' c (by omega) hl' hne hc htop.symm with h | h
        · exact Or.inr (Or.inr (Or.inl h))
        · exact Or.inr (Or.inr (Or.inr h))
    · by_cases hc' : c'.length ≤ 2 ^ k
      · rcases mixed c c' (by omega) hl hne' hc' htop with h | h
        · exact Or.inr (Or.inl h)
        · exact Or.inr (Or.inr (Or.inr h))
      · obtain ⟨hta, hdne, hdl⟩ := halves c (by omega) hl
        obtain ⟨hta', hdne', hdl'⟩ := halves c' (by omega) hl'
        have htne : c.take (2 ^ k) ≠ [] := by intro h0; rw [h0] at hta; simp at hta; omega
        have htne' : c'.take (2 ^ k) ≠ [] := by intro h0; rw [h0] at hta'; simp at hta'; omega
        rw [top_split nil H2 k c (by omega) hl, top_split nil H2 k c' (by omega) hl'] at htop
        rcases H2_inj H2 htop with ⟨e1, e2⟩ | hcol
        · rcases ih _ _ htne htne' (by omega) (by omega) e1 with h1 | h1 | h1 | h1
          · rcases ih _ _ hdne hdne' hdl hdl' e2 with h2 | h2 | h2 | h2
            · left
              rw [← List.take_append_drop (2 ^ k) c, ← List.take_append_drop (2 ^ k) c', h1, h2]
            · right; left; rw [← List.take_append_drop (2 ^ k) c]; exact sibDupIn_right nil H2 _ hta h2
            · right; right; left; rw [← List.take_append_drop (2 ^ k) c']; exact sibDupIn_right nil H2 _ hta' h2
            · exact Or.inr (Or.inr (Or.inr h2))
          · right; left; rw [← List.take_append_drop (2 ^ k) c]; exact sibDupIn_left nil H2 _ h1
          · right; right; left; rw [← List.take_append_drop (2 ^ k) c']; exact sibDupIn_left nil H2 _ h1
          · exact Or.inr (Or.inr (Or.inr h1))
        · exact Or.inr (Or.inr (Or.inr hcol))

/-- the value of a padded subtree of height ≥ 1 is a value of `H2`. -/
theorem top_succ_is_H2 (k : Nat) (c : List β) (hne : c ≠ []) (hl : c.length ≤ 2 ^ (k + 1)) :
    ∃ c1, c1 ≠ [] ∧ c1.length ≤ 2 ^ k ∧ (∀ a ∈ c1, a ∈ c) ∧ ∃ v, top nil H2 (k + 1) c = H2 (top nil H2 k c1) v := by
  by_cases hc : c.length ≤ 2 ^ k
  · exact ⟨c, hne, hc, fun a h => h, _, top_pad nil H2 k c hne hc⟩
  · have hp := Nat.two_pow_pos k
    refine ⟨c.take (2 ^ k), ?_, by rw [List.length_take]; omega, fun a h => List.mem_of_mem_take h, _,
      top_split nil H2 k c (by omega) hl⟩
    intro h0
    have h2 : (c.take (2 ^ k)).length = 2 ^ k := by rw [List.length_take]; omega
    rw [h0] at h2; simp at h2; omega

/-- subtrees of different heights with the same value: a leaf of the lower one is an inner value. -/
theorem height (dx : Nat) : ∀ (dy : Nat) (c c' : List β), dx < dy → c ≠ [] → c' ≠ [] →
    c.length ≤ 2 ^ dx → c'.length ≤ 2 ^ dy → top nil H2 dx c = top nil H2 dy c' →
    LeafIsInner H2 c ∨ Collision H2 := by
  induction dx with
  | zero =>
    intro dy c c' hlt hne hne' hl hl' htop
    obtain ⟨j, rfl⟩ : ∃ j, dy = j + 1 := ⟨dy - 1, by omega⟩
    have h1 : (2 : Nat) ^ 0 = 1 := rfl
    match c, hne, hl with
    | [a], _, _ =>
      obtain ⟨c1, _, _, _, v, hv⟩ := top_succ_is_H2 nil H2 j c' hne' hl'
      rw [top_zero, hv] at htop
      exact Or.inl ⟨a, by simp, _, _, htop⟩
    | _ :: _ :: _, _, hl => simp at hl
  | succ dx ih =>
    intro dy c c' hlt hne hne' hl hl' htop
    obtain ⟨j, rfl⟩ : ∃ j, dy = j + 1 := ⟨dy - 1, by omega⟩
    obtain ⟨c1, hne1, hl1, hsub, v, hv⟩ := top_succ_is_H2 nil H2 dx c hne hl
    obtain ⟨c1', hne1', hl1', _, v', hv'⟩ := top_succ_is_H2 nil H2 j c' hne' hl'
    rw [hv, hv'] at htop
    rcases H2_inj H2 htop with ⟨e1, _⟩ | hcol
    · rcases ih j c1 c1' (by omega) hne1 hne1' hl1 hl1' e1 with ⟨a, ha, u, w, hauw⟩ | h
      · exact Or.inl ⟨a, hsub a ha, u, w, hauw⟩
      · exact Or.inr h
    · exact Or.inr hcol

theorem lv_spec : ∀ n : Nat, 1 ≤ n → n ≤ 2 ^ lv n ∧ (lv n = 0 ∨ 2 ^ (lv n - 1) < n) := by
  intro n
  induction n using Nat.strongRecOn with
  | ind n ih =>
    intro hn
    by_cases h1 : n ≤ 1
    · rw [lv_le_one n h1]; exact ⟨by simp; omega, Or.inl rfl⟩
    · rw [lv_ge_two n (by omega)]
      obtain ⟨hle, hlo⟩ := ih ((n + 1) / 2) (by omega) (by omega)
      have e : 2 ^ (1 + lv ((n + 1) / 2)) = 2 * 2 ^ lv ((n + 1) / 2) := by rw [Nat.add_comm, Nat.pow_succ]; omega
      refine ⟨by rw [e]; omega, Or.inr ?_⟩
      have e2 : 1 + lv ((n + 1) / 2) - 1 = lv ((n + 1) / 2) := by omega
      rw [e2]
      rcases Nat.eq_zero_or_pos (lv ((n + 1) / 2)) with h0 | hpos
      · rw [h0]; show 1 < n; omega
      · have hlt : 2 ^ (lv ((n + 1) / 2) - 1) < (n + 1) / 2 := by
          rcases hlo with h | h
          · omega
          · exact h
        have : 2 ^ lv ((n + 1) / 2) = 2 * 2 ^ (lv ((n + 1) / 2) - 1) := by
          have : lv ((n + 1) / 2) = (lv ((n + 1) / 2) - 1) + 1 := by omega
          rw [this, Nat.pow_succ]; simp; omega
        omega

theorem root_as_top (xs : List β) (hne : xs ≠ []) :
    xs.length ≤ 2 ^ lv xs.length ∧ getMerkleRoot nil H2 xs = top nil H2 (lv xs.length) xs := by
  have hpos : 1 ≤ xs.length := List.length_pos_iff.mpr hne
  obtain ⟨hle, hlo⟩ := lv_spec xs.length hpos
  refine ⟨hle, root_eq_top nil H2 _ xs hne hle ?_⟩
  rcases Nat.eq_zero_or_pos (lv xs.length) with h0 | hpos'
  · rw [h0]; show 1 < 2 * xs.length; omega
  · have hlt : 2 ^ (lv xs.length - 1) < xs.length := by
      rcases hlo with h | h
      · omega
      · exact h
    have : lv xs.length = (lv xs.length - 1) + 1 := by omega
    rw [this, Nat.pow_succ]; omega

/-- equal roots: equal lists, or a duplicated sibling pair in one of them, or a collision, or a
leaf that is an inner value. -/
theorem binding_sem (xs ys : List β) (hx : xs ≠ []) (hy : ys ≠ [])
    (h : getMerkleRoot nil H2 xs = getMerkleRoot nil H2 ys) :
    xs = ys ∨ SibDup nil H2 xs ∨ SibDup nil H2 ys ∨ Collision H2 ∨ LeafIsInner H2 xs ∨ LeafIsInner H2 ys := by
  obtain ⟨hlx, hrx⟩ := root_as_top nil H2 xs hx
  obtain ⟨hly, hry⟩ := root_as_top nil H2 ys hy
  rw [hrx, hry] at h
  rcases Nat.lt_trichotomy (lv xs.length) (lv ys.length) with hlt | heq | hgt
  · rcases height nil H2 _ _ xs ys hlt hx hy hlx hly h with h1 | h1
    · exact Or.inr (Or.inr (Or.inr (Or.inr (Or.inl h1))))
    · exact Or.inr (Or.inr (Or.inr (Or.inl h1)))
  · rw [heq] at h hlx
    rcases inj nil H2 _ xs ys hx hy hlx hly h with h1 | h1 | h1 | h1
    · exact Or.inl h1
    · exact Or.inr (Or.inl (sibDup_of_in nil H2 h1))
    · exact Or.inr (Or.inr (Or.inl (sibDup_of_in nil H2 h1)))
    · exact Or.inr (Or.inr (Or.inr (Or.inl h1)))
  · rcases height nil H2 _ _ ys xs hgt hy hx hly hlx h.symm with h1 | h1
    · exact Or.inr (Or.inr (Or.inr (Or.inr (Or.inr h1))))
    · exact Or.inr (Or.inr (Or.inr (Or.inl h1)))

/-! ### a duplicated sibling pair means a duplicated leaf -/

theorem not_nodup_append_self (P B R : List β) (hB : B ≠ []) : ¬ (P ++ B ++ B ++ R).Nodup := by
  match B, hB with
  | b :: bs, _ =>
    intro h
    have : (P ++ (b :: bs) ++ (b :: bs) ++ R) = P ++ (b :: (bs ++ (b :: (bs ++ R)))) := by simp
    rw [this] at h
    have h1 := (List.nodup_append.mp h).2.1
    have h2 := (List.nodup_cons.mp h1).1
    exact h2 (by simp)

/-- two adjacent complete blocks of `2^l` leaves with equal roots inside `c`: some leaf of `c`
occurs twice (or `H2` has a collision). -/
theorem dup_of_pair (l : Nat) : ∀ (c P B S R : List β), c = P ++ B ++ S ++ R → B.length = 2 ^ l → S.length = 2 ^ l →
    getMerkleRoot nil H2 B = getMerkleRoot nil H2 S → ¬ c.Nodup ∨ Collision H2 := by
  induction l using Nat.strongRecOn with
  | ind l ih =>
    intro c P B S R hc hB hS hroot
    have hp := Nat.two_pow_pos l
    have hBne : B ≠ [] := by intro h; rw [h] at hB; simp at hB; omega
    have hSne : S ≠ [] := by intro h; rw [h] at hS; simp at hS; omega
    rw [← top_complete nil H2 l B hB, ← top_complete nil H2 l S hS] at hroot
    have sub : ∀ z : List β, (z = B ∨ z = S) → SibDupIn nil H2 l z → ¬ c.Nodup ∨ Collision H2 := by
      intro z hz ⟨l', P', B', S', R', hdec, hB', hS', _, hlt, hr⟩
      rcases hz with rfl | rfl
      · exact ih l' hlt c (P ++ P') B' S' (R' ++ S ++ R) (by rw [hc, hdec]; simp) hB' hS' hr
      · exact ih l' hlt c (P ++ B ++ P') B' S' (R' ++ R) (by rw [hc, hdec]; simp) hB' hS' hr
    rcases inj nil H2 l B S hBne hSne (by omega) (by omega) hroot with h | h | h | h
    · left; rw [hc, h]; exact not_nodup_append_self P S R hSne
    · exact sub B (Or.inl rfl) h
    · exact sub S (Or.inr rfl) h
    · exact Or.inr h

theorem dup_of_sibDup (xs : List β) (h : SibDup nil H2 xs) : ¬ xs.Nodup ∨ Collision H2 := by
  obtain ⟨l, P, B, S, R, hdec, hB, hS, _, hr⟩ := h
  exact dup_of_pair nil H2 l xs P B S R hdec hB hS hr

theorem delDupTx_length_le [DecidableEq β] : ∀ xs : List β, (delDupTx xs).length ≤ xs.length
  | [] => by simp [delDupTx]
  | x :: xs => by
    have := delDupTx_length_le xs
    simp only [delDupTx]; split <;> simp <;> omega

theorem delDupTx_length_eq_iff [DecidableEq β] : ∀ xs : List β, (delDupTx xs).length = xs.length ↔ xs.Nodup
  | [] => by simp [delDupTx]
  | x :: xs => by
    have hle := delDupTx_length_le xs
    have ih := delDupTx_length_eq_iff xs
    simp only [delDupTx, List.nodup_cons]
    split
    · next hmem => simp only [List.length_cons]; constructor
                   · intro h; omega
                   · intro h; exact absurd hmem h.1
    · next hmem => simp only [List.length_cons]; constructor
                   · intro h; exact ⟨hmem, ih.mp (by omega)⟩
                   · intro h; rw [ih.mpr h.2]

theorem dupRejected_iff [DecidableEq β] (xs : List β) : dupRejected xs = true ↔ ¬ xs.Nodup := by
  unfold dupRejected
  rw [← delDupTx_length_eq_iff]; simp

end C18
