import Chain33Model.Model.C18
import Chain33Model.Proofs.C18
import Chain33Model.Proofs.C18Comp
/-!
C18 helper lemmas for the inclusion branch computed by `Computation` (flage with bit 2 set):
the block decomposition extended with the branch bookkeeping for one position `p`.
-/
namespace C18

variable {β : Type} (nil : β) (H2 : β → β → β)

theorem rfb_append : ∀ (br : List β) (s leaf : β) (i : Nat),
    GetMerkleRootFromBranch H2 (br ++ [s]) leaf i =
      if i / 2 ^ br.length % 2 = 1 then H2 s (GetMerkleRootFromBranch H2 br leaf i)
      else H2 (GetMerkleRootFromBranch H2 br leaf i) s
  | [], s, leaf, i => by simp [GetMerkleRootFromBranch]
  | b :: rest, s, leaf, i => by
    simp only [List.cons_append, GetMerkleRootFromBranch, List.length_cons]
    have e : i / 2 / 2 ^ rest.length = i / 2 ^ (rest.length + 1) := by
      rw [Nat.div_div_eq_div_mul, Nat.pow_succ, Nat.mul_comm]
    rw [rfb_append rest s _ (i / 2)]
    simp only [e]

/-- `p` lies in the block of `len` elements that starts at offset `off`. -/
def InBlk (p off len : Nat) : Prop := off ≤ p ∧ p < off + len

/-- `Forest` plus, for the block that contains position `p`, the facts tying `matchlevel`/`branch`
to it: the branch recorded so far has one entry per level below the block and hashes (from
`leaf`, with the index bits of `p`) to the block's subtree value. -/
inductive ForestB (p : Nat) (leaf : β) (inner : List β) (ml : Nat) (br : List β) : Nat → Nat → List β → Prop
  | zero (l : Nat) : ForestB p leaf inner ml br l 0 []
  | even (l q : Nat) (P : List β) : ForestB p leaf inner ml br (l + 1) q P → ForestB p leaf inner ml br l (2 * q) P
  | odd (l q : Nat) (P B : List β) : B.length = 2 ^ l → inner[l]? = some (top nil H2 l B) →
      ForestB p leaf inner ml br (l + 1) q P →
      (InBlk p P.length (2 ^ l) → ml = l ∧ br.length = l ∧ GetMerkleRootFromBranch H2 br leaf p = top nil H2 l B) →
      (¬ InBlk p P.length (2 ^ l) → ml ≠ l) →
      ForestB p leaf inner ml br l (2 * q + 1) (P ++ B)

variable {p : Nat} {leaf : β}

theorem ForestB.toForest {inner : List β} {ml : Nat} {br : List β} {l n : Nat} {P : List β}
    (h : ForestB nil H2 p leaf inner ml br l n P) : Forest nil H2 inner l n P := by
  induction h with
  | zero l => exact Forest.zero _
  | even l q P _ ih => exact Forest.even _ _ _ ih
  | odd l q P B hB hi _ _ _ ih => exact Forest.odd _ _ _ _ hB hi ih

theorem forestB_even_inv {inner : List β} {ml : Nat} {br : List β} {l n : Nat} {P : List β}
    (h : ForestB nil H2 p leaf inner ml br l n P) (q : Nat) (hn : n = 2 * q) :
    ForestB nil H2 p leaf inner ml br (l + 1) q P := by
  cases h with
  | zero l => have : q = 0 := by omega
              subst this; exact ForestB.zero _
  | even l q' P h' => have : q = q' := by omega
                      subst this; exact h'
  | odd l q' P B _ _ _ _ _ => omega

theorem forestB_odd_inv {inner : List β} {ml : Nat} {br : List β} {l n : Nat} {P : List β}
    (h : ForestB nil H2 p leaf inner ml br l n P) (q : Nat) (hn : n = 2 * q + 1) :
    ∃ P' B, P = P' ++ B ∧ B.length = 2 ^ l ∧ inner[l]? = some (top nil H2 l B) ∧
      ForestB nil H2 p leaf inner ml br (l + 1) q P' ∧
      (InBlk p P'.length (2 ^ l) → ml = l ∧ br.length = l ∧ GetMerkleRootFromBranch H2 br leaf p = top nil H2 l B) ∧
      (¬ InBlk p P'.length (2 ^ l) → ml ≠ l) := by
  cases h with
  | zero l => omega
  | even l q' P h' => omega
  | odd l q' P' B hB hi h' c1 c2 =>
    have : q = q' := by omega
    subst this; exact ⟨P', B, rfl, hB, hi, h', c1, c2⟩

theorem forestB_frame {inner inner' : List β} {ml : Nat} {br : List β} {l n : Nat} {P : List β}
    (h : ForestB nil H2 p leaf inner ml br l n P)
    (hf : ∀ j, l ≤ j → inner'[j]? = inner[j]?) : ForestB nil H2 p leaf inner' ml br l n P := by
  induction h with
  | zero l => exact ForestB.zero _
  | even l q P _ ih => exact ForestB.even _ _ _ (ih (fun j hj => hf j (by omega)))
  | odd l q P B hB hi _ c1 c2 ih =>
    exact ForestB.odd _ _ _ _ hB (by rw [hf l (Nat.le_refl _)]; exact hi) (ih (fun j hj => hf j (by omega))) c1 c2

theorem forestB_lift {inner : List β} {ml : Nat} {br : List β} {n : Nat} {P : List β} :
    ∀ (l : Nat), ForestB nil H2 p leaf inner ml br l n P → ForestB nil H2 p leaf inner ml br 0 (n * 2 ^ l) P
  | 0, h => by simpa using h
  | l + 1, h => by
    have := forestB_lift l (ForestB.even l n P h)
    have e : 2 * n * 2 ^ l = n * 2 ^ (l + 1) := by rw [Nat.pow_succ]; rw [Nat.mul_comm 2 n, Nat.mul_assoc, Nat.mul_comm 2]
    rw [e] at this; exact this

/-- blocks to the left of `p` do not care about the recorded branch, nor about a `matchlevel`
below their levels. -/
theorem forestB_irrel {inner : List β} {ml ml' : Nat} {br br' : List β} {l n : Nat} {P : List β}
    (h : ForestB nil H2 p leaf inner ml br l n P) (hp : P.length ≤ p) (hml : ml' = ml ∨ ml' < l) :
    ForestB nil H2 p leaf inner ml' br' l n P := by
  induction h with
  | zero l => exact ForestB.zero _
  | even l q P _ ih => exact ForestB.even _ _ _ (ih hp (by omega))
  | odd l q P B hB hi hsub c1 c2 ih =>
    have hlen : (P ++ B).length = P.length + 2 ^ l := by rw [List.length_append, hB]
    have hnot : ¬ InBlk p P.length (2 ^ l) := by unfold InBlk; omega
    refine ForestB.odd _ _ _ _ hB hi (ih (by omega) (by omega)) (fun h => absurd h hnot) ?_
    intro _
    rcases hml with h | h
    · rw [h]; exact c2 hnot
    · omega

/-- if `p` is among the elements of the forest, `matchlevel` is the level of its block. -/
theorem forestB_ml_ge {inner : List β} {ml : Nat} {br : List β} {l n : Nat} {P : List β}
    (h : ForestB nil H2 p leaf inner ml br l n P) (hp : p < P.length) : l ≤ ml := by
  induction h with
  | zero l => simp at hp
  | even l q P _ ih => have := ih hp; omega
  | odd l q P B hB _ _ c1 _ ih =>
    rw [List.length_append, hB] at hp
    by_cases hin : P.length ≤ p
    · have := (c1 ⟨hin, hp⟩).1; omega
    · have := ih (by omega); omega

/-- bit `level` of a position inside the block number `k` (counting blocks of `2^level`). -/
theorem div_of_inBlk {pp a k len : Nat} (h1 : k * a ≤ pp) (h2 : pp < k * a + len) (h3 : len ≤ a) : pp / a = k := by
  apply Nat.div_eq_of_lt_le h1
  rw [Nat.add_mul, Nat.one_mul]; omega

abbrev RFB (leaf : β) (p : Nat) (br : List β) : β := GetMerkleRootFromBranch H2 br leaf p

/-- one merge step of either carry loop, seen from the branch bookkeeping (flage bit 2 set). -/
theorem branchStep_spec {inner : List β} {level k : Nat} {P' B S : List β} {h : β} {matchh : Bool} (st : CState β)
    (hB : B.length = 2 ^ level) (hS : S.length ≤ 2 ^ level) (hSne : S ≠ [])
    (hP'len : P'.length = k * 2 ^ (level + 1))
    (c1 : InBlk p P'.length (2 ^ level) → st.matchlevel = level ∧ st.branch.length = level ∧
        RFB H2 leaf p st.branch = top nil H2 level B)
    (c2 : ¬ InBlk p P'.length (2 ^ level) → st.matchlevel ≠ level)
    (hsub : ForestB nil H2 p leaf inner st.matchlevel st.branch (level + 1) k P')
    (ht : matchh = true → InBlk p (P' ++ B).length S.length ∧ st.branch.length = level ∧ RFB H2 leaf p st.branch = h)
    (hf : matchh = false → ¬ InBlk p (P' ++ B).length S.length) :
    ∃ br mh, branchStep true level (top nil H2 level B) h matchh st = (br, mh) ∧
      ForestB nil H2 p leaf inner st.matchlevel br (level + 1) k P' ∧
      (matchh = true → mh = true) ∧
      (mh = true → InBlk p P'.length (B ++ S).length ∧ br.length = level + 1 ∧
        RFB H2 leaf p br = H2 (top nil H2 level B) h) ∧
      (mh = false → ¬ InBlk p P'.length (B ++ S).length ∧ br = st.branch) := by
  have ha : 0 < 2 ^ level := Nat.two_pow_pos level
  have hpow : 2 ^ (level + 1) = 2 * 2 ^ level := by rw [Nat.pow_succ]; omega
  have hSpos : 0 < S.length := List.length_pos_iff.mpr hSne
  have hPB : (P' ++ B).length = P'.length + 2 ^ level := by rw [List.length_append, hB]
  have hBS : (B ++ S).length = 2 ^ level + S.length := by rw [List.length_append, hB]
  unfold branchStep
  simp only [if_true]
  cases matchh with
  | true =>
    obtain ⟨hin, hbl, hrfb⟩ := ht rfl
    simp only [if_true]
    refine ⟨_, _, rfl, ?_, fun _ => rfl, fun _ => ⟨?_, ?_, ?_⟩, fun h => by simp at h⟩
    · exact forestB_irrel nil H2 hsub (by unfold InBlk at hin; omega) (Or.inl rfl)
    · unfold InBlk at hin ⊢; omega
    · simp [hbl]
    · show GetMerkleRootFromBranch H2 (st.branch ++ [top nil H2 level B]) leaf p = _
      rw [rfb_append, hbl]
      have hdiv : p / 2 ^ level = 2 * k + 1 := by
        unfold InBlk at hin
        apply div_of_inBlk (len := S.length) _ _ hS
        · have : (2 * k + 1) * 2 ^ level = k * 2 ^ (level + 1) + 2 ^ level := by rw [hpow]; grind
          omega
        · have : (2 * k + 1) * 2 ^ level = k * 2 ^ (level + 1) + 2 ^ level := by rw [hpow]; grind
          omega
      have : p / 2 ^ level % 2 = 1 := by omega
      simp only [this, if_true]
      show H2 _ (RFB H2 leaf p st.branch) = _
      rw [hrfb]
  | false =>
    have hnin := hf rfl
    simp only [Bool.false_eq_true, if_false]
    by_cases hml : st.matchlevel = level
    · have hin : InBlk p P'.length (2 ^ level) := by
        by_cases h : InBlk p P'.length (2 ^ level)
        · exact h
        · exact absurd hml (c2 h)
      obtain ⟨_, hbl, hrfb⟩ := c1 hin
      rw [if_pos hml]
      refine ⟨_, _, rfl, ?_, fun h => by simp at h, fun _ => ⟨?_, ?_, ?_⟩, fun h => by simp at h⟩
      · exact forestB_irrel nil H2 hsub (by unfold InBlk at hin; omega) (Or.inl rfl)
      · unfold InBlk at hin ⊢; omega
      · simp [hbl]
      · show GetMerkleRootFromBranch H2 (st.branch ++ [h]) leaf p = _
        rw [rfb_append, hbl]
        have hdiv : p / 2 ^ level = 2 * k := by
          unfold InBlk at hin
          apply div_of_inBlk (len := 2 ^ level) _ _ (Nat.le_refl _)
          · have : 2 * k * 2 ^ level = k * 2 ^ (level + 1) := by rw [hpow]; grind
            omega
          · have : 2 * k * 2 ^ level = k * 2 ^ (level + 1) := by rw [hpow]; grind
            omega
        have : ¬ p / 2 ^ level % 2 = 1 := by omega
        simp only [this, if_false]
        show H2 (RFB H2 leaf p st.branch) _ = _
        rw [hrfb]
    · have hnb : ¬ InBlk p P'.length (2 ^ level) := fun hin => hml (c1 hin).1
      rw [if_neg hml]
      refine ⟨_, _, rfl, hsub, fun h => by simp at h, fun h => by simp at h, fun _ => ⟨?_, rfl⟩⟩
      unfold InBlk at hnb hnin ⊢; omega

/-- `carry_spec` extended with the branch bookkeeping (flage bit 2 set). -/
theorem carry_branch [DecidableEq β] (count : Nat) (hc : count < 2 ^ 32) :
    ∀ (fuel level : Nat) (h : β) (matchh : Bool) (st : CState β) (q : Nat) (P S : List β),
      33 ≤ fuel + level → st.inner.length = 32 →
      ForestB nil H2 p leaf st.inner st.matchlevel st.branch level q P →
      S ≠ [] → S.length ≤ 2 ^ level → h = top nil H2 level S → count = (q + 1) * 2 ^ level →
      (matchh = true → InBlk p P.length S.length ∧ st.branch.length = level ∧ RFB H2 leaf p st.branch = h) →
      (matchh = false → ¬ InBlk p P.length S.length) →
      ∃ level' h' matchh' st' q' P' S',
        carry H2 true count fuel level h matchh st = .ok (level', h', matchh', st') ∧
        st'.inner = st.inner ∧ st'.matchlevel = st.matchlevel ∧ level' < 32 ∧
        ForestB nil H2 p leaf st.inner st.matchlevel st'.branch (level' + 1) q' P' ∧
        S' ≠ [] ∧ S'.length ≤ 2 ^ level' ∧ h' = top nil H2 level' S' ∧
        P ++ S = P' ++ S' ∧ count = (2 * q' + 1) * 2 ^ level' ∧
        (S.length = 2 ^ level → S'.length = 2 ^ level') ∧
        (matchh = true → matchh' = true) ∧
        (matchh' = true → InBlk p P'.length S'.length ∧ st'.branch.length = level' ∧ RFB H2 leaf p st'.branch = h') ∧
        (matchh' = false → ¬ InBlk p P'.length S'.length ∧ st'.branch = st.branch) := by
  intro fuel
  induction fuel with
  | zero =>
    intro level h matchh st q P S hf _ _ _ _ _ hcnt
    have := level_lt_of_count hc hcnt
    omega
  | succ f ih =>
    intro level h matchh st q P S hf hlen hF hne hS hh hcnt ht hfl
    have hl32 := level_lt_of_count hc hcnt
    rw [carry]
    rcases Nat.mod_two_eq_zero_or_one q with hq | hq
    · have htb : count.testBit level = true := by
        rw [hcnt, testBit_shifted]; simp; omega
      simp only [htb, if_true]
      refine ⟨level, h, matchh, st, q / 2, P, S, rfl, rfl, rfl, hl32, ?_, hne, hS, hh, rfl, ?_, fun h => h, fun h => h, ht, fun h => ⟨hfl h, rfl⟩⟩
      · exact forestB_even_inv nil H2 hF (q / 2) (by omega)
      · rw [hcnt]; congr 1; omega
    · have htb : count.testBit level = false := by
        rw [hcnt, testBit_shifted]; simp; omega
      obtain ⟨P', B, hP, hB, hget, hF', c1, c2⟩ := forestB_odd_inv nil H2 hF (q / 2) (by omega)
      simp only [htb, hget]
      have hP'len := forest_length nil H2 (ForestB.toForest nil H2 hF')
      obtain ⟨br, mh, hbs, hFbr, hmt, hbt, hbf⟩ := branchStep_spec nil H2 (h := h) (matchh := matchh) st hB hS hne hP'len c1 c2 hF'
        (by rw [← hP]; exact ht) (by rw [← hP]; exact hfl)
      simp only [hbs, Bool.false_eq_true, if_false]
      have hpow : 2 ^ (level + 1) = 2 * 2 ^ level := by rw [Nat.pow_succ]; omega
      have hne' : B ++ S ≠ [] := by simp [hne]
      have hS' : (B ++ S).length ≤ 2 ^ (level + 1) := by rw [List.length_append]; omega
      have hh' : H2 (top nil H2 level B) h = top nil H2 (level + 1) (B ++ S) := by
        rw [hh, top_merge nil H2 level B S hB hne hS]
      have hcnt' : count = (q / 2 + 1) * 2 ^ (level + 1) := by
        rw [hcnt, hpow, ← Nat.mul_assoc]; congr 1; omega
      obtain ⟨level', h', matchh', st', q', P'', S', hrun, hinner, hml, hl', hF'', hne'', hS'', hh'', happ, hcnt'', hex, hmt', hbt', hbf'⟩ :=
        ih (level + 1) (H2 (top nil H2 level B) h) mh
          { st with branch := br, mutated := st.mutated || decide (top nil H2 level B = h) }
          (q / 2) P' (B ++ S) (by omega) hlen hFbr hne' hS' hh' hcnt' hbt (fun h => (hbf h).1)
      refine ⟨level', h', matchh', st', q', P'', S', hrun, hinner, hml, hl', hF'', hne'', hS'', hh'', ?_, hcnt'', ?_, ?_, hbt', ?_⟩
      · rw [hP, List.append_assoc]; exact happ
      · intro hfull; apply hex; rw [List.length_append]; omega
      · intro hm; exact hmt' (hmt hm)
      · intro hm
        refine ⟨(hbf' hm).1, ?_⟩
        have hmh : mh = false := by
          cases mh with
          | false => rfl
          | true => have := hmt' rfl; rw [hm] at this; cases this
        rw [(hbf' hm).2]; exact (hbf hmh).2

/-- `tailCarry_spec` extended with the branch bookkeeping. -/
theorem tailCarry_branch (count : Nat) :
    ∀ (fuel level : Nat) (h : β) (matchh : Bool) (st : CState β) (q : Nat) (P S : List β),
      34 ≤ fuel + level → level ≤ 32 → P.length < 2 ^ 32 → st.inner.length = 32 →
      ForestB nil H2 p leaf st.inner st.matchlevel st.branch level q P →
      S ≠ [] → S.length ≤ 2 ^ level → h = top nil H2 level S → count = (q + 1) * 2 ^ level →
      (matchh = true → InBlk p P.length S.length ∧ st.branch.length = level ∧ RFB H2 leaf p st.branch = h) →
      (matchh = false → ¬ InBlk p P.length S.length) →
      ∃ level' h' matchh' st' q' P' S',
        tailCarry H2 true count fuel level h matchh st = .ok (level', h', matchh', st') ∧
        st'.inner = st.inner ∧ st'.matchlevel = st.matchlevel ∧ level' ≤ 32 ∧ level ≤ level' ∧
        P'.length ≤ P.length ∧
        ForestB nil H2 p leaf st.inner st.matchlevel st'.branch (level' + 1) q' P' ∧
        S' ≠ [] ∧ S'.length ≤ 2 ^ level' ∧ h' = top nil H2 level' S' ∧
        P ++ S = P' ++ S' ∧ count = (2 * q' + 1) * 2 ^ level' ∧
        ((level' = level ∧ S' = S) ∨ 2 ^ level' < 2 * S'.length) ∧
        (matchh = true → matchh' = true) ∧
        (matchh' = true → InBlk p P'.length S'.length ∧ st'.branch.length = level' ∧ RFB H2 leaf p st'.branch = h') ∧
        (matchh' = false → ¬ InBlk p P'.length S'.length) := by
  intro fuel
  induction fuel with
  | zero => intro level h matchh st q P S hf hl; omega
  | succ f ih =>
    intro level h matchh st q P S hf hl32 hPlen hlen hF hne hS hh hcnt ht hfl
    rw [tailCarry]
    rcases Nat.mod_two_eq_zero_or_one q with hq | hq
    · have htb : count.testBit level = true := by
        rw [hcnt, testBit_shifted]; simp; omega
      simp only [htb, if_true]
      refine ⟨level, h, matchh, st, q / 2, P, S, rfl, rfl, rfl, hl32, Nat.le_refl _, Nat.le_refl _, ?_, hne, hS, hh, rfl, ?_,
        Or.inl ⟨rfl, rfl⟩, fun h => h, ht, hfl⟩
      · exact forestB_even_inv nil H2 hF (q / 2) (by omega)
      · rw [hcnt]; congr 1; omega
    · have htb : count.testBit level = false := by
        rw [hcnt, testBit_shifted]; simp; omega
      have hlt := level_lt_of_forest nil H2 (ForestB.toForest nil H2 hF) (by omega) hPlen
      obtain ⟨P', B, hP, hB, hget, hF', c1, c2⟩ := forestB_odd_inv nil H2 hF (q / 2) (by omega)
      simp only [htb, hget]
      have hP'len := forest_length nil H2 (ForestB.toForest nil H2 hF')
      obtain ⟨br, mh, hbs, hFbr, hmt, hbt, hbf⟩ := branchStep_spec nil H2 (h := h) (matchh := matchh) st hB hS hne hP'len c1 c2 hF'
        (by rw [← hP]; exact ht) (by rw [← hP]; exact hfl)
      simp only [hbs, Bool.false_eq_true, if_false]
      have hpow : 2 ^ (level + 1) = 2 * 2 ^ level := by rw [Nat.pow_succ]; omega
      have hne' : B ++ S ≠ [] := by simp [hne]
      have hS' : (B ++ S).length ≤ 2 ^ (level + 1) := by rw [List.length_append]; omega
      have hh' : H2 (top nil H2 level B) h = top nil H2 (level + 1) (B ++ S) := by
        rw [hh, top_merge nil H2 level B S hB hne hS]
      have hcnt' : count = (q / 2 + 1) * 2 ^ (level + 1) := by
        rw [hcnt, hpow, ← Nat.mul_assoc]; congr 1; omega
      have hP'le : P'.length ≤ P.length := by rw [hP, List.length_append]; omega
      obtain ⟨level', h', matchh', st', q', P'', S', hrun, hinner, hml, hl', hle, hPl, hF'', hne'', hS'', hh'', happ, hcnt'', hdisj, hmt', hbt', hbf'⟩ :=
        ih (level + 1) (H2 (top nil H2 level B) h) mh { st with branch := br }
          (q / 2) P' (B ++ S) (by omega) (by omega) (by omega) hlen hFbr hne' hS' hh' hcnt' hbt (fun h => (hbf h).1)
      refine ⟨level', h', matchh', st', q', P'', S', hrun, hinner, hml, hl', by omega, by omega, hF'', hne'', hS'', hh'', ?_, hcnt'', Or.inr ?_, ?_, hbt', hbf'⟩
      · rw [hP, List.append_assoc]; exact happ
      · rcases hdisj with ⟨hl, hs⟩ | hbig
        · rw [hl, hs, List.length_append, hpow]
          have : 0 < S.length := List.length_pos_iff.mpr hne
          omega
        · exact hbig
      · intro hm; exact hmt' (hmt hm)

/-- the tail loop returns the root, and the recorded branch of a position among the leaves hashes to it. -/
theorem tailLoop_branch :
    ∀ (fuel count level : Nat) (h : β) (matchh : Bool) (st : CState β) (q : Nat) (P S : List β),
      34 ≤ fuel + level → level ≤ 32 → P.length < 2 ^ 32 → st.inner.length = 32 →
      ForestB nil H2 p leaf st.inner st.matchlevel st.branch (level + 1) q P →
      S ≠ [] → S.length ≤ 2 ^ level → h = top nil H2 level S → count = (2 * q + 1) * 2 ^ level →
      (q = 0 → 2 ^ level < 2 * S.length) →
      (matchh = true → InBlk p P.length S.length ∧ st.branch.length = level ∧ RFB H2 leaf p st.branch = h) →
      (matchh = false → ¬ InBlk p P.length S.length) →
      ∃ st', tailLoop H2 true fuel count level h matchh st = .ok (getMerkleRoot nil H2 (P ++ S), st') ∧
        (p < (P ++ S).length → RFB H2 leaf p st'.branch = getMerkleRoot nil H2 (P ++ S)) := by
  intro fuel
  induction fuel with
  | zero => intro count level h matchh st q P S hf hl; omega
  | succ f ih =>
    intro count level h matchh st q P S hf hl32 hPlen hlen hF hne hS hh hcnt hq0 ht hfl
    rw [tailLoop]
    have hpos : 0 < 2 ^ level := Nat.two_pow_pos level
    by_cases hq : q = 0
    · subst hq
      have hP : P = [] := forest_zero_nil nil H2 (ForestB.toForest nil H2 hF) rfl
      have : count = 2 ^ level := by rw [hcnt]; omega
      simp only [this, if_true]
      subst hP
      have hroot : getMerkleRoot nil H2 ([] ++ S) = h := by
        rw [List.nil_append, root_eq_top nil H2 level S hne hS (hq0 rfl), hh]
      refine ⟨st, by rw [hroot], ?_⟩
      intro hp
      cases matchh with
      | true => rw [hroot]; exact (ht rfl).2.2
      | false => exfalso; apply hfl rfl; unfold InBlk; simp at hp ⊢; exact hp
    · have hne2 : ¬ count = 2 ^ level := by
        rw [hcnt]
        have : 3 * 2 ^ level ≤ (2 * q + 1) * 2 ^ level := Nat.mul_le_mul_right _ (by omega)
        omega
      simp only [hne2, if_false, Bool.true_and]
      have hlt := level_lt_of_forest nil H2 (ForestB.toForest nil H2 hF) (by omega) hPlen
      have hpow : 2 ^ (level + 1) = 2 * 2 ^ level := by rw [Nat.pow_succ]; omega
      have hcnt1 : count + 2 ^ level = (q + 1) * 2 ^ (level + 1) := by
        rw [hcnt, hpow]; grind
      have hh1 : H2 h h = top nil H2 (level + 1) S := by rw [hh, top_pad nil H2 level S hne hS]
      -- the state after the optional `branch = append(branch, h)`
      have hst1 : ∃ st1 : CState β, (if matchh = true then { st with branch := st.branch ++ [h] } else st) = st1 ∧
          st1.inner = st.inner ∧ st1.matchlevel = st.matchlevel ∧
          ForestB nil H2 p leaf st.inner st.matchlevel st1.branch (level + 1) q P ∧
          (matchh = true → st1.branch.length = level + 1 ∧ RFB H2 leaf p st1.branch = H2 h h) := by
        cases matchh with
        | true =>
          obtain ⟨hin, hbl, hrfb⟩ := ht rfl
          refine ⟨_, rfl, rfl, rfl, ?_, fun _ => ⟨by simp [hbl], ?_⟩⟩
          · exact forestB_irrel nil H2 hF (by unfold InBlk at hin; omega) (Or.inl rfl)
          · show GetMerkleRootFromBranch H2 (st.branch ++ [h]) leaf p = _
            rw [rfb_append]
            show (if _ then H2 h (RFB H2 leaf p st.branch) else H2 (RFB H2 leaf p st.branch) h) = _
            rw [hrfb]; split <;> rfl
        | false => exact ⟨st, by simp, rfl, rfl, hF, fun h => by simp at h⟩
      obtain ⟨st1, hst1eq, hinner1, hml1, hF1, hb1⟩ := hst1
      rw [hst1eq]
      obtain ⟨level2, h2, matchh2, st2, q2, P2, S2, hrun, hinner2, hml2, hl2, hle2, hPl2, hF2, hne2', hS2, hh2, happ2, hcnt2, hdisj, _, hbt2, hbf2⟩ :=
        tailCarry_branch nil H2 (p := p) (leaf := leaf) (count + 2 ^ level) 34 (level + 1) (H2 h h) matchh st1 q P S
          (by omega) (by omega) hPlen (by rw [hinner1]; exact hlen)
          (by rw [hinner1, hml1]; exact hF1) hne (by omega) hh1 hcnt1
          (fun hm => ⟨(ht hm).1, hb1 hm⟩) hfl
      simp only [hrun]
      obtain ⟨st', hfin, hbr⟩ := ih (count + 2 ^ level) level2 h2 matchh2 st2 q2 P2 S2 (by omega) hl2 (by omega)
        (by rw [hinner2, hinner1]; exact hlen)
        (by rw [hinner2, hml2, hinner1, hml1]; rw [hinner1, hml1] at hF2; exact hF2)
        hne2' hS2 hh2 hcnt2
        (by
          intro hq2
          rcases hdisj with ⟨hl, hs⟩ | hbig
          · exfalso
            rw [hcnt1, hl, hq2] at hcnt2
            have := Nat.eq_of_mul_eq_mul_right (Nat.two_pow_pos (level + 1)) hcnt2
            omega
          · exact hbig)
        hbt2 hbf2
      rw [happ2]
      exact ⟨st', hfin, hbr⟩

theorem lowBit_specB {inner : List β} {ml : Nat} {br : List β} (count : Nat) :
    ∀ (fuel level q : Nat) (P : List β), ForestB nil H2 p leaf inner ml br level q P → 0 < q → q < 2 ^ fuel →
      count = q * 2 ^ level →
      ∃ q' P' B, ForestB nil H2 p leaf inner ml br (lowBit count fuel level + 1) q' P' ∧ P = P' ++ B ∧
        B.length = 2 ^ lowBit count fuel level ∧
        inner[lowBit count fuel level]? = some (top nil H2 (lowBit count fuel level) B) ∧
        count = (2 * q' + 1) * 2 ^ lowBit count fuel level ∧
        (InBlk p P'.length (2 ^ lowBit count fuel level) → ml = lowBit count fuel level ∧
          br.length = lowBit count fuel level ∧
          RFB H2 leaf p br = top nil H2 (lowBit count fuel level) B) ∧
        (¬ InBlk p P'.length (2 ^ lowBit count fuel level) → ml ≠ lowBit count fuel level) := by
  intro fuel
  induction fuel with
  | zero => intro level q P _ h0 h1; simp at h1; omega
  | succ f ih =>
    intro level q P hF hq hlt hcnt
    rw [lowBit]
    rcases Nat.mod_two_eq_zero_or_one q with hq2 | hq2
    · have htb : count.testBit level = false := by
        rw [hcnt, testBit_shifted]; simp; omega
      simp only [htb, Bool.false_eq_true, if_false]
      have hpow : 2 ^ (level + 1) = 2 * 2 ^ level := by rw [Nat.pow_succ]; omega
      have hpf : 2 ^ (f + 1) = 2 * 2 ^ f := by rw [Nat.pow_succ]; omega
      apply ih (level + 1) (q / 2) P (forestB_even_inv nil H2 hF (q / 2) (by omega)) (by omega) (by omega)
      rw [hcnt, hpow, ← Nat.mul_assoc]; congr 1; omega
    · have htb : count.testBit level = true := by
        rw [hcnt, testBit_shifted]; simp; omega
      simp only [htb, if_true]
      obtain ⟨P', B, hP, hB, hget, hF', c1, c2⟩ := forestB_odd_inv nil H2 hF (q / 2) (by omega)
      exact ⟨q / 2, P', B, hF', hP, hB, hget, by rw [hcnt]; congr 1; omega, c1, c2⟩

/-- the main loop keeps the decomposition together with the branch bookkeeping. -/
theorem fold_branch [DecidableEq β] :
    ∀ (rest P : List β) (st : CState β), (P ++ rest).length < 2 ^ 32 → (P ++ rest)[p]? = some leaf →
      st.inner.length = 32 →
      ForestB nil H2 p leaf st.inner st.matchlevel st.branch 0 P.length P →
      (P.length ≤ p → st.matchlevel = 0xff ∧ st.branch = []) →
      ∃ st', rest.foldl (leafStep H2 true p) (.ok (P.length, st)) = .ok ((P ++ rest).length, st') ∧
        st'.inner.length = 32 ∧
        ForestB nil H2 p leaf st'.inner st'.matchlevel st'.branch 0 (P ++ rest).length (P ++ rest) := by
  intro rest
  induction rest with
  | nil => intro P st _ _ hlen hF _; exact ⟨st, by simp, hlen, by simpa using hF⟩
  | cons x r ih =>
    intro P st hbound hleaf hlen hF hunseen
    simp only [List.foldl_cons]
    have hc : P.length + 1 < 2 ^ 32 := by simp only [List.length_append, List.length_cons] at hbound; omega
    have hmod : P.length % 2 ^ 32 = P.length := Nat.mod_eq_of_lt (by omega)
    have hmatch : (decide (P.length % 2 ^ 32 = p) && true) = decide (P.length = p) := by rw [hmod]; simp
    obtain ⟨level', h', matchh', st', q', P', S', hrun, hinner, hml, hl', hF', hne', hS', hh', happ, hcnt', hex, _, hbt, hbf⟩ :=
      carry_branch nil H2 (p := p) (leaf := leaf) (P.length + 1) hc 33 0 x (decide (P.length = p)) st
        P.length P [x] (by omega) hlen hF (by simp) (by simp) (top_zero nil H2 x).symm (by simp)
        (by
          intro hm
          have hpe : P.length = p := by simpa using hm
          have hx : x = leaf := by
            rw [List.getElem?_append_right (by omega)] at hleaf
            simpa [hpe] using hleaf
          obtain ⟨_, hb⟩ := hunseen (by omega)
          refine ⟨by unfold InBlk; simp; omega, by simp [hb], ?_⟩
          simp [RFB, hb, GetMerkleRootFromBranch, hx])
        (by
          intro hm
          have hpe : ¬ P.length = p := by simpa using hm
          unfold InBlk; simp; omega)
    have hstep : leafStep H2 true p (.ok (P.length, st)) x =
        .ok (P.length + 1, { st' with inner := st'.inner.set level' h',
                                      matchlevel := if matchh' then level' else st'.matchlevel }) := by
      simp only [leafStep, hmatch, hrun]
      rw [hinner, hlen]
      simp [hl']
    rw [hstep]
    have hSlen : S'.length = 2 ^ level' := hex (by simp)
    have hPS : P'.length + 2 ^ level' = P.length + 1 := by
      have := congrArg List.length happ
      simp only [List.length_append, List.length_cons, List.length_nil] at this
      omega
    have hF2 : ForestB nil H2 p leaf (st'.inner.set level' h') (if matchh' then level' else st'.matchlevel) st'.branch
        0 (P ++ [x]).length (P ++ [x]) := by
      have hodd : ForestB nil H2 p leaf (st'.inner.set level' h') (if matchh' then level' else st'.matchlevel) st'.branch
          level' (2 * q' + 1) (P' ++ S') := by
        apply ForestB.odd _ _ _ _ hSlen
        · rw [List.getElem?_set_self (by rw [hinner, hlen]; exact hl'), hh']
        · apply forestB_frame nil H2 (inner := st.inner) _ (by
            intro j hj
            rw [hinner, List.getElem?_set_ne (by omega)])
          cases matchh' with
          | true =>
            have hin := (hbt rfl).1
            exact forestB_irrel nil H2 hF' (by unfold InBlk at hin; omega) (Or.inr (by simp))
          | false => simpa [hml] using hF'
        · intro hin
          cases matchh' with
          | true =>
            obtain ⟨_, hbl, hrfb⟩ := hbt rfl
            exact ⟨by simp, hbl, by rw [← hh']; exact hrfb⟩
          | false =>
            exfalso; apply (hbf rfl).1; rw [hSlen]; exact hin
        · intro hnin
          cases matchh' with
          | true => exfalso; apply hnin; have := (hbt rfl).1; rw [hSlen] at this; exact this
          | false =>
            simp only [Bool.false_eq_true, if_false, hml]
            by_cases hlt : p < P'.length
            · have := forestB_ml_ge nil H2 hF' hlt; omega
            · have : P.length ≤ p := by unfold InBlk at hnin; omega
              rw [(hunseen this).1]; omega
      have := forestB_lift nil H2 level' hodd
      rw [← hcnt', ← happ] at this
      simpa using this
    have hlen2 : (st'.inner.set level' h').length = 32 := by rw [List.length_set, hinner, hlen]
    have := ih (P ++ [x]) { st' with inner := st'.inner.set level' h',
                                     matchlevel := if matchh' then level' else st'.matchlevel }
      (by simpa using hbound) (by simpa using hleaf) hlen2 hF2
      (by
        intro hle
        simp only [List.length_append, List.length_cons, List.length_nil] at hle
        have hm : matchh' = false := by
          cases matchh' with
          | false => rfl
          | true => have := (hbt rfl).1; unfold InBlk at this; omega
        subst hm
        have := hunseen (by omega)
        simp only [Bool.false_eq_true, if_false, hml, (hbf rfl).2]
        exact this)
    simpa using this

end C18
