import Chain33Model.Model.C18
import Chain33Model.Proofs.C18
/-!
C18 helper lemmas for `Computation`: the padded-subtree value `top`, the block decomposition
invariant `Forest` of the streaming loop, and the specifications of its loops (root part).
-/
namespace C18

variable {β : Type} (nil : β) (H2 : β → β → β)

/-- value of a non-empty list of at most `2^k` elements seen as a (right-padded) subtree of height `k`. -/
def top (k : Nat) (c : List β) : β := iterSelf H2 (k - lv c.length) (getMerkleRoot nil H2 c)

theorem iterPair_top (k : Nat) (c : List β) (hne : c ≠ []) (hl : c.length ≤ 2 ^ k) :
    iterPair H2 k c = [top nil H2 k c] := iterPair_chunk nil H2 k c hne hl

theorem iterPair_succ' (k : Nat) : ∀ xs : List β, iterPair H2 (k + 1) xs = pairUp H2 (iterPair H2 k xs) := by
  induction k with
  | zero => intro xs; rfl
  | succ k ih => intro xs; rw [iterPair, ih (pairUp H2 xs)]; rfl

theorem top_zero (a : β) : top nil H2 0 [a] = a := by
  simp [top, iterSelf, root_single]

theorem top_pad (k : Nat) (c : List β) (hne : c ≠ []) (hl : c.length ≤ 2 ^ k) :
    top nil H2 (k + 1) c = H2 (top nil H2 k c) (top nil H2 k c) := by
  have h1 := iterPair_top nil H2 (k + 1) c hne (by rw [Nat.pow_succ]; omega)
  rw [iterPair_succ', iterPair_top nil H2 k c hne hl] at h1
  simpa [pairUp] using h1.symm

theorem top_merge (k : Nat) (a b : List β) (ha : a.length = 2 ^ k) (hne : b ≠ []) (hl : b.length ≤ 2 ^ k) :
    top nil H2 (k + 1) (a ++ b) = H2 (top nil H2 k a) (top nil H2 k b) := by
  have hpos : 0 < 2 ^ k := Nat.two_pow_pos k
  have hane : a ≠ [] := by intro h; rw [h] at ha; simp at ha; omega
  have h1 := iterPair_top nil H2 (k + 1) (a ++ b) (by simp [hane])
    (by rw [List.length_append, Nat.pow_succ]; omega)
  rw [iterPair_succ', iterPair_append H2 k a b (by rw [ha]; exact Nat.mod_self _),
    iterPair_top nil H2 k a hane (by omega), iterPair_top nil H2 k b hne hl] at h1
  simpa [pairUp] using h1.symm

/-- the root survives `k` rounds as soon as more than `2^(k-1)` elements are present. -/
theorem root_iterPair' (k : Nat) : ∀ xs : List β, 2 ^ k < 2 * xs.length →
    getMerkleRoot nil H2 xs = getMerkleRoot nil H2 (iterPair H2 k xs) := by
  induction k with
  | zero => intro xs _; rfl
  | succ k ih =>
    intro xs h
    have hp : 2 ^ (k + 1) = 2 * 2 ^ k := by rw [Nat.pow_succ]; omega
    have h1 : 1 ≤ 2 ^ k := Nat.one_le_two_pow
    simp only [iterPair]
    rw [root_pairUp nil H2 xs (by omega)]
    apply ih
    rw [length_pairUp]
    cases k with
    | zero => simp at *; omega
    | succ j =>
      have : 2 ^ (j + 1) = 2 * 2 ^ j := by rw [Nat.pow_succ]; omega
      omega

theorem root_eq_top (k : Nat) (c : List β) (hne : c ≠ []) (hl : c.length ≤ 2 ^ k) (hlo : 2 ^ k < 2 * c.length) :
    getMerkleRoot nil H2 c = top nil H2 k c := by
  rw [root_iterPair' nil H2 k c hlo, iterPair_top nil H2 k c hne hl, root_single]

/-- Block decomposition of the leaves consumed so far, read from level `l` upwards:
`Forest inner l q P` — `P` has `q·2^l` elements; for every set bit `j` of `q` the block of
`2^(l+j)` elements at the corresponding place has its subtree value stored in `inner[l+j]`. -/
inductive Forest (inner : List β) : Nat → Nat → List β → Prop
  | zero (l : Nat) : Forest inner l 0 []
  | even (l q : Nat) (P : List β) : Forest inner (l + 1) q P → Forest inner l (2 * q) P
  | odd (l q : Nat) (P B : List β) : B.length = 2 ^ l → inner[l]? = some (top nil H2 l B) →
      Forest inner (l + 1) q P → Forest inner l (2 * q + 1) (P ++ B)

theorem forest_zero_nil {inner : List β} {l n : Nat} {P : List β} (h : Forest nil H2 inner l n P) (hn : n = 0) :
    P = [] := by
  induction h with
  | zero l => rfl
  | even l q P _ ih => exact ih (by omega)
  | odd l q P B _ _ _ _ => omega

theorem forest_even_inv {inner : List β} {l n : Nat} {P : List β} (h : Forest nil H2 inner l n P) (q : Nat)
    (hn : n = 2 * q) : Forest nil H2 inner (l + 1) q P := by
  cases h with
  | zero l => have : q = 0 := by omega
              subst this; exact Forest.zero _
  | even l q' P h' => have : q = q' := by omega
                      subst this; exact h'
  | odd l q' P B _ _ _ => omega

theorem forest_odd_inv {inner : List β} {l n : Nat} {P : List β} (h : Forest nil H2 inner l n P) (q : Nat)
    (hn : n = 2 * q + 1) : ∃ P' B, P = P' ++ B ∧ B.length = 2 ^ l ∧ inner[l]? = some (top nil H2 l B) ∧
      Forest nil H2 inner (l + 1) q P' := by
  cases h with
  | zero l => omega
  | even l q' P h' => omega
  | odd l q' P' B hB hi h' =>
    have : q = q' := by omega
    subst this; exact ⟨P', B, rfl, hB, hi, h'⟩

theorem forest_frame {inner inner' : List β} {l n : Nat} {P : List β} (h : Forest nil H2 inner l n P)
    (hf : ∀ j, l ≤ j → inner'[j]? = inner[j]?) : Forest nil H2 inner' l n P := by
  induction h with
  | zero l => exact Forest.zero _
  | even l q P _ ih => exact Forest.even _ _ _ (ih (fun j hj => hf j (by omega)))
  | odd l q P B hB hi _ ih =>
    exact Forest.odd _ _ _ _ hB (by rw [hf l (Nat.le_refl _)]; exact hi) (ih (fun j hj => hf j (by omega)))

/-- a forest read from level `l` can be read from level 0 (the low `l` bits of the count are 0). -/
theorem forest_lift {inner : List β} {n : Nat} {P : List β} : ∀ (l : Nat), Forest nil H2 inner l n P →
    Forest nil H2 inner 0 (n * 2 ^ l) P
  | 0, h => by simpa using h
  | l + 1, h => by
    have := forest_lift l (Forest.even l n P h)
    have e : 2 * n * 2 ^ l = n * 2 ^ (l + 1) := by rw [Nat.pow_succ]; rw [Nat.mul_comm 2 n, Nat.mul_assoc, Nat.mul_comm 2]
    rw [e] at this; exact this

theorem testBit_shifted (q l : Nat) : (q * 2 ^ l).testBit l = decide (q % 2 = 1) := by
  rw [Nat.testBit_eq_decide_div_mod_eq, Nat.mul_div_cancel _ (Nat.two_pow_pos l)]

theorem level_lt_of_count {count q level : Nat} (hc : count < 2 ^ 32) (h : count = (q + 1) * 2 ^ level) :
    level < 32 := by
  by_cases hl : level < 32
  · exact hl
  · have : 2 ^ 32 ≤ 2 ^ level := Nat.pow_le_pow_right (by decide) (by omega)
    have : 2 ^ level ≤ (q + 1) * 2 ^ level := Nat.le_mul_of_pos_left _ (by omega)
    omega

/-- specification of the carry loop of the main loop (root-relevant part). -/
theorem carry_spec [DecidableEq β] (flag2 : Bool) (count : Nat) (hc : count < 2 ^ 32) :
    ∀ (fuel level : Nat) (h : β) (matchh : Bool) (st : CState β) (q : Nat) (P S : List β),
      33 ≤ fuel + level → st.inner.length = 32 → Forest nil H2 st.inner level q P →
      S ≠ [] → S.length ≤ 2 ^ level → h = top nil H2 level S → count = (q + 1) * 2 ^ level →
      ∃ level' h' matchh' st' q' P' S',
        carry H2 flag2 count fuel level h matchh st = .ok (level', h', matchh', st') ∧
        st'.inner = st.inner ∧ level' < 32 ∧ level ≤ level' ∧
        Forest nil H2 st.inner (level' + 1) q' P' ∧
        S' ≠ [] ∧ S'.length ≤ 2 ^ level' ∧ h' = top nil H2 level' S' ∧
        P ++ S = P' ++ S' ∧ count = (2 * q' + 1) * 2 ^ level' ∧
        (S.length = 2 ^ level → S'.length = 2 ^ level') ∧
        ((level' = level ∧ S' = S) ∨ 2 ^ level' < 2 * S'.length) := by
  intro fuel
  induction fuel with
  | zero =>
    intro level h matchh st q P S hf _ _ _ _ _ hcnt
    have := level_lt_of_count hc hcnt
    omega
  | succ f ih =>
    intro level h matchh st q P S hf hlen hF hne hS hh hcnt
    have hl32 := level_lt_of_count hc hcnt
    rw [carry]
    rcases Nat.mod_two_eq_zero_or_one q with hq | hq
    · -- bit set: stop
      have htb : count.testBit level = true := by
        rw [hcnt, testBit_shifted]; simp; omega
      simp only [htb, if_true]
      refine ⟨level, h, matchh, st, q / 2, P, S, rfl, rfl, hl32, Nat.le_refl _, ?_, hne, hS, hh, rfl, ?_, fun h => h, Or.inl ⟨rfl, rfl⟩⟩
      · exact forest_even_inv nil H2 hF (q / 2) (by omega)
      · rw [hcnt]; congr 1; omega
    · have htb : count.testBit level = false := by
        rw [hcnt, testBit_shifted]; simp; omega
      obtain ⟨P', B, hP, hB, hget, hF'⟩ := forest_odd_inv nil H2 hF (q / 2) (by omega)
      simp only [htb, hget]
      generalize branchStep flag2 level (top nil H2 level B) h matchh st = bs
      obtain ⟨br, mh⟩ := bs
      simp only [Bool.false_eq_true, if_false]
      have hpow : 2 ^ (level + 1) = 2 * 2 ^ level := by rw [Nat.pow_succ]; omega
      have hne' : B ++ S ≠ [] := by simp [hne]
      have hS' : (B ++ S).length ≤ 2 ^ (level + 1) := by rw [List.length_append]; omega
      have hh' : H2 (top nil H2 level B) h = top nil H2 (level + 1) (B ++ S) := by
        rw [hh, top_merge nil H2 level B S hB hne hS]
      have hcnt' : count = (q / 2 + 1) * 2 ^ (level + 1) := by
        rw [hcnt, hpow, ← Nat.mul_assoc]; congr 1; omega
      obtain ⟨level', h', matchh', st', q', P'', S', hrun, hinner, hl', hle, hF'', hne'', hS'', hh'', happ, hcnt'', hex, hdisj⟩ :=
        ih (level + 1) (H2 (top nil H2 level B) h) mh
          { st with branch := br, mutated := st.mutated || decide (top nil H2 level B = h) }
          (q / 2) P' (B ++ S) (by omega) hlen hF' hne' hS' hh' hcnt'
      refine ⟨level', h', matchh', st', q', P'', S', hrun, hinner, hl', by omega, hF'', hne'', hS'', hh'', ?_, hcnt'', ?_, Or.inr ?_⟩
      · rw [hP, List.append_assoc]; exact happ
      · intro hfull; apply hex; rw [List.length_append]; omega
      · rcases hdisj with ⟨hl, hs⟩ | hbig
        · rw [hl, hs, List.length_append, hpow]
          have : 0 < S.length := List.length_pos_iff.mpr hne
          omega
        · exact hbig

theorem forest_length {inner : List β} {l n : Nat} {P : List β} (h : Forest nil H2 inner l n P) :
    P.length = n * 2 ^ l := by
  induction h with
  | zero l => simp
  | even l q P _ ih => rw [ih, Nat.pow_succ]; rw [Nat.mul_comm 2 q, Nat.mul_assoc, Nat.mul_comm 2]
  | odd l q P B hB _ _ ih =>
    rw [List.length_append, ih, hB, Nat.pow_succ, Nat.add_mul, Nat.one_mul]
    rw [Nat.mul_comm 2 q, Nat.mul_assoc, Nat.mul_comm 2]

theorem level_lt_of_forest {inner : List β} {l q : Nat} {P : List β} (h : Forest nil H2 inner l q P)
    (hq : 0 < q) (hP : P.length < 2 ^ 32) : l < 32 := by
  have hlen := forest_length nil H2 h
  by_cases hl : l < 32
  · exact hl
  · have : 2 ^ 32 ≤ 2 ^ l := Nat.pow_le_pow_right (by decide) (by omega)
    have : 2 ^ l ≤ q * 2 ^ l := Nat.le_mul_of_pos_left _ hq
    omega

/-- specification of the carry loop of the tail (same as `carry_spec`; the level bound comes from
the elements still to the left instead of from the count). -/
theorem tailCarry_spec (flag2 : Bool) (count : Nat) :
    ∀ (fuel level : Nat) (h : β) (matchh : Bool) (st : CState β) (q : Nat) (P S : List β),
      34 ≤ fuel + level → level ≤ 32 → P.length < 2 ^ 32 →
      st.inner.length = 32 → Forest nil H2 st.inner level q P →
      S ≠ [] → S.length ≤ 2 ^ level → h = top nil H2 level S → count = (q + 1) * 2 ^ level →
      ∃ level' h' matchh' st' q' P' S',
        tailCarry H2 flag2 count fuel level h matchh st = .ok (level', h', matchh', st') ∧
        st'.inner = st.inner ∧ level' ≤ 32 ∧ level ≤ level' ∧ P'.length ≤ P.length ∧
        Forest nil H2 st.inner (level' + 1) q' P' ∧
        S' ≠ [] ∧ S'.length ≤ 2 ^ level' ∧ h' = top nil H2 level' S' ∧
        P ++ S = P' ++ S' ∧ count = (2 * q' + 1) * 2 ^ level' ∧
        ((level' = level ∧ S' = S) ∨ 2 ^ level' < 2 * S'.length) := by
  intro fuel
  induction fuel with
  | zero => intro level h matchh st q P S hf hl; omega
  | succ f ih =>
    intro level h matchh st q P S hf hl32 hPlen hlen hF hne hS hh hcnt
    rw [tailCarry]
    rcases Nat.mod_two_eq_zero_or_one q with hq | hq
    · have htb : count.testBit level = true := by
        rw [hcnt, testBit_shifted]; simp; omega
      simp only [htb, if_true]
      refine ⟨level, h, matchh, st, q / 2, P, S, rfl, rfl, hl32, Nat.le_refl _, Nat.le_refl _, ?_, hne, hS, hh, rfl, ?_, Or.inl ⟨rfl, rfl⟩⟩
      · exact forest_even_inv nil H2 hF (q / 2) (by omega)
      · rw [hcnt]; congr 1; omega
    · have htb : count.testBit level = false := by
        rw [hcnt, testBit_shifted]; simp; omega
      have hlt := level_lt_of_forest nil H2 hF (by omega) hPlen
      obtain ⟨P', B, hP, hB, hget, hF'⟩ := forest_odd_inv nil H2 hF (q / 2) (by omega)
      simp only [htb, hget]
      generalize branchStep flag2 level (top nil H2 level B) h matchh st = bs
      obtain ⟨br, mh⟩ := bs
      simp only [Bool.false_eq_true, if_false]
      have hpow : 2 ^ (level + 1) = 2 * 2 ^ level := by rw [Nat.pow_succ]; omega
      have hne' : B ++ S ≠ [] := by simp [hne]
      have hS' : (B ++ S).length ≤ 2 ^ (level + 1) := by rw [List.length_append]; omega
      have hh' : H2 (top nil H2 level B) h = top nil H2 (level + 1) (B ++ S) := by
        rw [hh, top_merge nil H2 level B S hB hne hS]
      have hcnt' : count = (q / 2 + 1) * 2 ^ (level + 1) := by
        rw [hcnt, hpow, ← Nat.mul_assoc]; congr 1; omega
      have hP'len : P'.length ≤ P.length := by rw [hP, List.length_append]; omega
      obtain ⟨level', h', matchh', st', q', P'', S', hrun, hinner, hl', hle, hPl, hF'', hne'', hS'', hh'', happ, hcnt'', hdisj⟩ :=
        ih (level + 1) (H2 (top nil H2 level B) h) mh { st with branch := br }
          (q / 2) P' (B ++ S) (by omega) (by omega) (by omega) hlen hF' hne' hS' hh' hcnt'
      refine ⟨level', h', matchh', st', q', P'', S', hrun, hinner, hl', by omega, by omega, hF'', hne'', hS'', hh'', ?_, hcnt'', Or.inr ?_⟩
      · rw [hP, List.append_assoc]; exact happ
      · rcases hdisj with ⟨hl, hs⟩ | hbig
        · rw [hl, hs, List.length_append, hpow]
          have : 0 < S.length := List.length_pos_iff.mpr hne
          omega
        · exact hbig

theorem tailCarry_mutated (flag2 : Bool) (count : Nat) :
    ∀ (fuel level : Nat) (h : β) (matchh : Bool) (st : CState β) (r : Nat × β × Bool × CState β),
      tailCarry H2 flag2 count fuel level h matchh st = .ok r → r.2.2.2.mutated = st.mutated := by
  intro fuel
  induction fuel with
  | zero => intro level h matchh st r hr; simp [tailCarry] at hr
  | succ f ih =>
    intro level h matchh st r hr
    rw [tailCarry] at hr
    split at hr
    · cases hr; rfl
    · split at hr
      · cases hr
      · next x _ =>
        generalize branchStep flag2 level x h matchh st = bs at hr
        obtain ⟨br, mh⟩ := bs
        exact ih _ _ _ { st with branch := br } _ hr

/-- the tail loop returns the sequential root of all leaves. -/
theorem tailLoop_spec (flag2 : Bool) :
    ∀ (fuel count level : Nat) (h : β) (matchh : Bool) (st : CState β) (q : Nat) (P S : List β),
      34 ≤ fuel + level → level ≤ 32 → P.length < 2 ^ 32 →
      st.inner.length = 32 → Forest nil H2 st.inner (level + 1) q P →
      S ≠ [] → S.length ≤ 2 ^ level → h = top nil H2 level S → count = (2 * q + 1) * 2 ^ level →
      (q = 0 → 2 ^ level < 2 * S.length) →
      ∃ st', tailLoop H2 flag2 fuel count level h matchh st = .ok (getMerkleRoot nil H2 (P ++ S), st') ∧
        st'.mutated = st.mutated := by
  intro fuel
  induction fuel with
  | zero => intro count level h matchh st q P S hf hl; omega
  | succ f ih =>
    intro count level h matchh st q P S hf hl32 hPlen hlen hF hne hS hh hcnt hq0
    rw [tailLoop]
    have hpos : 0 < 2 ^ level := Nat.two_pow_pos level
    by_cases hq : q = 0
    · subst hq
      have hP : P = [] := forest_zero_nil nil H2 hF rfl
      have : count = 2 ^ level := by rw [hcnt]; omega
      simp only [this, if_true]
      refine ⟨st, ?_, rfl⟩
      rw [hP, List.nil_append, root_eq_top nil H2 level S hne hS (hq0 rfl), hh]
    · have hne2 : ¬ count = 2 ^ level := by
        rw [hcnt]
        have : 3 * 2 ^ level ≤ (2 * q + 1) * 2 ^ level := Nat.mul_le_mul_right _ (by omega)
        omega
      simp only [hne2, if_false]
      have hlt := level_lt_of_forest nil H2 hF (by omega) hPlen
      have hpow : 2 ^ (level + 1) = 2 * 2 ^ level := by rw [Nat.pow_succ]; omega
      have hcnt1 : count + 2 ^ level = (q + 1) * 2 ^ (level + 1) := by
        rw [hcnt, hpow]; grind
      have hh1 : H2 h h = top nil H2 (level + 1) S := by rw [hh, top_pad nil H2 level S hne hS]
      have hinner1 : (if (flag2 && matchh) = true then { st with branch := st.branch ++ [h] } else st).inner = st.inner := by
        split <;> rfl
      have hmut1 : (if (flag2 && matchh) = true then { st with branch := st.branch ++ [h] } else st).mutated = st.mutated := by
        split <;> rfl
      generalize (if (flag2 && matchh) = true then { st with branch := st.branch ++ [h] } else st) = st1 at hinner1 hmut1
      obtain ⟨level2, h2, matchh2, st2, q2, P2, S2, hrun, hinner2, hl2, hle2, hPl2, hF2, hne2', hS2, hh2, happ2, hcnt2, hdisj⟩ :=
        tailCarry_spec nil H2 flag2 (count + 2 ^ level) 34 (level + 1) (H2 h h) matchh st1 q P S
          (by omega) (by omega) hPlen (by rw [hinner1]; exact hlen) (by rw [hinner1]; exact hF) hne
          (by omega) hh1 hcnt1
      simp only [hrun]
      have hmut2 : st2.mutated = st1.mutated := tailCarry_mutated H2 flag2 _ _ _ _ _ _ _ hrun
      obtain ⟨st', hfin, hm⟩ := ih (count + 2 ^ level) level2 h2 matchh2 st2 q2 P2 S2 (by omega) hl2 (by omega)
        (by rw [hinner2, hinner1]; exact hlen) (by rw [hinner2]; exact hF2) hne2' hS2 hh2 hcnt2
        (by
          intro hq2
          rcases hdisj with ⟨hl, hs⟩ | hbig
          · exfalso
            rw [hcnt1, hl, hq2] at hcnt2
            have := Nat.eq_of_mul_eq_mul_right (Nat.two_pow_pos (level + 1)) hcnt2
            omega
          · exact hbig)
      refine ⟨st', ?_, ?_⟩
      · rw [happ2]; exact hfin
      · rw [hm, hmut2, hmut1]

/-- the lowest-set-bit scan finds the last (smallest) block of the decomposition. -/
theorem lowBit_spec {inner : List β} (count : Nat) :
    ∀ (fuel level q : Nat) (P : List β), Forest nil H2 inner level q P → 0 < q → q < 2 ^ fuel →
      count = q * 2 ^ level →
      ∃ q' P' B, Forest nil H2 inner (lowBit count fuel level + 1) q' P' ∧ P = P' ++ B ∧
        B.length = 2 ^ lowBit count fuel level ∧
        inner[lowBit count fuel level]? = some (top nil H2 (lowBit count fuel level) B) ∧
        count = (2 * q' + 1) * 2 ^ lowBit count fuel level := by
  intro fuel
  induction fuel with
  | zero => intro level q P _ h0 h1; simp at h1; omega
  | succ f ih =>
    intro level q P hF hq hlt hcnt
    rw [lowBit]
    rcases Nat.mod_two_eq_zero_or_one q with hq2 | hq2
    · have htb : count.testBit level = false := by
        rw [hcnt, testBit_shifted]; simp; omega
      simp only [htb, Bool.false_eq_true, if_false]
      have hpow : 2 ^ (level + 1) = 2 * 2 ^ level := by rw [Nat.pow_succ]; omega
      have hpf : 2 ^ (f + 1) = 2 * 2 ^ f := by rw [Nat.pow_succ]; omega
      apply ih (level + 1) (q / 2) P (forest_even_inv nil H2 hF (q / 2) (by omega)) (by omega) (by omega)
      rw [hcnt, hpow, ← Nat.mul_assoc]; congr 1; omega
    · have htb : count.testBit level = true := by
        rw [hcnt, testBit_shifted]; simp; omega
      simp only [htb, if_true]
      obtain ⟨P', B, hP, hB, hget, hF'⟩ := forest_odd_inv nil H2 hF (q / 2) (by omega)
      exact ⟨q / 2, P', B, hF', hP, hB, hget, by rw [hcnt]; congr 1; omega⟩

/-- the main loop keeps the block decomposition of the consumed prefix. -/
theorem fold_spec [DecidableEq β] (flag2 : Bool) (branchpos : Nat) :
    ∀ (rest P : List β) (st : CState β), (P ++ rest).length < 2 ^ 32 → st.inner.length = 32 →
      Forest nil H2 st.inner 0 P.length P →
      ∃ st', rest.foldl (leafStep H2 flag2 branchpos) (.ok (P.length, st)) = .ok ((P ++ rest).length, st') ∧
        st'.inner.length = 32 ∧ Forest nil H2 st'.inner 0 (P ++ rest).length (P ++ rest) := by
  intro rest
  induction rest with
  | nil => intro P st _ hlen hF; exact ⟨st, by simp, hlen, by simpa using hF⟩
  | cons x r ih =>
    intro P st hbound hlen hF
    simp only [List.foldl_cons]
    have hc : P.length + 1 < 2 ^ 32 := by simp only [List.length_append, List.length_cons] at hbound; omega
    obtain ⟨level', h', matchh', st', q', P', S', hrun, hinner, hl', _, hF', hne', hS', hh', happ, hcnt', hex, _⟩ :=
      carry_spec nil H2 flag2 (P.length + 1) hc 33 0 x (decide (P.length % 2 ^ 32 = branchpos) && flag2) st
        P.length P [x] (by omega) hlen hF (by simp) (by simp) (top_zero nil H2 x).symm (by simp)
    have hstep : leafStep H2 flag2 branchpos (.ok (P.length, st)) x =
        .ok (P.length + 1, { st' with inner := st'.inner.set level' h',
                                      matchlevel := if matchh' then level' else st'.matchlevel }) := by
      simp only [leafStep, hrun]
      rw [hinner, hlen]
      simp [hl']
    rw [hstep]
    have hSlen : S'.length = 2 ^ level' := hex (by simp)
    have hF2 : Forest nil H2 (st'.inner.set level' h') 0 (P ++ [x]).length (P ++ [x]) := by
      have hodd : Forest nil H2 (st'.inner.set level' h') level' (2 * q' + 1) (P' ++ S') := by
        apply Forest.odd _ _ _ _ hSlen
        · rw [List.getElem?_set_self (by rw [hinner, hlen]; exact hl'), hh']
        · apply forest_frame nil H2 (inner := st.inner) hF'
          intro j hj
          rw [hinner, List.getElem?_set_ne (by omega)]
      have := forest_lift nil H2 level' hodd
      rw [← hcnt', ← happ] at this
      simpa using this
    have hlen2 : (st'.inner.set level' h').length = 32 := by rw [List.length_set, hinner, hlen]
    have := ih (P ++ [x]) { st' with inner := st'.inner.set level' h',
                                     matchlevel := if matchh' then level' else st'.matchlevel }
      (by simpa using hbound) hlen2 hF2
    simpa using this

end C18
