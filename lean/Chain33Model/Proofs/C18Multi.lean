import Chain33Model.Model.C18
import Chain33Model.Proofs.C18
/-!
C18 helper lemmas for `calcMultiLayer`: it cannot panic on non-nil hashes, and the child chains
tile the transaction list.
-/
namespace C18

variable {β : Type} (nil : β) (H2 : β → β → β)

/-- `GetHashFromTwoHash` returns nil only for a nil argument. -/
def NilFree : Prop := ∀ a b, a ≠ nil → b ≠ nil → H2 a b ≠ nil

theorem pairUp_ne_nil (hH : NilFree nil H2) : ∀ xs : List β, (∀ a ∈ xs, a ≠ nil) → ∀ a ∈ pairUp H2 xs, a ≠ nil
  | [], _ => by simp [pairUp]
  | [x], h => by
    intro a ha; simp [pairUp] at ha; subst ha; exact hH x x (h x (by simp)) (h x (by simp))
  | x :: y :: rest, h => by
    intro a ha
    simp only [pairUp, List.mem_cons] at ha
    rcases ha with rfl | ha
    · exact hH x y (h x (by simp)) (h y (by simp))
    · exact pairUp_ne_nil hH rest (fun b hb => h b (by simp [hb])) a ha

theorem rootFuel_ne_nil (hH : NilFree nil H2) : ∀ (f : Nat) (xs : List β), xs.length ≤ f → xs ≠ [] →
    (∀ a ∈ xs, a ≠ nil) → rootFuel nil H2 f xs ≠ nil
  | _, [], _, h, _ => absurd rfl h
  | _, [a], _, _, h => by simp only [rootFuel]; exact h a (by simp)
  | 0, _ :: _ :: _, h, _, _ => by simp at h
  | f + 1, a :: b :: rest, hf, _, h => by
    simp only [rootFuel]
    apply rootFuel_ne_nil hH f
    · rw [length_pairUp]; simp only [List.length_cons] at hf ⊢; omega
    · simp [pairUp]
    · exact pairUp_ne_nil nil H2 hH _ h

theorem root_ne_nil (hH : NilFree nil H2) (xs : List β) (hne : xs ≠ []) (h : ∀ a ∈ xs, a ≠ nil) :
    getMerkleRoot nil H2 xs ≠ nil := rootFuel_ne_nil nil H2 hH _ xs (Nat.le_refl _) hne h

theorem singleLayerRoot_total [DecidableEq β] (hH : NilFree nil H2) (zero : β) (ncpu : Nat) (hs : List β)
    (hne : hs ≠ []) (h : ∀ a ∈ hs, a ≠ nil) :
    singleLayerRoot nil zero H2 ncpu hs = .ok (getMerkleRoot nil H2 hs) := by
  unfold singleLayerRoot
  have : hs.isEmpty = false := by cases hs <;> simp_all
  simp only [this, Bool.false_eq_true, if_false, GetMerkleRoot_eq]
  rw [if_neg (root_ne_nil nil H2 hH hs hne h)]

/-- start indices strictly increasing inside `[lo, hi)`. -/
def StartsOK : List (Bytes × Nat) → Nat → Nat → Prop
  | [], _, _ => True
  | (_, s) :: rest, lo, hi => lo ≤ s ∧ s < hi ∧ StartsOK rest (s + 1) hi

theorem startsOK_mono : ∀ (l : List (Bytes × Nat)) (lo lo' hi : Nat), lo' ≤ lo → StartsOK l lo hi → StartsOK l lo' hi
  | [], _, _, _, _, _ => trivial
  | (_, s) :: rest, lo, lo', hi, hle, h => ⟨by have := h.1; omega, h.2.1, h.2.2⟩

theorem childStarts_ok : ∀ (execs : List Bytes) (i : Nat) (first : Bytes),
    StartsOK (childStarts execs i first) i (i + execs.length)
  | [], _, _ => trivial
  | e :: rest, i, first => by
    have hlen : i + (e :: rest).length = (i + 1) + rest.length := by simp; omega
    rw [hlen]
    unfold childStarts
    split
    · split
      · next hi0 =>
        subst hi0
        exact ⟨Nat.le_refl _, by omega, by simpa using childStarts_ok rest 1 first⟩
      · exact startsOK_mono _ (i + 1) i _ (by omega) (childStarts_ok rest (i + 1) first)
    · next t _ =>
      split
      · exact ⟨Nat.le_refl _, by omega, childStarts_ok rest (i + 1) t⟩
      · exact startsOK_mono _ (i + 1) i _ (by omega) (childStarts_ok rest (i + 1) first)

/-- consecutive non-empty ranges `(start, count)` from `lo` to `hi`. -/
def Tiles : List (Nat × Nat) → Nat → Nat → Prop
  | [], lo, hi => lo = hi
  | (s, c) :: rest, lo, hi => s = lo ∧ 0 < c ∧ Tiles rest (s + c) hi

theorem tiles_length_le : ∀ (l : List (Nat × Nat)) (lo hi : Nat), Tiles l lo hi → lo + l.length ≤ hi
  | [], _, _, h => by simp [Tiles] at h; simp; omega
  | (s, c) :: rest, lo, hi, h => by
    have := tiles_length_le rest _ _ h.2.2
    have := h.1; have := h.2.1
    simp only [List.length_cons]; omega

theorem tiles_cover : ∀ (l : List (Nat × Nat)) (lo hi i : Nat), Tiles l lo hi → lo ≤ i → i < hi →
    ∃ sc ∈ l, sc.1 ≤ i ∧ i < sc.1 + sc.2
  | [], _, _, _, h, h1, h2 => by simp [Tiles] at h; omega
  | (s, c) :: rest, lo, hi, i, h, h1, h2 => by
    by_cases hi' : i < s + c
    · exact ⟨(s, c), by simp, by have := h.1; simp; omega, by simpa using hi'⟩
    · obtain ⟨sc, hm, hb⟩ := tiles_cover rest (s + c) hi i h.2.2 (by omega) h2
      exact ⟨sc, by simp [hm], hb⟩

/-- `childRoots` does not panic on non-nil hashes and its children tile `[first start, total)`. -/
theorem childRoots_total [DecidableEq β] (hH : NilFree nil H2) (zero : β) (ncpu : Nat) (hs : List β)
    (hnil : ∀ a ∈ hs, a ≠ nil) :
    ∀ (starts : List (Bytes × Nat)) (lo : Nat), StartsOK starts lo hs.length →
      ∃ cs, childRoots nil zero H2 ncpu hs hs.length starts = .ok cs ∧
        (∀ c ∈ cs, c.hash ≠ nil) ∧ cs.length = starts.length ∧
        (∀ t s rest, starts = (t, s) :: rest → Tiles (cs.map (fun c => (c.start, c.count))) s hs.length)
  | [], _, _ => ⟨[], by simp [childRoots], by simp, rfl, by intro t s rest h; cases h⟩
  | [(t, s)], lo, h => by
    have hs1 := h.2.1
    have hrange : (hs.drop s).take (hs.length - s) ≠ [] := by
      intro h0
      have := congrArg List.length h0
      simp at this; omega
    have hrn : ∀ a ∈ (hs.drop s).take (hs.length - s), a ≠ nil :=
      fun a ha => hnil a (List.mem_of_mem_drop (List.mem_of_mem_take ha))
    refine ⟨[{ title := t, start := s, hash := getMerkleRoot nil H2 ((hs.drop s).take (hs.length - s)),
               count := hs.length - s }], ?_, ?_, rfl, ?_⟩
    · simp only [childRoots, singleLayerRoot_total nil H2 hH zero ncpu _ hrange hrn]
    · intro c hc; simp at hc; subst hc; exact root_ne_nil nil H2 hH _ hrange hrn
    · intro t' s' rest' he
      cases he
      simp [Tiles]; omega
  | (t, s) :: (t', s') :: rest, lo, h => by
    have hs1 := h.2.1
    have hnext := h.2.2
    have hs2 : s + 1 ≤ s' := hnext.1
    have hs3 : s' < hs.length := hnext.2.1
    obtain ⟨cs, hrun, hne, hlen, htile⟩ := childRoots_total hH zero ncpu hs hnil ((t', s') :: rest) (s + 1) hnext
    have hrange : (hs.drop s).take (s' - s) ≠ [] := by
      intro h0
      have := congrArg List.length h0
      simp at this; omega
    have hrn : ∀ a ∈ (hs.drop s).take (s' - s), a ≠ nil :=
      fun a ha => hnil a (List.mem_of_mem_drop (List.mem_of_mem_take ha))
    refine ⟨{ title := t, start := s, hash := getMerkleRoot nil H2 ((hs.drop s).take (s' - s)), count := s' - s } :: cs,
      ?_, ?_, by simp [hlen], ?_⟩
    · unfold childRoots
      simp only [singleLayerRoot_total nil H2 hH zero ncpu _ hrange hrn, hrun]
    · intro c hc
      rcases List.mem_cons.mp hc with rfl | hc
      · exact root_ne_nil nil H2 hH _ hrange hrn
      · exact hne c hc
    · intro t0 s0 rest0 he
      cases he
      have := htile t' s' rest rfl
      simp only [List.map_cons, Tiles]
      refine ⟨trivial, by omega, ?_⟩
      have e : s + (s' - s) = s' := by omega
      rw [e]; exact this

/-- structural part that needs no assumption on `H2`: whatever `childRoots` returns tiles. -/
theorem childRoots_tiles [DecidableEq β] (zero : β) (ncpu : Nat) (hs : List β) :
    ∀ (starts : List (Bytes × Nat)) (lo : Nat) (cs : List (Child β)), StartsOK starts lo hs.length →
      childRoots nil zero H2 ncpu hs hs.length starts = .ok cs →
      ∀ t s rest, starts = (t, s) :: rest → Tiles (cs.map (fun c => (c.start, c.count))) s hs.length
  | [], _, _, _, _ => by intro t s rest h; cases h
  | [(t, s)], lo, cs, h, hrun => by
    simp only [childRoots] at hrun
    split at hrun
    · cases hrun
    · cases hrun
      intro t' s' rest' he
      cases he
      have := h.2.1
      simp [Tiles]; omega
  | (t, s) :: (t', s') :: rest, lo, cs, h, hrun => by
    unfold childRoots at hrun
    simp only at hrun
    split at hrun
    · cases hrun
    · split at hrun
      · cases hrun
      · next r _ cs' hcs' =>
        cases hrun
        intro t0 s0 rest0 he
        cases he
        have hnext := h.2.2
        have := childRoots_tiles zero ncpu hs ((t', s') :: rest) (s + 1) cs' hnext hcs' t' s' rest rfl
        simp only [List.map_cons, Tiles]
        refine ⟨trivial, by have := hnext.1; omega, ?_⟩
        have e : s + (s' - s) = s' := by have := hnext.1; omega
        rw [e]; exact this

end C18
