import Chain33Model.Model.C18
import Chain33Model.Proofs.C18
import Chain33Model.Proofs.C18Comp
import Chain33Model.Proofs.C18Bind
/-!
C18: completeness of the `mutated` flag of `Computation` — every duplicated sibling pair
(two adjacent aligned complete subtrees with equal roots) is reported.
-/
namespace C18

variable {β : Type} (nil : β) (H2 : β → β → β)

/-- an aligned pair of `2^l`-blocks cannot end at a count whose bit `level ≤ l` is set. -/
theorem no_pair_at_odd {q level l a : Nat} (hl : level ≤ l) (hq : q % 2 = 0)
    (hd : 2 ^ (l + 1) ∣ a) (h : (q + 1) * 2 ^ level = a + 2 ^ (l + 1)) : False := by
  have hdiv : 2 ^ (level + 1) ∣ 2 ^ (l + 1) := Nat.pow_dvd_pow 2 (by omega)
  obtain ⟨t1, ht1⟩ := Nat.dvd_trans hdiv hd
  obtain ⟨t2, ht2⟩ := hdiv
  rw [ht1, ht2, ← Nat.mul_add, Nat.pow_succ, Nat.mul_comm (2 ^ level) 2, Nat.mul_assoc, Nat.mul_comm (2 ^ level),
    ← Nat.mul_assoc] at h
  have := Nat.eq_of_mul_eq_mul_right (Nat.two_pow_pos level) h
  omega

theorem carry_mut [DecidableEq β] (flag2 : Bool) (count : Nat) :
    ∀ (fuel level : Nat) (h : β) (matchh : Bool) (st : CState β) (q : Nat) (P S : List β),
      Forest nil H2 st.inner level q P → S.length = 2 ^ level → h = top nil H2 level S →
      count = (q + 1) * 2 ^ level →
      ∀ r, carry H2 flag2 count fuel level h matchh st = .ok r →
        (st.mutated = true → r.2.2.2.mutated = true) ∧
        (∀ (l : Nat) (P0 B' S' : List β), level ≤ l → P ++ S = P0 ++ B' ++ S' → B'.length = 2 ^ l →
          S'.length = 2 ^ l → 2 ^ (l + 1) ∣ P0.length → top nil H2 l B' = top nil H2 l S' →
          r.2.2.2.mutated = true) := by
  intro fuel
  induction fuel with
  | zero => intro level h matchh st q P S _ _ _ _ r hr; simp [carry] at hr
  | succ f ih =>
    intro level h matchh st q P S hF hS hh hcnt r hr
    rw [carry] at hr
    have hPlen := forest_length nil H2 hF
    rcases Nat.mod_two_eq_zero_or_one q with hq | hq
    · have htb : count.testBit level = true := by
        rw [hcnt, testBit_shifted]; simp; omega
      simp only [htb, if_true] at hr
      cases hr
      refine ⟨fun h => h, ?_⟩
      intro l P0 B' S' hl happ hB' hS' hdvd _
      exfalso
      have hlen := congrArg List.length happ
      simp only [List.length_append] at hlen
      apply no_pair_at_odd hl hq hdvd (a := P0.length)
      rw [Nat.add_mul, Nat.one_mul, Nat.pow_succ]
      omega
    · have htb : count.testBit level = false := by
        rw [hcnt, testBit_shifted]; simp; omega
      obtain ⟨P', B, hP, hB, hget, hF'⟩ := forest_odd_inv nil H2 hF (q / 2) (by omega)
      simp only [htb, hget] at hr
      generalize hbs : branchStep flag2 level (top nil H2 level B) h matchh st = bs at hr
      obtain ⟨br, mh⟩ := bs
      simp only [Bool.false_eq_true, if_false] at hr
      have hpow : 2 ^ (level + 1) = 2 * 2 ^ level := by rw [Nat.pow_succ]; omega
      have hh' : H2 (top nil H2 level B) h = top nil H2 (level + 1) (B ++ S) := by
        rw [hh, top_merge nil H2 level B S hB (by intro h0; rw [h0] at hS; simp at hS; have := Nat.two_pow_pos level; omega) (by omega)]
      have hcnt' : count = (q / 2 + 1) * 2 ^ (level + 1) := by
        rw [hcnt, hpow, ← Nat.mul_assoc]; congr 1; omega
      obtain ⟨hmono, hpairs⟩ := ih (level + 1) (H2 (top nil H2 level B) h) mh
        { st with branch := br, mutated := st.mutated || decide (top nil H2 level B = h) }
        (q / 2) P' (B ++ S) hF' (by rw [List.length_append]; omega) hh' hcnt' r hr
      refine ⟨fun hm => hmono (by simp [hm]), ?_⟩
      intro l P0 B' S' hl happ hB' hS' hdvd htop
      by_cases hle : l = level
      · subst hle
        -- the pair is exactly (popped block, carried block)
        rw [hP, List.append_assoc, List.append_assoc] at happ
        have e1 : P' ++ (B ++ S) = P0 ++ (B' ++ S') := happ
        have hlen := congrArg List.length e1
        simp only [List.length_append] at hlen
        have e2 := List.append_inj e1 (by omega)
        have e3 := List.append_inj e2.2 (by omega)
        apply hmono
        have : top nil H2 l B = h := by rw [hh, e3.1, e3.2]; exact htop
        simp [this]
      · apply hpairs l P0 B' S' (by omega) _ hB' hS' hdvd htop
        rw [← happ, hP, List.append_assoc]

/-- a duplicated sibling pair inside a list (`top`-form of `SibDup`). -/
def DupWithin (P : List β) : Prop :=
  ∃ l P0 B S R, P = P0 ++ B ++ S ++ R ∧ B.length = 2 ^ l ∧ S.length = 2 ^ l ∧ 2 ^ (l + 1) ∣ P0.length ∧
    top nil H2 l B = top nil H2 l S

/-- one iteration of the main loop: decomposition kept, every pair completed so far is flagged. -/
theorem leafStep_mut [DecidableEq β] (flag2 : Bool) (branchpos : Nat) (P : List β) (x : β) (st : CState β)
    (hc : P.length + 1 < 2 ^ 32) (hlen : st.inner.length = 32) (hF : Forest nil H2 st.inner 0 P.length P)
    (hm : DupWithin nil H2 P → st.mutated = true) :
    ∃ st2, leafStep H2 flag2 branchpos (.ok (P.length, st)) x = .ok (P.length + 1, st2) ∧
      st2.inner.length = 32 ∧ Forest nil H2 st2.inner 0 (P ++ [x]).length (P ++ [x]) ∧
      (DupWithin nil H2 (P ++ [x]) → st2.mutated = true) := by
  obtain ⟨level', h', matchh', st', q', P', S', hrun, hinner, hl', _, hF', hne', hS', hh', happ, hcnt', hex, _⟩ :=
    carry_spec nil H2 flag2 (P.length + 1) hc 33 0 x (decide (P.length % 2 ^ 32 = branchpos) && flag2) st
      P.length P [x] (by omega) hlen hF (by simp) (by simp) (top_zero nil H2 x).symm (by simp)
  obtain ⟨hmono, hpairs⟩ := carry_mut nil H2 flag2 (P.length + 1) 33 0 x
    (decide (P.length % 2 ^ 32 = branchpos) && flag2) st P.length P [x] hF (by simp)
    (top_zero nil H2 x).symm (by simp) _ hrun
  refine ⟨{ st' with inner := st'.inner.set level' h',
                     matchlevel := if matchh' then level' else st'.matchlevel }, ?_, ?_, ?_, ?_⟩
  · simp only [leafStep, hrun]
    rw [hinner, hlen]
    simp [hl']
  · rw [List.length_set, hinner, hlen]
  · have hSlen : S'.length = 2 ^ level' := hex (by simp)
    have hodd : Forest nil H2 (st'.inner.set level' h') level' (2 * q' + 1) (P' ++ S') := by
      apply Forest.odd _ _ _ _ hSlen
      · rw [List.getElem?_set_self (by rw [hinner, hlen]; exact hl'), hh']
      · apply forest_frame nil H2 (inner := st.inner) hF'
        intro j hj
        rw [hinner, List.getElem?_set_ne (by omega)]
    have := forest_lift nil H2 level' hodd
    rw [← hcnt', ← happ] at this
    simpa using this
  · intro ⟨l, P0, B, S, R, hdec, hB, hS, hdvd, htop⟩
    show st'.mutated = true
    rcases List.eq_nil_or_concat R with hR | ⟨R', y, hR⟩
    · -- the pair ends with the new leaf: the carry loop meets it
      subst hR
      rw [List.append_nil] at hdec
      exact hpairs l P0 B S (Nat.zero_le _) hdec hB hS hdvd htop
    · -- the pair was complete before
      apply hmono
      apply hm
      subst hR
      rw [List.concat_eq_append, ← List.append_assoc] at hdec
      have := List.append_inj' hdec (by simp)
      exact ⟨l, P0, B, S, R', this.1, hB, hS, hdvd, htop⟩

theorem fold_mut [DecidableEq β] (flag2 : Bool) (branchpos : Nat) :
    ∀ (rest P : List β) (st : CState β), (P ++ rest).length < 2 ^ 32 → st.inner.length = 32 →
      Forest nil H2 st.inner 0 P.length P → (DupWithin nil H2 P → st.mutated = true) →
      ∃ st', rest.foldl (leafStep H2 flag2 branchpos) (.ok (P.length, st)) = .ok ((P ++ rest).length, st') ∧
        (DupWithin nil H2 (P ++ rest) → st'.mutated = true) := by
  intro rest
  induction rest with
  | nil => intro P st _ _ _ hm; exact ⟨st, by simp, by simpa using hm⟩
  | cons x r ih =>
    intro P st hbound hlen hF hm
    simp only [List.foldl_cons]
    have hc : P.length + 1 < 2 ^ 32 := by simp only [List.length_append, List.length_cons] at hbound; omega
    obtain ⟨st2, hstep, hlen2, hF2, hm2⟩ := leafStep_mut nil H2 flag2 branchpos P x st hc hlen hF hm
    rw [hstep]
    have := ih (P ++ [x]) st2 (by simpa using hbound) hlen2 hF2 hm2
    simpa using this

/-- Every duplicated sibling pair is reported: `Computation` returns `mutated = true`. -/
theorem mutated_complete' [DecidableEq β] (xs : List β) (flage pos : Nat)
    (hlen : xs.length < 2 ^ 32) (hf : 1 ≤ flage ∧ flage ≤ 3) (hdup : SibDup nil H2 xs) :
    ∃ r b, Computation nil H2 xs flage pos = .ok (r, true, b) := by
  have hdup' : DupWithin nil H2 xs := by
    obtain ⟨l, P, B, S, R, h1, h2, h3, h4, h5⟩ := hdup
    exact ⟨l, P, B, S, R, h1, h2, h3, h4, by rw [top_complete nil H2 l B h2, top_complete nil H2 l S h3, h5]⟩
  have hne : xs ≠ [] := by
    obtain ⟨l, P, B, S, R, h1, h2, _⟩ := hdup'
    intro h0; rw [h0] at h1
    have := congrArg List.length h1
    simp only [List.length_nil, List.length_append] at this
    have := Nat.two_pow_pos l; omega
  unfold Computation
  have h1 : xs.isEmpty = false := by cases xs <;> simp_all
  have h2 : ¬ (flage < 1 ∨ flage > 3) := by omega
  simp only [h1, h2, Bool.false_eq_true, if_false]
  obtain ⟨st, hfold, hlen32, hF⟩ := fold_spec nil H2 (decide (flage / 2 % 2 = 1)) pos xs []
    { inner := List.replicate 32 nil, branch := [], matchlevel := 0xff, mutated := false }
    (by simpa using hlen) (by simp) (Forest.zero 0)
  obtain ⟨st2, hfold2, hmut⟩ := fold_mut nil H2 (decide (flage / 2 % 2 = 1)) pos xs []
    { inner := List.replicate 32 nil, branch := [], matchlevel := 0xff, mutated := false }
    (by simpa using hlen) (by simp) (Forest.zero 0)
    (by
      intro ⟨l, P0, B, S, R, hdec, hB, _⟩
      have := congrArg List.length hdec
      simp only [List.length_nil, List.length_append] at this
      have := Nat.two_pow_pos l; omega)
  simp only [List.length_nil, List.nil_append] at hfold hF hfold2 hmut
  have hst : st2 = st := by rw [hfold] at hfold2; cases hfold2; rfl
  subst hst
  simp only [hfold]
  have hpos : 0 < xs.length := List.length_pos_iff.mpr hne
  obtain ⟨q, P, B, hF', hP, hB, hget, hcnt⟩ := lowBit_spec nil H2 xs.length 64 0 xs.length xs hF hpos
    (by have : (2 : Nat) ^ 32 < 2 ^ 64 := by decide
        omega) (by simp)
  simp only [hget]
  have hBne : B ≠ [] := by
    intro h; rw [h] at hB; simp at hB
    have := Nat.two_pow_pos (lowBit xs.length 64 0); omega
  have hPlen : P.length < 2 ^ 32 := by rw [hP, List.length_append] at hlen; omega
  have hl32 : lowBit xs.length 64 0 ≤ 32 := by
    by_cases h : lowBit xs.length 64 0 ≤ 32
    · exact h
    · have h1 : 2 ^ 33 ≤ 2 ^ lowBit xs.length 64 0 := Nat.pow_le_pow_right (by decide) (by omega)
      have h2 : 2 ^ lowBit xs.length 64 0 ≤ (2 * q + 1) * 2 ^ lowBit xs.length 64 0 :=
        Nat.le_mul_of_pos_left _ (by omega)
      have : (2 : Nat) ^ 32 < 2 ^ 33 := by decide
      omega
  obtain ⟨st', hrun, hmut'⟩ := tailLoop_spec nil H2 (decide (flage / 2 % 2 = 1)) 34 xs.length (lowBit xs.length 64 0)
    (top nil H2 (lowBit xs.length 64 0) B) (decide (st2.matchlevel = lowBit xs.length 64 0)) st2 q P B
    (by omega) hl32 hPlen hlen32 hF' hBne (by omega) rfl hcnt
    (by intro _; rw [hB]; have := Nat.two_pow_pos (lowBit xs.length 64 0); omega)
  simp only [hrun]
  exact ⟨_, _, by rw [hmut', hmut hdup']⟩

end C18
