import Chain33Model.Model.C20
/-!
Helper lemmas for C20: byte length, the normalised 3-byte mantissa, encode/decode closed forms.
-/
namespace C20

theorem byteLen_zero : byteLen 0 = 0 := by rw [byteLen]; simp
theorem byteLen_pos (n : Nat) (h : 0 < n) : byteLen n = 1 + byteLen (n / 256) := by
  rw [byteLen]; simp [show n ≠ 0 by omega]

theorem pow256_pos (k : Nat) : 0 < 256 ^ k := Nat.pow_pos (by decide)

/-- `byteLen n ≤ k` iff `n` fits `k` bytes. -/
theorem byteLen_le_iff : ∀ (k n : Nat), byteLen n ≤ k ↔ n < 256 ^ k
  | 0, n => by
    by_cases h : n = 0
    · subst h; simp [byteLen_zero]
    · rw [byteLen_pos n (by omega)]; simp; omega
  | k + 1, n => by
    by_cases h : n = 0
    · subst h; simp [byteLen_zero]; exact pow256_pos _
    · rw [byteLen_pos n (by omega)]
      have := byteLen_le_iff k (n / 256)
      rw [Nat.pow_succ, ← Nat.div_lt_iff_lt_mul (by decide)]
      omega

theorem byteLen_mul256 (x : Nat) (h : 0 < x) : byteLen (x * 256) = byteLen x + 1 := by
  rw [byteLen_pos (x * 256) (by omega), Nat.mul_div_cancel x (by decide)]; omega

theorem byteLen_mul_pow (x k : Nat) (h : 0 < x) : byteLen (x * 256 ^ k) = byteLen x + k := by
  induction k with
  | zero => simp
  | succ k ih =>
    rw [Nat.pow_succ, ← Nat.mul_assoc, byteLen_mul256 _ (Nat.mul_pos h (pow256_pos k)), ih]; omega

theorem byteLen_pos_of_pos (n : Nat) (h : 0 < n) : 1 ≤ byteLen n := by
  rw [byteLen_pos n h]; omega

/-- lower bound: an `L`-byte number is at least `256^(L-1)`. -/
theorem byteLen_lower (n : Nat) (h : 0 < n) : 256 ^ (byteLen n - 1) ≤ n := by
  have h1 := byteLen_pos_of_pos n h
  have := (byteLen_le_iff (byteLen n - 1) n)
  by_cases hc : n < 256 ^ (byteLen n - 1)
  · have := this.mpr hc; omega
  · omega

/-- decoded magnitude for exponent `e` and mantissa `m`. -/
def dec (e m : Nat) : Nat := if e ≤ 3 then m / 256 ^ (3 - e) else m * 256 ^ (e - 3)

/-- the top three bytes of `a` (left-aligned when `a` is shorter). -/
def m0 (a : Nat) : Nat :=
  if byteLen a ≤ 3 then a * 256 ^ (3 - byteLen a) else a / 256 ^ (byteLen a - 3)

theorem m0_lt (a : Nat) : m0 a < 2 ^ 24 := by
  unfold m0
  have hL := (byteLen_le_iff (byteLen a) a).mp (Nat.le_refl _)
  split
  · next h =>
    have : 256 ^ 3 = 256 ^ (byteLen a) * 256 ^ (3 - byteLen a) := by
      rw [← Nat.pow_add]; congr 1; omega
    have h3 : (2 : Nat) ^ 24 = 256 ^ 3 := by decide
    rw [h3, this]
    exact Nat.mul_lt_mul_of_lt_of_le hL (Nat.le_refl _) (pow256_pos _)
  · next h =>
    rw [Nat.div_lt_iff_lt_mul (pow256_pos _)]
    have : 256 ^ (byteLen a) = 2 ^ 24 * 256 ^ (byteLen a - 3) := by
      have h3 : (2 : Nat) ^ 24 = 256 ^ 3 := by decide
      rw [h3, ← Nat.pow_add]; congr 1; omega
    rw [← this]; exact hL

/-- compact value with exponent field `e`, sign bit `s`, mantissa `m`. -/
def mk (e : Nat) (s : Bool) (m : Nat) : Nat := e * 2 ^ 24 + (if s then 2 ^ 23 else 0) + m

theorem compactToBig_mk (e : Nat) (s : Bool) (m : Nat) (he : e ≤ 255) (hm : m < 2 ^ 23) :
    compactToBig (mk e s m) = if s then -(Int.ofNat (dec e m)) else Int.ofNat (dec e m) := by
  have h1 : mk e s m % 2 ^ 23 = m := by unfold mk; cases s <;> simp <;> omega
  have h2 : (mk e s m / 2 ^ 23 % 2 = 1) ↔ s = true := by unfold mk; cases s <;> simp <;> omega
  have h3 : mk e s m / 2 ^ 24 % 256 = e := by unfold mk; cases s <;> simp <;> omega
  unfold compactToBig
  simp only [h1, h3, h2, dec]

/-- what `BigToCompact` assembles from byte length `L` and normalised mantissa `x` (no sign). -/
def enc (L x : Nat) : Nat :=
  if x / 2 ^ 23 % 2 = 1 then Nat.lor (((L + 1) * 2 ^ 24) % 2 ^ 32) (x / 256)
  else Nat.lor ((L * 2 ^ 24) % 2 ^ 32) x

theorem lor_field (e m : Nat) (hm : m < 2 ^ 24) : Nat.lor (e * 2 ^ 24) m = e * 2 ^ 24 + m := by
  have := Nat.shiftLeft_add_eq_or_of_lt hm e
  rw [Nat.shiftLeft_eq] at this
  exact this.symm

theorem lor_sign (e m : Nat) (hm : m < 2 ^ 23) : Nat.lor (e * 2 ^ 24 + m) (2 ^ 23) = e * 2 ^ 24 + 2 ^ 23 + m := by
  have hm24 : m < 2 ^ 24 := by omega
  have hsm : 2 ^ 23 + m < 2 ^ 24 := by omega
  have hassoc : e * 2 ^ 24 + (2 ^ 23 + m) = e * 2 ^ 24 + 2 ^ 23 + m := by omega
  have hA : e * 2 ^ 24 + m = e * 2 ^ 24 ||| m := (lor_field e m hm24).symm
  have hS : 2 ^ 23 ||| m = 2 ^ 23 + m := by
    have h := Nat.shiftLeft_add_eq_or_of_lt hm 1
    rw [Nat.shiftLeft_eq, Nat.one_mul] at h
    exact h.symm
  have hB : e * 2 ^ 24 ||| (2 ^ 23 + m) = e * 2 ^ 24 + (2 ^ 23 + m) := lor_field e _ hsm
  show (e * 2 ^ 24 + m) ||| 2 ^ 23 = _
  rw [hA, Nat.or_assoc, Nat.or_comm m, hS, hB, hassoc]

/-- bump flag of a normalised mantissa. -/
def bump (x : Nat) : Nat := if 2 ^ 23 ≤ x then 1 else 0

theorem enc_eq (L x : Nat) (hx : x < 2 ^ 24) (hL : L + bump x ≤ 255) :
    enc L x = mk (L + bump x) false (if 2 ^ 23 ≤ x then x / 256 else x) := by
  unfold enc mk bump
  by_cases hb : 2 ^ 23 ≤ x
  · have : x / 2 ^ 23 % 2 = 1 := by omega
    simp only [this, hb, if_true]
    unfold bump at hL; simp only [hb, if_true] at hL
    rw [Nat.mod_eq_of_lt (by omega), lor_field _ _ (by omega)]; simp
  · have : ¬ x / 2 ^ 23 % 2 = 1 := by omega
    simp only [this, hb, if_false]
    unfold bump at hL; simp only [hb, if_false] at hL
    rw [Nat.mod_eq_of_lt (by omega), lor_field _ _ hx]; simp

theorem bigToCompact_pos (a : Nat) (ha : 0 < a) : bigToCompact (Int.ofNat a) = enc (byteLen a) (m0 a) := by
  have hm := m0_lt a
  unfold bigToCompact enc
  have h0 : ¬ (Int.ofNat a = 0) := by simp; omega
  have hn : ¬ (Int.ofNat a < 0) := by simp
  have hab : (Int.ofNat a).natAbs = a := by simp
  simp only [h0, hn, if_false, hab]
  have : (if byteLen a ≤ 3 then a * 256 ^ (3 - byteLen a) % 2 ^ 32 else a / 256 ^ (byteLen a - 3) % 2 ^ 32) = m0 a := by
    unfold m0 at hm ⊢
    split <;> (rename_i h; simp only [h, if_true, if_false] at hm; rw [Nat.mod_eq_of_lt (by omega)])
  simp only [this]
  split <;> rfl

theorem bigToCompact_neg (a : Nat) (ha : 0 < a)
    (hdiv : 3 < byteLen a → 256 ^ (byteLen a - 3) ∣ a) :
    bigToCompact (-(Int.ofNat a)) = Nat.lor (enc (byteLen a) (m0 a)) (2 ^ 23) := by
  have hm := m0_lt a
  unfold bigToCompact enc
  have h0 : ¬ (-(Int.ofNat a) = 0) := by simp; omega
  have hn : (-(Int.ofNat a) < 0) := by simp; omega
  have hab : (-(Int.ofNat a)).natAbs = a := by simp
  simp only [h0, hn, if_false, if_true, hab]
  have : (if byteLen a ≤ 3 then a * 256 ^ (3 - byteLen a) % 2 ^ 32
      else (a + 256 ^ (byteLen a - 3) - 1) / 256 ^ (byteLen a - 3) % 2 ^ 32) = m0 a := by
    unfold m0 at hm ⊢
    split
    · rename_i h; simp only [h, if_true] at hm; rw [Nat.mod_eq_of_lt (by omega)]
    · rename_i h; simp only [h, if_false] at hm
      obtain ⟨q, hq⟩ := hdiv (by omega)
      have hp := pow256_pos (byteLen a - 3)
      generalize 256 ^ (byteLen a - 3) = P at *
      have e1 : a / P = q := by rw [hq, Nat.mul_div_cancel_left q hp]
      have e2 : (a + P - 1) / P = q := by
        rw [hq]
        have : P * q + P - 1 = (P - 1) + P * q := by omega
        rw [this, Nat.add_mul_div_left _ _ hp, Nat.div_eq_of_lt (by omega)]; omega
      rw [e2, ← e1, Nat.mod_eq_of_lt (by omega)]
  simp only [this]
  split <;> rfl

/-- mantissa stored after the optional sign-bit shift. -/
def mant' (x : Nat) : Nat := if 2 ^ 23 ≤ x then x / 256 else x

theorem mant'_lt (x : Nat) (hx : x < 2 ^ 24) : mant' x < 2 ^ 23 := by
  unfold mant'; split <;> omega

/-- number of low bytes dropped by the encoding of an `L`-byte magnitude. -/
def lost (a : Nat) : Nat := byteLen a + bump (m0 a) - 3

/-- decode ∘ encode on the magnitude: the low `lost a` bytes are cleared, nothing else changes. -/
theorem dec_enc (a : Nat) (ha : 0 < a) :
    dec (byteLen a + bump (m0 a)) (mant' (m0 a)) = a / 256 ^ lost a * 256 ^ lost a := by
  have hlo := byteLen_lower a ha
  have hhi := (byteLen_le_iff (byteLen a) a).mp (Nat.le_refl _)
  have h1 := byteLen_pos_of_pos a ha
  unfold lost
  by_cases h3 : byteLen a ≤ 3
  · -- at most three bytes: everything is numeric
    have hcases : byteLen a = 1 ∨ byteLen a = 2 ∨ byteLen a = 3 := by omega
    unfold m0 dec mant' bump
    rcases hcases with h | h | h <;> simp only [h] at hlo hhi ⊢ <;> simp at hlo hhi ⊢ <;>
      split <;> simp <;> omega
  · have hm := m0_lt a
    have hx : m0 a = a / 256 ^ (byteLen a - 3) := by unfold m0; simp [h3]
    unfold dec mant' bump
    by_cases hb : 2 ^ 23 ≤ m0 a
    · simp only [hb, if_true]
      have : ¬ byteLen a + 1 ≤ 3 := by omega
      simp only [this, if_false]
      have e1 : byteLen a + 1 - 3 = (byteLen a - 3) + 1 := by omega
      rw [hx, e1, Nat.div_div_eq_div_mul, ← Nat.pow_succ]
    · simp only [hb, if_false, Nat.add_zero, h3]
      rw [hx]

theorem lost_le (a : Nat) : lost a ≤ byteLen a - 2 := by
  unfold lost bump; split <;> omega

/-- the sign-bit shift happens exactly when the top bit of the top byte is set. -/
theorem bump_iff (a : Nat) (ha : 0 < a) : 2 ^ 23 ≤ m0 a ↔ 256 ^ byteLen a ≤ 2 * a := by
  have h1 := byteLen_pos_of_pos a ha
  by_cases h3 : byteLen a ≤ 3
  · have hcases : byteLen a = 1 ∨ byteLen a = 2 ∨ byteLen a = 3 := by omega
    unfold m0
    rcases hcases with h | h | h <;> simp only [h] <;> simp <;> omega
  · have hx : m0 a = a / 256 ^ (byteLen a - 3) := by unfold m0; simp [h3]
    have hp := pow256_pos (byteLen a - 3)
    have e : 256 ^ byteLen a = 2 ^ 24 * 256 ^ (byteLen a - 3) := by
      have h3' : (2 : Nat) ^ 24 = 256 ^ 3 := by decide
      rw [h3', ← Nat.pow_add]; congr 1; omega
    rw [hx, e, Nat.le_div_iff_mul_le hp]
    generalize 256 ^ (byteLen a - 3) = P at *
    constructor <;> intro h <;> omega

/-- full closed form of decode ∘ encode for a positive integer whose exponent fits the field. -/
theorem roundtrip_pos (a : Nat) (ha : 0 < a) (hL : byteLen a + bump (m0 a) ≤ 255) :
    compactToBig (bigToCompact (Int.ofNat a)) = Int.ofNat (a / 256 ^ lost a * 256 ^ lost a) := by
  rw [bigToCompact_pos a ha, enc_eq _ _ (m0_lt a) hL]
  have := compactToBig_mk (byteLen a + bump (m0 a)) false (mant' (m0 a)) hL (mant'_lt _ (m0_lt a))
  unfold mant' at this
  rw [this]
  simp only [Bool.false_eq_true, if_false]
  have := dec_enc a ha
  unfold mant' at this
  rw [this]

theorem roundtrip_neg (a : Nat) (ha : 0 < a) (hL : byteLen a + bump (m0 a) ≤ 255)
    (hdiv : 3 < byteLen a → 256 ^ (byteLen a - 3) ∣ a) :
    compactToBig (bigToCompact (-(Int.ofNat a))) = -(Int.ofNat (a / 256 ^ lost a * 256 ^ lost a)) := by
  rw [bigToCompact_neg a ha hdiv, enc_eq _ _ (m0_lt a) hL]
  have hm := mant'_lt _ (m0_lt a)
  have e : Nat.lor (mk (byteLen a + bump (m0 a)) false (mant' (m0 a))) (2 ^ 23)
      = mk (byteLen a + bump (m0 a)) true (mant' (m0 a)) := by
    unfold mk
    simp only [Bool.false_eq_true, if_false, if_true, Nat.add_zero]
    exact lor_sign _ _ hm
  unfold mant' at e hm
  rw [e]
  have := compactToBig_mk (byteLen a + bump (m0 a)) true (mant' (m0 a)) hL (mant'_lt _ (m0_lt a))
  unfold mant' at this
  rw [this]
  simp only [if_true]
  have := dec_enc a ha
  unfold mant' at this
  rw [this]

theorem compactToBig_eq (c : Nat) :
    compactToBig c = if c / 2 ^ 23 % 2 = 1 then -(Int.ofNat (dec (c / 2 ^ 24 % 256) (c % 2 ^ 23)))
      else Int.ofNat (dec (c / 2 ^ 24 % 256) (c % 2 ^ 23)) := by
  unfold compactToBig dec; rfl

/-- a decoded compact value is already canonical: its exponent fits and re-encoding drops only
zero bytes. -/
theorem canon (e mant : Nat) (he : e ≤ 255) (hm : mant < 2 ^ 23) (ha : 0 < dec e mant) :
    byteLen (dec e mant) + bump (m0 (dec e mant)) ≤ 255 ∧ 256 ^ lost (dec e mant) ∣ dec e mant := by
  by_cases h3 : e ≤ 3
  · have hle : dec e mant ≤ mant := by unfold dec; simp only [h3, if_true]; exact Nat.div_le_self _ _
    generalize dec e mant = a at *
    have hL : byteLen a ≤ 3 := (byteLen_le_iff 3 a).mpr (by omega)
    have h1 := byteLen_pos_of_pos a ha
    have hb : byteLen a + bump (m0 a) ≤ 3 := by
      unfold bump; split
      · next hb =>
        have : byteLen a ≠ 3 := by
          intro h
          unfold m0 at hb; simp [h] at hb; omega
        omega
      · omega
    refine ⟨by omega, ?_⟩
    have : lost a = 0 := by unfold lost; omega
    rw [this]; simp
  · have hd : dec e mant = mant * 256 ^ (e - 3) := by unfold dec; simp [h3]
    rw [hd] at ha ⊢
    have hmpos : 0 < mant := by
      rcases Nat.eq_zero_or_pos mant with h | h
      · rw [h] at ha; simp at ha
      · exact h
    have hLm : byteLen mant ≤ 3 := (byteLen_le_iff 3 mant).mpr (by omega)
    have hL := byteLen_mul_pow mant (e - 3) hmpos
    have h1 := byteLen_pos_of_pos mant hmpos
    have hb : byteLen mant + bump (m0 (mant * 256 ^ (e - 3))) ≤ 3 := by
      unfold bump; split
      · next hb =>
        have : byteLen mant ≠ 3 := by
          intro h
          have hgt : ¬ byteLen (mant * 256 ^ (e - 3)) ≤ 3 := by omega
          unfold m0 at hb; simp only [hgt, if_false] at hb
          have : byteLen (mant * 256 ^ (e - 3)) - 3 = e - 3 := by omega
          rw [this, Nat.mul_div_cancel _ (pow256_pos _)] at hb
          omega
        omega
      · omega
    refine ⟨by omega, ?_⟩
    have hlost : lost (mant * 256 ^ (e - 3)) ≤ e - 3 := by unfold lost; omega
    exact Nat.dvd_trans (Nat.pow_dvd_pow 256 hlost) (Nat.dvd_mul_left _ _)

/-- total difficulty of a chain: the sum of the works of its blocks (blockchain/blockindex.go). -/
def td (bits : List Nat) : Int := (bits.map calcWork).foldr (· + ·) 0

end C20
