import Chain33Model.Model.C21
/-!
Helper lemmas for the C21 invariant (listmap operations, per-sender index, sums).
-/
namespace C21

/-! ### listmap lemmas -/

theorem kexist_false_iff {α} (k : α → Nat) (l : List α) (x : Nat) :
    kexist k l x = false ↔ ∀ a ∈ l, k a ≠ x := by
  unfold kexist
  rw [List.any_eq_false]
  constructor
  · intro h a ha; have := h a ha; simpa using this
  · intro h a ha; have := h a ha; simpa using this

theorem kexist_true_iff {α} (k : α → Nat) (l : List α) (x : Nat) :
    kexist k l x = true ↔ ∃ a ∈ l, k a = x := by
  unfold kexist
  rw [List.any_eq_true]
  constructor
  · rintro ⟨a, ha, h⟩; exact ⟨a, ha, by simpa using h⟩
  · rintro ⟨a, ha, h⟩; exact ⟨a, ha, by simpa using h⟩

theorem kpush_of_not_exist {α} (k : α → Nat) (l : List α) (v : α) (h : kexist k l (k v) = false) :
    kpush k l v = l ++ [v] := by
  simp [kpush, h]

theorem kget_none_of_not_exist {α} (k : α → Nat) (l : List α) (x : Nat) (h : kexist k l x = false) :
    kget k l x = none := by
  unfold kget
  rw [List.find?_eq_none]
  intro a ha
  have := (kexist_false_iff k l x).mp h a ha
  simpa using this

theorem kget_some {α} (k : α → Nat) (l : List α) (x : Nat) (a : α) (h : kget k l x = some a) :
    a ∈ l ∧ k a = x := by
  unfold kget at h
  exact ⟨List.mem_of_find?_eq_some h, by simpa using List.find?_some h⟩

theorem kremove_sublist {α} (k : α → Nat) (l : List α) (x : Nat) : (kremove k l x).Sublist l :=
  List.filter_sublist

theorem mem_kremove {α} (k : α → Nat) (l : List α) (x : Nat) (a : α) :
    a ∈ kremove k l x ↔ a ∈ l ∧ k a ≠ x := by
  simp [kremove]

/-- keys injective on a list whose key list has no duplicates -/
theorem key_inj_of_nodup {α} (k : α → Nat) : ∀ (l : List α), (l.map k).Nodup →
    ∀ a ∈ l, ∀ b ∈ l, k a = k b → a = b := by
  intro l
  induction l with
  | nil => intro _ a ha; cases ha
  | cons x xs ih =>
    intro hnd a ha b hb hk
    rw [List.map_cons, List.nodup_cons] at hnd
    rcases List.mem_cons.mp ha with rfl | ha'
    · rcases List.mem_cons.mp hb with rfl | hb'
      · rfl
      · exact absurd (hk ▸ List.mem_map_of_mem (f := k) hb') hnd.1
    · rcases List.mem_cons.mp hb with rfl | hb'
      · exact absurd (hk ▸ List.mem_map_of_mem (f := k) ha') hnd.1
      · exact ih hnd.2 a ha' b hb' hk

/-! ### per-sender index (Go map sender ↦ listmap) -/

theorem accGet_nil (s : Nat) : accGet [] s = none := rfl

theorem accGet_cons (e : Nat × List Tx) (acc : Acc) (s : Nat) :
    accGet (e :: acc) s = if e.1 = s then some e.2 else accGet acc s := by
  unfold accGet
  by_cases h : e.1 = s
  · simp [h]
  · simp [h]

theorem accGet_accSet_same (acc : Acc) (s : Nat) (l : List Tx) (h : (accGet acc s).isSome) :
    accGet (accSet acc s l) s = some l := by
  induction acc with
  | nil => simp [accGet_nil] at h
  | cons e acc ih =>
    rw [accGet_cons] at h
    unfold accSet
    rw [List.map_cons]
    by_cases he : e.1 = s
    · simp [he, accGet_cons]
    · have he' : (e.1 == s) = false := by simpa using he
      simp only [he', Bool.false_eq_true, if_false]
      rw [accGet_cons]
      simp only [he, if_false] at h ⊢
      exact ih h

theorem accGet_accSet_other (acc : Acc) (s s' : Nat) (l : List Tx) (hne : s' ≠ s) :
    accGet (accSet acc s l) s' = accGet acc s' := by
  induction acc with
  | nil => rfl
  | cons e acc ih =>
    unfold accSet
    rw [List.map_cons]
    by_cases he : e.1 = s
    · have : (e.1 == s) = true := by simpa using he
      simp only [this, if_true]
      rw [accGet_cons, accGet_cons]
      have h1 : ¬ s = s' := fun h => hne h.symm
      have h2 : ¬ e.1 = s' := by rw [he]; exact h1
      simp only [h1, h2, if_false]
      exact ih
    · have : (e.1 == s) = false := by simpa using he
      simp only [this, Bool.false_eq_true, if_false]
      rw [accGet_cons, accGet_cons]
      by_cases h2 : e.1 = s'
      · simp [h2]
      · simp only [h2, if_false]; exact ih

theorem accSet_keys (acc : Acc) (s : Nat) (l : List Tx) : (accSet acc s l).map (·.1) = acc.map (·.1) := by
  induction acc with
  | nil => rfl
  | cons e acc ih =>
    unfold accSet at ih ⊢
    rw [List.map_cons, List.map_cons, List.map_cons, ih]
    by_cases he : e.1 = s
    · simp [he]
    · have : (e.1 == s) = false := by simpa using he
      simp [this]

theorem accGet_append (acc : Acc) (s s' : Nat) (l : List Tx) :
    accGet (acc ++ [(s, l)]) s' =
      match accGet acc s' with
      | some x => some x
      | none => if s = s' then some l else none := by
  induction acc with
  | nil => simp [accGet_cons, accGet_nil]
  | cons e acc ih =>
    rw [List.cons_append, accGet_cons, accGet_cons]
    by_cases he : e.1 = s'
    · simp [he]
    · simp only [he, if_false]; exact ih

theorem accGet_filter (acc : Acc) (s s' : Nat) :
    accGet (acc.filter (fun e => e.1 != s)) s' = if s' = s then none else accGet acc s' := by
  induction acc with
  | nil => simp [accGet_nil]
  | cons e acc ih =>
    by_cases he : e.1 = s
    · have : (e.1 != s) = false := by simp [he]
      rw [List.filter_cons, this]
      simp only [Bool.false_eq_true, if_false]
      rw [ih, accGet_cons]
      by_cases h2 : s' = s
      · simp [h2]
      · have : ¬ e.1 = s' := by rw [he]; exact fun h => h2 h.symm
        simp [h2, this]
    · have : (e.1 != s) = true := by simp [he]
      rw [List.filter_cons, this]
      simp only [if_true]
      rw [accGet_cons, accGet_cons, ih]
      by_cases h2 : e.1 = s'
      · have : ¬ s' = s := by rw [← h2]; exact he
        simp [h2, this]
      · simp [h2]

theorem accGet_none_of_not_key (acc : Acc) (s : Nat) (h : s ∉ acc.map (·.1)) : accGet acc s = none := by
  induction acc with
  | nil => rfl
  | cons e acc ih =>
    rw [List.map_cons, List.mem_cons, not_or] at h
    rw [accGet_cons]
    have : ¬ e.1 = s := fun h' => h.1 h'.symm
    simp only [this, if_false]
    exact ih h.2

theorem accGet_ne_none_of_key (acc : Acc) (s : Nat) (h : s ∈ acc.map (·.1)) : accGet acc s ≠ none := by
  induction acc with
  | nil => cases h
  | cons x xs ih =>
    rw [accGet_cons]
    by_cases hx : x.1 = s
    · simp [hx]
    · simp only [hx, if_false]
      rw [List.map_cons, List.mem_cons] at h
      rcases h with h | h
      · exact absurd h.symm hx
      · exact ih h

theorem accGet_some_key (acc : Acc) (s : Nat) (l : List Tx) (h : accGet acc s = some l) : s ∈ acc.map (·.1) := by
  by_cases hc : s ∈ acc.map (·.1)
  · exact hc
  · rw [accGet_none_of_not_key acc s hc] at h
    cases h

end C21
