import Chain33Model.Proofs.C21
/-!
The C21 invariant and its preservation by `push` and `remove`.
-/
namespace C21

def sumSize (q : List Item) : Int := (q.map (fun it => (it.tx.size : Int))).sum
def sumFee (q : List Item) : Int := (q.map (fun it => it.tx.fee)).sum

/-- The pool's contents grouped by sender, in arrival order. -/
def bySender (p : Pool) (s : Nat) : List Tx := (contents p).filter (fun t => t.snd == s)

structure Inv (cfg : Cfg) (p : Pool) : Prop where
  nodup : (ids p).Nodup
  cap : p.q.length ≤ cfg.cap
  accKeys : (p.acc.map (·.1)).Nodup
  accAgree : ∀ s, accTxs p.acc s = bySender p s
  accNoEmpty : ∀ e ∈ p.acc, e.2 ≠ []
  perSender : ∀ s, (bySender p s).length ≤ cfg.perAcc
  lastSub : p.last.Sublist (contents p)
  lastLen : p.last.length ≤ cfg.lastMax
  bytes : p.bytes = sumSize p.q
  fee : p.fee = sumFee p.q
  shSub : p.sh.Sublist (contents p)
  shKeys : (p.sh.map (·.sh)).Nodup

theorem ids_eq (p : Pool) : ids p = (contents p).map (·.id) := by
  simp [ids, contents, List.map_map, Function.comp_def]

theorem inv_empty (cfg : Cfg) (h bt : Int) : Inv cfg (Pool.empty h bt) where
  nodup := by simp [Pool.empty, ids]
  cap := by simp [Pool.empty]
  accKeys := by simp [Pool.empty]
  accAgree := by intro s; simp [Pool.empty, bySender, contents, accTxs, accGet]
  accNoEmpty := by simp [Pool.empty]
  perSender := by intro s; simp [Pool.empty, bySender, contents]
  lastSub := by simp [Pool.empty, contents]
  lastLen := by simp [Pool.empty]
  bytes := by simp [Pool.empty, sumSize]
  fee := by simp [Pool.empty, sumFee]
  shSub := by simp [Pool.empty, contents]
  shKeys := by simp [Pool.empty]

theorem accTxs_of_get_some {acc : Acc} {s : Nat} {l : List Tx} (h : accGet acc s = some l) : accTxs acc s = l := by
  simp [accTxs, h]

theorem accTxs_of_get_none {acc : Acc} {s : Nat} (h : accGet acc s = none) : accTxs acc s = [] := by
  simp [accTxs, h]

theorem mem_contents_of_sublist {l : List Tx} {p : Pool} (h : l.Sublist (contents p)) {t : Tx} (ht : t ∈ l) :
    t ∈ contents p := h.subset ht

theorem id_mem_ids {p : Pool} {t : Tx} (h : t ∈ contents p) : t.id ∈ ids p := by
  rw [ids_eq]; exact List.mem_map_of_mem h

theorem qExist_false_iff (p : Pool) (id : Nat) : qExist p id = false ↔ id ∉ ids p := by
  unfold qExist
  rw [kexist_false_iff]
  simp only [ids, List.mem_map, not_exists, not_and]

/-! ### LastTxCache / SHashTxCache pushes -/

theorem lastPush_spec (cfg : Cfg) (hmax : 0 < cfg.lastMax) (last c : List Tx) (tx : Tx)
    (hsub : last.Sublist c) (hnew : tx.id ∉ c.map (·.id)) (hlen : last.length ≤ cfg.lastMax) :
    (lastPush cfg last tx).Sublist (c ++ [tx]) ∧ (lastPush cfg last tx).length ≤ cfg.lastMax := by
  unfold lastPush
  -- the list after the optional eviction
  have key : ∀ last1 : List Tx, last1.Sublist last → last1.length + 1 ≤ cfg.lastMax →
      (kpush Tx.id last1 tx).Sublist (c ++ [tx]) ∧ (kpush Tx.id last1 tx).length ≤ cfg.lastMax := by
    intro last1 h1 hl
    have hne : kexist Tx.id last1 tx.id = false := by
      rw [kexist_false_iff]
      intro a ha heq
      exact hnew (heq ▸ List.mem_map_of_mem ((h1.trans hsub).subset ha))
    rw [kpush_of_not_exist _ _ _ hne]
    exact ⟨List.Sublist.append (h1.trans hsub) (List.Sublist.refl _), by simp; omega⟩
  by_cases hge : last.length ≥ cfg.lastMax
  · simp only [hge, if_true]
    cases hl : last with
    | nil => simp [hl] at hge; omega
    | cons v rest =>
      simp only [List.head?_cons]
      apply key
      · rw [← hl]; exact kremove_sublist _ _ _
      · have : (kremove Tx.id (v :: rest) v.id).length ≤ rest.length := by
          unfold kremove
          rw [List.filter_cons]
          simp
          exact List.length_filter_le _ _
        rw [hl] at hlen
        simp at hlen
        omega
  · simp only [hge, if_false]
    exact key last (List.Sublist.refl _) (by omega)

theorem shPush_spec (cfg : Cfg) (sh c : List Tx) (tx : Tx)
    (hsub : sh.Sublist c) (hk : (sh.map (·.sh)).Nodup) :
    (shPush cfg sh tx).Sublist (c ++ [tx]) ∧ ((shPush cfg sh tx).map (·.sh)).Nodup := by
  unfold shPush
  have h0 : sh.Sublist (c ++ [tx]) := hsub.trans (List.sublist_append_left _ _)
  by_cases he : kexist Tx.sh sh tx.sh = true
  · simp [he, h0, hk]
  · have he' : kexist Tx.sh sh tx.sh = false := by simpa using he
    simp only [he', Bool.false_eq_true, if_false]
    by_cases hf : sh.length ≥ cfg.shMax
    · simp [hf, h0, hk]
    · simp only [hf, if_false]
      rw [kpush_of_not_exist _ _ _ he']
      refine ⟨List.Sublist.append hsub (List.Sublist.refl _), ?_⟩
      rw [List.map_append, List.nodup_append]
      refine ⟨hk, by simp, ?_⟩
      intro a ha b hb
      simp at hb
      subst hb
      obtain ⟨t, ht, rfl⟩ := List.mem_map.mp ha
      exact (kexist_false_iff _ _ _).mp he' t ht

/-! ### AccountTxIndex.Push under the invariant -/

theorem mem_accSet {acc : Acc} {s : Nat} {l : List Tx} {e : Nat × List Tx} (h : e ∈ accSet acc s l) :
    e ∈ acc ∨ e = (s, l) := by
  unfold accSet at h
  obtain ⟨e0, he0, rfl⟩ := List.mem_map.mp h
  by_cases hs : (e0.1 == s) = true
  · simp [hs]
  · simp [hs, he0]

theorem accPush_spec (cfg : Cfg) (hper : 0 < cfg.perAcc) (acc : Acc) (tx : Tx) (by_ : Nat → List Tx)
    (hkeys : (acc.map (·.1)).Nodup) (hag : ∀ s, accTxs acc s = by_ s) (hne : ∀ e ∈ acc, e.2 ≠ [])
    (hcan : accCanPush cfg acc tx = true) (hnew : ∀ t ∈ by_ tx.snd, t.id ≠ tx.id) :
    ∃ acc', accPush cfg acc tx = (acc', true) ∧ (acc'.map (·.1)).Nodup ∧
      (∀ s, accTxs acc' s = by_ s ++ (if tx.snd = s then [tx] else [])) ∧ (∀ e ∈ acc', e.2 ≠ []) := by
  unfold accPush
  unfold accCanPush at hcan
  cases hg : accGet acc tx.snd with
  | none =>
    have h0 : ¬ (0 ≥ cfg.perAcc) := by omega
    simp only [h0, if_false]
    refine ⟨_, rfl, ?_, ?_, ?_⟩
    · rw [List.map_append, List.nodup_append]
      refine ⟨hkeys, by simp, ?_⟩
      intro a ha b hb
      simp at hb
      subst hb
      intro heq
      subst heq
      exact accGet_ne_none_of_key acc _ ha hg
    · intro s
      unfold accTxs
      rw [accGet_append]
      cases hs : accGet acc s with
      | some x =>
        have := hag s
        simp only [accTxs, hs] at this
        have hne' : ¬ tx.snd = s := by
          intro h; rw [h] at hg; rw [hg] at hs; cases hs
        simp [this, hne']
      | none =>
        have := hag s
        simp only [accTxs, hs] at this
        by_cases h : tx.snd = s
        · simp [h, ← this]
        · simp [h, ← this]
    · intro e he
      rcases List.mem_append.mp he with h | h
      · exact hne e h
      · simp at h; subst h; simp
  | some l =>
    rw [hg] at hcan
    have hlt : l.length < cfg.perAcc := by simpa using hcan
    have h0 : ¬ (l.length ≥ cfg.perAcc) := by omega
    simp only [h0, if_false]
    have hl : l = by_ tx.snd := by
      have := hag tx.snd
      simpa [accTxs, hg] using this
    have hk : kpush Tx.id l tx = l ++ [tx] := by
      apply kpush_of_not_exist
      rw [kexist_false_iff]
      intro a ha
      exact hnew a (hl ▸ ha)
    rw [hk]
    refine ⟨_, rfl, ?_, ?_, ?_⟩
    · rw [accSet_keys]; exact hkeys
    · intro s
      unfold accTxs
      by_cases h : tx.snd = s
      · subst h
        rw [accGet_accSet_same _ _ _ (by simp [hg])]
        simp [hl]
      · rw [accGet_accSet_other _ _ _ _ (fun h' => h h'.symm)]
        have := hag s
        simp only [accTxs] at this
        simp [this, h]
    · intro e he
      rcases mem_accSet he with h | h
      · exact hne e h
      · subst h; simp

/-! ### txCache.Push preserves the invariant -/

theorem sumSize_append (q : List Item) (it : Item) : sumSize (q ++ [it]) = sumSize q + it.tx.size := by
  simp [sumSize, List.sum_append]

theorem sumFee_append (q : List Item) (it : Item) : sumFee (q ++ [it]) = sumFee q + it.tx.fee := by
  simp [sumFee, List.sum_append]

theorem push_inv (cfg : Cfg) (hper : 0 < cfg.perAcc) (hlast : 0 < cfg.lastMax) (p : Pool) (tx : Tx) (now : Int)
    (hi : Inv cfg p) : Inv cfg (push cfg p tx now).1 := by
  unfold push
  by_cases hc : accCanPush cfg p.acc tx = true
  · by_cases he : qExist p tx.id = true
    · simp [hc, he]; exact hi
    · by_cases hf : p.q.length ≥ cfg.cap
      · simp [hc, he, hf]; exact hi
      · have he' : qExist p tx.id = false := by simpa using he
        have hnew : tx.id ∉ ids p := (qExist_false_iff _ _).mp he'
        have hk : kpush (fun it : Item => it.tx.id) p.q ⟨tx, now⟩ = p.q ++ [⟨tx, now⟩] :=
          kpush_of_not_exist _ _ _ (by simpa [qExist] using he')
        have hnew' : ∀ t ∈ bySender p tx.snd, t.id ≠ tx.id := by
          intro t ht heq
          have : t ∈ contents p := (List.mem_filter.mp ht).1
          exact hnew (heq ▸ id_mem_ids this)
        obtain ⟨acc', hacc, hk', hag', hne'⟩ :=
          accPush_spec cfg hper p.acc tx (bySender p) hi.accKeys hi.accAgree hi.accNoEmpty hc hnew'
        have hnew2 : tx.id ∉ (contents p).map (·.id) := by rw [← ids_eq]; exact hnew
        obtain ⟨hl1, hl2⟩ := lastPush_spec cfg hlast p.last (contents p) tx hi.lastSub hnew2 hi.lastLen
        obtain ⟨hs1, hs2⟩ := shPush_spec cfg p.sh (contents p) tx hi.shSub hi.shKeys
        simp only [hc, he', hf, hk, hacc, Bool.not_true, Bool.false_eq_true, if_false]
        have hcont : ∀ (q' : Pool), q'.q = p.q ++ [⟨tx, now⟩] → contents q' = contents p ++ [tx] := by
          intro q' h; simp [contents, h]
        refine
          { nodup := ?_, cap := ?_, accKeys := hk', accAgree := ?_, accNoEmpty := hne', perSender := ?_,
            lastSub := ?_, lastLen := hl2, bytes := ?_, fee := ?_, shSub := ?_, shKeys := hs2 }
        · simp only [ids, List.map_append, List.map_cons, List.map_nil]
          rw [List.nodup_append]
          refine ⟨hi.nodup, by simp, ?_⟩
          intro a ha b hb
          simp at hb; subst hb
          intro heq; subst heq
          exact hnew ha
        · simp; omega
        · intro s
          rw [hag' s]
          simp only [bySender, contents, List.map_append, List.map_cons, List.map_nil, List.filter_append]
          by_cases h : tx.snd = s
          · simp [h]
          · simp [h]
        · intro s
          simp only [bySender, contents, List.map_append, List.map_cons, List.map_nil, List.filter_append]
          by_cases h : tx.snd = s
          · subst h
            simp
            -- the sender had room
            unfold accCanPush at hc
            have := hi.accAgree tx.snd
            cases hg : accGet p.acc tx.snd with
            | none =>
              rw [accTxs_of_get_none hg] at this
              simp only [bySender, contents] at this
              rw [← this]; simp; omega
            | some l =>
              rw [accTxs_of_get_some hg] at this
              rw [hg] at hc
              simp only [bySender, contents] at this
              rw [← this]
              have : l.length < cfg.perAcc := by simpa using hc
              omega
          · have := hi.perSender s
            simp only [bySender, contents] at this
            simp [h]; exact this
        · simpa [contents] using hl1
        · simp only []; rw [sumSize_append, hi.bytes]
        · simp only []; rw [sumFee_append, hi.fee]
        · simpa [contents] using hs1
  · simp [hc]; exact hi

/-! ### txCache.Remove preserves the invariant -/

theorem sum_remove (f : Item → Int) : ∀ (q : List Item), (q.map (fun a => a.tx.id)).Nodup → ∀ it ∈ q,
    ((q.filter (fun a => a.tx.id != it.tx.id)).map f).sum = (q.map f).sum - f it := by
  intro q
  induction q with
  | nil => intro _ it h; cases h
  | cons x xs ih =>
    intro hnd it hit
    rw [List.map_cons, List.nodup_cons] at hnd
    rcases List.mem_cons.mp hit with rfl | hit'
    · have hself : (List.filter (fun a => a.tx.id != it.tx.id) xs) = xs := by
        rw [List.filter_eq_self]
        intro a ha
        have : a.tx.id ≠ it.tx.id := by
          intro h; exact hnd.1 (h ▸ List.mem_map_of_mem (f := fun a : Item => a.tx.id) ha)
        simpa using this
      rw [List.filter_cons]
      simp [hself]
      omega
    · have hne : x.tx.id ≠ it.tx.id := by
        intro h; exact hnd.1 (h ▸ List.mem_map_of_mem (f := fun a : Item => a.tx.id) hit')
      rw [List.filter_cons]
      have : (x.tx.id != it.tx.id) = true := by simpa using hne
      simp only [this, if_true, List.map_cons, List.sum_cons]
      rw [ih hnd.2 it hit']
      omega

theorem contents_filter (q : List Item) (id : Nat) :
    (q.filter (fun a => a.tx.id != id)).map (·.tx) = (q.map (·.tx)).filter (fun t => t.id != id) := by
  rw [List.filter_map]; rfl

theorem remove_inv (cfg : Cfg) (p : Pool) (id : Nat) (hi : Inv cfg p) : Inv cfg (remove p id) := by
  unfold remove
  cases hg : qGet p id with
  | none => exact hi
  | some it =>
    obtain ⟨hit, hid⟩ := kget_some _ _ _ _ hg
    have hitc : it.tx ∈ contents p := List.mem_map_of_mem hit
    have hinj : ∀ t ∈ contents p, t.id = id → t = it.tx := by
      intro t ht h
      have hnd : ((contents p).map (·.id)).Nodup := by rw [← ids_eq]; exact hi.nodup
      exact key_inj_of_nodup Tx.id _ hnd t ht it.tx hitc (by rw [h, hid])
    have hcont : (kremove (fun it : Item => it.tx.id) p.q id).map (·.tx) =
        (contents p).filter (fun t => t.id != id) := by
      simp only [contents, kremove]; exact contents_filter _ _
    -- the sender's entry exists and is the per-sender view
    have hl : accGet p.acc it.tx.snd = some (bySender p it.tx.snd) := by
      have hag := hi.accAgree it.tx.snd
      cases h : accGet p.acc it.tx.snd with
      | none =>
        rw [accTxs_of_get_none h] at hag
        have : it.tx ∈ bySender p it.tx.snd := by simp [bySender, hitc]
        rw [← hag] at this; cases this
      | some l => rw [accTxs_of_get_some h] at hag; rw [hag]
    have hby : ∀ s, (((contents p).filter (fun t => t.id != id)).filter (fun t => t.snd == s)) =
        (bySender p s).filter (fun t => t.id != id) := by
      intro s; simp only [bySender, List.filter_filter]; congr 1; funext t; exact Bool.and_comm _ _
    have hother : ∀ s, s ≠ it.tx.snd → (bySender p s).filter (fun t => t.id != id) = bySender p s := by
      intro s hs
      rw [List.filter_eq_self]
      intro t ht
      have htc : t ∈ contents p := (List.mem_filter.mp ht).1
      have hts : t.snd = s := by simpa using (List.mem_filter.mp ht).2
      have : t.id ≠ id := by
        intro h; have := hinj t htc h; rw [this] at hts; exact hs hts.symm
      simpa using this
    have hacc : (∀ s, accTxs (accRemove p.acc it.tx) s = (bySender p s).filter (fun t => t.id != id)) ∧
        ((accRemove p.acc it.tx).map (·.1)).Nodup ∧ (∀ e ∈ accRemove p.acc it.tx, e.2 ≠ []) := by
      unfold accRemove
      rw [hl]
      have hkr : kremove Tx.id (bySender p it.tx.snd) it.tx.id = (bySender p it.tx.snd).filter (fun t => t.id != id) := by
        simp [kremove, hid]
      simp only [hkr]
      by_cases hemp : ((bySender p it.tx.snd).filter (fun t => t.id != id)).isEmpty = true
      · simp only [hemp, if_true]
        refine ⟨?_, ?_, ?_⟩
        · intro s
          unfold accTxs
          rw [accGet_filter]
          by_cases hs : s = it.tx.snd
          · subst hs; simp [List.isEmpty_iff.mp hemp]
          · simp only [hs, if_false]
            have := hi.accAgree s
            simp only [accTxs] at this
            rw [this, hother s hs]
        · exact (hi.accKeys).sublist ((List.filter_sublist).map _)
        · intro e he; exact hi.accNoEmpty e (List.mem_filter.mp he).1
      · simp only [hemp, Bool.false_eq_true, if_false]
        refine ⟨?_, ?_, ?_⟩
        · intro s
          unfold accTxs
          by_cases hs : s = it.tx.snd
          · subst hs; rw [accGet_accSet_same _ _ _ (by simp [hl])]
          · rw [accGet_accSet_other _ _ _ _ hs]
            have := hi.accAgree s
            simp only [accTxs] at this
            rw [this, hother s hs]
        · rw [accSet_keys]; exact hi.accKeys
        · intro e he
          rcases mem_accSet he with h | h
          · exact hi.accNoEmpty e h
          · subst h; intro h0; apply hemp; simp only at h0; rw [h0]; rfl
    obtain ⟨ha1, ha2, ha3⟩ := hacc
    simp only []
    refine
      { nodup := ?_, cap := ?_, accKeys := ha2, accAgree := ?_, accNoEmpty := ha3, perSender := ?_,
        lastSub := ?_, lastLen := ?_, bytes := ?_, fee := ?_, shSub := ?_, shKeys := ?_ }
    · simp only [ids, kremove]
      exact (hi.nodup).sublist ((List.filter_sublist).map _)
    · simp only [kremove]; exact Nat.le_trans (List.length_filter_le _ _) hi.cap
    · intro s; rw [ha1 s]; simp only [bySender, contents]; rw [hcont]; exact (hby s).symm
    · intro s
      simp only [bySender, contents]
      rw [hcont, hby s]
      exact Nat.le_trans (List.length_filter_le _ _) (hi.perSender s)
    · simp only [contents]; rw [hcont]; simp only [kremove]; exact hi.lastSub.filter _
    · simp only [kremove]; exact Nat.le_trans (List.length_filter_le _ _) hi.lastLen
    · simp only [kremove, sumSize]
      rw [← hid, sum_remove _ p.q (by simpa [ids] using hi.nodup) it hit, hi.bytes]; rfl
    · simp only [kremove, sumFee]
      rw [← hid, sum_remove _ p.q (by simpa [ids] using hi.nodup) it hit, hi.fee]; rfl
    · simp only [contents]; rw [hcont]
      simp only [kremove]
      have himp : ∀ t ∈ p.sh, (t.sh != it.tx.sh) = true → (t.id != id) = true := by
        intro t ht h
        have : t.id ≠ id := by
          intro h'
          have := hinj t (hi.shSub.subset ht) h'
          rw [this] at h; simp at h
        simpa using this
      have : p.sh.filter (fun t => t.sh != it.tx.sh) =
          (p.sh.filter (fun t => t.id != id)).filter (fun t => t.sh != it.tx.sh) := by
        rw [List.filter_filter]
        apply List.filter_congr
        intro t ht
        cases h : (t.sh != it.tx.sh)
        · simp
        · simp [himp t ht h]
      rw [this]
      exact (List.filter_sublist).trans (hi.shSub.filter _)
    · simp only [kremove]
      exact (hi.shKeys).sublist ((List.filter_sublist).map _)

end C21
