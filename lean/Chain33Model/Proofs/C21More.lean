import Chain33Model.Proofs.C21Run
/-!
Further facts: failed pushes change nothing, block transactions are gone after removal,
the newest entry heads the latest list, and the short-hash index under the no-collision hypothesis.
-/
namespace C21

theorem accPush_of_canPush (cfg : Cfg) (hper : 0 < cfg.perAcc) (acc : Acc) (tx : Tx)
    (h : accCanPush cfg acc tx = true) : (accPush cfg acc tx).2 = true := by
  unfold accCanPush at h
  unfold accPush
  cases hg : accGet acc tx.snd with
  | none =>
    have : ¬ (0 ≥ cfg.perAcc) := by omega
    simp [this]
  | some l =>
    rw [hg] at h
    have : l.length < cfg.perAcc := by simpa using h
    have : ¬ (l.length ≥ cfg.perAcc) := by omega
    simp [this]

/-- A push that does not answer `ok` leaves the pool exactly as it was. -/
theorem push_fail_unchanged' (cfg : Cfg) (hper : 0 < cfg.perAcc) (p : Pool) (tx : Tx) (now : Int)
    (h : (push cfg p tx now).2 ≠ .ok) : (push cfg p tx now).1 = p := by
  unfold push at h ⊢
  by_cases hc : accCanPush cfg p.acc tx = true
  · by_cases he : qExist p tx.id = true
    · simp [hc, he]
    · by_cases hf : p.q.length ≥ cfg.cap
      · simp [hc, he, hf]
      · exfalso
        apply h
        have he' : qExist p tx.id = false := by simpa using he
        simp only [hc, he', hf, Bool.not_true, Bool.false_eq_true, if_false]
        have := accPush_of_canPush cfg hper p.acc tx hc
        cases hacc : accPush cfg p.acc tx with
        | mk acc' b =>
          rw [hacc] at this
          simp only at this
          subst this
          rfl
  · simp [hc]

/-! ### ids only shrink under removals -/

theorem ids_remove_sub (p : Pool) (id : Nat) : (ids (remove p id)).Sublist (ids p) := by
  unfold remove
  cases qGet p id with
  | none => exact List.Sublist.refl _
  | some it => simp only [ids, kremove]; exact (List.filter_sublist).map _

theorem not_mem_ids_remove (p : Pool) (id : Nat) : id ∉ ids (remove p id) := by
  unfold remove
  cases hg : qGet p id with
  | none =>
    simp only
    intro hmem
    have : qExist p id = true := by
      unfold qExist; rw [kexist_true_iff]
      simp only [ids, List.mem_map] at hmem
      obtain ⟨it, hit, h⟩ := hmem
      exact ⟨it, hit, h⟩
    unfold qGet kget at hg
    rw [List.find?_eq_none] at hg
    unfold qExist at this
    rw [kexist_true_iff] at this
    obtain ⟨a, ha, hk⟩ := this
    exact hg a ha (by simpa using hk)
  | some it =>
    simp only [ids, kremove, List.mem_map, List.mem_filter]
    rintro ⟨a, ⟨_, ha⟩, hk⟩
    simp at ha
    exact ha hk

theorem ids_removeTxs_sub (is : List Nat) : ∀ p, (ids (removeTxs p is)).Sublist (ids p) := by
  induction is with
  | nil => intro p; exact List.Sublist.refl _
  | cons i is ih =>
    intro p
    rw [removeTxs_cons]
    refine (ih _).trans ?_
    split
    · exact ids_remove_sub p i
    · exact List.Sublist.refl _

theorem removeTxs_gone (is : List Nat) : ∀ p, ∀ id ∈ is, id ∉ ids (removeTxs p is) := by
  induction is with
  | nil => intro p id h; cases h
  | cons i is ih =>
    intro p id hid
    rw [removeTxs_cons]
    rcases List.mem_cons.mp hid with rfl | h
    · intro hmem
      have hsub := (ids_removeTxs_sub is (if qExist p id = true then remove p id else p)).subset hmem
      by_cases he : qExist p id = true
      · simp only [he, if_true] at hsub
        exact not_mem_ids_remove p id hsub
      · simp only [he] at hsub
        have := (qExist_false_iff p id).mp (by simpa using he)
        exact this hsub
    · exact ih _ id h

theorem ids_setHeader (p : Pool) (h bt : Int) : ids (setHeader p h bt) = ids p := rfl

theorem addBlock_gone (cfg : Cfg) (p : Pool) (bh bbt : Int) (is : List Nat) (now : Int) :
    ∀ id ∈ is, id ∉ ids (addBlock cfg p bh bbt is now) := by
  intro id hid
  unfold addBlock
  -- whatever the header decision, the pool `p1` has the same queue
  generalize hp1 : (if (decide (bh > p.h) || (bh == 0 && p.h == 0)) = true then setHeader p bh bbt else p) = p1
  simp only
  by_cases hq : p1.q.length > 0
  · simp only [hq, if_true]
    intro hmem
    have := (ids_removeTxs_sub _ _).subset hmem
    exact removeTxs_gone is p1 id hid this
  · simp only [hq, if_false]
    have : p1.q = [] := by
      cases h : p1.q with
      | nil => rfl
      | cons a b => rw [h] at hq; simp at hq
    simp [ids, this]

/-! ### the newest entry -/

theorem push_ok_newest (cfg : Cfg) (hper : 0 < cfg.perAcc) (_hlast : 0 < cfg.lastMax) (p : Pool) (tx : Tx) (now : Int)
    (hi : Inv cfg p) (hok : (push cfg p tx now).2 = .ok) :
    (contents (push cfg p tx now).1).getLast? = some tx ∧ ((push cfg p tx now).1).last.getLast? = some tx := by
  unfold push at hok ⊢
  by_cases hc : accCanPush cfg p.acc tx = true
  · by_cases he : qExist p tx.id = true
    · simp [hc, he] at hok
    · by_cases hf : p.q.length ≥ cfg.cap
      · simp [hc, he, hf] at hok
      · have he' : qExist p tx.id = false := by simpa using he
        have hk : kpush (fun it : Item => it.tx.id) p.q ⟨tx, now⟩ = p.q ++ [⟨tx, now⟩] :=
          kpush_of_not_exist _ _ _ (by simpa [qExist] using he')
        have hb := accPush_of_canPush cfg hper p.acc tx hc
        cases hacc : accPush cfg p.acc tx with
        | mk acc' b =>
          rw [hacc] at hb
          simp only at hb
          subst hb
          simp only [hc, he', hf, hk, hacc, Bool.not_true, Bool.false_eq_true, if_false]
          refine ⟨by simp [contents], ?_⟩
          -- lastPush ends with tx
          unfold lastPush
          have hnew : tx.id ∉ ids p := (qExist_false_iff _ _).mp he'
          have key : ∀ last1 : List Tx, last1.Sublist p.last → (kpush Tx.id last1 tx).getLast? = some tx := by
            intro last1 h1
            have hne : kexist Tx.id last1 tx.id = false := by
              rw [kexist_false_iff]
              intro a ha heq
              exact hnew (heq ▸ id_mem_ids ((h1.trans hi.lastSub).subset ha))
            rw [kpush_of_not_exist _ _ _ hne]; simp
          split
          · split
            · exact key _ (kremove_sublist _ _ _)
            · exact key _ (List.Sublist.refl _)
          · exact key _ (List.Sublist.refl _)
  · simp [hc] at hok

end C21
