import Chain33Model.Proofs.C21Inv
/-!
Lifting of per-operation facts (`push`, `remove`, `setHeader`) to every event of the model
(`removeTxs`, `removeExpired`, `addBlock`, `delBlock`) and to runs.
-/
namespace C21

/-- The transactions an event may push. -/
def Op.txs : Op → List Tx
  | .push tx _ => [tx]
  | .delBlock _ _ _ cs _ => cs.flatMap (fun c => [c.single, c.merged])
  | _ => []

/-- A predicate on pools preserved by the three primitive mutations. -/
structure Closed (cfg : Cfg) (U : Tx → Prop) (P : Pool → Prop) : Prop where
  push : ∀ p tx now, U tx → P p → P (push cfg p tx now).1
  remove : ∀ p id, P p → P (remove p id)
  hdr : ∀ p h bt, P p → P (setHeader p h bt)

variable {cfg : Cfg} {U : Tx → Prop} {P : Pool → Prop}

theorem removeTxs_cons (p : Pool) (i : Nat) (is : List Nat) :
    removeTxs p (i :: is) = removeTxs (if qExist p i then remove p i else p) is := rfl

theorem Closed.removeTxs (hc : Closed cfg U P) (is : List Nat) : ∀ p, P p → P (removeTxs p is) := by
  induction is with
  | nil => intro p h; exact h
  | cons i is ih =>
    intro p h
    rw [removeTxs_cons]
    apply ih
    split
    · exact hc.remove p i h
    · exact h

theorem Closed.removeExpired (hc : Closed cfg U P) (p : Pool) (now : Int) (h : P p) : P (removeExpired cfg p now) :=
  hc.removeTxs _ p h

theorem Closed.addBlock (hc : Closed cfg U P) (p : Pool) (bh bbt : Int) (is : List Nat) (now : Int) (h : P p) :
    P (addBlock cfg p bh bbt is now) := by
  unfold C21.addBlock
  by_cases hh : (decide (bh > p.h) || (bh == 0 && p.h == 0)) = true
  · simp only [hh, if_true]
    by_cases hq : (setHeader p bh bbt).q.length > 0
    · simp only [hq, if_true]; exact hc.removeExpired _ now (hc.removeTxs is _ (hc.hdr p bh bbt h))
    · simp only [hq, if_false]; exact hc.hdr p bh bbt h
  · simp only [hh, Bool.false_eq_true, if_false]
    by_cases hq : p.q.length > 0
    · simp only [hq, if_true]; exact hc.removeExpired _ now (hc.removeTxs is _ h)
    · simp only [hq, if_false]; exact h

theorem Closed.walkStep (hc : Closed cfg U P) (now : Int) (p : Pool) (c : BCand) (fits : Bool)
    (hUc : U c.single ∧ U c.merged) (h : P p) :
    P (if (c.chk && expireValid cfg p (if fits = true then c.merged else c.single) now) = true
        then (C21.push cfg p (if fits = true then c.merged else c.single) now).1 else p) := by
  cases fits
  · simp only [Bool.false_eq_true, if_false]
    by_cases hcond : (c.chk && expireValid cfg p c.single now) = true
    · simp only [hcond, if_true]; exact hc.push _ _ _ hUc.1 h
    · simp only [hcond]; exact h
  · simp only [if_true]
    by_cases hcond : (c.chk && expireValid cfg p c.merged now) = true
    · simp only [hcond, if_true]; exact hc.push _ _ _ hUc.2 h
    · simp only [hcond]; exact h

theorem Closed.delBlockWalk (hc : Closed cfg U P) (now : Int) : ∀ (fuel : Nat) (cs : List BCand) (p : Pool),
    (∀ c ∈ cs, U c.single ∧ U c.merged) → P p → P (delBlockWalk cfg now fuel cs p) := by
  intro fuel
  induction fuel with
  | zero =>
    intro cs p hU h
    cases cs with
    | nil => simpa [C21.delBlockWalk] using h
    | cons c rest =>
      simp only [C21.delBlockWalk]
      exact hc.walkStep now p c _ (hU c (List.mem_cons_self ..)) h
  | succ n ih =>
    intro cs p hU h
    cases cs with
    | nil => simpa [C21.delBlockWalk] using h
    | cons c rest =>
      simp only [C21.delBlockWalk]
      apply ih
      · intro c' hc'
        apply hU c'
        apply List.mem_cons_of_mem
        split at hc'
        · exact List.mem_of_mem_drop hc'
        · exact hc'
      · exact hc.walkStep now p c _ (hU c (List.mem_cons_self ..)) h

theorem Closed.delBlock (hc : Closed cfg U P) (p : Pool) (blkH nh nbt : Int) (cs : List BCand) (now : Int)
    (hU : ∀ c ∈ cs, U c.single ∧ U c.merged) (h : P p) : P (delBlock cfg p blkH nh nbt cs now) := by
  unfold C21.delBlock
  split
  · exact h
  · exact hc.delBlockWalk now _ cs _ hU (hc.hdr p nh nbt h)

theorem Closed.step (hc : Closed cfg U P) (p : Pool) (op : Op) (hU : ∀ t ∈ op.txs, U t) (h : P p) :
    P (step cfg p op).1 := by
  cases op with
  | push tx now => exact hc.push p tx now (hU tx (by simp [Op.txs])) h
  | removeTxs is => exact hc.removeTxs is p h
  | setHeader h' bt => exact hc.hdr p h' bt h
  | removeExpired now => exact hc.removeExpired p now h
  | addBlock bh bbt is now => exact hc.addBlock p bh bbt is now h
  | delBlock blkH nh nbt cs now =>
    apply hc.delBlock p blkH nh nbt cs now _ h
    intro c hcm
    constructor
    · apply hU; simp only [Op.txs, List.mem_flatMap]; exact ⟨c, hcm, by simp⟩
    · apply hU; simp only [Op.txs, List.mem_flatMap]; exact ⟨c, hcm, by simp⟩
  | query => exact h

theorem Closed.run (hc : Closed cfg U P) (ops : List Op) : ∀ p, (∀ op ∈ ops, ∀ t ∈ op.txs, U t) → P p →
    P (run cfg p ops) := by
  induction ops with
  | nil => intro p _ h; exact h
  | cons op ops ih =>
    intro p hU h
    simp only [C21.run, List.foldl_cons]
    apply ih
    · intro op' ho; exact hU op' (List.mem_cons_of_mem _ ho)
    · exact hc.step p op (hU op (List.mem_cons_self ..)) h

/-- The C21 invariant is closed. -/
theorem inv_closed (cfg : Cfg) (hper : 0 < cfg.perAcc) (hlast : 0 < cfg.lastMax) :
    Closed cfg (fun _ => True) (Inv cfg) where
  push := fun p tx now _ h => push_inv cfg hper hlast p tx now h
  remove := fun p id h => remove_inv cfg p id h
  hdr := fun _ _ _ hi =>
    { nodup := hi.nodup, cap := hi.cap, accKeys := hi.accKeys, accAgree := hi.accAgree, accNoEmpty := hi.accNoEmpty,
      perSender := hi.perSender, lastSub := hi.lastSub, lastLen := hi.lastLen, bytes := hi.bytes, fee := hi.fee,
      shSub := hi.shSub, shKeys := hi.shKeys }

end C21
