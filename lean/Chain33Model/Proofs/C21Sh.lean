import Chain33Model.Proofs.C21More
/-!
The short-hash index agrees with the contents as long as no two distinct transactions of the
history share a short hash.
-/
namespace C21

structure ShInv (cfg : Cfg) (U : Tx → Prop) (p : Pool) : Prop where
  inv : Inv cfg p
  inU : ∀ t ∈ contents p, U t
  full : ∀ t ∈ contents p, t ∈ p.sh

theorem push_cases (cfg : Cfg) (hper : 0 < cfg.perAcc) (p : Pool) (tx : Tx) (now : Int) :
    (push cfg p tx now).1 = p ∨
    (∃ acc', (push cfg p tx now).1 =
        { p with q := p.q ++ [(⟨tx, now⟩ : Item)], bytes := p.bytes + tx.size, acc := acc',
                 last := lastPush cfg p.last tx, fee := p.fee + tx.fee, sh := shPush cfg p.sh tx } ∧
      qExist p tx.id = false ∧ p.q.length < cfg.cap) := by
  unfold push
  by_cases hc : accCanPush cfg p.acc tx = true
  · by_cases he : qExist p tx.id = true
    · left; simp [hc, he]
    · by_cases hf : p.q.length ≥ cfg.cap
      · left; simp [hc, he, hf]
      · right
        have he' : qExist p tx.id = false := by simpa using he
        have hk : kpush (fun it : Item => it.tx.id) p.q ⟨tx, now⟩ = p.q ++ [⟨tx, now⟩] :=
          kpush_of_not_exist _ _ _ (by simpa [qExist] using he')
        have hb := accPush_of_canPush cfg hper p.acc tx hc
        cases hacc : accPush cfg p.acc tx with
        | mk acc' b =>
          rw [hacc] at hb
          simp only at hb
          subst hb
          simp only [hc, he', hf, hk, hacc, Bool.not_true, Bool.false_eq_true, if_false]
          exact ⟨acc', rfl, trivial, by omega⟩
  · left; simp [hc]

/-- "hash `id` is not pooled" is preserved by everything except a push of that hash -/
theorem absent_closed (cfg : Cfg) (hper : 0 < cfg.perAcc) (id : Nat) :
    Closed cfg (fun t => t.id ≠ id) (fun p => id ∉ ids p) where
  push := by
    intro p tx now hne h
    rcases push_cases cfg hper p tx now with heq | ⟨acc', heq, _, _⟩
    · rw [heq]; exact h
    · rw [heq]
      simp only [ids, List.map_append, List.map_cons, List.map_nil, List.mem_append, List.mem_singleton]
      intro hm
      rcases hm with hm | hm
      · exact h hm
      · exact hne hm.symm
  remove := fun p i h hm => h ((ids_remove_sub p i).subset hm)
  hdr := fun _ _ _ h => h

theorem sub_shPush (cfg : Cfg) (sh : List Tx) (tx : Tx) : ∀ t ∈ sh, t ∈ shPush cfg sh tx := by
  intro t ht
  unfold shPush
  split
  · exact ht
  · split
    · exact ht
    · unfold kpush
      split
      · rename_i h1 _ h3; rw [h3] at h1; exact absurd rfl h1
      · exact List.mem_append_left _ ht

theorem shInv_closed (cfg : Cfg) (hper : 0 < cfg.perAcc) (hlast : 0 < cfg.lastMax) (hcap : cfg.cap ≤ cfg.shMax)
    (U : Tx → Prop) (hU : ∀ a b, U a → U b → a.sh = b.sh → a.id = b.id) :
    Closed cfg U (ShInv cfg U) where
  push := by
    intro p tx now hUtx h
    have hinv := push_inv cfg hper hlast p tx now h.inv
    rcases push_cases cfg hper p tx now with heq | ⟨acc', heq, hne, hlt⟩
    · rw [heq]; exact h
    · refine ⟨hinv, ?_, ?_⟩
      · rw [heq]
        intro t ht
        simp only [contents, List.map_append, List.map_cons, List.map_nil, List.mem_append, List.mem_singleton] at ht
        rcases ht with ht | rfl
        · exact h.inU t ht
        · exact hUtx
      · rw [heq]
        intro t ht
        simp only [contents, List.map_append, List.map_cons, List.map_nil, List.mem_append, List.mem_singleton] at ht
        simp only
        rcases ht with ht | rfl
        · exact sub_shPush cfg p.sh tx t (h.full t ht)
        · have hnew : t.id ∉ ids p := (qExist_false_iff _ _).mp hne
          unfold shPush
          by_cases he : kexist Tx.sh p.sh t.sh = true
          · exfalso
            obtain ⟨t0, ht0, hsh⟩ := (kexist_true_iff _ _ _).mp he
            have hc0 : t0 ∈ contents p := h.inv.shSub.subset ht0
            have := hU t0 t (h.inU t0 hc0) hUtx hsh
            exact hnew (this ▸ id_mem_ids hc0)
          · have he' : kexist Tx.sh p.sh t.sh = false := by simpa using he
            simp only [he', Bool.false_eq_true, if_false]
            have hlen : p.sh.length ≤ p.q.length := by
              have := h.inv.shSub.length_le
              simpa [contents] using this
            have hf : ¬ (p.sh.length ≥ cfg.shMax) := by omega
            simp only [hf, if_false]
            rw [kpush_of_not_exist _ _ _ he']
            simp
  remove := by
    intro p id h
    have hinv := remove_inv cfg p id h.inv
    refine ⟨hinv, ?_, ?_⟩
    · intro t ht
      have : t.id ∈ ids p := (ids_remove_sub p id).subset (id_mem_ids ht)
      -- contents only shrink
      have hsub : (contents (remove p id)).Sublist (contents p) := by
        unfold remove
        cases qGet p id with
        | none => exact List.Sublist.refl _
        | some it => simp only [contents, kremove]; exact (List.filter_sublist).map _
      exact h.inU t (hsub.subset ht)
    · intro t ht
      unfold remove at ht ⊢
      cases hg : qGet p id with
      | none => rw [hg] at ht; exact h.full t ht
      | some it =>
        rw [hg] at ht
        simp only [contents, kremove] at ht ⊢
        obtain ⟨hit, hid⟩ := kget_some _ _ _ _ hg
        obtain ⟨a, ha, rfl⟩ := List.mem_map.mp ht
        obtain ⟨haq, hne⟩ := List.mem_filter.mp ha
        have hac : a.tx ∈ contents p := List.mem_map_of_mem haq
        have hitc : it.tx ∈ contents p := List.mem_map_of_mem hit
        rw [List.mem_filter]
        refine ⟨h.full _ hac, ?_⟩
        have : a.tx.sh ≠ it.tx.sh := by
          intro hsh
          have := hU _ _ (h.inU _ hac) (h.inU _ hitc) hsh
          rw [hid] at this
          simp [this] at hne
        simpa using this
  hdr := by
    intro p hh bt h
    exact ⟨(inv_closed cfg hper hlast).hdr p hh bt h.inv, h.inU, h.full⟩

theorem shInv_empty (cfg : Cfg) (U : Tx → Prop) (h bt : Int) : ShInv cfg U (Pool.empty h bt) :=
  ⟨inv_empty cfg h bt, by simp [Pool.empty, contents], by simp [Pool.empty, contents]⟩

/-- Under `ShInv`, a lookup by the short hash of a pooled transaction returns that transaction. -/
theorem byShort_of_shInv (cfg : Cfg) (U : Tx → Prop) (hU : ∀ a b, U a → U b → a.sh = b.sh → a.id = b.id)
    (p : Pool) (h : ShInv cfg U p) : ∀ t ∈ contents p, byShort p t.sh = some t := by
  intro t ht
  unfold byShort kget
  have hts : t ∈ p.sh := h.full t ht
  cases hf : p.sh.find? (fun a => a.sh == t.sh) with
  | none =>
    rw [List.find?_eq_none] at hf
    exact absurd (by simp) (hf t hts)
  | some t' =>
    have hm : t' ∈ p.sh := List.mem_of_find?_eq_some hf
    have hs : t'.sh = t.sh := by simpa using List.find?_some hf
    have hc' : t' ∈ contents p := h.inv.shSub.subset hm
    have hid := hU t' t (h.inU t' hc') (h.inU t ht) hs
    have hnd : ((contents p).map (·.id)).Nodup := by rw [← ids_eq]; exact h.inv.nodup
    rw [key_inj_of_nodup Tx.id _ hnd t' hc' t ht hid]

/-- Unconditionally: whatever a short-hash lookup returns is a pooled transaction with that short hash. -/
theorem byShort_sound (cfg : Cfg) (p : Pool) (h : Inv cfg p) (s : Nat) (t : Tx) (hb : byShort p s = some t) :
    t ∈ contents p ∧ t.sh = s := by
  obtain ⟨hm, hk⟩ := kget_some _ _ _ _ hb
  exact ⟨h.shSub.subset hm, hk⟩

end C21
