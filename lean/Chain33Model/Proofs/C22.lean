import Chain33Model.Model.C22
import Chain33Model.Proofs.C21More
/-!
Helper lemmas for C22: what each admission check guarantees when it answers `ok`.
-/
namespace C22
open C21

theorem seq_ok (a b : Except Err Unit) : seq a b = .ok () ↔ a = .ok () ∧ b = .ok () := by
  unfold seq
  cases a with
  | error e => simp
  | ok u => cases u; simp

theorem firstErr_ok (f : Member → Except Err Unit) (l : List Member) :
    firstErr f l = .ok () ↔ ∀ m ∈ l, f m = .ok () := by
  induction l with
  | nil => simp [firstErr]
  | cons m ms ih => simp [firstErr, seq_ok, ih]

theorem checkMember_ok (cfg : Cfg) (p : Pool) (now : Int) (m : Member) (h : checkMember cfg p now m = .ok ()) :
    m.toOk = true ∧ m.bl = false ∧ accNum p.acc m.snd < cfg.perAcc ∧
    expired1 cfg m.exp (p.h + 1) p.bt = false ∧ ¬ (m.exp > expireBound ∧ m.exp < now + 60) := by
  unfold checkMember at h
  by_cases h1 : m.toOk = true
  · by_cases h2 : m.bl = true
    · simp [h1, h2] at h
    · by_cases h3 : accNum p.acc m.snd ≥ cfg.perAcc
      · simp [h1, h2, h3] at h
      · by_cases h4 : expired1 cfg m.exp (p.h + 1) p.bt = true
        · simp [h1, h2, h3, h4] at h
        · by_cases h5 : (decide (m.exp > expireBound) && decide (m.exp < now + 60)) = true
          · simp [h1, h2, h3, h4, h5] at h
          · refine ⟨h1, by simpa using h2, by omega, by simpa using h4, ?_⟩
            intro ⟨ha, hb⟩
            apply h5
            simp [ha, hb]
  · simp [h1] at h

theorem checkFee_ok (a : ACfg) (s : Sub) (h : checkFee a s = .ok ()) (hmin : a.minFee ≠ 0) :
    ∃ t, totalFee s.ms a.minFee = .ok t ∧ t ≤ s.tx.fee := by
  unfold checkFee at h
  split at h
  · rename_i m hm
    have h0 : (a.minFee == 0) = false := by simpa using hmin
    simp only [h0, Bool.false_eq_true, if_false] at h
    rw [hm]
    split at h
    · cases h
    · rename_i f hf
      by_cases hlt : s.tx.fee < f
      · simp [hlt] at h
      · exact ⟨f, hf, by omega⟩
  · split at h
    · cases h
    · split at h
      · cases h
      · rename_i t ht
        by_cases hlt : s.tx.fee < t
        · simp [hlt] at h
        · exact ⟨t, ht, by omega⟩

theorem checkLevelFee_ok (a : ACfg) (p : Pool) (s : Sub) (h : checkLevelFee a p s = .ok ()) :
    ∃ t, totalFee s.ms (levelRate a p) = .ok t ∧ t ≤ s.tx.fee := by
  unfold checkLevelFee at h
  split at h
  · cases h
  · rename_i t ht
    by_cases hlt : s.tx.fee < t
    · simp [hlt] at h
    · exact ⟨t, ht, by omega⟩

theorem nonceCheck_ok (p : Pool) (v : View) (tx : Tx) (h : nonceCheck p v tx = .ok ()) (heth : tx.eth = true) :
    curNonce v tx.snd ≤ tx.nonce ∧ ∀ t ∈ accTxs p.acc tx.snd, t.id ≠ tx.id → t.nonce ≠ tx.nonce := by
  unfold nonceCheck at h
  simp only [heth, Bool.not_true, Bool.false_eq_true, if_false] at h
  by_cases h1 : tx.nonce < curNonce v tx.snd
  · simp [h1] at h
  · simp only [h1, if_false] at h
    by_cases h2 : (accTxs p.acc tx.snd).any (fun t => t.id != tx.id && t.nonce == tx.nonce) = true
    · simp [h2] at h
    · refine ⟨by omega, ?_⟩
      intro t ht hid hn
      apply h2
      rw [List.any_eq_true]
      exact ⟨t, ht, by simp [hid, hn]⟩

theorem push_ok_not_exist (cfg : Cfg) (p : Pool) (tx : Tx) (now : Int) (h : (push cfg p tx now).2 = .ok) :
    qExist p tx.id = false := by
  unfold push at h
  by_cases hc : accCanPush cfg p.acc tx = true
  · by_cases he : qExist p tx.id = true
    · simp [hc, he] at h
    · simpa using he
  · simp [hc] at h

end C22
