import Mathlib.Data.List.Nodup
import Mathlib.Data.List.Perm.Subperm
import Chain33Model.Model.C23
import Chain33Model.Proofs.C21Inv
/-!
Helper lemmas for C23: the filtered walk and the per-sender nonce chains.
-/
namespace C23
open C21

/-! ### the walk -/

theorem collect_sublist (keep : Item → Bool) (count : Nat) :
    ∀ (l : List Item) (n : Nat), (collect keep count l n).Sublist (l.map (·.tx)) := by
  intro l
  induction l with
  | nil => intro n; simp [collect]
  | cons it rest ih =>
    intro n
    unfold collect
    by_cases hk : keep it = true
    · simp only [hk, if_true]
      by_cases he : (decide (count > 0) && n + 1 == count) = true
      · simp only [he, if_true, List.map_cons]
        exact List.Sublist.cons_cons _ (List.nil_sublist _)
      · simp only [he, Bool.false_eq_true, if_false, List.map_cons]
        exact List.Sublist.cons_cons _ (ih (n + 1))
    · simp only [hk, Bool.false_eq_true, if_false, List.map_cons]
      exact List.Sublist.cons _ (ih n)

theorem collect_keep (keep : Item → Bool) (count : Nat) :
    ∀ (l : List Item) (n : Nat) (t : Tx), t ∈ collect keep count l n → ∃ it ∈ l, it.tx = t ∧ keep it = true := by
  intro l
  induction l with
  | nil => intro n t h; simp [collect] at h
  | cons it rest ih =>
    intro n t h
    unfold collect at h
    by_cases hk : keep it = true
    · simp only [hk, if_true] at h
      by_cases he : (decide (count > 0) && n + 1 == count) = true
      · simp only [he, if_true, List.mem_singleton] at h
        exact ⟨it, List.mem_cons_self .., h.symm, hk⟩
      · simp only [he, Bool.false_eq_true, if_false, List.mem_cons] at h
        rcases h with h | h
        · exact ⟨it, List.mem_cons_self .., h.symm, hk⟩
        · obtain ⟨it', hm, h1, h2⟩ := ih (n + 1) t h
          exact ⟨it', List.mem_cons_of_mem _ hm, h1, h2⟩
    · simp only [hk, Bool.false_eq_true, if_false] at h
      obtain ⟨it', hm, h1, h2⟩ := ih n t h
      exact ⟨it', List.mem_cons_of_mem _ hm, h1, h2⟩

theorem collect_len (keep : Item → Bool) (count : Nat) (hc : 0 < count) :
    ∀ (l : List Item) (n : Nat), n < count → (collect keep count l n).length + n ≤ count := by
  intro l
  induction l with
  | nil => intro n hn; simp [collect]; omega
  | cons it rest ih =>
    intro n hn
    unfold collect
    by_cases hk : keep it
    · simp only [hk, if_true]
      by_cases he : (decide (count > 0) && n + 1 == count) = true
      · simp [he]; omega
      · simp only [he]
        have hne : n + 1 ≠ count := by
          intro h; apply he; simp [h, hc]
        have := ih (n + 1) (by omega)
        simp only [List.length_cons, Bool.false_eq_true, if_false]
        omega
    · simp only [hk, Bool.false_eq_true, if_false]
      exact ih n hn

/-! ### nonce chains -/

/-- `n, n+1, n+2, …` -/
def consecFrom : Int → List Int → Prop
  | _, [] => True
  | n, x :: xs => x = n ∧ consecFrom (n + 1) xs

theorem lastWithNonce_some (l : List Tx) (n : Int) (t : Tx) (h : lastWithNonce l n = some t) :
    t ∈ l ∧ t.nonce = n := by
  unfold lastWithNonce at h
  exact ⟨List.mem_reverse.mp (List.mem_of_find?_eq_some h), by simpa using List.find?_some h⟩

theorem mem_chain (l : List Tx) : ∀ (fuel : Nat) (n : Int) (t : Tx), t ∈ chain l fuel n → t ∈ l := by
  intro fuel
  induction fuel with
  | zero => intro n t h; simp [chain] at h
  | succ k ih =>
    intro n t h
    unfold chain at h
    cases hl : lastWithNonce l n with
    | none => rw [hl] at h; simp at h
    | some t0 =>
      rw [hl] at h
      simp only [List.mem_cons] at h
      rcases h with rfl | h
      · exact (lastWithNonce_some l n _ hl).1
      · exact ih _ _ h

theorem chain_len (l : List Tx) : ∀ (fuel : Nat) (n : Int), (chain l fuel n).length ≤ fuel := by
  intro fuel
  induction fuel with
  | zero => intro n; simp [chain]
  | succ k ih =>
    intro n
    unfold chain
    cases lastWithNonce l n with
    | none => simp
    | some t0 => simp only [List.length_cons]; have := ih (n + 1); omega

theorem chain_consec (l : List Tx) : ∀ (fuel : Nat) (n : Int), consecFrom n ((chain l fuel n).map (·.nonce)) := by
  intro fuel
  induction fuel with
  | zero => intro n; simp [chain, consecFrom]
  | succ k ih =>
    intro n
    unfold chain
    cases hl : lastWithNonce l n with
    | none => simp [consecFrom]
    | some t0 =>
      simp only [List.map_cons, consecFrom]
      exact ⟨(lastWithNonce_some l n _ hl).2, ih (n + 1)⟩

theorem consec_ge : ∀ (l : List Int) (n : Int), consecFrom n l → ∀ x ∈ l, n ≤ x := by
  intro l
  induction l with
  | nil => intro n _ x hx; cases hx
  | cons y ys ih =>
    intro n h x hx
    obtain ⟨h1, h2⟩ := h
    rcases List.mem_cons.mp hx with rfl | hx'
    · omega
    · have := ih (n + 1) h2 x hx'; omega

theorem consec_nodup : ∀ (l : List Int) (n : Int), consecFrom n l → l.Nodup := by
  intro l
  induction l with
  | nil => intro _ _; exact List.nodup_nil
  | cons y ys ih =>
    intro n h
    obtain ⟨h1, h2⟩ := h
    rw [List.nodup_cons]
    refine ⟨?_, ih (n + 1) h2⟩
    intro hm
    have := consec_ge ys (n + 1) h2 y hm
    omega

theorem chain_nodup (l : List Tx) (fuel : Nat) (n : Int) : (chain l fuel n).Nodup :=
  List.Nodup.of_map _ (consec_nodup _ n (chain_consec l fuel n))

/-! ### a chain ends at the first missing nonce -/

theorem lastWithNonce_none (l : List Tx) (n : Int) (h : lastWithNonce l n = none) : ∀ t ∈ l, t.nonce ≠ n := by
  unfold lastWithNonce at h
  rw [List.find?_eq_none] at h
  intro t ht
  have := h t (List.mem_reverse.mpr ht)
  simpa using this

/-- a chain stops because the fuel ran out or because the next nonce is missing -/
theorem chain_stop (l : List Tx) : ∀ (fuel : Nat) (n : Int),
    (chain l fuel n).length = fuel ∨ lastWithNonce l (n + (chain l fuel n).length) = none := by
  intro fuel
  induction fuel with
  | zero => intro n; left; simp [chain]
  | succ k ih =>
    intro n
    unfold chain
    cases hl : lastWithNonce l n with
    | none => right; simpa using hl
    | some t0 =>
      simp only [List.length_cons]
      rcases ih (n + 1) with h | h
      · left; omega
      · right
        have : n + ((chain l k (n + 1)).length + 1 : Nat) = n + 1 + (chain l k (n + 1)).length := by
          push_cast; omega
        rw [this]; exact h

theorem consec_lt : ∀ (l : List Int) (n : Int), consecFrom n l → ∀ x ∈ l, x < n + l.length := by
  intro l
  induction l with
  | nil => intro n _ x hx; cases hx
  | cons y ys ih =>
    intro n h x hx
    obtain ⟨h1, h2⟩ := h
    simp only [List.length_cons]
    rcases List.mem_cons.mp hx with rfl | hx'
    · push_cast; omega
    · have := ih (n + 1) h2 x hx'; push_cast; omega

/-- the chain of a sender ends at the first missing nonce -/
theorem chain_gap (l : List Tx) (n : Int) :
    ∀ t ∈ l, t.nonce ≠ n + (chain l l.length n).length := by
  rcases chain_stop l l.length n with h | h
  · -- fuel exhausted: the chain is a permutation of `l`, all of whose nonces are below the bound
    have hsub : (chain l l.length n) ⊆ l := fun t ht => mem_chain l _ _ t ht
    have hperm : (chain l l.length n).Perm l :=
      (List.subperm_of_subset (chain_nodup l _ n) hsub).perm_of_length_le (by omega)
    intro t ht
    have htc : t ∈ chain l l.length n := hperm.mem_iff.mpr ht
    have := consec_lt _ n (chain_consec l l.length n) t.nonce (List.mem_map_of_mem htc)
    simp only [List.length_map] at this
    omega
  · exact lastWithNonce_none l _ h

/-! ### sortEthSignTyTx -/

/-- the chain of sender `s` -/
def chainOf (cur : Nat → Int) (txs : List Tx) (s : Nat) : List Tx :=
  chain (txs.filter (fun t => t.esort && t.snd == s)) (txs.filter (fun t => t.esort && t.snd == s)).length (cur s)

theorem sortEth_eq (order : List Nat) (cur : Nat → Int) (txs : List Tx) :
    sortEth order cur txs =
      if (txs.filter (fun t => !t.esort)).length == txs.length then txs
      else txs.filter (fun t => !t.esort) ++ order.flatMap (chainOf cur txs) := rfl

theorem mem_chainOf (cur : Nat → Int) (txs : List Tx) (s : Nat) (t : Tx) (h : t ∈ chainOf cur txs s) :
    t ∈ txs ∧ t.esort = true ∧ t.snd = s := by
  have := mem_chain _ _ _ _ h
  rw [List.mem_filter] at this
  obtain ⟨h1, h2⟩ := this
  simp at h2
  exact ⟨h1, h2.1, h2.2⟩

theorem mem_sortEth (order : List Nat) (cur : Nat → Int) (txs : List Tx) (t : Tx)
    (h : t ∈ sortEth order cur txs) : t ∈ txs := by
  rw [sortEth_eq] at h
  split at h
  · exact h
  · rcases List.mem_append.mp h with h | h
    · exact (List.mem_filter.mp h).1
    · obtain ⟨s, _, hs⟩ := List.mem_flatMap.mp h
      exact (mem_chainOf cur txs s t hs).1

theorem filter_all_of_length {α} (p : α → Bool) : ∀ (l : List α), (l.filter p).length = l.length → l.filter p = l := by
  intro l
  induction l with
  | nil => intro _; rfl
  | cons x xs ih =>
    intro h
    rw [List.filter_cons] at h ⊢
    by_cases hp : p x = true
    · simp only [hp, if_true, List.length_cons] at h ⊢
      rw [ih (by omega)]
    · simp only [hp, Bool.false_eq_true, if_false, List.length_cons] at h
      have := List.length_filter_le p xs
      omega

theorem split_len {α} (p q : α → Bool) : ∀ l : List α,
    (l.filter p).length =
      (l.filter (fun t => p t && q t)).length + ((l.filter (fun t => !q t)).filter p).length := by
  intro l
  induction l with
  | nil => rfl
  | cons x xs ih =>
    cases hp : p x <;> cases hq : q x <;>
      simp only [List.filter_cons, hp, hq, Bool.and_false, Bool.and_true, Bool.not_true, Bool.not_false,
        Bool.false_eq_true, if_false, if_true, List.length_cons, Bool.true_and, Bool.false_and] <;> omega

theorem compl_len {α} (p : α → Bool) : ∀ l : List α,
    (l.filter (fun t => !p t)).length + (l.filter p).length = l.length := by
  intro l
  induction l with
  | nil => rfl
  | cons x xs ih =>
    cases hp : p x <;>
      simp only [List.filter_cons, hp, Bool.not_true, Bool.not_false, Bool.false_eq_true, if_false, if_true,
        List.length_cons] <;> omega

/-- the nonce sort neither drops nor reorders the entries outside the nonce-sorted class -/
theorem sortEth_plain (order : List Nat) (cur : Nat → Int) (txs : List Tx) :
    (sortEth order cur txs).filter (fun t => !t.esort) = txs.filter (fun t => !t.esort) := by
  rw [sortEth_eq]
  split
  · rfl
  · rw [List.filter_append, List.filter_filter]
    have h1 : (List.filter (fun t => !t.esort) (List.flatMap (chainOf cur txs) order)) = [] := by
      rw [List.filter_eq_nil_iff]
      intro t ht
      obtain ⟨s, _, hs⟩ := List.mem_flatMap.mp ht
      simp [(mem_chainOf cur txs s t hs).2.1]
    rw [h1, List.append_nil]
    congr 1
    funext t
    simp

/-- entries of sender `s` in the nonce-sorted class: exactly `s`'s chain (when iterated) -/
theorem flatMap_filter_sender (cur : Nat → Int) (txs : List Tx) (s : Nat) :
    ∀ (order : List Nat), order.Nodup →
      (order.flatMap (chainOf cur txs)).filter (fun t => t.esort && t.snd == s) =
        if s ∈ order then chainOf cur txs s else [] := by
  intro order
  induction order with
  | nil => intro _; simp
  | cons s' rest ih =>
    intro hnd
    rw [List.nodup_cons] at hnd
    rw [List.flatMap_cons, List.filter_append, ih hnd.2]
    by_cases hs : s' = s
    · subst hs
      have h1 : (chainOf cur txs s').filter (fun t => t.esort && t.snd == s') = chainOf cur txs s' := by
        rw [List.filter_eq_self]
        intro t ht
        have := mem_chainOf cur txs s' t ht
        simp [this.2.1, this.2.2]
      simp [h1, hnd.1]
    · have h1 : (chainOf cur txs s').filter (fun t => t.esort && t.snd == s) = [] := by
        rw [List.filter_eq_nil_iff]
        intro t ht
        have := mem_chainOf cur txs s' t ht
        simp [this.2.2, hs]
      rw [h1, List.nil_append]
      have : (s ∈ s' :: rest) ↔ s ∈ rest := by
        simp only [List.mem_cons]
        constructor
        · rintro (h | h)
          · exact absurd h.symm hs
          · exact h
        · intro h; exact Or.inr h
      simp only [this]

theorem sortEth_eth (order : List Nat) (hnd : order.Nodup) (cur : Nat → Int) (txs : List Tx) (s : Nat) :
    consecFrom (cur s) (((sortEth order cur txs).filter (fun t => t.esort && t.snd == s)).map (·.nonce)) := by
  rw [sortEth_eq]
  split
  · rename_i h
    have hall := filter_all_of_length _ txs (beq_iff_eq.mp h)
    have : txs.filter (fun t => t.esort && t.snd == s) = [] := by
      rw [List.filter_eq_nil_iff]
      intro t ht
      rw [← hall] at ht
      have := (List.mem_filter.mp ht).2
      cases he : t.esort <;> simp [he] at this ⊢
    rw [this]; simp [consecFrom]
  · rw [List.filter_append]
    have h1 : (txs.filter (fun t => !t.esort)).filter (fun t => t.esort && t.snd == s) = [] := by
      rw [List.filter_eq_nil_iff]
      intro t ht
      have := (List.mem_filter.mp ht).2
      cases he : t.esort <;> simp [he] at this ⊢
    rw [h1, List.nil_append, flatMap_filter_sender cur txs s order hnd]
    split
    · exact chain_consec _ _ _
    · simp [consecFrom]

/-- the returned entries of sender `s` (when the map iteration reaches `s`) are `s`'s whole chain -/
theorem sortEth_sender_eq (order : List Nat) (hnd : order.Nodup) (cur : Nat → Int) (txs : List Tx) (s : Nat)
    (hs : s ∈ order) (hany : ∃ t ∈ txs, t.esort = true) :
    (sortEth order cur txs).filter (fun t => t.esort && t.snd == s) = chainOf cur txs s := by
  rw [sortEth_eq]
  split
  · rename_i h
    have hall := filter_all_of_length _ txs (beq_iff_eq.mp h)
    obtain ⟨t, ht, he⟩ := hany
    rw [← hall] at ht
    have := (List.mem_filter.mp ht).2
    simp [he] at this
  · rw [List.filter_append]
    have h1 : (txs.filter (fun t => !t.esort)).filter (fun t => t.esort && t.snd == s) = [] := by
      rw [List.filter_eq_nil_iff]
      intro t ht
      have := (List.mem_filter.mp ht).2
      cases he : t.esort <;> simp [he] at this ⊢
    rw [h1, List.nil_append, flatMap_filter_sender cur txs s order hnd]
    simp [hs]

theorem flatMap_chain_len (cur : Nat → Int) :
    ∀ (order : List Nat), order.Nodup → ∀ (txs : List Tx),
      (order.flatMap (fun s => chain (txs.filter (fun t => t.esort && t.snd == s))
          (txs.filter (fun t => t.esort && t.snd == s)).length (cur s))).length ≤ (txs.filter (·.esort)).length := by
  intro order
  induction order with
  | nil => intro _ txs; simp
  | cons s rest ih =>
    intro hnd txs
    rw [List.nodup_cons] at hnd
    rw [List.flatMap_cons, List.length_append]
    have h1 := chain_len (txs.filter (fun t => t.esort && t.snd == s)) (txs.filter (fun t => t.esort && t.snd == s)).length (cur s)
    -- the other senders only see the entries that are not `s`'s
    have h2 := ih hnd.2 (txs.filter (fun t => !(t.snd == s)))
    have hcongr : ∀ s' ∈ rest, (txs.filter (fun t => !(t.snd == s))).filter (fun t => t.esort && t.snd == s') =
        txs.filter (fun t => t.esort && t.snd == s') := by
      intro s' hs'
      rw [List.filter_filter]
      apply List.filter_congr
      intro t _
      by_cases h : t.snd = s'
      · subst h
        have : t.snd ≠ s := by intro h'; exact hnd.1 (h' ▸ hs')
        simp [this]
      · simp [h]
    have hflat : (rest.flatMap (fun s' => chain ((txs.filter (fun t => !(t.snd == s))).filter (fun t => t.esort && t.snd == s'))
          ((txs.filter (fun t => !(t.snd == s))).filter (fun t => t.esort && t.snd == s')).length (cur s'))) =
        (rest.flatMap (fun s' => chain (txs.filter (fun t => t.esort && t.snd == s'))
          (txs.filter (fun t => t.esort && t.snd == s')).length (cur s'))) := by
      apply List.flatMap_congr
      intro s' hs'
      rw [hcongr s' hs']
    rw [hflat] at h2
    -- split the eth entries by "is s's"
    have hsplit := split_len (fun t : Tx => t.esort) (fun t => t.snd == s) txs
    omega

theorem sortEth_len (order : List Nat) (hnd : order.Nodup) (cur : Nat → Int) (txs : List Tx) :
    (sortEth order cur txs).length ≤ txs.length := by
  rw [sortEth_eq]
  split
  · exact Nat.le_refl _
  · rw [List.length_append]
    have h1 := flatMap_chain_len cur order hnd txs
    have h2 := compl_len (fun t : Tx => t.esort) txs
    unfold chainOf
    omega

theorem sortEth_nodup (order : List Nat) (hnd : order.Nodup) (cur : Nat → Int) (txs : List Tx) (htx : txs.Nodup) :
    (sortEth order cur txs).Nodup := by
  rw [sortEth_eq]
  split
  · exact htx
  · rw [List.nodup_append]
    refine ⟨htx.filter _, ?_, ?_⟩
    · rw [List.nodup_flatMap]
      refine ⟨fun s _ => chain_nodup _ _ _, ?_⟩
      refine List.Pairwise.imp_of_mem ?_ hnd
      intro a b _ _ hab
      intro t hta htb
      have h1 := (mem_chainOf cur txs a t hta).2.2
      have h2 := (mem_chainOf cur txs b t htb).2.2
      exact hab (h1.symm.trans h2)
    · intro a ha b hb heq
      subst heq
      have h1 := (List.mem_filter.mp ha).2
      obtain ⟨s, _, hs⟩ := List.mem_flatMap.mp hb
      have h2 := (mem_chainOf cur txs s a hs).2.1
      simp [h2] at h1

end C23
