import Chain33Model.Model.C24
/-!
C24 — helper lemmas: the descending lane search equals the linear search on the bottom lane;
invariant of the lanes representation; sorted-list view of Insert/Delete/Find.  Core Lean only.
-/
namespace C24

variable {β : Type}

/-- bottom lane in descending score order (equal scores allowed: the raw skip list accepts them) -/
def Desc (nodes : List (Node β)) : Prop := nodes.Pairwise (fun a b => a.score ≥ b.score)

/-- lane `i` = the nodes whose level exceeds `i` (pointer chain `header.next[i]`, `.next[i]`, …) -/
def lane (nodes : List (Node β)) (i : Nat) : List (Node β) :=
  nodes.filter (fun n => decide (i < n.level))

/-- invariant of the lanes representation -/
structure LanesInv (sl : SkipList β) : Prop where
  sorted : Desc sl.nodes
  level_pos : 1 ≤ sl.level
  node_level : ∀ n ∈ sl.nodes, 1 ≤ n.level ∧ n.level ≤ sl.level
  /-- `sl.level` is exact: the top lane is non-empty unless the level is 1 -/
  top : sl.level = 1 ∨ ∃ n ∈ sl.nodes, n.level = sl.level

/-! ### list helpers -/

theorem take_len_append (A B : List α) : (A ++ B).take A.length = A := by simp
theorem drop_len_append (A B : List α) : (A ++ B).drop A.length = B := by simp

theorem mem_takeWhile_imp {p : α → Bool} {l : List α} {x : α} (h : x ∈ l.takeWhile p) :
    p x = true ∧ x ∈ l := by
  induction l with
  | nil => simp at h
  | cons a rest ih =>
    rw [List.takeWhile_cons] at h
    split at h
    · rcases List.mem_cons.mp h with rfl | h
      · exact ⟨by assumption, by simp⟩
      · exact ⟨(ih h).1, by simp [(ih h).2]⟩
    · simp at h

theorem drop_append_le (A B : List α) (p : Nat) (h : p ≤ A.length) :
    (A ++ B).drop p = A.drop p ++ B := by
  rw [List.drop_append_of_le_length h]

/-! ### one lane walk -/

theorem walkLane_nonadv (adv : Int → Bool) (i : Nat) (B : List (Node β))
    (hB : ∀ n ∈ B, adv n.score = false) : walkLane adv i B = 0 := by
  induction B with
  | nil => rfl
  | cons n rest ih =>
    have h1 := hB n (by simp)
    have h2 := ih (fun x hx => hB x (by simp [hx]))
    unfold walkLane
    split
    · simp [h1]
    · rw [h2]

theorem walkLane_le (adv : Int → Bool) (i : Nat) (A B : List (Node β))
    (hB : ∀ n ∈ B, adv n.score = false) : walkLane adv i (A ++ B) ≤ A.length := by
  induction A with
  | nil => simp [walkLane_nonadv adv i B hB]
  | cons a rest ih =>
    rw [List.cons_append]
    unfold walkLane
    split
    · split
      · simp only [List.length_cons]; omega
      · omega
    · split
      · omega
      · rename_i k hk
        rw [hk] at ih
        simp only [List.length_cons]; omega

theorem walkLane_zero_eq (adv : Int → Bool) (A B : List (Node β))
    (hA : ∀ n ∈ A, adv n.score = true) (hl : ∀ n ∈ A, 0 < n.level)
    (hB : ∀ n ∈ B, adv n.score = false) : walkLane adv 0 (A ++ B) = A.length := by
  induction A with
  | nil => simp [walkLane_nonadv adv 0 B hB]
  | cons a rest ih =>
    have ih := ih (fun x hx => hA x (by simp [hx])) (fun x hx => hl x (by simp [hx]))
    rw [List.cons_append]
    unfold walkLane
    simp only [hl a (by simp), if_true, hA a (by simp), ih, List.length_cons]
    omega

/-- The descending multi-lane search lands exactly behind the prefix of advancing nodes,
whatever the node levels are (as long as every node is on lane 0). -/
theorem search_split (adv : Int → Bool) (A B : List (Node β))
    (hA : ∀ n ∈ A, adv n.score = true) (hl : ∀ n ∈ A, 0 < n.level)
    (hB : ∀ n ∈ B, adv n.score = false) :
    ∀ (lvl pos : Nat), 1 ≤ lvl → pos ≤ A.length → search adv (A ++ B) lvl pos = A.length := by
  intro lvl
  induction lvl with
  | zero => intro pos h; omega
  | succ i ih =>
    intro pos _ hpos
    unfold search
    rw [drop_append_le A B pos hpos]
    have hA' : ∀ n ∈ A.drop pos, adv n.score = true := fun n hn => hA n (List.mem_of_mem_drop hn)
    have hl' : ∀ n ∈ A.drop pos, 0 < n.level := fun n hn => hl n (List.mem_of_mem_drop hn)
    have hle := walkLane_le adv i (A.drop pos) B hB
    rw [List.length_drop] at hle
    cases i with
    | zero =>
      rw [walkLane_zero_eq adv (A.drop pos) B hA' hl' hB, List.length_drop]
      unfold search; omega
    | succ j => exact ih _ (by omega) (by omega)

/-- the `update[]` positions never pass the advancing prefix -/
theorem updates_le (adv : Int → Bool) (A B : List (Node β))
    (hB : ∀ n ∈ B, adv n.score = false) :
    ∀ (lvl pos : Nat), pos ≤ A.length → ∀ u ∈ updates adv (A ++ B) lvl pos, pos ≤ u ∧ u ≤ A.length := by
  intro lvl
  induction lvl with
  | zero => intro pos _ u hu; simp [updates] at hu
  | succ i ih =>
    intro pos hpos u hu
    unfold updates at hu
    rw [drop_append_le A B pos hpos] at hu
    have hle := walkLane_le adv i (A.drop pos) B hB
    rw [List.length_drop] at hle
    simp only [List.mem_cons] at hu
    rcases hu with rfl | hu
    · omega
    · have := ih _ (by omega) u hu
      omega

/-- after a lane walk, no advancing node further on is on that lane: the walk really stopped at the
lane-`i` predecessor of the advancing prefix's end -/
theorem walkLane_stops (adv : Int → Bool) (i : Nat) (A B : List (Node β))
    (hA : ∀ n ∈ A, adv n.score = true) :
    ∀ n ∈ A.drop (walkLane adv i (A ++ B)), n.level ≤ i := by
  induction A with
  | nil => simp
  | cons a rest ih =>
    have ih := ih (fun x hx => hA x (by simp [hx]))
    rw [List.cons_append]
    unfold walkLane
    split
    · simp only [hA a (by simp), if_true]
      rw [Nat.add_comm, List.drop_succ_cons]; exact ih
    · rename_i hlane
      split
      · rename_i hk
        rw [hk] at ih
        intro n hn
        simp only [List.drop_zero] at hn ih
        rcases List.mem_cons.mp hn with rfl | hn
        · omega
        · exact ih n hn
      · rename_i k hk
        rw [hk] at ih
        rw [List.drop_succ_cons]; exact ih

/-- the `update[]` array is right: listing `update[lvl-1], …, update[0]`, between `update[i]` and the
end of the advancing prefix there is no node on lane `i` -/
def UpdOK (A : List (Node β)) : Nat → List Nat → Prop
  | 0, us => us = []
  | i + 1, [] => False
  | i + 1, u :: us => (∀ n ∈ A.drop u, n.level ≤ i) ∧ UpdOK A i us

theorem updates_ok (adv : Int → Bool) (A B : List (Node β))
    (hA : ∀ n ∈ A, adv n.score = true) (hB : ∀ n ∈ B, adv n.score = false) :
    ∀ (lvl pos : Nat), pos ≤ A.length → UpdOK A lvl (updates adv (A ++ B) lvl pos) := by
  intro lvl
  induction lvl with
  | zero => intro pos _; simp [updates, UpdOK]
  | succ i ih =>
    intro pos hpos
    unfold updates
    simp only
    rw [drop_append_le A B pos hpos]
    have hA' : ∀ n ∈ A.drop pos, adv n.score = true := fun n hn => hA n (List.mem_of_mem_drop hn)
    have hle := walkLane_le adv i (A.drop pos) B hB
    rw [List.length_drop] at hle
    refine ⟨?_, ih _ (by omega)⟩
    have := walkLane_stops adv i (A.drop pos) B hA'
    rw [List.drop_drop] at this
    exact this

/-! ### splitting a descending list at a threshold -/

/-- `adv` is upward closed in the score (both comparisons used by the Go code are) -/
def UpClosed (adv : Int → Bool) : Prop := ∀ a b : Int, a ≥ b → adv b = true → adv a = true

theorem upClosed_gt (v : Int) : UpClosed (fun s => decide (s > v)) := by
  intro a b h hb; simp at *; omega

theorem upClosed_ge (v : Int) : UpClosed (fun s => decide (s ≥ v)) := by
  intro a b h hb; simp at *; omega

theorem desc_dropWhile_nonadv (adv : Int → Bool) (hu : UpClosed adv) (nodes : List (Node β))
    (hd : Desc nodes) : ∀ n ∈ nodes.dropWhile (fun n => adv n.score), adv n.score = false := by
  induction nodes with
  | nil => simp
  | cons a rest ih =>
    have hd' : Desc rest := (List.pairwise_cons.mp hd).2
    have ha : ∀ b ∈ rest, a.score ≥ b.score := (List.pairwise_cons.mp hd).1
    rw [List.dropWhile_cons]
    split
    · exact ih hd'
    · rename_i hadv
      intro n hn
      rcases List.mem_cons.mp hn with rfl | hn
      · simpa using hadv
      · cases h : adv n.score with
        | false => rfl
        | true => exact absurd (hu _ _ (ha n hn) h) (by simpa using hadv)

theorem takeWhile_adv (adv : Int → Bool) (nodes : List (Node β)) :
    ∀ n ∈ nodes.takeWhile (fun n => adv n.score), adv n.score = true := by
  intro n hn
  exact (mem_takeWhile_imp hn).1

/-- **find_correct (position)**: under the invariant the lane search returns the length of the
prefix of advancing nodes — the same node a linear scan of the bottom lane finds. -/
theorem search_eq_takeWhile (adv : Int → Bool) (hu : UpClosed adv) (sl : SkipList β)
    (inv : LanesInv sl) :
    search adv sl.nodes sl.level 0 = (sl.nodes.takeWhile (fun n => adv n.score)).length := by
  have hsplit := (List.takeWhile_append_dropWhile (p := fun n : Node β => adv n.score) (l := sl.nodes))
  have h := search_split adv (sl.nodes.takeWhile (fun n => adv n.score)) (sl.nodes.dropWhile (fun n => adv n.score))
    (takeWhile_adv adv sl.nodes)
    (fun n hn => (inv.node_level n (mem_takeWhile_imp hn).2).1)
    (desc_dropWhile_nonadv adv hu sl.nodes inv.sorted) sl.level 0 inv.level_pos (Nat.zero_le _)
  rw [hsplit] at h
  exact h

theorem take_search (adv : Int → Bool) (hu : UpClosed adv) (sl : SkipList β) (inv : LanesInv sl) :
    sl.nodes.take (search adv sl.nodes sl.level 0) = sl.nodes.takeWhile (fun n => adv n.score) := by
  rw [search_eq_takeWhile adv hu sl inv]
  conv => lhs; arg 2; rw [← List.takeWhile_append_dropWhile (p := fun n : Node β => adv n.score) (l := sl.nodes)]
  exact take_len_append _ _

theorem drop_search (adv : Int → Bool) (hu : UpClosed adv) (sl : SkipList β) (inv : LanesInv sl) :
    sl.nodes.drop (search adv sl.nodes sl.level 0) = sl.nodes.dropWhile (fun n => adv n.score) := by
  rw [search_eq_takeWhile adv hu sl inv]
  conv => lhs; arg 2; rw [← List.takeWhile_append_dropWhile (p := fun n : Node β => adv n.score) (l := sl.nodes)]
  exact drop_len_append _ _

/-- **the `update[]` array of `Insert`** (search with `Compare <= 0`): for every lane `i` below
`sl.level`, no node between `update[i]` and the insertion point is on lane `i` — splicing the new
node behind `update[i]` on lane `i` (what the pointer code does) is inserting it at the insertion
point of the bottom lane and filtering by level (what the model does). -/
theorem insert_updates_ok (sl : SkipList β) (inv : LanesInv sl) (score : Int) :
    UpdOK (sl.nodes.takeWhile (fun n => decide (n.score ≥ score))) sl.level
      (updates (fun s => decide (s ≥ score)) sl.nodes sl.level 0) := by
  have hsplit := (List.takeWhile_append_dropWhile (p := fun n : Node β => decide (n.score ≥ score)) (l := sl.nodes))
  have h := updates_ok (fun s => decide (s ≥ score)) (sl.nodes.takeWhile (fun n => decide (n.score ≥ score)))
    (sl.nodes.dropWhile (fun n => decide (n.score ≥ score)))
    (takeWhile_adv (fun s => decide (s ≥ score)) sl.nodes)
    (desc_dropWhile_nonadv (fun s => decide (s ≥ score)) (upClosed_ge score) sl.nodes inv.sorted) sl.level 0 (Nat.zero_le _)
  rw [hsplit] at h
  exact h

/-! ### Insert / Delete / Find as sorted-list operations -/

/-- reference: insert behind every entry whose score is ≥ the new one (stable) -/
def sortedInsert (nodes : List (Node β)) (n : Node β) : List (Node β) :=
  nodes.takeWhile (fun x => decide (x.score ≥ n.score)) ++ n :: nodes.dropWhile (fun x => decide (x.score ≥ n.score))

theorem insert_nodes (sl : SkipList β) (inv : LanesInv sl) (score : Int) (v : β) (lvl : Nat) :
    (sl.insert score v lvl).nodes = sortedInsert sl.nodes ⟨score, lvl, v⟩ := by
  unfold SkipList.insert sortedInsert
  simp only
  rw [take_search _ (upClosed_ge score) sl inv, drop_search _ (upClosed_ge score) sl inv]

theorem desc_sublist {l₁ l₂ : List (Node β)} (h : l₁.Sublist l₂) (hd : Desc l₂) : Desc l₁ :=
  List.Pairwise.sublist h hd

theorem desc_sortedInsert (nodes : List (Node β)) (hd : Desc nodes) (n : Node β) :
    Desc (sortedInsert nodes n) := by
  unfold sortedInsert Desc
  have hsplit := List.takeWhile_append_dropWhile (p := fun x : Node β => decide (x.score ≥ n.score)) (l := nodes)
  have hB := desc_dropWhile_nonadv _ (upClosed_ge n.score) nodes hd
  have hA : ∀ x ∈ nodes.takeWhile (fun x => decide (x.score ≥ n.score)), x.score ≥ n.score := by
    intro x hx; simpa using (mem_takeWhile_imp hx).1
  have hd' : Desc (nodes.takeWhile (fun x => decide (x.score ≥ n.score)) ++ nodes.dropWhile (fun x => decide (x.score ≥ n.score))) := by
    rw [hsplit]; exact hd
  unfold Desc at hd'
  rw [List.pairwise_append] at hd' ⊢
  refine ⟨hd'.1, ?_, ?_⟩
  · rw [List.pairwise_cons]
    refine ⟨?_, hd'.2.1⟩
    intro b hb
    have := hB b hb
    simp at this; omega
  · intro a ha x hx
    rcases List.mem_cons.mp hx with rfl | hx
    · exact hA a ha
    · exact hd'.2.2 a ha x hx

theorem mem_sortedInsert {nodes : List (Node β)} {n x : Node β} :
    x ∈ sortedInsert nodes n ↔ x = n ∨ x ∈ nodes := by
  unfold sortedInsert
  have hsplit := List.takeWhile_append_dropWhile (p := fun x : Node β => decide (x.score ≥ n.score)) (l := nodes)
  constructor
  · intro h
    rcases List.mem_append.mp h with h | h
    · right; rw [← hsplit]; exact List.mem_append_left _ h
    · rcases List.mem_cons.mp h with h | h
      · left; exact h
      · right; rw [← hsplit]; exact List.mem_append_right _ h
  · intro h
    rcases h with rfl | h
    · simp
    · rw [← hsplit] at h
      rcases List.mem_append.mp h with h | h
      · exact List.mem_append_left _ h
      · exact List.mem_append_right _ (List.mem_cons_of_mem _ h)

/-- **lanes_inv / Insert**: preserved for *every* level choice `lvl ≥ 1`. -/
theorem lanesInv_insert (sl : SkipList β) (inv : LanesInv sl) (score : Int) (v : β) (lvl : Nat)
    (hl : 1 ≤ lvl) : LanesInv (sl.insert score v lvl) := by
  have hn := insert_nodes sl inv score v lvl
  have hlev : (sl.insert score v lvl).level = if lvl > sl.level then lvl else sl.level := rfl
  refine ⟨?_, ?_, ?_, ?_⟩
  · rw [hn]; exact desc_sortedInsert _ inv.sorted _
  · rw [hlev]; have := inv.level_pos; split <;> omega
  · intro n hmem
    rw [hn] at hmem
    rw [hlev]
    rcases mem_sortedInsert.mp hmem with rfl | hmem
    · simp only; split <;> omega
    · have := inv.node_level n hmem
      split <;> omega
  · rw [hlev]
    by_cases hgt : lvl > sl.level
    · right
      refine ⟨⟨score, lvl, v⟩, ?_, ?_⟩
      · rw [hn]; exact mem_sortedInsert.mpr (Or.inl rfl)
      · simp [hgt]
    · simp only [hgt, if_false]
      rcases inv.top with h | ⟨n, hmem, hnl⟩
      · left; exact h
      · right; exact ⟨n, by rw [hn]; exact mem_sortedInsert.mpr (Or.inr hmem), hnl⟩

theorem shrink_spec (nodes : List (Node β)) : ∀ (l : Nat), 1 ≤ l → (∀ n ∈ nodes, n.level ≤ l) →
    1 ≤ shrink nodes l ∧ shrink nodes l ≤ l ∧ (∀ n ∈ nodes, n.level ≤ shrink nodes l) ∧
    (shrink nodes l = 1 ∨ ∃ n ∈ nodes, n.level = shrink nodes l) := by
  intro l
  induction l with
  | zero => intro h; omega
  | succ k ih =>
    intro _ hall
    unfold shrink
    split
    · rename_i hc
      have hall' : ∀ n ∈ nodes, n.level ≤ k := by
        intro n hn; have := List.all_eq_true.mp hc.2 n hn; simpa using this
      have := ih hc.1 hall'
      exact ⟨this.1, by omega, this.2.2.1, this.2.2.2⟩
    · rename_i hc
      refine ⟨by omega, Nat.le_refl _, hall, ?_⟩
      by_cases hk : 1 ≤ k
      · right
        have hnot : ¬ (nodes.all (fun n => decide (n.level ≤ k)) = true) := fun h => hc ⟨hk, h⟩
        rw [List.all_eq_true] at hnot
        have : ∃ n, n ∈ nodes ∧ ¬ n.level ≤ k := by
          apply Classical.byContradiction
          intro hne
          apply hnot
          intro n hn
          have : n.level ≤ k := Classical.byContradiction (fun h => hne ⟨n, hn, h⟩)
          simpa using this
        obtain ⟨n, hn, hgt⟩ := this
        exact ⟨n, hn, by have := hall n hn; omega⟩
      · left; omega

/-- reference for Delete: drop the first node with that score -/
def eraseScore (nodes : List (Node β)) (score : Int) : List (Node β) :=
  nodes.eraseP (fun n => decide (n.score = score))

theorem eraseP_append_notin (p : α → Bool) (A B : List α) (h : ∀ a ∈ A, p a = false) :
    (A ++ B).eraseP p = A ++ B.eraseP p := by
  induction A with
  | nil => rfl
  | cons a rest ih =>
    have ha := h a (by simp)
    rw [List.cons_append, List.eraseP_cons, ha]
    simp only [cond_false]
    rw [ih (fun x hx => h x (by simp [hx]))]; rfl

theorem find?_append_notin (p : α → Bool) (A B : List α) (h : ∀ a ∈ A, p a = false) :
    (A ++ B).find? p = B.find? p := by
  induction A with
  | nil => rfl
  | cons a rest ih =>
    have ha := h a (by simp)
    rw [List.cons_append, List.find?_cons, ha]
    exact ih (fun x hx => h x (by simp [hx]))

/-- the nodes in front of the `find` position are strictly greater, the rest is not -/
theorem split_gt (sl : SkipList β) (inv : LanesInv sl) (score : Int) :
    sl.nodes.take (sl.findPos score) = sl.nodes.takeWhile (fun n => decide (n.score > score)) ∧
    sl.nodes.drop (sl.findPos score) = sl.nodes.dropWhile (fun n => decide (n.score > score)) :=
  ⟨take_search _ (upClosed_gt score) sl inv, drop_search _ (upClosed_gt score) sl inv⟩

/-- **find_correct**: `Find` returns the first bottom-lane node with that score. -/
theorem find_eq (sl : SkipList β) (inv : LanesInv sl) (score : Int) :
    sl.find score = sl.nodes.find? (fun n => decide (n.score = score)) := by
  have hsplit := List.takeWhile_append_dropWhile (p := fun n : Node β => decide (n.score > score)) (l := sl.nodes)
  have hA : ∀ a ∈ sl.nodes.takeWhile (fun n => decide (n.score > score)), decide (a.score = score) = false := by
    intro a ha
    have := (mem_takeWhile_imp ha).1
    simp at this ⊢; omega
  have hB := desc_dropWhile_nonadv _ (upClosed_gt score) sl.nodes inv.sorted
  have hdD : Desc (sl.nodes.dropWhile (fun n => decide (n.score > score))) :=
    desc_sublist (List.dropWhile_sublist _) inv.sorted
  unfold SkipList.find
  rw [(split_gt sl inv score).2]
  conv => rhs; rw [← hsplit]
  rw [find?_append_notin _ _ _ hA]
  generalize sl.nodes.dropWhile (fun n => decide (n.score > score)) = D at *
  cases D with
  | nil => rfl
  | cons n rest =>
    simp only
    rw [List.find?_cons]
    by_cases hs : n.score = score
    · simp [hs]
    · simp only [hs, if_false, decide_false]
      symm
      rw [List.find?_eq_none]
      intro x hx
      have h1 := hB n (by simp)
      have h2 := (List.pairwise_cons.mp hdD).1 x hx
      simp at h1 ⊢; omega

/-- `FindGreaterOrEqual` returns the first bottom-lane node whose score is ≤ the argument. -/
theorem findGE_eq (sl : SkipList β) (inv : LanesInv sl) (score : Int) :
    sl.findGE score = sl.nodes.find? (fun n => decide (n.score ≤ score)) := by
  have hsplit := List.takeWhile_append_dropWhile (p := fun n : Node β => decide (n.score > score)) (l := sl.nodes)
  have hA : ∀ a ∈ sl.nodes.takeWhile (fun n => decide (n.score > score)), decide (a.score ≤ score) = false := by
    intro a ha
    have := (mem_takeWhile_imp ha).1
    simp at this ⊢; omega
  have hB := desc_dropWhile_nonadv _ (upClosed_gt score) sl.nodes inv.sorted
  unfold SkipList.findGE
  rw [(split_gt sl inv score).2]
  conv => rhs; rw [← hsplit]
  rw [find?_append_notin _ _ _ hA]
  generalize sl.nodes.dropWhile (fun n => decide (n.score > score)) = D at *
  cases D with
  | nil => rfl
  | cons n rest =>
    have h1 := hB n (by simp)
    simp at h1
    simp [h1]

theorem delete_nodes (sl : SkipList β) (inv : LanesInv sl) (score : Int) :
    (sl.delete score).1.nodes = eraseScore sl.nodes score ∧
    ((sl.delete score).2 = true ↔ ∃ n ∈ sl.nodes, n.score = score) := by
  have hsplit := List.takeWhile_append_dropWhile (p := fun n : Node β => decide (n.score > score)) (l := sl.nodes)
  have hA : ∀ a ∈ sl.nodes.takeWhile (fun n => decide (n.score > score)), decide (a.score = score) = false := by
    intro a ha
    have := (mem_takeWhile_imp ha).1
    simp at this ⊢; omega
  have hB := desc_dropWhile_nonadv _ (upClosed_gt score) sl.nodes inv.sorted
  have hdD : Desc (sl.nodes.dropWhile (fun n => decide (n.score > score))) :=
    desc_sublist (List.dropWhile_sublist _) inv.sorted
  have hmem : (∃ n ∈ sl.nodes, n.score = score) ↔
      ∃ n ∈ sl.nodes.dropWhile (fun n => decide (n.score > score)), n.score = score := by
    constructor
    · rintro ⟨n, hn, hs⟩
      rw [← hsplit] at hn
      rcases List.mem_append.mp hn with h | h
      · have := hA n h; simp [hs] at this
      · exact ⟨n, h, hs⟩
    · rintro ⟨n, hn, hs⟩
      exact ⟨n, (List.dropWhile_sublist _).subset hn, hs⟩
  unfold SkipList.delete eraseScore
  simp only
  rw [(split_gt sl inv score).1, (split_gt sl inv score).2, hmem]
  conv => lhs; rhs; rw [← hsplit]
  rw [eraseP_append_notin _ _ _ hA]
  generalize sl.nodes.dropWhile (fun n => decide (n.score > score)) = D at *
  generalize sl.nodes.takeWhile (fun n => decide (n.score > score)) = A at *
  cases D with
  | nil => simp [← hsplit]
  | cons n rest =>
    simp only
    by_cases hs : n.score = score
    · simp [hs]
    · have hnone : ∀ x ∈ rest, ¬ x.score = score := by
        intro x hx
        have h1 := hB n (by simp)
        have h2 := (List.pairwise_cons.mp hdD).1 x hx
        simp at h1; omega
      have : rest.eraseP (fun n => decide (n.score = score)) = rest := by
        apply List.eraseP_of_forall_not
        intro x hx; simpa using hnone x hx
      simp only [hs, if_false, List.eraseP_cons, decide_false, this, ← hsplit]
      simp only [List.mem_cons, exists_eq_or_imp, hs, false_or, Bool.false_eq_true, false_iff, cond_false, true_and]
      rintro ⟨x, hx, hxs⟩
      exact hnone x hx hxs

theorem eraseScore_sublist (nodes : List (Node β)) (score : Int) :
    (eraseScore nodes score).Sublist nodes := List.eraseP_sublist

/-- **lanes_inv / Delete**. -/
theorem lanesInv_delete (sl : SkipList β) (inv : LanesInv sl) (score : Int) :
    LanesInv (sl.delete score).1 := by
  have hn := (delete_nodes sl inv score).1
  have hsub : (sl.delete score).1.nodes.Sublist sl.nodes := by rw [hn]; exact eraseScore_sublist _ _
  have hlev : (sl.delete score).1.level = sl.level ∧ (sl.delete score).1.nodes = sl.nodes ∨
      (sl.delete score).1.level = shrink (sl.delete score).1.nodes sl.level := by
    unfold SkipList.delete
    simp only
    split
    · split
      · right; rfl
      · left; exact ⟨rfl, rfl⟩
    · left; exact ⟨rfl, rfl⟩
  rcases hlev with ⟨h1, h2⟩ | h
  · exact ⟨by rw [h2]; exact inv.sorted, by rw [h1]; exact inv.level_pos,
      by rw [h1, h2]; exact inv.node_level, by rw [h1, h2]; exact inv.top⟩
  · have hall : ∀ n ∈ (sl.delete score).1.nodes, n.level ≤ sl.level :=
      fun n hn => (inv.node_level n (hsub.subset hn)).2
    have sp := shrink_spec (sl.delete score).1.nodes sl.level inv.level_pos hall
    refine ⟨desc_sublist hsub inv.sorted, by rw [h]; exact sp.1, ?_, by rw [h]; exact sp.2.2.2⟩
    intro n hn
    rw [h]
    exact ⟨(inv.node_level n (hsub.subset hn)).1, sp.2.2.1 n hn⟩

theorem lanesInv_new : LanesInv (SkipList.new : SkipList β) :=
  ⟨List.Pairwise.nil, Nat.le_refl _, by simp [SkipList.new], Or.inl rfl⟩

/-! ### lanes: sorted, nested -/

theorem lane_sublist_succ (nodes : List (Node β)) (i : Nat) :
    (lane nodes (i + 1)).Sublist (lane nodes i) := by
  unfold lane
  induction nodes with
  | nil => simp
  | cons a rest ih =>
    simp only [List.filter_cons]
    by_cases h1 : i + 1 < a.level
    · have h0 : i < a.level := by omega
      simp [h1, h0, ih]
    · by_cases h0 : i < a.level
      · simp only [h1, h0, decide_false, decide_true, if_true]
        exact ih.cons _
      · simp [h1, h0, ih]

theorem lane_desc (nodes : List (Node β)) (hd : Desc nodes) (i : Nat) : Desc (lane nodes i) :=
  desc_sublist List.filter_sublist hd

theorem lane_zero (sl : SkipList β) (inv : LanesInv sl) : lane sl.nodes 0 = sl.nodes := by
  unfold lane
  apply List.filter_eq_self.mpr
  intro n hn
  have := (inv.node_level n hn).1
  simp; omega

theorem lane_top_empty (sl : SkipList β) (inv : LanesInv sl) (i : Nat) (h : sl.level ≤ i) :
    lane sl.nodes i = [] := by
  unfold lane
  apply List.filter_eq_nil_iff.mpr
  intro n hn
  have := (inv.node_level n hn).2
  simp; omega

end C24
